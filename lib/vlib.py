"""Common machinery for /verif checks: TLC runs, driver build/run, trace
validation, known findings, evidence.  Python 3 stdlib only."""
import json, os, re, shutil, subprocess, sys, tempfile, time, hashlib

VERIF = os.path.dirname(os.path.dirname(os.path.abspath(__file__)))
REPO = os.environ.get("VERIF_REPO", "/repo")
SPECS = os.path.join(VERIF, "specs")
HARNESS = os.path.join(VERIF, "harness")
NCPU = os.cpu_count() or 4
# mutant runs (bin/mutant-run) must not overwrite the evidence of the real tree
OUTROOT = "/tmp/verif-mutant-out" if os.environ.get("VERIF_NOEVIDENCE") else VERIF


class MachineryError(Exception):
    """TLC crash/timeout, driver build failure, no events... -> exit 2."""


def log(*a):
    print(*a, flush=True)


def goenv():
    e = dict(os.environ)
    e.update(GOFLAGS="-mod=mod", GOPROXY="off", GOSUMDB="off", GOTOOLCHAIN="local")
    e.setdefault("GOCACHE", os.path.join(VERIF, ".cache", "go-build"))
    return e


class Ctx:
    """One check run: scratch dir, counters, violations, evidence."""

    def __init__(self, prop, tier, seed):
        self.prop, self.tier, self.seed = prop, tier, seed
        self.t0 = time.time()
        self.scratch = tempfile.mkdtemp(prefix="vcheck.%s." % prop)
        self.specdir = os.path.join(self.scratch, "specs")
        os.makedirs(self.specdir)
        # flat copy of every spec module (modules EXTEND each other across dirs)
        for root, _, files in os.walk(SPECS):
            for f in files:
                shutil.copy(os.path.join(root, f), os.path.join(self.specdir, f))
        self.states = 0
        self.transitions = 0
        self.traces_validated = 0
        self.evaluations = 0
        self.nontrivial = 0
        self.samples = []
        self.violations = []   # dicts: sig, what, replay(dict)
        self.known_hits = {}
        self.notes = []
        self.tlc_runs = []
        self.exhaustive = False
        self.extra = {}
        self._driver = None

    def cleanup(self):
        shutil.rmtree(self.scratch, ignore_errors=True)
        # TLC leaves /tmp/tlc-* behind; other checks may be running concurrently, so
        # only remove the ones that are clearly stale
        for d in os.listdir("/tmp"):
            if d.startswith("tlc-"):
                p = os.path.join("/tmp", d)
                try:
                    if time.time() - os.path.getmtime(p) > 3600:
                        shutil.rmtree(p, ignore_errors=True)
                except OSError:
                    pass

    # ------------------------------------------------------------------ TLC
    def tlc(self, module, cfg, workers=None, simulate=None, depth=None, timeout=900,
            expect_violation=False, collect=False, extra=None, count=True, jvm=None, dfs=False):
        """Run TLC on specs/<module>.tla with <cfg>. Returns dict with
        generated, distinct, violated, out (lines), cases (if collect)."""
        workers = workers or min(NCPU, 8)
        meta = tempfile.mkdtemp(prefix="meta.", dir=self.scratch)
        cmd = ["timeout", str(timeout), "tlc", "-workers", str(workers), "-metadir", meta,
               "-config", cfg]
        if simulate:
            cmd += ["-simulate", "num=%d" % simulate, "-depth", str(depth or 50),
                    "-seed", str(self.seed)]
        else:
            cmd += ["-seed", str(self.seed)]
        cmd += list(extra or [])
        cmd += [module + ".tla"]
        env = dict(os.environ)
        jto = "-Xss512m"
        if dfs:
            jto += " -Dtlc2.tool.queue.IStateQueue=StateDeque"
        if jvm:
            jto += " " + jvm
        env["JAVA_TOOL_OPTIONS"] = jto
        t = time.time()
        outpath = os.path.join(meta, "tlc.out")
        with open(outpath, "wb") as fo:
            p = subprocess.run(cmd, cwd=self.specdir, env=env, stdout=fo, stderr=subprocess.STDOUT)
        res = {"module": module, "cfg": cfg, "rc": p.returncode, "wall_s": round(time.time() - t, 2),
               "generated": 0, "distinct": 0, "violated": False, "cases": [], "errors": []}
        cases = []
        tail = []
        with open(outpath, "r", errors="replace") as fi:
            for line in fi:
                if collect and line.startswith('"{'):
                    try:
                        cases.append(json.loads(json.loads(line)))
                    except Exception as ex:  # torn line -> machinery error
                        raise MachineryError("unparsable emitted case: %s (%s)" % (line[:200], ex))
                    continue
                if line.startswith('"'):
                    continue
                tail.append(line.rstrip("\n"))
                if len(tail) > 400:
                    tail = tail[-300:]
                m = re.match(r"(\d+) states generated, (\d+) distinct states found", line)
                if m:
                    res["generated"], res["distinct"] = int(m.group(1)), int(m.group(2))
                m = re.match(r"The number of states generated: (\d+)", line)
                if m:
                    res["generated"] = int(m.group(1))
                    res["distinct"] = max(res["distinct"], int(m.group(1)))
                if line.startswith("Error:"):
                    res["errors"].append(line.strip())
        res["tail"] = tail
        res["cases"] = cases
        viol = [e for e in res["errors"] if "is violated" in e or "Invariant" in e and "violated" in e
                or "Deadlock reached" in e or "Temporal properties were violated" in e]
        res["violated"] = bool(viol)
        done = any("Model checking completed" in l or "Finished in" in l for l in tail)
        other = [e for e in res["errors"] if e not in viol and "The behavior up to this point" not in e
                 and "The following behavior constitutes a counter-example" not in e]
        self.tlc_runs.append({k: res[k] for k in ("module", "cfg", "rc", "wall_s", "generated", "distinct", "violated")})
        if p.returncode == 124:
            raise MachineryError("TLC timeout on %s/%s" % (module, cfg))
        if other or not done:
            raise MachineryError("TLC failed on %s/%s rc=%d:\n%s" % (module, cfg, p.returncode, "\n".join(tail[-40:])))
        if res["violated"] and not expect_violation:
            raise MachineryError("TLC reports a violation in %s/%s (the spec itself is inconsistent):\n%s"
                                 % (module, cfg, "\n".join(tail[-60:])))
        if expect_violation and not res["violated"]:
            raise MachineryError("negative control %s/%s was expected to be refuted by TLC but was not" % (module, cfg))
        if count and not expect_violation:
            self.states += res["distinct"]
            self.transitions += res["generated"]
        shutil.rmtree(meta, ignore_errors=True)
        return res

    # --------------------------------------------------------------- driver
    def build_driver(self, race=False):
        """Build the Go driver from /repo's current working tree with -tags verif.
        Only the shared files (main.go, util.go, corpus*.go, common*.go) and the files of
        this property (cxx*.go, plus ctx.extra_prefixes) are compiled, so a half-written
        file of another property can never break this check."""
        out = os.path.join(self.scratch, "driver-race" if race else "driver")
        if os.path.exists(out):
            return out
        gomod = os.path.join(HARNESS, "go.mod")
        txt = open(gomod).read()
        want = "replace github.com/tsawler/tabula => %s" % REPO
        new = re.sub(r"replace github.com/tsawler/tabula => \S+", want, txt)
        # the harness module lives in /verif; build it in a scratch copy so that a
        # different VERIF_REPO (mutant worktrees) never edits tracked files
        hdir = os.path.join(self.scratch, "harness")
        if not os.path.exists(hdir):
            shutil.copytree(HARNESS, hdir)
            keep = [self.prop.lower()] + list(getattr(self, "extra_prefixes", []))
            ddir = os.path.join(hdir, "cmd", "driver")
            for f in os.listdir(ddir):
                if not f.endswith(".go"):
                    continue
                if re.match(r"(main|util|corpus.*|common.*)\.go$", f) or any(f.startswith(k) for k in keep):
                    continue
                os.unlink(os.path.join(ddir, f))
            open(os.path.join(hdir, "go.mod"), "w").write(new)
            shutil.copy(os.path.join(REPO, "go.sum"), os.path.join(hdir, "go.sum"))
        cmd = ["go", "build", "-tags", "verif", "-o", out]
        if race:
            cmd.insert(2, "-race")
        cmd.append("./cmd/driver")
        p = subprocess.run(cmd, cwd=hdir, env=goenv(), stdout=subprocess.PIPE, stderr=subprocess.STDOUT, text=True)
        if p.returncode != 0:
            raise MachineryError("driver build failed:\n" + p.stdout[-4000:])
        return out

    def run_driver(self, args, cases=None, race=False, timeout=3600, env=None):
        """Run `driver <args...> <in> <out>`; cases -> ndjson input. Returns list of result dicts.
        If the driver process dies (the code under test aborted the process: stack exhaustion,
        out-of-memory, unrecovered panic on another goroutine) or exceeds the timeout, the input is
        bisected until the offending cases are isolated; each is reported as a failed result with
        clause "abort" (at most 3 are isolated, the rest of their half is skipped and counted)."""
        cases = list(cases or [])
        self._abort_budget = 3
        return self._run_driver(args, cases, 0, race, timeout, env)

    def _run_driver(self, args, cases, base, race, timeout, env):
        rc, res, out = self._driver_once(args, cases, race, timeout, env)
        if rc == 0:
            for r in res:
                r["case"] = r.get("case", 0) + base
            return res
        if rc == 2 and "driver error:" in out:
            raise MachineryError("driver %s failed rc=%d:\n%s" % (args, rc, out[-3000:]))
        if not cases:
            raise MachineryError("driver %s died rc=%d:\n%s" % (args, rc, out[-3000:]))
        if self._abort_budget <= 0:
            # enough aborting cases have been isolated and reported; the rest of this
            # half is not examined (counted, never silently passed: the run already fails)
            self.extra["cases_skipped_after_aborts"] = self.extra.get("cases_skipped_after_aborts", 0) + len(cases)
            return []
        if len(cases) == 1:
            self._abort_budget -= 1
            kind = "timeout" if rc == 124 else "abort"
            lines = [l for l in out.splitlines() if l.strip()]
            head = " | ".join(lines[:3])[:400]
            where = [l.strip() for l in lines if "tabula" in l and "(" in l][:4]
            return [{"case": base, "ok": False, "clause": kind, "sig": "%s:%s" % (self.prop, kind),
                     "what": "the process %s while handling this case: %s ... %s" % (
                         "did not finish within %ds" % timeout if rc == 124 else "was aborted", head, " | ".join(where)),
                     "nontrivial": True, "key": "abort-%d" % base,
                     "replay": {"case": cases[0], "driver_args": list(args), "output": out[-2000:]}}]
        mid = len(cases) // 2
        short = max(60, min(timeout, 600))
        a = self._run_driver(args, cases[:mid], base, race, short, env)
        b = self._run_driver(args, cases[mid:], base + mid, race, short, env)
        return a + b

    def _driver_once(self, args, cases, race, timeout, env):
        drv = self.build_driver(race)
        fin = tempfile.mktemp(prefix="in.", suffix=".ndjson", dir=self.scratch)
        fout = tempfile.mktemp(prefix="out.", suffix=".ndjson", dir=self.scratch)
        with open(fin, "w") as f:
            for c in cases or []:
                f.write(json.dumps(c, separators=(",", ":")) + "\n")
        e = goenv()
        e["VERIF_SEED"] = str(self.seed)
        e["VERIF_TIER"] = self.tier
        e["VERIF_SCRATCH"] = self.scratch
        e.setdefault("GOMEMLIMIT", "6GiB")
        e.update(env or {})
        # address-space cap: an allocation sized from attacker-controlled numbers fails
        # inside the child instead of taking the machine down
        cmd = ["bash", "-c", "ulimit -v 16777216; exec timeout %d \"$@\"" % timeout, "drv", drv] + list(args) + [fin, fout]
        p = subprocess.run(cmd, env=e, stdout=subprocess.PIPE, stderr=subprocess.STDOUT, text=True, errors="replace")
        res = []
        if p.returncode == 0:
            with open(fout) as f:
                for line in f:
                    if line.strip():
                        res.append(json.loads(line))
        for x in (fin, fout):
            if os.path.exists(x):
                os.unlink(x)
        return p.returncode, res, p.stdout

    # ----------------------------------------------------- trace validation
    def validate_trace(self, module, cfg, events, tracefile="trace.ndjson", timeout=900, segments=None):
        """Write events to tracefile and run the trace spec. Returns (accepted, depth)."""
        if not events:
            raise MachineryError("no trace events recorded for %s" % module)
        path = os.path.join(self.specdir, tracefile)
        with open(path, "w") as f:
            for ev in events:
                f.write(json.dumps(ev, separators=(",", ":")) + "\n")
        return self._tlc_trace(module, cfg, timeout)

    def _tlc_trace(self, module, cfg, timeout):
        meta = tempfile.mkdtemp(prefix="meta.", dir=self.scratch)
        env = dict(os.environ)
        env["JAVA_TOOL_OPTIONS"] = "-Xss512m"
        cmd = ["timeout", str(timeout), "tlc", "-workers", "1", "-metadir", meta, "-config", cfg, module + ".tla"]
        p = subprocess.run(cmd, cwd=self.specdir, env=env, stdout=subprocess.PIPE, stderr=subprocess.STDOUT, text=True)
        out = p.stdout
        shutil.rmtree(meta, ignore_errors=True)
        if p.returncode == 124:
            raise MachineryError("trace validation timeout %s" % module)
        depth = 0
        m = re.search(r"The depth of the complete state graph search is (\d+)", out)
        if m:
            depth = int(m.group(1))
        m2 = re.search(r"(\d+) states generated, (\d+) distinct states found", out)
        accepted = ("Model checking completed. No error has been found" in out)
        rejected = ("Postcondition" in out or "postcondition" in out.lower()) and not accepted
        inv = "is violated" in out
        if not accepted and not rejected and not inv:
            raise MachineryError("trace validation failed to run %s/%s:\n%s" % (module, cfg, out[-3000:]))
        self.tlc_runs.append({"module": module, "cfg": cfg, "rc": p.returncode, "accepted": accepted, "depth": depth,
                              "generated": int(m2.group(1)) if m2 else 0})
        return {"accepted": accepted, "depth": depth, "out": out, "inv_violated": inv}

    # ------------------------------------------------------------- verdicts
    def violation(self, sig, what, replay):
        self.violations.append({"sig": sig, "what": what, "replay": replay})

    def sample(self, s, limit=6):
        if len(self.samples) < limit:
            self.samples.append(s)


def load_known():
    p = os.path.join(VERIF, "known_findings.json")
    if not os.path.exists(p):
        return []
    return json.load(open(p))


def finish(ctx, level="model_checking", rule="", assumptions=None, explanation=None):
    """Print verdict lines, write replay + evidence, return exit code."""
    known = [k for k in load_known() if k.get("property") == ctx.prop and k.get("status") == "known"]
    ksigs = {k["signature"]: k for k in known}
    new = []
    hits = {}
    for v in ctx.violations:
        if v["sig"] in ksigs:
            hits.setdefault(v["sig"], []).append(v)
        else:
            new.append(v)
    for sig, k in ksigs.items():
        if sig in hits:
            log("KNOWN-FINDING: property=%s %s [%s] (%d cases this run)" % (ctx.prop, k["what"], sig, len(hits[sig])))
    rc = 0
    if new:
        rdir = os.path.join(OUTROOT, "replays", ctx.prop)
        os.makedirs(rdir, exist_ok=True)
        bysig = {}
        for v in new:
            bysig.setdefault(v["sig"], []).append(v)
        for sig, vs in sorted(bysig.items()):
            h = hashlib.sha1(sig.encode()).hexdigest()[:10]
            path = os.path.join(rdir, "%s-%s.json" % (ctx.tier, h))
            with open(path, "w") as f:
                json.dump({"property": ctx.prop, "signature": sig, "what": vs[0]["what"], "count": len(vs),
                           "seed": ctx.seed, "tier": ctx.tier, "replay": vs[0]["replay"],
                           "more": [x["replay"] for x in vs[1:4]]}, f, indent=1)
            log("VIOLATION property=%s replay=%s" % (ctx.prop, path))
            log("  signature: %s  (%d cases)  %s" % (sig, len(vs), vs[0]["what"]))
        rc = 1
    cov = {
        "states": ctx.states, "transitions": ctx.transitions,
        "traces_validated_against_impl": ctx.traces_validated,
        "evaluations": ctx.evaluations, "distinct_nontrivial": ctx.nontrivial,
        "rule": rule, "samples": ctx.samples or [{"note": "no samples"}],
        "exhaustive": bool(ctx.exhaustive), "tlc_runs": ctx.tlc_runs,
        "known_finding_hits": {s: len(v) for s, v in hits.items()},
    }
    if explanation:
        cov["explanation"] = explanation
    cov.update(ctx.extra)
    ev = {"property_id": ctx.prop, "tier": ctx.tier, "seed": ctx.seed, "level": level,
          "coverage": cov, "assumptions": assumptions or [], "wall_s": round(time.time() - ctx.t0, 2),
          "violations": len(new)}
    os.makedirs(os.path.join(OUTROOT, "evidence"), exist_ok=True)
    with open(os.path.join(OUTROOT, "evidence", ctx.prop + ".json"), "w") as f:
        json.dump(ev, f, indent=1)
    log("%s %s: states=%d transitions=%d evaluations=%d nontrivial=%d traces=%d violations=%d known=%d wall=%.1fs"
        % (ctx.prop, ctx.tier, ctx.states, ctx.transitions, ctx.evaluations, ctx.nontrivial,
           ctx.traces_validated, len(new), sum(len(v) for v in hits.values()), time.time() - ctx.t0))
    return rc


def chunks(seq, n):
    for i in range(0, len(seq), n):
        yield seq[i:i + n]
