#!/bin/bash
# mutant-sweep.sh [jobs] — run every stored mutant (mutants/*.patch) and seeded change (seeded/*/patch*.diff) against its
# property's quick check (bin/mutant-run, scratch worktrees of /repo HEAD) and write one line per patch to the report:
# detected (rc 1) / MISSED (rc 0) / stale (does not apply or compile, rc 2). Usage: tools/mutant-sweep.sh 4 > sweep.txt
cd "$(dirname "$0")/.." || exit 2
jobs=${1:-4}
list=$(mktemp)
for f in mutants/*.patch; do b=$(basename "$f"); echo "$f ${b%%-*}"; done >> "$list"
for d in seeded/*/; do n=$(basename "$d"); id=${n%%-*}; f="$d/patch.diff"; [ -f "$d/patch-rebased.diff" ] && f="$d/patch-rebased.diff"; echo "$f $id"; done >> "$list"
run_one() {
  f=$1; id=$2; out=$(VERIF_NOEVIDENCE=1 bin/mutant-run "$f" "$(echo "$id" | tr A-Z a-z)" quick 2>&1); rc=$(echo "$out" | sed -n 's/.*mutant-run rc=\([0-9]*\).*/\1/p' | tail -1)
  case "${rc:-2}" in 1) v=detected;; 0) v=MISSED;; *) v="stale($(echo "$out" | grep -m1 'does not apply\|does not compile' || echo rc=${rc:-?}))";; esac
  echo "$id $f $v"
}
export -f run_one
xargs -a "$list" -P "$jobs" -L 1 bash -c 'run_one "$0" "$1"'
rm -f "$list"
