#!/usr/bin/env python3
"""mk_seed_round.py <round> <ID>... — prepare a seeding round: one scratch worktree of /repo per property under
/tmp/seed<round>/<ID> and a prompt file /tmp/seed<round>/<ID>.prompt.txt holding only the property text, the task and
one-sentence summaries of earlier seeds for that property (so that a new one uses a different mechanism). Nothing from
/verif other than the property text and those summaries goes into a prompt."""
import json, os, subprocess, sys, glob
rnd = sys.argv[1]; ids = sys.argv[2:]
root = "/tmp/seed%s" % rnd
os.makedirs(root, exist_ok=True)
props = {}
for line in open("/verif/properties.jsonl"):
    p = json.loads(line); props[p["id"]] = p
TASK = """Your task: invent ONE realistic change to the library's non-test source code that BREAKS this property while (a) still compiling and (b) keeping the existing test suite green (`cd {wt} && go test -vet=off -count=1 ./...` must print only ok lines). It should look like a regression a maintainer could plausibly introduce (a refactoring slip, an "optimisation", an off-by-one, a wrong condition, a cache keyed wrongly, an early return, swapped arguments ...), and it must need something SPECIFIC to manifest - a particular input shape, a particular combination of options, a multi-step sequence of calls, a fault at a particular point, a particular interleaving, or two cooperating sites that each look fine alone. Do NOT produce a change that ordinary use of the library would expose at once (e.g. every document breaking), and do not simply revert an obviously recent fix wholesale. Prefer subtle over blunt; keep it small (a few lines, one or two sites).
"""
DELIVER = """Deliver, inside {wt}/seed/ (create it; it stays untracked):
  1. patch.diff  - `git diff` of your change against HEAD (source files only).
  2. a demonstration: either demo_test.go (a Go test file, say in which package directory it has to be placed to run) or demo/main.go (a small program), which FAILS (non-zero exit / test failure) with your change applied and PASSES without it. It must build its own inputs (no external files).
  3. meta.json   - {{"property": "<id>", "summary": "<one sentence: what the change does>", "needs": "<what specific input / sequence / schedule is needed for it to manifest>", "files_changed": [...], "demo": "<exact commands to run the demonstration>", "tests_green": true}}
Verify all of it yourself in both directions: with the change applied the test suite is green and the demonstration fails; at HEAD (change reverted) the demonstration passes. When you are done, leave the tracked files of {wt} exactly at HEAD (`git checkout -- .`; remove any test file you placed in a package directory) so that only seed/ remains as untracked content. Do not commit. Your final message: the summary, the "needs" sentence, and the verified results of the four runs (tests with change, demo with change, demo without change, tree clean).
"""
for i in ids:
    wt = "%s/%s" % (root, i)
    if not os.path.isdir(wt):
        subprocess.check_call(["git", "-C", "/repo", "worktree", "add", "-q", "--detach", wt, "HEAD"])
    p = props[i]
    earlier = []
    for m in sorted(glob.glob("/verif/seeded/%s*/meta.json" % i)):
        try: earlier.append(json.load(open(m)).get("summary", "")[:300])
        except Exception: pass
    txt = ("You are given a scratch git worktree of the Go library tsawler/tabula (pure-Go document text extraction: PDF parser, OOXML/ODT/EPUB/HTML readers, layout analysis, RAG chunking) at {wt}. The sandbox is offline. Use `export GOFLAGS=-mod=mod GOPROXY=off GOSUMDB=off GOTOOLCHAIN=local` in every shell; `go` is 1.23. Work ONLY inside {wt}: do not read, list or modify /verif or /repo or any other checkout, and do not run any git command outside {wt}.\n\n"
           "Below is a semantic property the library is supposed to satisfy (it currently does, on this tree).\n\n----- PROPERTY -----\n").format(wt=wt)
    txt += "Property %s — %s\n\n" % (i, p.get("title", ""))
    for k, label in (("statement", "Statement"), ("quantifier", "Quantifier"), ("why_tests_cant", "Why the existing tests cannot settle it")):
        v = p.get(k)
        if isinstance(v, dict): v = v.get("text", json.dumps(v))
        if v: txt += "%s: %s\n\n" % (label, v)
    a = p.get("anchors") or {}
    txt += "Anchored code: %s\n" % ", ".join(a.get("files", []))
    txt += "Mechanisms: %s\n" % "; ".join("%s (%s)" % (m["name"], m["where"]) for m in a.get("mechanism", []))
    txt += "\n----- END PROPERTY -----\n\n" + TASK.format(wt=wt) + "\n"
    if earlier:
        txt += "\nNOTE: other engineers already proposed the following changes for this property; yours must be a DIFFERENT mechanism in a different place (do not vary the same ideas):\n"
        txt += "".join('- "%s"\n' % e for e in earlier) + "\n"
    txt += DELIVER.format(wt=wt)
    open("%s/%s.prompt.txt" % (root, i), "w").write(txt)
    print(i, "earlier:", len(earlier))
