#!/usr/bin/env python3
"""Regenerate the generated part of DESIGN.md (between the GENERATED markers): defects found and repaired,
seeded changes and which check catches them, machinery-validation mutants."""
import json, os, glob, re, subprocess
ROOT = os.path.dirname(os.path.dirname(os.path.abspath(__file__)))
k = json.load(open(os.path.join(ROOT, "known_findings.json")))
out = []
out.append("### 9.4 Genuine defects found on the pinned tree (all repaired by `fix:` commits in /repo)\n")
out.append("Every entry was first reported by the listed check as a VIOLATION with a reproducible replay file, triaged against the code and the")
out.append("governing standard, repaired by one small unguarded commit (existing tests unedited and green), and is now recorded as `fixed` in")
out.append("`known_findings.json` (a fixed entry suppresses nothing). There are currently no `known` (unrepaired) findings.\n")
out.append("| property | commit | signature(s) | what failed |")
out.append("|---|---|---|---|")
for e in k:
    out.append("| %s | %s | `%s` | %s |" % (e["property"], e.get("commit", ""), e["signature"], e["what"].replace("|", "\\|")))
out.append("")
out.append("### 9.5 Independently seeded changes (sub-agents that saw only the property text and a scratch worktree)\n")
out.append("Each change compiles, keeps the 2876 tests green, and comes with a demonstration that fails with it and passes without it; all of that")
out.append("was re-confirmed by `bin/seed-eval` in a scratch worktree before the change was stored under `seeded/<id>/`. \"detected\" is the exit code of")
out.append("the property's quick check against /repo + the change (1 = VIOLATION reported).\n")
out.append("| property | change | needs | quick check |")
out.append("|---|---|---|---|")
for d in sorted(glob.glob(os.path.join(ROOT, "seeded", "C*"))):
    mp = os.path.join(d, "meta.json")
    if not os.path.exists(mp):
        continue
    m = json.load(open(mp))
    cr = (m.get("check_results") or {}).get("quick", {})
    hist = m.get("history", "")
    out.append("| %s | %s | %s | %s%s |" % (os.path.basename(d), m.get("summary", "").replace("|", "\\|")[:260], m.get("needs", "").replace("|", "\\|")[:260],
                                       "detected (exit 1)" if cr.get("detected") else "NOT detected (exit %s)" % cr.get("exit"), (" — " + hist) if hist else ""))
out.append("")
out.append("### 9.6 Machinery-validation mutants (`mutants/*.patch`, run with `bin/mutant-run`)\n")
out.append("The reverse of every fix plus hand-written one-liners; each was run against the property's quick check (exit 1 expected). Mutants that turned")
out.append("out to be behaviourally equivalent for the property (still an error, still refused) were deleted rather than kept as misses.\n")
ms = sorted(os.path.basename(p)[:-6] for p in glob.glob(os.path.join(ROOT, "mutants", "*.patch")))
by = {}
for m in ms:
    by.setdefault(m.split("-")[0], []).append(m)
for p in sorted(by):
    out.append("* **%s**: %s" % (p, ", ".join("`%s`" % x for x in by[p])))
out.append("")
txt = "\n".join(out)
p = os.path.join(ROOT, "DESIGN.md")
s = open(p).read()
B, E = "<!-- GENERATED:BEGIN -->", "<!-- GENERATED:END -->"
if B in s:
    s = s[:s.index(B)] + B + "\n" + txt + "\n" + E + s[s.index(E) + len(E):]
else:
    s = s.rstrip("\n") + "\n\n" + B + "\n" + txt + "\n" + E + "\n"
open(p, "w").write(s)
print("DESIGN.md tables regenerated: %d findings, %d seeds, %d mutants" % (len(k), len(glob.glob(os.path.join(ROOT, "seeded", "C*"))), len(ms)))
