// Package pdfdoc materialises a logical document (pages of <font, token> items)
// under a physical layout chosen by PdfLayout.tla, using the independent writer
// pdfw. It knows nothing about tabula.
package pdfdoc

import (
	"bytes"
	"fmt"
	"strings"

	"verif/internal/pdfw"
)

type Item [2]int // font, token

type Layout struct {
	Doc       int    `json:"doc"`
	XRef      string `json:"xref"`
	ObjStm    string `json:"objstm"`
	Filter    string `json:"filter"`
	Length    string `json:"length"`
	Size      string `json:"size"`
	Split     int    `json:"split"`
	Depth     int    `json:"depth"`
	MediaAt   int    `json:"mediaAt"`
	ResAt     int    `json:"resAt"`
	Revs      int    `json:"revs"`
	Numbering string `json:"numbering"`
	Order     string `json:"order"`
	Eol       string `json:"eol"`
	Count     string `json:"count"`
	Cut       string `json:"cut,omitempty"` // where content streams are cut: "ops" (between operations, default) or "tokens" (between an operand and its operator)
}

// TokenText is the Unicode text item <font, tok> must be reported as.
func TokenText(font, tok int) string { return fmt.Sprintf("w%dx%d", font, tok) }

// rot is the code permutation of a font: byte b (0x21..0x7E) decodes to rot(b, k).
func rot(b byte, k int) byte { return 0x21 + byte((int(b)-0x21+k)%94) }
func unrot(c byte, k int) byte {
	return 0x21 + byte(((int(c)-0x21-k)%94+94)%94)
}

// shift of the real fonts and of decoy fonts (decoys are placed on tree levels
// above the level that must win)
func shiftOf(font int, decoy int) int {
	if font >= 2 {
		return []int{0, 0, 13, 31}[font] + 7*decoy + TwinShift
	}
	return 7 * decoy
}

// TwinShift moves the code permutation of the ToUnicode fonts. A document built with another TwinShift is a
// "twin": the same objects under the same numbers at (nearly) the same offsets, the same text, but different
// string bytes and different ToUnicode maps - whatever a reader keys by object number, resource name or
// position must not carry over from one twin to the other. Set only while building (not concurrency-safe).
var TwinShift int

// EncodeToken gives the string operand bytes for item <font, tok>.
func EncodeToken(font, tok int) []byte {
	s := TokenText(font, tok)
	switch font {
	case 1:
		return []byte(s)
	case 2:
		b := make([]byte, len(s))
		for i := range b {
			b[i] = unrot(s[i], shiftOf(2, 0))
		}
		return b
	default:
		b := make([]byte, 0, 2*len(s))
		for i := range s {
			b = append(b, 0x01, unrot(s[i], shiftOf(3, 0)))
		}
		return b
	}
}

func toUnicodeCMap(font, decoy int) []byte {
	k := shiftOf(font, decoy)
	var b strings.Builder
	b.WriteString("/CIDInit /ProcSet findresource begin\n12 dict begin\nbegincmap\n/CMapName /Adobe-Identity-UCS def\n/CMapType 2 def\n")
	hi := ""
	if font == 3 {
		hi = "01"
		b.WriteString("1 begincodespacerange\n<0000> <FFFF>\nendcodespacerange\n")
	} else {
		b.WriteString("1 begincodespacerange\n<00> <FF>\nendcodespacerange\n")
	}
	// codes 0x21..(0x7E-k) map to 0x21+k.. ; codes (0x7F-k)..0x7E wrap to 0x21..
	split := 0x7E - k
	b.WriteString("2 beginbfrange\n")
	fmt.Fprintf(&b, "<%s%02X> <%s%02X> <%04X>\n", hi, 0x21, hi, split, 0x21+k)
	fmt.Fprintf(&b, "<%s%02X> <%s%02X> <%04X>\n", hi, split+1, hi, 0x7E, 0x21)
	b.WriteString("endbfrange\nendcmap\nCMapName currentdict /CMap defineresource pop\nend\nend\n")
	return []byte(b.String())
}

// ---- encoders (only used to produce inputs) ----

func hexEnc(b []byte) []byte {
	var o bytes.Buffer
	for i, c := range b {
		fmt.Fprintf(&o, "%02X", c)
		if i%32 == 31 {
			o.WriteByte('\n')
		}
	}
	o.WriteByte('>')
	return o.Bytes()
}

func a85Enc(b []byte) []byte {
	var o bytes.Buffer
	col := 0
	put := func(c byte) {
		o.WriteByte(c)
		col++
		if col%64 == 0 {
			o.WriteByte('\n')
		}
	}
	for i := 0; i < len(b); i += 4 {
		n := len(b) - i
		if n > 4 {
			n = 4
		}
		var v uint32
		for j := 0; j < 4; j++ {
			v <<= 8
			if j < n {
				v |= uint32(b[i+j])
			}
		}
		if n == 4 && v == 0 {
			put('z')
			continue
		}
		var d [5]byte
		for j := 4; j >= 0; j-- {
			d[j] = byte(v%85) + '!'
			v /= 85
		}
		for j := 0; j < n+1; j++ {
			put(d[j])
		}
	}
	o.WriteString("~>")
	return o.Bytes()
}

func pngUp(b []byte, cols int) []byte {
	for len(b)%cols != 0 {
		b = append(b, ' ')
	}
	var o bytes.Buffer
	prev := make([]byte, cols)
	for i := 0; i < len(b); i += cols {
		o.WriteByte(2)
		for j := 0; j < cols; j++ {
			o.WriteByte(b[i+j] - prev[j])
		}
		copy(prev, b[i:i+cols])
	}
	return o.Bytes()
}

// tiffSub applies the TIFF predictor (Predictor 2, 8 bits, one colour): each byte minus its left neighbour in the row.
func tiffSub(b []byte, cols int) []byte {
	for len(b)%cols != 0 {
		b = append(b, ' ')
	}
	o := make([]byte, len(b))
	for i := 0; i < len(b); i += cols {
		o[i] = b[i]
		for j := 1; j < cols; j++ {
			o[i+j] = b[i+j] - b[i+j-1]
		}
	}
	return o
}

// RawFault, when set, is handed the payload of every stream the document writer is about to encode (page content
// parts, ToUnicode programs) and returns what is encoded instead: fault injection into what sits INSIDE a stream,
// with filters, /Length and every offset consistent with the damaged payload.
var RawFault func(raw []byte) []byte

func encode(raw []byte, filter string) ([]byte, pdfw.Dict) {
	if RawFault != nil {
		raw = RawFault(append([]byte{}, raw...))
	}
	switch filter {
	case "fl":
		return pdfw.Deflate(raw), pdfw.Dict{{"Filter", pdfw.Name("FlateDecode")}}
	case "ahx":
		return hexEnc(raw), pdfw.Dict{{"Filter", pdfw.Name("ASCIIHexDecode")}}
	case "a85":
		return a85Enc(raw), pdfw.Dict{{"Filter", pdfw.Arr{pdfw.Name("ASCII85Decode")}}}
	case "a85fl":
		return a85Enc(pdfw.Deflate(raw)), pdfw.Dict{{"Filter", pdfw.Arr{pdfw.Name("ASCII85Decode"), pdfw.Name("FlateDecode")}}}
	case "ahxfl":
		return hexEnc(pdfw.Deflate(raw)), pdfw.Dict{{"Filter", pdfw.Arr{pdfw.Name("ASCIIHexDecode"), pdfw.Name("FlateDecode")}},
			{"DecodeParms", pdfw.Arr{pdfw.Null{}, pdfw.Null{}}}}
	case "fltiff":
		cols := 16
		return pdfw.Deflate(tiffSub(append([]byte{}, raw...), cols)), pdfw.Dict{{"Filter", pdfw.Name("FlateDecode")},
			{"DecodeParms", pdfw.Dict{{"Predictor", pdfw.Int(2)}, {"Columns", pdfw.Int(cols)}, {"Colors", pdfw.Int(1)}, {"BitsPerComponent", pdfw.Int(8)}}}}
	case "flpng":
		cols := 16
		// content streams padded with spaces to a multiple of the row size stay valid
		return pdfw.Deflate(pngUp(append([]byte{}, raw...), cols)), pdfw.Dict{{"Filter", pdfw.Name("FlateDecode")},
			{"DecodeParms", pdfw.Dict{{"Predictor", pdfw.Int(12)}, {"Columns", pdfw.Int(cols)}}}}
	}
	return raw, pdfw.Dict{}
}

// padding: an incompressible comment line of about n bytes
func padding(n int, salt int) string {
	var b strings.Builder
	b.WriteString("% ")
	x := uint32(salt*2654435761 + 12345)
	for b.Len() < n {
		x = x*1664525 + 1013904223
		b.WriteByte("abcdefghijklmnopqrstuvwxyzABCDEFGHIJKLMNOPQRSTUVWXYZ0123456789"[(x>>16)%62])
	}
	b.WriteString("\n")
	return b.String()
}

// contentLines renders the page content as a list of lines (each a complete
// group of tokens ending in LF, so any split between lines is at a token boundary)
func contentLines(items []Item, size string, salt int) []string {
	lines := []string{"BT\n"}
	for i, it := range items {
		lines = append(lines, fmt.Sprintf("/F%d 12 Tf\n", it[0]))
		lines = append(lines, fmt.Sprintf("1 0 0 1 50 %d Tm\n", 700-20*i))
		enc := EncodeToken(it[0], it[1])
		if it[0] == 3 {
			lines = append(lines, fmt.Sprintf("<%X> Tj\n", enc))
		} else {
			lines = append(lines, pdfw.Render(pdfw.Str(enc))+" Tj\n")
		}
		if i == 0 {
			switch size {
			case "big":
				lines = append(lines, padding(4600, salt))
			case "huge":
				lines = append(lines, padding(9000, salt))
			case "repeat":
				// 12 KB of one short line over and over: deflate shrinks it several hundred times
				for k := 0; k < 400; k++ {
					lines = append(lines, "% filler filler filler filler\n")
				}
			}
		}
	}
	lines = append(lines, "ET\n")
	if len(items) == 0 && size != "small" {
		lines = append(lines, padding(4600, salt))
	}
	return lines
}

// splitLines cuts the content into k parts at line boundaries (between complete operations); with cut ==
// "tokens" every cut is moved to the last token boundary inside the operation that follows it, so a part ends
// with operands whose operator opens the next part (7.8.2: the division may fall at any token boundary).
func splitLines(lines []string, k int, cut string) [][]byte {
	if k > len(lines) {
		k = len(lines)
	}
	parts := make([][]byte, k)
	prev := -1
	for i, l := range lines {
		p := i * k / len(lines)
		if cut == "tokens" && p != prev && p > 0 && !strings.HasPrefix(l, "%") {
			if sp := strings.LastIndexByte(strings.TrimRight(l, "\n"), ' '); sp > 0 {
				parts[p-1] = append(parts[p-1], []byte(l[:sp]+"\n")...)
				l = l[sp+1:]
			}
		}
		prev = p
		parts[p] = append(parts[p], []byte(l)...)
	}
	return parts
}

// ---- object graph ----

type node struct {
	id     int // provisional id
	val    pdfw.Obj
	stm    *pdfw.Stream
	lenRef int // provisional id of the length holder (0 none)
	rev    int // revision that writes it (0-based)
}

type builder struct {
	L     Layout
	nodes []*node
}

func (b *builder) add(rev int, val pdfw.Obj) *node {
	n := &node{id: len(b.nodes) + 1, val: val, rev: rev}
	b.nodes = append(b.nodes, n)
	return n
}

type pref struct{ id int } // provisional reference, renumbered at the end

// Build renders the document. pagesByRev[r] is the logical page list after
// revision r (0-based); the caller (spec) decides what each revision changes:
// revision 1 (index 1) replaces page 1's content, revision 2 appends a page.
func Build(L Layout, base [][]Item, rev2page1 []Item, rev3page []Item) ([]byte, error) {
	b := &builder{L: L}
	// ToUnicode programs sit behind the layout's filter chain like every other stream (except the predictor chains,
	// whose padding to whole rows is only harmless in content streams)
	filtered := func(raw []byte) *pdfw.Stream {
		if L.Filter == "flpng" || L.Filter == "fltiff" {
			if RawFault != nil {
				raw = RawFault(append([]byte{}, raw...))
			}
			return &pdfw.Stream{Data: raw}
		}
		data, d := encode(raw, L.Filter)
		return &pdfw.Stream{Dict: d, Data: data}
	}
	font := func(rev, f, decoy int) *node {
		switch f {
		case 1:
			return b.add(rev, pdfw.Dict{{"Type", pdfw.Name("Font")}, {"Subtype", pdfw.Name("Type1")}, {"BaseFont", pdfw.Name("Helvetica")}, {"Encoding", pdfw.Name("WinAnsiEncoding")}})
		case 2:
			tu := b.add(rev, nil)
			tu.stm = filtered(toUnicodeCMap(2, decoy))
			return b.add(rev, pdfw.Dict{{"Type", pdfw.Name("Font")}, {"Subtype", pdfw.Name("Type1")}, {"BaseFont", pdfw.Name("Courier")}, {"ToUnicode", pref{tu.id}}})
		default:
			tu := b.add(rev, nil)
			tu.stm = filtered(toUnicodeCMap(3, decoy))
			fdesc := b.add(rev, pdfw.Dict{{"Type", pdfw.Name("FontDescriptor")}, {"FontName", pdfw.Name("VerifSans")}, {"Flags", pdfw.Int(32)},
				{"FontBBox", pdfw.Arr{pdfw.Int(0), pdfw.Int(-200), pdfw.Int(1000), pdfw.Int(800)}}, {"ItalicAngle", pdfw.Int(0)},
				{"Ascent", pdfw.Int(800)}, {"Descent", pdfw.Int(-200)}, {"CapHeight", pdfw.Int(700)}, {"StemV", pdfw.Int(80)}})
			desc := b.add(rev, pdfw.Dict{{"Type", pdfw.Name("Font")}, {"Subtype", pdfw.Name("CIDFontType2")}, {"BaseFont", pdfw.Name("VerifSans")},
				{"FontDescriptor", pref{fdesc.id}}, {"CIDToGIDMap", pdfw.Name("Identity")},
				{"CIDSystemInfo", pdfw.Dict{{"Registry", pdfw.Str("Adobe")}, {"Ordering", pdfw.Str("Identity")}, {"Supplement", pdfw.Int(0)}}}, {"DW", pdfw.Int(600)}})
			return b.add(rev, pdfw.Dict{{"Type", pdfw.Name("Font")}, {"Subtype", pdfw.Name("Type0")}, {"BaseFont", pdfw.Name("VerifSans")}, {"Encoding", pdfw.Name("Identity-H")},
				{"DescendantFonts", pdfw.Arr{pref{desc.id}}}, {"ToUnicode", pref{tu.id}}})
		}
	}
	resources := func(rev, decoy int) pdfw.Dict {
		fd := pdfw.Dict{}
		for f := 1; f <= 3; f++ {
			fd = append(fd, pdfw.KV{K: fmt.Sprintf("F%d", f), V: pref{font(rev, f, decoy).id}})
		}
		return pdfw.Dict{{"Font", fd}}
	}
	box := func(k int) pdfw.Arr {
		return pdfw.Arr{pdfw.Int(0), pdfw.Int(0), pdfw.Int(600 + 10*k), pdfw.Int(800 + 10*k)}
	}
	// attributes a node at tree level k carries
	attrs := func(rev, k int, d pdfw.Dict) pdfw.Dict {
		if k >= L.MediaAt {
			d = append(d, pdfw.KV{K: "MediaBox", V: box(k)})
		}
		if k >= L.ResAt {
			d = append(d, pdfw.KV{K: "Resources", V: resources(rev, k-L.ResAt)})
		}
		return d
	}
	content := func(rev int, items []Item, salt int) (pdfw.Obj, []*node) {
		parts := splitLines(contentLines(items, L.Size, salt), L.Split, L.Cut)
		var refs pdfw.Arr
		var ns []*node
		for _, p := range parts {
			data, d := encode(p, L.Filter)
			var holder *node
			if L.Length == "refBefore" {
				holder = b.add(rev, pdfw.Int(len(data)))
			}
			n := b.add(rev, nil)
			n.stm = &pdfw.Stream{Dict: d, Data: data}
			if L.Length == "refAfter" {
				holder = b.add(rev, pdfw.Int(len(data)))
			}
			if holder != nil {
				n.lenRef = holder.id
			}
			refs = append(refs, pref{n.id})
			ns = append(ns, n)
		}
		if len(refs) == 1 {
			return refs[0], ns
		}
		return refs, ns
	}
	// page leaves of the base document
	type leaf struct {
		n       *node
		content []*node
		parent  *node
	}
	var leaves []*leaf
	for i, items := range base {
		c, ns := content(0, items, i+1)
		d := attrs(0, 0, pdfw.Dict{{"Type", pdfw.Name("Page")}, {"Contents", c}})
		leaves = append(leaves, &leaf{n: b.add(0, d), content: ns})
	}
	// tree: level-1 nodes (one for "chain", two for "branches" when there are >= 2 pages)
	type pnode struct {
		n     *node
		kids  []int // provisional ids
		count int
		level int
		up    *pnode
	}
	mk := func(level int) *pnode {
		return &pnode{n: b.add(0, nil), level: level}
	}
	var level1 []*pnode
	if L.Count == "branches" && len(leaves) >= 2 {
		a, c := mk(1), mk(1)
		a.kids, a.count = []int{leaves[0].n.id}, 1
		leaves[0].parent = a.n
		for _, lf := range leaves[1:] {
			c.kids = append(c.kids, lf.n.id)
			c.count++
			lf.parent = c.n
		}
		level1 = []*pnode{a, c}
	} else {
		a := mk(1)
		for _, lf := range leaves {
			a.kids = append(a.kids, lf.n.id)
			a.count++
			lf.parent = a.n
		}
		level1 = []*pnode{a}
	}
	all := append([]*pnode{}, level1...)
	cur := level1
	for lvl := 2; lvl <= L.Depth; lvl++ {
		p := mk(lvl)
		for _, c := range cur {
			p.kids = append(p.kids, c.n.id)
			p.count += c.count
			c.up = p
		}
		all = append(all, p)
		cur = []*pnode{p}
	}
	var root *pnode
	if len(cur) == 1 {
		root = cur[0]
	} else {
		// depth 1 with branches is impossible (two level-1 nodes need a parent): join them
		root = mk(2)
		for _, c := range cur {
			root.kids = append(root.kids, c.n.id)
			root.count += c.count
			c.up = root
		}
		all = append(all, root)
	}
	if L.Count == "uneven" && L.Revs < 3 && len(leaves) >= 2 && root != level1[0] && (L.MediaAt == 0 || L.MediaAt == root.level) && (L.ResAt == 0 || L.ResAt == root.level) {
		// the last page hangs directly under the root while the others sit deeper: leaves at different depths, a deeper one
		// before a shallower one in document order
		last := leaves[len(leaves)-1]
		a := level1[0]
		a.kids = a.kids[:len(a.kids)-1]
		for q := a; q != nil && q != root; q = q.up {
			q.count--
		}
		root.kids = append(root.kids, last.n.id)
		last.parent = root.n
	}
	render := func(p *pnode, rev int) pdfw.Dict {
		kids := pdfw.Arr{}
		for _, k := range p.kids {
			kids = append(kids, pref{k})
		}
		d := pdfw.Dict{{"Type", pdfw.Name("Pages")}, {"Kids", kids}, {"Count", pdfw.Int(p.count)}}
		if p.up != nil {
			d = append(d, pdfw.KV{K: "Parent", V: pref{p.up.n.id}})
		}
		return attrs(rev, p.level, d)
	}
	for _, p := range all {
		p.n.val = render(p, 0)
	}
	for _, lf := range leaves {
		d := lf.n.val.(pdfw.Dict)
		lf.n.val = append(d, pdfw.KV{K: "Parent", V: pref{lf.parent.id}})
	}
	catalog := b.add(0, pdfw.Dict{{"Type", pdfw.Name("Catalog")}, {"Pages", pref{root.n.id}}})

	// later revisions re-write existing objects: collected as (provisional id -> new node content)
	type rewrite struct {
		rev    int
		id     int
		val    pdfw.Obj
		stm    *pdfw.Stream
		lenRef int
	}
	var rewrites []rewrite
	if L.Revs >= 2 {
		// replace page 1's content streams in place (same object numbers, new bodies);
		// the number of parts stays the same so the page dictionary is untouched
		old := leaves[0].content
		parts := splitLines(contentLines(rev2page1, L.Size, 91), len(old), L.Cut)
		for len(parts) < len(old) {
			parts = append(parts, []byte("\n"))
		}
		for i, on := range old {
			data, d := encode(parts[i], L.Filter)
			rw := rewrite{rev: 1, id: on.id, stm: &pdfw.Stream{Dict: d, Data: data}}
			if on.lenRef != 0 {
				rw.lenRef = on.lenRef
				rewrites = append(rewrites, rewrite{rev: 1, id: on.lenRef, val: pdfw.Int(len(data))})
			}
			rewrites = append(rewrites, rw)
		}
	}
	if L.Revs >= 3 {
		c, _ := content(2, rev3page, 92)
		last := level1[len(level1)-1]
		d := attrs(2, 0, pdfw.Dict{{"Type", pdfw.Name("Page")}, {"Contents", c}, {"Parent", pref{last.n.id}}})
		np := b.add(2, d)
		last.kids = append(last.kids, np.id)
		for p := last; p != nil; p = p.up {
			p.count++
			rewrites = append(rewrites, rewrite{rev: 2, id: p.n.id, val: render(p, 2)})
		}
	}
	// ---- numbering ----
	m := len(b.nodes)
	num := func(id int) int {
		if L.Numbering == "shuffled" {
			return m + 1 - id
		}
		return id
	}
	var fix func(o pdfw.Obj) pdfw.Obj
	fix = func(o pdfw.Obj) pdfw.Obj {
		switch v := o.(type) {
		case pref:
			return pdfw.Ref{Num: num(v.id)}
		case pdfw.Arr:
			out := make(pdfw.Arr, len(v))
			for i, e := range v {
				out[i] = fix(e)
			}
			return out
		case pdfw.Dict:
			out := make(pdfw.Dict, len(v))
			for i, kv := range v {
				out[i] = pdfw.KV{K: kv.K, V: fix(kv.V)}
			}
			return out
		}
		return o
	}
	next := m + 1
	f := &pdfw.File{EOL: L.Eol}
	for r := 0; r < L.Revs; r++ {
		rev := pdfw.Revision{XRef: L.XRef, Root: pdfw.Ref{Num: num(catalog.id)}, W: [3]int{1, 3, 2}}
		var items []pdfw.Item
		var members []pdfw.Member
		emit := func(id int, val pdfw.Obj, stm *pdfw.Stream, lenRef int) {
			if stm != nil {
				s := &pdfw.Stream{Dict: fix(stm.Dict).(pdfw.Dict), Data: stm.Data}
				if lenRef != 0 {
					s.LengthRef = num(lenRef)
				}
				items = append(items, pdfw.Item{Num: num(id), Stm: s})
				return
			}
			if L.ObjStm != "none" {
				members = append(members, pdfw.Member{Num: num(id), Val: fix(val)})
				return
			}
			items = append(items, pdfw.Item{Num: num(id), Val: fix(val)})
		}
		for _, n := range b.nodes {
			if n.rev == r {
				emit(n.id, n.val, n.stm, n.lenRef)
			}
		}
		for _, rw := range rewrites {
			if rw.rev == r {
				emit(rw.id, rw.val, rw.stm, rw.lenRef)
			}
		}
		if L.Order == "reversed" {
			for i, j := 0, len(items)-1; i < j; i, j = i+1, j-1 {
				items[i], items[j] = items[j], items[i]
			}
			for i, j := 0, len(members)-1; i < j; i, j = i+1, j-1 {
				members[i], members[j] = members[j], members[i]
			}
		}
		if L.ObjStm == "split" {
			// two containers: the integers (stream lengths given by reference) in one of their own, whose /Length is
			// itself given by reference to a plain object - a reader meets that container for the first time while it
			// resolves a content stream's length
			var ints, rest []pdfw.Member
			for _, m := range members {
				if _, ok := m.Val.(pdfw.Int); ok {
					ints = append(ints, m)
				} else {
					rest = append(rest, m)
				}
			}
			if len(rest) > 0 {
				items = append(items, pdfw.Item{Num: next, IsObjStm: true, Members: rest})
				next++
			}
			if len(ints) > 0 {
				items = append(items, pdfw.Item{Num: next + 1, Val: pdfw.LenOfObjStm{Num: next}},
					pdfw.Item{Num: next, IsObjStm: true, Members: ints, StmLenRef: next + 1})
				next += 2
			}
		} else if len(members) > 0 {
			items = append(items, pdfw.Item{Num: next, IsObjStm: true, Members: members, FlateStm: L.ObjStm == "dictsflate"})
			next++
		}
		if L.XRef == "stream" {
			rev.XRefNum = next
			next++
			rev.FlateXRef = L.ObjStm == "dictsflate"
			rev.XRefPredictor = rev.FlateXRef && (L.Filter == "flpng" || L.Filter == "fltiff")
		}
		rev.Items = items
		f.Revs = append(f.Revs, rev)
	}
	data, _, err := f.Bytes()
	return data, err
}

// ---- simple positioned-text documents (layout properties) ----

// Placed is one text fragment shown at an exact integer position.
type Placed struct {
	X, Y, Size int
	Text       string
	// fractional geometry (used instead of X / Y / Size when non-zero)
	Xf, Yf, Sizef float64
}

func num(i int, f float64) string {
	if f != 0 {
		return strings.TrimRight(strings.TrimRight(fmt.Sprintf("%.3f", f), "0"), ".")
	}
	return fmt.Sprint(i)
}

// BuildSimple renders pages of positioned Helvetica/WinAnsi text, one Tj per
// fragment placed with Tm, classic xref table, flat page tree.
func BuildSimple(pages [][]Placed, width, height int) ([]byte, error) {
	return BuildSimpleWidths(pages, width, height, 0)
}

// BuildSimpleWidths is BuildSimple with an explicit /Widths array on the Helvetica
// font (every code 32..126 gets glyph width w, in 1/1000 em) when w > 0.
func BuildSimpleWidths(pages [][]Placed, width, height, w int) ([]byte, error) {
	return buildSimple(pages, [2]int{}, width, height, w)
}

// BuildSimpleAt is BuildSimple with a MediaBox whose lower-left corner is origin: a page box need not start at
// 0 0, and then the text coordinates do not lie in [0, width).
func BuildSimpleAt(pages [][]Placed, origin [2]int, width, height int) ([]byte, error) {
	return buildSimple(pages, origin, width, height, 0)
}

// BuildSimpleSized is BuildSimple with a page size of its own for each page (sizes[i] = width, height of page i).
func BuildSimpleSized(pages [][]Placed, sizes [][2]int) ([]byte, error) {
	return buildSimpleSizes(pages, [2]int{}, 0, 0, 0, sizes)
}

func buildSimple(pages [][]Placed, SimpleOrigin [2]int, width, height, w int) ([]byte, error) {
	return buildSimpleSizes(pages, SimpleOrigin, width, height, w, nil)
}

func buildSimpleSizes(pages [][]Placed, SimpleOrigin [2]int, width, height, w int, sizes [][2]int) ([]byte, error) {
	f := &pdfw.File{EOL: "lf"}
	rev := pdfw.Revision{XRef: "table", Root: pdfw.Ref{Num: 1}}
	kids := pdfw.Arr{}
	n := 4
	var items []pdfw.Item
	for pi, pg := range pages {
		if sizes != nil {
			width, height = sizes[pi][0], sizes[pi][1]
		}
		var b strings.Builder
		b.WriteString("BT\n")
		for _, p := range pg {
			fmt.Fprintf(&b, "/F1 %s Tf 1 0 0 1 %s %s Tm %s Tj\n", num(p.Size, p.Sizef), num(p.X, p.Xf), num(p.Y, p.Yf), pdfw.Render(pdfw.Str([]byte(p.Text))))
		}
		b.WriteString("ET\n")
		items = append(items, pdfw.Item{Num: n, Val: pdfw.Dict{{"Type", pdfw.Name("Page")}, {"Parent", pdfw.Ref{Num: 2}},
			{"MediaBox", pdfw.Arr{pdfw.Int(SimpleOrigin[0]), pdfw.Int(SimpleOrigin[1]), pdfw.Int(SimpleOrigin[0] + width), pdfw.Int(SimpleOrigin[1] + height)}},
			{"Resources", pdfw.Dict{{"Font", pdfw.Dict{{"F1", pdfw.Ref{Num: 3}}}}}}, {"Contents", pdfw.Ref{Num: n + 1}}}})
		items = append(items, pdfw.Item{Num: n + 1, Stm: &pdfw.Stream{Data: []byte(b.String())}})
		kids = append(kids, pdfw.Ref{Num: n})
		n += 2
	}
	head := []pdfw.Item{
		{Num: 1, Val: pdfw.Dict{{"Type", pdfw.Name("Catalog")}, {"Pages", pdfw.Ref{Num: 2}}}},
		{Num: 2, Val: pdfw.Dict{{"Type", pdfw.Name("Pages")}, {"Kids", kids}, {"Count", pdfw.Int(len(pages))}}},
		{Num: 3, Val: pdfw.Dict{{"Type", pdfw.Name("Font")}, {"Subtype", pdfw.Name("Type1")}, {"BaseFont", pdfw.Name("Helvetica")}, {"Encoding", pdfw.Name("WinAnsiEncoding")}}},
	}
	if w > 0 {
		ws := pdfw.Arr{}
		for c := 32; c <= 126; c++ {
			ws = append(ws, pdfw.Int(w))
		}
		fd := head[2].Val.(pdfw.Dict)
		head[2].Val = append(fd, pdfw.KV{K: "FirstChar", V: pdfw.Int(32)}, pdfw.KV{K: "LastChar", V: pdfw.Int(126)}, pdfw.KV{K: "Widths", V: ws})
	}
	rev.Items = append(head, items...)
	f.Revs = []pdfw.Revision{rev}
	data, _, err := f.Bytes()
	return data, err
}
