package ooxmlw

import (
	"fmt"
	"sort"
	"strings"
)

// EChapter is one content document and how the package document refers to it.
type EChapter struct {
	ItemID   string // manifest item id
	Text     string // paragraph text (carries the content token)
	PartName string // ZIP member name
	Href     string // manifest href as written (percent-encoded, relative to the OPF)
	DeclPos  int    // position in the spine (0: not in the spine)
	RelPos   int    // position in the manifest (0: not in the manifest - an unlisted file)
	ZipPos   int
	Absent   bool // in manifest and spine as usual, but the file itself is not put into the archive
}

// Book is a whole EPUB package.
type Book struct {
	Chapters   []EChapter
	OPFPath    string // ZIP member name of the package document, e.g. OEBPS/content.opf
	Version    int    // 2: NCX navigation; 3: nav document (+ NCX when Extras)
	Extras     bool   // EPUB 3: also an NCX; EPUB 2: a <guide>
	InfraFirst bool   // navigation items precede the chapters in manifest and archive
	NavText    string // text shown in the navigation document heading
	// the declaration chain: all <rootfile> entries in container order (empty: just this
	// package) and the further package documents some of them name
	Rootfiles  []ERootfile
	Alternates []AltPackage
	// Spelling of container.xml and of the manifest / spine entries of the package documents
	Sp Spelling
}

func dirOf(p string) string {
	if i := strings.LastIndex(p, "/"); i >= 0 {
		return p[:i+1]
	}
	return ""
}

// ChapterXML renders one XHTML content document.
func ChapterXML(c EChapter) string {
	return `<?xml version="1.0" encoding="UTF-8"?>` + "\n" + `<!DOCTYPE html>` + "\n" +
		`<html xmlns="http://www.w3.org/1999/xhtml"><head><title>Chapter</title></head><body><p>` + esc(c.Text) + `</p></body></html>`
}

// EItem is one manifest item / spine entry of a package document.
type EItem struct{ ItemID, Href string }

// AltPackage is a further package document listed in META-INF/container.xml after the
// default one (another rendition): its own manifest, spine and navigation files.
type AltPackage struct {
	OPFPath string  // ZIP member name
	Tag     string  // distinguishes its navigation files: nav_<tag>.xhtml, toc_<tag>.ncx
	Spine   []EItem // manifest (same order) and spine
}

// ERootfile is one <rootfile> of container.xml, in container order.
type ERootfile struct {
	FullPath, MediaType string
	Dummy               bool // a member of another format that the writer has to supply
}

// packageXML renders one package document and its navigation members.
func packageXML(sp Spelling, version int, extras, infraFirst bool, opfPath, navName, ncxName, navText string, man, spine []EItem) (string, []Member) {
	dir := dirOf(opfPath)
	hasNCX := version == 2 || extras
	hasNav := version == 3
	var navItems strings.Builder
	if hasNav {
		navItems.WriteString(`<item id="nav" href="` + navName + `" media-type="application/xhtml+xml" properties="nav"/>`)
	}
	if hasNCX {
		navItems.WriteString(`<item id="ncx" href="` + ncxName + `" media-type="application/x-dtbncx+xml"/>`)
	}
	var o strings.Builder
	fmt.Fprintf(&o, `<package xmlns="http://www.idpf.org/2007/opf" version="%d.0" unique-identifier="uid">`, version)
	o.WriteString(`<metadata xmlns:dc="http://purl.org/dc/elements/1.1/" xmlns:opf="http://www.idpf.org/2007/opf">` +
		`<dc:identifier id="uid">urn:uuid:00000000-0000-4000-8000-000000000017</dc:identifier><dc:title>Book</dc:title><dc:language>en</dc:language>`)
	if version == 3 {
		o.WriteString(`<meta property="dcterms:modified">2020-01-01T00:00:00Z</meta>`)
	}
	o.WriteString(`</metadata><manifest>`)
	if infraFirst {
		o.WriteString(navItems.String())
	}
	for _, c := range man {
		o.WriteString(sp.sep() + sp.el("item", []attr{{"id", c.ItemID}, {"href", c.Href}, {"media-type", "application/xhtml+xml"}}))
	}
	o.WriteString(sp.sep())
	if !infraFirst {
		o.WriteString(navItems.String())
	}
	o.WriteString(`</manifest>`)
	if hasNCX {
		o.WriteString(`<spine toc="ncx">`)
	} else {
		o.WriteString(`<spine>`)
	}
	for i, c := range spine {
		as := []attr{{"idref", c.ItemID}, {"linear", "yes"}}
		if sp.Foreign { // the itemref's own optional id attribute
			as = append(as, attr{"id", fmt.Sprintf("ir%d", i+1)})
		}
		o.WriteString(sp.sep() + sp.el("itemref", as))
	}
	o.WriteString(sp.sep() + `</spine>`)
	if version == 2 && extras && len(spine) > 0 {
		fmt.Fprintf(&o, `<guide><reference type="text" title="Start" href="%s"/></guide>`, esc(spine[0].Href))
	}
	o.WriteString(`</package>`)
	var nav []Member
	if hasNav {
		var n strings.Builder
		n.WriteString(`<?xml version="1.0" encoding="UTF-8"?>` + "\n" + `<!DOCTYPE html>` + "\n" +
			`<html xmlns="http://www.w3.org/1999/xhtml" xmlns:epub="http://www.idpf.org/2007/ops"><head><title>Contents</title></head><body>` +
			`<nav epub:type="toc"><h2>` + esc(navText) + `</h2><ol>`)
		for i, c := range spine {
			fmt.Fprintf(&n, `<li><a href="%s">Entry %d</a></li>`, esc(c.Href), i+1)
		}
		n.WriteString(`</ol></nav></body></html>`)
		nav = append(nav, mem(dir+navName, n.String()))
	}
	if hasNCX {
		var n strings.Builder
		n.WriteString(`<?xml version="1.0" encoding="UTF-8"?>` + "\n" +
			`<ncx xmlns="http://www.daisy.org/z3986/2005/ncx/" version="2005-1"><head>` +
			`<meta name="dtb:uid" content="urn:uuid:00000000-0000-4000-8000-000000000017"/><meta name="dtb:depth" content="1"/>` +
			`<meta name="dtb:totalPageCount" content="0"/><meta name="dtb:maxPageNumber" content="0"/></head>` +
			`<docTitle><text>Book</text></docTitle><navMap>`)
		for i, c := range spine {
			fmt.Fprintf(&n, `<navPoint id="np%d" playOrder="%d"><navLabel><text>Entry %d</text></navLabel><content src="%s"/></navPoint>`, i+1, i+1, i+1, esc(c.Href))
		}
		n.WriteString(`</navMap></ncx>`)
		nav = append(nav, mem(dir+ncxName, n.String()))
	}
	return sp.doc(`<?xml version="1.0" encoding="UTF-8"?>`+"\n", o.String()), nav
}

// Members renders the package: mimetype first and stored (OCF 4.3), then the rest.
func (b *Book) Members() []Member {
	var man, spine []EItem
	for _, c := range sortedBy(b.Chapters, func(c EChapter) int { return c.RelPos }) {
		man = append(man, EItem{c.ItemID, c.Href})
	}
	for _, c := range sortedBy(b.Chapters, func(c EChapter) int { return c.DeclPos }) {
		spine = append(spine, EItem{c.ItemID, c.Href})
	}
	opf, nav := packageXML(b.Sp, b.Version, b.Extras, b.InfraFirst, b.OPFPath, "nav.xhtml", "toc.ncx", b.NavText, man, spine)
	roots := b.Rootfiles
	if len(roots) == 0 {
		roots = []ERootfile{{FullPath: b.OPFPath, MediaType: "application/oebps-package+xml"}}
	}
	var c strings.Builder
	c.WriteString(`<container version="1.0" xmlns="urn:oasis:names:tc:opendocument:xmlns:container"><rootfiles>`)
	for _, r := range roots {
		c.WriteString(b.Sp.sep() + b.Sp.el("rootfile", []attr{{"full-path", r.FullPath}, {"media-type", r.MediaType}}))
	}
	c.WriteString(b.Sp.sep() + `</rootfiles></container>`)
	containerXML := b.Sp.doc(`<?xml version="1.0" encoding="UTF-8"?>`+"\n", c.String())
	infra := []Member{mem("META-INF/container.xml", containerXML), mem(b.OPFPath, opf)}
	infra = append(infra, nav...)
	for _, a := range b.Alternates {
		aopf, anav := packageXML(b.Sp, b.Version, b.Extras, b.InfraFirst, a.OPFPath, "nav_"+a.Tag+".xhtml", "toc_"+a.Tag+".ncx", b.NavText, a.Spine, a.Spine)
		infra = append(infra, mem(a.OPFPath, aopf))
		infra = append(infra, anav...)
	}
	for _, r := range roots {
		if r.Dummy {
			infra = append(infra, mem(r.FullPath, "%PDF-1.4\n% another format of the book (placeholder)\n"))
		}
	}
	var parts []Member
	zs := append([]EChapter{}, b.Chapters...)
	sort.SliceStable(zs, func(i, j int) bool { return zs[i].ZipPos < zs[j].ZipPos })
	for _, c := range zs {
		if !c.Absent {
			parts = append(parts, mem(c.PartName, ChapterXML(c)))
		}
	}
	out := []Member{{Name: "mimetype", Data: []byte("application/epub+zip"), Store: true}}
	return append(out, order(infra, parts, b.InfraFirst)...)
}
