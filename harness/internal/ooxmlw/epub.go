package ooxmlw

import (
	"fmt"
	"sort"
	"strings"
)

// EChapter is one content document and how the package document refers to it.
type EChapter struct {
	ItemID   string // manifest item id
	Text     string // paragraph text (carries the content token)
	PartName string // ZIP member name
	Href     string // manifest href as written (percent-encoded, relative to the OPF)
	DeclPos  int    // position in the spine (0: not in the spine)
	RelPos   int    // position in the manifest (0: not in the manifest - an unlisted file)
	ZipPos   int
	Absent   bool // in manifest and spine as usual, but the file itself is not put into the archive
}

// Book is a whole EPUB package.
type Book struct {
	Chapters   []EChapter
	OPFPath    string // ZIP member name of the package document, e.g. OEBPS/content.opf
	Version    int    // 2: NCX navigation; 3: nav document (+ NCX when Extras)
	Extras     bool   // EPUB 3: also an NCX; EPUB 2: a <guide>
	InfraFirst bool   // navigation items precede the chapters in manifest and archive
	NavText    string // text shown in the navigation document heading
}

func dirOf(p string) string {
	if i := strings.LastIndex(p, "/"); i >= 0 {
		return p[:i+1]
	}
	return ""
}

// ChapterXML renders one XHTML content document.
func ChapterXML(c EChapter) string {
	return `<?xml version="1.0" encoding="UTF-8"?>` + "\n" + `<!DOCTYPE html>` + "\n" +
		`<html xmlns="http://www.w3.org/1999/xhtml"><head><title>Chapter</title></head><body><p>` + esc(c.Text) + `</p></body></html>`
}

// Members renders the package: mimetype first and stored (OCF 4.3), then the rest.
func (b *Book) Members() []Member {
	spine := sortedBy(b.Chapters, func(c EChapter) int { return c.DeclPos })
	man := sortedBy(b.Chapters, func(c EChapter) int { return c.RelPos })
	dir := dirOf(b.OPFPath)
	hasNCX := b.Version == 2 || b.Extras
	hasNav := b.Version == 3

	var navItems strings.Builder
	if hasNav {
		navItems.WriteString(`<item id="nav" href="nav.xhtml" media-type="application/xhtml+xml" properties="nav"/>`)
	}
	if hasNCX {
		navItems.WriteString(`<item id="ncx" href="toc.ncx" media-type="application/x-dtbncx+xml"/>`)
	}
	var o strings.Builder
	o.WriteString(`<?xml version="1.0" encoding="UTF-8"?>` + "\n")
	fmt.Fprintf(&o, `<package xmlns="http://www.idpf.org/2007/opf" version="%d.0" unique-identifier="uid">`, b.Version)
	o.WriteString(`<metadata xmlns:dc="http://purl.org/dc/elements/1.1/" xmlns:opf="http://www.idpf.org/2007/opf">` +
		`<dc:identifier id="uid">urn:uuid:00000000-0000-4000-8000-000000000017</dc:identifier><dc:title>Book</dc:title><dc:language>en</dc:language>`)
	if b.Version == 3 {
		o.WriteString(`<meta property="dcterms:modified">2020-01-01T00:00:00Z</meta>`)
	}
	o.WriteString(`</metadata><manifest>`)
	if b.InfraFirst {
		o.WriteString(navItems.String())
	}
	for _, c := range man {
		fmt.Fprintf(&o, `<item id="%s" href="%s" media-type="application/xhtml+xml"/>`, esc(c.ItemID), esc(c.Href))
	}
	if !b.InfraFirst {
		o.WriteString(navItems.String())
	}
	o.WriteString(`</manifest>`)
	if hasNCX {
		o.WriteString(`<spine toc="ncx">`)
	} else {
		o.WriteString(`<spine>`)
	}
	for _, c := range spine {
		fmt.Fprintf(&o, `<itemref idref="%s"/>`, esc(c.ItemID))
	}
	o.WriteString(`</spine>`)
	if b.Version == 2 && b.Extras && len(spine) > 0 {
		fmt.Fprintf(&o, `<guide><reference type="text" title="Start" href="%s"/></guide>`, esc(spine[0].Href))
	}
	o.WriteString(`</package>`)

	container := `<?xml version="1.0" encoding="UTF-8"?>` + "\n" +
		`<container version="1.0" xmlns="urn:oasis:names:tc:opendocument:xmlns:container"><rootfiles>` +
		`<rootfile full-path="` + esc(b.OPFPath) + `" media-type="application/oebps-package+xml"/></rootfiles></container>`

	var nav []Member
	if hasNav {
		var n strings.Builder
		n.WriteString(`<?xml version="1.0" encoding="UTF-8"?>` + "\n" + `<!DOCTYPE html>` + "\n" +
			`<html xmlns="http://www.w3.org/1999/xhtml" xmlns:epub="http://www.idpf.org/2007/ops"><head><title>Contents</title></head><body>` +
			`<nav epub:type="toc"><h2>` + esc(b.NavText) + `</h2><ol>`)
		for i, c := range spine {
			fmt.Fprintf(&n, `<li><a href="%s">Entry %d</a></li>`, esc(c.Href), i+1)
		}
		n.WriteString(`</ol></nav></body></html>`)
		nav = append(nav, mem(dir+"nav.xhtml", n.String()))
	}
	if hasNCX {
		var n strings.Builder
		n.WriteString(`<?xml version="1.0" encoding="UTF-8"?>` + "\n" +
			`<ncx xmlns="http://www.daisy.org/z3986/2005/ncx/" version="2005-1"><head>` +
			`<meta name="dtb:uid" content="urn:uuid:00000000-0000-4000-8000-000000000017"/><meta name="dtb:depth" content="1"/>` +
			`<meta name="dtb:totalPageCount" content="0"/><meta name="dtb:maxPageNumber" content="0"/></head>` +
			`<docTitle><text>Book</text></docTitle><navMap>`)
		for i, c := range spine {
			fmt.Fprintf(&n, `<navPoint id="np%d" playOrder="%d"><navLabel><text>Entry %d</text></navLabel><content src="%s"/></navPoint>`, i+1, i+1, i+1, esc(c.Href))
		}
		n.WriteString(`</navMap></ncx>`)
		nav = append(nav, mem(dir+"toc.ncx", n.String()))
	}
	infra := []Member{mem("META-INF/container.xml", container), mem(b.OPFPath, o.String())}
	infra = append(infra, nav...)
	var parts []Member
	zs := append([]EChapter{}, b.Chapters...)
	sort.SliceStable(zs, func(i, j int) bool { return zs[i].ZipPos < zs[j].ZipPos })
	for _, c := range zs {
		if !c.Absent {
			parts = append(parts, mem(c.PartName, ChapterXML(c)))
		}
	}
	out := []Member{{Name: "mimetype", Data: []byte("application/epub+zip"), Store: true}}
	return append(out, order(infra, parts, b.InfraFirst)...)
}
