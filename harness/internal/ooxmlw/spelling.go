package ooxmlw

import "strings"

// Spelling is how the declaration elements of a package are written as XML text.
// None of it changes the XML information set: attribute order, the prefix bound
// to the relationships namespace, quote characters, an extra attribute with local
// name "id" in a foreign namespace (legal through Markup Compatibility: the
// namespace is listed in mc:Ignorable; EPUB: the itemref's own optional id),
// empty-element vs start/end tags, whitespace and comments between entries, the
// XML declaration (present, absent, with a UTF-8 byte order mark).
type Spelling struct {
	Rev       bool   // attributes of an entry in reverse order
	RelPrefix string // prefix of the officeDocument relationships namespace ("" = r)
	Single    bool   // single quotes
	Foreign   bool   // extra foreign attribute with local name id, written last (first when Rev)
	OpenClose bool   // <x ...></x> instead of <x .../>
	Gaps      bool   // line breaks, indentation and a comment between entries
	Decl      string // "" / "std": XML declaration; "none"; "bom": byte order mark + declaration
}

type attr struct{ k, v string }

const (
	nsMC  = "http://schemas.openxmlformats.org/markup-compatibility/2006"
	nsExt = "urn:verif:spelling-extension"
)

func (sp Spelling) rp() string {
	if sp.RelPrefix == "" {
		return "r"
	}
	return sp.RelPrefix
}

// el renders one empty element with the given attributes.
func (sp Spelling) el(name string, attrs []attr) string {
	if sp.Rev {
		r := make([]attr, len(attrs))
		for i, a := range attrs {
			r[len(attrs)-1-i] = a
		}
		attrs = r
	}
	q := `"`
	if sp.Single {
		q = `'`
	}
	var b strings.Builder
	b.WriteString("<" + name)
	for _, a := range attrs {
		v := esc(a.v)
		if sp.Single {
			v = strings.ReplaceAll(v, "'", "&apos;")
		}
		b.WriteString(" " + a.k + "=" + q + v + q)
	}
	if sp.OpenClose {
		b.WriteString("></" + name + ">")
	} else {
		b.WriteString("/>")
	}
	return b.String()
}

// sep is written between (and around) the entries of a list.
func (sp Spelling) sep() string {
	if sp.Gaps {
		return "\n\t<!-- next entry -->\n\t  "
	}
	return ""
}

// doc puts the XML declaration (or not) in front of a document.
func (sp Spelling) doc(decl, body string) string {
	switch sp.Decl {
	case "none":
		return body
	case "bom":
		return "\xef\xbb\xbf" + decl + body
	}
	return decl + body
}

// mcAttrs are the root-element attributes that make the foreign namespace ignorable.
func (sp Spelling) mcAttrs() string {
	if !sp.Foreign {
		return ""
	}
	return ` xmlns:mc="` + nsMC + `" xmlns:vx="` + nsExt + `" mc:Ignorable="vx"`
}
