package ooxmlw

import (
	"fmt"
	"sort"
	"strings"
)

// PSlide is one slide part and how the presentation refers to it.
type PSlide struct {
	Text     string // body text (carries the content token)
	SldID    int    // <p:sldId id> (>= 256)
	RID      string
	PartName string // ZIP member name
	Target   string // Relationship Target as written
	DeclPos  int    // position in <p:sldIdLst> (0: undeclared orphan part, no relationship)
	RelPos   int    // position in presentation.xml.rels
	ZipPos   int
	Absent   bool // listed and related as usual, but the part itself is not put into the archive
	// Notes: text of the slide's notes slide ("" = the slide has none). The notes slide part is
	// ppt/notesSlides/notesSlide<NotesNo>.xml, related from the slide part.
	Notes   string
	NotesNo int
}

// Deck is a whole PPTX package.
type Deck struct {
	Slides     []PSlide
	Extras     bool // docProps, presProps, viewProps, tableStyles present
	InfraFirst bool
	// RelsInfraFirst: /_rels/.rels lists the officeDocument relationship last and
	// presentation.xml.rels lists slideMaster / theme / props before the slides
	RelsInfraFirst bool
	// RelsInfraMixed: the other relationships are interleaved with the part relationships (one
	// after every part relationship while there are any), and /_rels/.rels lists officeDocument in the middle
	RelsInfraMixed bool
	// Strict: the ISO/IEC 29500 Strict conformance class (purl.oclc.org namespaces and relationship types)
	Strict bool
	// Spelling of presentation.xml, its relationships and /_rels/.rels
	Sp Spelling
}

const (
	nsP       = "http://schemas.openxmlformats.org/presentationml/2006/main"
	nsA       = "http://schemas.openxmlformats.org/drawingml/2006/main"
	ctPres    = "application/vnd.openxmlformats-officedocument.presentationml.presentation.main+xml"
	ctSlide   = "application/vnd.openxmlformats-officedocument.presentationml.slide+xml"
	ctMaster  = "application/vnd.openxmlformats-officedocument.presentationml.slideMaster+xml"
	ctLayout  = "application/vnd.openxmlformats-officedocument.presentationml.slideLayout+xml"
	ctPresPr  = "application/vnd.openxmlformats-officedocument.presentationml.presProps+xml"
	ctViewPr  = "application/vnd.openxmlformats-officedocument.presentationml.viewProps+xml"
	ctTblSty  = "application/vnd.openxmlformats-officedocument.presentationml.tableStyles+xml"
	pNS       = ` xmlns:a="` + nsA + `" xmlns:r="` + nsRel + `" xmlns:p="` + nsP + `"`
	emptyTree = `<p:nvGrpSpPr><p:cNvPr id="1" name=""/><p:cNvGrpSpPr/><p:nvPr/></p:nvGrpSpPr><p:grpSpPr/>`
	clrMap    = `<p:clrMap bg1="lt1" tx1="dk1" bg2="lt2" tx2="dk2" accent1="accent1" accent2="accent2" accent3="accent3" accent4="accent4" accent5="accent5" accent6="accent6" hlink="hlink" folHlink="folHlink"/>`
)

func shapeXML(id int, name, ph, text string) string {
	return fmt.Sprintf(`<p:sp><p:nvSpPr><p:cNvPr id="%d" name="%s"/><p:cNvSpPr/><p:nvPr><p:ph type="%s"/></p:nvPr></p:nvSpPr><p:spPr/>`+
		`<p:txBody><a:bodyPr/><a:p><a:r><a:rPr lang="en-US"/><a:t>%s</a:t></a:r></a:p></p:txBody></p:sp>`, id, esc(name), ph, esc(text))
}

// SlideXML renders a slide with a constant title and one body paragraph.
func SlideXML(s PSlide) string {
	return xmlDecl + `<p:sld` + pNS + `><p:cSld><p:spTree>` + emptyTree +
		shapeXML(2, "Title 1", "title", "Overview") + shapeXML(3, "Content 2", "body", s.Text) +
		`</p:spTree></p:cSld><p:clrMapOvr><a:masterClrMapping/></p:clrMapOvr></p:sld>`
}

func (d *Deck) hasNotes() bool {
	for _, s := range d.Slides {
		if s.Notes != "" && !s.Absent {
			return true
		}
	}
	return false
}

func notesMasterLst(d *Deck, sp Spelling) string {
	if !d.hasNotes() {
		return ""
	}
	return `<p:notesMasterIdLst><p:notesMasterId ` + sp.rp() + `:id="rIdN"/></p:notesMasterIdLst>`
}

const (
	ctNotes       = "application/vnd.openxmlformats-officedocument.presentationml.notesSlide+xml"
	ctNotesMaster = "application/vnd.openxmlformats-officedocument.presentationml.notesMaster+xml"
)

// upTo returns the relative path from the directory of part to target (both ZIP member names).
func upTo(part, target string) string {
	n := strings.Count(part, "/")
	pre := strings.Split(part, "/")
	tg := strings.Split(target, "/")
	k := 0
	for k < n && k < len(tg)-1 && pre[k] == tg[k] {
		k++
	}
	return strings.Repeat("../", n-k) + strings.Join(tg[k:], "/")
}

// Members renders the package.
func (d *Deck) Members() []Member {
	decl := sortedBy(d.Slides, func(s PSlide) int { return s.DeclPos })
	rel := sortedBy(d.Slides, func(s PSlide) int { return s.RelPos })
	var pr strings.Builder
	sp := d.Sp
	pr.WriteString(`<p:presentation xmlns:a="` + nsA + `" xmlns:` + sp.rp() + `="` + nsRel + `" xmlns:p="` + nsP + `"` + sp.mcAttrs() +
		`><p:sldMasterIdLst><p:sldMasterId id="2147483648" ` + sp.rp() + `:id="rIdM"/></p:sldMasterIdLst>` + notesMasterLst(d, sp) + `<p:sldIdLst>`)
	for i, s := range decl {
		as := []attr{{"id", fmt.Sprint(s.SldID)}, {sp.rp() + ":id", s.RID}}
		if sp.Foreign {
			as = append(as, attr{"vx:id", fmt.Sprintf("x%d", 900+i)})
		}
		pr.WriteString(sp.sep() + sp.el("p:sldId", as))
	}
	pr.WriteString(sp.sep() + `</p:sldIdLst><p:sldSz cx="9144000" cy="6858000"/><p:notesSz cx="6858000" cy="9144000"/></p:presentation>`)
	prXML := sp.doc(xmlDecl, pr.String())

	var rels []Rel
	for _, s := range rel {
		rels = append(rels, Rel{s.RID, relBase + "slide", s.Target})
	}
	rels = append(rels, Rel{"rIdM", relBase + "slideMaster", "slideMasters/slideMaster1.xml"}, Rel{"rIdT", relBase + "theme", "theme/theme1.xml"})
	ov := []Override{{"ppt/presentation.xml", ctPres}, {"ppt/slideMasters/slideMaster1.xml", ctMaster},
		{"ppt/slideLayouts/slideLayout1.xml", ctLayout}, {"ppt/theme/theme1.xml", ctTheme}}
	for _, s := range d.Slides {
		if !s.Absent {
			ov = append(ov, Override{s.PartName, ctSlide})
			if s.Notes != "" {
				ov = append(ov, Override{fmt.Sprintf("ppt/notesSlides/notesSlide%d.xml", s.NotesNo), ctNotes})
			}
		}
	}
	if d.hasNotes() {
		rels = append(rels, Rel{"rIdN", relBase + "notesMaster", "notesMasters/notesMaster1.xml"})
		ov = append(ov, Override{"ppt/notesMasters/notesMaster1.xml", ctNotesMaster})
	}
	root := []Rel{{"rId1", relOfficeDoc, "ppt/presentation.xml"}}
	master := xmlDecl + `<p:sldMaster` + pNS + `><p:cSld><p:spTree>` + emptyTree + `</p:spTree></p:cSld>` + clrMap +
		`<p:sldLayoutIdLst><p:sldLayoutId id="2147483649" r:id="rId1"/></p:sldLayoutIdLst></p:sldMaster>`
	layout := xmlDecl + `<p:sldLayout` + pNS + ` type="obj"><p:cSld name="Title and Content"><p:spTree>` + emptyTree +
		`</p:spTree></p:cSld><p:clrMapOvr><a:masterClrMapping/></p:clrMapOvr></p:sldLayout>`
	var tail []Member
	if d.Extras {
		rels = append(rels, Rel{"rIdP", relBase + "presProps", "presProps.xml"}, Rel{"rIdV", relBase + "viewProps", "viewProps.xml"},
			Rel{"rIdS", relBase + "tableStyles", "tableStyles.xml"})
		ov = append(ov, Override{"ppt/presProps.xml", ctPresPr}, Override{"ppt/viewProps.xml", ctViewPr}, Override{"ppt/tableStyles.xml", ctTblSty},
			Override{"docProps/core.xml", ctCore}, Override{"docProps/app.xml", ctApp})
		root = append(root, Rel{"rId2", relCoreProps, "docProps/core.xml"}, Rel{"rId3", relExtProps, "docProps/app.xml"})
		tail = append(tail,
			mem("ppt/presProps.xml", xmlDecl+`<p:presentationPr`+pNS+`/>`),
			mem("ppt/viewProps.xml", xmlDecl+`<p:viewPr`+pNS+`/>`),
			mem("ppt/tableStyles.xml", xmlDecl+`<a:tblStyleLst xmlns:a="`+nsA+`" def="{5C22544A-7EE6-4342-B048-85BDC9FD1C3A}"/>`),
			mem("docProps/core.xml", corePropsXML("deck")), mem("docProps/app.xml", appPropsXML("verif")))
	}
	if d.RelsInfraFirst || d.RelsInfraMixed {
		n := len(rel)
		parts, others := rels[:n], rels[n:]
		if d.RelsInfraFirst {
			rels = append(append([]Rel{}, others...), parts...)
			root = append(append([]Rel{}, root[1:]...), root[0])
		} else {
			rels = nil
			for i, pr := range parts {
				rels = append(rels, pr)
				if i < len(others) {
					rels = append(rels, others[i])
				}
			}
			if len(others) > len(parts) {
				rels = append(rels, others[len(parts):]...)
			}
			if len(root) > 2 {
				root = []Rel{root[1], root[0], root[2]}
			}
		}
	}
	infra := []Member{
		mem("[Content_Types].xml", contentTypesXML(ov)),
		mem("_rels/.rels", relsXMLSp(root, sp)),
		mem("ppt/presentation.xml", prXML),
		mem("ppt/_rels/presentation.xml.rels", relsXMLSp(rels, sp)),
		mem("ppt/slideMasters/slideMaster1.xml", master),
		mem("ppt/slideMasters/_rels/slideMaster1.xml.rels", relsXML([]Rel{{"rId1", relBase + "slideLayout", "../slideLayouts/slideLayout1.xml"}, {"rId2", relBase + "theme", "../theme/theme1.xml"}})),
		mem("ppt/slideLayouts/slideLayout1.xml", layout),
		mem("ppt/slideLayouts/_rels/slideLayout1.xml.rels", relsXML([]Rel{{"rId1", relBase + "slideMaster", "../slideMasters/slideMaster1.xml"}})),
		mem("ppt/theme/theme1.xml", themeXML),
	}
	infra = append(infra, tail...)
	if d.hasNotes() {
		nm := xmlDecl + `<p:notesMaster` + pNS + `><p:cSld><p:spTree>` + emptyTree + `</p:spTree></p:cSld>` + clrMap + `</p:notesMaster>`
		infra = append(infra, mem("ppt/notesMasters/notesMaster1.xml", nm),
			mem("ppt/notesMasters/_rels/notesMaster1.xml.rels", relsXML([]Rel{{"rId1", relBase + "theme", "../theme/theme1.xml"}})))
	}
	var parts []Member
	zs := append([]PSlide{}, d.Slides...)
	sort.SliceStable(zs, func(i, j int) bool { return zs[i].ZipPos < zs[j].ZipPos })
	for _, s := range zs {
		if s.Absent {
			continue
		}
		parts = append(parts, mem(s.PartName, SlideXML(s)))
		// every slide part relates to its layout (19.3.1.38); an absolute target is
		// independent of where the slide part lives
		srels := []Rel{{"rId1", relBase + "slideLayout", "/ppt/slideLayouts/slideLayout1.xml"}}
		if s.Notes != "" {
			np := fmt.Sprintf("ppt/notesSlides/notesSlide%d.xml", s.NotesNo)
			srels = append(srels, Rel{"rId2", relBase + "notesSlide", upTo(s.PartName, np)})
			notes := xmlDecl + `<p:notes` + pNS + `><p:cSld><p:spTree>` + emptyTree + shapeXML(2, "Notes Placeholder 1", "body", s.Notes) +
				`</p:spTree></p:cSld><p:clrMapOvr><a:masterClrMapping/></p:clrMapOvr></p:notes>`
			parts = append(parts, mem(np, notes), mem(relsPathFor(np), relsXML([]Rel{
				{"rId1", relBase + "notesMaster", "../notesMasters/notesMaster1.xml"}, {"rId2", relBase + "slide", upTo(np, s.PartName)}})))
		}
		parts = append(parts, mem(relsPathFor(s.PartName), relsXML(srels)))
	}
	return strictify(order(infra, parts, d.InfraFirst), d.Strict)
}
