package ooxmlw

import (
	"fmt"
	"sort"
	"strings"
)

// XCell is one <c> element. Kind is the abstract cell kind of Sheet.tla:
// s, sr, is, isr, str, b, e, n, fn, z.  Text is the rendered value (string
// token, 0/1, error literal, number literal); SI the shared-string index.
type XCell struct {
	Ref  string
	Kind string
	Text string
	SI   int
}

// XRow is one <row> element with its cells in file order. HasR=false omits the
// optional r attribute of the row (CT_Row/@r is use="optional", 18.3.1.73).
type XRow struct {
	R     int
	HasR  bool
	Cells []XCell
}

// XSI is one <si> of the shared string table; Rich renders it as two runs.
type XSI struct {
	Text  string
	Rich  bool
	Empty bool // an empty item <si/> (CT_Rst has no required child)
}

// XSheet is one worksheet part and how the workbook refers to it.
type XSheet struct {
	Name     string // <sheet name>
	SheetID  int    // <sheet sheetId>
	RID      string // relationship id
	PartName string // ZIP member name, e.g. xl/worksheets/sheet1.xml
	Target   string // Relationship Target as written
	Rows     []XRow
	Merges   []string // mergeCell refs in file order
	DeclPos  int      // position in <sheets> (0: not declared, no relationship: an orphan part)
	RelPos   int      // position in workbook.xml.rels
	ZipPos   int      // position among the part members
	Absent   bool     // declared and related as usual, but the part itself is not put into the archive
}

// XWorkbook is a whole XLSX package.
type XWorkbook struct {
	Sheets     []XSheet
	SST        []XSI
	Extras     bool // styles, theme, docProps present
	InfraFirst bool
	// RelsInfraFirst: /_rels/.rels lists the officeDocument relationship last and
	// workbook.xml.rels lists sharedStrings / styles / theme before the worksheets
	RelsInfraFirst bool
	// RelsInfraMixed: the other relationships are interleaved with the part relationships (one
	// after every part relationship while there are any), and /_rels/.rels lists officeDocument in the middle
	RelsInfraMixed bool
	// Strict: the ISO/IEC 29500 Strict conformance class (purl.oclc.org namespaces and relationship types)
	Strict bool
	// Spelling of workbook.xml, its relationships, /_rels/.rels and of the cell / row attributes
	Sp Spelling
}

const (
	nsMain  = "http://schemas.openxmlformats.org/spreadsheetml/2006/main"
	nsRel   = "http://schemas.openxmlformats.org/officeDocument/2006/relationships"
	ctSheet = "application/vnd.openxmlformats-officedocument.spreadsheetml.worksheet+xml"
	ctWb    = "application/vnd.openxmlformats-officedocument.spreadsheetml.sheet.main+xml"
	ctSST   = "application/vnd.openxmlformats-officedocument.spreadsheetml.sharedStrings+xml"
	ctStyle = "application/vnd.openxmlformats-officedocument.spreadsheetml.styles+xml"
)

// split cuts a token in two for rich-text runs.
func split(s string) (string, string) {
	h := len(s) / 2
	if h == 0 {
		h = len(s)
	}
	return s[:h], s[h:]
}

func runsXML(s string) string {
	a, b := split(s)
	return `<r><rPr><b/></rPr><t>` + esc(a) + `</t></r><r><t>` + esc(b) + `</t></r>`
}

func cellXML(c XCell, sp Spelling) string {
	// <c r=".." s=".." t=".."> with the attributes in the spelling's order
	open := func(t string, selfClose bool) string {
		as := []attr{{"r", c.Ref}}
		if c.Kind == "z" || sp.Rev || sp.Single || sp.OpenClose || sp.Gaps {
			as = append(as, attr{"s", "0"}) // the default style index, spelled out
		}
		if t != "" {
			as = append(as, attr{"t", t})
		}
		e := Spelling{Rev: sp.Rev, Single: sp.Single}.el("c", as)
		if selfClose {
			if sp.OpenClose {
				return strings.TrimSuffix(e, "/>") + "></c>"
			}
			return e
		}
		return strings.TrimSuffix(e, "/>") + ">"
	}
	switch c.Kind {
	case "s", "sr", "se":
		return open("s", false) + fmt.Sprintf(`<v>%d</v></c>`, c.SI)
	case "is":
		return open("inlineStr", false) + `<is><t>` + esc(c.Text) + `</t></is></c>`
	case "isr":
		return open("inlineStr", false) + `<is>` + runsXML(c.Text) + `</is></c>`
	case "str":
		a, b := split(c.Text)
		return open("str", false) + `<f>CONCATENATE(&quot;` + esc(a) + `&quot;,&quot;` + esc(b) + `&quot;)</f><v>` + esc(c.Text) + `</v></c>`
	case "b":
		return open("b", false) + `<v>` + esc(c.Text) + `</v></c>`
	case "e":
		return open("e", false) + `<v>` + esc(c.Text) + `</v></c>`
	case "n":
		return open("", false) + `<v>` + esc(c.Text) + `</v></c>`
	case "fn":
		return open("", false) + `<f>` + esc(c.Text) + `+0</f><v>` + esc(c.Text) + `</v></c>`
	case "z":
		return open("", true)
	}
	panic("ooxmlw: unknown cell kind " + c.Kind)
}

// SheetXML renders one worksheet part.
func SheetXML(s XSheet) string { return SheetXMLSp(s, Spelling{}) }

// SheetXMLSp renders one worksheet part with the cell attributes in the given spelling.
func SheetXMLSp(s XSheet, sp Spelling) string {
	var b strings.Builder
	b.WriteString(xmlDecl)
	b.WriteString(`<worksheet xmlns="` + nsMain + `" xmlns:r="` + nsRel + `"><sheetData>`)
	for _, row := range s.Rows {
		if row.HasR {
			fmt.Fprintf(&b, `<row r="%d">`, row.R)
		} else {
			b.WriteString(`<row>`)
		}
		for _, c := range row.Cells {
			b.WriteString(cellXML(c, sp))
		}
		b.WriteString(`</row>`)
	}
	b.WriteString(`</sheetData>`)
	if len(s.Merges) > 0 {
		fmt.Fprintf(&b, `<mergeCells count="%d">`, len(s.Merges))
		for _, m := range s.Merges {
			b.WriteString(`<mergeCell ref="` + esc(m) + `"/>`)
		}
		b.WriteString(`</mergeCells>`)
	}
	b.WriteString(`</worksheet>`)
	return b.String()
}

func sstXML(sst []XSI) string {
	var b strings.Builder
	b.WriteString(xmlDecl)
	fmt.Fprintf(&b, `<sst xmlns="%s" count="%d" uniqueCount="%d">`, nsMain, len(sst), len(sst))
	for _, si := range sst {
		if si.Empty {
			b.WriteString(`<si/>`)
		} else if si.Rich {
			b.WriteString(`<si>` + runsXML(si.Text) + `</si>`)
		} else {
			b.WriteString(`<si><t>` + esc(si.Text) + `</t></si>`)
		}
	}
	b.WriteString(`</sst>`)
	return b.String()
}

const stylesXML = xmlDecl + `<styleSheet xmlns="` + nsMain + `"><fonts count="1"><font><sz val="11"/><name val="Calibri"/></font></fonts>` +
	`<fills count="2"><fill><patternFill patternType="none"/></fill><fill><patternFill patternType="gray125"/></fill></fills>` +
	`<borders count="1"><border><left/><right/><top/><bottom/><diagonal/></border></borders>` +
	`<cellStyleXfs count="1"><xf numFmtId="0" fontId="0" fillId="0" borderId="0"/></cellStyleXfs>` +
	`<cellXfs count="1"><xf numFmtId="0" fontId="0" fillId="0" borderId="0" xfId="0"/></cellXfs></styleSheet>`

// Members renders the package. Lists are emitted in the order of DeclPos /
// RelPos / ZipPos given in the description.
func (w *XWorkbook) Members() []Member {
	decl := sortedBy(w.Sheets, func(s XSheet) int { return s.DeclPos })
	rel := sortedBy(w.Sheets, func(s XSheet) int { return s.RelPos })
	var wb strings.Builder
	sp := w.Sp
	wb.WriteString(`<workbook xmlns="` + nsMain + `" xmlns:` + sp.rp() + `="` + nsRel + `"` + sp.mcAttrs() + `><sheets>`)
	for i, s := range decl {
		as := []attr{{"name", s.Name}, {"sheetId", fmt.Sprint(s.SheetID)}, {sp.rp() + ":id", s.RID}}
		if sp.Foreign {
			as = append(as, attr{"vx:id", fmt.Sprintf("x%d", 900+i)})
		}
		wb.WriteString(sp.sep() + sp.el("sheet", as))
	}
	wb.WriteString(sp.sep() + `</sheets></workbook>`)
	wbXML := sp.doc(xmlDecl, wb.String())

	var rels []Rel
	for _, s := range rel {
		rels = append(rels, Rel{s.RID, relBase + "worksheet", s.Target})
	}
	ov := []Override{{"xl/workbook.xml", ctWb}}
	for _, s := range w.Sheets {
		if !s.Absent {
			ov = append(ov, Override{s.PartName, ctSheet})
		}
	}
	root := []Rel{{"rId1", relOfficeDoc, "xl/workbook.xml"}}
	var tail []Member
	if len(w.SST) > 0 {
		rels = append(rels, Rel{"rIdS", relBase + "sharedStrings", "sharedStrings.xml"})
		ov = append(ov, Override{"xl/sharedStrings.xml", ctSST})
		tail = append(tail, mem("xl/sharedStrings.xml", sstXML(w.SST)))
	}
	if w.Extras {
		rels = append(rels, Rel{"rIdY", relBase + "styles", "styles.xml"}, Rel{"rIdT", relBase + "theme", "theme/theme1.xml"})
		ov = append(ov, Override{"xl/styles.xml", ctStyle}, Override{"xl/theme/theme1.xml", ctTheme},
			Override{"docProps/core.xml", ctCore}, Override{"docProps/app.xml", ctApp})
		root = append(root, Rel{"rId2", relCoreProps, "docProps/core.xml"}, Rel{"rId3", relExtProps, "docProps/app.xml"})
		tail = append(tail, mem("xl/styles.xml", stylesXML), mem("xl/theme/theme1.xml", themeXML),
			mem("docProps/core.xml", corePropsXML("workbook")), mem("docProps/app.xml", appPropsXML("verif")))
	}
	if w.RelsInfraFirst || w.RelsInfraMixed {
		n := 0
		for _, sh := range w.Sheets {
			if sh.RelPos > 0 {
				n++
			}
		}
		parts, others := rels[:n], rels[n:]
		if w.RelsInfraFirst {
			rels = append(append([]Rel{}, others...), parts...)
			root = append(append([]Rel{}, root[1:]...), root[0])
		} else {
			rels = nil
			for i, pr := range parts {
				rels = append(rels, pr)
				if i < len(others) {
					rels = append(rels, others[i])
				}
			}
			if len(others) > len(parts) {
				rels = append(rels, others[len(parts):]...)
			}
			if len(root) > 2 {
				root = []Rel{root[1], root[0], root[2]}
			}
		}
	}
	infra := []Member{
		mem("[Content_Types].xml", contentTypesXML(ov)),
		mem("_rels/.rels", relsXMLSp(root, sp)),
		mem("xl/workbook.xml", wbXML),
		mem("xl/_rels/workbook.xml.rels", relsXMLSp(rels, sp)),
	}
	infra = append(infra, tail...)
	var parts []Member
	zs := append([]XSheet{}, w.Sheets...)
	sort.SliceStable(zs, func(i, j int) bool { return zs[i].ZipPos < zs[j].ZipPos })
	for _, s := range zs {
		if !s.Absent {
			parts = append(parts, mem(s.PartName, SheetXMLSp(s, w.Sp)))
		}
	}
	return strictify(order(infra, parts, w.InfraFirst), w.Strict)
}

// sortedBy returns the items with key > 0 in increasing key order.
func sortedBy[T any](items []T, key func(T) int) []T {
	var out []T
	for _, it := range items {
		if key(it) > 0 {
			out = append(out, it)
		}
	}
	sort.SliceStable(out, func(i, j int) bool { return key(out[i]) < key(out[j]) })
	return out
}
