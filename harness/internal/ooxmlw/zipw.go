// Package ooxmlw renders abstract descriptions of XLSX, PPTX and EPUB packages to
// bytes (archive/zip + hand-written XML).  It is a deliberately dumb renderer:
// member names, member order, references, identifiers and list orders are taken
// verbatim from the description (which the TLA+ specification or a trace-recorded
// generator produced); nothing here sorts, renumbers or normalises.  It shares no
// code with tsawler/tabula.
//
// Standards: ECMA-376 5th ed. Part 1 (SpreadsheetML 18.x, PresentationML 19.x),
// Part 2 (OPC: [Content_Types].xml, relationships), EPUB 3.3 / OPF 2.0.1 / OCF.
package ooxmlw

import (
	"archive/zip"
	"bytes"
	"hash/crc32"
	"strings"
)

// Member is one ZIP member. Store = no compression (the EPUB mimetype entry).
type Member struct {
	Name  string
	Data  []byte
	Store bool
}

// Zip writes the members in exactly the given order.
func Zip(members []Member) ([]byte, error) {
	var buf bytes.Buffer
	zw := zip.NewWriter(&buf)
	for _, m := range members {
		h := &zip.FileHeader{Name: m.Name, Method: zip.Deflate}
		if m.Store {
			// stored, sizes and CRC in the local header, no data descriptor and no
			// extra field (OCF 4.3 for the EPUB mimetype entry)
			h.Method = zip.Store
			h.CRC32 = crc32.ChecksumIEEE(m.Data)
			h.CompressedSize64 = uint64(len(m.Data))
			h.UncompressedSize64 = uint64(len(m.Data))
			w, err := zw.CreateRaw(h)
			if err != nil {
				return nil, err
			}
			if _, err := w.Write(m.Data); err != nil {
				return nil, err
			}
			continue
		}
		w, err := zw.CreateHeader(h)
		if err != nil {
			return nil, err
		}
		if _, err := w.Write(m.Data); err != nil {
			return nil, err
		}
	}
	if err := zw.Close(); err != nil {
		return nil, err
	}
	return buf.Bytes(), nil
}

// Names lists the member names in order.
func Names(ms []Member) []string {
	n := make([]string, len(ms))
	for i, m := range ms {
		n[i] = m.Name
	}
	return n
}

const xmlDecl = `<?xml version="1.0" encoding="UTF-8" standalone="yes"?>` + "\n"

// esc escapes XML text and attribute values.
func esc(s string) string {
	r := strings.NewReplacer("&", "&amp;", "<", "&lt;", ">", "&gt;", `"`, "&quot;")
	return r.Replace(s)
}

func mem(name, data string) Member { return Member{Name: name, Data: []byte(data)} }

// relsPathFor returns the relationships part of a part: dir/_rels/base.rels
func relsPathFor(part string) string {
	i := strings.LastIndex(part, "/")
	if i < 0 {
		return "_rels/" + part + ".rels"
	}
	return part[:i] + "/_rels/" + part[i+1:] + ".rels"
}

// Rel is one <Relationship>.
type Rel struct{ ID, Type, Target string }

func relsXML(rels []Rel) string { return relsXMLSp(rels, Spelling{}) }

// relsXMLSp renders a relationships part in the given spelling (no foreign attributes:
// relationships parts must not use Markup Compatibility, OPC 8.x).
func relsXMLSp(rels []Rel, sp Spelling) string {
	var b strings.Builder
	b.WriteString(`<Relationships xmlns="http://schemas.openxmlformats.org/package/2006/relationships">`)
	for _, r := range rels {
		b.WriteString(sp.sep())
		b.WriteString(sp.el("Relationship", []attr{{"Id", r.ID}, {"Type", r.Type}, {"Target", r.Target}}))
	}
	b.WriteString(sp.sep())
	b.WriteString(`</Relationships>`)
	return sp.doc(xmlDecl, b.String())
}

// Override is one <Override> of [Content_Types].xml.
type Override struct{ Part, Type string }

func contentTypesXML(ov []Override) string {
	var b strings.Builder
	b.WriteString(xmlDecl)
	b.WriteString(`<Types xmlns="http://schemas.openxmlformats.org/package/2006/content-types">`)
	b.WriteString(`<Default Extension="rels" ContentType="application/vnd.openxmlformats-package.relationships+xml"/>`)
	b.WriteString(`<Default Extension="xml" ContentType="application/xml"/>`)
	for _, o := range ov {
		b.WriteString(`<Override PartName="/` + esc(o.Part) + `" ContentType="` + esc(o.Type) + `"/>`)
	}
	b.WriteString(`</Types>`)
	return b.String()
}

const (
	relOfficeDoc = "http://schemas.openxmlformats.org/officeDocument/2006/relationships/officeDocument"
	relCoreProps = "http://schemas.openxmlformats.org/package/2006/relationships/metadata/core-properties"
	relExtProps  = "http://schemas.openxmlformats.org/officeDocument/2006/relationships/extended-properties"
	relBase      = "http://schemas.openxmlformats.org/officeDocument/2006/relationships/"
	ctCore       = "application/vnd.openxmlformats-package.core-properties+xml"
	ctApp        = "application/vnd.openxmlformats-officedocument.extended-properties+xml"
	ctTheme      = "application/vnd.openxmlformats-officedocument.theme+xml"
)

func corePropsXML(title string) string {
	return xmlDecl + `<cp:coreProperties xmlns:cp="http://schemas.openxmlformats.org/package/2006/metadata/core-properties" ` +
		`xmlns:dc="http://purl.org/dc/elements/1.1/" xmlns:dcterms="http://purl.org/dc/terms/" ` +
		`xmlns:xsi="http://www.w3.org/2001/XMLSchema-instance"><dc:title>` + esc(title) + `</dc:title><dc:creator>verif</dc:creator></cp:coreProperties>`
}

func appPropsXML(app string) string {
	return xmlDecl + `<Properties xmlns="http://schemas.openxmlformats.org/officeDocument/2006/extended-properties"><Application>` + esc(app) + `</Application></Properties>`
}

const themeXML = xmlDecl + `<a:theme xmlns:a="http://schemas.openxmlformats.org/drawingml/2006/main" name="T"><a:themeElements>` +
	`<a:clrScheme name="C"><a:dk1><a:srgbClr val="000000"/></a:dk1><a:lt1><a:srgbClr val="FFFFFF"/></a:lt1><a:dk2><a:srgbClr val="1F497D"/></a:dk2><a:lt2><a:srgbClr val="EEECE1"/></a:lt2>` +
	`<a:accent1><a:srgbClr val="4F81BD"/></a:accent1><a:accent2><a:srgbClr val="C0504D"/></a:accent2><a:accent3><a:srgbClr val="9BBB59"/></a:accent3><a:accent4><a:srgbClr val="8064A2"/></a:accent4>` +
	`<a:accent5><a:srgbClr val="4BACC6"/></a:accent5><a:accent6><a:srgbClr val="F79646"/></a:accent6><a:hlink><a:srgbClr val="0000FF"/></a:hlink><a:folHlink><a:srgbClr val="800080"/></a:folHlink></a:clrScheme>` +
	`<a:fontScheme name="F"><a:majorFont><a:latin typeface="Calibri"/><a:ea typeface=""/><a:cs typeface=""/></a:majorFont><a:minorFont><a:latin typeface="Calibri"/><a:ea typeface=""/><a:cs typeface=""/></a:minorFont></a:fontScheme>` +
	`<a:fmtScheme name="M"><a:fillStyleLst><a:solidFill><a:schemeClr val="phClr"/></a:solidFill><a:solidFill><a:schemeClr val="phClr"/></a:solidFill><a:solidFill><a:schemeClr val="phClr"/></a:solidFill></a:fillStyleLst>` +
	`<a:lnStyleLst><a:ln w="9525"><a:solidFill><a:schemeClr val="phClr"/></a:solidFill></a:ln><a:ln w="9525"><a:solidFill><a:schemeClr val="phClr"/></a:solidFill></a:ln><a:ln w="9525"><a:solidFill><a:schemeClr val="phClr"/></a:solidFill></a:ln></a:lnStyleLst>` +
	`<a:effectStyleLst><a:effectStyle><a:effectLst/></a:effectStyle><a:effectStyle><a:effectLst/></a:effectStyle><a:effectStyle><a:effectLst/></a:effectStyle></a:effectStyleLst>` +
	`<a:bgFillStyleLst><a:solidFill><a:schemeClr val="phClr"/></a:solidFill><a:solidFill><a:schemeClr val="phClr"/></a:solidFill><a:solidFill><a:schemeClr val="phClr"/></a:solidFill></a:bgFillStyleLst></a:fmtScheme>` +
	`</a:themeElements></a:theme>`

// order concatenates infrastructure and part members as the description says.
func order(infra, parts []Member, infraFirst bool) []Member {
	if infraFirst {
		return append(append([]Member{}, infra...), parts...)
	}
	return append(append([]Member{}, parts...), infra...)
}

// strictify turns a rendered Transitional package into the ISO/IEC 29500 Strict conformance
// class: the main, drawing and relationships namespaces and every relationship Type move to
// purl.oclc.org (Part 1, Annex A / 8.x of the Strict schemas); package-level namespaces
// (relationships part, content types, core properties) stay. The root element of the main
// part says conformance="strict".
func strictify(ms []Member, strict bool) []Member {
	if !strict {
		return ms
	}
	r := strings.NewReplacer(
		"http://schemas.openxmlformats.org/officeDocument/2006/relationships/extended-properties", "http://purl.oclc.org/ooxml/officeDocument/relationships/extendedProperties",
		"http://schemas.openxmlformats.org/officeDocument/2006/extended-properties", "http://purl.oclc.org/ooxml/officeDocument/extendedProperties",
		"http://schemas.openxmlformats.org/officeDocument/2006/relationships", "http://purl.oclc.org/ooxml/officeDocument/relationships",
		"http://schemas.openxmlformats.org/spreadsheetml/2006/main", "http://purl.oclc.org/ooxml/spreadsheetml/main",
		"http://schemas.openxmlformats.org/presentationml/2006/main", "http://purl.oclc.org/ooxml/presentationml/main",
		"http://schemas.openxmlformats.org/drawingml/2006/main", "http://purl.oclc.org/ooxml/drawingml/main",
		"<workbook xmlns=", `<workbook conformance="strict" xmlns=`,
		"<p:presentation xmlns:a=", `<p:presentation conformance="strict" xmlns:a=`,
	)
	out := make([]Member, len(ms))
	for i, m := range ms {
		out[i] = m
		if strings.HasSuffix(m.Name, ".xml") || strings.HasSuffix(m.Name, ".rels") {
			out[i].Data = []byte(r.Replace(string(m.Data)))
		}
	}
	return out
}
