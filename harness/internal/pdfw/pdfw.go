// Package pdfw is an independent, deliberately dumb PDF writer used to
// materialise abstract documents chosen by the TLA+ specifications. It shares no
// code with tsawler/tabula. Every structural choice (cross-reference kind per
// revision, object-stream membership, /W, /Index, filters, line ends, object
// order, incremental revisions) is an input; the writer only renders it.
//
// Constructs used, with the clause of ISO 32000-1 that defines them:
// file structure 7.5 (header 7.5.2, body 7.5.3, cross-reference table 7.5.4,
// trailer 7.5.5, incremental updates 7.5.6, object streams 7.5.7,
// cross-reference streams 7.5.8), stream objects 7.3.8 (the stream keyword is
// followed by CRLF or LF, never CR alone; /Length direct or indirect).
package pdfw

import (
	"bytes"
	"compress/zlib"
	"fmt"
	"regexp"
	"sort"
	"strconv"
	"strings"
)

// ---- object model ----

type Obj interface{}

type Null struct{}
type Bool bool
type Int int64
type Real string // already spelled
type Str []byte  // literal string content
type HexStr []byte
type Name string
type Arr []Obj
type Ref struct{ Num, Gen int }
type Raw string // pre-rendered object text

// LenOfObjStm as the value of a top-level object stands for the /Length of the object stream with that object
// number in the same revision (the writer fills in the number of bytes it is going to write for it).
type LenOfObjStm struct{ Num int }

// Dict is an ordered dictionary.
type Dict []KV
type KV struct {
	K string
	V Obj
}

func (d Dict) With(k string, v Obj) Dict {
	out := append(Dict{}, d...)
	for i := range out {
		if out[i].K == k {
			out[i].V = v
			return out
		}
	}
	return append(out, KV{k, v})
}

// Stream is a stream object; Data is the encoded body exactly as it goes into
// the file. If LengthRef != 0 the /Length entry is "LengthRef 0 R" (the caller
// must define that object with the right integer).
type Stream struct {
	Dict      Dict
	Data      []byte
	LengthRef int
}

func Render(o Obj) string {
	switch v := o.(type) {
	case nil, Null:
		return "null"
	case Bool:
		if v {
			return "true"
		}
		return "false"
	case Int:
		if IntFault != nil {
			if r, ok := IntFault(int64(v)); ok {
				return r
			}
		}
		return strconv.FormatInt(int64(v), 10)
	case int:
		return strconv.Itoa(v)
	case Real:
		return string(v)
	case Raw:
		return string(v)
	case Str:
		var b strings.Builder
		b.WriteByte('(')
		for _, c := range []byte(v) {
			switch c {
			case '(', ')', '\\':
				b.WriteByte('\\')
				b.WriteByte(c)
			case '\r':
				b.WriteString("\\r")
			case '\n':
				b.WriteString("\\n")
			default:
				b.WriteByte(c)
			}
		}
		b.WriteByte(')')
		return b.String()
	case HexStr:
		return "<" + strings.ToUpper(fmt.Sprintf("%x", []byte(v))) + ">"
	case Name:
		var b strings.Builder
		b.WriteByte('/')
		for _, c := range []byte(v) {
			if c > 32 && c < 127 && !strings.ContainsRune("()<>[]{}/%#", rune(c)) {
				b.WriteByte(c)
			} else {
				fmt.Fprintf(&b, "#%02X", c)
			}
		}
		return b.String()
	case Ref:
		return fmt.Sprintf("%d %d R", v.Num, v.Gen)
	case Arr:
		parts := make([]string, len(v))
		for i, e := range v {
			parts[i] = Render(e)
		}
		return "[" + strings.Join(parts, " ") + "]"
	case Dict:
		var b strings.Builder
		b.WriteString("<<")
		for _, kv := range v {
			b.WriteString(" " + Render(Name(kv.K)) + " " + Render(kv.V))
		}
		b.WriteString(" >>")
		return b.String()
	}
	panic(fmt.Sprintf("pdfw.Render: unsupported %T", o))
}

// ---- file model ----

// Item is one thing written into a revision's body, in file order.
type Item struct {
	Num int
	Val Obj     // non-stream value, or
	Stm *Stream // stream object, or
	// object stream: Members are (num, value) pairs packed into object Num
	Members   []Member
	FlateStm  bool // compress the object stream body
	IsObjStm  bool
	StmLenRef int // object stream only: write /Length as "StmLenRef 0 R" (the caller defines that object)
	PadBefore int // white-space bytes written before the object (layout noise)
}

type Member struct {
	Num int
	Val Obj
}

type Revision struct {
	XRef          string // "table" or "stream"
	Items         []Item
	Free          []int  // object numbers freed by this revision
	XRefNum       int    // object number of the xref stream (XRef == "stream")
	W             [3]int // field widths of the xref stream
	Split         bool   // /Index with one subsection per contiguous run (else one covering range when possible)
	FlateXRef     bool
	XRefPredictor bool // with FlateXRef: rows are PNG-Up predicted (/DecodeParms << /Columns w0+w1+w2 /Predictor 12 >>)
	Root          Ref
	Info          *Ref
}

// PayloadFault, when set, is handed the not yet encoded payload of every object-stream header
// (kind "objstm": the "num offset num offset ..." text) and of every cross-reference stream
// (kind "xref": the binary rows, widths w) and returns what is written instead. It exists for
// fault injection into numeric fields that sit inside encoded streams; the rest of the file
// (lengths, /First, offsets) stays consistent with the returned payload. The self-audit is
// skipped for a file whose payload was changed.
var PayloadFault func(kind string, num int, payload []byte, w [3]int) []byte

// IntFault, when set, is asked for every integer the writer renders into an object, dictionary or array
// (document numbers as well as the /Length, /N, /First, /Size, /W, /Index, /Count ... the writer computes) and may
// return another spelling for it. The file is laid out AFTER the replacement, so offsets, lengths and the
// cross-reference data stay consistent with what is written: exactly one numeric field is wrong. The self-audit is
// skipped while a fault hook is installed.
var IntFault func(v int64) (string, bool)

type File struct {
	// NoFreeHead: an update that frees objects does not rewrite the entry of object 0 (producers that do not
	// maintain the free list): its section then holds the freed objects' entries only
	NoFreeHead bool
	EOL        string // "lf", "crlf", "cr"
	Version    string // e.g. "1.7"
	Revs       []Revision
	// SizeOverride, when non-zero, is written as the trailer /Size instead of the true value (fault injection).
	SizeOverride int64
	// PrevFormat, when set, is the fmt verb /Prev offsets are written with, in every section.
	PrevFormat string
}

// Layout records where things landed (for the self-audit and for tests).
type Layout struct {
	Offsets    []map[int]int64  // per revision: object number -> byte offset
	XRefAt     []int64          // per revision: offset of the xref section
	Compressed []map[int][2]int // per revision: num -> (objstm, index)
}

func (f *File) eol() string {
	switch f.EOL {
	case "crlf":
		return "\r\n"
	case "cr":
		return "\r"
	}
	return "\n"
}

func deflate(b []byte) []byte {
	var buf bytes.Buffer
	w := zlib.NewWriter(&buf)
	w.Write(b)
	w.Close()
	return buf.Bytes()
}

// Deflate is exported for stream bodies built by callers (zlib is trusted).
func Deflate(b []byte) []byte { return deflate(b) }

// Bytes renders the file.
func (f *File) Bytes() ([]byte, *Layout, error) {
	var out bytes.Buffer
	nl := f.eol()
	ver := f.Version
	if ver == "" {
		ver = "1.7"
	}
	out.WriteString("%PDF-" + ver + nl + "%\xe2\xe3\xcf\xd3" + nl)
	lay := &Layout{}
	faulted := false
	// state across revisions
	type ent struct {
		typ int // 0 free, 1 offset, 2 compressed
		f1  int64
		f2  int
	}
	maxNum := 0
	var prevXRef int64 = -1
	freeGen := map[int]int{}
	for ri := range f.Revs {
		rev := &f.Revs[ri]
		offs := map[int]int64{}
		comp := map[int][2]int{}
		changed := map[int]ent{}
		writeObj := func(num int, body string, stm *Stream) {
			offs[num] = int64(out.Len())
			changed[num] = ent{1, int64(out.Len()), 0}
			fmt.Fprintf(&out, "%d 0 obj%s", num, nl)
			if stm == nil {
				out.WriteString(body + nl)
			} else {
				d := stm.Dict
				if stm.LengthRef != 0 {
					d = d.With("Length", Ref{stm.LengthRef, 0})
				} else {
					d = d.With("Length", Int(len(stm.Data)))
				}
				out.WriteString(Render(d) + nl)
				// 7.3.8.1: "stream" is followed by CRLF or LF, not CR alone
				if f.EOL == "lf" {
					out.WriteString("stream\n")
				} else {
					out.WriteString("stream\r\n")
				}
				out.Write(stm.Data)
				out.WriteString(nl + "endstream" + nl)
			}
			out.WriteString("endobj" + nl)
			if num > maxNum {
				maxNum = num
			}
		}
		// resolve LenOfObjStm placeholders: the encoded size of an object stream depends on its members only
		for ii, it := range rev.Items {
			ph, ok := it.Val.(LenOfObjStm)
			if !ok {
				continue
			}
			found := false
			for _, st := range rev.Items {
				if st.IsObjStm && st.Num == ph.Num {
					var head, body bytes.Buffer
					for _, m := range st.Members {
						fmt.Fprintf(&head, "%d %d ", m.Num, body.Len())
						body.WriteString(Render(m.Val) + "\n")
					}
					data := append(head.Bytes(), body.Bytes()...)
					if st.FlateStm {
						data = deflate(data)
					}
					rev.Items[ii].Val = Int(len(data))
					found = true
				}
			}
			if !found {
				return nil, nil, fmt.Errorf("LenOfObjStm %d: no such object stream in the revision", ph.Num)
			}
		}
		for _, it := range rev.Items {
			if it.PadBefore > 0 {
				out.WriteString(strings.Repeat(" ", it.PadBefore-1) + "\n")
			}
			switch {
			case it.IsObjStm:
				if rev.XRef != "stream" {
					return nil, nil, fmt.Errorf("object stream in a revision with a classic xref table")
				}
				var head, body bytes.Buffer
				for i, m := range it.Members {
					if _, isStm := m.Val.(*Stream); isStm {
						return nil, nil, fmt.Errorf("stream inside object stream")
					}
					fmt.Fprintf(&head, "%d %d ", m.Num, body.Len())
					body.WriteString(Render(m.Val) + "\n")
					comp[m.Num] = [2]int{it.Num, i}
					changed[m.Num] = ent{2, int64(it.Num), i}
					if m.Num > maxNum {
						maxNum = m.Num
					}
				}
				hb := head.Bytes()
				if PayloadFault != nil {
					nb := PayloadFault("objstm", it.Num, append([]byte{}, hb...), [3]int{})
					if !bytes.Equal(nb, hb) {
						faulted = true
					}
					hb = nb
				}
				first := len(hb)
				data := append(append([]byte{}, hb...), body.Bytes()...)
				d := Dict{{"Type", Name("ObjStm")}, {"N", Int(len(it.Members))}, {"First", Int(first)}}
				if it.FlateStm {
					data = deflate(data)
					d = append(d, KV{"Filter", Name("FlateDecode")})
				}
				writeObj(it.Num, "", &Stream{Dict: d, Data: data, LengthRef: it.StmLenRef})
			case it.Stm != nil:
				writeObj(it.Num, "", it.Stm)
			default:
				writeObj(it.Num, Render(it.Val), nil)
			}
		}
		for _, n := range rev.Free {
			freeGen[n]++
			changed[n] = ent{0, 0, freeGen[n]}
			if n > maxNum {
				maxNum = n
			}
		}
		if ri == 0 || (len(rev.Free) > 0 && !f.NoFreeHead) {
			// head of the free list (object 0)
			nextFree := 0
			if len(rev.Free) > 0 {
				nextFree = rev.Free[0]
			}
			changed[0] = ent{0, int64(nextFree), 65535}
		}
		xrefAt := int64(out.Len())
		trailer := Dict{}
		if rev.XRef == "stream" {
			changed[rev.XRefNum] = ent{1, xrefAt, 0}
			if rev.XRefNum > maxNum {
				maxNum = rev.XRefNum
			}
		}
		nums := make([]int, 0, len(changed))
		for n := range changed {
			nums = append(nums, n)
		}
		sort.Ints(nums)
		// contiguous runs
		var runs [][2]int
		for _, n := range nums {
			if len(runs) > 0 && runs[len(runs)-1][0]+runs[len(runs)-1][1] == n {
				runs[len(runs)-1][1]++
			} else {
				runs = append(runs, [2]int{n, 1})
			}
		}
		size := Int(maxNum + 1)
		if f.SizeOverride != 0 {
			size = Int(f.SizeOverride)
		}
		trailer = append(trailer, KV{"Size", size}, KV{"Root", rev.Root})
		if rev.Info != nil {
			trailer = append(trailer, KV{"Info", *rev.Info})
		}
		if f.PrevFormat != "" {
			// fixed-width spelling of /Prev in every section (also the first, where it is a placeholder the
			// caller rewrites or blanks): lets a caller retarget the entries without moving any offset
			v := prevXRef
			if v < 0 {
				v = 0
			}
			trailer = append(trailer, KV{"Prev", Raw(fmt.Sprintf(f.PrevFormat, v))})
		} else if prevXRef >= 0 {
			trailer = append(trailer, KV{"Prev", Int(prevXRef)})
		}
		if rev.XRef == "table" {
			out.WriteString("xref" + nl)
			ent2 := map[string]string{"lf": " \n", "crlf": "\r\n", "cr": " \r"}[f.EOL]
			if ent2 == "" {
				ent2 = " \n"
			}
			for _, r := range runs {
				fmt.Fprintf(&out, "%d %d%s", r[0], r[1], nl)
				for n := r[0]; n < r[0]+r[1]; n++ {
					e := changed[n]
					if e.typ == 2 {
						return nil, nil, fmt.Errorf("compressed entry in classic table")
					}
					if e.typ == 0 {
						fmt.Fprintf(&out, "%010d %05d f%s", e.f1, e.f2, ent2)
					} else {
						fmt.Fprintf(&out, "%010d %05d n%s", e.f1, e.f2, ent2)
					}
				}
			}
			out.WriteString("trailer" + nl + Render(trailer) + nl)
		} else {
			w := rev.W
			if w == [3]int{} {
				w = [3]int{1, 4, 2}
			}
			var data bytes.Buffer
			put := func(v int64, width int) error {
				if width == 0 {
					return nil
				}
				if width < 8 && v >= int64(1)<<(8*uint(width)) {
					return fmt.Errorf("value %d does not fit /W width %d", v, width)
				}
				for i := width - 1; i >= 0; i-- {
					data.WriteByte(byte(v >> (8 * uint(i))))
				}
				return nil
			}
			var index Arr
			emit := func(n int) error {
				e, ok := changed[n]
				if !ok {
					// filler inside a covering range: must not shadow anything -> only used when !Split and range is contiguous
					return fmt.Errorf("internal: gap at %d", n)
				}
				if err := put(int64(e.typ), w[0]); err != nil {
					return err
				}
				if err := put(e.f1, w[1]); err != nil {
					return err
				}
				f2 := int64(e.f2)
				if e.typ == 0 && w[2] > 0 && w[2] < 8 && f2 >= int64(1)<<(8*uint(w[2])) {
					// generation of a free entry (65535 for object 0): clamp to the field width
					f2 = int64(1)<<(8*uint(w[2])) - 1
				}
				return put(f2, w[2])
			}
			for _, r := range runs {
				index = append(index, Int(r[0]), Int(r[1]))
				for n := r[0]; n < r[0]+r[1]; n++ {
					if err := emit(n); err != nil {
						return nil, nil, err
					}
				}
			}
			d := Dict{{"Type", Name("XRef")}}
			d = append(d, trailer...)
			d = append(d, KV{"W", Arr{Int(w[0]), Int(w[1]), Int(w[2])}})
			whole := len(runs) == 1 && runs[0][0] == 0 && runs[0][1] == maxNum+1
			if !(whole && !rev.Split) {
				d = append(d, KV{"Index", index})
			}
			body := data.Bytes()
			if PayloadFault != nil {
				nb := PayloadFault("xref", rev.XRefNum, append([]byte{}, body...), w)
				if !bytes.Equal(nb, body) {
					faulted = true
				}
				body = nb
			}
			if rev.FlateXRef {
				if rev.XRefPredictor {
					// PNG "Up" rows, the usual encoding of cross-reference streams
					cols := w[0] + w[1] + w[2]
					var pb bytes.Buffer
					prev := make([]byte, cols)
					for i := 0; i+cols <= len(body); i += cols {
						pb.WriteByte(2)
						for j := 0; j < cols; j++ {
							pb.WriteByte(body[i+j] - prev[j])
						}
						copy(prev, body[i:i+cols])
					}
					body = pb.Bytes()
					d = append(d, KV{"DecodeParms", Dict{{"Columns", Int(cols)}, {"Predictor", Int(12)}}})
				}
				body = deflate(body)
				d = append(d, KV{"Filter", Name("FlateDecode")})
			}
			offs[rev.XRefNum] = xrefAt
			fmt.Fprintf(&out, "%d 0 obj%s", rev.XRefNum, nl)
			d = d.With("Length", Int(len(body)))
			out.WriteString(Render(d) + nl)
			if f.EOL == "lf" {
				out.WriteString("stream\n")
			} else {
				out.WriteString("stream\r\n")
			}
			out.Write(body)
			out.WriteString(nl + "endstream" + nl + "endobj" + nl)
		}
		fmt.Fprintf(&out, "startxref%s%d%s%%%%EOF%s", nl, xrefAt, nl, nl)
		prevXRef = xrefAt
		lay.Offsets = append(lay.Offsets, offs)
		lay.XRefAt = append(lay.XRefAt, xrefAt)
		lay.Compressed = append(lay.Compressed, comp)
	}
	b := out.Bytes()
	if faulted || IntFault != nil {
		return b, lay, nil
	}
	if err := audit(b, f, lay); err != nil {
		return nil, nil, fmt.Errorf("pdfw self-audit: %w", err)
	}
	return b, lay, nil
}

var reObjHead = regexp.MustCompile(`^(\d+) 0 obj[\r\n]`)
var reLen = regexp.MustCompile(`/Length (\d+)( 0 R)?`)

// audit re-scans the rendered bytes (sharing nothing with tabula) and checks the
// structural facts a strict reader may rely on.
func audit(b []byte, f *File, lay *Layout) error {
	for ri, offs := range lay.Offsets {
		for num, off := range offs {
			m := reObjHead.FindSubmatch(b[off:min(int(off)+40, len(b))])
			if m == nil || string(m[1]) != strconv.Itoa(num) {
				return fmt.Errorf("rev %d: offset %d of object %d does not land on '%d 0 obj'", ri, off, num, num)
			}
			// stream length check for direct lengths
			end := bytes.Index(b[off:], []byte("endobj"))
			if end < 0 {
				return fmt.Errorf("object %d: no endobj", num)
			}
			seg := b[off : int(off)+end]
			si := bytes.Index(seg, []byte("stream\r\n"))
			skip := 8
			if si < 0 {
				si = bytes.Index(seg, []byte("stream\n"))
				skip = 7
			}
			if si >= 0 {
				lm := reLen.FindSubmatch(seg[:si])
				if lm == nil {
					return fmt.Errorf("object %d: stream without /Length", num)
				}
				if len(lm[2]) == 0 {
					n, _ := strconv.Atoi(string(lm[1]))
					rest := seg[si+skip:]
					if len(rest) < n {
						return fmt.Errorf("object %d: /Length %d longer than body", num, n)
					}
					after := bytes.TrimLeft(rest[n:], "\r\n")
					if !bytes.HasPrefix(after, []byte("endstream")) {
						return fmt.Errorf("object %d: /Length %d does not end at endstream", num, n)
					}
				}
			}
		}
		x := lay.XRefAt[ri]
		if f.Revs[ri].XRef == "table" {
			if !bytes.HasPrefix(b[x:], []byte("xref")) {
				return fmt.Errorf("rev %d: startxref does not land on xref", ri)
			}
		} else if reObjHead.Find(b[x:min(int(x)+40, len(b))]) == nil {
			return fmt.Errorf("rev %d: startxref does not land on the xref stream object", ri)
		}
	}
	if !bytes.HasSuffix(bytes.TrimRight(b, "\r\n"), []byte("%%EOF")) {
		return fmt.Errorf("no %%%%EOF at end")
	}
	return nil
}

func min(a, b int) int {
	if a < b {
		return a
	}
	return b
}
