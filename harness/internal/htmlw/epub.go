package htmlw

import (
	"archive/zip"
	"bytes"
	"fmt"
	"strings"
)

// RenderXHTML writes the document as an XHTML content document (EPUB 3: the XML
// serialisation of HTML): XML declaration, namespace, void elements self-closed,
// every end tag present.
func RenderXHTML(stream []Item) string {
	var b strings.Builder
	b.WriteString(`<?xml version="1.0" encoding="UTF-8"?>` + "\n")
	fmt.Fprintf(&b, `<html xmlns="http://www.w3.org/1999/xhtml"><head><meta charset="utf-8"/><title>w%03d</title><style>w%03d </style></head><body>`, TitleTok, HeadStyleTok)
	for _, it := range stream {
		switch it.Op {
		case "open":
			b.WriteString("<" + it.Tag + attrString(it.Attr))
			if it.Tag == "a" {
				b.WriteString(` href="#x"`)
			}
			b.WriteString(">")
		case "void":
			b.WriteString("<" + it.Tag + "/>")
		case "close":
			b.WriteString("</" + it.Tag + ">")
		case "text":
			b.WriteString(TokSource(it.ID, it.Tag))
		}
	}
	b.WriteString("</body></html>")
	return b.String()
}

// Shift returns a copy of the stream whose token ids are shifted by off (chapters of one
// book carry disjoint token ranges).
func Shift(stream []Item, off int) []Item {
	out := make([]Item, len(stream))
	copy(out, stream)
	for i := range out {
		if out[i].Op == "text" {
			out[i].ID += off
		}
	}
	return out
}

// EPUB packs the chapters (XHTML sources) into an EPUB 3 container: mimetype (first,
// stored), META-INF/container.xml, OEBPS/content.opf (manifest + spine in chapter order),
// OEBPS/nav.xhtml (navigation document, not in the spine), OEBPS/chN.xhtml.
func EPUB(chapters []string) ([]byte, error) {
	var buf bytes.Buffer
	zw := zip.NewWriter(&buf)
	add := func(name string, data string, store bool) error {
		h := &zip.FileHeader{Name: name, Method: zip.Deflate}
		if store {
			h.Method = zip.Store
		}
		w, err := zw.CreateHeader(h)
		if err != nil {
			return err
		}
		_, err = w.Write([]byte(data))
		return err
	}
	if err := add("mimetype", "application/epub+zip", true); err != nil {
		return nil, err
	}
	add("META-INF/container.xml", `<?xml version="1.0" encoding="UTF-8"?>`+"\n"+
		`<container version="1.0" xmlns="urn:oasis:names:tc:opendocument:xmlns:container"><rootfiles>`+
		`<rootfile full-path="OEBPS/content.opf" media-type="application/oebps-package+xml"/></rootfiles></container>`, false)
	var manifest, spine, nav strings.Builder
	for i := range chapters {
		fmt.Fprintf(&manifest, `<item id="ch%d" href="ch%d.xhtml" media-type="application/xhtml+xml"/>`, i+1, i+1)
		fmt.Fprintf(&spine, `<itemref idref="ch%d"/>`, i+1)
		fmt.Fprintf(&nav, `<li><a href="ch%d.xhtml">Chapter %d</a></li>`, i+1, i+1)
	}
	add("OEBPS/content.opf", `<?xml version="1.0" encoding="UTF-8"?>`+"\n"+
		`<package xmlns="http://www.idpf.org/2007/opf" version="3.0" unique-identifier="uid">`+
		`<metadata xmlns:dc="http://purl.org/dc/elements/1.1/"><dc:identifier id="uid">urn:uuid:00000000-0000-4000-8000-000000000019</dc:identifier>`+
		`<dc:title>verif book</dc:title><dc:language>en</dc:language><meta property="dcterms:modified">2020-01-01T00:00:00Z</meta></metadata>`+
		`<manifest><item id="nav" href="nav.xhtml" media-type="application/xhtml+xml" properties="nav"/>`+manifest.String()+`</manifest>`+
		`<spine>`+spine.String()+`</spine></package>`, false)
	add("OEBPS/nav.xhtml", `<?xml version="1.0" encoding="UTF-8"?>`+"\n"+
		`<html xmlns="http://www.w3.org/1999/xhtml" xmlns:epub="http://www.idpf.org/2007/ops"><head><title>Contents</title></head>`+
		`<body><nav epub:type="toc"><ol>`+nav.String()+`</ol></nav></body></html>`, false)
	for i, ch := range chapters {
		if err := add(fmt.Sprintf("OEBPS/ch%d.xhtml", i+1), ch, false); err != nil {
			return nil, err
		}
	}
	if err := zw.Close(); err != nil {
		return nil, err
	}
	return buf.Bytes(), nil
}
