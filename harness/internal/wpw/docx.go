package wpw

import (
	"fmt"
	"strings"
)

// WordprocessingML namespaces (ECMA-376 Part 1).
const (
	nsW = "http://schemas.openxmlformats.org/wordprocessingml/2006/main"
	nsR = "http://schemas.openxmlformats.org/officeDocument/2006/relationships"
)

const xmlDecl = `<?xml version="1.0" encoding="UTF-8" standalone="yes"?>` + "\n"

// RenderDOCX writes the document as a WordprocessingML package:
// [Content_Types].xml, _rels/.rels, word/document.xml, word/_rels/document.xml.rels,
// word/styles.xml, word/numbering.xml and, if requested, word/header1.xml /
// word/footer1.xml referenced from the section properties (17.10.5).
func RenderDOCX(d Doc) Rendered {
	cnt := &counter{origin: map[int]Origin{}}
	var b strings.Builder
	b.WriteString(xmlDecl)
	fmt.Fprintf(&b, `<w:document xmlns:w="%s" xmlns:r="%s"><w:body>`, nsW, nsR)
	insID := 1
	var wrapOpen []string
	bases := make([]int, len(d.Body))
	for i, blk := range d.Body {
		bases[i] = cnt.n
		switch blk.K {
		case "WO": // block-level wrappers (17.5.2.29 sdt, 17.5.1.6 customXml): transparent containers
			if blk.How == "sdt" {
				fmt.Fprintf(&b, `<w:sdt><w:sdtPr><w:id w:val="%d"/></w:sdtPr><w:sdtContent>`, 5000+i)
			} else {
				b.WriteString(`<w:customXml w:uri="urn:verif" w:element="block">`)
			}
			wrapOpen = append(wrapOpen, blk.How)
		case "WC":
			if wrapOpen[len(wrapOpen)-1] == "sdt" {
				b.WriteString(`</w:sdtContent></w:sdt>`)
			} else {
				b.WriteString(`</w:customXml>`)
			}
			wrapOpen = wrapOpen[:len(wrapOpen)-1]
		case "M":
			switch blk.How {
			case "bookmark": // 17.13.6: range markers between blocks
				fmt.Fprintf(&b, `<w:bookmarkStart w:id="%d" w:name="bm%d"/><w:bookmarkEnd w:id="%d"/>`, 7000+i, i, 7000+i)
			case "proofErr":
				b.WriteString(`<w:proofErr w:type="spellStart"/><w:proofErr w:type="spellEnd"/>`)
			case "sdtempty":
				fmt.Fprintf(&b, `<w:sdt><w:sdtPr><w:id w:val="%d"/></w:sdtPr><w:sdtContent/></w:sdt>`, 6000+i)
			default:
				panic("wpw: marker " + blk.How + " is not in the DOCX alphabet")
			}
		case "TBL":
			docxTable(&b, blk, cnt, i)
		default:
			if blk.K == "LI" && blk.How == "emp" { // an empty numbered paragraph of this level first
				b.WriteString("<w:p>" + docxPPr(blk, d.Sheet) + "</w:p>")
			}
			b.WriteString("<w:p>")
			b.WriteString(docxPPr(blk, d.Sheet))
			for _, ch := range blk.Ch {
				docxChild(&b, ch, cnt, Origin{Block: i, Kind: blk.K, Wrap: ch.W}, &insID)
			}
			b.WriteString("</w:p>")
		}
	}
	// section properties: the last child of w:body (17.6.17)
	b.WriteString("<w:sectPr>")
	if d.Hdr == 1 {
		b.WriteString(`<w:headerReference w:type="default" r:id="rId3"/>`)
	}
	if d.Ftr == 1 {
		b.WriteString(`<w:footerReference w:type="default" r:id="rId4"/>`)
	}
	b.WriteString(`<w:pgSz w:w="12240" w:h="15840"/><w:pgMar w:top="1440" w:right="1440" w:bottom="1440" w:left="1440" w:header="720" w:footer="720" w:gutter="0"/></w:sectPr>`)
	b.WriteString("</w:body></w:document>")

	ct := xmlDecl + `<Types xmlns="http://schemas.openxmlformats.org/package/2006/content-types">` +
		`<Default Extension="rels" ContentType="application/vnd.openxmlformats-package.relationships+xml"/>` +
		`<Default Extension="xml" ContentType="application/xml"/>` +
		`<Override PartName="/word/document.xml" ContentType="application/vnd.openxmlformats-officedocument.wordprocessingml.document.main+xml"/>` +
		`<Override PartName="/word/styles.xml" ContentType="application/vnd.openxmlformats-officedocument.wordprocessingml.styles+xml"/>` +
		`<Override PartName="/word/numbering.xml" ContentType="application/vnd.openxmlformats-officedocument.wordprocessingml.numbering+xml"/>`
	rels := xmlDecl + `<Relationships xmlns="http://schemas.openxmlformats.org/package/2006/relationships">` +
		`<Relationship Id="rId1" Type="http://schemas.openxmlformats.org/officeDocument/2006/relationships/styles" Target="styles.xml"/>` +
		`<Relationship Id="rId2" Type="http://schemas.openxmlformats.org/officeDocument/2006/relationships/numbering" Target="numbering.xml"/>`
	files := []File{}
	if d.Hdr == 1 {
		ct += `<Override PartName="/word/header1.xml" ContentType="application/vnd.openxmlformats-officedocument.wordprocessingml.header+xml"/>`
		rels += `<Relationship Id="rId3" Type="http://schemas.openxmlformats.org/officeDocument/2006/relationships/header" Target="header1.xml"/>`
	}
	if d.Ftr == 1 {
		ct += `<Override PartName="/word/footer1.xml" ContentType="application/vnd.openxmlformats-officedocument.wordprocessingml.footer+xml"/>`
		rels += `<Relationship Id="rId4" Type="http://schemas.openxmlformats.org/officeDocument/2006/relationships/footer" Target="footer1.xml"/>`
	}
	rels += `<Relationship Id="rId9" Type="http://schemas.openxmlformats.org/officeDocument/2006/relationships/hyperlink" Target="http://example.com/" TargetMode="External"/>`
	rels += `</Relationships>`
	ct += `</Types>`
	files = append(files,
		File{Name: "[Content_Types].xml", Data: []byte(ct)},
		File{Name: "_rels/.rels", Data: []byte(xmlDecl + `<Relationships xmlns="http://schemas.openxmlformats.org/package/2006/relationships">` +
			`<Relationship Id="rId1" Type="http://schemas.openxmlformats.org/officeDocument/2006/relationships/officeDocument" Target="word/document.xml"/></Relationships>`)},
		File{Name: "word/document.xml", Data: []byte(b.String())},
		File{Name: "word/_rels/document.xml.rels", Data: []byte(rels)},
		File{Name: "word/styles.xml", Data: []byte(docxStyles(d.Sheet))},
		File{Name: "word/numbering.xml", Data: []byte(docxNumbering())},
	)
	if d.Hdr == 1 {
		files = append(files, File{Name: "word/header1.xml", Data: []byte(xmlDecl +
			fmt.Sprintf(`<w:hdr xmlns:w="%s"><w:p><w:r><w:t>%s</w:t></w:r></w:p></w:hdr>`, nsW, TokText(HdrTok)))})
	}
	if d.Ftr == 1 {
		files = append(files, File{Name: "word/footer1.xml", Data: []byte(xmlDecl +
			fmt.Sprintf(`<w:ftr xmlns:w="%s"><w:p><w:r><w:t>%s</w:t></w:r></w:p></w:ftr>`, nsW, TokText(FtrTok)))})
	}
	return Rendered{Files: files, Bases: bases, NTok: cnt.n, Origin: cnt.origin}
}

// docxPPr writes the paragraph properties in CT_PPr order: pStyle, numPr, outlineLvl.
func docxPPr(blk Block, sheet []Style) string {
	switch blk.K {
	case "H":
		switch blk.How {
		case "builtin":
			return fmt.Sprintf(`<w:pPr><w:pStyle w:val="Heading%d"/></w:pPr>`, blk.Lvl)
		case "custom1":
			return fmt.Sprintf(`<w:pPr><w:pStyle w:val="Custom%da"/></w:pPr>`, blk.Lvl)
		case "custom2":
			return fmt.Sprintf(`<w:pPr><w:pStyle w:val="Custom%db"/></w:pPr>`, blk.Lvl)
		default: // outline: direct formatting, 0-based (17.3.1.20)
			return fmt.Sprintf(`<w:pPr><w:outlineLvl w:val="%d"/></w:pPr>`, blk.Lvl-1)
		}
	case "S": // styled with style number Sty of the sheet
		return fmt.Sprintf(`<w:pPr><w:pStyle w:val="%s"/></w:pPr>`, docxSheetID(blk.Sty, sheet))
	case "LI":
		numID := 1
		switch blk.Num {
		case "decimal":
			numID = 2
		case "decimalR": // a second instance of the decimal definition that restarts at 1
			numID = 3
		}
		return fmt.Sprintf(`<w:pPr><w:pStyle w:val="ListParagraph"/><w:numPr><w:ilvl w:val="%d"/><w:numId w:val="%d"/></w:numPr></w:pPr>`, blk.Lvl, numID)
	}
	return ""
}

func docxRun(b *strings.Builder, ch Child, cnt *counter, o Origin, bold bool) {
	b.WriteString("<w:r>")
	if bold {
		b.WriteString("<w:rPr><w:b/></w:rPr>")
	}
	for _, a := range ch.A {
		switch a {
		case "t":
			o.Atom = "t"
			fmt.Fprintf(b, "<w:t>%s</w:t>", TokText(cnt.next(o)))
		case "sym":
			o.Atom = "sym"
			// 17.3.3.30: w:char is the hexadecimal code of the character in w:font
			fmt.Fprintf(b, `<w:sym w:font="Segoe UI Symbol" w:char="%04X"/>`, SymBase+cnt.next(o))
		case "tab":
			b.WriteString("<w:tab/>")
		case "br":
			b.WriteString("<w:br/>")
		case "eh": // the header line written in the body
			fmt.Fprintf(b, "<w:t>%s</w:t>", TokText(HdrTok))
		case "ef":
			fmt.Fprintf(b, "<w:t>%s</w:t>", TokText(FtrTok))
		default:
			panic("wpw: atom " + a + " is not in the DOCX alphabet")
		}
	}
	b.WriteString("</w:r>")
}

func docxChild(b *strings.Builder, ch Child, cnt *counter, o Origin, insID *int) {
	switch ch.W {
	case "r":
		docxRun(b, ch, cnt, o, false)
		return
	case "span":
		docxRun(b, ch, cnt, o, true)
		return
	}
	// inline containers, possibly nested: "outer>inner>..."
	boxes := strings.Split(ch.W, ">")
	var closers []string
	for _, box := range boxes {
		switch box {
		case "link": // 17.16.22
			b.WriteString(`<w:hyperlink r:id="rId9" w:history="1">`)
			closers = append(closers, `</w:hyperlink>`)
		case "ins": // 17.13.5.18 tracked insertion
			fmt.Fprintf(b, `<w:ins w:id="%d" w:author="verif" w:date="2020-01-01T00:00:00Z">`, *insID)
			*insID++
			closers = append(closers, `</w:ins>`)
		case "sdt": // 17.5.2.31 run-level structured document tag
			fmt.Fprintf(b, `<w:sdt><w:sdtPr><w:id w:val="%d"/></w:sdtPr><w:sdtContent>`, 1000+*insID)
			*insID++
			closers = append(closers, `</w:sdtContent></w:sdt>`)
		case "smartTag": // 17.5.1.9
			b.WriteString(`<w:smartTag w:uri="urn:verif" w:element="tag">`)
			closers = append(closers, `</w:smartTag>`)
		case "fldSimple": // 17.16.19
			b.WriteString(`<w:fldSimple w:instr=" AUTHOR ">`)
			closers = append(closers, `</w:fldSimple>`)
		case "bdo": // 17.3.2.3 bidirectional override
			b.WriteString(`<w:bdo w:val="ltr">`)
			closers = append(closers, `</w:bdo>`)
		default:
			panic("wpw: wrapper " + ch.W + " is not in the DOCX alphabet")
		}
	}
	docxRun(b, ch, cnt, o, false)
	for i := len(closers) - 1; i >= 0; i-- {
		b.WriteString(closers[i])
	}
}

func docxTable(b *strings.Builder, tb Block, cnt *counter, blk int) {
	t := tb.Tb
	b.WriteString(`<w:tbl><w:tblPr><w:tblW w:w="0" w:type="auto"/></w:tblPr><w:tblGrid>`)
	for c := 0; c < t.Cols; c++ {
		b.WriteString(`<w:gridCol w:w="2000"/>`)
	}
	b.WriteString(`</w:tblGrid>`)
	for _, row := range Grid(t) {
		b.WriteString("<w:tr>")
		for _, g := range row {
			switch g.Kind {
			case "hc": // covered by gridSpan: no w:tc (17.4.17)
			case "vc": // continuation of a vertical merge: w:vMerge without val (17.4.85)
				b.WriteString(`<w:tc><w:tcPr><w:tcW w:w="2000" w:type="dxa"/><w:vMerge/></w:tcPr><w:p/></w:tc>`)
			default:
				fmt.Fprintf(b, `<w:tc><w:tcPr><w:tcW w:w="%d" w:type="dxa"/>`, 2000*g.Cs)
				o := Origin{Block: blk, Kind: "TBL", Wrap: "cell", Atom: "t", Multi: g.Np > 1}
				if g.Cs > 1 {
					fmt.Fprintf(b, `<w:gridSpan w:val="%d"/>`, g.Cs)
					o.Merge = "h"
				}
				if g.Rs > 1 {
					b.WriteString(`<w:vMerge w:val="restart"/>`)
					o.Merge = "v"
				}
				b.WriteString("</w:tcPr>")
				if tb.How == "cellsdt" { // the cell's paragraphs inside a cell-level content control
					fmt.Fprintf(b, `<w:sdt><w:sdtPr><w:id w:val="%d"/></w:sdtPr><w:sdtContent>`, 8000+cnt.n)
				}
				for p := 0; p < g.Np; p++ {
					if p == 0 && tb.How == "cellnest" && !g.Rich { // the run inside a tracked insertion inside a hyperlink
						o.Wrap = "cell:link>ins"
						fmt.Fprintf(b, `<w:p><w:hyperlink r:id="rId9"><w:ins w:id="%d" w:author="verif" w:date="2020-01-01T00:00:00Z"><w:r><w:t>%s</w:t></w:r></w:ins></w:hyperlink></w:p>`, 9000+cnt.n, TokText(cnt.next(o)))
						o.Wrap = "cell"
						continue
					}
					if p == 0 && g.Rich { // text and a symbol in one run
						o.Rich = true
						fmt.Fprintf(b, "<w:p><w:r><w:t>%s</w:t>", TokText(cnt.next(o)))
						o.Atom = "sym"
						fmt.Fprintf(b, `<w:sym w:font="Segoe UI Symbol" w:char="%04X"/></w:r></w:p>`, SymBase+cnt.next(o))
						o.Atom, o.Rich = "t", false
						continue
					}
					fmt.Fprintf(b, "<w:p><w:r><w:t>%s</w:t></w:r></w:p>", TokText(cnt.next(o)))
				}
				if tb.How == "cellsdt" {
					b.WriteString(`</w:sdtContent></w:sdt>`)
				}
				b.WriteString("</w:tc>")
			}
		}
		b.WriteString("</w:tr>")
	}
	b.WriteString("</w:tbl>")
}

// docxStyles: Normal, ListParagraph, the built-in heading styles ("heading N",
// outline level N-1) and two generations of custom styles based on them.  The
// heading styles carry no run formatting, so nothing but the style chain says
// that Custom2a / Custom2b paragraphs are level-2 headings.
func docxStyles(sheet []Style) string {
	var b strings.Builder
	b.WriteString(xmlDecl)
	fmt.Fprintf(&b, `<w:styles xmlns:w="%s"><w:docDefaults><w:rPrDefault><w:rPr><w:sz w:val="22"/></w:rPr></w:rPrDefault></w:docDefaults>`, nsW)
	b.WriteString(`<w:style w:type="paragraph" w:default="1" w:styleId="Normal"><w:name w:val="Normal"/></w:style>`)
	b.WriteString(`<w:style w:type="paragraph" w:styleId="ListParagraph"><w:name w:val="List Paragraph"/><w:basedOn w:val="Normal"/></w:style>`)
	if len(sheet) > 0 {
		// a document with its own style sheet: exactly the styles of the sheet
		for i, st := range sheet {
			id := docxSheetID(i+1, sheet)
			name := fmt.Sprintf("Custom %c", 'A'+i)
			custom := ` w:customStyle="1"`
			outline := ""
			switch st.Decl {
			case "builtin": // the built-in heading style as Word writes it
				name, custom, outline = fmt.Sprintf("heading %d", st.Lvl), "", fmt.Sprintf(`<w:pPr><w:outlineLvl w:val="%d"/></w:pPr>`, st.Lvl-1)
			case "nameL": // known by its (primary) name only
				name, custom = fmt.Sprintf("heading %d", st.Lvl), ""
			case "nameU": // the capitalised name other producers write
				name, custom = fmt.Sprintf("Heading %d", st.Lvl), ""
			case "outline": // 17.3.1.20: an outline level of its own
				outline = fmt.Sprintf(`<w:pPr><w:outlineLvl w:val="%d"/></w:pPr>`, st.Lvl-1)
			case "none":
			default:
				panic("wpw: style declaration " + st.Decl + " is not in the DOCX alphabet")
			}
			based := ""
			switch {
			case st.Based >= 1:
				based = fmt.Sprintf(`<w:basedOn w:val="%s"/>`, docxSheetID(st.Based, sheet))
			case st.Based == -1:
				based = `<w:basedOn w:val="Normal"/>`
			case st.Based == -2: // refers to a style that is not defined
				based = `<w:basedOn w:val="Heading5"/>`
			}
			fmt.Fprintf(&b, `<w:style w:type="paragraph"%s w:styleId="%s"><w:name w:val="%s"/>%s%s</w:style>`, custom, id, name, based, outline)
		}
		b.WriteString(`</w:styles>`)
		return b.String()
	}
	for n := 1; n <= 9; n++ {
		fmt.Fprintf(&b, `<w:style w:type="paragraph" w:styleId="Heading%d"><w:name w:val="heading %d"/><w:basedOn w:val="Normal"/><w:next w:val="Normal"/><w:pPr><w:outlineLvl w:val="%d"/></w:pPr></w:style>`, n, n, n-1)
		fmt.Fprintf(&b, `<w:style w:type="paragraph" w:customStyle="1" w:styleId="Custom%da"><w:name w:val="Custom %c A"/><w:basedOn w:val="Heading%d"/><w:next w:val="Normal"/></w:style>`, n, 'A'+n-1, n)
		fmt.Fprintf(&b, `<w:style w:type="paragraph" w:customStyle="1" w:styleId="Custom%db"><w:name w:val="Custom %c B"/><w:basedOn w:val="Custom%da"/><w:next w:val="Normal"/></w:style>`, n, 'A'+n-1, n)
	}
	b.WriteString(`</w:styles>`)
	return b.String()
}

func docxNumbering() string {
	var b strings.Builder
	b.WriteString(xmlDecl)
	fmt.Fprintf(&b, `<w:numbering xmlns:w="%s">`, nsW)
	for an, f := range []string{"bullet", "decimal"} {
		fmt.Fprintf(&b, `<w:abstractNum w:abstractNumId="%d"><w:multiLevelType w:val="hybridMultilevel"/>`, an)
		for l := 0; l <= 8; l++ {
			txt := "•"
			if f == "decimal" {
				txt = fmt.Sprintf("%%%d.", l+1)
			}
			fmt.Fprintf(&b, `<w:lvl w:ilvl="%d"><w:start w:val="1"/><w:numFmt w:val="%s"/><w:lvlText w:val="%s"/><w:lvlJc w:val="left"/><w:pPr><w:ind w:left="%d" w:hanging="360"/></w:pPr></w:lvl>`, l, f, txt, 720*(l+1))
		}
		b.WriteString(`</w:abstractNum>`)
	}
	b.WriteString(`<w:num w:numId="1"><w:abstractNumId w:val="0"/></w:num><w:num w:numId="2"><w:abstractNumId w:val="1"/></w:num>` +
		`<w:num w:numId="3"><w:abstractNumId w:val="1"/><w:lvlOverride w:ilvl="0"><w:startOverride w:val="1"/></w:lvlOverride></w:num>`)
	b.WriteString(`</w:numbering>`)
	return b.String()
}

// docxSheetID is the w:styleId of style n (1-based) of the sheet: HeadingN for the
// built-in heading styles, an opaque id otherwise.
func docxSheetID(n int, sheet []Style) string {
	if n >= 1 && n <= len(sheet) && sheet[n-1].Decl == "builtin" {
		return fmt.Sprintf("Heading%d", sheet[n-1].Lvl)
	}
	return fmt.Sprintf("S%d", n)
}
