// Package wpw holds the independent word-processor writers of the verification
// harness: dumb renderers of the abstract documents of specs/docs/WordDoc.tla
// into DOCX (ECMA-376 WordprocessingML) and ODT (ODF 1.2) packages.  Every
// structural choice (which blocks, wrappers, atoms, merges, styles) is made by the
// specification; the writers only spell it out.  They share no code with tabula.
package wpw

import "fmt"

// Child is one paragraph child: a wrapper around a sequence of atoms.
type Child struct {
	W string   `json:"w"` // r | span | link | ins | sdt
	A []string `json:"a"` // t | sym | tab | br | s
}

// Tbl is the abstract table of WordDoc.tla (1-based positions).
type Tbl struct {
	Rows int     `json:"rows"`
	Cols int     `json:"cols"`
	Hm   [][]int `json:"hm"` // anchors spanning two columns
	Vm   [][]int `json:"vm"` // anchors spanning two rows
	Mp   [][]int `json:"mp"` // anchors with two paragraphs
	Rc   [][]int `json:"rc"` // anchors whose first paragraph has mixed inline content (two tokens)
}

// Block is one body block.
type Block struct {
	K   string  `json:"k"` // P | H | LI | TBL
	Ch  []Child `json:"ch"`
	Lvl int     `json:"lvl"`
	How string  `json:"how"` // builtin | custom1 | custom2 | outline
	Num string  `json:"num"` // bullet | decimal
	Sty int     `json:"sty"` // S blocks: number (1-based) of the style in the sheet
	Tb  Tbl     `json:"tb"`
}

// Style is one style of the document's style sheet (WordDoc.tla): what it declares
// about being a heading and what it is based on (k = style k, 0 = nothing,
// -1 = the default style, -2 = a style that is not defined).
type Style struct {
	Decl  string `json:"decl"` // none | builtin | nameL | nameU | outline | bare
	Lvl   int    `json:"lvl"`
	Based int    `json:"based"`
	Loc   string `json:"loc"` // doc (styles.xml) | auto (ODT: automatic styles of content.xml)
}

// Doc is an abstract document.
type Doc struct {
	Fmt   string  `json:"fmt"`
	Body  []Block `json:"body"`
	Hdr   int     `json:"hdr"`
	Ftr   int     `json:"ftr"`
	Sheet []Style `json:"sheet"`
}

// GridCell is the rendering descriptor of one grid position (WordDoc!Grid).
type GridCell struct {
	Kind string `json:"kind"` // a (anchor) | hc (covered by a column span) | vc (covered by a row span)
	Cs   int    `json:"cs"`
	Rs   int    `json:"rs"`
	Np   int    `json:"np"`
	Rich bool   `json:"rich"`
}

const (
	HdrTok = 901
	FtrTok = 902
	// DelTok is the token of deleted text (tracked changes): not part of the body.
	DelTok = 903
	// SymBase is the code point of the symbol standing for token 0.
	SymBase = 0x4E00
)

// TokText is the text a "t" atom with token id n is written as.
func TokText(n int) string { return fmt.Sprintf("w%03d", n) }

func in(p [][]int, r, c int) bool {
	for _, q := range p {
		if len(q) == 2 && q[0] == r && q[1] == c {
			return true
		}
	}
	return false
}

// Grid spells out the table's grid positions (same definition as WordDoc!Grid;
// the driver cross-checks it against the grid TLC emitted).
func Grid(t Tbl) [][]GridCell {
	g := make([][]GridCell, t.Rows)
	for r := 1; r <= t.Rows; r++ {
		g[r-1] = make([]GridCell, t.Cols)
		for c := 1; c <= t.Cols; c++ {
			cell := GridCell{Kind: "a", Cs: 1, Rs: 1, Np: 1}
			switch {
			case c > 1 && in(t.Hm, r, c-1):
				cell = GridCell{Kind: "hc", Cs: 1, Rs: 1}
			case r > 1 && in(t.Vm, r-1, c):
				cell = GridCell{Kind: "vc", Cs: 1, Rs: 1}
			default:
				if in(t.Hm, r, c) {
					cell.Cs = 2
				}
				if in(t.Vm, r, c) {
					cell.Rs = 2
				}
				if in(t.Mp, r, c) {
					cell.Np = 2
				}
				cell.Rich = in(t.Rc, r, c)
			}
			g[r-1][c-1] = cell
		}
	}
	return g
}

// Rendered is a rendered package plus the bookkeeping the driver audits.
type Rendered struct {
	Files  []File // zip members in order
	Bases  []int  // tokens written before each body block
	NTok   int    // tokens written in the body
	Origin map[int]Origin
}

// File is one zip member.
type File struct {
	Name  string
	Data  []byte
	Store bool // stored, not deflated (ODF mimetype)
}

// Origin says where a token was written (for violation signatures).
type Origin struct {
	Block int    // 0-based body index
	Kind  string // block kind
	Wrap  string // wrapper of the child (paragraph tokens), "cell" for table tokens
	Atom  string // t | sym
	Multi bool   // table token in a two-paragraph cell
	Rich  bool   // table token in a cell paragraph with mixed inline content
	Merge string // table token: "", "h", "v" (cell is a merge anchor)
}

type counter struct {
	n      int
	origin map[int]Origin
}

func (c *counter) next(o Origin) int {
	c.n++
	c.origin[c.n] = o
	return c.n
}
