package wpw

import (
	"archive/zip"
	"bytes"
	"os"
)

// Zip packs the members in the given order (ODF requires "mimetype" first and
// stored; OPC has no order requirement).
func Zip(files []File) ([]byte, error) {
	var buf bytes.Buffer
	zw := zip.NewWriter(&buf)
	for _, f := range files {
		h := &zip.FileHeader{Name: f.Name, Method: zip.Deflate}
		if f.Store {
			h.Method = zip.Store
		}
		w, err := zw.CreateHeader(h)
		if err != nil {
			return nil, err
		}
		if _, err := w.Write(f.Data); err != nil {
			return nil, err
		}
	}
	if err := zw.Close(); err != nil {
		return nil, err
	}
	return buf.Bytes(), nil
}

// WriteZip packs the members into path.
func WriteZip(path string, files []File) error {
	data, err := Zip(files)
	if err != nil {
		return err
	}
	return os.WriteFile(path, data, 0o644)
}

// Render dispatches on the document format.
func Render(d Doc) Rendered {
	if d.Fmt == "odt" {
		return RenderODT(d)
	}
	return RenderDOCX(d)
}
