package wpw

import (
	"fmt"
	"strings"
)

// ODF 1.2 namespaces.
const odfNS = `xmlns:office="urn:oasis:names:tc:opendocument:xmlns:office:1.0" ` +
	`xmlns:style="urn:oasis:names:tc:opendocument:xmlns:style:1.0" ` +
	`xmlns:text="urn:oasis:names:tc:opendocument:xmlns:text:1.0" ` +
	`xmlns:table="urn:oasis:names:tc:opendocument:xmlns:table:1.0" ` +
	`xmlns:fo="urn:oasis:names:tc:opendocument:xmlns:xsl-fo-compatible:1.0" ` +
	`xmlns:xlink="http://www.w3.org/1999/xlink" ` +
	`xmlns:dc="http://purl.org/dc/elements/1.1/" ` +
	`xmlns:meta="urn:oasis:names:tc:opendocument:xmlns:meta:1.0"`

const odfDecl = `<?xml version="1.0" encoding="UTF-8"?>` + "\n"

// RenderODT writes the document as an OpenDocument text package: mimetype (first,
// stored), META-INF/manifest.xml, content.xml, styles.xml, meta.xml.  Header and
// footer live in the master page of styles.xml (ODF 1.2 part 1, 16.9 / 16.10).
func RenderODT(d Doc) Rendered {
	cnt := &counter{origin: map[int]Origin{}}
	var b strings.Builder
	b.WriteString(odfDecl)
	fmt.Fprintf(&b, `<office:document-content %s office:version="1.2">`, odfNS)
	b.WriteString(`<office:automatic-styles>` +
		`<style:style style:name="T1" style:family="text"><style:text-properties fo:font-weight="bold"/></style:style>` +
		`<style:style style:name="Tbl" style:family="table"><style:table-properties style:width="12cm"/></style:style>` +
		`<style:style style:name="TblCol" style:family="table-column"><style:table-column-properties style:column-width="4cm"/></style:style>`)
	b.WriteString(`<text:list-style style:name="L1">`)
	for l := 1; l <= 9; l++ {
		fmt.Fprintf(&b, `<text:list-level-style-bullet text:level="%d" text:bullet-char="•"/>`, l)
	}
	b.WriteString(`</text:list-style><text:list-style style:name="L2">`)
	for l := 1; l <= 9; l++ {
		fmt.Fprintf(&b, `<text:list-level-style-number text:level="%d" style:num-format="1" style:num-suffix="."/>`, l)
	}
	b.WriteString(`</text:list-style>`)
	b.WriteString(odtSheetStyles(d.Sheet, "auto")) // the sheet's automatic styles, in sheet order
	b.WriteString(`</office:automatic-styles><office:body><office:text>`)

	bases := make([]int, len(d.Body))
	var wrapOpen []string
	tblNo := 0
	for i := 0; i < len(d.Body); i++ {
		blk := d.Body[i]
		bases[i] = cnt.n
		switch blk.K {
		case "P":
			b.WriteString(`<text:p text:style-name="Standard">`)
			odtChildren(&b, blk, cnt, i)
			b.WriteString(`</text:p>`)
		case "H":
			switch blk.How {
			case "builtin":
				fmt.Fprintf(&b, `<text:h text:style-name="Heading_20_%d" text:outline-level="%d">`, blk.Lvl, blk.Lvl)
			case "custom1":
				fmt.Fprintf(&b, `<text:h text:style-name="Custom%da" text:outline-level="%d">`, blk.Lvl, blk.Lvl)
			case "outline":
				fmt.Fprintf(&b, `<text:h text:outline-level="%d">`, blk.Lvl)
			default:
				panic("wpw: heading declaration " + blk.How + " is not in the ODT alphabet")
			}
			odtChildren(&b, blk, cnt, i)
			b.WriteString(`</text:h>`)
		case "S": // a heading of level Lvl styled with style number Sty of the sheet
			if blk.How == "noattr" { // a heading that relies on its style for the level
				fmt.Fprintf(&b, `<text:h text:style-name="%s">`, odtSheetName(blk.Sty, d.Sheet))
			} else {
				fmt.Fprintf(&b, `<text:h text:style-name="%s" text:outline-level="%d">`, odtSheetName(blk.Sty, d.Sheet), blk.Lvl)
			}
			odtChildren(&b, blk, cnt, i)
			b.WriteString(`</text:h>`)
		case "LI":
			// a maximal run of items of one list becomes one text:list; deeper items
			// are sub-lists inside the preceding item (ODF 1.2 part 1, 5.3)
			j := i
			for j+1 < len(d.Body) && d.Body[j+1].K == "LI" && d.Body[j+1].Num == blk.Num {
				j++
			}
			style := "L1"
			if blk.Num != "bullet" { // decimal, decimalR (a list of its own restarts the numbering)
				style = "L2"
			}
			depth := -1 // deepest open list level; every open list has one open item
			for k := i; k <= j; k++ {
				it := d.Body[k]
				if k > i {
					bases[k] = cnt.n
				}
				for depth > it.Lvl { // close deeper lists and their items
					b.WriteString(`</text:list-item></text:list>`)
					depth--
				}
				if it.How == "cont" {
					// a further paragraph of the item of this depth that is still open
					// (WordDoc!ListOK), after the nested list that was just closed
					b.WriteString(`<text:p text:style-name="Standard">`)
					odtChildren(&b, it, cnt, k)
					b.WriteString(`</text:p>`)
					continue
				}
				if depth == it.Lvl {
					b.WriteString(`</text:list-item>`)
				}
				for depth < it.Lvl { // open the missing levels
					if depth == -1 {
						fmt.Fprintf(&b, `<text:list text:style-name="%s">`, style)
					} else {
						b.WriteString(`<text:list>`)
					}
					depth++
					if depth < it.Lvl {
						// the list starts deeper / jumps a level: an item that only wraps the
						// nested list, without a paragraph or with an empty one
						b.WriteString(`<text:list-item>`)
						if it.How == "wrapp" {
							b.WriteString(`<text:p text:style-name="Standard"/>`)
						}
					}
				}
				if it.How == "emp" { // an empty item of this level first
					b.WriteString(`<text:list-item><text:p text:style-name="Standard"/></text:list-item>`)
				}
				b.WriteString(`<text:list-item><text:p text:style-name="Standard">`)
				odtChildren(&b, it, cnt, k)
				b.WriteString(`</text:p>`)
			}
			for depth >= 0 {
				b.WriteString(`</text:list-item></text:list>`)
				depth--
			}
			i = j
		case "WO": // 5.4 text:section, 8.3 text:table-of-content: containers of ordinary text content
			if blk.How == "section" {
				fmt.Fprintf(&b, `<text:section text:name="Section%d">`, i)
			} else {
				fmt.Fprintf(&b, `<text:table-of-content text:name="Index%d"><text:table-of-content-source text:outline-level="3"/><text:index-body>`, i)
			}
			wrapOpen = append(wrapOpen, blk.How)
		case "WC":
			if wrapOpen[len(wrapOpen)-1] == "section" {
				b.WriteString(`</text:section>`)
			} else {
				b.WriteString(`</text:index-body></text:table-of-content>`)
			}
			wrapOpen = wrapOpen[:len(wrapOpen)-1]
		case "M":
			switch blk.How {
			case "softbreak":
				b.WriteString(`<text:soft-page-break/>`)
			case "sectionempty":
				fmt.Fprintf(&b, `<text:section text:name="Empty%d"/>`, i)
			case "tracked": // 5.5.1: the deleted paragraph lives here, not in the text flow
				fmt.Fprintf(&b, `<text:tracked-changes><text:changed-region text:id="ct1"><text:deletion><office:change-info><dc:creator>verif</dc:creator><dc:date>2020-01-01T00:00:00</dc:date></office:change-info><text:p text:style-name="Standard">%s</text:p></text:deletion></text:changed-region></text:tracked-changes>`, TokText(DelTok))
			default:
				panic("wpw: marker " + blk.How + " is not in the ODT alphabet")
			}
		case "TBL":
			tblNo++
			odtTable(&b, blk, cnt, i, tblNo)
		}
	}
	b.WriteString(`</office:text></office:body></office:document-content>`)

	var s strings.Builder
	s.WriteString(odfDecl)
	fmt.Fprintf(&s, `<office:document-styles %s office:version="1.2"><office:styles>`, odfNS)
	s.WriteString(`<style:style style:name="Standard" style:family="paragraph" style:class="text"/>`)
	s.WriteString(`<style:style style:name="Heading" style:family="paragraph" style:parent-style-name="Standard" style:class="text"/>`)
	for n := 1; n <= 10 && len(d.Sheet) == 0; n++ { // (a document with its own sheet defines its heading styles itself)
		fmt.Fprintf(&s, `<style:style style:name="Heading_20_%d" style:display-name="Heading %d" style:family="paragraph" style:parent-style-name="Heading" style:default-outline-level="%d" style:class="text"/>`, n, n, n)
		fmt.Fprintf(&s, `<style:style style:name="Custom%da" style:display-name="Custom %c A" style:family="paragraph" style:parent-style-name="Heading_20_%d"/>`, n, 'A'+n-1, n)
	}
	s.WriteString(odtSheetStyles(d.Sheet, "doc"))
	s.WriteString(`</office:styles><office:automatic-styles><style:page-layout style:name="pm1"><style:page-layout-properties fo:page-width="21cm" fo:page-height="29.7cm" fo:margin-top="2cm" fo:margin-bottom="2cm" fo:margin-left="2cm" fo:margin-right="2cm"/></style:page-layout></office:automatic-styles>`)
	s.WriteString(`<office:master-styles><style:master-page style:name="Standard" style:page-layout-name="pm1">`)
	if d.Hdr == 1 {
		fmt.Fprintf(&s, `<style:header><text:p text:style-name="Standard">%s</text:p></style:header>`, TokText(HdrTok))
	}
	if d.Ftr == 1 {
		fmt.Fprintf(&s, `<style:footer><text:p text:style-name="Standard">%s</text:p></style:footer>`, TokText(FtrTok))
	}
	s.WriteString(`</style:master-page></office:master-styles></office:document-styles>`)

	manifest := odfDecl + `<manifest:manifest xmlns:manifest="urn:oasis:names:tc:opendocument:xmlns:manifest:1.0" manifest:version="1.2">` +
		`<manifest:file-entry manifest:full-path="/" manifest:version="1.2" manifest:media-type="application/vnd.oasis.opendocument.text"/>` +
		`<manifest:file-entry manifest:full-path="content.xml" manifest:media-type="text/xml"/>` +
		`<manifest:file-entry manifest:full-path="styles.xml" manifest:media-type="text/xml"/>` +
		`<manifest:file-entry manifest:full-path="meta.xml" manifest:media-type="text/xml"/>` +
		`</manifest:manifest>`
	meta := odfDecl + fmt.Sprintf(`<office:document-meta %s office:version="1.2"><office:meta><meta:generator>verif-wpw</meta:generator></office:meta></office:document-meta>`, odfNS)

	files := []File{
		{Name: "mimetype", Data: []byte("application/vnd.oasis.opendocument.text"), Store: true},
		{Name: "META-INF/manifest.xml", Data: []byte(manifest)},
		{Name: "content.xml", Data: []byte(b.String())},
		{Name: "styles.xml", Data: []byte(s.String())},
		{Name: "meta.xml", Data: []byte(meta)},
	}
	return Rendered{Files: files, Bases: bases, NTok: cnt.n, Origin: cnt.origin}
}

func odtAtoms(b *strings.Builder, ch Child, cnt *counter, o Origin) {
	for _, a := range ch.A {
		switch a {
		case "t":
			o.Atom = "t"
			b.WriteString(TokText(cnt.next(o)))
		case "tab": // 6.1.4
			b.WriteString(`<text:tab/>`)
		case "br": // 6.1.5
			b.WriteString(`<text:line-break/>`)
		case "s": // 6.1.3
			b.WriteString(`<text:s/>`)
		case "eh": // the header line written in the body
			b.WriteString(TokText(HdrTok))
		case "ef":
			b.WriteString(TokText(FtrTok))
		default:
			panic("wpw: atom " + a + " is not in the ODT alphabet")
		}
	}
}

func odtChildren(b *strings.Builder, blk Block, cnt *counter, idx int) {
	for _, ch := range blk.Ch {
		o := Origin{Block: idx, Kind: blk.K, Wrap: ch.W}
		if ch.W == "r" { // character data directly in the paragraph
			odtAtoms(b, ch, cnt, o)
			continue
		}
		// inline containers, possibly nested: "outer>inner>..."
		var closers []string
		for _, box := range strings.Split(ch.W, ">") {
			switch box {
			case "span":
				b.WriteString(`<text:span text:style-name="T1">`)
				closers = append(closers, `</text:span>`)
			case "link":
				b.WriteString(`<text:a xlink:type="simple" xlink:href="http://example.com/">`)
				closers = append(closers, `</text:a>`)
			case "ruby": // 6.4: the ruby base is the text, the ruby text an annotation to it
				b.WriteString(`<text:ruby><text:ruby-base>`)
				closers = append(closers, `</text:ruby-base><text:ruby-text>rt</text:ruby-text></text:ruby>`)
			default:
				panic("wpw: wrapper " + ch.W + " is not in the ODT alphabet")
			}
		}
		odtAtoms(b, ch, cnt, o)
		for i := len(closers) - 1; i >= 0; i-- {
			b.WriteString(closers[i])
		}
	}
}

func odtTable(b *strings.Builder, tb Block, cnt *counter, blk, no int) {
	t := tb.Tb
	fmt.Fprintf(b, `<table:table table:name="Table%d" table:style-name="Tbl">`, no)
	fmt.Fprintf(b, `<table:table-column table:style-name="TblCol" table:number-columns-repeated="%d"/>`, t.Cols)
	for _, row := range Grid(t) {
		b.WriteString(`<table:table-row>`)
		for _, g := range row {
			if g.Kind != "a" { // 9.1.5: positions covered by a span
				b.WriteString(`<table:covered-table-cell/>`)
				continue
			}
			o := Origin{Block: blk, Kind: "TBL", Wrap: "cell", Atom: "t", Multi: g.Np > 1}
			b.WriteString(`<table:table-cell office:value-type="string"`)
			if g.Cs > 1 {
				fmt.Fprintf(b, ` table:number-columns-spanned="%d"`, g.Cs)
				o.Merge = "h"
			}
			if g.Rs > 1 {
				fmt.Fprintf(b, ` table:number-rows-spanned="%d"`, g.Rs)
				o.Merge = "v"
			}
			b.WriteString(`>`)
			if tb.How == "cellsec" { // the cell's paragraphs inside a section
				fmt.Fprintf(b, `<text:section text:name="Cell%d_%d">`, no, cnt.n)
			}
			for p := 0; p < g.Np; p++ {
				if p == 0 && tb.How == "cellnest" && !g.Rich { // the text inside a span inside a link
					o.Wrap = "cell:link>span"
					fmt.Fprintf(b, `<text:p text:style-name="Standard"><text:a xlink:type="simple" xlink:href="http://example.com/"><text:span text:style-name="T1">%s</text:span></text:a></text:p>`, TokText(cnt.next(o)))
					o.Wrap = "cell"
					continue
				}
				if p == 0 && g.Rich { // character data followed by a span
					o.Rich = true
					fmt.Fprintf(b, `<text:p text:style-name="Standard">%s`, TokText(cnt.next(o)))
					fmt.Fprintf(b, `<text:span text:style-name="T1">%s</text:span></text:p>`, TokText(cnt.next(o)))
					o.Rich = false
					continue
				}
				fmt.Fprintf(b, `<text:p text:style-name="Standard">%s</text:p>`, TokText(cnt.next(o)))
			}
			if tb.How == "cellsec" {
				b.WriteString(`</text:section>`)
			}
			b.WriteString(`</table:table-cell>`)
		}
		b.WriteString(`</table:table-row>`)
	}
	b.WriteString(`</table:table>`)
}

// odtSheetName is the style:name of style n (1-based) of the sheet: the built-in
// heading style name (Heading_20_N = "Heading N") for the declarations builtin and
// bare, an opaque name otherwise.
func odtSheetName(n int, sheet []Style) string {
	if n >= 1 && n <= len(sheet) && (sheet[n-1].Decl == "builtin" || sheet[n-1].Decl == "bare") {
		return fmt.Sprintf("Heading_20_%d", sheet[n-1].Lvl)
	}
	return fmt.Sprintf("S%d", n)
}

// odtSheetStyles writes the sheet's styles that live in the given place, in sheet order.
func odtSheetStyles(sheet []Style, loc string) string {
	var s strings.Builder
	for i, st := range sheet {
		place := st.Loc
		if place == "" {
			place = "doc"
		}
		if place != loc {
			continue
		}
		name := odtSheetName(i+1, sheet)
		attrs := ""
		switch st.Decl {
		case "builtin":
			attrs = fmt.Sprintf(` style:display-name="Heading %d" style:default-outline-level="%d" style:class="text"`, st.Lvl, st.Lvl)
		case "bare": // the heading style name without a default outline level (the attribute is optional)
			attrs = fmt.Sprintf(` style:display-name="Heading %d" style:class="text"`, st.Lvl)
		case "outline":
			attrs = fmt.Sprintf(` style:default-outline-level="%d"`, st.Lvl)
		case "none":
		default:
			panic("wpw: style declaration " + st.Decl + " is not in the ODT alphabet")
		}
		switch {
		case st.Based >= 1:
			attrs += fmt.Sprintf(` style:parent-style-name="%s"`, odtSheetName(st.Based, sheet))
		case st.Based == -1:
			attrs += ` style:parent-style-name="Standard"`
		case st.Based == -2:
			attrs += ` style:parent-style-name="Undefined_20_Style"`
		}
		fmt.Fprintf(&s, `<style:style style:name="%s" style:family="paragraph"%s/>`, name, attrs)
	}
	return s.String()
}
