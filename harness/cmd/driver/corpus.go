package main

// corpus: generated documents of every format shared by the history-style
// drivers (C03 determinism, later C02/C20). Grows as the writers are added.

import (
	"crypto/sha256"
	"encoding/hex"
	"fmt"
	"strings"

	tabula "github.com/tsawler/tabula"
	"github.com/tsawler/tabula/text"
)

// hdoc is one document of a history: named operations returning result text
// ("ERR: ..." for errors).
type hdoc struct {
	name string
	run  map[string]func() string
}

func sha(s string) string {
	h := sha256.Sum256([]byte(s))
	return hex.EncodeToString(h[:8])
}

func errStr(err error) string { return "ERR: " + err.Error() }

// randomContentStream renders a random text-showing program.
func randomContentStream(salt int64, n int) string {
	rnd := newRand(salt)
	var b strings.Builder
	b.WriteString("BT /F1 12 Tf\n")
	for i := 0; i < n; i++ {
		switch rnd.Intn(6) {
		case 0:
			fmt.Fprintf(&b, "%d %d Td\n", rnd.Intn(100), -rnd.Intn(30))
		case 1:
			fmt.Fprintf(&b, "(w%d_%d) Tj\n", salt, i)
		case 2:
			fmt.Fprintf(&b, "[(a%d) -250 (b%d)] TJ\n", i, i)
		case 3:
			fmt.Fprintf(&b, "1 0 0 1 %d %d Tm\n", rnd.Intn(500), rnd.Intn(700))
		case 4:
			fmt.Fprintf(&b, "%d TL T*\n", 10+rnd.Intn(5))
		case 5:
			fmt.Fprintf(&b, "(q%d) '\n", i)
		}
	}
	b.WriteString("ET\n")
	return b.String()
}

func randomHTML(salt int64, n int) string {
	rnd := newRand(salt)
	var b strings.Builder
	b.WriteString("<html><head><title>T</title></head><body>")
	for i := 0; i < n; i++ {
		switch rnd.Intn(5) {
		case 0:
			fmt.Fprintf(&b, "<h%d>Head %d-%d</h%d>", 1+rnd.Intn(3), salt, i, 1+rnd.Intn(3))
		case 1:
			fmt.Fprintf(&b, "<p>para %d-%d with <b>bold</b> &amp; text</p>", salt, i)
		case 2:
			fmt.Fprintf(&b, "<ul><li>item %d</li><li>item %d b</li></ul>", i, i)
		case 3:
			fmt.Fprintf(&b, "<table><tr><th>h%d</th><th>k</th></tr><tr><td>c%d</td><td>d</td></tr></table>", i, i)
		case 4:
			fmt.Fprintf(&b, "<nav><a href='#'>nav %d</a></nav>", i)
		}
	}
	b.WriteString("</body></html>")
	return b.String()
}

func streamDoc(name, data string) *hdoc {
	return &hdoc{name: name, run: map[string]func() string{
		"fragments": func() string {
			ex := text.NewExtractor()
			frs, err := ex.ExtractFromBytes([]byte(data))
			if err != nil {
				return errStr(err)
			}
			var b strings.Builder
			for _, f := range frs {
				fmt.Fprintf(&b, "%q@%.3f,%.3f/%.3f;", f.Text, f.X, f.Y, f.FontSize)
			}
			return b.String()
		},
		"text": func() string {
			ex := text.NewExtractor()
			if _, err := ex.ExtractFromBytes([]byte(data)); err != nil {
				return errStr(err)
			}
			return ex.GetText()
		},
	}}
}

func htmlDoc(name, data string) *hdoc {
	return &hdoc{name: name, run: map[string]func() string{
		"text": func() string {
			s, _, err := tabula.FromHTMLString(data).Text()
			if err != nil {
				return errStr(err)
			}
			return s
		},
		"markdown": func() string {
			s, _, err := tabula.FromHTMLString(data).ToMarkdown()
			if err != nil {
				return errStr(err)
			}
			return s
		},
		"chunks-jsonl": func() string {
			cc, _, err := tabula.FromHTMLString(data).Chunks()
			if err != nil {
				return errStr(err)
			}
			s, err := cc.ToJSONL()
			if err != nil {
				return errStr(err)
			}
			return s
		},
		"chunks-csv": func() string {
			cc, _, err := tabula.FromHTMLString(data).Chunks()
			if err != nil {
				return errStr(err)
			}
			s, err := cc.ToCSV()
			if err != nil {
				return errStr(err)
			}
			return s
		},
	}}
}

// historyDocs returns the documents of one history: content streams (well formed,
// ending with leftover operands, ending mid-operand), HTML documents, and whatever
// file formats the writers support.
func historyDocs(salt int64) []*hdoc {
	var docs []*hdoc
	for i := int64(0); i < 6; i++ {
		docs = append(docs, streamDoc(fmt.Sprintf("cs%d", i), randomContentStream(salt*100+i, 12)))
	}
	docs = append(docs,
		streamDoc("cs-leftover", "BT (x) Tj ET 1 2 3"),
		streamDoc("cs-leftover2", "BT 10 20 Td (y) Tj ET 7 7 7 7 7 7"),
		streamDoc("cs-midoperand", "BT (abc Tj"),
		streamDoc("cs-midarray", "BT [ (a) 1 2"),
		streamDoc("cs-starts-with-operator", "BT ET Tj Td cm Tm"),
	)
	for i := int64(0); i < 4; i++ {
		docs = append(docs, htmlDoc(fmt.Sprintf("html%d", i), randomHTML(salt*100+i, 10)))
	}
	docs = append(docs, fileDocs(salt)...)
	return docs
}
