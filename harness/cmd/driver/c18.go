package main

// C18 — PartsOrder.tla binding.
//
// replay  : every TLC-emitted package (XLSX / PPTX / EPUB: parts with their member
//           names, references, declared / listing / archive positions, layout
//           profile, and the pages the contract yields) is rendered by ooxmlw and
//           opened through tabula.Open (PageCount, Text, ToMarkdown, Document) and
//           the format reader (xlsx sheet names, pptx slides, epubdoc chapters).
// record  : larger random packages, logged for PartsOrderTrace.tla.
// selftest: sample packages for the python zipfile / xml.etree audit.
//
// Go renders names and references from the atoms the spec chose and projects
// outputs to content tokens (w017 -> 17); it never computes an expected order.

import (
	"crypto/sha1"
	"encoding/hex"
	"encoding/json"
	"fmt"
	"os"
	"path/filepath"
	"regexp"
	"sort"
	"strconv"
	"strings"

	tabula "github.com/tsawler/tabula"
	"github.com/tsawler/tabula/epubdoc"
	"github.com/tsawler/tabula/pptx"
	"github.com/tsawler/tabula/xlsx"

	"verif/internal/ooxmlw"
)

func init() { handlers["c18"] = c18 }

func c18(mode, in, out string) error {
	switch mode {
	case "replay":
		return runCases(in, out, c18Replay)
	case "record":
		return runCases(in, out, c18Record)
	case "selftest":
		return runCasesSerial(in, out, c18SelfTest)
	case "history":
		return runCases(in, out, c18HistoryCase)
	case "histrecord":
		return runCases(in, out, c18HistRecord)
	}
	return fmt.Errorf("c18: unknown mode %q", mode)
}

// ------------------------------------------------------------ abstract case

type c18Name struct {
	Dir  []string `json:"dir"`
	Stem string   `json:"stem"`
	Sp   string   `json:"sp"`
	N    int      `json:"n"`
	Ext  string   `json:"ext"`
}

type c18Href struct {
	Abs  bool     `json:"abs"`
	Segs []string `json:"segs"`
	Stem string   `json:"stem"`
	Enc  string   `json:"enc"`
	N    int      `json:"n"`
	Ext  string   `json:"ext"`
}

type c18Part struct {
	ID   int     `json:"id"`
	Name c18Name `json:"name"`
	Href c18Href `json:"href"`
	Decl int     `json:"decl"`
	Rel  int     `json:"rel"`
	Zip  int     `json:"zip"`
	// Present=false: declared / listed as usual but absent from the archive
	Present bool `json:"present"`
	// Notes: the part has an attachment of its own (PPTX notes slide) with token ID+200
	Notes bool `json:"notes"`
}

type c18Prof struct {
	Paths  string `json:"paths"`
	Tgt    string `json:"tgt"`
	Decoy  string `json:"decoy"`
	Extras bool   `json:"extras"`
	Infra  bool   `json:"infra"`
	Enc    string `json:"enc"`
	Opf    string `json:"opf"`
	Ver    int    `json:"ver"`
	Extra  bool   `json:"extra"`
	// Missing: declared position whose part is absent (0: none)
	Missing int `json:"missing"`
	// Alias: kind of the per-part decoys named like a wrong reading of the reference
	Alias string `json:"alias"`
	// Chain: shape of the declaration chain (rootfiles of container.xml / order of relationships)
	Chain string `json:"chain"`
	// Xml: the spelling of the declarations (never changes what is declared)
	Xml c18Xml `json:"xml"`
	// Conf: OOXML conformance class, "transitional" or "strict"
	Conf string `json:"conf"`
}

type c18Xml struct {
	Rev     bool   `json:"rev"`
	Prefix  string `json:"prefix"`
	Single  bool   `json:"single"`
	Foreign bool   `json:"foreign"`
	OC      bool   `json:"oc"`
	Gaps    bool   `json:"gaps"`
	Decl    string `json:"decl"`
}

func (x c18Xml) spelling() ooxmlw.Spelling {
	return ooxmlw.Spelling{Rev: x.Rev, RelPrefix: x.Prefix, Single: x.Single, Foreign: x.Foreign, OpenClose: x.OC, Gaps: x.Gaps, Decl: x.Decl}
}

func (x c18Xml) plain() bool {
	return !x.Rev && (x.Prefix == "" || x.Prefix == "r") && !x.Single && !x.Foreign && !x.OC && !x.Gaps && (x.Decl == "" || x.Decl == "std")
}

// c18Root is one <rootfile> of META-INF/container.xml (EPUB), in container order.
type c18Root struct {
	Media string    `json:"media"` // "opf" | "other"
	Auth  bool      `json:"auth"`  // the default rendition: the parts' decl/rel/href describe it
	Dir   []string  `json:"dir"`
	File  string    `json:"file"`
	Spine []int     `json:"spine"` // other package documents: the part ids they declare, in order
	Hrefs []c18Href `json:"hrefs"` // ... and how they refer to them
}

type c18Case struct {
	Fmt   string    `json:"fmt"`
	Base  []string  `json:"base"`
	Prof  c18Prof   `json:"prof"`
	Parts []c18Part `json:"parts"`
	Roots []c18Root `json:"roots"`
	// Declared: every declared part in declared order, readable or not (spec)
	Declared []int `json:"declared"`
	Pages    []int `json:"pages"`
	Count    int   `json:"count"`
}

// ------------------------------------------------------------ rendering

func c18Tok(id int) string { return fmt.Sprintf("w%03d", id) }

// text of the special piece of a member name / of its spelling in a reference
// (the tables of PartsOrder.tla, rendered)
var c18SpText = map[string]string{"none": "", "space": " ", "plus": "+", "pct20": "%20", "pctz": "%z", "eacute": "\u00e9",
	"paren": "(x)", "amp": "&", "pct2B": "%2B", "pctC3A9": "%C3%A9", "pct2520": "%2520", "pct25z": "%25z"}
var c18EncText = map[string]string{"none": "", "sp20": "%20", "plusLit": "+", "plus2B": "%2B", "pct2520": "%2520", "pct25z": "%25z",
	"eC3A9": "%C3%A9", "eRaw": "\u00e9", "paren": "(x)", "amp": "&"}

func c18NameStr(n c18Name) string {
	sp, ok := c18SpText[n.Sp]
	if !ok {
		panic("c18: unknown name piece " + n.Sp)
	}
	base := n.Stem + sp + strconv.Itoa(n.N) + "." + n.Ext
	if len(n.Dir) == 0 {
		return base
	}
	return strings.Join(n.Dir, "/") + "/" + base
}

func c18HrefStr(h c18Href) string {
	enc, ok := c18EncText[h.Enc]
	if !ok {
		panic("c18: unknown spelling " + h.Enc)
	}
	s := h.Stem + enc + strconv.Itoa(h.N) + "." + h.Ext
	if len(h.Segs) > 0 {
		s = strings.Join(h.Segs, "/") + "/" + s
	}
	if h.Abs {
		s = "/" + s
	}
	return s
}

const c18NavTok = 92 // shown only inside the EPUB navigation document

func c18Members(c *c18Case) ([]ooxmlw.Member, string) {
	switch c.Fmt {
	case "xlsx":
		wb := &ooxmlw.XWorkbook{Extras: c.Prof.Extras, InfraFirst: c.Prof.Infra, RelsInfraFirst: c.Prof.Chain == "infraFirst", RelsInfraMixed: c.Prof.Chain == "infraMixed", Strict: c.Prof.Conf == "strict", Sp: c.Prof.Xml.spelling()}
		for _, p := range c.Parts {
			wb.Sheets = append(wb.Sheets, ooxmlw.XSheet{
				Name: fmt.Sprintf("n%03d", p.ID), SheetID: 20 + p.ID, RID: fmt.Sprintf("rId%d", 3+p.Rel),
				PartName: c18NameStr(p.Name), Target: c18HrefStr(p.Href),
				Rows: []ooxmlw.XRow{
					{R: 1, HasR: true, Cells: []ooxmlw.XCell{{Ref: "A1", Kind: "is", Text: c18Tok(p.ID)}}},
					{R: 2, HasR: true, Cells: []ooxmlw.XCell{{Ref: "B2", Kind: "n", Text: strconv.Itoa(p.ID)}}}},
				DeclPos: p.Decl, RelPos: p.Rel, ZipPos: p.Zip + 1, Absent: !p.Present})
		}
		return wb.Members(), ".xlsx"
	case "pptx":
		d := &ooxmlw.Deck{Extras: c.Prof.Extras, InfraFirst: c.Prof.Infra, RelsInfraFirst: c.Prof.Chain == "infraFirst", RelsInfraMixed: c.Prof.Chain == "infraMixed", Strict: c.Prof.Conf == "strict", Sp: c.Prof.Xml.spelling()}
		for _, p := range c.Parts {
			nt := ""
			if p.Notes {
				nt = c18Tok(p.ID + 200)
			}
			d.Slides = append(d.Slides, ooxmlw.PSlide{Notes: nt, NotesNo: p.Name.N, Text: c18Tok(p.ID), SldID: 256 + 2*p.Rel + p.ID*16, RID: fmt.Sprintf("rId%d", 3+p.Rel),
				PartName: c18NameStr(p.Name), Target: c18HrefStr(p.Href), DeclPos: p.Decl, RelPos: p.Rel, ZipPos: p.Zip + 1, Absent: !p.Present})
		}
		return d.Members(), ".pptx"
	case "epub":
		opf := "content.opf"
		if len(c.Base) > 0 {
			opf = strings.Join(c.Base, "/") + "/content.opf"
		}
		b := &ooxmlw.Book{OPFPath: opf, Version: c.Prof.Ver, Extras: c.Prof.Extras, InfraFirst: c.Prof.Infra, NavText: "Contents " + c18Tok(c18NavTok), Sp: c.Prof.Xml.spelling()}
		for _, p := range c.Parts {
			b.Chapters = append(b.Chapters, ooxmlw.EChapter{ItemID: fmt.Sprintf("c%d", p.ID), Text: c18Tok(p.ID),
				PartName: c18NameStr(p.Name), Href: c18HrefStr(p.Href), DeclPos: p.Decl, RelPos: p.Rel, ZipPos: p.Zip + 1, Absent: !p.Present})
		}
		for i, r := range c.Roots {
			full := r.File
			if len(r.Dir) > 0 {
				full = strings.Join(r.Dir, "/") + "/" + r.File
			}
			switch {
			case r.Media != "opf":
				b.Rootfiles = append(b.Rootfiles, ooxmlw.ERootfile{FullPath: full + ".pdf", MediaType: "application/pdf", Dummy: true})
			case r.Auth:
				b.Rootfiles = append(b.Rootfiles, ooxmlw.ERootfile{FullPath: b.OPFPath, MediaType: "application/oebps-package+xml"})
			default:
				alt := ooxmlw.AltPackage{OPFPath: full + ".opf", Tag: fmt.Sprintf("r%d", i+1)}
				for k, id := range r.Spine {
					alt.Spine = append(alt.Spine, ooxmlw.EItem{ItemID: fmt.Sprintf("c%d", id), Href: c18HrefStr(r.Hrefs[k])})
				}
				b.Alternates = append(b.Alternates, alt)
				b.Rootfiles = append(b.Rootfiles, ooxmlw.ERootfile{FullPath: alt.OPFPath, MediaType: "application/oebps-package+xml"})
			}
		}
		return b.Members(), ".epub"
	}
	panic("c18: unknown format " + c.Fmt)
}

// ------------------------------------------------------------ observation

var c18TokRe = regexp.MustCompile(`w(\d{3})`)
var c18NameRe = regexp.MustCompile(`n(\d{3})`)

func c18Toks(re *regexp.Regexp, s string) []int {
	out := []int{}
	for _, m := range re.FindAllStringSubmatch(s, -1) {
		n, _ := strconv.Atoi(m[1])
		out = append(out, n)
	}
	return out
}

// c18API is what one API of the real code presents: an error, a count, the tokens
// per page (when pages are delimited) or the flat token sequence.
type c18API struct {
	Name  string  `json:"api"`
	Err   string  `json:"err,omitempty"`
	Count int     `json:"count"`           // -1: the API reports no count
	Pages [][]int `json:"pages,omitempty"` // tokens per presented page
	Flat  []int   `json:"flat,omitempty"`  // tokens in order when pages are not delimited
}

func c18Observe(path, fm string) []c18API {
	var out []c18API
	add := func(a c18API) { out = append(out, a) }
	// tabula.Open: PageCount
	{
		a := c18API{Name: "PageCount", Count: -1}
		ext := tabula.Open(path)
		n, err := ext.PageCount()
		ext.Close()
		if err != nil {
			a.Err = err.Error()
		} else {
			a.Count = n
		}
		add(a)
	}
	{
		a := c18API{Name: "Text", Count: -1}
		if s, _, err := tabula.Open(path).Text(); err != nil {
			a.Err = err.Error()
		} else {
			a.Flat = c18Toks(c18TokRe, s)
		}
		add(a)
	}
	{
		a := c18API{Name: "ToMarkdown", Count: -1}
		if s, _, err := tabula.Open(path).ToMarkdown(); err != nil {
			a.Err = err.Error()
		} else {
			a.Flat = c18Toks(c18TokRe, s)
		}
		add(a)
	}
	{
		a := c18API{Name: "Document", Count: -1}
		if doc, _, err := tabula.Open(path).Document(); err != nil {
			a.Err = err.Error()
		} else {
			a.Count = len(doc.Pages)
			a.Pages = [][]int{}
			for _, pg := range doc.Pages {
				a.Pages = append(a.Pages, c18Toks(c18TokRe, pg.ExtractText()))
			}
		}
		add(a)
	}
	switch fm {
	case "xlsx":
		a := c18API{Name: "xlsx.Reader", Count: -1}
		b := c18API{Name: "xlsx.SheetNames", Count: -1}
		if r, err := xlsx.Open(path); err != nil {
			a.Err, b.Err = err.Error(), err.Error()
		} else {
			a.Count = r.SheetCount()
			a.Pages = [][]int{}
			for i := 0; i < r.SheetCount(); i++ {
				sh, _ := r.Sheet(i)
				toks := []int{}
				for _, row := range sh.Rows {
					for _, cell := range row {
						toks = append(toks, c18Toks(c18TokRe, cell.Value)...)
					}
				}
				a.Pages = append(a.Pages, toks)
			}
			b.Count = len(r.SheetNames())
			b.Pages = [][]int{}
			for _, n := range r.SheetNames() {
				b.Pages = append(b.Pages, c18Toks(c18NameRe, n))
			}
			r.Close()
		}
		add(a)
		add(b)
	case "pptx":
		a := c18API{Name: "pptx.Reader", Count: -1}
		if r, err := pptx.Open(path); err != nil {
			a.Err = err.Error()
		} else {
			a.Count = r.SlideCount()
			a.Pages = [][]int{}
			for i := 0; i < r.SlideCount(); i++ {
				sl, _ := r.Slide(i)
				a.Pages = append(a.Pages, c18Toks(c18TokRe, sl.GetText()+"\n"+sl.Notes))
			}
			r.Close()
		}
		add(a)
	case "epub":
		a := c18API{Name: "epubdoc.Reader", Count: -1}
		if r, err := epubdoc.Open(path); err != nil {
			a.Err = err.Error()
		} else {
			a.Count = r.ChapterCount()
			a.Pages = [][]int{}
			for _, ch := range r.Chapters() {
				a.Pages = append(a.Pages, c18Toks(c18TokRe, string(ch.Content)))
			}
			r.Close()
		}
		add(a)
	}
	return out
}

// ------------------------------------------------------------ comparison

func c18Equal(a, b []int) bool {
	if len(a) != len(b) {
		return false
	}
	for i := range a {
		if a[i] != b[i] {
			return false
		}
	}
	return true
}

// c18Feature lists the layout options of the case that could make a reader stumble, for open
// errors / missing parts: "enc=paren,paths=dot,tgt=rel,opf=root". The check attributes a failure
// to the option value whose cases ALL fail in the run (checks/c18.py _name_features).
func c18Feature(c *c18Case) string {
	f := []string{"enc=" + c.Prof.Enc, "paths=" + c.Prof.Paths, "tgt=" + c.Prof.Tgt}
	if c.Fmt == "epub" {
		f = append(f, "opf="+c.Prof.Opf)
	}
	x := c.Prof.Xml
	if c.Fmt != "epub" {
		f = append(f, "conf="+c.Prof.Conf, "chain="+c.Prof.Chain)
	}
	f = append(f, fmt.Sprintf("rev=%v", x.Rev), fmt.Sprintf("foreign-id-last=%v", x.Foreign && !x.Rev), fmt.Sprintf("foreign-id-first=%v", x.Foreign && x.Rev), fmt.Sprintf("prefix=%v", x.Prefix != "" && x.Prefix != "r"),
		fmt.Sprintf("quotes=%v", x.Single), fmt.Sprintf("oc=%v", x.OC), fmt.Sprintf("gaps=%v", x.Gaps), "decl="+x.Decl)
	return "{" + strings.Join(f, ",") + "}"
}

// c18Classify compares a presented token sequence with the pages the contract
// yields and names the symptom.
func c18Classify(c *c18Case, got []int) (string, string) {
	want := c.Pages
	if c18Equal(got, want) {
		return "", ""
	}
	// the pages of another package document of the container?
	present := map[int]bool{}
	for _, p := range c.Parts {
		present[p.ID] = p.Present
	}
	for i, r := range c.Roots {
		if r.Media == "opf" && !r.Auth {
			alt := []int{}
			for _, id := range r.Spine {
				if present[id] {
					alt = append(alt, id)
				}
			}
			if c18Equal(got, alt) {
				return "chain:other-rootfile", fmt.Sprintf("presented %v is the spine of rootfile %d of container.xml (%s.opf); the default rendition is the first package-document rootfile and declares %v", got, i+1, r.File, want)
			}
		}
	}
	wantSet := map[int]bool{}
	for _, id := range want {
		wantSet[id] = true
	}
	seen := map[int]int{}
	for _, id := range got {
		seen[id]++
		if !wantSet[id] {
			if id >= 100 { // record mode: alias decoy of part id-100
				return "wrong-name:" + c.Prof.Enc, fmt.Sprintf("the undeclared member %q (token %s) is presented: it is what a wrong decoding (%s) of the reference %q denotes; the reference denotes %q",
					c18PartName(c, id), c18Tok(id), c.Prof.Alias, c18HrefOf(c, id-100), c18PartName(c, id-100))
			}
			switch id {
			case 90:
				if c.Prof.Missing > 0 {
					return "substituted:undeclared", fmt.Sprintf("declared part %d is absent from the archive; the undeclared member %s (token %s) is presented (in its place)", c.Prof.Missing, c18DecoyName(c), c18Tok(id))
				}
				return "leak:decoy", fmt.Sprintf("the undeclared member %s (token %s) is presented", c18DecoyName(c), c18Tok(id))
			case 71, 72, 73, 74, 75, 76, 77, 78, 79, 80, 81:
				return "wrong-name:" + c.Prof.Enc, fmt.Sprintf("the undeclared member %q (token %s) is presented: it is what a wrong decoding (%s) of the reference %q denotes; the reference denotes %q",
					c18PartName(c, id), c18Tok(id), c.Prof.Alias, c18HrefOf(c, id-70), c18PartName(c, id-70))
			case 93:
				return "chain:other-rootfile", fmt.Sprintf("token %s belongs to a part only another package document of the container declares", c18Tok(id))
			case 91:
				return "leak:not-in-spine", fmt.Sprintf("the manifest item that is not in the spine (token %s) is presented", c18Tok(id))
			case c18NavTok:
				return "leak:nav", "the navigation document, which is not in the spine, is presented"
			}
			return "leak:unknown", fmt.Sprintf("token %s is presented but belongs to no part", c18Tok(id))
		}
	}
	for _, id := range want {
		if seen[id] == 0 {
			return "missing:" + c18Feature(c), fmt.Sprintf("declared part %d (token %s) is not presented; presented %v, declared %v", id, c18Tok(id), got, want)
		}
		if seen[id] > 1 && c.Prof.Missing > 0 {
			return "substituted:other-part", fmt.Sprintf("declared part at position %d is absent from the archive; token %s of another part is presented %d times", c.Prof.Missing, c18Tok(id), seen[id])
		}
		if seen[id] > 1 {
			return "duplicate", fmt.Sprintf("token %s is presented %d times", c18Tok(id), seen[id])
		}
	}
	// same parts, other order: which order is it?
	byKey := func(key func(p c18Part) int) []int {
		ps := []c18Part{}
		for _, p := range c.Parts {
			if p.Decl > 0 && p.Present {
				ps = append(ps, p)
			}
		}
		sort.SliceStable(ps, func(i, j int) bool { return key(ps[i]) < key(ps[j]) })
		ids := []int{}
		for _, p := range ps {
			ids = append(ids, p.ID)
		}
		return ids
	}
	what := fmt.Sprintf("presented order %v, declared order %v", got, want)
	// every order of the package that explains what was presented; the check names the
	// signature by the explanation common to all failing cases of the run
	var fits []string
	if c18Equal(got, byKey(func(p c18Part) int { return p.Name.N })) {
		fits = append(fits, "file-name")
	}
	if c18Equal(got, byKey(func(p c18Part) int { return p.Rel })) {
		fits = append(fits, "listing")
	}
	if c18Equal(got, byKey(func(p c18Part) int { return p.Zip })) {
		fits = append(fits, "archive")
	}
	if len(fits) == 0 {
		return "order:other", what
	}
	return "order:" + strings.Join(fits, "+"), what + " (the presented order is the " + strings.Join(fits, " / ") + " order)"
}

func c18PartName(c *c18Case, id int) string {
	for _, p := range c.Parts {
		if p.ID == id {
			return c18NameStr(p.Name)
		}
	}
	return "?"
}

func c18HrefOf(c *c18Case, id int) string {
	for _, p := range c.Parts {
		if p.ID == id {
			return c18HrefStr(p.Href)
		}
	}
	return "?"
}

func c18DecoyName(c *c18Case) string {
	for _, p := range c.Parts {
		if p.ID == 90 {
			return c18NameStr(p.Name)
		}
	}
	return "?"
}

type c18Mismatch struct{ API, Symptom, What string }

// APIs whose result includes the speaker notes of every slide they present
var c18NotesAPIs = map[string]bool{"Text": true, "ToMarkdown": true, "ToMarkdownWithOptions": true, "ExcludeHeadersAndFooters().Text": true,
	"pptx.Reader": true, "pptx.Text+notes": true}

func c18IsNote(t int) bool { return t >= 200 && t < 300 }

// c18Notes checks the attachments: a notes token belongs to the page of its slide (same page;
// in a flat view: after the slide's token and before the next slide's) and only there, and a
// view that includes notes shows the notes of every presented slide that has some. It returns
// the API with the notes tokens removed.
func c18Notes(c *c18Case, a c18API) (c18API, *c18Mismatch) {
	has := map[int]bool{}
	for _, p := range c.Parts {
		if p.Notes && p.Present && p.Decl > 0 {
			has[p.ID] = true
		}
	}
	out := a
	seen := map[int]bool{}
	bad := func(n, page int) *c18Mismatch {
		return &c18Mismatch{a.Name, "notes:wrong-page", fmt.Sprintf("the notes of part %d (token %s) are shown with part %d", n-200, c18Tok(n), page)}
	}
	if a.Pages != nil {
		out.Pages = [][]int{}
		for _, pg := range a.Pages {
			var main []int
			for _, t := range pg {
				if !c18IsNote(t) {
					main = append(main, t)
				}
			}
			for _, t := range pg {
				if c18IsNote(t) {
					if len(main) != 1 || main[0] != t-200 {
						owner := -1
						if len(main) > 0 {
							owner = main[0]
						}
						return out, bad(t, owner)
					}
					seen[t-200] = true
				}
			}
			if main == nil {
				main = []int{}
			}
			out.Pages = append(out.Pages, main)
		}
	}
	if a.Flat != nil {
		out.Flat = []int{}
		cur := -1
		for _, t := range a.Flat {
			if c18IsNote(t) {
				if cur != t-200 {
					return out, bad(t, cur)
				}
				seen[t-200] = true
				continue
			}
			cur = t
			out.Flat = append(out.Flat, t)
		}
	}
	if c18NotesAPIs[a.Name] && a.Err == "" {
		shown := out.Flat
		if a.Pages != nil {
			shown = nil
			for _, pg := range out.Pages {
				shown = append(shown, pg...)
			}
		}
		for _, id := range shown {
			if has[id] && !seen[id] {
				return out, &c18Mismatch{a.Name, "notes:missing", fmt.Sprintf("part %d is presented without its notes (token %s); %s includes speaker notes", id, c18Tok(id+200), a.Name)}
			}
		}
	}
	return out, nil
}

func c18Check(c *c18Case, obs []c18API) *c18Mismatch {
	for _, a0 := range obs {
		a, nm := c18Notes(c, a0)
		if nm != nil {
			return nm
		}
		if a.Err != "" {
			if c.Prof.Missing > 0 {
				// the statement does not say whether a reader may refuse a document one of
				// whose declared parts is absent: not asserted
				continue
			}
			return &c18Mismatch{a.Name, "open-error:" + c18Feature(c), fmt.Sprintf("%s fails on a valid package: %s", a.Name, a.Err)}
		}
		if a.Pages != nil {
			for i, pg := range a.Pages {
				if len(pg) > 1 {
					return &c18Mismatch{a.Name, "page-mixes-parts", fmt.Sprintf("page %d shows the tokens of %d parts: %v", i+1, len(pg), pg)}
				}
			}
			flat := []int{}
			for _, pg := range a.Pages {
				flat = append(flat, pg...)
			}
			if sym, what := c18Classify(c, flat); sym != "" {
				return &c18Mismatch{a.Name, sym, what}
			}
			// each page its own part: page i shows exactly token i
			for i, pg := range a.Pages {
				if i < len(c.Pages) && !c18Equal(pg, []int{c.Pages[i]}) {
					return &c18Mismatch{a.Name, "page-content", fmt.Sprintf("page %d shows %v, declared part is %d", i+1, pg, c.Pages[i])}
				}
			}
		}
		if a.Flat != nil {
			if sym, what := c18Classify(c, a.Flat); sym != "" {
				return &c18Mismatch{a.Name, sym, what}
			}
		}
		if a.Count >= 0 && a.Count != c.Count {
			sym := "count"
			ndecoy, nabsent := 0, 0
			for _, p := range c.Parts {
				if p.Decl == 0 {
					ndecoy++
				} else if !p.Present {
					nabsent++
				}
			}
			if a.Count > c.Count && a.Count <= c.Count+ndecoy+nabsent {
				switch {
				case nabsent == 0:
					sym = "count:undeclared-counted"
				case ndecoy == 0:
					sym = "count:unreadable-counted"
				default:
					sym = "count:undeclared-or-unreadable-counted"
				}
			}
			return &c18Mismatch{a.Name, sym, fmt.Sprintf("%s reports %d pages, the package declares %d readable parts", a.Name, a.Count, c.Count)}
		}
	}
	return nil
}

// c18Key identifies the abstract case (distinctness) without carrying its text.
func c18Key(raw []byte) string {
	h := sha1.Sum(raw)
	return hex.EncodeToString(h[:10])
}

// c18CheckExtra: like c18Check; an API with a selection may present the selection or everything.
func c18CheckExtra(c *c18Case, apis []c18API, sels map[string][]int, problems []string) *c18Mismatch {
	if len(problems) > 0 {
		return &c18Mismatch{"views", "view-inconsistent", problems[0]}
	}
	for _, a := range apis {
		sel, has := sels[a.Name]
		if !has {
			if m := c18Check(c, []c18API{a}); m != nil {
				return m
			}
			continue
		}
		whole := c18Check(c, []c18API{a})
		if whole == nil {
			continue // the selection is not taken by this format: everything, in order
		}
		cc := *c
		cc.Pages, cc.Count = sel, len(sel)
		if m := c18Check(&cc, []c18API{a}); m != nil {
			m.Symptom = "selection:" + m.Symptom
			m.What = fmt.Sprintf("neither the selected parts %v nor all parts %v: %s", sel, c.Pages, m.What)
			return m
		}
	}
	return nil
}

func c18Nontrivial(c *c18Case) bool {
	for _, p := range c.Parts {
		if p.Decl > 0 && (p.Decl != p.Name.N || !p.Present) {
			return true
		}
	}
	return false
}

func c18WriteCase(c *c18Case) (string, error) {
	ms, ext := c18Members(c)
	data, err := ooxmlw.Zip(ms)
	if err != nil {
		return "", err
	}
	dir := os.Getenv("VERIF_SCRATCH")
	if dir == "" {
		dir = os.TempDir()
	}
	f, err := os.CreateTemp(dir, "pkg-*"+ext)
	if err != nil {
		return "", err
	}
	if _, err := f.Write(data); err != nil {
		f.Close()
		return "", err
	}
	return f.Name(), f.Close()
}

func c18Replay(i int, raw []byte) Result {
	var c c18Case
	if err := json.Unmarshal(raw, &c); err != nil {
		return fail("decode", "decode", err.Error(), nil)
	}
	res := Result{OK: true, Nontrivial: c18Nontrivial(&c), Key: c18Key(raw), Evals: 5, Clause: "feat:" + c.Fmt + ":" + c18Feature(&c)}
	if c.Prof.Missing > 0 {
		res.Clause = "" // open errors are not asserted there: keep these cases out of the attribution statistics
	}
	path, err := c18WriteCase(&c)
	if err != nil {
		panic(err)
	}
	defer os.Remove(path)
	obs := c18Observe(path, c.Fmt)
	res.Evals = len(obs)
	m := c18Check(&c, obs)
	if m == nil {
		// entry-point audit: the other public views
		// one view per case in quick, two in thorough, rotating: every view sees an even share of all cases
		which := []string{c18ExtraViews[i%len(c18ExtraViews)]}
		if tier() != "quick" {
			which = append(which, c18ExtraViews[(i/len(c18ExtraViews)+i+1)%len(c18ExtraViews)])
		}
		xa, sels, problems := c18Extra(path, &c, which)
		res.Evals += len(xa)
		obs = append(obs, xa...)
		m = c18CheckExtra(&c, xa, sels, problems)
	}
	if m != nil {
		r := fail(m.Symptom, "C18:"+c.Fmt+":"+m.Symptom, fmt.Sprintf("%s (%s): %s", c.Fmt, m.API, m.What),
			map[string]interface{}{"case": json.RawMessage(raw), "observed": obs})
		r.Nontrivial, r.Key, r.Evals = res.Nontrivial, res.Key, res.Evals
		return r
	}
	return res
}

// ------------------------------------------------------------ self test

func c18SelfTest(i int, raw []byte) Result {
	var c c18Case
	if err := json.Unmarshal(raw, &c); err != nil {
		return fail("decode", "decode", err.Error(), nil)
	}
	ms, ext := c18Members(&c)
	data, err := ooxmlw.Zip(ms)
	if err != nil {
		panic(err)
	}
	dir := filepath.Join(os.Getenv("VERIF_SCRATCH"), "selftest")
	os.MkdirAll(dir, 0o755)
	p := filepath.Join(dir, fmt.Sprintf("c18-%d%s", i, ext))
	if err := os.WriteFile(p, data, 0o644); err != nil {
		panic(err)
	}
	// declared parts in declared order with their member names (rendering only)
	ps := []c18Part{}
	absent := []string{}
	for _, q := range c.Parts {
		if q.Decl > 0 {
			ps = append(ps, q)
		}
		if !q.Present {
			absent = append(absent, c18NameStr(q.Name))
		}
	}
	sort.SliceStable(ps, func(a, b int) bool { return ps[a].Decl < ps[b].Decl })
	decl := [][]string{}
	for _, q := range ps {
		decl = append(decl, []string{c18NameStr(q.Name), c18Tok(q.ID), fmt.Sprintf("n%03d", q.ID)})
	}
	// member order of the parts
	zs := append([]c18Part{}, c.Parts...)
	sort.SliceStable(zs, func(a, b int) bool { return zs[a].Zip < zs[b].Zip })
	zord := []string{}
	for _, q := range zs {
		if q.Present {
			zord = append(zord, c18NameStr(q.Name))
		}
	}
	return Result{OK: true, Replay: map[string]interface{}{"path": p, "fmt": c.Fmt, "members": ooxmlw.Names(ms), "declared": decl, "ziporder": zord, "absent": absent, "nroots": len(c.Roots), "strict": c.Prof.Conf == "strict"}}
}
