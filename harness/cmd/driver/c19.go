package main

// C19 — HtmlWalk.tla binding.
//
// replay: every TLC-emitted document (token stream + the spec-computed content
//   sequence, clean sets per mode and forbidden tokens) is rendered by
//   internal/htmlw (with all end tags, and with the optional end tags omitted),
//   audited against golang.org/x/net/html, and extracted through
//   htmldoc.OpenReader(...).{Text,Markdown,Document}WithOptions in the four
//   navigation-exclusion modes, tabula.FromHTMLString and tabula.Open(file).
// record: random documents drawn from the specification's full alphabet (larger
//   than anything TLC enumerates) are logged step by step (Open/Text/Close) and
//   followed by the observed outputs (Walk) for HtmlWalkTrace.tla.

import (
	"crypto/sha1"
	"encoding/json"
	"fmt"
	"os"
	"path/filepath"
	"strings"

	"github.com/tsawler/tabula"
	"github.com/tsawler/tabula/htmldoc"
	"github.com/tsawler/tabula/model"

	"verif/internal/htmlw"
)

func init() { handlers["c19"] = c19 }

// tokPair is <<id, form>>.
type tokPair struct {
	ID   int
	Form string
}

func (t *tokPair) UnmarshalJSON(b []byte) error {
	var raw []json.RawMessage
	if err := json.Unmarshal(b, &raw); err != nil || len(raw) != 2 {
		return fmt.Errorf("token pair: %s", b)
	}
	if err := json.Unmarshal(raw[0], &t.ID); err != nil {
		return err
	}
	return json.Unmarshal(raw[1], &t.Form)
}

func (t tokPair) MarshalJSON() ([]byte, error) { return json.Marshal([]interface{}{t.ID, t.Form}) }

type c19Case struct {
	Alpha     string       `json:"alpha"`
	Stream    []htmlw.Item `json:"stream"`
	Omit      []bool       `json:"omit"`
	NTok      int          `json:"ntok"`
	Content   []tokPair    `json:"content"`
	Forbidden []int        `json:"forbidden"`
	CleanN    []int        `json:"cleanN"`
	CleanE    []int        `json:"cleanE"`
	CleanS    []int        `json:"cleanS"`
	CleanA    []int        `json:"cleanA"`
	Excl      int          `json:"excl"`
	Depth     int          `json:"depth"`
}

var c19Modes = []string{"none", "explicit", "standard", "aggressive"}

// scanHTMLTokens projects an extraction result to <<id, form>> pairs.
func scanHTMLTokens(s string) []tokPair {
	out := []tokPair{}
	for i := 0; i+4 <= len(s); i++ {
		if s[i] != 'w' || !c19Digit(s[i+1]) || !c19Digit(s[i+2]) || !c19Digit(s[i+3]) {
			continue
		}
		id := int(s[i+1]-'0')*100 + int(s[i+2]-'0')*10 + int(s[i+3]-'0')
		rest := s[i+4:]
		form := "plain"
		switch {
		case strings.HasPrefix(rest, "&z"):
			form = "amp"
		case strings.HasPrefix(rest, "éz"):
			form = "num"
		case strings.HasPrefix(rest, "&amp;z"), strings.HasPrefix(rest, "\\&z"):
			form = "amp-undecoded"
		case strings.HasPrefix(rest, "&#233;z"):
			form = "num-undecoded"
		}
		out = append(out, tokPair{id, form})
		i += 3
	}
	return out
}

// scanHTMLUnits gives, for every token scanHTMLTokens finds in s, the number of the emitted
// unit it sits in: blocks and list items are separated by newlines, table cells by tabs (text,
// document projection) or pipes (Markdown).
func scanHTMLUnits(s string) []int {
	units := []int{}
	u := 0
	for i := 0; i < len(s); i++ {
		switch s[i] {
		case '\n', '\t', '|':
			u++
			continue
		}
		if i+4 <= len(s) && s[i] == 'w' && c19Digit(s[i+1]) && c19Digit(s[i+2]) && c19Digit(s[i+3]) {
			units = append(units, u)
			i += 3
		}
	}
	return units
}

// tokUnit is <<id, form, unit>> (trace events).
type tokUnit struct {
	tokPair
	Unit int
}

func (t tokUnit) MarshalJSON() ([]byte, error) {
	return json.Marshal([]interface{}{t.ID, t.Form, t.Unit})
}

func withUnits(toks []tokPair, units []int) []tokUnit {
	out := make([]tokUnit, len(toks))
	for i, t := range toks {
		u := 0
		if i < len(units) {
			u = units[i]
		}
		out[i] = tokUnit{t, u}
	}
	return out
}

func modelText(doc *model.Document) string {
	var b strings.Builder
	if doc == nil {
		return ""
	}
	for _, pg := range doc.Pages {
		for _, el := range pg.Elements {
			switch e := el.(type) {
			case *model.Paragraph:
				b.WriteString(e.Text)
			case *model.Heading:
				b.WriteString(e.Text)
			case *model.List:
				for _, it := range e.Items {
					b.WriteString(it.Text)
					b.WriteString("\n")
				}
			case *model.Table:
				for _, row := range e.Rows {
					for _, cell := range row {
						b.WriteString(cell.Text)
						b.WriteString("\t")
					}
					b.WriteString("\n")
				}
			default:
				if g, ok := el.(interface{ GetText() string }); ok {
					b.WriteString(g.GetText())
				}
			}
			b.WriteString("\n")
		}
	}
	return b.String()
}

// c19Group is the outputs of one (entry, output kind) in mode order.
type c19Group struct {
	Entry string      `json:"entry"`
	Out   string      `json:"out"`
	Modes []string    `json:"modes"`
	Toks  [][]tokPair `json:"toks"`
	Units [][]int     `json:"units,omitempty"` // per mode, per token: the emitted unit it came out in
	Raw   []string    `json:"raw,omitempty"`
	Err   string      `json:"err,omitempty"`
}

func c19Observe(src string, withFile bool, name string) []c19Group {
	var groups []c19Group
	r, err := htmldoc.OpenReader(strings.NewReader(src))
	if err != nil {
		return []c19Group{{Entry: "reader", Out: "open", Err: err.Error()}}
	}
	for _, out := range []string{"text", "markdown", "document"} {
		g := c19Group{Entry: "reader", Out: out, Modes: c19Modes}
		for m := range c19Modes {
			opts := htmldoc.ExtractOptions{NavigationExclusion: htmldoc.NavigationExclusionMode(m)}
			var s string
			var e error
			switch out {
			case "text":
				s, e = r.TextWithOptions(opts)
			case "markdown":
				s, e = r.MarkdownWithOptions(opts)
			default:
				var d *model.Document
				d, e = r.DocumentWithOptions(opts)
				s = modelText(d)
			}
			if e != nil {
				g.Err = e.Error()
			}
			g.Toks = append(g.Toks, scanHTMLTokens(s))
			g.Units = append(g.Units, scanHTMLUnits(s))
			g.Raw = append(g.Raw, s)
		}
		groups = append(groups, g)
	}
	r.Close()
	one := func(entry, out, s string, e error) {
		g := c19Group{Entry: entry, Out: out, Modes: c19Modes[:1], Toks: [][]tokPair{scanHTMLTokens(s)}, Raw: []string{s}}
		if e != nil {
			g.Err = e.Error()
		}
		groups = append(groups, g)
	}
	s, _, e := tabula.FromHTMLString(src).Text()
	one("string", "text", s, e)
	s, _, e = tabula.FromHTMLString(src).ToMarkdown()
	one("string", "markdown", s, e)
	d, _, e := tabula.FromHTMLString(src).Document()
	one("string", "document", modelText(d), e)
	if withFile {
		dir := filepath.Join(os.Getenv("VERIF_SCRATCH"), "c19files")
		os.MkdirAll(dir, 0o755)
		path := filepath.Join(dir, name+".html")
		if err := os.WriteFile(path, []byte(src), 0o644); err != nil {
			panic("machinery: " + err.Error())
		}
		s, _, e = tabula.Open(path).Text()
		one("file", "text", s, e)
		os.Remove(path)
	}
	return groups
}

// ---------------------------------------------------------------- comparison

type c19Fail struct{ clause, feature, what string }

func idSet(l []int) map[int]bool {
	m := map[int]bool{}
	for _, v := range l {
		m[v] = true
	}
	return m
}

func filterPairs(s []tokPair, keep map[int]bool) []tokPair {
	out := []tokPair{}
	for _, t := range s {
		if keep[t.ID] {
			out = append(out, t)
		}
	}
	return out
}

func cleanUnits(toks []tokPair, units []int, keep map[int]bool) []int {
	out := []int{}
	for i, t := range toks {
		if keep[t.ID] && i < len(units) {
			out = append(out, units[i])
		}
	}
	return out
}

func pairsEq(a, b []tokPair) bool {
	if len(a) != len(b) {
		return false
	}
	for i := range a {
		if a[i] != b[i] {
			return false
		}
	}
	return true
}

func isSubseq(s, t []tokPair) bool {
	j := 0
	for _, x := range s {
		for j < len(t) && t[j] != x {
			j++
		}
		if j == len(t) {
			return false
		}
		j++
	}
	return true
}

// tokChain returns the ancestor tags of a token (body excluded).
func tokChain(stream []htmlw.Item, id int) []string {
	var stack []string
	for _, it := range stream {
		switch it.Op {
		case "open":
			stack = append(stack, it.Tag)
		case "close":
			stack = stack[:len(stack)-1]
		case "text":
			if it.ID == id {
				return append([]string{}, stack...)
			}
		}
	}
	return nil
}

// tokFeature names where a token sits, reduced to the structural tags that matter
// for extraction (list item, paragraph, cell, row group, pre, blockquote, heading),
// consecutive repeats collapsed, at most n of them.
func tokFeature(stream []htmlw.Item, id int, n int) string {
	var sig []string
	for _, t := range tokChain(stream, id) {
		k := ""
		switch t {
		case "li", "p", "pre", "blockquote", "tfoot", "thead":
			k = t
		case "td", "th":
			k = "cell"
		case "h1", "h2", "h3", "h4", "h5", "h6":
			k = "h"
		}
		if k != "" && (len(sig) == 0 || sig[len(sig)-1] != k) {
			sig = append(sig, k)
		}
	}
	if len(sig) > n {
		sig = sig[:n]
	}
	if len(sig) == 0 {
		return "bare"
	}
	return strings.Join(sig, ">")
}

// afterNestedList reports whether the token is text of an li that follows a nested list in it.
func afterNestedList(stream []htmlw.Item, id int) bool {
	for i, it := range stream {
		if it.Op == "text" && it.ID == id && i > 0 {
			p := stream[i-1]
			return p.Op == "close" && (p.Tag == "ul" || p.Tag == "ol")
		}
	}
	return false
}

func c19CheckGroup(c *c19Case, g c19Group) *c19Fail {
	if g.Err != "" {
		return &c19Fail{"error", g.Out, "extraction failed: " + g.Err}
	}
	forb := idSet(c.Forbidden)
	forb[htmlw.HeadStyleTok] = true
	contentIDs := map[int]bool{}
	for _, t := range c.Content {
		contentIDs[t.ID] = true
	}
	outTag, nfeat := "", 2
	if g.Out != "text" {
		outTag, nfeat = g.Out+":", 1
	}
	where := func(id int) string { return strings.Join(tokChain(c.Stream, id), ">") }
	// W4 + markup
	for mi, toks := range g.Toks {
		for _, t := range toks {
			if forb[t.ID] {
				return &c19Fail{"script-style", "", fmt.Sprintf("mode %s: script/style text w%03d is returned", g.Modes[mi], t.ID)}
			}
		}
		if g.Out == "text" && mi < len(g.Raw) && strings.Contains(g.Raw[mi], "<") {
			return &c19Fail{"markup", "", fmt.Sprintf("mode %s: markup in the text output: %q", g.Modes[mi], g.Raw[mi])}
		}
	}
	// W1: mode None returns every asserted content token once, in order, decoded.
	// Entries without a mode parameter (string, file) use some mode of their own
	// choosing: only the content no mode may exclude is asserted for them.
	none := g.Toks[0]
	got := filterPairs(none, contentIDs)
	want := c.Content
	if g.Entry != "reader" {
		keep := idSet(c.CleanA)
		got, want = filterPairs(got, keep), filterPairs(want, keep)
	}
	if !pairsEq(got, want) {
		cnt := map[int]int{}
		form := map[int]string{}
		for _, t := range got {
			cnt[t.ID]++
			form[t.ID] = t.Form
		}
		for _, t := range want {
			if cnt[t.ID] == 0 {
				return &c19Fail{"content-missing", outTag + tokFeature(c.Stream, t.ID, nfeat), fmt.Sprintf("mode none: text w%03d inside %s is not returned; returned %v", t.ID, where(t.ID), none)}
			}
		}
		for _, t := range want {
			if cnt[t.ID] > 1 {
				return &c19Fail{"content-dup", outTag + tokFeature(c.Stream, t.ID, 1), fmt.Sprintf("mode none: text w%03d inside %s is returned %d times; returned %v", t.ID, where(t.ID), cnt[t.ID], none)}
			}
		}
		for _, t := range want {
			if form[t.ID] != t.Form {
				return &c19Fail{"entity", t.Form, fmt.Sprintf("mode none: w%03d written with form %s comes out as %s", t.ID, t.Form, form[t.ID])}
			}
		}
		for i := 0; i+1 < len(got); i++ {
			if got[i].ID > got[i+1].ID {
				feat := tokFeature(c.Stream, got[i].ID, 1)
				if afterNestedList(c.Stream, got[i].ID) {
					feat = "li-text-after-nested-list"
				}
				return &c19Fail{"content-order", outTag + feat, fmt.Sprintf("mode none: w%03d (%s) is returned before w%03d; returned %v", got[i].ID, where(got[i].ID), got[i+1].ID, none)}
			}
		}
		return &c19Fail{"content", outTag, fmt.Sprintf("mode none: returned %v, content %v", none, want)}
	}
	if len(g.Toks) < 4 {
		return nil
	}
	clean := []map[int]bool{idSet(c.CleanN), idSet(c.CleanE), idSet(c.CleanS), idSet(c.CleanA)}
	for m := 1; m < 4; m++ {
		if !isSubseq(g.Toks[m], g.Toks[m-1]) {
			return &c19Fail{"monotone", outTag + g.Modes[m], fmt.Sprintf("Out(%s) = %v is not a subsequence of Out(%s) = %v", g.Modes[m], g.Toks[m], g.Modes[m-1], g.Toks[m-1])}
		}
	}
	// WU: content outside what mode m may exclude keeps its unit structure: two such tokens share
	// a block / list item / cell in Out(m) iff they do in Out(None)
	if len(g.Units) == 4 {
		for m := 1; m < 4; m++ {
			ua, ub := cleanUnits(g.Toks[m], g.Units[m], clean[m]), cleanUnits(none, g.Units[0], clean[m])
			ids := filterPairs(none, clean[m])
			for i := 0; i+1 < len(ua) && i+1 < len(ub); i++ {
				if (ua[i] == ua[i+1]) != (ub[i] == ub[i+1]) {
					how := "glued into one unit"
					if ub[i] == ub[i+1] {
						how = "split into two units"
					}
					return &c19Fail{"unit-structure", outTag + g.Modes[m], fmt.Sprintf("mode %s: w%03d and w%03d (inside %s), both outside every subtree the mode may exclude, are %s; mode none keeps them %s", g.Modes[m], ids[i].ID, ids[i+1].ID, where(ids[i+1].ID), how, map[bool]string{true: "in one unit", false: "in separate units"}[ub[i] == ub[i+1]])}
				}
			}
		}
	}
	for m := 0; m < 4; m++ {
		a, b := filterPairs(g.Toks[m], clean[m]), filterPairs(none, clean[m])
		if !pairsEq(a, b) {
			feat := ""
			in := map[int]bool{}
			for _, t := range a {
				in[t.ID] = true
			}
			for _, t := range b {
				if !in[t.ID] {
					feat = where(t.ID)
					break
				}
			}
			return &c19Fail{"unchanged", outTag + g.Modes[m], fmt.Sprintf("mode %s changes content outside every subtree it may exclude (first lost token in %s): %v, mode none %v", g.Modes[m], feat, a, b)}
		}
	}
	return nil
}

func c19Key(stream []htmlw.Item) string {
	h := sha1.Sum(mustJSON(stream))
	return fmt.Sprintf("%x", h[:8])
}

func c19ReplayCase(i int, raw []byte) Result {
	var c c19Case
	if err := json.Unmarshal(raw, &c); err != nil {
		return fail("decode", "decode", err.Error(), nil)
	}
	res := Result{OK: true, Nontrivial: c.Excl > 0 || c.Depth >= 2, Key: c19Key(c.Stream)}
	variants := [][]bool{nil}
	for _, o := range c.Omit {
		if o {
			variants = append(variants, c.Omit)
			break
		}
	}
	for vi, omit := range variants {
		src := htmlw.Render(c.Stream, omit)
		if err := htmlw.Audit(src, c.Stream); err != nil {
			panic(fmt.Sprintf("machinery: the HTML5 parser does not rebuild the generated tree (variant %d): %v\n%s", vi, err, src))
		}
		groups := c19Observe(src, vi == 0, fmt.Sprintf("case%d", i))
		for _, g := range groups {
			res.Evals += len(g.Toks)
			if f := c19CheckGroup(&c, g); f != nil {
				sig := "C19:" + f.clause
				if f.feature != "" {
					sig += ":" + strings.TrimSuffix(f.feature, ":")
				}
				g.Raw = g.Raw[:1]
				x := fail(f.clause, sig, fmt.Sprintf("[%s/%s%s] %s", g.Entry, g.Out, map[int]string{0: "", 1: ", optional end tags omitted"}[vi], f.what),
					map[string]interface{}{"case": json.RawMessage(raw), "html": src, "observed": g})
				x.Nontrivial, x.Key, x.Evals = res.Nontrivial, res.Key, res.Evals
				return x
			}
		}
	}
	return res
}

func c19(mode, in, out string) error {
	switch mode {
	case "replay":
		return runCases(in, out, c19ReplayCase)
	case "record":
		return runCases(in, out, c19RecordCase)
	case "history":
		return runCases(in, out, c19HistoryCase)
	case "epub":
		return runCases(in, out, c19EpubCase)
	case "histrecord":
		return runCases(in, out, c19HistRecordCase)
	}
	return fmt.Errorf("c19: unknown mode %s", mode)
}

func c19Digit(b byte) bool { return b >= '0' && b <= '9' }
