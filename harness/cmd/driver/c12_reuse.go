package main

// C12 — reuse histories (ChunkReuse.tla): ONE chunker object of every
// configuration chunks document A, B, A ... one call after the other, or A and B
// from two goroutines; every result must be what a fresh object gives for that
// document (Purity) and is also judged by the chunking contract itself
// (c12Compare with the spec's paths, and Doc/Emit/Finish events for
// ChunkingTrace.tla).

import (
	"encoding/json"
	"fmt"
	"reflect"
	"sync"

	"github.com/tsawler/tabula/model"
	"github.com/tsawler/tabula/rag"
)

type c12Obj struct {
	cfg c12Cfg // name / api / sizes / MinHeadingLevel, for rendering and judging
	mk  func() func(d *model.Document) ([]*rag.Chunk, error)
}

func c12ElemObj(name string, max, min int, cc func() rag.ChunkerConfig, sc func() rag.SizeConfig) c12Obj {
	return c12Obj{cfg: c12Cfg{name: name, api: "elem", maxChars: max, minChars: min}, mk: func() func(d *model.Document) ([]*rag.Chunk, error) {
		var o *rag.DocumentChunker
		if sc == nil {
			o = rag.NewDocumentChunker()
		} else {
			o = rag.NewDocumentChunkerWithConfig(cc(), sc())
		}
		return func(d *model.Document) ([]*rag.Chunk, error) { return o.ChunkDocument(d).Chunks, nil }
	}}
}

func c12LayoutObj(name string, max, min, mhl int, cc func() *rag.Chunker) c12Obj {
	return c12Obj{cfg: c12Cfg{name: name, api: "layout", maxChars: max, minChars: min, mhl: mhl}, mk: func() func(d *model.Document) ([]*rag.Chunk, error) {
		o := cc()
		return func(d *model.Document) ([]*rag.Chunk, error) {
			r, err := o.Chunk(d)
			if err != nil {
				return nil, err
			}
			return r.Chunks, nil
		}
	}}
}

func c12Objects() []c12Obj {
	with := func(max, min, mhl int) func() *rag.Chunker {
		return func() *rag.Chunker {
			cc := rag.DefaultChunkerConfig()
			if max > 0 {
				cc.TargetChunkSize, cc.MaxChunkSize, cc.MinChunkSize = max/2, max, min
			}
			if mhl > 0 {
				cc.MinHeadingLevel = mhl
			}
			return rag.NewChunkerWithConfig(cc)
		}
	}
	chars300 := func() rag.SizeConfig {
		sc := rag.DefaultSizeConfig()
		sc.Target.Value, sc.Min.Value, sc.Max.Value = 150, 40, 300
		return sc
	}
	return []c12Obj{
		c12ElemObj("reuse:NewDocumentChunker", 2000, 100, nil, nil),
		c12ElemObj("reuse:DocumentChunker/Small", 800, 100, rag.DefaultChunkerConfig, rag.SmallChunkConfig),
		c12ElemObj("reuse:DocumentChunker/Cohere", 2048, 100, rag.DefaultChunkerConfig, rag.CohereEmbeddingConfig),
		c12ElemObj("reuse:DocumentChunker/Chars300", 300, 40, rag.DefaultChunkerConfig, chars300),
		c12LayoutObj("reuse:NewChunker", 2000, 100, 0, rag.NewChunker),
		c12LayoutObj("reuse:Chunker/600", 600, 50, 0, with(600, 50, 0)),
		c12LayoutObj("reuse:Chunker/240", 240, 40, 0, with(240, 40, 0)),
		c12LayoutObj("reuse:Chunker/MHL5", 2000, 100, 5, with(0, 0, 5)),
	}
}

func c12Short(b []byte) string {
	if len(b) > 400 {
		return string(b[:400]) + "..."
	}
	return string(b)
}

type c12ReuseCase struct {
	Docs     []c12Case `json:"docs"`
	Hist     []int     `json:"hist"` // 1-based indices into docs
	Par      bool      `json:"par"`
	TraceMod int       `json:"tm,omitempty"`
}

func c12ReuseRun(i int, raw []byte) Result {
	var rc c12ReuseCase
	if err := json.Unmarshal(raw, &rc); err != nil {
		return fail("decode", "decode", err.Error(), nil)
	}
	res := Result{OK: true, Nontrivial: len(rc.Hist) >= 2, Key: string(raw)}
	kind := "seq"
	if rc.Par {
		kind = "par"
	}
	for oi, ob := range c12Objects() {
		if ob.cfg.api == "layout" && !(rc.Docs[0].Lnorm && rc.Docs[len(rc.Docs)-1].Lnorm) {
			continue
		}
		render := func(k int) *c12Rendered {
			return c12Render(&rc.Docs[k], ob.cfg.maxChars, ob.cfg.minChars, "direct", ob.cfg.api)
		}
		bad := func(clause, what string, obs interface{}) Result {
			x := fail(clause, "C12:"+clause+":"+ob.cfg.api+":"+kind, fmt.Sprintf("%s, history %v (%s): %s", ob.cfg.name, rc.Hist, kind, what),
				map[string]interface{}{"case": json.RawMessage(raw), "via": "reuse", "object": ob.cfg.name, "observed": obs})
			x.Nontrivial, x.Key, x.Evals, x.Events = res.Nontrivial, res.Key, res.Evals, res.Events
			return x
		}
		// what a fresh object gives for each document
		fresh := make([][]c12Obs, len(rc.Docs))
		for k := range rc.Docs {
			r := render(k)
			chunks, err := ob.mk()(r.doc)
			res.Evals++
			if err != nil {
				return bad("error", err.Error(), nil)
			}
			fresh[k] = c12Project(chunks, r, ob.cfg.api)
		}
		judge := func(call int, k int, r *c12Rendered, chunks []*rag.Chunk) *Result {
			obs := c12Project(chunks, r, ob.cfg.api)
			if rc.TraceMod > 0 && (i*7+oi+call)%rc.TraceMod == 0 {
				res.Events = append(res.Events, c12Events(&rc.Docs[k], r, obs, ob.cfg, "direct")...)
			}
			if !reflect.DeepEqual(obs, fresh[k]) {
				x := bad("reuse", fmt.Sprintf("call %d (document %d) differs from what a fresh object returns for the same document: reused %s, fresh %s",
					call+1, k+1, c12Short(mustJSON(obs)), c12Short(mustJSON(fresh[k]))), obs)
				return &x
			}
			if f := c12Compare(&rc.Docs[k], r, obs, ob.cfg.api, ob.cfg.minHeading()); f != nil {
				x := bad(f.clause, fmt.Sprintf("call %d (document %d): %s", call+1, k+1, f.what), obs)
				return &x
			}
			return nil
		}
		if !rc.Par {
			obj := ob.mk()
			for call, h := range rc.Hist {
				r := render(h - 1)
				chunks, err := obj(r.doc)
				res.Evals++
				if err != nil {
					return bad("error", err.Error(), nil)
				}
				if x := judge(call, h-1, r, chunks); x != nil {
					return *x
				}
			}
			continue
		}
		// two goroutines share the object, several rounds
		obj := ob.mk()
		for round := 0; round < 6; round++ {
			type out struct {
				r      *c12Rendered
				chunks []*rag.Chunk
				err    error
			}
			outs := make([]out, len(rc.Hist))
			var wg sync.WaitGroup
			for call, h := range rc.Hist {
				outs[call].r = render(h - 1)
				wg.Add(1)
				go func(call int) {
					defer wg.Done()
					defer func() {
						if p := recover(); p != nil {
							outs[call].err = fmt.Errorf("panic: %v", p)
						}
					}()
					outs[call].chunks, outs[call].err = obj(outs[call].r.doc)
				}(call)
			}
			wg.Wait()
			for call, h := range rc.Hist {
				res.Evals++
				if outs[call].err != nil {
					return bad("error", outs[call].err.Error(), nil)
				}
				if x := judge(call, h-1, outs[call].r, outs[call].chunks); x != nil {
					return *x
				}
			}
		}
	}
	return res
}
