package main

// C02 — Faults.tla / ParserLoop.tla / GraphWalk.tla binding.
//
// replay: the parent process shards the cases over child processes
//   (`driver c02 worker`), each under an address-space cap; a child announces
//   every case before it starts it, so that a child that dies (stack exhaustion,
//   failed allocation, unrecovered panic on another goroutine) or stops making
//   progress (deadline) is attributed to exactly one case, recorded as outcome
//   "abort" / "timeout", and restarted on the remaining cases.
// Case kinds: "tokens" (ParserLoop token streams through core.Parser),
//   "graph" (GraphWalk reference graphs as /Kids trees, /Prev chains and
//   ResolveDeep targets), "fault" (Faults.tla: a valid document of a format
//   damaged by the catalogue's faults, then every public entry point).

import (
	"archive/zip"
	"bufio"
	"bytes"
	"encoding/json"
	"fmt"
	"io"
	"os"
	"os/exec"
	"path/filepath"
	"regexp"
	"runtime"
	"sort"
	"strconv"
	"strings"
	"sync"
	"sync/atomic"
	"time"

	"verif/internal/pdfdoc"
	"verif/internal/pdfw"

	tabula "github.com/tsawler/tabula"
	"github.com/tsawler/tabula/contentstream"
	"github.com/tsawler/tabula/core"
	"github.com/tsawler/tabula/font"
	"github.com/tsawler/tabula/format"
	"github.com/tsawler/tabula/reader"
)

func init() { handlers["c02"] = c02 }

type rFault struct {
	Kind  string `json:"kind"`
	Site  int    `json:"site"`
	Param string `json:"param"`
}

type rCase struct {
	Special string `json:"special,omitempty"` // hand-shaped reference cycles through /Length
	// one of
	Toks     []string `json:"toks,omitempty"`
	Bad      string   `json:"bad,omitempty"`
	Ends     []string `json:"ends,omitempty"`
	CMapToks []string `json:"cmaptoks,omitempty"`
	Tight    []string `json:"tight,omitempty"`
	Graph    [][]int  `json:"graph,omitempty"`
	Fmt      string   `json:"fmt,omitempty"`
	Faults   []rFault `json:"faults,omitempty"`
	K        int      `json:"k,omitempty"`   // selector denominator
	All      bool     `json:"all,omitempty"` // iterate every site of the first fault's kind
}

type callOutcome struct {
	Entry   string `json:"entry"`
	Outcome string `json:"outcome"`
	Detail  string `json:"detail,omitempty"`
}

// guarded runs f and classifies the outcome
// entryTick, when set (worker processes), tells the parent that another public entry point is about to be called:
// the deadline is per call of an entry point, not per case.
var entryTick func(entry string)

func guarded(entry string, f func() error) (o callOutcome) {
	o.Entry = entry
	if entryTick != nil {
		entryTick(entry)
	}
	defer func() {
		if p := recover(); p != nil {
			o.Outcome = "panic"
			buf := make([]byte, 2048)
			n := runtime.Stack(buf, false)
			o.Detail = fmt.Sprintf("%v | %s", p, firstRepoFrames(string(buf[:n])))
		}
	}()
	if err := f(); err != nil {
		o.Outcome = "error"
	} else {
		o.Outcome = "value"
	}
	return o
}

func firstRepoFrames(stack string) string {
	var out []string
	for _, l := range strings.Split(stack, "\n") {
		if strings.Contains(l, "tabula") && strings.Contains(l, "(") && !strings.Contains(l, "verif/") {
			out = append(out, strings.TrimSpace(l))
			if len(out) == 3 {
				break
			}
		}
	}
	return strings.Join(out, " <- ")
}

// ------------------------------------------------------------ base documents

func c02BaseDoc(f string) ([]byte, string, error) {
	switch f {
	case "pdf-classic":
		l := pdfdoc.Layout{Doc: 1, XRef: "table", ObjStm: "none", Filter: "fl", Length: "refAfter", Size: "small", Split: 2,
			Depth: 2, MediaAt: 1, ResAt: 1, Revs: 2, Numbering: "ascending", Order: "sorted", Eol: "lf", Count: "branches"}
		b, err := pdfdoc.Build(l, [][]pdfdoc.Item{{{2, 1}, {3, 2}}, {{1, 3}}}, []pdfdoc.Item{{2, 11}}, []pdfdoc.Item{{3, 21}})
		return b, ".pdf", err
	case "pdf-stream":
		l := pdfdoc.Layout{Doc: 1, XRef: "stream", ObjStm: "dictsflate", Filter: "a85fl", Length: "refBefore", Size: "small", Split: 1,
			Depth: 3, MediaAt: 2, ResAt: 0, Revs: 3, Numbering: "shuffled", Order: "reversed", Eol: "crlf", Count: "chain"}
		b, err := pdfdoc.Build(l, [][]pdfdoc.Item{{{2, 1}, {3, 2}}, {{1, 3}}}, []pdfdoc.Item{{2, 11}}, []pdfdoc.Item{{3, 21}})
		return b, ".pdf", err
	case "pdf-png":
		// PNG-predicted Flate streams everywhere, incl. the cross-reference streams (/DecodeParms in every stream dictionary)
		l := pdfdoc.Layout{Doc: 1, XRef: "stream", ObjStm: "dictsflate", Filter: "flpng", Length: "direct", Size: "small", Split: 1,
			Depth: 2, MediaAt: 1, ResAt: 1, Revs: 2, Numbering: "ascending", Order: "sorted", Eol: "lf", Count: "branches"}
		b, err := pdfdoc.Build(l, [][]pdfdoc.Item{{{2, 1}, {3, 2}}, {{1, 3}}}, []pdfdoc.Item{{2, 11}}, []pdfdoc.Item{{3, 21}})
		return b, ".pdf", err
	case "pdf-tiff":
		l := pdfdoc.Layout{Doc: 1, XRef: "table", ObjStm: "none", Filter: "fltiff", Length: "direct", Size: "small", Split: 2,
			Depth: 2, MediaAt: 0, ResAt: 0, Revs: 1, Numbering: "ascending", Order: "sorted", Eol: "lf", Count: "branches"}
		b, err := pdfdoc.Build(l, [][]pdfdoc.Item{{{2, 1}, {3, 2}}, {{1, 3}}}, []pdfdoc.Item{{2, 11}}, []pdfdoc.Item{{3, 21}})
		return b, ".pdf", err
	case "pdf-ttf":
		b, _, err := ttfDoc(nil)
		return b, ".pdf", err
	case "docx":
		ms := docxMembers()
		// a richer body: heading with outline level, list items with levels, a table with a grid, spans and merges
		ms[2].data = `<?xml version="1.0" encoding="UTF-8" standalone="yes"?><w:document xmlns:w="http://schemas.openxmlformats.org/wordprocessingml/2006/main"><w:body>` +
			`<w:p><w:pPr><w:outlineLvl w:val="1"/></w:pPr><w:r><w:t>Heading 2</w:t></w:r></w:p><w:p><w:r><w:t>` + c20Token + `</w:t></w:r></w:p>` +
			`<w:p><w:pPr><w:numPr><w:ilvl w:val="0"/><w:numId w:val="1"/></w:numPr></w:pPr><w:r><w:t>item 1</w:t></w:r></w:p>` +
			`<w:p><w:pPr><w:numPr><w:ilvl w:val="2"/><w:numId w:val="1"/></w:numPr></w:pPr><w:r><w:t>item 2</w:t></w:r></w:p>` +
			`<w:tbl><w:tblGrid><w:gridCol w:w="2000"/><w:gridCol w:w="2000"/><w:gridCol w:w="2000"/></w:tblGrid>` +
			`<w:tr><w:tc><w:tcPr><w:gridSpan w:val="2"/></w:tcPr><w:p><w:r><w:t>a 3</w:t></w:r></w:p></w:tc><w:tc><w:tcPr><w:vMerge w:val="restart"/></w:tcPr><w:p><w:r><w:t>b</w:t></w:r></w:p></w:tc></w:tr>` +
			`<w:tr><w:tc><w:p><w:r><w:t>c</w:t></w:r></w:p></w:tc><w:tc><w:p><w:r><w:t>d 4</w:t></w:r></w:p></w:tc><w:tc><w:tcPr><w:vMerge/></w:tcPr><w:p/></w:tc></w:tr></w:tbl>` +
			`</w:body></w:document>`
		// list numbering with explicit start numbers and number formats (Roman numerals, letters)
		ms = append(ms, zmember{"word/numbering.xml", `<?xml version="1.0" encoding="UTF-8" standalone="yes"?><w:numbering xmlns:w="http://schemas.openxmlformats.org/wordprocessingml/2006/main">` +
			`<w:abstractNum w:abstractNumId="0"><w:lvl w:ilvl="0"><w:start w:val="3"/><w:numFmt w:val="upperRoman"/><w:lvlText w:val="%1."/></w:lvl>` +
			`<w:lvl w:ilvl="1"><w:start w:val="2"/><w:numFmt w:val="lowerLetter"/><w:lvlText w:val="%2)"/></w:lvl>` +
			`<w:lvl w:ilvl="2"><w:start w:val="4"/><w:numFmt w:val="lowerRoman"/><w:lvlText w:val="%3."/></w:lvl></w:abstractNum>` +
			`<w:num w:numId="1"><w:abstractNumId w:val="0"/></w:num></w:numbering>`, false})
		b, err := zipOf(ms)
		return b, ".docx", err
	case "odt":
		ms := odtMembers()
		// a richer body: heading with outline level, nested list, a table with repeated columns, spans and covered cells
		ms[1].data = `<?xml version="1.0" encoding="UTF-8"?><office:document-content xmlns:office="urn:oasis:names:tc:opendocument:xmlns:office:1.0" xmlns:text="urn:oasis:names:tc:opendocument:xmlns:text:1.0" xmlns:table="urn:oasis:names:tc:opendocument:xmlns:table:1.0" office:version="1.2"><office:body><office:text>` +
			`<text:h text:outline-level="2">Heading 2</text:h><text:p>` + c20Token + `</text:p>` +
			`<text:list><text:list-item><text:p>item 1</text:p><text:list><text:list-item><text:p>item 2</text:p></text:list-item></text:list></text:list-item></text:list>` +
			`<table:table table:name="T1"><table:table-column table:number-columns-repeated="3"/>` +
			`<table:table-row><table:table-cell table:number-columns-spanned="2" table:number-rows-spanned="2"><text:p>a 3</text:p></table:table-cell><table:covered-table-cell/><table:table-cell><text:p>b</text:p></table:table-cell></table:table-row>` +
			`<table:table-row table:number-rows-repeated="1"><table:covered-table-cell table:number-columns-repeated="2"/><table:table-cell><text:p>d 4</text:p></table:table-cell></table:table-row></table:table>` +
			// a second grid with every span written out, and a cell spanning rows AND columns at the right edge under plain cells:
			// a span damaged in one cell moves the cells of the rows below it
			`<table:table table:name="T2"><table:table-column table:number-columns-repeated="3"/>` +
			`<table:table-row><table:table-cell table:number-columns-spanned="1" table:number-rows-spanned="1"><text:p>A1</text:p></table:table-cell><table:table-cell table:number-columns-spanned="1" table:number-rows-spanned="1"><text:p>B1</text:p></table:table-cell><table:table-cell table:number-columns-spanned="1" table:number-rows-spanned="1"><text:p>C1</text:p></table:table-cell></table:table-row>` +
			`<table:table-row><table:table-cell table:number-columns-spanned="1" table:number-rows-spanned="1"><text:p>A2</text:p></table:table-cell><table:table-cell table:number-columns-spanned="2" table:number-rows-spanned="2"><text:p>B2</text:p></table:table-cell><table:covered-table-cell/></table:table-row>` +
			`<table:table-row><table:table-cell table:number-columns-spanned="1" table:number-rows-spanned="1"><text:p>A3</text:p></table:table-cell><table:covered-table-cell table:number-columns-repeated="2"/></table:table-row></table:table>` +
			`</office:text></office:body></office:document-content>`
		b, err := zipOf(ms)
		return b, ".odt", err
	case "xlsx":
		ms := xlsxMembers()
		// a richer sheet: dimension, several rows, a merge, a shared-strings-free numeric cell
		ms[4].data = `<?xml version="1.0" encoding="UTF-8" standalone="yes"?><worksheet xmlns="http://schemas.openxmlformats.org/spreadsheetml/2006/main"><dimension ref="A1:C3"/><sheetData><row r="1"><c r="A1" t="inlineStr"><is><t>` + c20Token + `</t></is></c><c r="C1"><v>42</v></c></row><row r="3"><c r="B3" t="b"><v>1</v></c></row></sheetData><mergeCells count="1"><mergeCell ref="A1:B2"/></mergeCells></worksheet>`
		b, err := zipOf(ms)
		return b, ".xlsx", err
	case "pptx":
		ms := pptxMembers()
		// a richer slide: bulleted and numbered paragraphs with levels, and a table with spanning cells
		for i := range ms {
			if ms[i].name == "ppt/slides/slide1.xml" {
				ms[i].data = strings.Replace(ms[i].data, `</p:txBody></p:sp>`,
					`<a:p><a:pPr lvl="1"><a:buChar char="-"/></a:pPr><a:r><a:t>item 1</a:t></a:r></a:p>`+
						`<a:p><a:pPr lvl="2"><a:buAutoNum type="arabicPeriod"/></a:pPr><a:r><a:t>item 2</a:t></a:r></a:p>`+
						`<a:p><a:pPr lvl="3"/><a:r><a:t>item 3</a:t></a:r></a:p></p:txBody></p:sp>`+
						`<p:graphicFrame><p:nvGraphicFramePr><p:cNvPr id="4" name="Tbl"/><p:cNvGraphicFramePr/><p:nvPr/></p:nvGraphicFramePr><p:xfrm><a:off x="0" y="0"/><a:ext cx="100" cy="100"/></p:xfrm>`+
						`<a:graphic><a:graphicData uri="http://schemas.openxmlformats.org/drawingml/2006/table"><a:tbl><a:tblGrid><a:gridCol w="100"/><a:gridCol w="100"/><a:gridCol w="100"/></a:tblGrid>`+
						`<a:tr h="10"><a:tc gridSpan="2" rowSpan="2"><a:txBody><a:bodyPr/><a:p><a:r><a:t>a 3</a:t></a:r></a:p></a:txBody></a:tc><a:tc hMerge="1"><a:txBody><a:bodyPr/><a:p/></a:txBody></a:tc><a:tc><a:txBody><a:bodyPr/><a:p><a:r><a:t>b</a:t></a:r></a:p></a:txBody></a:tc></a:tr>`+
						`<a:tr h="10"><a:tc vMerge="1"><a:txBody><a:bodyPr/><a:p/></a:txBody></a:tc><a:tc hMerge="1" vMerge="1"><a:txBody><a:bodyPr/><a:p/></a:txBody></a:tc><a:tc><a:txBody><a:bodyPr/><a:p><a:r><a:t>d 4</a:t></a:r></a:p></a:txBody></a:tc></a:tr>`+
						`</a:tbl></a:graphicData></a:graphic></p:graphicFrame>`, 1)
			}
		}
		b, err := zipOf(ms)
		return b, ".pptx", err
	case "epub":
		b, err := zipOf(epubMembers(epubCfg{}))
		return b, ".epub", err
	case "html":
		return []byte(`<!DOCTYPE html><html><head><title>t</title><style>p{}</style></head><body><nav><a href="#">n</a></nav><h1>Head 1</h1><p>para &amp; text ` + c20Token +
			`</p><ul><li>one<ul><li>nested 2</li></ul></li><li>two</li></ul><table><tr><th colspan="2">h</th></tr><tr><td rowspan="2">a</td><td>b 3</td></tr><tr><td>c</td></tr></table><pre>code 4</pre></body></html>`), ".html", nil
	}
	return nil, "", fmt.Errorf("unknown format %s", f)
}

// ------------------------------------------------------------ an embedded TrueType program

// ttfProgram builds a minimal TrueType font program (offset table, table directory, head / hhea / maxp / hmtx / cmap
// with one format-4 subtable) and the byte offsets and widths of its numeric fields. fault(i, width) may return a
// replacement for field i (big-endian, width bytes).
func ttfProgram(fault func(i int, width int) []byte) ([]byte, int) {
	be16 := func(v int) []byte { return []byte{byte(v >> 8), byte(v)} }
	be32 := func(v int) []byte { return []byte{byte(v >> 24), byte(v >> 16), byte(v >> 8), byte(v)} }
	type field struct{ off, w int }
	var fields []field
	head := make([]byte, 54)
	copy(head[0:], be32(0x00010000))
	copy(head[12:], be32(0x5F0F3CF5))
	copy(head[18:], be16(1000)) // unitsPerEm
	hhea := make([]byte, 36)
	copy(hhea[0:], be32(0x00010000))
	copy(hhea[34:], be16(3)) // numberOfHMetrics
	maxp := append(be32(0x00005000), be16(3)...)
	var hmtx []byte
	for _, w := range []int{500, 600, 700} {
		hmtx = append(append(hmtx, be16(w)...), be16(0)...)
	}
	// cmap: version, numTables, (platform 3, encoding 1, offset 12), format 4 with two segments [0x41..0x43], [0xFFFF]
	var cm []byte
	cm = append(cm, be16(0)...)
	cm = append(cm, be16(1)...)
	cm = append(cm, be16(3)...)
	cm = append(cm, be16(1)...)
	cm = append(cm, be32(12)...)
	sub := [][]byte{be16(4), be16(32), be16(0), be16(4), be16(4), be16(1), be16(0),
		be16(0x43), be16(0xFFFF), be16(0), be16(0x41), be16(0xFFFF), be16(0), be16(1), be16(0), be16(0)}
	for _, x := range sub {
		cm = append(cm, x...)
	}
	tabs := []struct {
		tag  string
		data []byte
	}{{"cmap", cm}, {"head", head}, {"hhea", hhea}, {"hmtx", hmtx}, {"maxp", maxp}}
	dirLen := 12 + 16*len(tabs)
	var out []byte
	out = append(out, be32(0x00010000)...)
	out = append(out, be16(len(tabs))...)
	out = append(out, be16(64)...)
	out = append(out, be16(2)...)
	out = append(out, be16(16)...)
	fields = append(fields, field{0, 4}, field{4, 2}, field{6, 2}, field{8, 2}, field{10, 2})
	off := dirLen
	var body []byte
	starts := map[string]int{}
	for _, t := range tabs {
		pos := len(out)
		out = append(out, []byte(t.tag)...)
		out = append(out, be32(0)...)
		out = append(out, be32(off)...)
		out = append(out, be32(len(t.data))...)
		fields = append(fields, field{pos + 4, 4}, field{pos + 8, 4}, field{pos + 12, 4})
		starts[t.tag] = off
		body = append(body, t.data...)
		for len(body)%4 != 0 {
			body = append(body, 0)
		}
		off = dirLen + len(body)
	}
	out = append(out, body...)
	// fields inside the tables the reader looks at
	for k := 0; k < 2; k++ {
		fields = append(fields, field{starts["cmap"] + 2*k, 2})
	}
	fields = append(fields, field{starts["cmap"] + 4, 2}, field{starts["cmap"] + 6, 2}, field{starts["cmap"] + 8, 4})
	for k := 0; k < len(sub); k++ {
		fields = append(fields, field{starts["cmap"] + 12 + 2*k, 2})
	}
	fields = append(fields, field{starts["head"] + 18, 2}, field{starts["hhea"] + 34, 2}, field{starts["maxp"] + 4, 2})
	for k := 0; k < 6; k++ {
		fields = append(fields, field{starts["hmtx"] + 2*k, 2})
	}
	if fault != nil {
		for i, f := range fields {
			if r := fault(i, f.w); r != nil {
				copy(out[f.off:f.off+f.w], r)
			}
		}
	}
	return out, len(fields)
}

// ttfDoc: one page set in a TrueType font whose program is embedded (/FontFile2, Flate)
func ttfDoc(fault func(i int, width int) []byte) ([]byte, int, error) {
	prog, n := ttfProgram(fault)
	b, err := ttfDocWith(prog)
	return b, n, err
}

// ttfSegmentsProgram: a font program whose cmap format-4 subtable has n segments, each covering 0..0xFFFF
// (66 KB of 0xFF and 0x00 bytes that deflate to about a hundred)
func ttfSegmentsProgram(n int) []byte {
	be16 := func(v int) []byte { return []byte{byte(v >> 8), byte(v)} }
	be32 := func(v int) []byte { return []byte{byte(v >> 24), byte(v >> 16), byte(v >> 8), byte(v)} }
	head := make([]byte, 54)
	copy(head[18:], be16(1000))
	var cm []byte
	for _, x := range [][]byte{be16(0), be16(1), be16(3), be16(1), be32(12), be16(4), be16(0), be16(0), be16(2 * n), make([]byte, 6)} {
		cm = append(cm, x...)
	}
	for i := 0; i < n; i++ {
		cm = append(cm, 0xFF, 0xFF)
	}
	cm = append(cm, 0, 0)
	cm = append(cm, make([]byte, 2*n)...)
	tabs := []struct {
		tag  string
		data []byte
	}{{"cmap", cm}, {"head", head}}
	var out, body []byte
	out = append(out, be32(0x00010000)...)
	out = append(out, be16(len(tabs))...)
	out = append(out, make([]byte, 6)...)
	off := 12 + 16*len(tabs)
	for _, t := range tabs {
		out = append(out, []byte(t.tag)...)
		out = append(out, be32(0)...)
		out = append(out, be32(off)...)
		out = append(out, be32(len(t.data))...)
		body = append(body, t.data...)
		off += len(t.data)
	}
	return append(out, body...)
}

// ttfDocStreams: the TrueType document with the payloads of its two streams (page content, font program) passed through hook
func ttfDocStreams(hook func(raw []byte, binary bool) []byte) ([]byte, int, error) {
	prog, _ := ttfProgram(nil)
	ttfContentHook = func(raw []byte) []byte { return hook(raw, false) }
	defer func() { ttfContentHook = nil }()
	b, err := ttfDocWith(hook(prog, true))
	return b, 0, err
}

var ttfContentHook func(raw []byte) []byte

func ttfContent() []byte {
	// the text sits in a marked-content sequence whose property list is a dictionary operand
	raw := []byte("/P << /MCID 0 /Lang (en) >> BDC BT /F1 12 Tf 20 100 Td (ABC " + c20Token + ") Tj ET EMC")
	if ttfContentHook != nil {
		raw = ttfContentHook(raw)
	}
	return raw
}

func ttfDocWith(prog []byte) ([]byte, error) {
	f := &pdfw.File{EOL: "lf"}
	f.Revs = []pdfw.Revision{{XRef: "table", Root: pdfw.Ref{Num: 1}, Items: []pdfw.Item{
		{Num: 1, Val: pdfw.Dict{{"Type", pdfw.Name("Catalog")}, {"Pages", pdfw.Ref{Num: 2}}}},
		{Num: 2, Val: pdfw.Dict{{"Type", pdfw.Name("Pages")}, {"Kids", pdfw.Arr{pdfw.Ref{Num: 3}}}, {"Count", pdfw.Int(1)}}},
		{Num: 3, Val: pdfw.Dict{{"Type", pdfw.Name("Page")}, {"Parent", pdfw.Ref{Num: 2}}, {"MediaBox", pdfw.Arr{pdfw.Int(0), pdfw.Int(0), pdfw.Int(300), pdfw.Int(300)}},
			{"Resources", pdfw.Dict{{"Font", pdfw.Dict{{"F1", pdfw.Ref{Num: 5}}}}}}, {"Contents", pdfw.Ref{Num: 4}}}},
		{Num: 4, Stm: &pdfw.Stream{Data: ttfContent()}},
		{Num: 5, Val: pdfw.Dict{{"Type", pdfw.Name("Font")}, {"Subtype", pdfw.Name("TrueType")}, {"BaseFont", pdfw.Name("ABCDEF+Verif")}, {"FirstChar", pdfw.Int(65)}, {"LastChar", pdfw.Int(67)},
			{"Widths", pdfw.Arr{pdfw.Int(500), pdfw.Int(600), pdfw.Int(700)}}, {"Encoding", pdfw.Name("WinAnsiEncoding")}, {"FontDescriptor", pdfw.Ref{Num: 6}}}},
		{Num: 6, Val: pdfw.Dict{{"Type", pdfw.Name("FontDescriptor")}, {"FontName", pdfw.Name("ABCDEF+Verif")}, {"Flags", pdfw.Int(32)},
			{"FontBBox", pdfw.Arr{pdfw.Int(0), pdfw.Int(-200), pdfw.Int(1000), pdfw.Int(800)}}, {"ItalicAngle", pdfw.Int(0)}, {"Ascent", pdfw.Int(800)}, {"Descent", pdfw.Int(-200)},
			{"CapHeight", pdfw.Int(700)}, {"StemV", pdfw.Int(80)}, {"FontFile2", pdfw.Ref{Num: 7}}}},
		{Num: 7, Stm: &pdfw.Stream{Dict: pdfw.Dict{{"Filter", pdfw.Name("FlateDecode")}, {"Length1", pdfw.Int(len(prog))}}, Data: pdfw.Deflate(prog)}}}}}
	b, _, err := f.Bytes()
	return b, err
}

// ------------------------------------------------------------ fault application

var reStreamBody = regexp.MustCompile(`(?s)stream\r?\n.*?endstream`)
var reInt = regexp.MustCompile(`[0-9]+`)
var reRef = regexp.MustCompile(`([0-9]+) 0 R`)
var reObj = regexp.MustCompile(`(?s)[0-9]+ 0 obj.*?endobj\r?\n?`)

// spans of the file that are not stream bodies
func outsideStreams(b []byte) [][2]int {
	var out [][2]int
	last := 0
	for _, m := range reStreamBody.FindAllIndex(b, -1) {
		out = append(out, [2]int{last, m[0] + 6})
		last = m[1] - 9
	}
	return append(out, [2]int{last, len(b)})
}

func pick(n, site, k int) int {
	if n == 0 {
		return -1
	}
	if k <= 0 {
		return site % n
	}
	i := site * n / k
	if i >= n {
		i = n - 1
	}
	return i
}

// sitesPDF returns the number of sites of a fault kind in b
func pdfSites(b []byte, kind string) [][2]int {
	var s [][2]int
	switch kind {
	case "truncate":
		for _, sp := range outsideStreams(b) {
			for i := sp[0] + 1; i < sp[1]; i++ {
				if (b[i-1] == ' ' || b[i-1] == '\n' || b[i-1] == '\r') && !(b[i] == ' ' || b[i] == '\n' || b[i] == '\r') {
					s = append(s, [2]int{i, i})
				}
			}
		}
	case "unbalance":
		for _, sp := range outsideStreams(b) {
			for i := sp[0]; i < sp[1]; i++ {
				switch b[i] {
				case '[', ']', '(', ')':
					s = append(s, [2]int{i, i + 1})
				case '<', '>':
					if i+1 < sp[1] && b[i+1] == b[i] {
						s = append(s, [2]int{i, i + 2})
						i++
					} else {
						s = append(s, [2]int{i, i + 1})
					}
				}
			}
		}
	case "number":
		for _, sp := range outsideStreams(b) {
			for _, m := range reInt.FindAllIndex(b[sp[0]:sp[1]], -1) {
				s = append(s, [2]int{sp[0] + m[0], sp[0] + m[1]})
			}
		}
	case "retarget":
		for _, sp := range outsideStreams(b) {
			for _, m := range reRef.FindAllSubmatchIndex(b[sp[0]:sp[1]], -1) {
				s = append(s, [2]int{sp[0] + m[2], sp[0] + m[3]})
			}
		}
	case "dropobj", "dupobj":
		for _, m := range reObj.FindAllIndex(b, -1) {
			s = append(s, [2]int{m[0], m[1]})
		}
	case "corruptstream":
		for _, m := range reStreamBody.FindAllIndex(b, -1) {
			s = append(s, [2]int{m[0] + 8, m[1] - 10})
		}
	}
	return s
}

func applyPDF(b []byte, f rFault, k int) []byte {
	sites := pdfSites(b, f.Kind)
	i := pick(len(sites), f.Site, k)
	if i < 0 {
		return b
	}
	lo, hi := sites[i][0], sites[i][1]
	switch f.Kind {
	case "truncate":
		return append([]byte{}, b[:lo]...)
	case "unbalance":
		return append(append([]byte{}, b[:lo]...), b[hi:]...)
	case "number":
		return append(append(append([]byte{}, b[:lo]...), []byte(f.Param)...), b[hi:]...)
	case "retarget":
		target := "99999"
		switch f.Param {
		case "self":
			// the object this reference sits in
			ms := reObj.FindAllIndex(b, -1)
			for _, m := range ms {
				if m[0] <= lo && lo < m[1] {
					target = string(reInt.Find(b[m[0]:m[1]]))
				}
			}
		case "ancestor":
			if m := regexp.MustCompile(`([0-9]+) 0 obj\r?\n<< /Type /Pages`).FindSubmatch(b); m != nil {
				target = string(m[1])
			} else if m := regexp.MustCompile(`/Root ([0-9]+) 0 R`).FindSubmatch(b); m != nil {
				target = string(m[1])
			}
		}
		return append(append(append([]byte{}, b[:lo]...), []byte(target)...), b[hi:]...)
	case "dropobj":
		return append(append([]byte{}, b[:lo]...), b[hi:]...)
	case "dupobj":
		return append(append(append([]byte{}, b[:hi]...), b[lo:hi]...), b[hi:]...)
	case "corruptstream":
		out := append([]byte{}, b...)
		for j := lo; j < hi; j++ {
			if (j-lo)%3 == 1 {
				out[j] ^= 0xA5
			}
		}
		return out
	}
	return b
}

type zmem struct {
	name string
	data []byte
}

func readZip(b []byte) ([]zmem, error) {
	zr, err := zip.NewReader(bytes.NewReader(b), int64(len(b)))
	if err != nil {
		return nil, err
	}
	var ms []zmem
	for _, f := range zr.File {
		rc, err := f.Open()
		if err != nil {
			return nil, err
		}
		d, _ := io.ReadAll(rc)
		rc.Close()
		ms = append(ms, zmem{f.Name, d})
	}
	return ms, nil
}

func writeZip(ms []zmem) []byte {
	var buf bytes.Buffer
	zw := zip.NewWriter(&buf)
	for _, m := range ms {
		h := &zip.FileHeader{Name: m.name, Method: zip.Deflate}
		if m.name == "mimetype" {
			h.Method = zip.Store
		}
		w, _ := zw.CreateHeader(h)
		w.Write(m.data)
	}
	zw.Close()
	return buf.Bytes()
}

func isXMLMember(n string) bool {
	return strings.HasSuffix(n, ".xml") || strings.HasSuffix(n, ".rels") || strings.HasSuffix(n, ".opf") || strings.HasSuffix(n, ".xhtml") || strings.HasSuffix(n, ".xht") || strings.HasSuffix(n, ".ncx")
}

func applyZip(b []byte, f rFault, k int) []byte {
	ms, err := readZip(b)
	if err != nil {
		return applyText(b, f, k) // already broken by an earlier fault: damage the raw bytes
	}
	type site struct{ m, lo, hi int }
	var sites []site
	switch f.Kind {
	case "truncate":
		// even selectors cut the archive bytes, odd ones cut a member's content
		if f.Site%2 == 0 {
			cut := 1 + pick(len(b)-1, f.Site, k)
			return append([]byte{}, b[:cut]...)
		}
		for mi, m := range ms {
			for c := 1; c < len(m.data); c += 1 + len(m.data)/8 {
				sites = append(sites, site{mi, c, c})
			}
		}
		i := pick(len(sites), f.Site, k)
		if i < 0 {
			return b
		}
		ms[sites[i].m].data = ms[sites[i].m].data[:sites[i].lo]
		return writeZip(ms)
	case "unbalance", "number":
		for mi, m := range ms {
			if !isXMLMember(m.name) {
				continue
			}
			if f.Kind == "unbalance" {
				for c, ch := range m.data {
					if ch == '<' || ch == '>' || ch == '"' {
						sites = append(sites, site{mi, c, c + 1})
					}
				}
			} else {
				for _, x := range reInt.FindAllIndex(m.data, -1) {
					sites = append(sites, site{mi, x[0], x[1]})
				}
			}
		}
		i := pick(len(sites), f.Site, k)
		if i < 0 {
			return b
		}
		s := sites[i]
		d := ms[s.m].data
		rep := []byte{}
		if f.Kind == "number" {
			rep = []byte(f.Param)
		}
		ms[s.m].data = append(append(append([]byte{}, d[:s.lo]...), rep...), d[s.hi:]...)
		return writeZip(ms)
	case "dropmember":
		i := pick(len(ms), f.Site, k)
		return writeZip(append(append([]zmem{}, ms[:i]...), ms[i+1:]...))
	case "dupmember":
		i := pick(len(ms), f.Site, k)
		return writeZip(append(append([]zmem{}, ms...), ms[i]))
	case "corruptstream":
		// flip bytes inside the compressed data of one member (after its local header)
		i := pick(len(ms), f.Site, k)
		idx := bytes.Index(b, []byte(ms[i].name))
		if idx < 0 {
			return b
		}
		out := append([]byte{}, b...)
		start := idx + len(ms[i].name)
		for j := start; j < start+40 && j < len(out); j++ {
			if (j-start)%2 == 0 {
				out[j] ^= 0x5A
			}
		}
		return out
	}
	return b
}

func applyText(b []byte, f rFault, k int) []byte {
	switch f.Kind {
	case "truncate":
		if len(b) < 2 {
			return b
		}
		return append([]byte{}, b[:1+pick(len(b)-1, f.Site, k)]...)
	case "unbalance":
		var s []int
		for i, ch := range b {
			if ch == '<' || ch == '>' || ch == '"' {
				s = append(s, i)
			}
		}
		i := pick(len(s), f.Site, k)
		if i < 0 {
			return b
		}
		return append(append([]byte{}, b[:s[i]]...), b[s[i]+1:]...)
	case "number":
		ms := reInt.FindAllIndex(b, -1)
		i := pick(len(ms), f.Site, k)
		if i < 0 {
			return b
		}
		return append(append(append([]byte{}, b[:ms[i][0]]...), []byte(f.Param)...), b[ms[i][1]:]...)
	}
	return b
}

// "instream" faults: numeric fields that sit inside encoded streams - the "number offset" pairs of every
// object-stream header and the fields of every cross-reference-stream row. The document is rebuilt by the
// writer with that one field replaced (the rest of the file stays consistent), so these faults are applied
// to the base document only, before any textual fault. Returns the damaged file and the number of sites.
func instreamDoc(fmtName string, site int, param string) ([]byte, int, error) {
	if fmtName == "pdf-ttf" {
		// the numeric fields of the embedded font program (offset table, table directory, cmap, hhea, head, maxp, hmtx)
		return ttfDoc(func(i, width int) []byte {
			if i != site {
				return nil
			}
			r := make([]byte, width)
			for j := range r {
				switch param {
				case "0":
					r[j] = 0
				case "-1":
					r[j] = 0xFF
				case "2147483648":
					if j == 0 {
						r[j] = 0x80
					}
				default:
					r[j] = 0xFF
					if j == 0 {
						r[j] = 0x7F
					}
				}
			}
			return r
		})
	}
	n := 0
	pdfw.PayloadFault = func(kind string, num int, payload []byte, w [3]int) []byte {
		switch kind {
		case "objstm":
			ms := reInt.FindAllIndex(payload, -1)
			var out []byte
			last := 0
			for _, m := range ms {
				if n == site {
					out = append(append(out, payload[last:m[0]]...), []byte(param)...)
					last = m[1]
				}
				n++
			}
			return append(out, payload[last:]...)
		case "xref":
			cols := w[0] + w[1] + w[2]
			if cols == 0 {
				return payload
			}
			for row := 0; (row+1)*cols <= len(payload); row++ {
				off := row * cols
				for fi := 0; fi < 3; fi++ {
					if w[fi] > 0 {
						if n == site {
							fld := payload[off : off+w[fi]]
							for j := range fld {
								switch param {
								case "0":
									fld[j] = 0
								case "-1":
									fld[j] = 0xFF
								case "2147483648":
									fld[j] = 0
									if j == 0 {
										fld[j] = 0x80
									}
								default:
									fld[j] = 0xFF
									if j == 0 {
										fld[j] = 0x7F
									}
								}
							}
						}
						n++
					}
					off += w[fi]
				}
			}
		}
		return payload
	}
	defer func() { pdfw.PayloadFault = nil }()
	b, _, err := c02BaseDoc(fmtName)
	return b, n, err
}

// "field" faults: one integer rendered by the writer (a number of the document or one the writer computes:
// /Length, /N, /First, /Size, /W, /Index, /Count, /Columns ...) is replaced BEFORE the file is laid out, so
// every offset and length stays consistent with the bytes written and exactly that field is wrong - unlike
// the textual "number" fault, whose longer spellings move everything behind them.
func fieldDoc(fmtName string, site int, param string) ([]byte, int, error) {
	n := 0
	pdfw.IntFault = func(v int64) (string, bool) {
		n++
		if n-1 == site {
			return param, true
		}
		return "", false
	}
	defer func() { pdfw.IntFault = nil }()
	b, _, err := c02BaseDoc(fmtName)
	return b, n, err
}

// "payload" faults: what sits inside one stream (a page content part, a ToUnicode program, the embedded font program)
// is damaged at a token boundary - cut there ("cut"), cut with a white-space character left behind ("cutsp": the
// operand or section is open and the scanner has skipped to the end), or one token removed ("drop") - and the file
// is laid out around the damaged payload: filters, /Length, offsets and the cross-reference data are those of a
// well-formed file. Sites are the token boundaries of all payloads in writing order.
func payloadBoundaries(raw []byte, binary bool) []int {
	if binary {
		// a font program: every 16-bit boundary
		var out []int
		for p := 0; p <= len(raw); p += 2 {
			out = append(out, p)
		}
		return out
	}
	isSep := func(c byte) bool {
		switch c {
		case ' ', '\n', '\r', '\t', '<', '>', '[', ']', '(', ')', '/':
			return true
		}
		return false
	}
	var out []int
	for p := 0; p <= len(raw); p++ {
		if p == 0 || p == len(raw) || isSep(raw[p-1]) != isSep(raw[p]) || (isSep(raw[p]) && raw[p] != ' ') {
			out = append(out, p)
		}
	}
	return out
}

func payloadDamage(raw []byte, at int, bs []int, param string) []byte {
	p := bs[at]
	if strings.HasPrefix(param, "num=") {
		// the number that starts at this boundary (an operand of the content stream, a count or code of a CMap program)
		// replaced by an extreme value
		end := len(raw)
		if at+1 < len(bs) {
			end = bs[at+1]
		}
		tok := raw[p:end]
		if len(tok) == 0 || !regexp.MustCompile(`^-?[0-9]+$`).Match(tok) {
			return raw
		}
		return append(append(append([]byte{}, raw[:p]...), []byte(param[4:])...), raw[end:]...)
	}
	switch param {
	case "cutsp":
		return append(append([]byte{}, raw[:p]...), ' ')
	case "drop":
		end := len(raw)
		if at+1 < len(bs) {
			end = bs[at+1]
		}
		return append(append([]byte{}, raw[:p]...), raw[end:]...)
	}
	return append([]byte{}, raw[:p]...)
}

func payloadDoc(fmtName string, site int, param string) ([]byte, int, error) {
	n := 0
	hook := func(raw []byte, binary bool) []byte {
		bs := payloadBoundaries(raw, binary)
		start := n
		n += len(bs)
		if site >= start && site < n {
			return payloadDamage(raw, site-start, bs, param)
		}
		return raw
	}
	if fmtName == "pdf-ttf" {
		b, _, err := ttfDocStreams(hook)
		return b, n, err
	}
	pdfdoc.RawFault = func(raw []byte) []byte { return hook(raw, false) }
	defer func() { pdfdoc.RawFault = nil }()
	b, _, err := c02BaseDoc(fmtName)
	return b, n, err
}

func applyFault(fmtName string, b []byte, f rFault, k int) []byte {
	if f.Kind == "payload" {
		_, n, err := payloadDoc(fmtName, -1, "")
		if err != nil || n == 0 {
			return b
		}
		nb, _, err := payloadDoc(fmtName, pick(n, f.Site, k), f.Param)
		if err != nil {
			return b
		}
		return nb
	}
	if f.Kind == "field" {
		_, n, err := fieldDoc(fmtName, -1, "")
		if err != nil || n == 0 {
			return b
		}
		nb, _, err := fieldDoc(fmtName, pick(n, f.Site, k), f.Param)
		if err != nil {
			return b
		}
		return nb
	}
	if f.Kind == "instream" {
		_, n, err := instreamDoc(fmtName, -1, "")
		if err != nil || n == 0 {
			return b
		}
		nb, _, err := instreamDoc(fmtName, pick(n, f.Site, k), f.Param)
		if err != nil {
			return b
		}
		return nb
	}
	switch {
	case strings.HasPrefix(fmtName, "pdf"):
		return applyPDF(b, f, k)
	case fmtName == "html":
		return applyText(b, f, k)
	}
	return applyZip(b, f, k)
}

// number of sites of a fault kind (for "all" iteration)
func siteCount(fmtName string, b []byte, kind string) int {
	if kind == "instream" {
		_, n, _ := instreamDoc(fmtName, -1, "")
		return n
	}
	if kind == "field" {
		_, n, _ := fieldDoc(fmtName, -1, "")
		return n
	}
	if kind == "payload" {
		_, n, _ := payloadDoc(fmtName, -1, "")
		return n
	}
	if strings.HasPrefix(fmtName, "pdf") {
		return len(pdfSites(b, kind))
	}
	if fmtName == "html" {
		switch kind {
		case "number":
			return len(reInt.FindAllIndex(b, -1))
		case "unbalance":
			n := 0
			for _, ch := range b {
				if ch == '<' || ch == '>' || ch == '"' {
					n++
				}
			}
			return n
		}
		return len(b)
	}
	ms, err := readZip(b)
	if err != nil {
		return 1
	}
	n := 0
	for _, m := range ms {
		if !isXMLMember(m.name) {
			continue
		}
		switch kind {
		case "number":
			n += len(reInt.FindAllIndex(m.data, -1))
		case "unbalance":
			for _, ch := range m.data {
				if ch == '<' || ch == '>' || ch == '"' {
					n++
				}
			}
		}
	}
	if kind == "dropmember" || kind == "dupmember" || kind == "corruptstream" {
		n = len(ms)
	}
	if n == 0 {
		n = 1
	}
	return n
}

// ------------------------------------------------------------ entry points

func runEntries(path string, data []byte) []callOutcome {
	var out []callOutcome
	out = append(out, guarded("Detect", func() error {
		_, err := format.DetectFromReader(bytes.NewReader(data), int64(len(data)))
		return err
	}))
	out = append(out, guarded("PageCount", func() error { _, err := tabula.Open(path).PageCount(); return err }))
	out = append(out, guarded("Text", func() error { _, _, err := tabula.Open(path).Text(); return err }))
	out = append(out, guarded("ToMarkdown", func() error { _, _, err := tabula.Open(path).ToMarkdown(); return err }))
	out = append(out, guarded("Document", func() error { _, _, err := tabula.Open(path).Document(); return err }))
	out = append(out, guarded("Chunks", func() error { _, _, err := tabula.Open(path).Chunks(); return err }))
	out = append(out, guarded("Fragments", func() error { _, _, err := tabula.Open(path).Fragments(); return err }))
	out = append(out, guarded("Lines", func() error { _, err := tabula.Open(path).Lines(); return err }))
	out = append(out, guarded("Analyze", func() error { _, err := tabula.Open(path).Analyze(); return err }))
	out = append(out, guarded("IsCharacterLevel", func() error { _, err := tabula.Open(path).IsCharacterLevel(); return err }))
	out = append(out, guarded("ExcludeHF", func() error { _, _, err := tabula.Open(path).ExcludeHeadersAndFooters().Text(); return err }))
	if strings.HasSuffix(path, ".pdf") {
		// the text modes and the remaining layout views: every one has a page loop and a renderer of its own
		out = append(out, guarded("PreserveLayout", func() error { _, _, err := tabula.Open(path).PreserveLayout().Text(); return err }))
		out = append(out, guarded("ByColumn", func() error { _, _, err := tabula.Open(path).ByColumn().Text(); return err }))
		out = append(out, guarded("JoinParagraphs", func() error { _, _, err := tabula.Open(path).JoinParagraphs().Text(); return err }))
		out = append(out, guarded("ReadingOrder", func() error { _, err := tabula.Open(path).ReadingOrder(); return err }))
		out = append(out, guarded("Paragraphs", func() error { _, err := tabula.Open(path).Paragraphs(); return err }))
		out = append(out, guarded("LayoutViews", func() error {
			_, e1 := tabula.Open(path).Headings()
			_, e2 := tabula.Open(path).Lists()
			_, e3 := tabula.Open(path).Blocks()
			_, e4 := tabula.Open(path).IsMultiColumn()
			for _, e := range []error{e1, e2, e3, e4} {
				if e != nil {
					return e
				}
			}
			return nil
		}))
		out = append(out, guarded("ResolveDeep", func() error {
			rd, err := reader.Open(path)
			if err != nil {
				return err
			}
			defer rd.Close()
			n := rd.NumObjects()
			if n > 200 {
				n = 200
			}
			var last error
			for i := 1; i < n; i++ {
				o, err := rd.GetObject(i)
				if err != nil {
					last = err
					continue
				}
				if _, err := rd.ResolveDeep(o); err != nil {
					last = err
				}
			}
			return last
		}))
	}
	if strings.HasSuffix(path, ".html") {
		out = append(out, guarded("FromHTMLString", func() error { _, _, err := tabula.FromHTMLString(string(data)).Text(); return err }))
	}
	return out
}

// ------------------------------------------------------------ graph cases

// graphPDFs renders a reference graph three ways: as a /Kids tree, as a /Prev
// chain (when every node has at most one successor) and as a dictionary graph
// for ResolveDeep.
func graphPDFs(g [][]int) (map[string][]byte, error) {
	out := map[string][]byte{}
	n := len(g)
	// (i) page tree: node i is object 10+i, a Pages node whose Kids are its successors; a node without
	// successors gets one leaf page as kid
	f := &pdfw.File{EOL: "lf"}
	rev := pdfw.Revision{XRef: "table", Root: pdfw.Ref{Num: 1}}
	items := []pdfw.Item{{Num: 1, Val: pdfw.Dict{{"Type", pdfw.Name("Catalog")}, {"Pages", pdfw.Ref{Num: 11}}}},
		{Num: 2, Val: pdfw.Dict{{"Type", pdfw.Name("Page")}, {"Parent", pdfw.Ref{Num: 11}}, {"MediaBox", pdfw.Arr{pdfw.Int(0), pdfw.Int(0), pdfw.Int(100), pdfw.Int(100)}}}}}
	for i := 0; i < n; i++ {
		kids := pdfw.Arr{}
		for _, s := range g[i] {
			kids = append(kids, pdfw.Ref{Num: 10 + s})
		}
		if len(kids) == 0 {
			kids = append(kids, pdfw.Ref{Num: 2})
		}
		items = append(items, pdfw.Item{Num: 11 + i, Val: pdfw.Dict{{"Type", pdfw.Name("Pages")}, {"Kids", kids}, {"Count", pdfw.Int(1)},
			{"Self", pdfw.Ref{Num: 11 + i}}, {"Link", pdfw.Dict{{"To", kids}}}}})
	}
	rev.Items = items
	f.Revs = []pdfw.Revision{rev}
	b, _, err := f.Bytes()
	if err != nil {
		return nil, err
	}
	out["kids"] = b
	// (iii) form XObjects: node i is a form whose content invokes its successors (cycles = forms invoking themselves
	// or each other; the nesting limit must end them); "forms-bad": every form first invokes a form whose content
	// stream does not parse, "forms-empty": one whose content is empty - a failing sibling must not disturb the limit
	// "forms-fan": every successor is invoked four times (the nesting limit alone leaves fan-out^depth invocations)
	for _, variant := range []string{"forms", "forms-bad", "forms-empty", "forms-fan"} {
		if variant == "forms-fan" && tier() == "quick" {
			// every call on such a file runs into the invocation budget (about 2 s each): in the quick tier only the
			// self-invoking form, the two-form cycle and the complete graph are rendered this way
			key := fmt.Sprint(g)
			if key != "[[1] [] []]" && key != "[[2] [1] []]" && key != "[[1 2 3] [1 2 3] [1 2 3]]" {
				continue
			}
		}
		ff := &pdfw.File{EOL: "lf"}
		xo := pdfw.Dict{}
		for i := 0; i < n; i++ {
			xo = append(xo, pdfw.KV{K: fmt.Sprintf("X%d", i+1), V: pdfw.Ref{Num: 21 + i}})
		}
		xo = append(xo, pdfw.KV{K: "XB", V: pdfw.Ref{Num: 20}})
		res := pdfw.Dict{{"XObject", xo}, {"Font", pdfw.Dict{{"F1", pdfw.Ref{Num: 5}}}}}
		form := func(body string) *pdfw.Stream {
			return &pdfw.Stream{Dict: pdfw.Dict{{"Type", pdfw.Name("XObject")}, {"Subtype", pdfw.Name("Form")}, {"BBox", pdfw.Arr{pdfw.Int(0), pdfw.Int(0), pdfw.Int(100), pdfw.Int(100)}},
				{"Resources", res}}, Data: []byte(body)}
		}
		its := []pdfw.Item{{Num: 1, Val: pdfw.Dict{{"Type", pdfw.Name("Catalog")}, {"Pages", pdfw.Ref{Num: 2}}}},
			{Num: 2, Val: pdfw.Dict{{"Type", pdfw.Name("Pages")}, {"Kids", pdfw.Arr{pdfw.Ref{Num: 3}}}, {"Count", pdfw.Int(1)}}},
			{Num: 3, Val: pdfw.Dict{{"Type", pdfw.Name("Page")}, {"Parent", pdfw.Ref{Num: 2}}, {"MediaBox", pdfw.Arr{pdfw.Int(0), pdfw.Int(0), pdfw.Int(100), pdfw.Int(100)}},
				{"Resources", res}, {"Contents", pdfw.Ref{Num: 4}}}},
			{Num: 4, Stm: &pdfw.Stream{Data: []byte("BT /F1 10 Tf 5 5 Td (page) Tj ET /X1 Do")}},
			{Num: 5, Val: pdfw.Dict{{"Type", pdfw.Name("Font")}, {"Subtype", pdfw.Name("Type1")}, {"BaseFont", pdfw.Name("Helvetica")}}}}
		bad := "BT (form B) Tj ET ) ]"
		if variant == "forms-empty" {
			bad = ""
		}
		its = append(its, pdfw.Item{Num: 20, Stm: form(bad)})
		for i := 0; i < n; i++ {
			body := fmt.Sprintf("BT /F1 10 Tf 5 %d Td (form %d) Tj ET ", 20+10*i, i+1)
			if variant == "forms-bad" || variant == "forms-empty" {
				body += "/XB Do "
			}
			reps := 1
			if variant == "forms-fan" {
				reps = 4
			}
			for _, sx := range g[i] {
				body += strings.Repeat(fmt.Sprintf("/X%d Do ", sx), reps)
			}
			its = append(its, pdfw.Item{Num: 21 + i, Stm: form(body)})
		}
		ff.Revs = []pdfw.Revision{{XRef: "table", Root: pdfw.Ref{Num: 1}, Items: its}}
		fb, _, err := ff.Bytes()
		if err != nil {
			return nil, err
		}
		out[variant] = fb
	}
	// (ii) /Prev chain: sections 1..n, section i's /Prev points at the section of its (single) successor
	single := true
	for _, s := range g {
		if len(s) > 1 {
			single = false
		}
	}
	if single {
		// every spelling of an integer offset the syntax allows, and the real-number spelling it does not:
		// all 10 bytes wide, so retargeting an entry never moves an offset
		for _, sp := range [][2]string{{"prev", "%010d"}, {"prev-signed", "+%09d"}, {"prev-real", "%08d.0"}, {"prev-realdot", "%09d."}} {
			f2 := &pdfw.File{EOL: "lf", PrevFormat: sp[1]}
			for i := 0; i < n; i++ {
				r := pdfw.Revision{XRef: "table", Root: pdfw.Ref{Num: 1}}
				if i == 0 {
					r.Items = []pdfw.Item{{Num: 1, Val: pdfw.Dict{{"Type", pdfw.Name("Catalog")}, {"Pages", pdfw.Ref{Num: 2}}}},
						{Num: 2, Val: pdfw.Dict{{"Type", pdfw.Name("Pages")}, {"Kids", pdfw.Arr{}}, {"Count", pdfw.Int(0)}}}}
				} else {
					r.Items = []pdfw.Item{{Num: 2 + i, Val: pdfw.Int(i)}}
				}
				f2.Revs = append(f2.Revs, r)
			}
			b2, lay, err := f2.Bytes()
			if err != nil {
				return nil, err
			}
			// the newest section (read first) is section n; graph node i -> section n+1-i, so that node 1 is the
			// entry point; its /Prev goes to the section of its successor, or is blanked
			secOf := func(node int) int { return n - node } // index into lay.XRefAt
			s := string(b2)
			rePrev := regexp.MustCompile(` /Prev [+0-9.]{10}`)
			for node := 1; node <= n; node++ {
				start := int(lay.XRefAt[secOf(node)])
				end := strings.Index(s[start:], "startxref") + start
				tr := s[start:end]
				loc := rePrev.FindStringIndex(tr)
				if loc == nil {
					return nil, fmt.Errorf("graph writer: no /Prev placeholder in section %d", secOf(node))
				}
				repl := strings.Repeat(" ", loc[1]-loc[0])
				if len(g[node-1]) == 1 {
					repl = " /Prev " + fmt.Sprintf(sp[1], lay.XRefAt[secOf(g[node-1][0])])
				}
				if len(repl) != loc[1]-loc[0] {
					return nil, fmt.Errorf("graph writer: /Prev spelling changes width")
				}
				s = s[:start] + tr[:loc[0]] + repl + tr[loc[1]:] + s[end:]
			}
			out[sp[0]] = []byte(s)
		}
	}
	return out, nil
}

// specialPDFs: reference cycles that run through stream /Length entries.
//
//	lenstm    an object stream whose /Length is an indirect reference to a member of that same
//	          object stream (loading the member needs the stream, parsing the stream needs the member);
//	          variants: the member is the catalog's neighbour / the length holder is the first or last member
//	len2cycle two content streams whose /Length entries refer to each other's stream object
func specialPDFs(kind string) ([][]byte, error) {
	var out [][]byte
	page := func(contents pdfw.Obj) pdfw.Dict {
		return pdfw.Dict{{"Type", pdfw.Name("Page")}, {"Parent", pdfw.Ref{Num: 4}}, {"MediaBox", pdfw.Arr{pdfw.Int(0), pdfw.Int(0), pdfw.Int(200), pdfw.Int(200)}}, {"Contents", contents}}
	}
	switch kind {
	case "lenstm":
		for variant := 0; variant < 2; variant++ {
			members := []pdfw.Member{
				{Num: 3, Val: pdfw.Dict{{"Type", pdfw.Name("Catalog")}, {"Pages", pdfw.Ref{Num: 4}}}},
				{Num: 4, Val: pdfw.Dict{{"Type", pdfw.Name("Pages")}, {"Kids", pdfw.Arr{pdfw.Ref{Num: 5}}}, {"Count", pdfw.Int(1)}}},
				{Num: 5, Val: page(pdfw.Ref{Num: 6})},
			}
			lh := pdfw.Member{Num: 2, Val: pdfw.Int(120)}
			if variant == 0 {
				members = append([]pdfw.Member{lh}, members...)
			} else {
				members = append(members, lh)
			}
			f := &pdfw.File{EOL: "lf"}
			f.Revs = []pdfw.Revision{{XRef: "stream", Root: pdfw.Ref{Num: 3}, XRefNum: 7, W: [3]int{1, 3, 2},
				Items: []pdfw.Item{{Num: 6, Stm: &pdfw.Stream{Data: []byte("BT /F1 12 Tf 10 10 Td (x) Tj ET")}},
					{Num: 1, IsObjStm: true, Members: members, StmLenRef: 2}}}}
			b, _, err := f.Bytes()
			if err != nil {
				return nil, err
			}
			out = append(out, b)
		}
	case "len2cycle":
		f := &pdfw.File{EOL: "lf"}
		f.Revs = []pdfw.Revision{{XRef: "table", Root: pdfw.Ref{Num: 3},
			Items: []pdfw.Item{{Num: 3, Val: pdfw.Dict{{"Type", pdfw.Name("Catalog")}, {"Pages", pdfw.Ref{Num: 4}}}},
				{Num: 4, Val: pdfw.Dict{{"Type", pdfw.Name("Pages")}, {"Kids", pdfw.Arr{pdfw.Ref{Num: 5}}}, {"Count", pdfw.Int(1)}}},
				{Num: 5, Val: page(pdfw.Arr{pdfw.Ref{Num: 6}, pdfw.Ref{Num: 7}})},
				{Num: 6, Stm: &pdfw.Stream{Data: []byte("BT (a) Tj ET "), LengthRef: 7}},
				{Num: 7, Stm: &pdfw.Stream{Data: []byte("BT (b) Tj ET "), LengthRef: 6}}}}}
		b, _, err := f.Bytes()
		if err != nil {
			return nil, err
		}
		out = append(out, b)
	case "count-size-huge":
		// two cooperating field faults: the page count and the trailer /Size are both huge, so a bound on the one that
		// is taken from the other (instead of from what the file actually contains) does not hold
		for _, v := range []int64{1 << 31, 1<<63 - 1} {
			f := &pdfw.File{EOL: "lf", SizeOverride: v}
			f.Revs = []pdfw.Revision{{XRef: "table", Root: pdfw.Ref{Num: 1}, Items: []pdfw.Item{
				{Num: 1, Val: pdfw.Dict{{"Type", pdfw.Name("Catalog")}, {"Pages", pdfw.Ref{Num: 4}}}},
				{Num: 4, Val: pdfw.Dict{{"Type", pdfw.Name("Pages")}, {"Kids", pdfw.Arr{pdfw.Ref{Num: 5}}}, {"Count", pdfw.Int(v)}}},
				{Num: 5, Val: page(pdfw.Ref{Num: 6})},
				{Num: 6, Stm: &pdfw.Stream{Data: []byte("BT /F1 12 Tf 10 10 Td (x) Tj ET")}}}}}
			pdfw.IntFault = func(int64) (string, bool) { return "", false } // (skips the writer's self-audit of a deliberately wrong file)
			b, _, err := f.Bytes()
			pdfw.IntFault = nil
			if err != nil {
				return nil, err
			}
			out = append(out, b)
		}
	case "ttf-segments":
		// an embedded TrueType program whose character map names the whole code range in each of 32767 segments
		b, err := ttfDocWith(ttfSegmentsProgram(32767))
		if err != nil {
			return nil, err
		}
		out = append(out, b)
	case "xref-index-odd", "xref-w000":
		// a cross-reference stream whose /Index has an odd number of entries; one whose entries are zero bytes wide
		// while /Index announces two thousand million of them
		f := &pdfw.File{EOL: "lf"}
		f.Revs = []pdfw.Revision{{XRef: "stream", Root: pdfw.Ref{Num: 1}, XRefNum: 5, W: [3]int{1, 3, 2}, Split: true,
			Items: []pdfw.Item{{Num: 1, Val: pdfw.Dict{{"Type", pdfw.Name("Catalog")}, {"Pages", pdfw.Ref{Num: 2}}}},
				{Num: 2, Val: pdfw.Dict{{"Type", pdfw.Name("Pages")}, {"Kids", pdfw.Arr{pdfw.Ref{Num: 3}}}, {"Count", pdfw.Int(1)}}},
				{Num: 3, Val: page(pdfw.Ref{Num: 4})},
				{Num: 4, Stm: &pdfw.Stream{Data: []byte("BT /F1 12 Tf 10 10 Td (x) Tj ET")}}}}}
		b, _, err := f.Bytes()
		if err != nil {
			return nil, err
		}
		t := string(b)
		re := regexp.MustCompile(`/Index \[([0-9 ]+)\]`)
		m := re.FindStringSubmatch(t)
		if m == nil {
			return nil, fmt.Errorf("special %s: no /Index in the written file", kind)
		}
		// the dictionary of the last object may grow: its own offset (startxref) does not move
		if kind == "xref-index-odd" {
			t = strings.Replace(t, m[0], "/Index ["+m[1]+" 3]", 1)
		} else {
			t = strings.Replace(t, m[0], "/Index [0 2147483647]", 1)
			t = strings.Replace(t, "/W [1 3 2]", "/W [0 0 0]", 1)
		}
		out = append(out, []byte(t))
	case "ladder-kids", "ladder-dict":
		// a reference graph without a cycle that is not a tree either: every level names the next level TWICE. A walk
		// that only refuses its own ancestors visits 2^depth nodes (28 levels here); it has to remember what it has seen
		// or bound its work some other way.
		const depth = 28
		f := &pdfw.File{EOL: "lf"}
		its := []pdfw.Item{{Num: 1, Val: pdfw.Dict{{"Type", pdfw.Name("Catalog")}, {"Pages", pdfw.Ref{Num: 2}}, {"Extra", pdfw.Ref{Num: 100}}}}}
		leaf := pdfw.Dict{{"Type", pdfw.Name("Page")}, {"Parent", pdfw.Ref{Num: 2}}, {"MediaBox", pdfw.Arr{pdfw.Int(0), pdfw.Int(0), pdfw.Int(100), pdfw.Int(100)}}}
		if kind == "ladder-kids" {
			for k := 0; k < depth; k++ {
				next := pdfw.Ref{Num: 3 + k}
				its = append(its, pdfw.Item{Num: 2 + k, Val: pdfw.Dict{{"Type", pdfw.Name("Pages")}, {"Kids", pdfw.Arr{next, next}}, {"Count", pdfw.Int(2)}}})
			}
			its = append(its, pdfw.Item{Num: 2 + depth, Val: leaf}, pdfw.Item{Num: 100, Val: pdfw.Dict{}})
		} else {
			its = append(its, pdfw.Item{Num: 2, Val: pdfw.Dict{{"Type", pdfw.Name("Pages")}, {"Kids", pdfw.Arr{pdfw.Ref{Num: 3}}}, {"Count", pdfw.Int(1)}}}, pdfw.Item{Num: 3, Val: leaf})
			for k := 0; k < depth; k++ {
				next := pdfw.Ref{Num: 101 + k}
				its = append(its, pdfw.Item{Num: 100 + k, Val: pdfw.Dict{{"A", next}, {"B", pdfw.Arr{next, pdfw.Int(k)}}}})
			}
			its = append(its, pdfw.Item{Num: 100 + depth, Val: pdfw.Dict{{"End", pdfw.Int(1)}}})
		}
		f.Revs = []pdfw.Revision{{XRef: "table", Root: pdfw.Ref{Num: 1}, Items: its}}
		b, _, err := f.Bytes()
		if err != nil {
			return nil, err
		}
		out = append(out, b)
	default:
		return nil, fmt.Errorf("unknown special %s", kind)
	}
	return out, nil
}

// ------------------------------------------------------------ one case (child side)

type caseResult struct {
	Idx     int           `json:"idx"`
	Calls   []callOutcome `json:"calls"`
	Sites   int           `json:"sites,omitempty"`
	Faulty  bool          `json:"faulty"`
	Skipped bool          `json:"skipped,omitempty"`
}

func renderToks(ts []string, bad string) []byte {
	spell := map[string]string{"": ">", "gt": ">", "nameesc": "/A#G0", "namehash": "/A##", "nameend": "/A#", "hexbad": "<4G1>", "rparen": ")", "brace": "}"}[bad]
	m := map[string]string{"name": "/A", "int": "1", "dopen": "<<", "dclose": ">>", "aopen": "[", "aclose": "]", "BAD": spell}
	parts := make([]string, len(ts))
	for i, t := range ts {
		parts[i] = m[t]
	}
	return []byte(strings.Join(parts, " ") + " ")
}

func c02RunCase(idx int, c *rCase, announce func(sub int)) caseResult {
	res := caseResult{Idx: idx}
	dir := os.Getenv("VERIF_SCRATCH")
	if dir == "" {
		dir = os.TempDir()
	}
	switch {
	case c.Special == "xml-case-shrink":
		// XHTML whose head holds letters that get SHORTER in UTF-8 when upper-cased (dotless i, long s, U+1FBE, U+2C65):
		// a bound computed on the bytes as read does not fit the case-folded copy. Short documents (one such letter) and
		// long ones (many in the head), under every extension the detector may be asked about.
		res.Faulty = true
		docs := map[string]string{
			"short-dotless-i": "<?xml version=\"1.0\" encoding=\"UTF-8\"?>\n<html xmlns=\"http://www.w3.org/1999/xhtml\"><head><title>Kap\u0131</title></head><body><p>" + c20Token + "</p></body></html>",
			"short-long-s":    "<?xml version=\"1.0\"?><html xmlns=\"http://www.w3.org/1999/xhtml\"><head><title>Wa\u017f\u017fer \u1fbe \u2c65\u2c66</title></head><body><p>" + c20Token + "</p></body></html>",
			"long-head":       "<?xml version=\"1.0\" encoding=\"UTF-8\"?>\n<!-- " + strings.Repeat("\u0131\u017f", 40) + " -->\n<html xmlns=\"http://www.w3.org/1999/xhtml\"><head><title>t</title></head><body>" + strings.Repeat("<p>"+c20Token+" filler text to make the document longer than the sniffing window</p>", 12) + "</body></html>",
			"growing-upper":   "<?xml version=\"1.0\"?><html xmlns=\"http://www.w3.org/1999/xhtml\"><head><title>Stra\u00dfe \ufb01\ufb02 \u0149</title></head><body><p>" + c20Token + "</p></body></html>",
		}
		names := make([]string, 0, len(docs))
		for k := range docs {
			names = append(names, k)
		}
		sort.Strings(names)
		for _, k := range names {
			for _, ext := range []string{".html", ".xhtml", ".pdf", ".docx", ".epub"} {
				p := filepath.Join(dir, fmt.Sprintf("c02-%d-%d-%s%s", os.Getpid(), idx, k, ext))
				os.WriteFile(p, []byte(docs[k]), 0o644)
				for _, o := range runEntries(p, []byte(docs[k])) {
					o.Entry = k + ext + ":" + o.Entry
					res.Calls = append(res.Calls, o)
				}
				os.Remove(p)
			}
		}
	case c.Special != "":
		files, err := specialPDFs(c.Special)
		if err != nil {
			res.Calls = append(res.Calls, callOutcome{Entry: "writer", Outcome: "machinery", Detail: err.Error()})
			return res
		}
		res.Faulty = true
		for k, data := range files {
			p := filepath.Join(dir, fmt.Sprintf("c02-%d-%d-s%d.pdf", os.Getpid(), idx, k))
			os.WriteFile(p, data, 0o644)
			for _, o := range runEntries(p, data) {
				o.Entry = fmt.Sprintf("%s%d:%s", c.Special, k, o.Entry)
				res.Calls = append(res.Calls, o)
			}
			os.Remove(p)
		}
	case c.Toks != nil:
		b := renderToks(c.Toks, c.Bad)
		res.Faulty = true
		ends := c.Ends
		if len(ends) == 0 {
			ends = []string{"op"}
		}
		for _, end := range ends {
			// b ends in one space
			in := append([]byte{}, b...)
			tail := "Tj"
			switch end {
			case "sp":
				tail = ""
			case "eod":
				in, tail = in[:len(in)-1], ""
			}
			res.Calls = append(res.Calls, guarded("core.ParseObject/"+end, func() error { _, err := core.NewParser(bytes.NewReader(in)).ParseObject(); return err }))
			res.Calls = append(res.Calls, guarded("core.ParseIndirectObject/"+end, func() error {
				_, err := core.NewParser(bytes.NewReader(append([]byte("1 0 obj "), in...))).ParseIndirectObject()
				return err
			}))
			res.Calls = append(res.Calls, guarded("contentstream.Parse/"+end, func() error {
				_, err := contentstream.NewParser(append(append([]byte{}, in...), []byte(tail)...)).Parse()
				return err
			}))
		}
	case c.CMapToks != nil:
		var sb strings.Builder
		for k, t := range c.CMapToks {
			join := "sp"
			if k > 0 && k-1 < len(c.Tight) {
				join = c.Tight[k-1]
			}
			switch {
			case k == 0:
			case join == "sp":
				sb.WriteByte(' ')
			case join == "share" && sb.Len() > 0 && t != "" && sb.String()[sb.Len()-1] == t[0]:
				t = t[1:] // the two tokens share that letter
			}
			sb.WriteString(t)
		}
		prog := []byte(sb.String())
		res.Faulty = true
		res.Calls = append(res.Calls, guarded("font.ParseToUnicodeCMap", func() error {
			cm, err := font.ParseToUnicodeCMap(&core.Stream{Dict: core.Dict{}, Data: prog})
			if err == nil && cm != nil {
				cm.LookupString([]byte{0x00, 0x41, 0xff})
				(&font.Font{Name: "F", ToUnicodeCMap: cm}).DecodeString([]byte{0x41})
			}
			return err
		}))
	case c.Graph != nil:
		files, err := graphPDFs(c.Graph)
		if err != nil {
			res.Calls = append(res.Calls, callOutcome{Entry: "writer", Outcome: "machinery", Detail: err.Error()})
			return res
		}
		res.Faulty = true
		names := make([]string, 0, len(files))
		for k := range files {
			names = append(names, k)
		}
		sort.Strings(names)
		for _, k := range names {
			p := filepath.Join(dir, fmt.Sprintf("c02-%d-%d-%s.pdf", os.Getpid(), idx, k))
			os.WriteFile(p, files[k], 0o644)
			for _, o := range runEntries(p, files[k]) {
				o.Entry = k + ":" + o.Entry
				res.Calls = append(res.Calls, o)
			}
			os.Remove(p)
		}
	default:
		base, ext, err := c02BaseDoc(c.Fmt)
		if err != nil {
			res.Calls = append(res.Calls, callOutcome{Entry: "writer", Outcome: "machinery", Detail: err.Error()})
			return res
		}
		variants := [][]rFault{c.Faults}
		if c.All && len(c.Faults) == 1 {
			n := siteCount(c.Fmt, base, c.Faults[0].Kind)
			res.Sites = n
			variants = nil
			for s := 0; s < n; s++ {
				f := c.Faults[0]
				f.Site = s
				variants = append(variants, []rFault{f})
			}
		}
		for vi, fs := range variants {
			announce(vi)
			b := base
			k := c.K
			if c.All {
				k = 0
			}
			for _, f := range fs { // faults inside encoded streams rebuild the document: they go first
				if f.Kind == "instream" || f.Kind == "field" || f.Kind == "payload" {
					b = applyFault(c.Fmt, b, f, k)
				}
			}
			for _, f := range fs {
				if f.Kind != "instream" && f.Kind != "field" && f.Kind != "payload" {
					b = applyFault(c.Fmt, b, f, k)
				}
			}
			if !bytes.Equal(b, base) {
				res.Faulty = true
			}
			p := filepath.Join(dir, fmt.Sprintf("c02-%d-%d-%d%s", os.Getpid(), idx, vi, ext))
			os.WriteFile(p, b, 0o644)
			outs := runEntries(p, b)
			os.Remove(p)
			if c.All {
				// keep only the non-returning outcomes and one representative
				for _, o := range outs {
					if o.Outcome != "value" && o.Outcome != "error" {
						o.Detail = fmt.Sprintf("site %d: %s", vi, o.Detail)
						res.Calls = append(res.Calls, o)
					}
				}
				if vi == 0 {
					res.Calls = append(res.Calls, outs[0])
				}
			} else {
				res.Calls = append(res.Calls, outs...)
			}
		}
	}
	return res
}

// c02Worker: child process. stdout protocol: "S <idx> <sub>" before a (sub)case, "R <json>" after a case.
func c02Worker(in string) error {
	cases, err := readCases(in)
	if err != nil {
		return err
	}
	w := bufio.NewWriter(os.Stdout)
	for _, raw := range cases {
		var wc struct {
			Idx  int   `json:"idx"`
			Case rCase `json:"case"`
			From int   `json:"from"`
		}
		if err := json.Unmarshal(raw, &wc); err != nil {
			return err
		}
		fmt.Fprintf(w, "S %d 0\n", wc.Idx)
		w.Flush()
		entryTick = func(entry string) {
			fmt.Fprintf(w, "T %s\n", entry)
			w.Flush()
		}
		r := c02RunCase(wc.Idx, &wc.Case, func(sub int) {
			fmt.Fprintf(w, "S %d %d\n", wc.Idx, sub)
			w.Flush()
		})
		fmt.Fprintf(w, "R %s\n", mustJSON(r))
		w.Flush()
	}
	return nil
}

// ------------------------------------------------------------ parent side

func c02Replay(in, out string) error {
	cases, err := readCases(in)
	if err != nil {
		return err
	}
	deadline := 20 * time.Second
	results := make([]Result, len(cases))
	nproc := runtime.NumCPU()
	if nproc > 12 {
		nproc = 12
	}
	var wg sync.WaitGroup
	self, _ := os.Executable()
	scratch := os.Getenv("VERIF_SCRATCH")
	if scratch == "" {
		scratch = os.TempDir()
	}
	for s := 0; s < nproc; s++ {
		wg.Add(1)
		go func(s int) {
			defer wg.Done()
			var mine []int
			for i := s; i < len(cases); i += nproc {
				mine = append(mine, i)
			}
			done := map[int]*caseResult{}
			extra := map[int][]callOutcome{}
			deaths := 0
			for len(mine) > 0 {
				if deaths >= 6 {
					// enough dead or stalled processes have been reported from this shard; the rest of it is
					// not run (each further one would cost the full deadline)
					for _, i := range mine {
						done[i] = &caseResult{Idx: i, Skipped: true}
					}
					break
				}
				// shard input
				fin := filepath.Join(scratch, fmt.Sprintf("c02-shard-%d-%d.ndjson", os.Getpid(), s))
				fh, _ := os.Create(fin)
				for _, i := range mine {
					fmt.Fprintf(fh, "{\"idx\":%d,\"case\":%s}\n", i, cases[i])
				}
				fh.Close()
				cmd := exec.Command("bash", "-c", "ulimit -v 6291456; exec \"$0\" c02 worker \"$1\" /dev/null", self, fin)
				cmd.Env = append(os.Environ(), "GOMEMLIMIT=3GiB", "GOMAXPROCS=2")
				stdout, _ := cmd.StdoutPipe()
				var stderr bytes.Buffer
				cmd.Stderr = &stderr
				if err := cmd.Start(); err != nil {
					return
				}
				lines := make(chan string, 64)
				go func() {
					sc := bufio.NewScanner(stdout)
					sc.Buffer(make([]byte, 1<<20), 1<<26)
					for sc.Scan() {
						lines <- sc.Text()
					}
					close(lines)
				}()
				cur, curSub := -1, 0
				killed := false
			loop:
				for {
					select {
					case l, ok := <-lines:
						if !ok {
							break loop
						}
						if strings.HasPrefix(l, "S ") {
							fmt.Sscanf(l, "S %d %d", &cur, &curSub)
						} else if strings.HasPrefix(l, "R ") {
							var r caseResult
							if json.Unmarshal([]byte(l[2:]), &r) == nil {
								done[r.Idx] = &r
							}
							cur = -1
						}
					case <-time.After(deadline):
						killed = true
						cmd.Process.Kill()
						break loop
					}
				}
				cmd.Wait()
				os.Remove(fin)
				// remaining cases
				var rest []int
				for _, i := range mine {
					if done[i] == nil && i != cur {
						rest = append(rest, i)
					}
				}
				if cur >= 0 && done[cur] == nil && killed {
					// a stalled child may have been starved by the rest of the machine: the case runs once more on its own,
					// with three times the deadline between two signs of life, before it is reported as a hang
					if r := runAlone(self, scratch, s, cur, cases[cur], 3*deadline); r != nil {
						done[cur] = r
						slowUnderLoad.Add(1)
					}
				}
				if cur >= 0 && done[cur] == nil {
					oc := "abort"
					if killed {
						oc = "timeout"
					}
					det := fmt.Sprintf("sub-case %d; ", curSub) + firstRepoFrames(stderr.String())
					if strings.Contains(stderr.String(), "stack overflow") || strings.Contains(stderr.String(), "goroutine stack exceeds") {
						det = "stack exhaustion; " + det
					}
					if strings.Contains(stderr.String(), "out of memory") || strings.Contains(stderr.String(), "cannot allocate") {
						det = "out of memory; " + det
					}
					extra[cur] = append(extra[cur], callOutcome{Entry: "process", Outcome: oc, Detail: det})
					done[cur] = &caseResult{Idx: cur, Faulty: true}
					deaths++
				}
				mine = rest
			}
			for i, r := range done {
				r.Calls = append(r.Calls, extra[i]...)
				results[i] = c02Judge(i, cases[i], r)
			}
		}(s)
	}
	wg.Wait()
	if n := slowUnderLoad.Load(); n > 0 {
		fmt.Fprintf(os.Stderr, "c02: %d case(s) stalled while the machine was busy and returned when run alone\n", n)
	}
	return writeResults(out, results)
}

var slowUnderLoad atomic.Int64

// runAlone runs one case in a worker process of its own; nil if that process dies or shows no sign of life for `limit`.
func runAlone(self, scratch string, shard, idx int, raw []byte, limit time.Duration) *caseResult {
	fin := filepath.Join(scratch, fmt.Sprintf("c02-alone-%d-%d.ndjson", os.Getpid(), shard))
	if err := os.WriteFile(fin, []byte(fmt.Sprintf("{\"idx\":%d,\"case\":%s}\n", idx, raw)), 0o644); err != nil {
		return nil
	}
	defer os.Remove(fin)
	cmd := exec.Command("bash", "-c", "ulimit -v 6291456; exec \"$0\" c02 worker \"$1\" /dev/null", self, fin)
	cmd.Env = append(os.Environ(), "GOMEMLIMIT=3GiB", "GOMAXPROCS=2")
	stdout, _ := cmd.StdoutPipe()
	if err := cmd.Start(); err != nil {
		return nil
	}
	lines := make(chan string, 64)
	go func() {
		sc := bufio.NewScanner(stdout)
		sc.Buffer(make([]byte, 1<<20), 1<<26)
		for sc.Scan() {
			lines <- sc.Text()
		}
		close(lines)
	}()
	var res *caseResult
loop:
	for {
		select {
		case l, ok := <-lines:
			if !ok {
				break loop
			}
			if strings.HasPrefix(l, "R ") {
				var r caseResult
				if json.Unmarshal([]byte(l[2:]), &r) == nil && r.Idx == idx {
					res = &r
				}
			}
		case <-time.After(limit):
			cmd.Process.Kill()
			break loop
		}
	}
	cmd.Wait()
	return res
}

func c02Judge(i int, raw []byte, r *caseResult) Result {
	var c rCase
	json.Unmarshal(raw, &c)
	res := Result{Case: i, OK: true, Nontrivial: r.Faulty, Key: string(raw), Evals: len(r.Calls)}
	if r.Skipped {
		res.What = "not run: skipped after repeated process deaths in its shard"
		res.Nontrivial = false
		return res
	}
	if r.Sites > 0 {
		res.Evals = r.Sites * 11
	}
	kind := "tokens"
	if c.Special != "" {
		kind = c.Special
	} else if c.Graph != nil {
		kind = "graph"
	} else if c.Fmt != "" {
		kind = c.Fmt
		for _, f := range c.Faults {
			kind += ":" + f.Kind
		}
	}
	events := []Event{{"event": "Case", "fmt": orStr(c.Fmt, "html"), "faults": c.Faults}}
	if c.Faults == nil {
		events[0]["faults"] = []rFault{}
	}
	for _, o := range r.Calls {
		if o.Outcome == "machinery" {
			return Result{Case: i, OK: false, Sig: "MACHINERY:c02", What: o.Detail}
		}
		events = append(events, Event{"event": "Call", "entry": o.Entry, "outcome": o.Outcome})
		if o.Outcome != "value" && o.Outcome != "error" && res.OK {
			where := o.Detail
			if len(where) > 300 {
				where = where[:300]
			}
			// signature: outcome class + the first library frame (where it blew up) or the entry point
			site := o.Entry
			if fr := regexp.MustCompile(`tabula/[a-zA-Z0-9_/]*\.?(\(\*?[A-Za-z0-9_]+\)\.)?[A-Za-z0-9_]+`).FindString(o.Detail); fr != "" {
				site = fr
			}
			res = fail(o.Outcome, "C02:"+o.Outcome+":"+site, fmt.Sprintf("%s on a damaged %s input did not return: %s (%s)", o.Entry, kind, o.Outcome, where),
				map[string]interface{}{"case": json.RawMessage(raw), "observed": o})
			res.Case, res.Nontrivial, res.Key, res.Evals = i, r.Faulty, string(raw), len(r.Calls)
		}
	}
	if res.OK {
		res.Events = events
	}
	return res
}

func orStr(a, b string) string {
	if a != "" {
		return a
	}
	return b
}

func c02(mode, in, out string) error {
	switch mode {
	case "replay":
		return c02Replay(in, out)
	case "worker":
		return c02Worker(in)
	}
	return fmt.Errorf("c02: unknown mode %s", mode)
}

var _ = strconv.Itoa
