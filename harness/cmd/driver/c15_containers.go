package main

// C15 container materialisers: minimal DOCX (ECMA-376 WordprocessingML), ODT (ODF
// 1.2 text), XLSX (SpreadsheetML) and PPTX (PresentationML) packages written with
// archive/zip and hand-written XML, carrying the tables / headings / lists of a
// case; each is read by the format's own reader and by tabula.Open and rendered
// to Markdown.  Independent of the writers other properties use.

import (
	"archive/zip"
	"bytes"
	"fmt"
	"html"
	"os"
	"path/filepath"
	"strings"
	"sync/atomic"

	"github.com/tsawler/tabula"
	"github.com/tsawler/tabula/docx"
	"github.com/tsawler/tabula/odt"
	"github.com/tsawler/tabula/pptx"
	"github.com/tsawler/tabula/xlsx"
)

type c15File struct {
	Name string
	Data string
}

var c15Seq int64

// c15WriteZip writes the members in the given order (the first one stored, as ODF
// requires for mimetype) and returns the path.
func c15WriteZip(ext string, files []c15File) (string, error) {
	var buf bytes.Buffer
	zw := zip.NewWriter(&buf)
	for i, f := range files {
		m := zip.Deflate
		if i == 0 {
			m = zip.Store
		}
		w, err := zw.CreateHeader(&zip.FileHeader{Name: f.Name, Method: m})
		if err != nil {
			return "", err
		}
		if _, err := w.Write([]byte(f.Data)); err != nil {
			return "", err
		}
	}
	if err := zw.Close(); err != nil {
		return "", err
	}
	dir := os.Getenv("VERIF_SCRATCH")
	if dir == "" {
		dir = os.TempDir()
	}
	dir = filepath.Join(dir, "c15files")
	if err := os.MkdirAll(dir, 0o755); err != nil {
		return "", err
	}
	p := filepath.Join(dir, fmt.Sprintf("d%d-%d%s", os.Getpid(), atomic.AddInt64(&c15Seq, 1), ext))
	return p, os.WriteFile(p, buf.Bytes(), 0o644)
}

func c15X(s string) string { return html.EscapeString(s) }

const c15XMLHead = `<?xml version="1.0" encoding="UTF-8" standalone="yes"?>` + "\n"

// kindByDepth: the list's kind as a function of depth, or nil if sublists of one
// depth differ in kind.
func c15KindByDepth(items []c15Item) map[int]string {
	m := map[int]string{}
	for _, it := range items {
		if k, ok := m[it.D]; ok && k != it.K {
			return nil
		}
		m[it.D] = it.K
	}
	return m
}

// ------------------------------------------------------------------ DOCX

const c15NsW = "http://schemas.openxmlformats.org/wordprocessingml/2006/main"

func c15DocxPara(style, text string) string {
	ppr := ""
	if style != "" {
		ppr = `<w:pPr><w:pStyle w:val="` + style + `"/></w:pPr>`
	}
	return `<w:p>` + ppr + `<w:r><w:t xml:space="preserve">` + c15X(text) + `</w:t></w:r></w:p>`
}

func c15DocxCellParas(raw string) string {
	if raw == "" {
		return `<w:p/>`
	}
	var b strings.Builder
	for _, line := range strings.Split(raw, "\n") {
		b.WriteString(c15DocxPara("", line))
	}
	return b.String()
}

func c15DocxTable(el *c15El) string {
	var b strings.Builder
	b.WriteString(`<w:tbl><w:tblPr><w:tblW w:w="0" w:type="auto"/></w:tblPr><w:tblGrid>`)
	for c := 0; c < el.Nc; c++ {
		b.WriteString(`<w:gridCol w:w="2000"/>`)
	}
	b.WriteString(`</w:tblGrid>`)
	for r := 0; r < el.Nr; r++ {
		b.WriteString(`<w:tr>`)
		if c15Marked(el, r) {
			b.WriteString(`<w:trPr><w:tblHeader/></w:trPr>`)
		}
		for c := 0; c < el.Nc; c++ {
			s := el.Src[r][c]
			if s.Absent {
				continue // a short row: fewer w:tc than grid columns
			}
			if s.Covered {
				// a vertically merged region continues with one (possibly spanning) cell per row
				ar, ac, span := c15AnchorOf(el, r, c)
				if ar == r || ac != c {
					continue
				}
				pr := `<w:tcW w:w="2000" w:type="dxa"/>`
				if span > 1 {
					pr += fmt.Sprintf(`<w:gridSpan w:val="%d"/>`, span)
				}
				b.WriteString(`<w:tc><w:tcPr>` + pr + `<w:vMerge/></w:tcPr><w:p/></w:tc>`)
				continue
			}
			pr := `<w:tcW w:w="2000" w:type="dxa"/>`
			if s.Cs > 1 {
				pr += fmt.Sprintf(`<w:gridSpan w:val="%d"/>`, s.Cs)
			}
			if s.Rs > 1 {
				pr += `<w:vMerge w:val="restart"/>`
			}
			b.WriteString(`<w:tc><w:tcPr>` + pr + `</w:tcPr>` + c15DocxCellParas(s.Raw) + `</w:tc>`)
		}
		b.WriteString(`</w:tr>`)
	}
	b.WriteString(`</w:tbl>`)
	return b.String()
}

// c15AnchorOf returns the anchor (row, col) and column span of the merge covering (r, c).
func c15AnchorOf(el *c15El, r, c int) (int, int, int) {
	for ar := 0; ar < el.Nr; ar++ {
		for ac := 0; ac < el.Nc; ac++ {
			s := el.Src[ar][ac]
			if (s.Rs > 1 || s.Cs > 1) && r >= ar && r < ar+s.Rs && c >= ac && c < ac+s.Cs {
				return ar, ac, s.Cs
			}
		}
	}
	return r, c, 1
}

func c15DocxNumbering(levelKinds map[int]string) string {
	lvl := func(fmtOf func(int) string) string {
		var b strings.Builder
		for i := 0; i < 9; i++ {
			f := fmtOf(i)
			text := "%" + fmt.Sprint(i+1) + "."
			if f == "bullet" {
				text = "•"
			}
			fmt.Fprintf(&b, `<w:lvl w:ilvl="%d"><w:start w:val="1"/><w:numFmt w:val="%s"/><w:lvlText w:val="%s"/></w:lvl>`, i, f, text)
		}
		return b.String()
	}
	per := func(i int) string {
		if levelKinds != nil && levelKinds[i] == "o" {
			return "decimal"
		}
		return "bullet"
	}
	return c15XMLHead + `<w:numbering xmlns:w="` + c15NsW + `">` +
		`<w:abstractNum w:abstractNumId="1">` + lvl(func(int) string { return "bullet" }) + `</w:abstractNum>` +
		`<w:abstractNum w:abstractNumId="2">` + lvl(func(int) string { return "decimal" }) + `</w:abstractNum>` +
		`<w:abstractNum w:abstractNumId="3">` + lvl(per) + `</w:abstractNum>` +
		`<w:num w:numId="1"><w:abstractNumId w:val="1"/></w:num><w:num w:numId="2"><w:abstractNumId w:val="2"/></w:num>` +
		`<w:num w:numId="3"><w:abstractNumId w:val="3"/></w:num></w:numbering>`
}

func c15Docx(c *c15Case) (string, map[int]bool, error) {
	var body strings.Builder
	only := map[int]bool{}
	var levelKinds map[int]string
	for n := range c.Els {
		el := &c.Els[n]
		switch el.T {
		case "heading":
			body.WriteString(c15DocxPara(fmt.Sprintf("Heading%d", el.Level), el.W))
		case "para":
			body.WriteString(c15DocxPara("", el.W))
		case "list":
			kinds := c15KindByDepth(el.Items)
			if kinds != nil && levelKinds == nil {
				levelKinds = kinds
			}
			for _, it := range el.Items {
				num := 3
				if kinds == nil || !c15SameKinds(kinds, levelKinds) {
					num = 1
					if it.K == "o" {
						num = 2
					}
				}
				fmt.Fprintf(&body, `<w:p><w:pPr><w:pStyle w:val="ListParagraph"/><w:numPr><w:ilvl w:val="%d"/><w:numId w:val="%d"/></w:numPr></w:pPr><w:r><w:t>%s</w:t></w:r></w:p>`, it.D, num, c15X(it.W))
			}
		case "table":
			if c15Degenerate(el) {
				continue
			}
			body.WriteString(c15DocxTable(el))
			// consecutive tables are consecutive w:tbl elements; any other table is followed by the
			// (empty) paragraph a word processor puts after it
			if n+1 >= len(c.Els) || c.Els[n+1].T != "table" {
				body.WriteString(`<w:p/>`)
			}
		}
		only[n] = true
	}
	doc := c15XMLHead + `<w:document xmlns:w="` + c15NsW + `"><w:body>` + body.String() +
		`<w:sectPr><w:pgSz w:w="12240" w:h="15840"/></w:sectPr></w:body></w:document>`
	files := []c15File{
		{"[Content_Types].xml", c15XMLHead + `<Types xmlns="http://schemas.openxmlformats.org/package/2006/content-types">` +
			`<Default Extension="rels" ContentType="application/vnd.openxmlformats-package.relationships+xml"/>` +
			`<Default Extension="xml" ContentType="application/xml"/>` +
			`<Override PartName="/word/document.xml" ContentType="application/vnd.openxmlformats-officedocument.wordprocessingml.document.main+xml"/>` +
			`<Override PartName="/word/numbering.xml" ContentType="application/vnd.openxmlformats-officedocument.wordprocessingml.numbering+xml"/>` +
			`<Override PartName="/docProps/core.xml" ContentType="application/vnd.openxmlformats-package.core-properties+xml"/></Types>`},
		{"_rels/.rels", c15XMLHead + `<Relationships xmlns="http://schemas.openxmlformats.org/package/2006/relationships">` +
			`<Relationship Id="rId1" Type="http://schemas.openxmlformats.org/officeDocument/2006/relationships/officeDocument" Target="word/document.xml"/>` +
			`<Relationship Id="rId2" Type="http://schemas.openxmlformats.org/package/2006/relationships/metadata/core-properties" Target="docProps/core.xml"/></Relationships>`},
		{"word/document.xml", doc},
		{"word/_rels/document.xml.rels", c15XMLHead + `<Relationships xmlns="http://schemas.openxmlformats.org/package/2006/relationships">` +
			`<Relationship Id="rId1" Type="http://schemas.openxmlformats.org/officeDocument/2006/relationships/numbering" Target="numbering.xml"/></Relationships>`},
		{"word/numbering.xml", c15DocxNumbering(levelKinds)},
		{"docProps/core.xml", c15CoreProps(c)},
	}
	p, err := c15WriteZip(".docx", files)
	return p, only, err
}

func c15SameKinds(a, b map[int]string) bool {
	for k, v := range a {
		if b[k] != v {
			return false
		}
	}
	return true
}

func c15CoreProps(c *c15Case) string {
	title := ""
	if c.Meta {
		title = "<dc:title>T</dc:title>"
	}
	return c15XMLHead + `<cp:coreProperties xmlns:cp="http://schemas.openxmlformats.org/package/2006/metadata/core-properties" ` +
		`xmlns:dc="http://purl.org/dc/elements/1.1/">` + title + `</cp:coreProperties>`
}

// ------------------------------------------------------------------- ODT

func c15OdtList(items []c15Item, pos *int, depth int, b *strings.Builder, style string) {
	if style != "" {
		b.WriteString(`<text:list text:style-name="` + style + `">`)
	} else {
		b.WriteString(`<text:list>`)
	}
	for *pos < len(items) && items[*pos].D >= depth {
		it := items[*pos]
		if it.D > depth {
			break
		}
		b.WriteString(`<text:list-item><text:p>` + c15X(it.W) + `</text:p>`)
		*pos++
		if *pos < len(items) && items[*pos].D > depth {
			c15OdtList(items, pos, depth+1, b, "")
		}
		b.WriteString(`</text:list-item>`)
	}
	b.WriteString(`</text:list>`)
}

func c15OdtTable(el *c15El, n int) string {
	var b strings.Builder
	fmt.Fprintf(&b, `<table:table table:name="T%d"><table:table-column table:number-columns-repeated="%d"/>`, n, el.Nc)
	// marked rows go into <table:table-header-rows> (a run of consecutive marked rows per
	// wrapper), unless a merged cell would be cut by the wrapper's boundary
	wrap := func(r int) bool {
		if !c15Marked(el, r) {
			return false
		}
		lo, hi := r, r+1
		for lo > 0 && c15Marked(el, lo-1) {
			lo--
		}
		for hi < el.Nr && c15Marked(el, hi) {
			hi++
		}
		return !c15Crosses(el, lo) && !c15Crosses(el, hi)
	}
	for r := 0; r < el.Nr; r++ {
		if wrap(r) && (r == 0 || !wrap(r-1)) {
			b.WriteString(`<table:table-header-rows>`)
		}
		b.WriteString(`<table:table-row>`)
		for c := 0; c < el.Nc; c++ {
			s := el.Src[r][c]
			if s.Absent {
				continue // a short row
			}
			if s.Covered {
				b.WriteString(`<table:covered-table-cell/>`)
				continue
			}
			attr := ` office:value-type="string"`
			if s.Cs > 1 {
				attr += fmt.Sprintf(` table:number-columns-spanned="%d"`, s.Cs)
			}
			if s.Rs > 1 {
				attr += fmt.Sprintf(` table:number-rows-spanned="%d"`, s.Rs)
			}
			b.WriteString(`<table:table-cell` + attr + `>`)
			if s.Raw == "" {
				b.WriteString(`<text:p/>`)
			}
			if s.Raw != "" {
				for _, line := range strings.Split(s.Raw, "\n") {
					b.WriteString(`<text:p>` + c15X(line) + `</text:p>`)
				}
			}
			b.WriteString(`</table:table-cell>`)
		}
		b.WriteString(`</table:table-row>`)
		if wrap(r) && (r == el.Nr-1 || !wrap(r+1)) {
			b.WriteString(`</table:table-header-rows>`)
		}
	}
	b.WriteString(`</table:table>`)
	return b.String()
}

func c15Odt(c *c15Case) (string, map[int]bool, error) {
	var body, styles strings.Builder
	only := map[int]bool{}
	for n := range c.Els {
		el := &c.Els[n]
		switch el.T {
		case "heading":
			fmt.Fprintf(&body, `<text:h text:outline-level="%d">%s</text:h>`, el.Level, c15X(el.W))
		case "para":
			body.WriteString(`<text:p>` + c15X(el.W) + `</text:p>`)
		case "list":
			kinds := c15KindByDepth(el.Items)
			if kinds == nil {
				continue // one list style gives one kind per level
			}
			name := fmt.Sprintf("L%d", n+1)
			styles.WriteString(`<text:list-style style:name="` + name + `">`)
			for lv := 0; lv < 10; lv++ {
				if kinds[lv] == "o" {
					fmt.Fprintf(&styles, `<text:list-level-style-number text:level="%d" style:num-format="1" style:num-suffix="."/>`, lv+1)
				} else {
					fmt.Fprintf(&styles, `<text:list-level-style-bullet text:level="%d" text:bullet-char="•"/>`, lv+1)
				}
			}
			styles.WriteString(`</text:list-style>`)
			pos := 0
			c15OdtList(el.Items, &pos, 0, &body, name)
		case "table":
			if c15Degenerate(el) {
				continue
			}
			body.WriteString(c15OdtTable(el, n+1))
		}
		only[n] = true
	}
	ns := `xmlns:office="urn:oasis:names:tc:opendocument:xmlns:office:1.0" xmlns:style="urn:oasis:names:tc:opendocument:xmlns:style:1.0" ` +
		`xmlns:text="urn:oasis:names:tc:opendocument:xmlns:text:1.0" xmlns:table="urn:oasis:names:tc:opendocument:xmlns:table:1.0" ` +
		`xmlns:fo="urn:oasis:names:tc:opendocument:xmlns:xsl-fo-compatible:1.0" xmlns:dc="http://purl.org/dc/elements/1.1/" ` +
		`xmlns:meta="urn:oasis:names:tc:opendocument:xmlns:meta:1.0"`
	content := `<?xml version="1.0" encoding="UTF-8"?>` + "\n" + `<office:document-content ` + ns + ` office:version="1.2">` +
		`<office:automatic-styles>` + styles.String() + `</office:automatic-styles><office:body><office:text>` + body.String() +
		`</office:text></office:body></office:document-content>`
	title := ""
	if c.Meta {
		title = "<dc:title>T</dc:title>"
	}
	files := []c15File{
		{"mimetype", "application/vnd.oasis.opendocument.text"},
		{"META-INF/manifest.xml", `<?xml version="1.0" encoding="UTF-8"?>` + "\n" +
			`<manifest:manifest xmlns:manifest="urn:oasis:names:tc:opendocument:xmlns:manifest:1.0" manifest:version="1.2">` +
			`<manifest:file-entry manifest:full-path="/" manifest:version="1.2" manifest:media-type="application/vnd.oasis.opendocument.text"/>` +
			`<manifest:file-entry manifest:full-path="content.xml" manifest:media-type="text/xml"/>` +
			`<manifest:file-entry manifest:full-path="meta.xml" manifest:media-type="text/xml"/></manifest:manifest>`},
		{"content.xml", content},
		{"meta.xml", `<?xml version="1.0" encoding="UTF-8"?>` + "\n" + `<office:document-meta ` + ns + ` office:version="1.2"><office:meta>` + title + `</office:meta></office:document-meta>`},
	}
	p, err := c15WriteZip(".odt", files)
	return p, only, err
}

// ------------------------------------------------------------------ XLSX

func c15ColName(c int) string { return string(rune('A' + c)) }

// a sheet has no empty border rows/columns (a spreadsheet has no notion of them) and
// the text of covered cells does not exist
func c15XlsxExpressible(el *c15El) bool {
	if c15Degenerate(el) || el.Ragged {
		return false // (a sheet has no short rows: a missing cell is an empty cell)
	}
	if el.Hm != "none" && el.Hm != "first" && el.Hm != "" {
		return false // a sheet has no header marking: the other markings would repeat the same file
	}
	nonEmpty := func(r, c int) bool {
		s := el.Src[r][c]
		return !s.Covered && strings.TrimSpace(s.Raw) != ""
	}
	rowOK := func(r int) bool {
		for c := 0; c < el.Nc; c++ {
			if nonEmpty(r, c) {
				return true
			}
		}
		return false
	}
	colOK := func(c int) bool {
		for r := 0; r < el.Nr; r++ {
			if nonEmpty(r, c) {
				return true
			}
		}
		return false
	}
	return rowOK(0) && rowOK(el.Nr-1) && colOK(0) && colOK(el.Nc-1)
}

func c15Xlsx(c *c15Case) (string, map[int]bool, error) {
	only := map[int]bool{}
	var tables []*c15El
	for n := range c.Els {
		if c.Els[n].T == "table" && c15XlsxExpressible(&c.Els[n]) {
			tables = append(tables, &c.Els[n])
			only[n] = true
		}
	}
	if len(tables) == 0 {
		return "", nil, nil
	}
	ns := `xmlns="http://schemas.openxmlformats.org/spreadsheetml/2006/main" xmlns:r="http://schemas.openxmlformats.org/officeDocument/2006/relationships"`
	var sheetFiles []c15File
	var overrides, sheetRefs, rels strings.Builder
	// every table is a sheet of its own: the workbook renders as one Markdown table per sheet
	for k, el := range tables {
		var rows, merges strings.Builder
		for r := 0; r < el.Nr; r++ {
			fmt.Fprintf(&rows, `<row r="%d">`, r+1)
			for cc := 0; cc < el.Nc; cc++ {
				s := el.Src[r][cc]
				if s.Covered || s.Raw == "" {
					continue
				}
				fmt.Fprintf(&rows, `<c r="%s%d" t="inlineStr"><is><t xml:space="preserve">%s</t></is></c>`, c15ColName(cc), r+1, c15X(s.Raw))
				if s.Rs > 1 || s.Cs > 1 {
					fmt.Fprintf(&merges, `<mergeCell ref="%s%d:%s%d"/>`, c15ColName(cc), r+1, c15ColName(cc+s.Cs-1), r+s.Rs)
				}
			}
			rows.WriteString(`</row>`)
		}
		mc := ""
		if merges.Len() > 0 {
			mc = `<mergeCells count="1">` + merges.String() + `</mergeCells>`
		}
		name := fmt.Sprintf("xl/worksheets/sheet%d.xml", k+1)
		sheetFiles = append(sheetFiles, c15File{name, c15XMLHead + `<worksheet ` + ns + `><dimension ref="A1:` + fmt.Sprintf("%s%d", c15ColName(el.Nc-1), el.Nr) + `"/><sheetData>` +
			rows.String() + `</sheetData>` + mc + `</worksheet>`})
		fmt.Fprintf(&overrides, `<Override PartName="/%s" ContentType="application/vnd.openxmlformats-officedocument.spreadsheetml.worksheet+xml"/>`, name)
		fmt.Fprintf(&sheetRefs, `<sheet name="S%d" sheetId="%d" r:id="rId%d"/>`, k+1, k+1, k+1)
		fmt.Fprintf(&rels, `<Relationship Id="rId%d" Type="http://schemas.openxmlformats.org/officeDocument/2006/relationships/worksheet" Target="worksheets/sheet%d.xml"/>`, k+1, k+1)
	}
	files := []c15File{
		{"[Content_Types].xml", c15XMLHead + `<Types xmlns="http://schemas.openxmlformats.org/package/2006/content-types">` +
			`<Default Extension="rels" ContentType="application/vnd.openxmlformats-package.relationships+xml"/>` +
			`<Default Extension="xml" ContentType="application/xml"/>` +
			`<Override PartName="/xl/workbook.xml" ContentType="application/vnd.openxmlformats-officedocument.spreadsheetml.sheet.main+xml"/>` +
			overrides.String() +
			`<Override PartName="/docProps/core.xml" ContentType="application/vnd.openxmlformats-package.core-properties+xml"/></Types>`},
		{"_rels/.rels", c15XMLHead + `<Relationships xmlns="http://schemas.openxmlformats.org/package/2006/relationships">` +
			`<Relationship Id="rId1" Type="http://schemas.openxmlformats.org/officeDocument/2006/relationships/officeDocument" Target="xl/workbook.xml"/>` +
			`<Relationship Id="rId2" Type="http://schemas.openxmlformats.org/package/2006/relationships/metadata/core-properties" Target="docProps/core.xml"/></Relationships>`},
		{"xl/workbook.xml", c15XMLHead + `<workbook ` + ns + `><sheets>` + sheetRefs.String() + `</sheets></workbook>`},
		{"xl/_rels/workbook.xml.rels", c15XMLHead + `<Relationships xmlns="http://schemas.openxmlformats.org/package/2006/relationships">` + rels.String() + `</Relationships>`},
	}
	files = append(files, sheetFiles...)
	files = append(files, c15File{"docProps/core.xml", c15CoreProps(c)})
	p, err := c15WriteZip(".xlsx", files)
	return p, only, err
}

// ------------------------------------------------------------------ PPTX

func c15PptxParas(raw string) string {
	if raw == "" {
		return `<a:p/>`
	}
	var b strings.Builder
	for _, line := range strings.Split(raw, "\n") {
		b.WriteString(`<a:p><a:r><a:rPr lang="en-US"/><a:t>` + c15X(line) + `</a:t></a:r></a:p>`)
	}
	return b.String()
}

// c15Pptx: perSlide = false puts every table on the one slide (several graphic frames on a
// slide); perSlide = true gives every table after the first a slide of its own.
func c15Pptx(c *c15Case, perSlide bool) (string, map[int]bool, error) {
	only := map[int]bool{}
	slides := []*strings.Builder{{}}
	shapes := slides[0]
	ntables := 0
	id := 2
	for n := range c.Els {
		el := &c.Els[n]
		switch el.T {
		case "list":
			var ps strings.Builder
			for _, it := range el.Items {
				bu := `<a:buChar char="•"/>`
				if it.K == "o" {
					bu = `<a:buAutoNum type="arabicPeriod"/>`
				}
				fmt.Fprintf(&ps, `<a:p><a:pPr lvl="%d">%s</a:pPr><a:r><a:rPr lang="en-US"/><a:t>%s</a:t></a:r></a:p>`, it.D, bu, c15X(it.W))
			}
			fmt.Fprintf(shapes, `<p:sp><p:nvSpPr><p:cNvPr id="%d" name="Body %d"/><p:cNvSpPr/><p:nvPr><p:ph type="body" idx="1"/></p:nvPr></p:nvSpPr><p:spPr/>`+
				`<p:txBody><a:bodyPr/><a:lstStyle/>%s</p:txBody></p:sp>`, id, id, ps.String())
			id++
		case "para":
			fmt.Fprintf(shapes, `<p:sp><p:nvSpPr><p:cNvPr id="%d" name="Text %d"/><p:cNvSpPr txBox="1"/><p:nvPr/></p:nvSpPr><p:spPr/>`+
				`<p:txBody><a:bodyPr/><a:lstStyle/><a:p><a:pPr><a:buNone/></a:pPr><a:r><a:rPr lang="en-US"/><a:t>%s</a:t></a:r></a:p></p:txBody></p:sp>`, id, id, c15X(el.W))
			id++
		case "table":
			if c15Degenerate(el) || el.Ragged {
				continue // (every a:tr has one a:tc per grid column)
			}
			if el.Hm != "none" && el.Hm != "first" && el.Hm != "" {
				continue // PresentationML marks at most the first row (firstRow)
			}
			ntables++
			if perSlide && ntables > 1 {
				slides = append(slides, &strings.Builder{})
			}
			shapes = slides[len(slides)-1]
			var t strings.Builder
			if c15Marked(el, 0) {
				t.WriteString(`<a:tbl><a:tblPr firstRow="1"/><a:tblGrid>`)
			} else {
				t.WriteString(`<a:tbl><a:tblPr/><a:tblGrid>`)
			}
			for cc := 0; cc < el.Nc; cc++ {
				t.WriteString(`<a:gridCol w="1000000"/>`)
			}
			t.WriteString(`</a:tblGrid>`)
			for r := 0; r < el.Nr; r++ {
				t.WriteString(`<a:tr h="370840">`)
				for cc := 0; cc < el.Nc; cc++ {
					s := el.Src[r][cc]
					attr := ""
					if s.Covered {
						ar, ac, _ := c15AnchorOf(el, r, cc)
						if ac != cc {
							attr += ` hMerge="1"`
						}
						if ar != r {
							attr += ` vMerge="1"`
						}
						// a covered cell that continues the anchor's columns in a lower row repeats gridSpan
						if ar != r && ac == cc && el.Src[ar][ac].Cs > 1 {
							attr += fmt.Sprintf(` gridSpan="%d"`, el.Src[ar][ac].Cs)
						}
						t.WriteString(`<a:tc` + attr + `><a:txBody><a:bodyPr/><a:lstStyle/><a:p/></a:txBody><a:tcPr/></a:tc>`)
						continue
					}
					if s.Cs > 1 {
						attr += fmt.Sprintf(` gridSpan="%d"`, s.Cs)
					}
					if s.Rs > 1 {
						attr += fmt.Sprintf(` rowSpan="%d"`, s.Rs)
					}
					t.WriteString(`<a:tc` + attr + `><a:txBody><a:bodyPr/><a:lstStyle/>` + c15PptxParas(s.Raw) + `</a:txBody><a:tcPr/></a:tc>`)
				}
				t.WriteString(`</a:tr>`)
			}
			t.WriteString(`</a:tbl>`)
			fmt.Fprintf(shapes, `<p:graphicFrame><p:nvGraphicFramePr><p:cNvPr id="%d" name="Table %d"/><p:cNvGraphicFramePr/><p:nvPr/></p:nvGraphicFramePr>`+
				`<p:xfrm><a:off x="0" y="0"/><a:ext cx="3000000" cy="1000000"/></p:xfrm><a:graphic><a:graphicData uri="http://schemas.openxmlformats.org/drawingml/2006/table">%s</a:graphicData></a:graphic></p:graphicFrame>`, id, id, t.String())
			id++
		default:
			continue // slide titles are synthesised headings: not asserted
		}
		only[n] = true
	}
	if len(only) == 0 {
		return "", nil, nil
	}
	ns := `xmlns:a="http://schemas.openxmlformats.org/drawingml/2006/main" xmlns:r="http://schemas.openxmlformats.org/officeDocument/2006/relationships" ` +
		`xmlns:p="http://schemas.openxmlformats.org/presentationml/2006/main"`
	mkSlide := func(n int, body string) string {
		return c15XMLHead + `<p:sld ` + ns + `><p:cSld><p:spTree><p:nvGrpSpPr><p:cNvPr id="1" name=""/><p:cNvGrpSpPr/><p:nvPr/></p:nvGrpSpPr><p:grpSpPr/>` +
			`<p:sp><p:nvSpPr><p:cNvPr id="90" name="Title"/><p:cNvSpPr/><p:nvPr><p:ph type="title"/></p:nvPr></p:nvSpPr><p:spPr/>` +
			fmt.Sprintf(`<p:txBody><a:bodyPr/><a:lstStyle/><a:p><a:r><a:rPr lang="en-US"/><a:t>Slide%d</a:t></a:r></a:p></p:txBody></p:sp>`, n) +
			body + `</p:spTree></p:cSld></p:sld>`
	}
	var overrides, ids, rels strings.Builder
	var slideFiles []c15File
	for n, sb := range slides {
		name := fmt.Sprintf("ppt/slides/slide%d.xml", n+1)
		slideFiles = append(slideFiles, c15File{name, mkSlide(n+1, sb.String())})
		fmt.Fprintf(&overrides, `<Override PartName="/%s" ContentType="application/vnd.openxmlformats-officedocument.presentationml.slide+xml"/>`, name)
		fmt.Fprintf(&ids, `<p:sldId id="%d" r:id="rId%d"/>`, 256+n, n+1)
		fmt.Fprintf(&rels, `<Relationship Id="rId%d" Type="http://schemas.openxmlformats.org/officeDocument/2006/relationships/slide" Target="slides/slide%d.xml"/>`, n+1, n+1)
	}
	files := []c15File{
		{"[Content_Types].xml", c15XMLHead + `<Types xmlns="http://schemas.openxmlformats.org/package/2006/content-types">` +
			`<Default Extension="rels" ContentType="application/vnd.openxmlformats-package.relationships+xml"/>` +
			`<Default Extension="xml" ContentType="application/xml"/>` +
			`<Override PartName="/ppt/presentation.xml" ContentType="application/vnd.openxmlformats-officedocument.presentationml.presentation.main+xml"/>` +
			overrides.String() +
			`<Override PartName="/docProps/core.xml" ContentType="application/vnd.openxmlformats-package.core-properties+xml"/></Types>`},
		{"_rels/.rels", c15XMLHead + `<Relationships xmlns="http://schemas.openxmlformats.org/package/2006/relationships">` +
			`<Relationship Id="rId1" Type="http://schemas.openxmlformats.org/officeDocument/2006/relationships/officeDocument" Target="ppt/presentation.xml"/>` +
			`<Relationship Id="rId2" Type="http://schemas.openxmlformats.org/package/2006/relationships/metadata/core-properties" Target="docProps/core.xml"/></Relationships>`},
		{"ppt/presentation.xml", c15XMLHead + `<p:presentation ` + ns + `><p:sldIdLst>` + ids.String() + `</p:sldIdLst><p:sldSz cx="9144000" cy="6858000"/></p:presentation>`},
		{"ppt/_rels/presentation.xml.rels", c15XMLHead + `<Relationships xmlns="http://schemas.openxmlformats.org/package/2006/relationships">` + rels.String() + `</Relationships>`},
	}
	files = append(files, slideFiles...)
	files = append(files, c15File{"docProps/core.xml", c15CoreProps(c)})
	p, err := c15WriteZip(".pptx", files)
	return p, only, err
}

// ------------------------------------------------------------- dispatch

func c15RunContainerWriter(c *c15Case, w string) []c15Out {
	ntab := 0
	for _, el := range c.Els {
		if el.T == "table" {
			ntab++
		}
	}
	if w == "pptx" && ntab >= 2 {
		// several tables on one slide, and on consecutive slides
		return append(c15RunContainerVariant(c, w, false), c15RunContainerVariant(c, w, true)...)
	}
	return c15RunContainerVariant(c, w, false)
}

func c15RunContainerVariant(c *c15Case, w string, perSlide bool) []c15Out {
	var path string
	var only map[int]bool
	var err error
	switch w {
	case "docx":
		path, only, err = c15Docx(c)
	case "odt":
		path, only, err = c15Odt(c)
	case "xlsx":
		path, only, err = c15Xlsx(c)
	case "pptx":
		path, only, err = c15Pptx(c, perSlide)
	default:
		return nil
	}
	if err != nil {
		panic("c15: cannot write container: " + err.Error())
	}
	if path == "" || len(only) == 0 {
		if path != "" {
			os.Remove(path)
		}
		return nil
	}
	defer os.Remove(path)
	var outs []c15Out
	md, _, e := tabula.Open(path).ToMarkdownWithOptions(c15Opts(c))
	outs = append(outs, c15Out{Writer: w, Md: md, Err: e, Only: only, Input: path})
	if c15DefaultOpts(c) {
		var md2 string
		var e2 error
		switch w {
		case "docx":
			r, err := docx.Open(path)
			if err != nil {
				e2 = err
				break
			}
			md2, e2 = r.Markdown()
			r.Close()
		case "odt":
			r, err := odt.Open(path)
			if err != nil {
				e2 = err
				break
			}
			md2, e2 = r.Markdown()
			r.Close()
		case "xlsx":
			r, err := xlsx.Open(path)
			if err != nil {
				e2 = err
				break
			}
			md2, e2 = r.Markdown()
			r.Close()
		case "pptx":
			r, err := pptx.Open(path)
			if err != nil {
				e2 = err
				break
			}
			md2, e2 = r.Markdown()
			r.Close()
		}
		outs = append(outs, c15Out{Writer: w, Md: md2, Err: e2, Only: only, Input: path})
	}
	return outs
}
