package main

// C06 — PdfSyntax.tla binding.
//
// replay: TLC emits (token sequence, spelling policy, bytes = Spell(toks, policy));
//   the bytes go through core.Parser (object mode) and contentstream.Parser
//   (object mode as operand of a dummy operator; program mode as is); the parsed
//   value is flattened back to the token form and must equal the tokens.
// record: random deep trees are spelled by an independent Go speller; the event
//   {toks, pol, bytes, core, cs} is validated by PdfSyntaxTrace.tla, which
//   recomputes Spell and compares both the bytes and the parse results.

import (
	"bytes"
	"encoding/json"
	"fmt"
	"math"
	"sort"
	"strconv"

	"github.com/tsawler/tabula/contentstream"
	"github.com/tsawler/tabula/core"
)

func init() { handlers["c06"] = c06 }

type sTok struct {
	K   string `json:"k"`
	Sp  []int  `json:"sp,omitempty"`
	V   []int  `json:"v,omitempty"`
	M   *int   `json:"m,omitempty"`
	E   *int   `json:"e,omitempty"`
	B   []int  `json:"b,omitempty"`
	Bal *bool  `json:"bal,omitempty"`
	N   *int   `json:"n,omitempty"`
	G   *int   `json:"g,omitempty"`
}

type sPol struct {
	Ws   string `json:"ws"`
	Eol  string `json:"eol"`
	Str  string `json:"str"`
	Name string `json:"name"`
}

type sCase struct {
	Mode  string `json:"mode"`
	Toks  []sTok `json:"toks"`
	Pol   sPol   `json:"pol"`
	Bytes []int  `json:"bytes"`
}

// canonical text of one expected token (what the comparison is made on)
func canonTok(t sTok) string {
	switch t.K {
	case "int":
		return "int:" + string(toBytes(t.V))
	case "real":
		f, _ := strconv.ParseFloat(fmt.Sprintf("%de%d", *t.M, *t.E), 64)
		return "real:" + strconv.FormatFloat(f, 'g', -1, 64)
	case "str":
		return fmt.Sprintf("str:%v", t.B)
	case "name":
		return fmt.Sprintf("name:%v", t.B)
	case "ref":
		return fmt.Sprintf("ref:%d:%d", *t.N, *t.G)
	case "op":
		return "op:" + string(toBytes(t.B))
	}
	return t.K
}

// flatten a parsed object into canonical token texts
func flattenObj(o core.Object, out *[]string) {
	switch v := o.(type) {
	case nil:
		*out = append(*out, "<nil>")
	case core.Null:
		*out = append(*out, "null")
	case core.Bool:
		if v {
			*out = append(*out, "true")
		} else {
			*out = append(*out, "false")
		}
	case core.Int:
		*out = append(*out, "int:"+strconv.FormatInt(int64(v), 10))
	case core.Real:
		f := float64(v)
		if f == 0 {
			f = 0 // -0 == 0
		}
		*out = append(*out, "real:"+strconv.FormatFloat(f, 'g', -1, 64))
	case core.String:
		*out = append(*out, fmt.Sprintf("str:%v", toInts([]byte(v))))
	case core.Name:
		*out = append(*out, fmt.Sprintf("name:%v", toInts([]byte(v))))
	case core.IndirectRef:
		*out = append(*out, fmt.Sprintf("ref:%d:%d", v.Number, v.Generation))
	case core.Array:
		*out = append(*out, "[")
		for _, e := range v {
			flattenObj(e, out)
		}
		*out = append(*out, "]")
	case core.Dict:
		*out = append(*out, "<<")
		keys := make([]string, 0, len(v))
		for k := range v {
			keys = append(keys, k)
		}
		sort.Strings(keys)
		for _, k := range keys {
			*out = append(*out, fmt.Sprintf("name:%v", toInts([]byte(k))))
			flattenObj(v[k], out)
		}
		*out = append(*out, ">>")
	default:
		*out = append(*out, fmt.Sprintf("?%T", o))
	}
}

func canonToks(ts []sTok) []string {
	out := make([]string, len(ts))
	for i, t := range ts {
		out[i] = canonTok(t)
	}
	// -0 real canonical
	for i, s := range out {
		if s == "real:-0" {
			out[i] = "real:0"
		}
	}
	return out
}

func parseCore(b []byte) (res []string, err error) {
	defer func() {
		if p := recover(); p != nil {
			err = fmt.Errorf("panic: %v", p)
		}
	}()
	done := make(chan struct{})
	var o core.Object
	go func() {
		defer close(done)
		defer func() {
			if p := recover(); p != nil {
				err = fmt.Errorf("panic: %v", p)
			}
		}()
		o, err = core.NewParser(bytes.NewReader(b)).ParseObject()
	}()
	<-done
	if err != nil {
		return nil, err
	}
	flattenObj(o, &res)
	return res, nil
}

func parseCS(b []byte) (res []string, err error) {
	defer func() {
		if p := recover(); p != nil {
			err = fmt.Errorf("panic: %v", p)
		}
	}()
	ops, err := contentstream.NewParser(b).Parse()
	if err != nil {
		return nil, err
	}
	for _, op := range ops {
		for _, a := range op.Operands {
			flattenObj(a, &res)
		}
		res = append(res, "op:"+op.Operator)
	}
	return res, nil
}

func firstDiff(a, b []string) int {
	for i := 0; i < len(a) && i < len(b); i++ {
		if a[i] != b[i] {
			return i
		}
	}
	if len(a) != len(b) {
		if len(a) < len(b) {
			return len(a)
		}
		return len(b)
	}
	return -1
}

func hasRef(ts []sTok) bool {
	for _, t := range ts {
		if t.K == "ref" {
			return true
		}
	}
	return false
}

// feature of a failing case for the signature: kind of the token at the first
// difference plus the policy component that governs its spelling
func c06Feature(c *sCase, exp []string, got []string, err error) string {
	if err != nil {
		kinds := map[string]bool{}
		for _, t := range c.Toks {
			kinds[t.K] = true
		}
		f := "error:ws=" + c.Pol.Ws
		if kinds["str"] {
			f += ":str=" + c.Pol.Str
		}
		return f
	}
	i := firstDiff(exp, got)
	k := "end"
	if i >= 0 && i < len(c.Toks) {
		k = c.Toks[i].K
	}
	switch k {
	case "str":
		return "value:str=" + c.Pol.Str
	case "name":
		return "value:name=" + c.Pol.Name
	}
	return "value:" + k + ":ws=" + c.Pol.Ws
}

func c06Check(c *sCase, raw []byte) Result {
	exp := canonToks(c.Toks)
	b := toBytes(c.Bytes)
	nontrivial := c.Pol.Ws != "one" || c.Pol.Str != "lit" || c.Pol.Name != "plain"
	r := Result{OK: true, Nontrivial: nontrivial, Key: string(raw), Evals: 1}
	mk := func(parser, clause string, got []string, err error) Result {
		feat := c06Feature(c, exp, got, err)
		what := fmt.Sprintf("%s parser on %q: ", parser, b)
		if err != nil {
			what += "error " + err.Error()
		} else {
			what += fmt.Sprintf("parsed %v, written tree is %v", got, exp)
		}
		var o interface{} = got
		if err != nil {
			o = err.Error()
		}
		x := fail(clause, "C06:"+parser+":"+feat, what, map[string]interface{}{"case": json.RawMessage(raw), "observed": o, "bytes": string(b)})
		x.Nontrivial, x.Key, x.Evals = nontrivial, string(raw), 1
		return x
	}
	if c.Mode == "object" {
		got, err := parseCore(b)
		if err != nil || firstDiff(exp, got) >= 0 {
			return mk("core", "roundtrip", got, err)
		}
		if !hasRef(c.Toks) {
			r.Evals = 2
			wrapped := append(append([]byte{}, b...), []byte("\nTj")...)
			got2, err := parseCS(wrapped)
			exp2 := append(append([]string{}, exp...), "op:Tj")
			if err != nil || firstDiff(exp2, got2) >= 0 {
				return mk("cs", "operand", got2, err)
			}
			if rep := c06Repeat(raw); rep > 0 {
				// the same operation many times in ONE stream: what the parser keeps between operations (nesting
				// counters, scratch buffers, the operand stack) must be as at the start each time
				if res := c06Repeated(wrapped, exp2, rep); res != "" {
					x := mk("cs", "operand", nil, fmt.Errorf("%s", res))
					x.Sig += ":repeated"
					return x
				}
				r.Evals++
			}
		}
		return r
	}
	got, err := parseCS(b)
	if err != nil || firstDiff(exp, got) >= 0 {
		return mk("cs", "grouping", got, err)
	}
	if rep := c06Repeat(raw); rep > 0 {
		if res := c06Repeated(b, exp, rep); res != "" {
			x := mk("cs", "grouping", nil, fmt.Errorf("%s", res))
			x.Sig += ":repeated"
			return x
		}
		r.Evals++
	}
	return r
}

// c06Repeat: how often a sampled case is repeated in one stream (0 = not sampled): one case in sixteen (quick) or
// four (thorough), chosen by the case's own bytes
func c06Repeat(raw []byte) int {
	h := 0
	for _, b := range raw {
		h = h*31 + int(b)
	}
	mod := 16
	if tier() == "thorough" {
		mod = 4
	}
	if h&0x7fffffff%mod != 0 {
		return 0
	}
	return 40
}

// c06Repeated parses the stream written rep times in a row and compares with exp written rep times
func c06Repeated(stream []byte, exp []string, rep int) string {
	var all []byte
	var want []string
	for k := 0; k < rep; k++ {
		all = append(append(all, stream...), '\n')
		want = append(want, exp...)
	}
	got, err := parseCS(all)
	if err != nil {
		return fmt.Sprintf("the stream written %d times in a row fails: %v", rep, err)
	}
	if d := firstDiff(want, got); d >= 0 {
		return fmt.Sprintf("the stream written %d times in a row differs from %d times its own result at item %d (repetition %d)", rep, rep, d, d/maxInt(len(exp), 1)+1)
	}
	return ""
}

func maxInt(a, b int) int {
	if a > b {
		return a
	}
	return b
}

func c06ReplayCase(i int, raw []byte) Result {
	var c sCase
	if err := json.Unmarshal(raw, &c); err != nil {
		return fail("decode", "decode", err.Error(), nil)
	}
	return c06Check(&c, raw)
}

// ------------------------------------------------------------ Go speller
// Independent of PdfSyntax.tla in code, identical in intent; every output is
// checked against Spell(toks, pol) by PdfSyntaxTrace.tla.

func isWsB(b byte) bool { return b == 0 || b == 9 || b == 10 || b == 12 || b == 13 || b == 32 }
func isDelimB(b byte) bool {
	switch b {
	case '(', ')', '<', '>', '[', ']', '{', '}', '/', '%':
		return true
	}
	return false
}

func eolOf(p sPol) []byte {
	switch p.Eol {
	case "cr":
		return []byte{13}
	case "crlf":
		return []byte{13, 10}
	}
	return []byte{10}
}

func spellTok(t sTok, p sPol) []byte {
	switch t.K {
	case "null", "true", "false", "[", "]", "<<", ">>":
		return []byte(t.K)
	case "int", "real":
		return toBytes(t.Sp)
	case "op":
		return toBytes(t.B)
	case "ref":
		return []byte(fmt.Sprintf("%d %d R", *t.N, *t.G))
	case "name":
		out := []byte{'/'}
		for _, v := range t.B {
			b := byte(v)
			if p.Name == "plain" && !isWsB(b) && !isDelimB(b) && b != '#' && b > 32 && b < 127 {
				out = append(out, b)
			} else {
				out = append(out, []byte(fmt.Sprintf("#%02X", b))...)
			}
		}
		return out
	case "str":
		bs := toBytes(t.B)
		var out []byte
		lit := func(b byte, bal bool) []byte {
			switch {
			case b == '\\':
				return []byte{'\\', '\\'}
			case b == '(' && !bal:
				return []byte{'\\', '('}
			case b == ')' && !bal:
				return []byte{'\\', ')'}
			case b == 13:
				return []byte{'\\', 'r'}
			}
			return []byte{b}
		}
		switch p.Str {
		case "lit":
			out = append(out, '(')
			for _, b := range bs {
				out = append(out, lit(b, t.Bal != nil && *t.Bal)...)
			}
			return append(out, ')')
		case "oct":
			out = append(out, '(')
			for _, b := range bs {
				out = append(out, []byte(fmt.Sprintf("\\%03o", b))...)
			}
			return append(out, ')')
		case "cont":
			out = append(out, '(')
			for i, b := range bs {
				if b == 10 {
					out = append(out, '\\', 'n')
				} else {
					out = append(out, lit(b, false)...)
				}
				if i == 0 {
					out = append(out, '\\')
					out = append(out, eolOf(p)...)
				}
			}
			return append(out, ')')
		case "hex":
			out = append(out, '<')
			for _, b := range bs {
				out = append(out, []byte(fmt.Sprintf("%02X", b))...)
			}
			return append(out, '>')
		case "hexws":
			out = append(out, '<')
			for i, b := range bs {
				h := fmt.Sprintf("%02x", b)
				if i == len(bs)-1 && b%16 == 0 {
					out = append(out, h[0], 10)
				} else {
					out = append(out, h[0], ' ', h[1])
				}
			}
			return append(out, '>')
		}
	}
	panic("spellTok: " + t.K)
}

func spellAll(ts []sTok, p sPol) []byte {
	var out []byte
	var prev []byte
	for i, t := range ts {
		sp := spellTok(t, p)
		if i > 0 {
			switch p.Ws {
			case "min":
				if !((isDelimB(prev[len(prev)-1]) && prev[len(prev)-1] != '/') || isDelimB(sp[0])) {
					out = append(out, ' ')
				}
			case "one":
				out = append(out, ' ')
			case "all":
				out = append(out, 0, 9, 10, 12, 13, 32)
			case "cmt":
				out = append(out, '%', 'c', '!')
				out = append(out, eolOf(p)...)
			case "cmt2":
				out = append(out, '%', 'a')
				out = append(out, eolOf(p)...)
				out = append(out, ' ', '%')
				out = append(out, eolOf(p)...)
			}
		}
		out = append(out, sp...)
		prev = sp
	}
	return out
}

func ip(i int) *int   { return &i }
func bp(b bool) *bool { return &b }
func balanced(b []byte) bool {
	d := 0
	for _, c := range b {
		if c == '(' {
			d++
		} else if c == ')' {
			d--
			if d < 0 {
				return false
			}
		}
	}
	return d == 0
}

// c06Record: each request {"n": trees} yields n events.
func c06Record(in, out string) error {
	type req struct {
		N int `json:"n"`
	}
	return runCases(in, out, func(ci int, raw []byte) Result {
		var q req
		if err := json.Unmarshal(raw, &q); err != nil {
			return fail("decode", "decode", err.Error(), nil)
		}
		rnd := newRand(int64(ci) + 606)
		wsS := []string{"min", "one", "all", "cmt", "cmt2"}
		eolS := []string{"lf", "cr", "crlf"}
		strS := []string{"lit", "oct", "cont", "hex", "hexws"}
		nameS := []string{"plain", "esc"}
		keys := [][]int{{65}, {66, 35}, {67, 32}, {68, 47}, {90}}
		var events []Event
		var res Result
		res.OK = true
		for n := 0; n < q.N; n++ {
			pol := sPol{wsS[rnd.Intn(4)], eolS[rnd.Intn(3)], strS[rnd.Intn(5)], nameS[rnd.Intn(2)]}
			var toks []sTok
			rbytes := func(max int, noNul bool) []int {
				l := rnd.Intn(max + 1)
				b := make([]int, l)
				for i := range b {
					switch rnd.Intn(4) {
					case 0:
						b[i] = []int{40, 41, 92, 13, 10, 35, 37, 47, 255, 0, 32, 60, 62}[rnd.Intn(13)]
					default:
						b[i] = rnd.Intn(256)
					}
					if noNul && b[i] == 0 {
						b[i] = 1
					}
				}
				return b
			}
			var leaf func(prog bool) sTok
			leaf = func(prog bool) sTok {
				for {
					switch rnd.Intn(8) {
					case 0:
						return sTok{K: []string{"null", "true", "false"}[rnd.Intn(3)]}
					case 1:
						v := rnd.Int63n(1<<40) - (1 << 39)
						s := strconv.FormatInt(v, 10)
						sp := s
						if v >= 0 && rnd.Intn(3) == 0 {
							sp = "+" + s
						}
						return sTok{K: "int", Sp: toInts([]byte(sp)), V: toInts([]byte(s))}
					case 2:
						m := rnd.Intn(20001) - 10000
						e := -rnd.Intn(4)
						// spelled as a plain decimal
						f := float64(m) * math.Pow10(e)
						sp := strconv.FormatFloat(f, 'f', 4, 64)
						// re-derive mantissa/exponent from the spelled text exactly
						mm, _ := strconv.Atoi(removeDot(sp))
						return sTok{K: "real", Sp: toInts([]byte(sp)), M: ip(mm), E: ip(-4)}
					case 3, 4:
						b := rbytes(6, false)
						return sTok{K: "str", B: b, Bal: bp(balanced(toBytes(b)))}
					case 5, 6:
						return sTok{K: "name", B: rbytes(5, true)}
					case 7:
						if prog {
							continue
						}
						return sTok{K: "ref", N: ip(1 + rnd.Intn(500)), G: ip(rnd.Intn(3))}
					}
				}
			}
			var value func(depth int, prog bool)
			value = func(depth int, prog bool) {
				if depth < 4 && rnd.Intn(3) == 0 {
					if rnd.Intn(2) == 0 {
						toks = append(toks, sTok{K: "["})
						for i := rnd.Intn(4); i > 0; i-- {
							value(depth+1, prog)
						}
						toks = append(toks, sTok{K: "]"})
					} else {
						toks = append(toks, sTok{K: "<<"})
						nk := rnd.Intn(4)
						for i := 0; i < nk; i++ {
							toks = append(toks, sTok{K: "name", B: keys[i]})
							value(depth+1, prog)
						}
						toks = append(toks, sTok{K: ">>"})
					}
					return
				}
				toks = append(toks, leaf(prog))
			}
			mode := "object"
			if rnd.Intn(2) == 0 {
				mode = "program"
				for o := 1 + rnd.Intn(4); o > 0; o-- {
					for a := rnd.Intn(4); a > 0; a-- {
						value(1, true)
					}
					ops := []string{"Tj", "TJ", "'", "\"", "T*", "BDC", "Do", "cm", "re", "f*", "BT", "ET", "EMC"}
					toks = append(toks, sTok{K: "op", B: toInts([]byte(ops[rnd.Intn(len(ops))]))})
				}
			} else {
				value(0, false)
			}
			b := spellAll(toks, pol)
			c := sCase{Mode: mode, Toks: toks, Pol: pol, Bytes: toInts(b)}
			cr := mustJSON(c)
			r := c06Check(&c, cr)
			ev := Event{"event": "Parse", "mode": mode, "toks": json.RawMessage(mustJSON(toks)), "pol": pol, "bytes": toInts(b), "ok": r.OK}
			events = append(events, ev)
			res.Evals += r.Evals
			if !r.OK && res.OK {
				res = Result{OK: false, Clause: r.Clause, Sig: r.Sig, What: r.What, Replay: r.Replay, Evals: res.Evals}
			}
		}
		res.Events = events
		res.Nontrivial = true
		res.Key = fmt.Sprintf("record-%d-%d", ci, seed())
		return res
	})
}

func removeDot(s string) string {
	out := make([]byte, 0, len(s))
	for i := 0; i < len(s); i++ {
		if s[i] != '.' {
			out = append(out, s[i])
		}
	}
	return string(out)
}

func c06(mode, in, out string) error {
	switch mode {
	case "replay":
		return runCases(in, out, c06ReplayCase)
	case "record":
		return c06Record(in, out)
	}
	return fmt.Errorf("c06: unknown mode %s", mode)
}
