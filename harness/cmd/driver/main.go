// Command driver binds the TLA+ specifications under /verif/specs to the real
// tsawler/tabula code: it replays TLC-generated cases against the packages and
// records traces of real executions for TLC trace validation.
//
//	driver <prop> <mode> <in.ndjson> <out.ndjson>
package main

import (
	"fmt"
	"os"
)

type handler func(mode string, in, out string) error

var handlers = map[string]handler{}

func main() {
	if len(os.Args) < 5 {
		fmt.Fprintln(os.Stderr, "usage: driver <prop> <mode> <in> <out>")
		os.Exit(2)
	}
	h, ok := handlers[os.Args[1]]
	if !ok {
		fmt.Fprintln(os.Stderr, "unknown property", os.Args[1])
		os.Exit(2)
	}
	if err := h(os.Args[2], os.Args[3], os.Args[4]); err != nil {
		fmt.Fprintln(os.Stderr, "driver error:", err)
		os.Exit(2)
	}
}
