package main

// C19 through the EPUB entry point: a book whose chapters are TLC-generated documents
// (rendered as XHTML content documents with disjoint token ranges) is read by
// epubdoc.Reader.TextWithOptions / MarkdownWithOptions in the four modes, by the
// default accessors and by tabula.Open(book.epub).  Each mode's result is held to the
// walker contract (the spec's expectations of the chapters, concatenated) and compared
// with the concatenation of the per-chapter htmldoc results for the same mode, so a
// mode that the entry point maps to another one shows.

import (
	"bytes"
	"encoding/json"
	"encoding/xml"
	"fmt"
	"os"
	"path/filepath"
	"strings"

	"github.com/tsawler/tabula"
	"github.com/tsawler/tabula/epubdoc"
	"github.com/tsawler/tabula/htmldoc"

	"verif/internal/htmlw"
)

type c19Book struct {
	Chapters []c19Case `json:"chapters"`
}

const c19ChapterStride = 300 // token ids of chapter j are shifted by j * stride

func shiftIDs(l []int, off int) []int {
	out := make([]int, len(l))
	for i, v := range l {
		out[i] = v + off
		if v >= htmlw.TitleTok { // head tokens are the same in every chapter
			out[i] = v
		}
	}
	return out
}

// combine builds the expectation of the whole book from the chapters' (token ids shifted).
func combine(chs []c19Case) (c19Case, [][]htmlw.Item) {
	var all c19Case
	var streams [][]htmlw.Item
	for j, c := range chs {
		off := j * c19ChapterStride
		st := htmlw.Shift(c.Stream, off)
		streams = append(streams, st)
		base := len(all.Stream)
		_ = base
		all.Stream = append(all.Stream, st...)
		for _, t := range c.Content {
			all.Content = append(all.Content, tokPair{t.ID + off, t.Form})
		}
		all.Forbidden = append(all.Forbidden, shiftIDs(c.Forbidden, off)...)
		all.CleanN = append(all.CleanN, shiftIDs(c.CleanN, off)...)
		all.CleanE = append(all.CleanE, shiftIDs(c.CleanE, off)...)
		all.CleanS = append(all.CleanS, shiftIDs(c.CleanS, off)...)
		all.CleanA = append(all.CleanA, shiftIDs(c.CleanA, off)...)
		all.Excl += c.Excl
		if c.Depth > all.Depth {
			all.Depth = c.Depth
		}
	}
	return all, streams
}

func epubOpts(m int) epubdoc.ExtractOptions { return epubdoc.ExtractOptions{NavigationExclusion: m} }

func c19EpubCase(i int, raw []byte) Result {
	var bk c19Book
	if err := json.Unmarshal(raw, &bk); err != nil || len(bk.Chapters) == 0 {
		return fail("decode", "decode", fmt.Sprint(err), nil)
	}
	for _, c := range bk.Chapters {
		if c.NTok >= c19ChapterStride {
			panic("machinery: chapter with too many tokens for the id stride")
		}
	}
	all, streams := combine(bk.Chapters)
	var srcs []string
	for _, st := range streams {
		src := htmlw.RenderXHTML(st)
		if err := htmlw.Audit(src, st); err != nil {
			panic(fmt.Sprintf("machinery: the HTML5 parser does not rebuild the generated tree from the XHTML source: %v\n%s", err, src))
		}
		dec := xml.NewDecoder(strings.NewReader(src))
		for {
			if _, err := dec.Token(); err != nil {
				if err.Error() != "EOF" {
					panic(fmt.Sprintf("machinery: chapter is not well-formed XML: %v\n%s", err, src))
				}
				break
			}
		}
		srcs = append(srcs, src)
	}
	data, err := htmlw.EPUB(srcs)
	if err != nil {
		panic("machinery: " + err.Error())
	}
	res := Result{OK: true, Nontrivial: all.Excl > 0 || len(srcs) > 1, Key: "epub" + c19Key(all.Stream)}
	bad := func(clause, feature, what string, obs interface{}) Result {
		x := fail(clause, "C19:"+clause+":"+feature, fmt.Sprintf("[epub, %d chapter(s)] %s", len(srcs), what),
			map[string]interface{}{"case": json.RawMessage(raw), "observed": obs})
		x.Nontrivial, x.Key, x.Evals = res.Nontrivial, res.Key, res.Evals
		return x
	}
	rd, err := epubdoc.OpenReader(bytes.NewReader(data), int64(len(data)))
	if err != nil {
		return bad("error", "epub-open", "the valid book is rejected: "+err.Error(), nil)
	}
	defer rd.Close()
	if n := rd.ChapterCount(); n != len(srcs) {
		return bad("error", "epub-chapters", fmt.Sprintf("%d chapters read, %d in the spine", n, len(srcs)), nil)
	}
	// per-chapter htmldoc results (the reference the EPUB entry must agree with), per mode
	ref := map[string][][]tokPair{"text": make([][]tokPair, 4), "markdown": make([][]tokPair, 4)}
	for _, src := range srcs {
		hr, err := htmldoc.OpenReader(strings.NewReader(src))
		if err != nil {
			panic("machinery: " + err.Error())
		}
		for m := 0; m < 4; m++ {
			o := htmldoc.ExtractOptions{NavigationExclusion: htmldoc.NavigationExclusionMode(m)}
			t, _ := hr.TextWithOptions(o)
			md, _ := hr.MarkdownWithOptions(o)
			ref["text"][m] = append(ref["text"][m], scanHTMLTokens(t)...)
			ref["markdown"][m] = append(ref["markdown"][m], scanHTMLTokens(md)...)
		}
		hr.Close()
	}
	for _, out := range []string{"text", "markdown"} {
		g := c19Group{Entry: "reader", Out: out, Modes: c19Modes}
		for m := 0; m < 4; m++ {
			var s string
			var e error
			if out == "text" {
				s, e = rd.TextWithOptions(epubOpts(m))
			} else {
				s, e = rd.MarkdownWithOptions(epubOpts(m))
			}
			res.Evals++
			if e != nil {
				g.Err = e.Error()
			}
			g.Toks = append(g.Toks, scanHTMLTokens(s))
			g.Raw = append(g.Raw, s)
		}
		// the walker contract through this entry point
		if f := c19CheckGroup(&all, g); f != nil {
			return bad(f.clause, "epub:"+strings.TrimSuffix(f.feature, ":"), fmt.Sprintf("epubdoc %s: %s", out, f.what), g.Toks)
		}
		// and agreement with the chapters read one by one in the same mode
		for m := 0; m < 4; m++ {
			if !pairsEq(g.Toks[m], ref[out][m]) {
				like := "no mode"
				for k := 0; k < 4; k++ {
					if pairsEq(g.Toks[m], ref[out][k]) {
						like = c19Modes[k]
						break
					}
				}
				return bad("entry-mode", "epub:"+c19Modes[m], fmt.Sprintf("epubdoc %s in mode %s returns %v, the chapters read by htmldoc in mode %s give %v (the EPUB result equals htmldoc's for %s)", out, c19Modes[m], g.Toks[m], c19Modes[m], ref[out][m], like), g.Toks)
			}
		}
	}
	// default accessors: Text() / Markdown() = the zero options (mode None)
	dt, _ := rd.Text()
	dm, _ := rd.Markdown()
	res.Evals += 2
	if !pairsEq(scanHTMLTokens(dt), ref["text"][0]) || !pairsEq(scanHTMLTokens(dm), ref["markdown"][0]) {
		return bad("entry-mode", "epub:default", fmt.Sprintf("epubdoc Text()/Markdown() return %v / %v, mode none gives %v", scanHTMLTokens(dt), scanHTMLTokens(dm), ref["text"][0]), nil)
	}
	// Document(): no mode parameter - content no mode may exclude (like the string entry)
	if d, err := rd.Document(); err == nil {
		res.Evals++
		g := c19Group{Entry: "epub", Out: "document", Modes: c19Modes[:1], Toks: [][]tokPair{scanHTMLTokens(modelText(d))}}
		if f := c19CheckGroup(&all, g); f != nil {
			return bad(f.clause, "epub:"+strings.TrimSuffix(f.feature, ":"), "epubdoc Document(): "+f.what, g.Toks)
		}
	} else {
		return bad("error", "epub-document", err.Error(), nil)
	}
	// tabula.Open(book.epub)
	if i%4 == 0 {
		dir := filepath.Join(os.Getenv("VERIF_SCRATCH"), "c19files")
		os.MkdirAll(dir, 0o755)
		path := filepath.Join(dir, fmt.Sprintf("book%d.epub", i))
		if err := os.WriteFile(path, data, 0o644); err != nil {
			panic("machinery: " + err.Error())
		}
		s, _, e := tabula.Open(path).Text()
		md, _, e2 := tabula.Open(path).ToMarkdown()
		os.Remove(path)
		res.Evals += 2
		if e != nil || e2 != nil {
			return bad("error", "epub-file", fmt.Sprint(e, e2), nil)
		}
		for _, g := range []c19Group{{Entry: "epub-file", Out: "text", Modes: c19Modes[:1], Toks: [][]tokPair{scanHTMLTokens(s)}, Raw: []string{s}},
			{Entry: "epub-file", Out: "markdown", Modes: c19Modes[:1], Toks: [][]tokPair{scanHTMLTokens(md)}}} {
			if f := c19CheckGroup(&all, g); f != nil {
				return bad(f.clause, "epub:"+strings.TrimSuffix(f.feature, ":"), "tabula.Open(book.epub): "+f.what, g.Toks)
			}
		}
	}
	// one epubdoc.Reader asked in decreasing strictness, then again: every call repeats
	// what a freshly opened reader returns
	for _, m := range []int{3, 2, 1, 0, 3} {
		s, _ := rd.TextWithOptions(epubOpts(m))
		fr, err := epubdoc.OpenReader(bytes.NewReader(data), int64(len(data)))
		if err != nil {
			panic("machinery: " + err.Error())
		}
		w, _ := fr.TextWithOptions(epubOpts(m))
		fr.Close()
		res.Evals += 2
		if s != w {
			return bad("history", "epub:"+c19Modes[m], fmt.Sprintf("one epubdoc.Reader, mode %s after stricter modes returns %v; a fresh reader %v", c19Modes[m], scanHTMLTokens(s), scanHTMLTokens(w)), nil)
		}
	}
	return res
}
