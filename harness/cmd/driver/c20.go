package main

// C20 — Admission.tla binding: minimal valid documents of the seven formats are
// named, ordered and decorated as the specification's decision table says, then
// offered to format.DetectFromReader and tabula.Open.

import (
	"archive/zip"
	"bytes"
	"encoding/json"
	"errors"
	"fmt"
	"os"
	"path/filepath"
	"strings"

	"verif/internal/pdfdoc"

	tabula "github.com/tsawler/tabula"
	"github.com/tsawler/tabula/epubdoc"
	"github.com/tsawler/tabula/format"
)

func init() { handlers["c20"] = c20 }

type zmember struct {
	name   string
	data   string
	stored bool
}

const c20Token = "admtokenqz"

func docxMembers() []zmember {
	return []zmember{
		{"[Content_Types].xml", `<?xml version="1.0" encoding="UTF-8" standalone="yes"?><Types xmlns="http://schemas.openxmlformats.org/package/2006/content-types"><Default Extension="rels" ContentType="application/vnd.openxmlformats-package.relationships+xml"/><Default Extension="xml" ContentType="application/xml"/><Override PartName="/word/document.xml" ContentType="application/vnd.openxmlformats-officedocument.wordprocessingml.document.main+xml"/></Types>`, false},
		{"_rels/.rels", `<?xml version="1.0" encoding="UTF-8" standalone="yes"?><Relationships xmlns="http://schemas.openxmlformats.org/package/2006/relationships"><Relationship Id="rId1" Type="http://schemas.openxmlformats.org/officeDocument/2006/relationships/officeDocument" Target="word/document.xml"/></Relationships>`, false},
		{"word/document.xml", `<?xml version="1.0" encoding="UTF-8" standalone="yes"?><w:document xmlns:w="http://schemas.openxmlformats.org/wordprocessingml/2006/main"><w:body><w:p><w:r><w:t>` + c20Token + `</w:t></w:r></w:p></w:body></w:document>`, false},
	}
}

func xlsxMembers() []zmember {
	return []zmember{
		{"[Content_Types].xml", `<?xml version="1.0" encoding="UTF-8" standalone="yes"?><Types xmlns="http://schemas.openxmlformats.org/package/2006/content-types"><Default Extension="rels" ContentType="application/vnd.openxmlformats-package.relationships+xml"/><Default Extension="xml" ContentType="application/xml"/><Override PartName="/xl/workbook.xml" ContentType="application/vnd.openxmlformats-officedocument.spreadsheetml.sheet.main+xml"/><Override PartName="/xl/worksheets/sheet1.xml" ContentType="application/vnd.openxmlformats-officedocument.spreadsheetml.worksheet+xml"/></Types>`, false},
		{"_rels/.rels", `<?xml version="1.0" encoding="UTF-8" standalone="yes"?><Relationships xmlns="http://schemas.openxmlformats.org/package/2006/relationships"><Relationship Id="rId1" Type="http://schemas.openxmlformats.org/officeDocument/2006/relationships/officeDocument" Target="xl/workbook.xml"/></Relationships>`, false},
		{"xl/workbook.xml", `<?xml version="1.0" encoding="UTF-8" standalone="yes"?><workbook xmlns="http://schemas.openxmlformats.org/spreadsheetml/2006/main" xmlns:r="http://schemas.openxmlformats.org/officeDocument/2006/relationships"><sheets><sheet name="S1" sheetId="1" r:id="rId1"/></sheets></workbook>`, false},
		{"xl/_rels/workbook.xml.rels", `<?xml version="1.0" encoding="UTF-8" standalone="yes"?><Relationships xmlns="http://schemas.openxmlformats.org/package/2006/relationships"><Relationship Id="rId1" Type="http://schemas.openxmlformats.org/officeDocument/2006/relationships/worksheet" Target="worksheets/sheet1.xml"/></Relationships>`, false},
		{"xl/worksheets/sheet1.xml", `<?xml version="1.0" encoding="UTF-8" standalone="yes"?><worksheet xmlns="http://schemas.openxmlformats.org/spreadsheetml/2006/main"><sheetData><row r="1"><c r="A1" t="inlineStr"><is><t>` + c20Token + `</t></is></c></row></sheetData></worksheet>`, false},
	}
}

func pptxMembers() []zmember {
	return []zmember{
		{"[Content_Types].xml", `<?xml version="1.0" encoding="UTF-8" standalone="yes"?><Types xmlns="http://schemas.openxmlformats.org/package/2006/content-types"><Default Extension="rels" ContentType="application/vnd.openxmlformats-package.relationships+xml"/><Default Extension="xml" ContentType="application/xml"/><Override PartName="/ppt/presentation.xml" ContentType="application/vnd.openxmlformats-officedocument.presentationml.presentation.main+xml"/><Override PartName="/ppt/slides/slide1.xml" ContentType="application/vnd.openxmlformats-officedocument.presentationml.slide+xml"/></Types>`, false},
		{"_rels/.rels", `<?xml version="1.0" encoding="UTF-8" standalone="yes"?><Relationships xmlns="http://schemas.openxmlformats.org/package/2006/relationships"><Relationship Id="rId1" Type="http://schemas.openxmlformats.org/officeDocument/2006/relationships/officeDocument" Target="ppt/presentation.xml"/></Relationships>`, false},
		{"ppt/presentation.xml", `<?xml version="1.0" encoding="UTF-8" standalone="yes"?><p:presentation xmlns:p="http://schemas.openxmlformats.org/presentationml/2006/main" xmlns:r="http://schemas.openxmlformats.org/officeDocument/2006/relationships"><p:sldIdLst><p:sldId id="256" r:id="rId1"/></p:sldIdLst></p:presentation>`, false},
		{"ppt/_rels/presentation.xml.rels", `<?xml version="1.0" encoding="UTF-8" standalone="yes"?><Relationships xmlns="http://schemas.openxmlformats.org/package/2006/relationships"><Relationship Id="rId1" Type="http://schemas.openxmlformats.org/officeDocument/2006/relationships/slide" Target="slides/slide1.xml"/></Relationships>`, false},
		{"ppt/slides/slide1.xml", `<?xml version="1.0" encoding="UTF-8" standalone="yes"?><p:sld xmlns:p="http://schemas.openxmlformats.org/presentationml/2006/main" xmlns:a="http://schemas.openxmlformats.org/drawingml/2006/main"><p:cSld><p:spTree><p:nvGrpSpPr><p:cNvPr id="1" name=""/><p:cNvGrpSpPr/><p:nvPr/></p:nvGrpSpPr><p:grpSpPr/><p:sp><p:nvSpPr><p:cNvPr id="2" name="T"/><p:cNvSpPr/><p:nvPr/></p:nvSpPr><p:spPr/><p:txBody><a:bodyPr/><a:p><a:r><a:t>` + c20Token + `</a:t></a:r></a:p></p:txBody></p:sp></p:spTree></p:cSld></p:sld>`, false},
	}
}

func odtMembers() []zmember {
	return []zmember{
		{"mimetype", "application/vnd.oasis.opendocument.text", true},
		{"content.xml", `<?xml version="1.0" encoding="UTF-8"?><office:document-content xmlns:office="urn:oasis:names:tc:opendocument:xmlns:office:1.0" xmlns:text="urn:oasis:names:tc:opendocument:xmlns:text:1.0" office:version="1.2"><office:body><office:text><text:p>` + c20Token + `</text:p></office:text></office:body></office:document-content>`, false},
		{"META-INF/manifest.xml", `<?xml version="1.0" encoding="UTF-8"?><manifest:manifest xmlns:manifest="urn:oasis:names:tc:opendocument:xmlns:manifest:1.0" manifest:version="1.2"><manifest:file-entry manifest:full-path="/" manifest:media-type="application/vnd.oasis.opendocument.text"/><manifest:file-entry manifest:full-path="content.xml" manifest:media-type="text/xml"/></manifest:manifest>`, false},
	}
}

type epubCfg struct {
	Rights bool     `json:"rights"`
	Enc    []string `json:"enc"`
	Algo   string   `json:"algo"`
	URI    string   `json:"uri"`
}

func epubMembers(e epubCfg) []zmember {
	xh := func(t string) string {
		return `<?xml version="1.0" encoding="UTF-8"?><html xmlns="http://www.w3.org/1999/xhtml"><head><title>t</title></head><body><p>` + t + `</p></body></html>`
	}
	ms := []zmember{
		{"mimetype", "application/epub+zip", true},
		{"META-INF/container.xml", `<?xml version="1.0"?><container version="1.0" xmlns="urn:oasis:names:tc:opendocument:xmlns:container"><rootfiles><rootfile full-path="OEBPS/content.opf" media-type="application/oebps-package+xml"/></rootfiles></container>`, false},
		{"OEBPS/content.opf", `<?xml version="1.0" encoding="UTF-8"?><package xmlns="http://www.idpf.org/2007/opf" version="3.0" unique-identifier="id"><metadata xmlns:dc="http://purl.org/dc/elements/1.1/"><dc:identifier id="id">urn:uuid:1</dc:identifier><dc:title>T</dc:title><dc:language>en</dc:language><meta property="dcterms:modified">2020-01-01T00:00:00Z</meta></metadata><manifest><item id="nav" href="nav.xhtml" media-type="application/xhtml+xml" properties="nav"/><item id="ch1" href="ch1.xhtml" media-type="application/xhtml+xml"/><item id="ch2" href="ch2.xht" media-type="application/xhtml+xml"/><item id="font" href="fonts/f.otf" media-type="font/otf"/><item id="font2" href="fonts/g.ttf" media-type="font/ttf"/><item id="font3" href="fonts/h.woff" media-type="font/woff"/><item id="img" href="img/i.png" media-type="image/png"/></manifest><spine><itemref idref="ch1"/><itemref idref="ch2"/></spine></package>`, false},
		{"OEBPS/nav.xhtml", `<?xml version="1.0" encoding="UTF-8"?><html xmlns="http://www.w3.org/1999/xhtml" xmlns:epub="http://www.idpf.org/2007/ops"><head><title>n</title></head><body><nav epub:type="toc"><ol><li><a href="ch1.xhtml">one</a></li></ol></nav></body></html>`, false},
		{"OEBPS/ch1.xhtml", xh(c20Token), false},
		{"OEBPS/ch2.xht", xh("second" + c20Token), false},
		{"OEBPS/fonts/f.otf", "OTTOfontbytes", false},
		{"OEBPS/fonts/g.ttf", "ttfbytes", false},
		{"OEBPS/fonts/h.woff", "wOFFbytes", false},
		{"OEBPS/img/i.png", "\x89PNG\r\n\x1a\nimg", false},
	}
	if e.Rights {
		ms = append(ms, zmember{"META-INF/rights.xml", `<?xml version="1.0"?><rights xmlns="http://ns.adobe.com/adept"/>`, false})
	}
	if len(e.Enc) > 0 {
		algo := map[string]string{
			"idpf-obf":  "http://www.idpf.org/2008/embedding",
			"adobe-obf": "http://ns.adobe.com/pdf/enc#RC",
			"aes128":    "http://www.w3.org/2001/04/xmlenc#aes128-cbc",
			"aes256":    "http://www.w3.org/2001/04/xmlenc#aes256-cbc",
			"unknown":   "http://example.org/secret-cipher",
		}[e.Algo]
		paths := map[string]string{"ch1": "OEBPS/ch1.xhtml", "ch2": "OEBPS/ch2.xht", "font": "OEBPS/fonts/f.otf", "font2": "OEBPS/fonts/g.ttf", "font3": "OEBPS/fonts/h.woff", "img": "OEBPS/img/i.png"}
		var b strings.Builder
		b.WriteString(`<?xml version="1.0" encoding="UTF-8"?><encryption xmlns="urn:oasis:names:tc:opendocument:xmlns:container" xmlns:enc="http://www.w3.org/2001/04/xmlenc#">`)
		for _, k := range e.Enc {
			uri := paths[k]
			if e.URI == "dotslash" {
				uri = "./" + uri
			}
			fmt.Fprintf(&b, `<enc:EncryptedData><enc:EncryptionMethod Algorithm="%s"/><enc:CipherData><enc:CipherReference URI="%s"/></enc:CipherData></enc:EncryptedData>`, algo, uri)
		}
		b.WriteString(`</encryption>`)
		ms = append(ms, zmember{"META-INF/encryption.xml", b.String(), false})
	}
	if e.URI == "upper" {
		// the content documents carry upper-case suffixes, consistently in the archive,
		// the manifest and encryption.xml
		for i := range ms {
			for _, p := range [][2]string{{"ch1.xhtml", "ch1.XHTML"}, {"ch2.xht", "ch2.XHT"}} {
				ms[i].name = strings.ReplaceAll(ms[i].name, p[0], p[1])
				ms[i].data = strings.ReplaceAll(ms[i].data, p[0], p[1])
			}
		}
	}
	return ms
}

func zipOf(ms []zmember) ([]byte, error) {
	var buf bytes.Buffer
	zw := zip.NewWriter(&buf)
	for _, m := range ms {
		h := &zip.FileHeader{Name: m.name, Method: zip.Deflate}
		if m.stored {
			h.Method = zip.Store
		}
		w, err := zw.CreateHeader(h)
		if err != nil {
			return nil, err
		}
		if _, err := w.Write([]byte(m.data)); err != nil {
			return nil, err
		}
	}
	if err := zw.Close(); err != nil {
		return nil, err
	}
	return buf.Bytes(), nil
}

type admCase struct {
	Mode     string  `json:"mode"`
	Kind     string  `json:"kind"`
	Ext      string  `json:"ext"`
	Ecase    string  `json:"ecase"`
	Order    string  `json:"order"`
	Decoy    string  `json:"decoy"`
	Epub     epubCfg `json:"epub"`
	Expected struct {
		Detect string `json:"detect"`
		Open   string `json:"open"`
	} `json:"expected"`
}

func c20Bytes(c *admCase) ([]byte, error) {
	var ms []zmember
	switch c.Kind {
	case "pdf":
		return pdfdoc.BuildSimple([][]pdfdoc.Placed{{{X: 72, Y: 700, Size: 12, Text: c20Token}}}, 612, 792)
	case "html":
		return []byte("<!DOCTYPE html>\n<html><head><title>t</title></head><body><p>" + c20Token + "</p></body></html>"), nil
	case "docx":
		ms = docxMembers()
	case "xlsx":
		ms = xlsxMembers()
	case "pptx":
		ms = pptxMembers()
	case "odt":
		ms = odtMembers()
	case "epub":
		ms = epubMembers(c.Epub)
	}
	// the "mimetype" member of ODF / EPUB stays first (required by both standards); everything else may move
	fixed := 0
	if len(ms) > 0 && ms[0].name == "mimetype" {
		fixed = 1
	}
	rest := ms[fixed:]
	if c.Order == "reversed" || c.Order == "decoyfirst" {
		for i, j := 0, len(rest)-1; i < j; i, j = i+1, j-1 {
			rest[i], rest[j] = rest[j], rest[i]
		}
	}
	if c.Decoy != "none" {
		d := zmember{c.Decoy + "/decoy-unreferenced.xml", `<?xml version="1.0"?><decoy/>`, false}
		if c.Order == "decoyfirst" {
			rest = append([]zmember{d}, rest...)
		} else {
			rest = append(rest, d)
		}
	}
	return zipOf(append(ms[:fixed:fixed], rest...))
}

func fmtName(f format.Format) string { return strings.ToLower(f.String()) }

func c20Case(i int, raw []byte) Result {
	var c admCase
	if err := json.Unmarshal(raw, &c); err != nil {
		return fail("decode", "decode", err.Error(), nil)
	}
	data, err := c20Bytes(&c)
	if err != nil {
		return Result{OK: false, Sig: "MACHINERY:writer", What: err.Error()}
	}
	nontrivial := c.Mode == "drm" || c.Ext != c.Kind || c.Decoy != "none" || c.Order != "canonical" || c.Ecase != "lower"
	r := Result{OK: true, Nontrivial: nontrivial, Key: string(raw), Evals: 2}
	mk := func(cl, feat, what string, obs interface{}) Result {
		x := fail(cl, "C20:"+cl+":"+feat, what, map[string]interface{}{"case": json.RawMessage(raw), "observed": obs})
		x.Nontrivial, x.Key, x.Evals = nontrivial, r.Key, 2
		return x
	}
	// detection from content
	det, derr := format.DetectFromReader(bytes.NewReader(data), int64(len(data)))
	if derr != nil || fmtName(det) != c.Expected.Detect {
		return mk("detect", fmt.Sprintf("%s:order=%s:decoy=%s", c.Kind, c.Order, c.Decoy),
			fmt.Sprintf("DetectFromReader names %s (err %v) for a valid %s document (member order %s, decoy %s)", det, derr, c.Kind, c.Order, c.Decoy), fmtName(det))
	}
	// opening under the chosen name
	ext := c.Ext
	switch c.Ecase {
	case "upper":
		ext = strings.ToUpper(ext)
	case "mixed":
		if len(ext) > 1 {
			ext = strings.ToUpper(ext[:1]) + ext[1:]
		}
	}
	name := fmt.Sprintf("c20-%d-%d", os.Getpid(), i)
	if c.Ext != "none" {
		name += "." + ext
	}
	dir := os.Getenv("VERIF_SCRATCH")
	if dir == "" {
		dir = os.TempDir()
	}
	path := filepath.Join(dir, name)
	if err := os.WriteFile(path, data, 0o644); err != nil {
		return Result{OK: false, Sig: "MACHINERY:io", What: err.Error()}
	}
	defer os.Remove(path)
	txt, _, oerr := tabula.Open(path).Text()
	verdict := "opens"
	if oerr != nil {
		verdict = "refused"
	}
	ev := Event{"event": "Admit", "mode": c.Mode, "kind": c.Kind, "ext": c.Ext, "detect": fmtName(det), "open": verdict, "epub": c.Epub}
	if c.Mode == "drm" {
		ev["drm"] = errors.Is(oerr, epubdoc.ErrDRMProtected)
	}
	r.Events = []Event{ev}
	switch c.Expected.Open {
	case "opens":
		feat := fmt.Sprintf("%s:order=%s:decoy=%s:case=%s", c.Kind, c.Order, c.Decoy, c.Ecase)
		if c.Mode == "drm" {
			feat = fmt.Sprintf("drm:%s:%v", c.Epub.Algo, c.Epub.Enc)
		}
		if oerr != nil {
			return mk("refused-own", feat, fmt.Sprintf("a valid %s document named *.%s was refused: %v", c.Kind, ext, oerr), oerr.Error())
		}
		if !strings.Contains(txt, c20Token) {
			return mk("misparsed", feat, fmt.Sprintf("a valid %s document named *.%s opened but its text %q lacks the content", c.Kind, ext, txt), txt)
		}
	case "refused":
		if c.Mode == "drm" {
			if oerr == nil {
				which := ""
				for _, k := range c.Epub.Enc {
					if k == "ch1" || k == "ch2" {
						which += k
					}
				}
				if c.Epub.Rights {
					which = "rights"
				}
				return mk("drm-admitted", which+":uri="+c.Epub.URI,
					fmt.Sprintf("an EPUB whose content documents %v are encrypted with %s (rights file: %v) was opened; text %q", c.Epub.Enc, c.Epub.Algo, c.Epub.Rights, txt), txt)
			}
			if !errors.Is(oerr, epubdoc.ErrDRMProtected) {
				return mk("drm-wrong-error", c.Epub.Algo, fmt.Sprintf("DRM-protected EPUB refused with %v, not ErrDRMProtected", oerr), oerr.Error())
			}
		} else if oerr == nil {
			return mk("admitted-foreign", fmt.Sprintf("%s-as-%s", c.Kind, c.Ext), fmt.Sprintf("%s bytes named *.%s were opened instead of refused (text %q)", c.Kind, ext, txt), txt)
		}
	}
	return r
}

func c20(mode, in, out string) error {
	switch mode {
	case "replay":
		return runCases(in, out, c20Case)
	}
	return fmt.Errorf("c20: unknown mode %s", mode)
}
