package main

// C20 — Admission.tla binding: minimal valid documents of the seven formats are
// named, ordered and decorated as the specification's decision table says, then
// offered to format.DetectFromReader and tabula.Open.

import (
	"bytes"
	"encoding/json"
	"errors"
	"fmt"
	"os"
	"path/filepath"
	"strings"

	"verif/internal/pdfdoc"

	tabula "github.com/tsawler/tabula"
	"github.com/tsawler/tabula/epubdoc"
	"github.com/tsawler/tabula/format"
)

func init() { handlers["c20"] = c20 }

type admCase struct {
	Mode     string  `json:"mode"`
	Kind     string  `json:"kind"`
	Ext      string  `json:"ext"`
	Ecase    string  `json:"ecase"`
	Order    string  `json:"order"`
	Decoy    string  `json:"decoy"`
	Epub     epubCfg `json:"epub"`
	Tgt      string  `json:"tgt"`
	Then     string  `json:"then"`
	Conf     string  `json:"conf"`
	Expected struct {
		Detect string `json:"detect"`
		Open   string `json:"open"`
		Open2  string `json:"open2"`
	} `json:"expected"`
}

func c20Bytes(c *admCase) ([]byte, error) {
	var ms []zmember
	switch c.Kind {
	case "pdf":
		return pdfdoc.BuildSimple([][]pdfdoc.Placed{{{X: 72, Y: 700, Size: 12, Text: c20Token}}}, 612, 792)
	case "html":
		title, lead := "t", ""
		switch c.Decoy {
		case "magic-pdf":
			title = "About %PDF-1.7 files"
		case "magic-zip":
			lead = "<!-- PK\x03\x04 -->"
		}
		return []byte("<!DOCTYPE html>\n" + lead + "<html><head><title>" + title + "</title></head><body><p>" + c20Token + "</p></body></html>"), nil
	case "docx":
		ms = docxMembers()
	case "xlsx":
		ms = xlsxMembers()
	case "pptx":
		ms = pptxMembers()
	case "odt":
		ms = odtMembers()
	case "epub":
		ms = epubMembers(c.Epub)
	}
	if c.Conf == "strict" {
		// ISO/IEC 29500 Strict: the purl.oclc.org namespace family in every part and relationship type
		for i := range ms {
			for _, r := range [][2]string{
				{"http://schemas.openxmlformats.org/officeDocument/2006/relationships", "http://purl.oclc.org/ooxml/officeDocument/relationships"},
				{"http://schemas.openxmlformats.org/spreadsheetml/2006/main", "http://purl.oclc.org/ooxml/spreadsheetml/main"},
				{"http://schemas.openxmlformats.org/presentationml/2006/main", "http://purl.oclc.org/ooxml/presentationml/main"},
				{"http://schemas.openxmlformats.org/drawingml/2006/main", "http://purl.oclc.org/ooxml/drawingml/main"}} {
				ms[i].data = strings.ReplaceAll(ms[i].data, r[0], r[1])
			}
		}
	}
	// spelling of the main part in the package relationships (_rels/.rels)
	if c.Tgt == "abs" || c.Tgt == "dot" {
		for i := range ms {
			if ms[i].name == "_rels/.rels" {
				pre := "/"
				if c.Tgt == "dot" {
					pre = "./"
				}
				for _, dir := range []string{"word/", "xl/", "ppt/"} {
					ms[i].data = strings.Replace(ms[i].data, `Target="`+dir, `Target="`+pre+dir, 1)
				}
			}
		}
	}
	// the "mimetype" member of ODF / EPUB stays first (required by both standards); everything else may move
	fixed := 0
	if len(ms) > 0 && ms[0].name == "mimetype" {
		fixed = 1
	}
	rest := ms[fixed:]
	if strings.HasPrefix(c.Order, "mimelast") && fixed == 1 {
		// the mimetype member moves to the end of the archive
		rest = append(append([]zmember{}, rest...), ms[0])
		fixed = 0
		ms = nil
	}
	if c.Order == "reversed" || c.Order == "decoyfirst" {
		for i, j := 0, len(rest)-1; i < j; i, j = i+1, j-1 {
			rest[i], rest[j] = rest[j], rest[i]
		}
	}
	if strings.HasPrefix(c.Decoy, "magic-") {
		// a stored (uncompressed) first member that carries another format's signature in the clear
		d := zmember{"attachments/a1.pdf", "%PDF-1.4\n1 0 obj\n<< /Type /Catalog >>\nendobj\n", true}
		if c.Decoy == "magic-html" {
			d = zmember{"attachments/a1.html", "<!DOCTYPE html><html><body><p>stray</p></body></html>", true}
		}
		rest = append([]zmember{d}, rest...)
	} else if c.Decoy != "none" {
		dir := strings.TrimSuffix(c.Decoy, "+rels")
		ds := []zmember{{dir + "/decoy-unreferenced.xml", `<?xml version="1.0"?><decoy/>`, false}}
		if strings.HasSuffix(c.Decoy, "+rels") {
			// the stray part of another format together with a package relationship naming it (still no OOXML package:
			// there is no [Content_Types].xml, and the mimetype member says what the package is)
			main := map[string]string{"word": "word/document.xml", "xl": "xl/workbook.xml", "ppt": "ppt/presentation.xml"}[dir]
			ds = []zmember{
				{"_rels/.rels", `<?xml version="1.0" encoding="UTF-8" standalone="yes"?><Relationships xmlns="http://schemas.openxmlformats.org/package/2006/relationships"><Relationship Id="rId1" Type="http://schemas.openxmlformats.org/officeDocument/2006/relationships/officeDocument" Target="` + main + `"/></Relationships>`, false},
				{main, `<?xml version="1.0"?><stray>StrayPartText</stray>`, false}}
		}
		if c.Order == "decoyfirst" || c.Order == "mimelast-decoyfirst" {
			rest = append(ds, rest...)
		} else {
			rest = append(rest, ds...)
		}
	}
	if fixed == 0 {
		return zipOf(rest)
	}
	return zipOf(append(ms[:fixed:fixed], rest...))
}

func fmtName(f format.Format) string { return strings.ToLower(f.String()) }

func c20Case(i int, raw []byte) Result {
	var c admCase
	if err := json.Unmarshal(raw, &c); err != nil {
		return fail("decode", "decode", err.Error(), nil)
	}
	data, err := c20Bytes(&c)
	if err != nil {
		return Result{OK: false, Sig: "MACHINERY:writer", What: err.Error()}
	}
	nontrivial := c.Mode == "drm" || c.Ext != c.Kind || c.Decoy != "none" || c.Order != "canonical" || c.Ecase != "lower"
	r := Result{OK: true, Nontrivial: nontrivial, Key: string(raw), Evals: 2}
	mk := func(cl, feat, what string, obs interface{}) Result {
		x := fail(cl, "C20:"+cl+":"+feat, what, map[string]interface{}{"case": json.RawMessage(raw), "observed": obs})
		x.Nontrivial, x.Key, x.Evals = nontrivial, r.Key, 2
		return x
	}
	// detection from content
	det, derr := format.DetectFromReader(bytes.NewReader(data), int64(len(data)))
	if derr != nil || fmtName(det) != c.Expected.Detect {
		return mk("detect", fmt.Sprintf("%s:order=%s:decoy=%s:tgt=%s:conf=%s", c.Kind, c.Order, c.Decoy, c.Tgt, c.Conf),
			fmt.Sprintf("DetectFromReader names %s (err %v) for a valid %s document (member order %s, decoy %s, main part named %s)", det, derr, c.Kind, c.Order, c.Decoy, c.Tgt), fmtName(det))
	}
	// opening under the chosen name
	ext := c.Ext
	switch c.Ecase {
	case "upper":
		ext = strings.ToUpper(ext)
	case "mixed":
		if len(ext) > 1 {
			ext = strings.ToUpper(ext[:1]) + ext[1:]
		}
	}
	name := fmt.Sprintf("c20-%d-%d", os.Getpid(), i)
	if c.Ext != "none" {
		name += "." + ext
	}
	dir := os.Getenv("VERIF_SCRATCH")
	if dir == "" {
		dir = os.TempDir()
	}
	path := filepath.Join(dir, name)
	if err := os.WriteFile(path, data, 0o644); err != nil {
		return Result{OK: false, Sig: "MACHINERY:io", What: err.Error()}
	}
	defer os.Remove(path)
	if c.Mode == "rewrite" {
		// first decision on the original bytes, then the bytes under the same name are replaced and it is opened again
		c2 := c
		c2.Kind = c.Then
		data2, err := c20Bytes(&c2)
		if err != nil {
			return Result{OK: false, Sig: "MACHINERY:writer", What: err.Error()}
		}
		r.Nontrivial, r.Evals = true, 3
		verdictOf := func() (string, string, error) {
			t, _, e := tabula.Open(path).Text()
			if e != nil {
				return "refused", t, e
			}
			return "opens", t, nil
		}
		v1, _, e1 := verdictOf()
		if err := os.WriteFile(path, data2, 0o644); err != nil {
			return Result{OK: false, Sig: "MACHINERY:io", What: err.Error()}
		}
		v2, t2, e2 := verdictOf()
		r.Events = []Event{{"event": "Admit", "mode": "admit", "kind": c.Kind, "ext": c.Ext, "detect": fmtName(det), "open": v1, "epub": c.Epub},
			{"event": "Admit", "mode": "admit", "kind": c.Then, "ext": c.Ext, "detect": c.Then, "open": v2, "epub": c.Epub}}
		feat := fmt.Sprintf("%s-then-%s-as-%s", c.Kind, c.Then, c.Ext)
		if c.Expected.Open != "unspecified" && v1 != c.Expected.Open {
			return mk("rewrite-first", feat, fmt.Sprintf("%s bytes named *.%s: %s (%v), expected %s", c.Kind, ext, v1, e1, c.Expected.Open), v1)
		}
		if c.Expected.Open2 != "unspecified" && v2 != c.Expected.Open2 {
			return mk("rewrite-stale", feat, fmt.Sprintf("after the bytes named *.%s were replaced (%s -> %s) the file %s (%v; text %q); a file of these bytes opened for the first time %s",
				ext, c.Kind, c.Then, v2, e2, t2, c.Expected.Open2), v2)
		}
		if v2 == "opens" && !strings.Contains(t2, c20Token) {
			return mk("rewrite-misparsed", feat, fmt.Sprintf("after the bytes named *.%s were replaced (%s -> %s) the file opened but its text %q lacks the content", ext, c.Kind, c.Then, t2), t2)
		}
		return r
	}
	txt, _, oerr := tabula.Open(path).Text()
	verdict := "opens"
	if oerr != nil {
		verdict = "refused"
	}
	ev := Event{"event": "Admit", "mode": c.Mode, "kind": c.Kind, "ext": c.Ext, "detect": fmtName(det), "open": verdict, "epub": c.Epub}
	if c.Mode == "drm" {
		ev["drm"] = errors.Is(oerr, epubdoc.ErrDRMProtected)
	}
	r.Events = []Event{ev}
	switch c.Expected.Open {
	case "opens":
		feat := fmt.Sprintf("%s:order=%s:decoy=%s:case=%s:tgt=%s", c.Kind, c.Order, c.Decoy, c.Ecase, c.Tgt)
		if c.Conf == "strict" {
			feat += ":strict"
		}
		if c.Mode == "drm" {
			feat = fmt.Sprintf("drm:%s:%v", c.Epub.Algo, c.Epub.Enc)
		}
		if oerr != nil {
			return mk("refused-own", feat, fmt.Sprintf("a valid %s document named *.%s was refused: %v", c.Kind, ext, oerr), oerr.Error())
		}
		if !strings.Contains(txt, c20Token) {
			return mk("misparsed", feat, fmt.Sprintf("a valid %s document named *.%s opened but its text %q lacks the content", c.Kind, ext, txt), txt)
		}
	case "refused":
		if c.Mode == "drm" {
			if oerr == nil {
				which := ""
				for _, k := range c.Epub.Enc {
					if k == "ch1" || k == "ch2" || k == "ch3" || k == "nav" {
						which += k
					}
				}
				if c.Epub.Rights {
					which = "rights"
				}
				return mk("drm-admitted", which+":uri="+c.Epub.URI,
					fmt.Sprintf("an EPUB whose content documents %v are encrypted with %s (rights file: %v) was opened; text %q", c.Epub.Enc, c.Epub.Algo, c.Epub.Rights, txt), txt)
			}
			if !errors.Is(oerr, epubdoc.ErrDRMProtected) {
				return mk("drm-wrong-error", c.Epub.Algo, fmt.Sprintf("DRM-protected EPUB refused with %v, not ErrDRMProtected", oerr), oerr.Error())
			}
		} else if oerr == nil {
			return mk("admitted-foreign", fmt.Sprintf("%s-as-%s", c.Kind, c.Ext), fmt.Sprintf("%s bytes named *.%s were opened instead of refused (text %q)", c.Kind, ext, txt), txt)
		}
	}
	// the decision belongs to the bytes and the name, not to the call: asked again on ONE extractor (PageCount, then Text,
	// then Text of an extractor derived from it) the answer is the same each time
	if c.Expected.Open == "opens" || c.Expected.Open == "refused" {
		e := tabula.Open(path)
		_, e1 := e.PageCount()
		_, _, e2 := e.Text()
		t3, _, e3 := e.ExcludeHeaders().Text()
		e.Close()
		r.Evals += 3
		for k, err := range []error{e1, e2, e3} {
			step := []string{"PageCount()", "Text() after PageCount() on the same extractor", "Text() of an extractor derived after both"}[k]
			if c.Expected.Open == "refused" && err == nil {
				return mk("admitted-foreign-again", fmt.Sprintf("%s-as-%s:step%d", c.Kind, c.Ext, k+1), fmt.Sprintf("%s bytes named *.%s: %s was not refused (text %q)", c.Kind, ext, step, t3), step)
			}
			if c.Expected.Open == "opens" && err != nil {
				return mk("refused-own-again", fmt.Sprintf("%s:step%d", c.Kind, k+1), fmt.Sprintf("a valid %s document named *.%s: %s failed: %v", c.Kind, ext, step, err), step)
			}
		}
	}
	return r
}

func c20(mode, in, out string) error {
	switch mode {
	case "replay":
		return runCases(in, out, c20Case)
	}
	return fmt.Errorf("c20: unknown mode %s", mode)
}
