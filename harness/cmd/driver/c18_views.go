package main

// C18 entry-point audit: further VIEWS of the same expectation (the declared, present
// parts in declared order).  In the quick tier the views rotate over the cases, in the
// thorough tier every case gets all of them.
//
//	mdopts   Extractor.ToMarkdownWithOptions (metadata, table of contents)
//	chunks   Extractor.Chunks                 chunkscfg  Extractor.ChunksWithConfig
//	pages    Extractor.Pages(k).Text / PageRange(a,b).Document: the selected parts ascending, or -
//	         where the format does not take a selection - all parts; never anything else
//	excl     Extractor.ExcludeHeadersAndFooters().Text
//	reader   the format reader called directly: Text / Markdown / Document (+ xlsx Tables and
//	         SheetByName, pptx Slide.GetMarkdown and Slide.Index, epub Chapter.Index / Href,
//	         epubdoc.OpenReader on the bytes, the EPUB table of contents order)

import (
	"bytes"
	"fmt"
	"os"

	tabula "github.com/tsawler/tabula"
	"github.com/tsawler/tabula/epubdoc"
	"github.com/tsawler/tabula/pptx"
	"github.com/tsawler/tabula/rag"
	"github.com/tsawler/tabula/xlsx"
)

var c18ExtraViews = []string{"mdopts", "chunks", "chunkscfg", "pages", "excl", "reader"}

// c18Extra observes the named extra views; sel marks APIs whose result may be either
// the given selection or everything.
func c18Extra(path string, c *c18Case, which []string) (apis []c18API, sels map[string][]int, problems []string) {
	sels = map[string][]int{}
	want := map[string]bool{}
	for _, w := range which {
		want[w] = true
	}
	flat := func(name, s string, err error) {
		a := c18API{Name: name, Count: -1}
		if err != nil {
			a.Err = err.Error()
		} else {
			a.Flat = c18Toks(c18TokRe, s)
		}
		apis = append(apis, a)
	}
	paged := func(name string, pages []string, err error) {
		a := c18API{Name: name, Count: -1}
		if err != nil {
			a.Err = err.Error()
		} else {
			a.Count, a.Pages = len(pages), [][]int{}
			for _, p := range pages {
				a.Pages = append(a.Pages, c18Toks(c18TokRe, p))
			}
		}
		apis = append(apis, a)
	}
	if want["mdopts"] {
		o := rag.DefaultMarkdownOptions()
		o.IncludeMetadata, o.IncludeTableOfContents = true, true
		s, _, err := tabula.Open(path).ToMarkdownWithOptions(o)
		flat("ToMarkdownWithOptions", s, err)
	}
	for _, via := range []string{"chunks", "chunkscfg"} {
		if want[via] {
			out, err := runTerminal(tabula.Open(path), via)
			flat("Extractor."+via, out.Text, err)
		}
	}
	if want["excl"] {
		s, _, err := tabula.Open(path).ExcludeHeadersAndFooters().Text()
		flat("ExcludeHeadersAndFooters().Text", s, err)
	}
	if want["pages"] && c.Count >= 1 {
		for k := 1; k <= c.Count; k++ {
			name := fmt.Sprintf("Pages(%d).Text", k)
			s, _, err := tabula.Open(path).Pages(k).Text()
			flat(name, s, err)
			sels[name] = []int{c.Pages[k-1]}
		}
		if c.Count >= 2 {
			name := fmt.Sprintf("PageRange(2,%d).Document", c.Count)
			doc, _, err := tabula.Open(path).PageRange(2, c.Count).Document()
			var pages []string
			if err == nil {
				for _, pg := range doc.Pages {
					pages = append(pages, pg.ExtractText())
				}
			}
			paged(name, pages, err)
			sels[name] = c.Pages[1:]
		}
	}
	if want["reader"] {
		switch c.Fmt {
		case "xlsx":
			r, err := xlsx.Open(path)
			if err != nil {
				apis = append(apis, c18API{Name: "xlsx.Open", Err: err.Error(), Count: -1})
				break
			}
			s, err := r.Text()
			flat("xlsx.Text", s, err)
			s, err = r.Markdown()
			flat("xlsx.Markdown", s, err)
			doc, err := r.Document()
			var pages []string
			if err == nil {
				for _, pg := range doc.Pages {
					pages = append(pages, pg.ExtractText())
				}
			}
			paged("xlsx.Document", pages, err)
			pages = nil
			for _, tb := range r.Tables() {
				pages = append(pages, tb.ToText())
			}
			paged("xlsx.Tables", pages, nil)
			for _, id := range c.Pages {
				sh, err := r.SheetByName(fmt.Sprintf("n%03d", id))
				if err != nil {
					problems = append(problems, fmt.Sprintf("xlsx.SheetByName(n%03d): %v", id, err))
					break
				}
				toks := []int{}
				for _, row := range sh.Rows {
					for _, cell := range row {
						toks = append(toks, c18Toks(c18TokRe, cell.Value)...)
					}
				}
				if !c18Equal(toks, []int{id}) {
					problems = append(problems, fmt.Sprintf("xlsx.SheetByName(n%03d) holds the tokens %v", id, toks))
					break
				}
			}
			r.Close()
		case "pptx":
			r, err := pptx.Open(path)
			if err != nil {
				apis = append(apis, c18API{Name: "pptx.Open", Err: err.Error(), Count: -1})
				break
			}
			s, err := r.Text()
			flat("pptx.Text", s, err)
			s, err = r.TextWithOptions(pptx.ExtractOptions{IncludeNotes: true, IncludeTitles: true})
			flat("pptx.Text+notes", s, err)
			s, err = r.Markdown()
			flat("pptx.Markdown", s, err)
			doc, err := r.Document()
			var pages []string
			if err == nil {
				for _, pg := range doc.Pages {
					pages = append(pages, pg.ExtractText())
				}
			}
			paged("pptx.Document", pages, err)
			pages = nil
			for i := 0; i < r.SlideCount(); i++ {
				sl, _ := r.Slide(i)
				pages = append(pages, sl.GetMarkdown())
			}
			paged("pptx.Slide.GetMarkdown", pages, nil)
			r.Close()
		case "epub":
			data, err := os.ReadFile(path)
			if err != nil {
				panic(err)
			}
			r, err := epubdoc.OpenReader(bytes.NewReader(data), int64(len(data)))
			if err != nil {
				apis = append(apis, c18API{Name: "epubdoc.OpenReader", Err: err.Error(), Count: -1})
				break
			}
			var pages []string
			for i, ch := range r.Chapters() {
				pages = append(pages, string(ch.Content))
				_ = i
			}
			paged("epubdoc.OpenReader.Chapters", pages, nil)
			s, err := r.Text()
			flat("epubdoc.OpenReader.Text", s, err)
			s, err = r.Markdown()
			flat("epubdoc.OpenReader.Markdown", s, err)
			doc, err := r.Document()
			pages = nil
			if err == nil {
				for _, pg := range doc.Pages {
					pages = append(pages, pg.ExtractText())
				}
			}
			paged("epubdoc.OpenReader.Document", pages, err)
			// the table of contents lists the declared parts in declared order
			if toc := r.TableOfContents(); toc != nil {
				byHref := map[string]int{}
				for _, p := range c.Parts {
					if p.Decl > 0 {
						byHref[c18HrefStr(p.Href)] = p.ID
					}
				}
				got := []int{}
				for _, e := range toc.Entries {
					id, ok := byHref[e.Href]
					if !ok {
						id = -1
					}
					got = append(got, id)
				}
				if !c18Equal(got, c.Declared) {
					problems = append(problems, fmt.Sprintf("epubdoc.TableOfContents lists the parts %v (by href), the navigation document of the default rendition lists %v", got, c.Declared))
				}
			}
			r.Close()
		}
	}
	return
}
