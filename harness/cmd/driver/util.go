package main

import (
	"bufio"
	"crypto/sha256"
	"encoding/hex"
	"encoding/json"
	"fmt"
	"math/rand"
	"os"
	"runtime"
	"runtime/debug"
	"strconv"
	"sync"
)

// Result is one line of driver output.
type Result struct {
	Case       int         `json:"case"`
	OK         bool        `json:"ok"`
	Clause     string      `json:"clause,omitempty"`
	Sig        string      `json:"sig,omitempty"`
	What       string      `json:"what,omitempty"`
	Nontrivial bool        `json:"nontrivial"`
	Key        string      `json:"key,omitempty"` // identity of the abstract case (distinctness)
	Replay     interface{} `json:"replay,omitempty"`
	Events     []Event     `json:"events,omitempty"`
	Evals      int         `json:"evals,omitempty"` // implementation executions behind this case
}

// Event is one trace event for TLC trace validation.
type Event map[string]interface{}

func seed() int64 {
	s, err := strconv.ParseInt(os.Getenv("VERIF_SEED"), 10, 64)
	if err != nil {
		return 1
	}
	return s
}

func tier() string {
	if t := os.Getenv("VERIF_TIER"); t != "" {
		return t
	}
	return "quick"
}

func newRand(salt int64) *rand.Rand { return rand.New(rand.NewSource(seed()*1000003 + salt)) }

func readLines(path string, f func(i int, line []byte) error) error {
	fh, err := os.Open(path)
	if err != nil {
		return err
	}
	defer fh.Close()
	sc := bufio.NewScanner(fh)
	sc.Buffer(make([]byte, 1<<20), 1<<28)
	i := 0
	for sc.Scan() {
		b := sc.Bytes()
		if len(b) == 0 {
			continue
		}
		cp := make([]byte, len(b))
		copy(cp, b)
		if err := f(i, cp); err != nil {
			return err
		}
		i++
	}
	return sc.Err()
}

func readCases(path string) ([][]byte, error) {
	var cases [][]byte
	err := readLines(path, func(i int, l []byte) error { cases = append(cases, l); return nil })
	return cases, err
}

// runCases maps f over the cases on all cores and writes results in case order.
func runCases(in, out string, f func(i int, raw []byte) Result) error {
	cases, err := readCases(in)
	if err != nil {
		return err
	}
	res := make([]Result, len(cases))
	var wg sync.WaitGroup
	ch := make(chan int, 256)
	nw := runtime.NumCPU()
	for w := 0; w < nw; w++ {
		wg.Add(1)
		go func() {
			defer wg.Done()
			for i := range ch {
				res[i] = safeRun(i, cases[i], f)
			}
		}()
	}
	for i := range cases {
		ch <- i
	}
	close(ch)
	wg.Wait()
	return writeResults(out, res)
}

func runCasesSerial(in, out string, f func(i int, raw []byte) Result) error {
	cases, err := readCases(in)
	if err != nil {
		return err
	}
	res := make([]Result, len(cases))
	for i := range cases {
		res[i] = safeRun(i, cases[i], f)
	}
	return writeResults(out, res)
}

func safeRun(i int, raw []byte, f func(i int, raw []byte) Result) (r Result) {
	defer func() {
		if p := recover(); p != nil {
			r = Result{Case: i, OK: false, Clause: "panic", Sig: "panic", What: fmt.Sprint("panic: ", p, " ", string(debug.Stack())), Replay: map[string]interface{}{"case": json.RawMessage(raw)}}
		}
	}()
	r = f(i, raw)
	r.Case = i
	return r
}

func writeResults(out string, res []Result) error {
	fh, err := os.Create(out)
	if err != nil {
		return err
	}
	defer fh.Close()
	w := bufio.NewWriterSize(fh, 1<<20)
	enc := json.NewEncoder(w)
	for _, r := range res {
		if len(r.Key) > 48 {
			// the key only serves to count distinct cases: a digest keeps result files and the checker's memory small
			h := sha256.Sum256([]byte(r.Key))
			r.Key = hex.EncodeToString(h[:12])
		}
		if err := enc.Encode(r); err != nil {
			return err
		}
	}
	return w.Flush()
}

func fail(clause, sig, what string, replay interface{}) Result {
	return Result{OK: false, Clause: clause, Sig: sig, What: what, Replay: replay}
}

func mustJSON(v interface{}) []byte {
	b, err := json.Marshal(v)
	if err != nil {
		panic(err)
	}
	return b
}

func toBytes(a []int) []byte {
	b := make([]byte, len(a))
	for i, v := range a {
		b[i] = byte(v)
	}
	return b
}

func toInts(b []byte) []int {
	a := make([]int, len(b))
	for i, v := range b {
		a[i] = int(v)
	}
	return a
}
