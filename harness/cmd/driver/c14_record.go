package main

// C14 record mode: random collections and operations beyond TLC's bounds; every
// operation is logged as the events of Export.tla's actions with the records
// parsed back from the real output, for ExportTrace.tla.

import (
	"bytes"
	"encoding/json"
	"fmt"
	"math"
	"math/rand"

	"github.com/tsawler/tabula/rag"
)

var c14Alphabet = []string{"COMMA", "TAB", "QUOTE", "CR", "LF", "NUL", "EMOJI", "JSONISH", "SP", "w1", "w2", "w3", "W1", "W2"}

func c14RandText(rnd *rand.Rand, max int) []string {
	n := rnd.Intn(max + 1)
	t := []string{}
	for i := 0; i < n; i++ {
		t = append(t, c14Alphabet[rnd.Intn(len(c14Alphabet))])
	}
	return t
}

func c14RandChunks(rnd *rand.Rand, max int) []c14Chunk {
	m := rnd.Intn(max + 1)
	cs := make([]c14Chunk, m)
	for i := range cs {
		c := c14Chunk{ID: []string{fmt.Sprintf("i%d", i+1)}, Text: c14RandText(rnd, 6), Title: c14RandText(rnd, 3),
			Path: [][]string{}, Etypes: []string{}, Parent: []string{}, Children: [][]string{}, Emb: []int{}}
		if rnd.Intn(4) == 0 {
			c.ID = append(c.ID, c14Alphabet[rnd.Intn(len(c14Alphabet))])
		}
		for p := rnd.Intn(4); p > 0; p-- {
			e := c14RandText(rnd, 3)
			if len(e) == 0 {
				e = []string{"w3"}
			}
			c.Path = append(c.Path, e)
		}
		c.Section = []string{}
		if len(c.Path) > 0 && rnd.Intn(3) > 0 {
			c.Section = c.Path[len(c.Path)-1]
		} else if rnd.Intn(2) == 0 {
			c.Section = c14RandText(rnd, 3)
		}
		for _, e := range []string{"paragraph", "list", "table", "heading"} {
			if rnd.Intn(3) == 0 {
				c.Etypes = append(c.Etypes, e)
			}
		}
		c.Hlevel = rnd.Intn(4)
		c.Pstart = rnd.Intn(4)
		c.Pend = c.Pstart + rnd.Intn(3)
		// a chunk's own index is independent of where it stands in the collection: merged
		// documents restart at 0, reordered and filtered collections keep the original values
		c.Index = []int{0, 0, i, m - 1 - i, rnd.Intn(5)}[rnd.Intn(5)]
		c.Total = []int{0, m, 7}[rnd.Intn(3)]
		c.Level = rnd.Intn(4)
		if rnd.Intn(3) == 0 {
			c.Parent = []string{"i1"}
		}
		for k := rnd.Intn(3); k > 0; k-- {
			c.Children = append(c.Children, []string{fmt.Sprintf("i%d", 1+rnd.Intn(12))})
		}
		c.Table, c.List, c.Image = rnd.Intn(2) == 0, rnd.Intn(2) == 0, rnd.Intn(2) == 0
		c.Chars, c.Words, c.Tokens = rnd.Intn(50), rnd.Intn(9), rnd.Intn(12)
		for k := 1 + rnd.Intn(3); k > 0; k-- {
			c.Emb = append(c.Emb, rnd.Intn(9)-4)
		}
		cs[i] = c
	}
	return cs
}

var c14FieldLists = map[string][]string{
	"all":  {},
	"some": {"section_path", "level", "heading_level", "page_start", "word_count", "no_such_key"},
	"vdb":  {"document_title", "page_start", "chunk_index", "section_title", "section_path", "element_types"},
}

func c14RandCfg(rnd *rand.Rand, f string) c14Cfg {
	b := func() bool { return rnd.Intn(2) == 0 }
	c := c14Cfg{Text: b(), Meta: b(), Fields: []string{"all", "some", "vdb"}[rnd.Intn(3)], Flatten: b(), Header: true, Pretty: false, Idcol: "chunk_id", Emb: b()}
	switch f {
	case "jsonl", "json":
		c.Pretty = b()
	case "csv", "tsv":
		c.Header = b()
		c.Idcol = []string{"chunk_id", "id"}[rnd.Intn(2)]
	case "pinecone":
		c.Emb = true
	}
	return c
}

// c14Abs converts a native parsed-back value to the spec's tagged value.
func c14Abs(t string, v interface{}) map[string]interface{} {
	switch x := v.(type) {
	case string:
		if t == "e" {
			return map[string]interface{}{"t": "e", "v": x}
		}
		return map[string]interface{}{"t": "s", "v": c14Tokenize(x)}
	case int:
		return map[string]interface{}{"t": "i", "v": x}
	case bool:
		return map[string]interface{}{"t": "b", "v": x}
	case []string:
		l := [][]string{}
		for _, e := range x {
			l = append(l, c14Tokenize(e))
		}
		return map[string]interface{}{"t": "l", "v": l}
	case []float64:
		l := []int{}
		for _, f := range x {
			if f != math.Trunc(f) || math.Abs(f) > 1e6 {
				return map[string]interface{}{"t": "?", "v": fmt.Sprint(x)}
			}
			l = append(l, int(f))
		}
		return map[string]interface{}{"t": "n", "v": l}
	case c14Raw:
		return map[string]interface{}{"t": "c", "v": c14Tokenize(x.S)}
	}
	return map[string]interface{}{"t": "?", "v": fmt.Sprint(v)}
}

func c14AbsRecs(cfg c14Cfg, obs []c14Obs) []map[string]interface{} {
	out := []map[string]interface{}{}
	for _, o := range obs {
		top := map[string]interface{}{}
		for k, v := range o.Top {
			t := c14TopTypes[k]
			if k == cfg.Idcol {
				t = "s"
			}
			top[k] = c14Abs(t, v)
		}
		meta := map[string]interface{}{}
		for k, v := range o.Meta {
			meta[k] = c14Abs(c14MetaTypes[k], v)
		}
		out = append(out, map[string]interface{}{"top": top, "meta": meta})
	}
	return out
}

// c14ObserveExport runs one export on the real code and parses it back. For a
// header-less CSV/TSV the column names are taken from the same export run with
// the header enabled, after checking that the two outputs agree on the data rows.
func c14ObserveExport(f string, cfg c14Cfg, fields []string, chunks []*rag.Chunk, embs [][]float64, run func(c14Cfg) (string, error)) ([]c14Obs, error) {
	data, err := run(cfg)
	if err != nil {
		return nil, err
	}
	var cols []string
	if c14IsDSV(f) && !cfg.Header {
		h := cfg
		h.Header = true
		hd, err := run(h)
		if err != nil {
			return nil, err
		}
		_, cols, err = c14ParseDSV(f, h, nil, hd)
		if err != nil {
			return nil, err
		}
		delim := byte(',')
		if f == "tsv" {
			delim = '\t'
		}
		a, e1 := c14ReadDSV([]byte(hd), delim)
		b, e2 := c14ReadDSV([]byte(data), delim)
		if e1 != nil || e2 != nil || len(a) == 0 || string(mustJSON(a[1:])) != string(mustJSON(b)) {
			return nil, fmt.Errorf("the header-less export is not the export with header minus its first record")
		}
	}
	return c14Parse(f, cfg, cols, data)
}

// chars: the segment's texts are over the one-character case alphabet (keywords then are too, so that
// substring search on the rendered text is containment of token sequences); otherwise over the words
func c14RandPred(rnd *rand.Rand, chars bool) c14Pred {
	p := c14Pred{S: []string{}, Set: []int{}}
	words := [][]string{{"w1"}, {"W1"}, {"w2"}, {"w1", "w2"}, {"COMMA"}, {"w3"}, {}, {"LF", "w1"}}
	if chars {
		words = [][]string{{}, {"i"}, {"I1"}, {"k"}, {"KS"}, {"K", "a"}, {"sg"}, {"sf"}, {"SG"}, {"s"}, {"ls"}, {"SS"}, {"ss"}, {"as"}, {"AS", "d7"},
			{"E1"}, {"e1", "e1"}, {"a", "A"}, {"EMOJI"}, {"NUL"}, {"d7"}, {"S", "sg"}, {"i", "I1"}}
	}
	kind := rnd.Intn(11)
	if chars && rnd.Intn(2) == 0 {
		kind = 9 // the case alphabet is there for Search: half of the predicates of such a segment
	}
	switch kind {
	case 0:
		p.K, p.S = "section", words[rnd.Intn(len(words))]
	case 1:
		p.K, p.A = "page", rnd.Intn(6)
	case 2:
		p.K, p.A = "pagerange", rnd.Intn(5)
		p.B = p.A + rnd.Intn(3)
	case 3:
		p.K, p.E = "etype", []string{"LIST", "list", "Table", "paragraph", "figure"}[rnd.Intn(5)]
	case 4:
		p.K = "tables"
	case 5:
		p.K = "lists"
	case 6:
		p.K = "images"
	case 7:
		p.K, p.A = "mintok", rnd.Intn(12)
	case 8:
		p.K, p.A = "maxtok", rnd.Intn(12)
	case 9:
		p.K, p.S = "search", words[rnd.Intn(len(words))]
	default:
		p.K = "index"
		for k := rnd.Intn(5); k > 0; k-- {
			p.Set = append(p.Set, rnd.Intn(12))
		}
	}
	return p
}

// searchable texts: words only plus separators that no word contains, so that
// substring search on the rendered text is containment of token sequences
func c14FilterText(rnd *rand.Rand, chars bool) []string {
	alpha := []string{"w1", "w2", "w3", "W1", "W2", "COMMA", "LF"}
	if chars {
		// characters whose case pairs differ in kind (length-changing, fold-only, no case); weighted
		// towards the letters the keywords use so that near-matches are frequent
		alpha = []string{"i", "I1", "i", "I1", "k", "K", "KS", "KS", "s", "S", "ls", "ls", "sg", "SG", "sf", "sf",
			"a", "A", "e1", "E1", "AS", "as", "SS", "ss", "d7", "EMOJI", "NUL"}
	}
	t := []string{}
	for n := rnd.Intn(6); n > 0; n-- {
		t = append(t, alpha[rnd.Intn(len(alpha))])
	}
	return t
}

func c14Record(in, out string) error {
	type req struct {
		N   int `json:"n"`
		Max int `json:"max"`
	}
	return runCases(in, out, func(i int, raw []byte) Result {
		var q req
		if err := json.Unmarshal(raw, &q); err != nil {
			return fail("decode", "decode", err.Error(), nil)
		}
		rnd := newRand(int64(i)*7919 + 14)
		var events []Event
		evals := 0
		for s := 0; s < q.N; s++ {
			cs := c14RandChunks(rnd, q.Max)
			chars := rnd.Intn(2) == 0
			mode := []string{"export", "export", "batch", "stream", "filter"}[rnd.Intn(5)]
			f := "none"
			cfg := c14Cfg{Text: true, Meta: true, Fields: "all", Header: true, Idcol: "chunk_id", Emb: true}
			size := 0
			preds := []c14Pred{}
			switch mode {
			case "export":
				f = []string{"jsonl", "json", "csv", "tsv", "vdb", "pinecone", "chroma", "weaviate"}[rnd.Intn(8)]
				cfg = c14RandCfg(rnd, f)
			case "batch":
				f = []string{"jsonl", "json", "csv", "tsv"}[rnd.Intn(4)]
				cfg = c14RandCfg(rnd, f)
				size = 1 + rnd.Intn(len(cs)+1)
			case "stream":
				f = []string{"jsonl", "json"}[rnd.Intn(2)]
				cfg = c14RandCfg(rnd, f)
				cfg.Pretty = false
				size = 1
			case "filter":
				for n := range cs {
					cs[n].Text = c14FilterText(rnd, chars)
					cs[n].Section = [][]string{{}, {"w1"}, {"w2"}, {"w3"}}[rnd.Intn(4)]
					cs[n].Path = [][][]string{{}, {{"w1"}}, {{"w1"}, {"w2"}}, {{"w3"}}}[rnd.Intn(4)]
				}
				for n := 1 + rnd.Intn(3); n > 0; n-- {
					preds = append(preds, c14RandPred(rnd, chars))
				}
			}
			fields := c14FieldLists[cfg.Fields]
			if mode != "filter" && rnd.Intn(4) == 0 {
				// export what a filter chain selects from the collection
				for n := range cs {
					cs[n].Text = c14FilterText(rnd, chars)
				}
				for n := 1 + rnd.Intn(2); n > 0; n-- {
					preds = append(preds, c14RandPred(rnd, chars))
				}
			}
			events = append(events, Event{"event": "Begin", "mode": mode, "chunks": cs, "fmt": f, "cfg": cfg, "size": size, "preds": preds})
			chunks := c14MakeChunks(cs)
			embs := c14Embeddings(cs)
			if mode != "filter" && len(preds) > 0 {
				cur := rag.NewChunkCollection(chunks)
				for _, p := range preds {
					cur, _ = c14ApplyPred(cur, p)
				}
				pos := map[*rag.Chunk]int{}
				for n, ch := range chunks {
					pos[ch] = n
				}
				var fe [][]float64
				for _, ch := range cur.Chunks {
					fe = append(fe, embs[pos[ch]])
				}
				chunks, embs = cur.Chunks, fe
				if mode == "batch" {
					size = 1 + rnd.Intn(len(chunks)+1)
					events[len(events)-1]["size"] = size
				}
			}
			evals++
			logRecs := func(name string, extra Event, obs []c14Obs, err error) {
				ev := Event{"event": name}
				for k, v := range extra {
					ev[k] = v
				}
				if err != nil {
					ev["err"] = err.Error()
				} else {
					ev["recs"] = c14AbsRecs(cfg, obs)
				}
				events = append(events, ev)
			}
			switch mode {
			case "export":
				obs, err := c14ObserveExport(f, cfg, fields, chunks, embs, func(c c14Cfg) (string, error) {
					return c14RunExport(f, c, fields, chunks, embs, false)
				})
				logRecs("Export", nil, obs, err)
			case "batch":
				var gs []rag.ExportBatch
				err := rag.NewBatchExporterWithConfig(size, c14ExportConfig(f, cfg, fields)).Export(chunks, func(b rag.ExportBatch) error {
					gs = append(gs, b)
					return nil
				})
				if err != nil {
					events = append(events, Event{"event": "Batch", "err": err.Error()})
					break
				}
				for _, g := range gs {
					g := g
					lo, hi := g.StartIndex, g.EndIndex
					if lo < 0 || hi > len(chunks) || lo > hi {
						lo, hi = 0, 0
					}
					obs, err := c14ObserveExport(f, cfg, fields, chunks[lo:hi], nil, func(c c14Cfg) (string, error) {
						if c == cfg {
							return g.Data, nil
						}
						return rag.NewExporterWithConfig(c14ExportConfig(f, c, fields)).ExportToString(chunks[lo:hi])
					})
					logRecs("Batch", Event{"number": g.BatchNumber, "start": g.StartIndex, "end": g.EndIndex, "count": g.ChunkCount}, obs, err)
				}
				events = append(events, Event{"event": "End"})
			case "stream":
				var buf bytes.Buffer
				se := rag.NewStreamExporterWithConfig(&buf, c14ExportConfig(f, cfg, fields))
				failed := false
				for n, ch := range chunks {
					before := buf.Len()
					if err := se.WriteChunk(ch, n); err != nil {
						events = append(events, Event{"event": "Write", "err": err.Error()})
						failed = true
						break
					}
					obs, err := c14ParseJSONFamily("jsonl", false, buf.String()[before:])
					logRecs("Write", nil, obs, err)
				}
				if !failed {
					if err := se.Close(); err != nil {
						events = append(events, Event{"event": "End", "err": err.Error()})
					} else {
						events = append(events, Event{"event": "End"})
					}
				}
			case "filter":
				cc := rag.NewChunkCollection(chunks)
				cur := cc
				for _, p := range preds {
					next, err := c14ApplyPred(cur, p)
					if err != nil {
						return fail("decode", "decode", err.Error(), nil)
					}
					cur = next
					ids := [][]string{}
					for _, id := range c14IDs(cur.Chunks) {
						ids = append(ids, c14Tokenize(id))
					}
					events = append(events, Event{"event": "Filter", "ids": ids})
				}
				src := [][]string{}
				for _, id := range c14IDs(cc.Chunks) {
					src = append(src, c14Tokenize(id))
				}
				events = append(events, Event{"event": "FilterEnd", "src": src})
			}
		}
		return Result{OK: true, Events: events, Evals: evals}
	})
}
