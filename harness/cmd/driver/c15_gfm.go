package main

// A small GitHub-flavoured-Markdown block reader for parse-back: ATX (and
// setext) headings, pipe tables (GFM 4.10), list items with depth and kind,
// paragraphs; YAML front matter and fenced code are skipped.  It is the text
// twin of the reader in Markdown.tla and is validated against the spec's
// reference renderings before any verdict is based on it.  It shares no code
// with tabula.

import (
	"regexp"
	"strings"
)

type c15Item struct {
	D int    `json:"d"`
	K string `json:"k"`
	W string `json:"w"`
}

type c15Block struct {
	T     string       `json:"t"` // heading | para | list | table
	Level int          `json:"level,omitempty"`
	S     string       `json:"s,omitempty"`
	Items []c15Item    `json:"items,omitempty"`
	Rows  [][][]string `json:"rows,omitempty"` // rows x cells x words
	Raw   [][]string   `json:"-"`              // rows x cells, unescaped cell text
}

var (
	c15ReATX   = regexp.MustCompile(`^ {0,3}(#{1,6})(?:[ \t]+(.*))?$`)
	c15ReHash  = regexp.MustCompile(`^ {0,3}#{7,}`)
	c15ReItem  = regexp.MustCompile(`^([ \t]*)([-+*]|[0-9]{1,9}[.)])(?:[ \t]+(.*))?$`)
	c15ReDelim = regexp.MustCompile(`^ {0,3}\|?[ \t]*:?-+:?[ \t]*(\|[ \t]*:?-+:?[ \t]*)*\|?[ \t]*$`)
	c15ReHR    = regexp.MustCompile(`^ {0,3}(?:(?:-[ \t]*){3,}|(?:\*[ \t]*){3,}|(?:_[ \t]*){3,})$`)
	c15ReSetx1 = regexp.MustCompile(`^ {0,3}=+[ \t]*$`)
	c15ReSetx2 = regexp.MustCompile(`^ {0,3}-+[ \t]*$`)
	c15ReFence = regexp.MustCompile("^ {0,3}(```+|~~~+)")
	c15ReBR    = regexp.MustCompile(`(?i)<br\s*/?>`)
)

// c15SplitRow splits a table row at unescaped pipes; "\|" is a literal pipe.
// One leading and one trailing delimiter are optional and dropped.
func c15SplitRow(line string) []string {
	s := strings.TrimSpace(line)
	var cells []string
	var cur strings.Builder
	for i := 0; i < len(s); i++ {
		c := s[i]
		if c == '\\' && i+1 < len(s) && s[i+1] == '|' {
			cur.WriteByte('|')
			i++
			continue
		}
		if c == '|' {
			cells = append(cells, cur.String())
			cur.Reset()
			continue
		}
		cur.WriteByte(c)
	}
	cells = append(cells, cur.String())
	if strings.HasPrefix(s, "|") {
		cells = cells[1:]
	}
	if len(cells) > 0 && strings.HasSuffix(s, "|") && !strings.HasSuffix(s, "\\|") {
		cells = cells[:len(cells)-1]
	}
	for i := range cells {
		cells[i] = strings.TrimSpace(cells[i])
	}
	return cells
}

func c15Words(cell string) []string {
	w := strings.Fields(c15ReBR.ReplaceAllString(cell, " "))
	if w == nil {
		w = []string{}
	}
	return w
}

func c15HasPipe(line string) bool {
	for i := 0; i < len(line); i++ {
		if line[i] == '\\' {
			i++
			continue
		}
		if line[i] == '|' {
			return true
		}
	}
	return false
}

func c15Indent(ws string) int {
	n := 0
	for _, c := range ws {
		if c == '\t' {
			n += 4 - n%4
		} else {
			n++
		}
	}
	return n
}

// c15ReadMd parses Markdown text into blocks.
func c15ReadMd(md string) []c15Block {
	lines := strings.Split(strings.ReplaceAll(md, "\r\n", "\n"), "\n")
	var blocks []c15Block
	cur := "none" // none | table | list | para
	ncols := 0
	var stack []int
	afterBlank := false
	i := 0
	// YAML front matter
	if len(lines) > 0 && strings.TrimRight(lines[0], " \t") == "---" {
		for j := 1; j < len(lines); j++ {
			if strings.TrimRight(lines[j], " \t") == "---" {
				i = j + 1
				break
			}
		}
	}
	for ; i < len(lines); i++ {
		ln := lines[i]
		if strings.TrimSpace(ln) == "" {
			if cur == "table" || cur == "para" {
				cur = "none"
			}
			afterBlank = true
			continue
		}
		wasBlank := afterBlank
		afterBlank = false
		// a blank line followed by text that is neither an item nor indented into one ends the list
		if cur == "list" && wasBlank && !c15ReItem.MatchString(ln) && c15Indent(ln[:len(ln)-len(strings.TrimLeft(ln, " \t"))]) < 2 {
			cur = "none"
		}
		if m := c15ReFence.FindStringSubmatch(ln); m != nil {
			fence := m[1][:3]
			for i++; i < len(lines); i++ {
				if strings.HasPrefix(strings.TrimLeft(lines[i], " "), fence) {
					break
				}
			}
			cur = "none"
			continue
		}
		if cur == "table" {
			if strings.HasPrefix(strings.TrimSpace(ln), "|") || !c15IsBlockStart(ln) {
				cells := c15SplitRow(ln)
				b := &blocks[len(blocks)-1]
				row := make([][]string, ncols)
				raw := make([]string, ncols)
				for c := 0; c < ncols; c++ {
					if c < len(cells) {
						row[c], raw[c] = c15Words(cells[c]), cells[c]
					} else {
						row[c] = []string{}
					}
				}
				b.Rows = append(b.Rows, row)
				b.Raw = append(b.Raw, raw)
				continue
			}
			cur = "none"
		}
		if m := c15ReATX.FindStringSubmatch(ln); m != nil {
			text := strings.TrimSpace(m[2])
			// optional closing sequence
			if t := strings.TrimRight(text, "#"); t != text && (t == "" || strings.HasSuffix(t, " ")) {
				text = strings.TrimSpace(t)
			}
			blocks = append(blocks, c15Block{T: "heading", Level: len(m[1]), S: text})
			cur = "none"
			continue
		}
		if cur == "para" && (c15ReSetx1.MatchString(ln) || c15ReSetx2.MatchString(ln)) {
			b := &blocks[len(blocks)-1]
			b.T = "heading"
			b.Level = 2
			if c15ReSetx1.MatchString(ln) {
				b.Level = 1
			}
			cur = "none"
			continue
		}
		if c15ReHR.MatchString(ln) {
			cur = "none"
			continue
		}
		// table: header row + delimiter row with the same number of cells
		if cur != "list" && c15HasPipe(ln) && i+1 < len(lines) && c15ReDelim.MatchString(lines[i+1]) && c15HasPipe(lines[i+1]) {
			hdr := c15SplitRow(ln)
			if len(hdr) == len(c15SplitRow(lines[i+1])) {
				row := make([][]string, len(hdr))
				for c := range hdr {
					row[c] = c15Words(hdr[c])
				}
				blocks = append(blocks, c15Block{T: "table", Rows: [][][]string{row}, Raw: [][]string{hdr}})
				cur, ncols = "table", len(hdr)
				i++
				continue
			}
		}
		if m := c15ReItem.FindStringSubmatch(ln); m != nil {
			ind := c15Indent(m[1])
			kind := "u"
			if len(m[2]) > 1 {
				kind = "o"
			}
			if cur == "list" {
				var kept []int
				for _, e := range stack {
					if e+2 <= ind {
						kept = append(kept, e)
					}
				}
				b := &blocks[len(blocks)-1]
				b.Items = append(b.Items, c15Item{D: len(kept), K: kind, W: strings.TrimSpace(m[3])})
				stack = append(kept, ind)
				continue
			}
			if ind < 4 {
				blocks = append(blocks, c15Block{T: "list", Items: []c15Item{{D: 0, K: kind, W: strings.TrimSpace(m[3])}}})
				cur, stack = "list", []int{ind}
				continue
			}
		}
		if c15ReHash.MatchString(ln) {
			// seven or more # characters: not a heading
			blocks = append(blocks, c15Block{T: "para", S: strings.TrimSpace(ln)})
			cur = "para"
			continue
		}
		// plain text
		switch cur {
		case "list":
			// lazy continuation / indented continuation of the last item
			b := &blocks[len(blocks)-1]
			it := &b.Items[len(b.Items)-1]
			it.W = strings.TrimSpace(it.W + " " + strings.TrimSpace(ln))
		case "para":
			b := &blocks[len(blocks)-1]
			b.S += " " + strings.TrimSpace(ln)
		default:
			blocks = append(blocks, c15Block{T: "para", S: strings.TrimSpace(ln)})
			cur = "para"
		}
	}
	return blocks
}

func c15IsBlockStart(ln string) bool {
	return c15ReATX.MatchString(ln) || c15ReItem.MatchString(ln) || c15ReHR.MatchString(ln) || c15ReFence.MatchString(ln) || strings.HasPrefix(strings.TrimLeft(ln, " "), ">")
}
