package main

// C15 materialisers: the abstract document of a case is turned into the input
// of each Markdown writer of tabula (direct values or generated HTML), the
// writer is run and its Markdown returned.  Nothing here decides what is
// expected.

import (
	"fmt"
	"html"
	"strings"

	"github.com/tsawler/tabula"
	"github.com/tsawler/tabula/htmldoc"
	"github.com/tsawler/tabula/layout"
	"github.com/tsawler/tabula/model"
	"github.com/tsawler/tabula/rag"
)

type c15Out struct {
	Writer string
	Md     string
	Err    error
	Only   map[int]bool // element indices this output is responsible for (nil = all)
	Input  string       // concrete input, for replay files
}

func c15Opts(c *c15Case) rag.MarkdownOptions {
	o := rag.DefaultMarkdownOptions()
	o.IncludeMetadata = c.Meta
	o.IncludeTableOfContents = c.Toc
	o.HeadingLevelOffset = c.Off
	o.MaxHeadingLevel = c.Mx
	return o
}

func c15DefaultOpts(c *c15Case) bool { return c.Off == 0 && c.Mx == 6 && !c.Meta && !c.Toc }

func c15ModelTable(el *c15El) *model.Table {
	t := model.NewTable(el.Nr, el.Nc)
	defer func() {
		// a ragged table: every row keeps only the cells it has
		for r := 0; r < el.Nr; r++ {
			n := el.Nc
			for n > 0 && el.Src[r][n-1].Absent {
				n--
			}
			t.Rows[r] = t.Rows[r][:n]
		}
	}()
	for r := 0; r < el.Nr; r++ {
		for cc := 0; cc < el.Nc; cc++ {
			s := el.Src[r][cc]
			cell := model.Cell{RowSpan: s.Rs, ColSpan: s.Cs, IsHeader: c15Marked(el, r)}
			if !s.Covered {
				cell.Text = s.Raw
			}
			t.Rows[r][cc] = cell
		}
	}
	return t
}

func c15ModelList(el *c15El) *model.List {
	l := &model.List{Ordered: len(el.Items) > 0 && el.Items[0].K == "o"}
	for _, it := range el.Items {
		l.Items = append(l.Items, model.ListItem{Text: it.W, Level: it.D})
	}
	return l
}

// c15ListTree builds the layout.List item tree of a (depth, kind, word) sequence.
func c15ListTree(items []c15Item, pos *int, depth int) []layout.ListItem {
	var out []layout.ListItem
	for *pos < len(items) && items[*pos].D >= depth {
		it := items[*pos]
		if it.D > depth {
			if len(out) == 0 {
				break
			}
			out[len(out)-1].Children = c15ListTree(items, pos, depth+1)
			continue
		}
		typ, prefix := layout.ListTypeBullet, "-"
		if it.K == "o" {
			typ, prefix = layout.ListTypeNumbered, fmt.Sprintf("%d.", len(out)+1)
		}
		out = append(out, layout.ListItem{Text: it.W, RawText: prefix + " " + it.W, Prefix: prefix, Level: depth, ListType: typ, Index: len(out)})
		*pos++
	}
	return out
}

func c15HTMLList(items []c15Item, pos *int, depth int, b *strings.Builder) {
	tag := "ul"
	if items[*pos].K == "o" {
		tag = "ol"
	}
	b.WriteString("<" + tag + ">")
	for *pos < len(items) && items[*pos].D >= depth {
		it := items[*pos]
		if it.D > depth {
			break
		}
		b.WriteString("<li>" + html.EscapeString(it.W))
		*pos++
		if *pos < len(items) && items[*pos].D > depth {
			c15HTMLList(items, pos, depth+1, b)
		}
		b.WriteString("</li>")
	}
	b.WriteString("</" + tag + ">\n")
}

// c15Degenerate: the merge covers a whole row or a whole column, so that a format
// whose cells are only the anchors has a row / column without any cell of its own.
// Such tables are not generated for markup formats (their grid is debatable).
func c15Degenerate(el *c15El) bool {
	if !el.Merged {
		return false
	}
	for r := 0; r < el.Nr; r++ {
		all := true
		for c := 0; c < el.Nc; c++ {
			if !el.Src[r][c].Covered {
				all = false
			}
		}
		if all {
			return true
		}
	}
	for c := 0; c < el.Nc; c++ {
		all := true
		for r := 0; r < el.Nr; r++ {
			if !el.Src[r][c].Covered {
				all = false
			}
		}
		if all {
			return true
		}
	}
	return false
}

func c15HTMLCellText(raw string) string {
	return strings.ReplaceAll(html.EscapeString(raw), "\n", "<br>")
}

// c15Marked: row r (0-based) is marked as a header row by the source.
func c15Marked(el *c15El, r int) bool {
	for _, h := range el.Hrows {
		if h == r+1 {
			return true
		}
	}
	return false
}

// c15LeadMarked is the number of marked rows at the top of the table.
func c15LeadMarked(el *c15El) int {
	n := 0
	for n < el.Nr && c15Marked(el, n) {
		n++
	}
	return n
}

// c15Crosses: some cell above row b spans into row b or below (a row group boundary at b
// would cut it, which the HTML / ODF table models do not allow).
func c15Crosses(el *c15El, b int) bool {
	for r := 0; r < b && r < el.Nr; r++ {
		for c := 0; c < el.Nc; c++ {
			if !el.Src[r][c].Covered && r+el.Src[r][c].Rs > b {
				return true
			}
		}
	}
	return false
}

// c15HTMLTable writes the table with its header marking expressed in one of three ways:
//
//	variant 0  the leading marked rows in <thead>, the rest in one <tbody>; marked rows use <th>
//	variant 1  no <thead>: marked rows are rows of <th> cells; the rows split over two <tbody>
//	variant 2  as variant 0, and the last row (when it is not a header row) in <tfoot>
//
// (<thead> after <tbody> is not generated: it is non-conforming HTML and its row order is
// presentation-dependent.)
func c15HTMLTable(el *c15El, b *strings.Builder, variant int) {
	type group struct {
		tag    string
		lo, hi int
	}
	var groups []group
	lead := c15LeadMarked(el)
	if variant == 1 || lead == 0 || c15Crosses(el, lead) {
		lead = 0
	}
	end := el.Nr
	if variant == 2 && el.Nr >= 2 && lead < el.Nr && !c15Marked(el, el.Nr-1) && !c15Crosses(el, el.Nr-1) {
		end = el.Nr - 1
	}
	if lead > 0 {
		groups = append(groups, group{"thead", 0, lead})
	}
	if variant == 1 && el.Nr >= 2 && !c15Crosses(el, el.Nr/2) {
		groups = append(groups, group{"tbody", 0, el.Nr / 2}, group{"tbody", el.Nr / 2, el.Nr})
	} else if lead < end {
		groups = append(groups, group{"tbody", lead, end})
	}
	if end < el.Nr {
		groups = append(groups, group{"tfoot", end, el.Nr})
	}
	b.WriteString("<table>\n")
	for _, g := range groups {
		b.WriteString("<" + g.tag + ">")
		for r := g.lo; r < g.hi; r++ {
			tag := "td"
			if c15Marked(el, r) {
				tag = "th"
			}
			b.WriteString("<tr>")
			for cc := 0; cc < el.Nc; cc++ {
				s := el.Src[r][cc]
				if s.Covered || s.Absent {
					continue
				}
				attr := ""
				if s.Rs > 1 {
					attr += fmt.Sprintf(` rowspan="%d"`, s.Rs)
				}
				if s.Cs > 1 {
					attr += fmt.Sprintf(` colspan="%d"`, s.Cs)
				}
				b.WriteString("<" + tag + attr + ">" + c15HTMLCellText(s.Raw) + "</" + tag + ">")
			}
			b.WriteString("</tr>\n")
		}
		b.WriteString("</" + g.tag + ">")
	}
	b.WriteString("</table>\n")
}

// c15HTML renders the document as HTML5; skipped lists the elements HTML cannot
// express (heading levels above 6).
func c15HTML(c *c15Case, variant int) (string, map[int]bool) {
	var b strings.Builder
	only := map[int]bool{}
	b.WriteString("<!DOCTYPE html>\n<html><head><meta charset=\"utf-8\">")
	if c.Meta {
		b.WriteString("<title>T</title>")
	}
	b.WriteString("</head><body>\n")
	for n := range c.Els {
		el := &c.Els[n]
		if el.Nav {
			b.WriteString("<nav>")
		}
		switch el.T {
		case "heading":
			if el.Level > 6 {
				if el.Nav {
					b.WriteString("</nav>\n")
				}
				continue
			}
			fmt.Fprintf(&b, "<h%d>%s</h%d>\n", el.Level, html.EscapeString(el.W), el.Level)
		case "para":
			b.WriteString("<p>" + html.EscapeString(el.W) + "</p>\n")
		case "list":
			pos := 0
			c15HTMLList(el.Items, &pos, 0, &b)
		case "table":
			if c15Degenerate(el) {
				if el.Nav {
					b.WriteString("</nav>\n")
				}
				continue
			}
			c15HTMLTable(el, &b, variant)
		}
		if el.Nav {
			b.WriteString("</nav>\n")
		}
		only[n] = true
	}
	b.WriteString("</body></html>\n")
	return b.String(), only
}

func c15RunWriter(c *c15Case, w string) []c15Out {
	var outs []c15Out
	switch w {
	case "model.Table":
		for n := range c.Els {
			if c.Els[n].T == "table" {
				t := c15ModelTable(&c.Els[n])
				outs = append(outs, c15Out{Writer: w, Md: t.ToMarkdown(), Only: map[int]bool{n: true}})
			}
		}
	case "rag":
		doc := model.NewDocument()
		if c.Meta {
			doc.Metadata.Title = "T"
		}
		page := model.NewPage(612, 792)
		page.Number = 1
		only := map[int]bool{}
		for n := range c.Els {
			el := &c.Els[n]
			switch el.T {
			case "heading":
				page.AddElement(&model.Heading{Level: el.Level, Text: el.W})
			case "para":
				page.AddElement(&model.Paragraph{Text: el.W})
			case "list":
				if !el.Uniform {
					continue // model.List has one kind for the whole list
				}
				page.AddElement(c15ModelList(el))
			case "table":
				page.AddElement(c15ModelTable(el))
			}
			only[n] = true
		}
		doc.AddPage(page)
		cc := rag.ChunkDocument(doc)
		outs = append(outs, c15Out{Writer: w, Md: cc.ToMarkdownWithOptions(c15Opts(c)), Only: only})
	case "rag-chunk":
		for n := range c.Els {
			el := &c.Els[n]
			if el.T != "heading" {
				continue
			}
			ch := rag.NewChunk("c1", el.W, rag.ChunkMetadata{SectionTitle: el.W, HeadingLevel: el.Level, SectionPath: []string{el.W}})
			outs = append(outs, c15Out{Writer: w, Md: ch.ToMarkdownWithOptions(c15Opts(c)), Only: map[int]bool{n: true}})
			coll := rag.NewChunkCollection([]*rag.Chunk{ch})
			outs = append(outs, c15Out{Writer: w, Md: strings.Join(coll.ToMarkdownChunksWithOptions(c15Opts(c)), "\n\n"), Only: map[int]bool{n: true}})
		}
	case "htmldoc":
		seen := map[string]bool{}
		for variant := 0; variant < 3; variant++ {
			src, only := c15HTML(c, variant)
			if len(only) == 0 || seen[src] {
				continue // the variants only differ in how tables mark their header rows
			}
			seen[src] = true
			md, _, err := tabula.FromHTMLString(src).ToMarkdownWithOptions(c15Opts(c))
			outs = append(outs, c15Out{Writer: w, Md: md, Err: err, Only: only, Input: src})
			if c15DefaultOpts(c) {
				r, err := htmldoc.OpenReader(strings.NewReader(src))
				if err != nil {
					outs = append(outs, c15Out{Writer: w, Err: err, Input: src})
					continue
				}
				md, err := r.Markdown()
				outs = append(outs, c15Out{Writer: w, Md: md, Err: err, Only: only, Input: src})
			}
		}
	case "layout":
		if !c15DefaultOpts(c) {
			return nil
		}
		res := &layout.AnalysisResult{}
		only := map[int]bool{}
		for n := range c.Els {
			el := &c.Els[n]
			switch el.T {
			case "heading":
				if el.Level > 6 {
					continue
				}
				h := &layout.Heading{Level: layout.HeadingLevel(el.Level), Text: el.W}
				outs = append(outs, c15Out{Writer: w, Md: h.ToMarkdown(), Only: map[int]bool{n: true}})
				res.Elements = append(res.Elements, layout.LayoutElement{Type: model.ElementTypeHeading, Text: el.W, Heading: h})
			case "list":
				if !el.Uniform {
					continue
				}
				pos := 0
				l := &layout.List{Items: c15ListTree(el.Items, &pos, 0), Type: layout.ListTypeBullet}
				if el.Items[0].K == "o" {
					l.Type = layout.ListTypeNumbered
				}
				outs = append(outs, c15Out{Writer: w, Md: l.ToMarkdown(), Only: map[int]bool{n: true}})
				res.Elements = append(res.Elements, layout.LayoutElement{Type: model.ElementTypeList, List: l})
			case "para":
				res.Elements = append(res.Elements, layout.LayoutElement{Type: model.ElementTypeParagraph, Text: el.W})
			default:
				continue
			}
			only[n] = true
		}
		if len(res.Elements) > 0 {
			outs = append(outs, c15Out{Writer: w, Md: res.GetMarkdown(), Only: only})
		}
	default:
		return c15RunContainerWriter(c, w)
	}
	return outs
}
