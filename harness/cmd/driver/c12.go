package main

// C12 — Chunking.tla binding.
//
// replay: every TLC-emitted document (elements + pages + the chain of enclosing
//   headings per element, computed by the spec) is materialised as a
//   model.Document (Elements and Layout), chunked by every API/size
//   configuration, projected to unit numbers and compared (R2).  A sample of the
//   runs is also written as Doc/Emit/Finish events for ChunkingTrace.tla.
// record: random, larger documents TLC did not generate; events only (R3) — the
//   verdict on those comes from TLC.
//
// Units: every heading text, paragraph word, list item, table cell and image
// description IS a unique token u%06d numbered in document order (no untracked
// content words, so a chunk without a token has no content at all); chunk
// texts are scanned for the tokens after removing all whitespace, so a split
// inside a token is still attributed.

import (
	"encoding/json"
	"fmt"
	"regexp"
	"sort"
	"strconv"
	"strings"
	"unicode"

	"github.com/tsawler/tabula/model"
	"github.com/tsawler/tabula/rag"
)

func init() { handlers["c12"] = c12 }

type c12El struct {
	K  string `json:"k"`
	A  int    `json:"a"`
	Pg int    `json:"pg"`
	N  int    `json:"n"`
	T  int    `json:"t,omitempty"` // text class: elements with the same t > 0 show the same text
}

type c12Exp struct {
	Path  []int `json:"path"`
	Mpath []int `json:"mpath"`
	// Mps[m-1]: the chain when only headings of level <= m open a section
	Mps [][]int `json:"mps,omitempty"`
}

type c12Case struct {
	Doc   []c12El  `json:"doc"`
	Pages []int    `json:"pages"`
	Lnorm bool     `json:"lnorm"`
	Els   []c12Exp `json:"els"`
	// replay control (added by the orchestrator / by replay payloads)
	OnlyCfg  string `json:"only_cfg,omitempty"`
	OnlyMode string `json:"only_mode,omitempty"`
	TraceMod int    `json:"tm,omitempty"`
	Heavy    bool   `json:"heavy,omitempty"` // also run the 32 000-character presets
	Tree     bool   `json:"tree,omitempty"`  // also run the MinHeadingLevel 1..6 configurations
	Lean     bool   `json:"lean,omitempty"`  // size presets are irrelevant (heading trees): default + MinHeadingLevel configurations only
}

// ---------------------------------------------------------------- configs

type c12Cfg struct {
	name     string
	api      string // "elem": rag.DocumentChunker; "layout": rag.Chunker
	maxChars int    // nominal hard maximum in bytes, used to size paragraphs
	minChars int    // nominal minimum chunk size in bytes (0 = 100), used to size paragraphs
	heavy    bool
	mhl      int  // rag.Chunker: ChunkerConfig.MinHeadingLevel (0 = the default 3)
	treeOnly bool // run only on documents marked "tree" (heading trees, simulated and random documents)
	run      func(doc *model.Document) ([]*rag.Chunk, error)
}

func c12ElemCfg(name string, max int, heavy bool, sc func() rag.SizeConfig) c12Cfg {
	min := 100
	if m := sc().Min; m.Unit == rag.SizeUnitCharacters {
		min = m.Value
	} else if m.Unit == rag.SizeUnitTokens {
		min = m.Value * 4
	}
	return c12Cfg{name: name, api: "elem", maxChars: max, minChars: min, heavy: heavy, run: func(d *model.Document) ([]*rag.Chunk, error) {
		return rag.ChunkDocumentWithConfig(d, rag.DefaultChunkerConfig(), sc()).Chunks, nil
	}}
}

// c12MhlCfg: the layout-based chunker with MinHeadingLevel m (headings deeper than
// m are content of the enclosing section).
func c12MhlCfg(m int) c12Cfg {
	return c12Cfg{name: fmt.Sprintf("NewChunkerMHL%d", m), api: "layout", maxChars: 2000, minChars: 100, mhl: m, treeOnly: true,
		run: func(d *model.Document) ([]*rag.Chunk, error) {
			cc := rag.DefaultChunkerConfig()
			cc.MinHeadingLevel = m
			r, err := rag.NewChunkerWithConfig(cc).Chunk(d)
			if err != nil {
				return nil, err
			}
			return r.Chunks, nil
		}}
}

func (cfg c12Cfg) minHeading() int {
	if cfg.mhl > 0 {
		return cfg.mhl
	}
	return 3
}

func c12Configs() []c12Cfg {
	small := rag.DefaultChunkerConfig()
	small.TargetChunkSize, small.MaxChunkSize, small.MinChunkSize = 300, 600, 50
	tiny := rag.DefaultChunkerConfig()
	tiny.TargetChunkSize, tiny.MaxChunkSize, tiny.MinChunkSize = 120, 240, 40
	chars300 := func() rag.SizeConfig {
		sc := rag.DefaultSizeConfig()
		sc.Target.Value, sc.Min.Value, sc.Max.Value = 150, 40, 300
		return sc
	}
	return []c12Cfg{
		{name: "ChunkDocument", api: "elem", maxChars: 2000, run: func(d *model.Document) ([]*rag.Chunk, error) {
			return rag.ChunkDocument(d).Chunks, nil
		}},
		c12ElemCfg("Small", 800, false, rag.SmallChunkConfig),
		c12ElemCfg("Medium", 2000, false, rag.MediumChunkConfig),
		c12ElemCfg("Large", 4000, false, rag.LargeChunkConfig),
		c12ElemCfg("Cohere", 2048, false, rag.CohereEmbeddingConfig),
		c12ElemCfg("Tokens100-200", 800, false, func() rag.SizeConfig { return rag.TokenBasedSizeConfig(100, 200) }),
		c12ElemCfg("Semantic2-3", 1500, false, func() rag.SizeConfig { return rag.SemanticSizeConfig(2, 3) }),
		c12ElemCfg("Chars300", 300, false, chars300),
		c12ElemCfg("OpenAI", 32000, true, rag.OpenAIEmbeddingConfig),
		c12ElemCfg("Claude", 32000, true, rag.ClaudeContextConfig),
		{name: "RAGOptimized", api: "elem", maxChars: 32000, heavy: true, run: func(d *model.Document) ([]*rag.Chunk, error) {
			o := rag.RAGOptimizedOptions()
			return rag.ChunkDocumentWithConfig(d, o.ChunkerConfig, o.SizeConfig).Chunks, nil
		}},
		{name: "NewChunker", api: "layout", maxChars: 2000, run: func(d *model.Document) ([]*rag.Chunk, error) {
			r, err := rag.NewChunker().Chunk(d)
			if err != nil {
				return nil, err
			}
			return r.Chunks, nil
		}},
		{name: "NewChunkerSmall", api: "layout", maxChars: 600, minChars: 50, run: func(d *model.Document) ([]*rag.Chunk, error) {
			r, err := rag.NewChunkerWithConfig(small).Chunk(d)
			if err != nil {
				return nil, err
			}
			return r.Chunks, nil
		}},
		c12MhlCfg(1), c12MhlCfg(2), c12MhlCfg(4), c12MhlCfg(5), c12MhlCfg(6),
		{name: "ElemMHL1", api: "elem", maxChars: 2000, minChars: 100, treeOnly: true, run: func(d *model.Document) ([]*rag.Chunk, error) {
			cc := rag.DefaultChunkerConfig()
			cc.MinHeadingLevel = 1 // the element chunker has no such setting: every heading opens a section
			return rag.ChunkDocumentWithConfig(d, cc, rag.DefaultSizeConfig()).Chunks, nil
		}},
		{name: "NewChunkerTiny", api: "layout", maxChars: 240, minChars: 40, run: func(d *model.Document) ([]*rag.Chunk, error) {
			r, err := rag.NewChunkerWithConfig(tiny).Chunk(d)
			if err != nil {
				return nil, err
			}
			return r.Chunks, nil
		}},
	}
}

// ---------------------------------------------------------------- rendering

func c12Tok(g int) string { return fmt.Sprintf("u%06d", g) }

// c12Words: number of words of a paragraph of the given size class under a
// configuration whose hard maximum is max bytes (a word renders to 8-9 bytes).
func c12Words(class, max int) int {
	switch class {
	case 1:
		return 1
	case 2:
		return 12
	case 3:
		return max*13/80 + 8 // ~1.3 x max
	default:
		return max*34/80 + 8 // ~3.4 x max
	}
}

// c12Bytes: the exact byte length of a paragraph of a boundary size class, chosen
// relative to the configuration's maximum and minimum chunk size (0 = the class
// is sized in words by c12Words).
//
//	5 short      shorter than min
//	6 near-full  so long that a short paragraph no longer fits behind it in one chunk
//	7 / 8        exactly max / max+1
//	9 / 10       min-1 / exactly min
//	11 / 12      two of them plus the "\n\n" separator are exactly max / max+2
func c12Bytes(class, max, min int) int {
	if min <= 0 {
		min = 100
	}
	short := min * 6 / 10
	if short < 16 {
		short = 16
	}
	switch class {
	case 5:
		return short
	case 6:
		return max - short + 10
	case 7:
		return max
	case 8:
		return max + 1
	case 9:
		return min - 1
	case 10:
		return min
	case 11:
		return (max - 2) / 2
	case 12:
		return (max-2)/2 + 1
	}
	return 0
}

// c12ListItems: the largest number of list items whose text, as rag.formatList
// writes it ("- " + token, two spaces of indentation per level 0,1,2,0,..., one
// line per item), stays below b bytes - a list of a size class.
func c12ListItems(b int) int {
	n, l := 0, 0
	for {
		add := 2*(n%3) + 2 + 7
		if n > 0 {
			add++
		}
		if l+add > b-4 {
			break
		}
		l += add
		n++
	}
	if n < 1 {
		n = 1
	}
	return n
}

// c12ParaLen: byte length of a paragraph of n words as c12Render writes it (7-byte
// tokens, single spaces, a full stop after every 7th and after the last word).
func c12ParaLen(n int) int {
	l := 8*n - 1
	if n > 1 {
		l += n / 7
		if n%7 != 0 {
			l++
		}
	}
	return l
}

// c12WordsFor: the largest number of words that fit into exactly b bytes; the
// rest is padding on the last word.
func c12WordsFor(b int) (n, pad int) {
	n = 1
	for c12ParaLen(n+1) <= b {
		n++
	}
	pad = b - c12ParaLen(n)
	if pad < 0 {
		pad = 0
	}
	return n, pad
}

type c12Rendered struct {
	doc     *model.Document
	n       []int // units per element
	before  []int // units of all elements before this one
	first   []int // first unit per element (1-based), 0 if none
	total   int
	titleEl map[string]int // heading text -> element index (1-based)
	// repeated texts: heads[text] = every heading element with that text; shared[g] =
	// the units (in document order) whose text is the token of unit g
	heads   map[string][]int
	shared  map[int][]int
	classOf map[string]int // text -> text class (t > 0) of the elements that show it
	unitEl  []int          // unit -> element index (1-based); unitEl[0] unused
}

func c12Render(c *c12Case, max, min int, mode string, api ...string) *c12Rendered {
	forLayout := len(api) > 0 && api[0] == "layout"
	r := &c12Rendered{titleEl: map[string]int{}, unitEl: []int{0}, heads: map[string][]int{}, shared: map[int][]int{}, classOf: map[string]int{}}
	r.n = make([]int, len(c.Doc))
	r.before = make([]int, len(c.Doc))
	classRoot := map[int]int{} // text class -> unit whose token is the shared text
	r.first = make([]int, len(c.Doc))
	pages := map[int]*model.Page{}
	var order []*model.Page
	for _, pn := range c.Pages {
		p := model.NewPage(612, 792)
		p.Number = pn
		p.Layout = &model.PageLayout{}
		pages[pn] = p
		order = append(order, p)
	}
	g := 0
	ypos := map[int]float64{}
	for i, e := range c.Doc {
		p := pages[e.Pg]
		n, pad := 0, 0
		switch e.K {
		case "G", "R":
			n = 1
		case "H":
			n = 1
			if e.N == 0 { // hollow: white space only
				n = 0
			}
		case "P":
			if e.N == 0 { // hollow: white space only
				n = 0
			} else if b := c12Bytes(e.A, max, min); b > 0 {
				n, pad = c12WordsFor(b)
			} else {
				n = c12Words(e.A, max)
			}
		case "L", "T":
			n = e.A
			if e.K == "L" && e.A >= 100 {
				n = c12ListItems(c12Bytes(e.A-100, max, min))
			}
		case "I":
			n = e.A
		}
		r.n[i] = n
		r.before[i] = g
		if n > 0 {
			r.first[i] = g + 1
		}
		toks := make([]string, n)
		for j := 0; j < n; j++ {
			g++
			toks[j] = c12Tok(g)
			r.unitEl = append(r.unitEl, i+1)
		}
		y := 760 - ypos[e.Pg]
		ypos[e.Pg] += 30
		bbox := model.BBox{X: 72, Y: y, Width: 400, Height: 20}
		switch e.K {
		case "G", "R":
			// G: a heading given as a Paragraph element whose text is listed in
			// Layout.Headings of its page (a "heading-like paragraph"); R: a plain
			// paragraph.  Elements of one text class (t > 0) show the same text.
			root := g
			if e.T > 0 {
				if cr, ok := classRoot[e.T]; ok {
					root = cr
				} else {
					classRoot[e.T] = g
				}
				r.shared[root] = append(r.shared[root], g)
			}
			txt := c12Tok(root)
			if e.T > 0 {
				r.classOf[txt] = e.T
			}
			p.Elements = append(p.Elements, &model.Paragraph{Text: txt, BBox: bbox, FontSize: 11})
			if e.K == "G" {
				r.titleEl[txt] = i + 1
				r.heads[txt] = append(r.heads[txt], i+1)
				p.Layout.Headings = append(p.Layout.Headings, model.HeadingInfo{Level: e.A, Text: txt, BBox: bbox, FontSize: 20, Confidence: 1})
			} else {
				p.Layout.Paragraphs = append(p.Layout.Paragraphs, model.ParagraphInfo{Index: len(p.Layout.Paragraphs), Text: txt, BBox: bbox, FontSize: 11})
			}
		case "H":
			txt := []string{"", "   "}[i%2] // hollow: a heading of white space
			if n > 0 {
				txt = toks[0] // every content word is a tracked unit: the title is the token
				r.titleEl[txt] = i + 1
				r.heads[txt] = append(r.heads[txt], i+1)
			}
			p.Elements = append(p.Elements, &model.Heading{Text: txt, Level: e.A, BBox: bbox, FontSize: 20})
			if n > 0 || forLayout {
				// the element chunker reads Layout.Headings only to recognise paragraphs that
				// repeat a heading text: a blank entry would make every blank paragraph a heading
				p.Layout.Headings = append(p.Layout.Headings, model.HeadingInfo{Level: e.A, Text: txt, BBox: bbox, FontSize: 20, Confidence: 1})
			}
		case "P":
			if n == 0 { // hollow: a paragraph of spaces or newlines only
				txt := []string{"  ", "\n\n", " \n "}[i%3]
				p.Elements = append(p.Elements, &model.Paragraph{Text: txt, BBox: bbox, FontSize: 11})
				p.Layout.Paragraphs = append(p.Layout.Paragraphs, model.ParagraphInfo{Index: len(p.Layout.Paragraphs), Text: txt, BBox: bbox, FontSize: 11})
				break
			}
			var sb strings.Builder
			for j, t := range toks {
				if j > 0 {
					sb.WriteByte(' ')
				}
				sb.WriteString(t)
				if j == n-1 {
					// padding to the exact byte length of a boundary class; it is glued
					// to the last token, so it is never a word of its own
					sb.WriteString(strings.Repeat("x", pad))
				}
				if n > 1 && (j%7 == 6 || j == n-1) {
					sb.WriteByte('.')
				}
			}
			if (e.A <= 2 || e.A == 5) && i+1 < len(c.Doc) && c.Doc[i+1].K == "L" && i%3 != 2 {
				sb.WriteByte(':') // a list introduction
			}
			p.Elements = append(p.Elements, &model.Paragraph{Text: sb.String(), BBox: bbox, FontSize: 11})
			p.Layout.Paragraphs = append(p.Layout.Paragraphs, model.ParagraphInfo{Index: len(p.Layout.Paragraphs), Text: sb.String(), BBox: bbox, FontSize: 11})
		case "L":
			items := make([]model.ListItem, n)
			for j, t := range toks {
				items[j] = model.ListItem{Text: t, Level: j % 3, Bullet: "-"}
			}
			if n == 0 && i%2 == 1 { // hollow: items without text instead of no items
				items = []model.ListItem{{Text: "", Bullet: "-"}, {Text: " ", Level: 1, Bullet: "-"}}
			}
			ordered := i%2 == 1
			p.Elements = append(p.Elements, &model.List{Items: items, Ordered: ordered, BBox: bbox})
			lt := model.ListTypeBullet
			if ordered {
				lt = model.ListTypeNumbered
			}
			p.Layout.Lists = append(p.Layout.Lists, model.ListInfo{Type: lt, Items: items, BBox: bbox, Nested: n > 1})
		case "T":
			var rows [][]model.Cell
			for j := 0; j < n; j += 2 {
				row := []model.Cell{{Text: toks[j], RowSpan: 1, ColSpan: 1, IsHeader: j == 0}}
				if j+1 < n {
					row = append(row, model.Cell{Text: toks[j+1], RowSpan: 1, ColSpan: 1, IsHeader: j == 0})
				}
				rows = append(rows, row)
			}
			if n == 0 && i%2 == 1 { // hollow: a row of empty cells instead of no rows
				rows = [][]model.Cell{{{Text: "", RowSpan: 1, ColSpan: 1}, {Text: " ", RowSpan: 1, ColSpan: 1}}}
			}
			p.Elements = append(p.Elements, &model.Table{Rows: rows, BBox: bbox, HasGrid: true, Confidence: 1})
		case "I":
			alt := ""
			if n == 1 {
				alt = toks[0]
			}
			p.Elements = append(p.Elements, &model.Image{AltText: alt, BBox: bbox})
		}
	}
	r.total = g
	if mode == "addpage" {
		d := model.NewDocument()
		d.Metadata.Title = "Title of the document"
		for _, p := range order {
			d.AddPage(p)
		}
		r.doc = d
	} else {
		d := model.NewDocument()
		d.Metadata.Title = "Title of the document"
		d.Pages = order
		r.doc = d
	}
	return r
}

// ---------------------------------------------------------------- projection

var c12TokRe = regexp.MustCompile(`u[0-9]{6}`)

type c12Obs struct {
	Units  []int    `json:"units"`
	Index  int      `json:"index"`
	ID     string   `json:"id"`
	Ps     int      `json:"ps"`
	Pe     int      `json:"pe"`
	Path   []int    `json:"path"`
	Total  int      `json:"total"`
	Titles []string `json:"titles,omitempty"`
	Text   string   `json:"text,omitempty"` // only for a chunk without any unit
	// Title: the heading element the chunk's SectionTitle (and the "[title]" line of
	// TextWithContext) names; -1 = none shown, 0 = text that is no heading of the document
	Title int `json:"title"`
}

func c12Strip(s string) string {
	var sb strings.Builder
	for _, r := range s {
		if !unicode.IsSpace(r) {
			sb.WriteRune(r)
		}
	}
	return sb.String()
}

func c12Project(chunks []*rag.Chunk, r *c12Rendered, api string) []c12Obs {
	obs := make([]c12Obs, len(chunks))
	var sb strings.Builder
	starts := make([]int, len(chunks))
	for i, ch := range chunks {
		starts[i] = sb.Len()
		sb.WriteString(c12Strip(ch.Text))
	}
	all := sb.String()
	textUnits := make([][]int, len(chunks))
	occ := map[int]int{}
	for _, m := range c12TokRe.FindAllStringIndex(all, -1) {
		g, _ := strconv.Atoi(all[m[0]+1 : m[1]])
		if us := r.shared[g]; len(us) > 0 {
			// a text that several elements show: its k-th occurrence is the k-th of them
			k := occ[g]
			occ[g]++
			if k >= len(us) {
				k = len(us) - 1
			}
			g = us[k]
		}
		ci := sort.Search(len(starts), func(k int) bool { return starts[k] > m[0] }) - 1
		if ci >= 0 {
			textUnits[ci] = append(textUnits[ci], g)
		}
	}
	seenHead := map[int]bool{}
	for i, ch := range chunks {
		o := c12Obs{Index: ch.Metadata.ChunkIndex, ID: ch.ID, Ps: ch.Metadata.PageStart, Pe: ch.Metadata.PageEnd,
			Total: ch.Metadata.TotalChunks, Path: []int{}, Units: []int{}, Title: -1}
		if len(ch.Metadata.SectionPath) > 0 && strings.TrimSpace(ch.Metadata.SectionTitle) != "" {
			o.Title = r.titleOf(ch.Metadata.SectionTitle)
			if twc := ch.TextWithContext; strings.HasPrefix(twc, "[") {
				if end := strings.Index(twc, "]\n\n"); end < 0 || r.titleOf(twc[1:end]) != o.Title {
					o.Title = 0 // the context line names something else than the section title
				}
			}
		}
		for _, t := range ch.Metadata.SectionPath {
			if strings.TrimSpace(t) == "" {
				o.Path = append(o.Path, -1) // a heading without text (hollow)
				continue
			}
			o.Path = append(o.Path, r.titleOf(t)) // 0 = not a heading of this document
			if r.titleOf(t) == 0 {
				o.Titles = append(o.Titles, t)
			}
		}
		viaPath := map[int]bool{}
		if api == "layout" {
			// rag.Chunker carries section headings as chunk metadata (SectionPath /
			// TextWithContext), not in Text: a heading counts as contained in the first
			// chunk whose section path shows it.
			for _, el := range o.Path {
				if el > 0 {
					u := r.first[el-1]
					if !seenHead[u] {
						seenHead[u] = true
						viaPath[u] = true
						o.Units = append(o.Units, u)
					}
				}
			}
		}
		for _, u := range textUnits[i] {
			if viaPath[u] {
				delete(viaPath, u)
				continue
			}
			o.Units = append(o.Units, u)
			if api == "layout" && u >= 1 && u <= r.total {
				// a heading that shows up in Text is counted there; a later path that
				// names it does not count it again
				if el := r.unitEl[u]; r.first[el-1] == u {
					seenHead[u] = true
				}
			}
		}
		if len(o.Units) == 0 {
			o.Text = ch.Text
			if len(o.Text) > 120 {
				o.Text = o.Text[:120]
			}
		}
		obs[i] = o
	}
	return obs
}

// titleOf: the heading element a title names; a text that several elements share
// cannot name one of them: it is reported as -(100 + its text class), like NormPath
// of Chunking.tla does for the expected path.
func (r *c12Rendered) titleOf(t string) int {
	if cl := r.classOf[t]; cl > 0 {
		return -(100 + cl)
	}
	return r.titleEl[t]
}

func c12Runs(units []int) [][2]int {
	var rs [][2]int
	for _, u := range units {
		if len(rs) > 0 && rs[len(rs)-1][1]+1 == u {
			rs[len(rs)-1][1] = u
		} else {
			rs = append(rs, [2]int{u, u})
		}
	}
	if rs == nil {
		rs = [][2]int{}
	}
	return rs
}

func c12Events(c *c12Case, r *c12Rendered, obs []c12Obs, cfg c12Cfg, mode string) []Event {
	els := make([]map[string]interface{}, len(c.Doc))
	for i, e := range c.Doc {
		els[i] = map[string]interface{}{"k": e.K, "a": e.A, "pg": e.Pg, "n": r.n[i], "t": e.T}
	}
	minor := 7
	if cfg.api == "layout" {
		minor = cfg.minHeading() + 1 // headings deeper than ChunkerConfig.MinHeadingLevel are content
	}
	if strings.HasPrefix(cfg.api, "pdf") {
		minor = 0 // headings detected by heuristics: the weak path rule of the contract
	}
	// "case" lets a rejected segment be re-run (driver mode tracecase); the trace
	// specification does not read it
	rc := map[string]interface{}{"doc": c.Doc, "pages": c.Pages, "lnorm": c.Lnorm, "only_cfg": cfg.name, "only_mode": mode}
	evs := []Event{{"event": "Doc", "els": els, "pages": c.Pages, "minor": minor, "tag": cfg.api + ":" + mode, "cfg": cfg.name, "case": rc}}
	totals := make([]int, len(obs))
	for i, o := range obs {
		ev := Event{"event": "Emit", "rs": c12Runs(o.Units), "index": o.Index, "id": o.ID, "ps": o.Ps, "pe": o.Pe, "path": o.Path, "title": o.Title}
		if o.Text != "" {
			ev["text"] = o.Text
		}
		evs = append(evs, ev)
		totals[i] = o.Total
	}
	evs = append(evs, Event{"event": "Finish", "totals": totals})
	return evs
}

// ---------------------------------------------------------------- R2 compare

type c12Fail struct {
	clause string
	what   string
	chunk  int // chunk index the failure was seen at (-1: whole result)
	el     int // element index (1-based) involved, 0 if none
}

func c12EqInts(a, b []int) bool {
	if len(a) != len(b) {
		return false
	}
	for i := range a {
		if a[i] != b[i] {
			return false
		}
	}
	return true
}

// c12Compare checks the projected chunks against the expectation the spec
// emitted with the case (paths) and the rendering order of the units.
func c12Compare(c *c12Case, r *c12Rendered, obs []c12Obs, api string, mhl int) *c12Fail {
	want := 1
	later := map[int]bool{}
	for _, o := range obs {
		for _, u := range o.Units {
			later[u] = true
		}
	}
	desc := func(u int) string {
		if u < 1 || u > r.total {
			return fmt.Sprintf("unit %d (not a unit of the document)", u)
		}
		el := r.unitEl[u]
		e := c.Doc[el-1]
		return fmt.Sprintf("unit %d (%s of element %d: %s(%d) on page %d)", u, c12Tok(u), el, e.K, e.A, e.Pg)
	}
	// the section title is the innermost entry of the section path (judged first: a
	// path that names the wrong section also misattributes headings carried as metadata)
	for i, o := range obs {
		if o.Title != -1 && len(o.Path) > 0 && o.Title != o.Path[len(o.Path)-1] {
			return &c12Fail{"path", fmt.Sprintf("chunk %d has section path %v (heading elements) but its SectionTitle / context line names heading element %d", i, o.Path, o.Title), i, o.Title}
		}
	}
	ids := map[string]bool{}
	for i, o := range obs {
		if len(o.Units) == 0 {
			// a chunk without content is only possible where a hollow element stands (all
			// units before it consumed, none after it); it still takes part in the numbering
			hollow := false
			for el := range c.Doc {
				if r.n[el] == 0 && r.before[el]+1 == want {
					hollow = true
				}
			}
			if !hollow {
				return &c12Fail{"empty-chunk", fmt.Sprintf("chunk %d contains no content unit of the document", i), i, 0}
			}
		}
		for _, u := range o.Units {
			switch {
			case u == want:
				want++
			case u < want:
				return &c12Fail{"repeat", fmt.Sprintf("chunk %d repeats %s", i, desc(u)), i, c12ElOf(r, u)}
			case u > r.total:
				return &c12Fail{"unknown-unit", fmt.Sprintf("chunk %d holds %s", i, desc(u)), i, 0}
			default:
				if later[want] {
					return &c12Fail{"order", fmt.Sprintf("chunk %d holds %s before %s", i, desc(u), desc(want)), i, c12ElOf(r, want)}
				}
				return &c12Fail{"coverage", fmt.Sprintf("%s is in no chunk (chunk %d continues with %s)", desc(want), i, desc(u)), i, c12ElOf(r, want)}
			}
		}
		if o.Index != i {
			return &c12Fail{"index", fmt.Sprintf("chunk at position %d reports ChunkIndex %d", i, o.Index), i, 0}
		}
		if ids[o.ID] {
			return &c12Fail{"id", fmt.Sprintf("chunk %d re-uses ID %q", i, o.ID), i, 0}
		}
		ids[o.ID] = true
		if len(o.Units) == 0 {
			continue // the chunk of a hollow element: index, id and total are all that is asked of it
		}
		// page range within the pages of its units
		lo, hi := 1<<30, -1
		elset := map[int]bool{}
		for _, u := range o.Units {
			el := r.unitEl[u]
			elset[el] = true
			pg := c.Doc[el-1].Pg
			if pg < lo {
				lo = pg
			}
			if pg > hi {
				hi = pg
			}
		}
		// hollow elements standing directly before, between or after the chunk's units may
		// have been taken into it: their pages are admissible too
		for el := range c.Doc {
			if r.n[el] == 0 && r.before[el]+1 >= o.Units[0] && r.before[el] <= o.Units[len(o.Units)-1] {
				if pg := c.Doc[el].Pg; pg < lo {
					lo = pg
				}
				if pg := c.Doc[el].Pg; pg > hi {
					hi = pg
				}
			}
		}
		if !(o.Ps <= o.Pe && o.Ps >= lo && o.Pe <= hi) {
			return &c12Fail{"page-range", fmt.Sprintf("chunk %d reports pages %d-%d, its content comes from pages %d..%d", i, o.Ps, o.Pe, lo, hi), i, r.unitEl[o.Units[0]]}
		}
		okPath := false
		for el := range elset {
			if c12EqInts(o.Path, c12Norm(c, c.Els[el-1].Path)) || (api == "layout" && mhl == 3 && c12EqInts(o.Path, c12Norm(c, c.Els[el-1].Mpath))) {
				okPath = true
			}
		}
		if api == "layout" && mhl >= 1 && mhl <= 6 {
			for el := range elset {
				if mps := c.Els[el-1].Mps; len(mps) == 6 && c12EqInts(o.Path, c12Norm(c, mps[mhl-1])) {
					okPath = true
				}
			}
		}
		if strings.HasPrefix(api, "pdf") {
			// headings are detected by layout heuristics: which lines are reported is not
			// asserted, only that a reported one is a heading of the document that does
			// not come after the chunk's content
			last := 0
			for el := range elset {
				if el > last {
					last = el
				}
			}
			okPath = true
			for _, h := range o.Path {
				if h < 1 || h > len(c.Doc) || c.Doc[h-1].K != "H" || h > last {
					okPath = false
				}
			}
		}
		if !okPath {
			el := r.unitEl[o.Units[0]]
			return &c12Fail{"path", fmt.Sprintf("chunk %d (element %d) has section path %v (heading elements), the enclosing chain is %v", i, el, o.Path, c.Els[el-1].Path), i, el}
		}
	}
	if want <= r.total {
		return &c12Fail{"coverage", fmt.Sprintf("%s and everything after it is in no chunk", desc(want)), -1, c12ElOf(r, want)}
	}
	for i, o := range obs {
		if o.Total != len(obs) {
			return &c12Fail{"total", fmt.Sprintf("chunk %d reports TotalChunks %d of %d", i, o.Total, len(obs)), i, 0}
		}
	}
	return nil
}

// c12Norm: a hollow heading has no text a path could name it by; -1 stands for it
// (the same normalisation as NormPath in Chunking.tla).
func c12Norm(c *c12Case, path []int) []int {
	out := make([]int, len(path))
	for i, h := range path {
		out[i] = h
		if h >= 1 && h <= len(c.Doc) && c.Doc[h-1].K == "H" && c.Doc[h-1].N == 0 {
			out[i] = -1
		}
		if h >= 1 && h <= len(c.Doc) && c.Doc[h-1].T > 0 {
			out[i] = -(100 + c.Doc[h-1].T)
		}
	}
	return out
}

func c12ElOf(r *c12Rendered, u int) int {
	if u >= 1 && u <= r.total {
		return r.unitEl[u]
	}
	return 0
}

// c12Feature names the minimal abstract feature behind a failure so that
// different defects get different signatures.
func c12Feature(c *c12Case, r *c12Rendered, f *c12Fail, cfg c12Cfg, mode string) string {
	switch f.clause {
	case "path":
		if cfg.api == "elem" && f.el > 0 {
			// re-run on the prefix of the document that ends with the failing element:
			// a path that is right there was changed afterwards (shared slice)
			pc := *c
			pc.Doc = c.Doc[:f.el]
			pc.Els = c.Els[:f.el]
			pr := c12Render(&pc, cfg.maxChars, cfg.minChars, mode, cfg.api)
			if chunks, err := c12Run(cfg, pr.doc); err == nil {
				po := c12Project(chunks, pr, cfg.api)
				for _, o := range po {
					if len(o.Units) > 0 && pr.unitEl[o.Units[0]] == f.el {
						if c12EqInts(o.Path, c.Els[f.el-1].Path) {
							return "alias"
						}
						break
					}
				}
			}
			return "stack"
		}
		return ""
	case "coverage", "order", "repeat":
		if f.el > 0 {
			e := c.Doc[f.el-1]
			s := e.K
			if e.K == "H" && e.A >= 4 {
				s = "Hminor"
			}
			if len(c.Els[f.el-1].Mpath) >= 2 || (e.K != "H" && len(c.Els[f.el-1].Mpath) >= 1 && cfg.api == "layout" && c12Nested(c, f.el)) {
				s += ":nested"
			}
			return s
		}
	case "page-range":
		if cfg.api == "elem" {
			return mode // "addpage": the numbers were lost when the document was assembled
		}
	}
	return ""
}

// c12Nested: element el lies under a heading that itself has a parent heading.
func c12Nested(c *c12Case, el int) bool { return len(c.Els[el-1].Mpath) >= 2 }

func c12Run(cfg c12Cfg, d *model.Document) (chunks []*rag.Chunk, err error) {
	defer func() {
		if p := recover(); p != nil {
			err = fmt.Errorf("panic: %v", p)
		}
	}()
	return cfg.run(d)
}

func c12Nontrivial(c *c12Case) bool {
	levels := map[int]bool{}
	for _, e := range c.Doc {
		if e.K == "H" {
			levels[e.A] = true
		}
		if e.K == "P" && e.A >= 3 && e.A != 5 && e.A != 9 && e.A != 10 {
			return true // a paragraph at or above the maximum, or one that nearly fills a chunk
		}
	}
	return len(levels) >= 2
}

func c12ReplayCase(i int, raw []byte) Result {
	var c c12Case
	if err := json.Unmarshal(raw, &c); err != nil {
		return fail("decode", "decode", err.Error(), nil)
	}
	key := string(mustJSON(map[string]interface{}{"d": c.Doc, "p": c.Pages}))
	res := Result{OK: true, Nontrivial: c12Nontrivial(&c), Key: key}
	cfgs := c12Configs()
	// all configurations on the document as given first, then the AddPage-built twin
	for _, mode := range []string{"direct", "addpage"} {
		if c.OnlyMode != "" && c.OnlyMode != mode {
			continue
		}
		for ci, cfg := range cfgs {
			if c.OnlyCfg != "" && c.OnlyCfg != cfg.name {
				continue
			}
			if cfg.api == "layout" && !c.Lnorm {
				continue
			}
			if cfg.treeOnly && !c.Tree && c.OnlyCfg == "" {
				continue
			}
			if c.Lean && c.OnlyCfg == "" && !cfg.treeOnly && cfg.name != "ChunkDocument" && cfg.name != "NewChunker" {
				continue
			}
			if cfg.heavy && !c.Heavy && c.OnlyCfg == "" {
				continue
			}
			if mode == "addpage" && c.OnlyMode == "" && ci%3 != 0 && len(c.Pages) > 0 && c.Pages[0] == 1 {
				continue // AddPage numbering only differs when the pages are not 1..n
			}
			r := c12Render(&c, cfg.maxChars, cfg.minChars, mode, cfg.api)
			chunks, err := c12Run(cfg, r.doc)
			res.Evals++
			replay := func(obs interface{}) interface{} {
				cc := c
				cc.OnlyCfg, cc.OnlyMode, cc.TraceMod = cfg.name, mode, 0
				return map[string]interface{}{"case": cc, "cfg": cfg.name, "mode": mode, "observed": obs}
			}
			if err != nil {
				x := fail("error", "C12:error:"+cfg.api, cfg.name+": "+err.Error(), replay(err.Error()))
				x.Nontrivial, x.Key, x.Evals, x.Events = res.Nontrivial, key, res.Evals, res.Events
				return x
			}
			obs := c12Project(chunks, r, cfg.api)
			if c.TraceMod > 0 && (i*31+ci*7+len(mode))%c.TraceMod == 0 {
				res.Events = append(res.Events, c12Events(&c, r, obs, cfg, mode)...)
			}
			if f := c12Compare(&c, r, obs, cfg.api, cfg.minHeading()); f != nil {
				sig := "C12:" + f.clause + ":" + cfg.api
				if ft := c12Feature(&c, r, f, cfg, mode); ft != "" {
					sig += ":" + ft
				}
				x := fail(f.clause, sig, fmt.Sprintf("%s (%s pages): %s", cfg.name, mode, f.what), replay(obs))
				x.Nontrivial, x.Key, x.Evals, x.Events = res.Nontrivial, key, res.Evals, res.Events
				return x
			}
		}
	}
	return res
}

// ---------------------------------------------------------------- record

// c12Record: {"n": documents, "len": elements}; every document is chunked by a
// few configurations; each run is one trace segment.
func c12Record(in, out string) error {
	type req struct {
		N   int `json:"n"`
		Len int `json:"len"`
	}
	cfgs := c12Configs()
	return runCases(in, out, func(i int, raw []byte) Result {
		var q req
		if err := json.Unmarshal(raw, &q); err != nil {
			return fail("decode", "decode", err.Error(), nil)
		}
		rnd := newRand(int64(i) + 1200)
		var events []Event
		evals := 0
		for d := 0; d < q.N; d++ {
			lnorm := rnd.Intn(5) < 2
			gap := rnd.Intn(2) == 0
			var c c12Case
			npages := 1 + rnd.Intn(5)
			for p := 1; p <= npages; p++ {
				pn := p
				if gap {
					pn = 2*p + 1
				}
				c.Pages = append(c.Pages, pn)
			}
			n := 1 + rnd.Intn(q.Len)
			pgIdx := make([]int, n)
			for j := range pgIdx {
				pgIdx[j] = rnd.Intn(npages)
			}
			sort.Ints(pgIdx)
			for j := 0; j < n; j++ {
				var e c12El
				e.Pg = c.Pages[pgIdx[j]]
				switch x := rnd.Intn(10); {
				case x < 3:
					e.K, e.A = "H", 1+rnd.Intn(6)
					if rnd.Intn(3) > 0 {
						e.A = 1 + rnd.Intn(3)
					}
				case x < 7:
					e.K, e.A = "P", 1+rnd.Intn(4)
					if rnd.Intn(3) == 0 {
						e.A = 5 + rnd.Intn(8) // sizes at the configured min/max boundaries
					}
				case x < 8:
					e.K, e.A = "L", 1+rnd.Intn(6)
					if rnd.Intn(6) == 0 {
						e.A = 40 + rnd.Intn(60) // larger than the small maximum chunk size
					} else if rnd.Intn(6) == 0 {
						e.A = 106 // nearly fills a chunk
					}
				case x < 9:
					e.K, e.A = "T", 2*(1+rnd.Intn(3))
				default:
					e.K, e.A = "I", rnd.Intn(2)
				}
				if lnorm && (e.K == "T" || e.K == "I") {
					e.K, e.A = "P", 2
				}
				e.N = 1 // n = 0 marks a hollow heading / paragraph
				if rnd.Intn(8) == 0 {
					switch e.K { // a hollow element: white space only / no items / no rows
					case "H", "P":
						e.N = 0
					case "L", "T":
						e.A, e.N = 0, 0
					}
				}
				c.Doc = append(c.Doc, e)
			}
			if lnorm {
				rank := map[string]int{"H": 1, "P": 2, "L": 3}
				sort.SliceStable(c.Doc, func(a, b int) bool {
					if c.Doc[a].Pg != c.Doc[b].Pg {
						return c.Doc[a].Pg < c.Doc[b].Pg
					}
					return rank[c.Doc[a].K] < rank[c.Doc[b].K]
				})
			}
			c.Lnorm = lnorm
			// three configurations per document (+ both layout chunkers when possible)
			pick := map[int]bool{0: true, 1 + rnd.Intn(7): true, 8 + rnd.Intn(3): rnd.Intn(4) == 0}
			for ci, cfg := range cfgs {
				if cfg.api == "layout" && !lnorm {
					continue
				}
				if cfg.api == "elem" && !pick[ci] {
					continue
				}
				mode := "direct"
				if rnd.Intn(3) == 0 {
					mode = "addpage"
				}
				r := c12Render(&c, cfg.maxChars, cfg.minChars, mode, cfg.api)
				chunks, err := c12Run(cfg, r.doc)
				evals++
				if err != nil {
					x := fail("error", "C12:error:"+cfg.api, cfg.name+": "+err.Error(), map[string]interface{}{"doc": c.Doc, "pages": c.Pages, "cfg": cfg.name})
					x.Evals = evals
					return x
				}
				events = append(events, c12Events(&c, r, c12Project(chunks, r, cfg.api), cfg, mode)...)
			}
		}
		return Result{OK: true, Events: events, Evals: evals}
	})
}

// c12TraceCase re-runs one (document, configuration, page mode) and returns its
// trace segment; used to replay a violation that trace validation found.
func c12TraceCase(i int, raw []byte) Result {
	var c c12Case
	if err := json.Unmarshal(raw, &c); err != nil {
		return fail("decode", "decode", err.Error(), nil)
	}
	res := Result{OK: true}
	for _, cfg := range c12Configs() {
		if cfg.name != c.OnlyCfg {
			continue
		}
		r := c12Render(&c, cfg.maxChars, cfg.minChars, c.OnlyMode, cfg.api)
		chunks, err := c12Run(cfg, r.doc)
		res.Evals++
		if err != nil {
			return fail("error", "C12:error:"+cfg.api, cfg.name+": "+err.Error(), map[string]interface{}{"case": json.RawMessage(raw)})
		}
		res.Events = append(res.Events, c12Events(&c, r, c12Project(chunks, r, cfg.api), cfg, c.OnlyMode)...)
	}
	for _, ob := range c12Objects() { // segments recorded from a reuse history: re-run on a fresh object
		if ob.cfg.name != c.OnlyCfg {
			continue
		}
		r := c12Render(&c, ob.cfg.maxChars, ob.cfg.minChars, "direct", ob.cfg.api)
		chunks, err := ob.mk()(r.doc)
		res.Evals++
		if err != nil {
			return fail("error", "C12:error:"+ob.cfg.api, ob.cfg.name+": "+err.Error(), map[string]interface{}{"case": json.RawMessage(raw)})
		}
		res.Events = append(res.Events, c12Events(&c, r, c12Project(chunks, r, ob.cfg.api), ob.cfg, "direct")...)
	}
	return res
}

func c12(mode, in, out string) error {
	switch mode {
	case "tracecase":
		return runCases(in, out, c12TraceCase)
	case "pdf":
		return runCases(in, out, c12PdfCase)
	case "reuse":
		return runCases(in, out, c12ReuseRun)
	case "replay":
		return runCases(in, out, c12ReplayCase)
	case "record":
		return c12Record(in, out)
	}
	return fmt.Errorf("c12: unknown mode %s", mode)
}
