package main

// C07, font dictionaries (FontDict.tla): which base encoding the dictionary of a simple font selects. A case names
// the subtype, how /Encoding is written and the table the specification expects; the dictionary goes through the
// font constructors (font.NewType1Font / NewTrueTypeFont) and, rendered into a one-page document, through the public
// extraction API.

import (
	"encoding/json"
	"fmt"
	"os"
	"path/filepath"
	"strings"

	tabula "github.com/tsawler/tabula"
	"github.com/tsawler/tabula/core"
	"github.com/tsawler/tabula/font"

	"verif/internal/pdfw"
)

type fdCase struct {
	St        string `json:"st"`
	Sp        string `json:"sp"`
	Name      string `json:"name"`
	Indirect  bool   `json:"indirect"`
	Diffs     bool   `json:"diffs"`
	Effective string `json:"effective"`
	Expect    []int  `json:"expect"`
}

// glyph names of a few codes on which every named encoding agrees (the /Differences of a case rename these codes to
// the glyph they already have)
var fdSameGlyphs = []struct {
	code int
	name string
}{{65, "A"}, {66, "B"}, {97, "a"}, {48, "zero"}}

func c07FontDict(i int, raw []byte) Result {
	var c fdCase
	if err := json.Unmarshal(raw, &c); err != nil || len(c.Expect) != 256 {
		return fail("decode", "decode", fmt.Sprintf("fontdict case: %v", err), nil)
	}
	r := Result{OK: true, Nontrivial: c.Sp != "name", Key: string(raw), Evals: 0}
	feat := fmt.Sprintf("%s:%s", c.St, c.Sp)
	if c.Indirect {
		feat += ":ref"
	}
	if c.Diffs {
		feat += ":diffs"
	}
	mk := func(cl, what string, obs interface{}) Result {
		x := fail(cl, "C07:"+cl+":"+feat, what, map[string]interface{}{"case": json.RawMessage(raw), "observed": obs})
		x.Nontrivial, x.Key, x.Evals = r.Nontrivial, r.Key, r.Evals
		return x
	}
	baseFont := "Helvetica"
	if c.St == "TrueType" {
		baseFont = "ArialMT"
	}
	// (1) the constructors
	var encObj core.Object
	switch c.Sp {
	case "name":
		encObj = core.Name(c.Name)
	case "dictbase", "dictnobase":
		d := core.Dict{"Type": core.Name("Encoding")}
		if c.Sp == "dictbase" {
			d["BaseEncoding"] = core.Name(c.Name)
		}
		if c.Diffs {
			d["Differences"] = core.Array{core.Int(65), core.Name("A"), core.Name("B"), core.Int(97), core.Name("a"), core.Int(48), core.Name("zero")}
		}
		encObj = d
	}
	fd := core.Dict{"Type": core.Name("Font"), "Subtype": core.Name(c.St), "BaseFont": core.Name(baseFont)}
	table := map[int]core.Object{}
	if encObj != nil {
		if c.Indirect {
			table[9] = encObj
			fd["Encoding"] = core.IndirectRef{Number: 9, Generation: 0}
		} else {
			fd["Encoding"] = encObj
		}
	}
	resolver := func(ref core.IndirectRef) (core.Object, error) {
		if o, ok := table[ref.Number]; ok {
			return o, nil
		}
		return nil, fmt.Errorf("object %d not found", ref.Number)
	}
	var dec func(b []byte) string
	if c.St == "Type1" {
		f, err := font.NewType1Font(fd, resolver)
		if err != nil {
			return mk("fontdict-error", "NewType1Font: "+err.Error(), nil)
		}
		dec = f.DecodeString
	} else {
		f, err := font.NewTrueTypeFont(fd, resolver)
		if err != nil {
			return mk("fontdict-error", "NewTrueTypeFont: "+err.Error(), nil)
		}
		dec = f.DecodeString
	}
	var shown []byte
	var want []rune
	for code := 0; code < 256; code++ {
		exp := c.Expect[code]
		if exp == 0 {
			continue
		}
		r.Evals++
		got := dec([]byte{byte(code)})
		if got != string(rune(exp)) && font.NormalizeUnicode(string(rune(exp))) != got {
			return mk("fontdict", fmt.Sprintf("a %s font whose /Encoding is written as %q (name %s) decodes code %#02x to %U; its base encoding is %s, which defines U+%04X",
				c.St, c.Sp, c.Name, code, []rune(got), c.Effective, exp), cps(got))
		}
		if code > 0x20 && exp > 0x20 && exp != 0xA0 && exp != 0xAD {
			shown = append(shown, byte(code))
			want = append(want, []rune(font.NormalizeUnicode(string(rune(exp))))...)
		}
	}
	// (2) the same dictionary in a document, read through the public API: the codes in rows of 16
	var encW pdfw.Obj
	switch c.Sp {
	case "name":
		encW = pdfw.Name(c.Name)
	case "dictbase", "dictnobase":
		d := pdfw.Dict{{"Type", pdfw.Name("Encoding")}}
		if c.Sp == "dictbase" {
			d = append(d, pdfw.KV{"BaseEncoding", pdfw.Name(c.Name)})
		}
		if c.Diffs {
			d = append(d, pdfw.KV{"Differences", pdfw.Arr{pdfw.Int(65), pdfw.Name("A"), pdfw.Name("B"), pdfw.Int(97), pdfw.Name("a"), pdfw.Int(48), pdfw.Name("zero")}})
		}
		encW = d
	}
	fontW := pdfw.Dict{{"Type", pdfw.Name("Font")}, {"Subtype", pdfw.Name(c.St)}, {"BaseFont", pdfw.Name(baseFont)}}
	items := []pdfw.Item{
		{Num: 1, Val: pdfw.Dict{{"Type", pdfw.Name("Catalog")}, {"Pages", pdfw.Ref{Num: 2}}}},
		{Num: 2, Val: pdfw.Dict{{"Type", pdfw.Name("Pages")}, {"Kids", pdfw.Arr{pdfw.Ref{Num: 3}}}, {"Count", pdfw.Int(1)}}},
		{Num: 3, Val: pdfw.Dict{{"Type", pdfw.Name("Page")}, {"Parent", pdfw.Ref{Num: 2}}, {"MediaBox", pdfw.Arr{pdfw.Int(0), pdfw.Int(0), pdfw.Int(612), pdfw.Int(792)}},
			{"Resources", pdfw.Dict{{"Font", pdfw.Dict{{"F1", pdfw.Ref{Num: 5}}}}}}, {"Contents", pdfw.Ref{Num: 4}}}},
	}
	var cs strings.Builder
	cs.WriteString("BT /F1 10 Tf 14 TL 40 760 Td\n")
	for k := 0; k < len(shown); k += 16 {
		end := k + 16
		if end > len(shown) {
			end = len(shown)
		}
		fmt.Fprintf(&cs, "<%X> Tj T*\n", shown[k:end])
	}
	cs.WriteString("ET")
	items = append(items, pdfw.Item{Num: 4, Stm: &pdfw.Stream{Data: []byte(cs.String())}})
	if encW != nil {
		if c.Indirect {
			fontW = append(fontW, pdfw.KV{"Encoding", pdfw.Ref{Num: 6}})
			items = append(items, pdfw.Item{Num: 6, Val: encW})
		} else {
			fontW = append(fontW, pdfw.KV{"Encoding", encW})
		}
	}
	items = append(items, pdfw.Item{Num: 5, Val: fontW})
	f := &pdfw.File{EOL: "lf", Revs: []pdfw.Revision{{XRef: "table", Root: pdfw.Ref{Num: 1}, Items: items}}}
	data, _, err := f.Bytes()
	if err != nil {
		return Result{OK: false, Sig: "MACHINERY:pdfw", What: err.Error()}
	}
	dir := os.Getenv("VERIF_SCRATCH")
	if dir == "" {
		dir = os.TempDir()
	}
	path := filepath.Join(dir, fmt.Sprintf("c07fd-%d-%d.pdf", os.Getpid(), i))
	if err := os.WriteFile(path, data, 0o644); err != nil {
		return Result{OK: false, Sig: "MACHINERY:io", What: err.Error()}
	}
	defer os.Remove(path)
	frs, _, err := tabula.Open(path).Fragments()
	if err != nil {
		return mk("fontdict-error", "Fragments() of the one-page document: "+err.Error(), nil)
	}
	var got []rune
	for _, fr := range frs {
		for _, ch := range fr.Text {
			if ch != ' ' {
				got = append(got, ch)
			}
		}
	}
	r.Evals++
	if string(got) != string(want) {
		k := 0
		for k < len(got) && k < len(want) && got[k] == want[k] {
			k++
		}
		w, g := rune(0), rune(0)
		if k < len(want) {
			w = want[k]
		}
		if k < len(got) {
			g = got[k]
		}
		return mk("fontdict-doc", fmt.Sprintf("page text of a %s font whose /Encoding is written as %q (name %s): character %d is %U, the base encoding %s gives %U", c.St, c.Sp, c.Name, k, g, c.Effective, w), nil)
	}
	return r
}

// c07Rebind: ONE resource name bound to two fonts in one extraction - the page's /F1 and the /F1 of a Form XObject's own
// resources - and the same bytes shown under both: each string is decoded by the font in force where it is shown.
// A case is a pair of font dictionary cases with different effective encodings (both Type1, written by name).
func c07Rebind(i int, raw []byte) Result {
	var c struct {
		A, B fdCase
	}
	if err := json.Unmarshal(raw, &c); err != nil || len(c.A.Expect) != 256 || len(c.B.Expect) != 256 {
		return fail("decode", "decode", fmt.Sprintf("rebind case: %v", err), nil)
	}
	r := Result{OK: true, Nontrivial: true, Key: string(raw), Evals: 1}
	var codes []byte
	var wantA, wantB []rune
	for code := 0x21; code < 256 && len(codes) < 24; code++ {
		a, b := c.A.Expect[code], c.B.Expect[code]
		if a > 0x20 && b > 0x20 && a != b && a != 0xA0 && b != 0xA0 && a != 0xAD && b != 0xAD {
			codes = append(codes, byte(code))
			wantA = append(wantA, []rune(font.NormalizeUnicode(string(rune(a))))...)
			wantB = append(wantB, []rune(font.NormalizeUnicode(string(rune(b))))...)
		}
	}
	if len(codes) == 0 {
		return r
	}
	fontOf := func(c fdCase) pdfw.Dict {
		d := pdfw.Dict{{"Type", pdfw.Name("Font")}, {"Subtype", pdfw.Name("Type1")}, {"BaseFont", pdfw.Name("Helvetica")}}
		if c.Sp == "name" {
			d = append(d, pdfw.KV{"Encoding", pdfw.Name(c.Name)})
		}
		return d
	}
	show := fmt.Sprintf("<%X> Tj", codes)
	f := &pdfw.File{EOL: "lf", Revs: []pdfw.Revision{{XRef: "table", Root: pdfw.Ref{Num: 1}, Items: []pdfw.Item{
		{Num: 1, Val: pdfw.Dict{{"Type", pdfw.Name("Catalog")}, {"Pages", pdfw.Ref{Num: 2}}}},
		{Num: 2, Val: pdfw.Dict{{"Type", pdfw.Name("Pages")}, {"Kids", pdfw.Arr{pdfw.Ref{Num: 3}}}, {"Count", pdfw.Int(1)}}},
		{Num: 3, Val: pdfw.Dict{{"Type", pdfw.Name("Page")}, {"Parent", pdfw.Ref{Num: 2}}, {"MediaBox", pdfw.Arr{pdfw.Int(0), pdfw.Int(0), pdfw.Int(612), pdfw.Int(792)}},
			{"Resources", pdfw.Dict{{"Font", pdfw.Dict{{"F1", pdfw.Ref{Num: 5}}}}, {"XObject", pdfw.Dict{{"X1", pdfw.Ref{Num: 7}}}}}}, {"Contents", pdfw.Ref{Num: 4}}}},
		{Num: 4, Stm: &pdfw.Stream{Data: []byte("BT /F1 10 Tf 40 700 Td " + show + " ET\n/X1 Do\nBT /F1 10 Tf 40 500 Td " + show + " ET")}},
		{Num: 5, Val: fontOf(c.A)},
		{Num: 6, Val: fontOf(c.B)},
		{Num: 7, Stm: &pdfw.Stream{Dict: pdfw.Dict{{"Type", pdfw.Name("XObject")}, {"Subtype", pdfw.Name("Form")}, {"BBox", pdfw.Arr{pdfw.Int(0), pdfw.Int(0), pdfw.Int(612), pdfw.Int(792)}},
			{"Resources", pdfw.Dict{{"Font", pdfw.Dict{{"F1", pdfw.Ref{Num: 6}}}}}}}, Data: []byte("BT /F1 10 Tf 40 600 Td " + show + " ET")}},
	}}}}
	data, _, err := f.Bytes()
	if err != nil {
		return Result{OK: false, Sig: "MACHINERY:pdfw", What: err.Error()}
	}
	dir := os.Getenv("VERIF_SCRATCH")
	if dir == "" {
		dir = os.TempDir()
	}
	path := filepath.Join(dir, fmt.Sprintf("c07rb-%d-%d.pdf", os.Getpid(), i))
	if err := os.WriteFile(path, data, 0o644); err != nil {
		return Result{OK: false, Sig: "MACHINERY:io", What: err.Error()}
	}
	defer os.Remove(path)
	frs, _, err := tabula.Open(path).Fragments()
	if err != nil {
		return fail("fontdict-error", "C07:fontdict-error:rebind", "Fragments() of the rebinding document: "+err.Error(), nil)
	}
	var got []rune
	for _, fr := range frs {
		for _, ch := range fr.Text {
			if ch != ' ' {
				got = append(got, ch)
			}
		}
	}
	// in content order: the page's font, the form's font, the page's font again (the form's resources end with the form)
	want := string(wantA) + string(wantB) + string(wantA)
	if string(got) != want {
		x := fail("rebind", fmt.Sprintf("C07:rebind:%s-then-%s", c.A.Effective, c.B.Effective),
			fmt.Sprintf("codes % X shown under /F1 of the page (%s), under /F1 of a form's own resources (%s) and under the page's /F1 again read %q; each string is decoded by the font in force where it is shown: %q",
				codes, c.A.Effective, c.B.Effective, string(got), want), map[string]interface{}{"case": json.RawMessage(raw)})
		x.Nontrivial, x.Key, x.Evals = true, string(raw), 1
		return x
	}
	return r
}
