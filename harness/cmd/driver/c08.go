package main

// C08 — GState.tla binding.
//
// replay: every TLC-emitted case (program + ISO state after it + fragments) is
//   (a) driven method by method through graphicsstate.GraphicsState and the
//       projected state compared, and
//   (b) rendered to content-stream bytes and pushed through
//       text.Extractor.ExtractFromBytes (Form XObjects through
//       SetResourceContext); fragment origin and size compared.
// record: long random programs are executed on the real GraphicsState and every
//   operator logs the full projected state for GStateTrace.tla.

import (
	"encoding/json"
	"fmt"
	"math"
	"strings"

	"github.com/tsawler/tabula/core"
	"github.com/tsawler/tabula/graphicsstate"
	"github.com/tsawler/tabula/model"
	"github.com/tsawler/tabula/text"
)

func init() { handlers["c08"] = c08 }

type gOp struct {
	Op string `json:"op"`
	A  []int  `json:"a"`
}

type gFrag struct {
	K     int  `json:"k"`
	Fs    int  `json:"fs"`
	X     int  `json:"x"`
	Y     int  `json:"y"`
	Sized bool `json:"sized"`
	Exact bool `json:"exact"`
	S2    int  `json:"s2"`
	LoNum int  `json:"loNum"`
	LoDen int  `json:"loDen"`
	Hi    int  `json:"hi"`
}

type gCase struct {
	Prog     []gOp   `json:"prog"`
	Ctm      []int   `json:"ctm"`
	Tm       []int   `json:"tm"`
	Tlm      []int   `json:"tlm"`
	Lead     int     `json:"lead"`
	Fs       int     `json:"fs"`
	Tc       int     `json:"tc"`
	Tw       int     `json:"tw"`
	Tz       int     `json:"tz"`
	Depth    int     `json:"depth"`
	InText   bool    `json:"inText"`
	PosKnown bool    `json:"posKnown"`
	Out      []gFrag `json:"out"`
	NShow    int     `json:"nshow"`
}

func mat(a []int) model.Matrix {
	var m model.Matrix
	for i := 0; i < 6 && i < len(a); i++ {
		m[i] = float64(a[i])
	}
	return m
}

func matEq(m model.Matrix, a []int) bool {
	for i := 0; i < 6; i++ {
		if math.Abs(m[i]-float64(a[i])) > 1e-9 {
			return false
		}
	}
	return true
}

func matInts(m model.Matrix) []int {
	r := make([]int, 6)
	for i := range r {
		r[i] = int(math.Round(m[i]))
	}
	return r
}

type shown struct {
	k       int
	x, y    float64
	size    float64
	hasSize bool
}

// gsApply drives one operator through the real GraphicsState. It returns the
// fragment observation for show operators.
func gsApply(gs *graphicsstate.GraphicsState, o gOp, k int) (*shown, error) {
	obs := func() *shown {
		x, y := gs.GetTextPosition()
		c := gs.CTM
		sc := math.Sqrt(c[2]*c[2] + c[3]*c[3])
		if sc == 0 {
			sc = 1
		}
		return &shown{k: k, x: x, y: y, size: gs.GetEffectiveFontSize() * sc, hasSize: true}
	}
	switch o.Op {
	case "q":
		gs.Save()
	case "Q":
		return nil, gs.Restore()
	case "cm":
		gs.Transform(mat(o.A))
	case "BT":
		gs.BeginText()
	case "ET":
		gs.EndText()
	case "Tf":
		gs.SetFont("/F1", float64(o.A[0]))
	case "TL":
		gs.SetLeading(float64(o.A[0]))
	case "Tc":
		gs.SetCharSpacing(float64(o.A[0]))
	case "Tw":
		gs.SetWordSpacing(float64(o.A[0]))
	case "Tz":
		gs.SetHorizontalScaling(float64(o.A[0]))
	case "Tm":
		gs.SetTextMatrix(mat(o.A))
	case "Td":
		gs.TranslateText(float64(o.A[0]), float64(o.A[1]))
	case "TD":
		gs.TranslateTextSetLeading(float64(o.A[0]), float64(o.A[1]))
	case "T*":
		gs.NextLine()
	case "Tj":
		s := obs()
		gs.ShowText("xy")
		return s, nil
	case "'":
		gs.NextLine()
		s := obs()
		gs.ShowText("xy")
		return s, nil
	case "dq":
		gs.SetWordSpacing(float64(o.A[0]))
		gs.SetCharSpacing(float64(o.A[1]))
		gs.NextLine()
		s := obs()
		gs.ShowText("xy")
		return s, nil
	case "'e":
		gs.NextLine()
		gs.ShowText("")
	case "dqe":
		gs.SetWordSpacing(float64(o.A[0]))
		gs.SetCharSpacing(float64(o.A[1]))
		gs.NextLine()
		gs.ShowText("")
	case "Do":
		gs.Save()
		gs.Transform(mat(o.A))
		gs.BeginText()
		s := obs()
		gs.ShowText("xy")
		gs.EndText()
		return s, gs.Restore()
	default:
		return nil, fmt.Errorf("unknown op %q", o.Op)
	}
	return nil, nil
}

func isShow(op string) bool { return op == "Tj" || op == "'" || op == "dq" || op == "Do" }

// renderProg renders the program as content-stream bytes; forms are returned as
// XObject name -> (matrix, body).
func renderProg(prog []gOp) ([]byte, map[string][2]string) {
	var b strings.Builder
	forms := map[string][2]string{}
	k := 0
	nums := func(a []int) string {
		s := make([]string, len(a))
		for i, v := range a {
			s[i] = fmt.Sprint(v)
		}
		return strings.Join(s, " ")
	}
	for _, o := range prog {
		switch o.Op {
		case "q", "Q", "BT", "ET", "T*":
			b.WriteString(o.Op)
		case "cm", "Tm", "Td", "TD", "TL", "Tc", "Tw", "Tz":
			b.WriteString(nums(o.A) + " " + o.Op)
		case "Tf":
			b.WriteString("/F1 " + nums(o.A) + " Tf")
		case "Tj":
			fmt.Fprintf(&b, "(t%d) Tj", k)
		case "'":
			fmt.Fprintf(&b, "(t%d) '", k)
		case "dq":
			fmt.Fprintf(&b, "%s (t%d) \"", nums(o.A), k)
		case "'e":
			b.WriteString("() '")
		case "dqe":
			b.WriteString(nums(o.A) + " () \"")
		case "Do":
			name := fmt.Sprintf("Fm%d", k)
			forms[name] = [2]string{nums(o.A), fmt.Sprintf("BT (t%d) Tj ET", k)}
			b.WriteString("/" + name + " Do")
		}
		if isShow(o.Op) {
			k++
		}
		b.WriteString("\n")
	}
	return []byte(b.String()), forms
}

func extractE2E(prog []gOp) ([]text.TextFragment, error) {
	data, forms := renderProg(prog)
	ex := text.NewExtractor()
	if len(forms) > 0 {
		xo := core.Dict{}
		objs := map[int]core.Object{}
		n := 10
		for name, f := range forms {
			var arr core.Array
			for _, s := range strings.Fields(f[0]) {
				var v int
				fmt.Sscan(s, &v)
				arr = append(arr, core.Int(v))
			}
			st := &core.Stream{Dict: core.Dict{"Type": core.Name("XObject"), "Subtype": core.Name("Form"),
				"Matrix": arr, "Length": core.Int(len(f[1]))}, Data: []byte(f[1])}
			objs[n] = st
			xo[name] = core.IndirectRef{Number: n, Generation: 0}
			n++
		}
		res := core.Dict{"XObject": xo}
		ex.SetResourceContext(res, func(r core.IndirectRef) (core.Object, error) {
			if o, ok := objs[r.Number]; ok {
				return o, nil
			}
			return nil, fmt.Errorf("no object %d", r.Number)
		})
	}
	return ex.ExtractFromBytes(data)
}

func c08Features(prog []gOp) (nontrivial bool) {
	ncm := 0
	nonIdText := false
	for _, o := range prog {
		switch o.Op {
		case "cm":
			ncm++
		case "Tm":
			nonIdText = true
		case "Td", "TD", "T*", "'", "dq":
			if nonIdText {
				return true
			}
		}
	}
	return ncm >= 2
}

func checkFrag(e gFrag, s *shown) (string, string) {
	if math.Abs(s.x-float64(e.X)) > 1e-6 || math.Abs(s.y-float64(e.Y)) > 1e-6 {
		return "frag-origin", fmt.Sprintf("fragment t%d origin (%g,%g), ISO (%d,%d)", e.K, s.x, s.y, e.X, e.Y)
	}
	if e.Sized && s.hasSize {
		s2 := s.size * s.size / float64(e.Fs*e.Fs)
		if e.Exact {
			if math.Abs(s2-float64(e.S2)) > 1e-6*math.Max(1, float64(e.S2)) {
				return "frag-size", fmt.Sprintf("fragment t%d (size/fs)^2 %g, ISO %d (similarity)", e.K, s2, e.S2)
			}
		} else {
			lo := float64(e.LoNum) / float64(e.LoDen)
			if s2 < lo*(1-1e-9) || s2 > float64(e.Hi)*(1+1e-9) {
				return "frag-size-bounds", fmt.Sprintf("fragment t%d (size/fs)^2 %g outside [%g,%d]", e.K, s2, lo, e.Hi)
			}
		}
	}
	return "", ""
}

func c08ReplayCase(i int, raw []byte) Result {
	var c gCase
	if err := json.Unmarshal(raw, &c); err != nil {
		return fail("decode", "decode", err.Error(), nil)
	}
	key := string(mustJSON(c.Prog))
	r := Result{OK: true, Nontrivial: c08Features(c.Prog), Key: key, Evals: 2}
	rep := func(path string, obs interface{}) interface{} {
		return map[string]interface{}{"path": path, "case": json.RawMessage(raw), "observed": obs}
	}
	last := ""
	if len(c.Prog) > 0 {
		last = c.Prog[len(c.Prog)-1].Op
	}
	// (a) direct
	gs := graphicsstate.NewGraphicsState()
	var shows []*shown
	k := 0
	for _, o := range c.Prog {
		s, err := gsApply(gs, o, k)
		if err != nil {
			return fail("error", "C08:direct-error:"+o.Op, "GraphicsState returned "+err.Error(), rep("direct", err.Error()))
		}
		if isShow(o.Op) {
			shows = append(shows, s)
			k++
		}
	}
	obs := map[string]interface{}{"ctm": matInts(gs.CTM), "tm": matInts(gs.Text.TextMatrix), "tlm": matInts(gs.Text.TextLineMatrix),
		"lead": gs.Text.Leading, "fs": gs.Text.FontSize}
	bad := func(cl, what string) Result {
		x := fail(cl, "C08:"+cl, what, rep("direct", obs))
		x.Nontrivial, x.Key = r.Nontrivial, key
		return x
	}
	if !matEq(gs.CTM, c.Ctm) {
		return bad("ctm", fmt.Sprintf("CTM after %q is %v, ISO 32000 gives %v", last, matInts(gs.CTM), c.Ctm))
	}
	if c.InText {
		if !matEq(gs.Text.TextLineMatrix, c.Tlm) {
			return bad("tlm", fmt.Sprintf("text line matrix after %q is %v, ISO gives %v", last, matInts(gs.Text.TextLineMatrix), c.Tlm))
		}
		if c.PosKnown && !matEq(gs.Text.TextMatrix, c.Tm) {
			return bad("tm", fmt.Sprintf("text matrix after %q is %v, ISO gives %v", last, matInts(gs.Text.TextMatrix), c.Tm))
		}
	}
	if gs.Text.Leading != float64(c.Lead) {
		return bad("lead", fmt.Sprintf("leading %g, ISO %d", gs.Text.Leading, c.Lead))
	}
	if c.Fs != 0 && gs.Text.FontSize != float64(c.Fs) {
		return bad("fs", fmt.Sprintf("font size %g, ISO %d", gs.Text.FontSize, c.Fs))
	}
	if gs.Text.CharSpacing != float64(c.Tc) || gs.Text.WordSpacing != float64(c.Tw) || gs.Text.HorizontalScaling != float64(c.Tz) {
		return bad("spacing", fmt.Sprintf("Tc/Tw/Tz %g/%g/%g, ISO %d/%d/%d", gs.Text.CharSpacing, gs.Text.WordSpacing, gs.Text.HorizontalScaling, c.Tc, c.Tw, c.Tz))
	}
	for _, e := range c.Out {
		if e.K >= len(shows) || shows[e.K] == nil {
			return bad("frag-missing", fmt.Sprintf("no observation for show %d", e.K))
		}
		if cl, what := checkFrag(e, shows[e.K]); cl != "" {
			return bad(cl, what)
		}
	}
	// (b) end to end through the content-stream parser and the text extractor
	frs, err := extractE2E(c.Prog)
	bad2 := func(cl, what string, o interface{}) Result {
		x := fail(cl, "C08:e2e-"+cl, what, rep("e2e", o))
		x.Nontrivial, x.Key = r.Nontrivial, key
		return x
	}
	if err != nil {
		return bad2("error", "ExtractFromBytes: "+err.Error(), err.Error())
	}
	byTok := map[string]text.TextFragment{}
	cnt := map[string]int{}
	for _, f := range frs {
		byTok[f.Text] = f
		cnt[f.Text]++
	}
	for _, e := range c.Out {
		tok := fmt.Sprintf("t%d", e.K)
		f, ok := byTok[tok]
		if !ok {
			return bad2("frag-missing", fmt.Sprintf("fragment %s not reported", tok), fragList(frs))
		}
		if cnt[tok] != 1 {
			return bad2("frag-dup", fmt.Sprintf("fragment %s reported %d times", tok, cnt[tok]), fragList(frs))
		}
		if cl, what := checkFrag(e, &shown{k: e.K, x: f.X, y: f.Y, size: f.FontSize, hasSize: true}); cl != "" {
			return bad2(cl, what, fragList(frs))
		}
	}
	return r
}

func fragList(frs []text.TextFragment) []map[string]interface{} {
	var l []map[string]interface{}
	for _, f := range frs {
		l = append(l, map[string]interface{}{"text": f.Text, "x": f.X, "y": f.Y, "size": f.FontSize})
	}
	return l
}

// ---------------------------------------------------------------- record

// c08Record: the input is a list of {"n": programs, "len": length} requests; each
// program becomes one trace segment.
func c08Record(in, out string) error {
	type req struct {
		N   int `json:"n"`
		Len int `json:"len"`
	}
	return runCases(in, out, func(i int, raw []byte) Result {
		var q req
		if err := json.Unmarshal(raw, &q); err != nil {
			return fail("decode", "decode", err.Error(), nil)
		}
		rnd := newRand(int64(i) + 77)
		var events []Event
		for p := 0; p < q.N; p++ {
			events = append(events, Event{"event": "Reset"})
			gs := graphicsstate.NewGraphicsState()
			inText, depth, k := false, 0, 0
			ri := func(lo, hi int) int { return lo + rnd.Intn(hi-lo+1) }
			// at most 3 cm/Do matrices are active at any time and their entries stay in
			// -2..2, so every number the trace spec computes stays far below 2^31
			active := []int{0}
			rmat := func(lim int) []int {
				for {
					m := []int{ri(-lim, lim), ri(-lim, lim), ri(-lim, lim), ri(-lim, lim), ri(-100, 100), ri(-100, 100)}
					if m[0]*m[3]-m[1]*m[2] != 0 {
						return m
					}
				}
			}
			for s := 0; s < q.Len; s++ {
				var o gOp
				for {
					var cand []gOp
					if inText {
						cand = []gOp{{"ET", nil}, {"Tm", rmat(3)}, {"Td", []int{ri(-50, 50), ri(-50, 50)}}, {"TD", []int{ri(-50, 50), ri(-50, 50)}},
							{"T*", nil}, {"Tj", nil}, {"'", nil}, {"dq", []int{ri(0, 3), ri(0, 3)}}, {"Tf", []int{ri(1, 12)}}, {"TL", []int{ri(-20, 20)}},
							{"Tc", []int{ri(0, 3)}}, {"Tw", []int{ri(0, 3)}}, {"Tz", []int{ri(50, 150)}}}
					} else {
						cand = []gOp{{"BT", nil}, {"cm", rmat(2)}, {"q", nil}, {"Q", nil}, {"Tf", []int{ri(1, 12)}}, {"TL", []int{ri(-20, 20)}},
							{"cm", rmat(2)}, {"BT", nil}, {"Do", rmat(2)}}
					}
					o = cand[rnd.Intn(len(cand))]
					if o.Op == "Q" && depth == 0 {
						continue
					}
					if o.Op == "q" && depth >= 8 {
						continue
					}
					if o.Op == "cm" && active[len(active)-1] >= 3 {
						continue
					}
					if o.Op == "Do" && active[len(active)-1] >= 3 {
						continue
					}
					break
				}
				if o.A == nil {
					o.A = []int{}
				}
				sh, err := gsApply(gs, o, k)
				ev := Event{"event": "Op", "op": o.Op, "a": o.A}
				if err != nil {
					ev["err"] = err.Error()
				}
				switch o.Op {
				case "BT":
					inText = true
				case "ET":
					inText = false
				case "q":
					depth++
					active = append(active, active[len(active)-1])
				case "Q":
					depth--
					active = active[:len(active)-1]
				case "cm":
					active[len(active)-1]++
				}
				ev["ctm"] = matInts(gs.CTM)
				ev["tm"] = matInts(gs.Text.TextMatrix)
				ev["tlm"] = matInts(gs.Text.TextLineMatrix)
				ev["lead"] = int(gs.Text.Leading)
				ev["fs"] = int(gs.Text.FontSize)
				ev["tc"] = int(gs.Text.CharSpacing)
				ev["tw"] = int(gs.Text.WordSpacing)
				ev["tz"] = int(gs.Text.HorizontalScaling)
				if isShow(o.Op) {
					k++
					ev["x"] = int(math.Round(sh.x))
					ev["y"] = int(math.Round(sh.y))
					if math.Abs(sh.x-math.Round(sh.x)) > 1e-9 || math.Abs(sh.y-math.Round(sh.y)) > 1e-9 {
						ev["x"] = fmt.Sprint(sh.x) // a non-integer origin can never match the spec
					}
				}
				events = append(events, ev)
			}
		}
		return Result{OK: true, Events: events, Evals: q.N}
	})
}

func c08(mode, in, out string) error {
	switch mode {
	case "replay":
		return runCases(in, out, c08ReplayCase)
	case "record":
		return c08Record(in, out)
	}
	return fmt.Errorf("c08: unknown mode %s", mode)
}
