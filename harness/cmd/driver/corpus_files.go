package main

// fileDocs: documents that go through tabula.Open on real files. Filled in by the
// writers (pdfw, ooxml, ...) as they are added.
var fileDocGens []func(salt int64) []*hdoc

func fileDocs(salt int64) []*hdoc {
	var d []*hdoc
	for _, g := range fileDocGens {
		d = append(d, g(salt)...)
	}
	return d
}
