package main

// C11 — HeaderFooter.tla binding: the contract's guard FilterOK(p, removed) is
// evaluated on what the real code removed, through the detector API directly and
// through tabula.Open(...).Exclude*().Text() on rendered PDFs.

import (
	"encoding/json"
	"fmt"
	"os"
	"path/filepath"
	"sort"
	"strings"

	"verif/internal/pdfdoc"

	tabula "github.com/tsawler/tabula"
	"github.com/tsawler/tabula/layout"
	"github.com/tsawler/tabula/text"
)

func init() { handlers["c11"] = c11 }

type hfFrag struct {
	Band string `json:"band"`
	Slot int    `json:"slot"`
	Key  int    `json:"key"`
	Num  bool   `json:"num"`
}
type hfCase struct {
	Flags     json.RawMessage `json:"flags"`
	Opt       string          `json:"opt"`
	Doc       [][]hfFrag      `json:"doc"`
	Allowed   [][]int         `json:"allowed"`
	Mandatory [][]int         `json:"mandatory"`
}

func hfText(f hfFrag, p int) string {
	switch f.Key {
	case 1:
		return "Annual Report Header"
	case 2:
		return "Chapter Overview Header"
	case 3:
		return fmt.Sprintf("Page %d", p)
	case 4:
		if f.Band == "Body" {
			return fmt.Sprintf("%d", 40+p)
		}
		return fmt.Sprintf("%d", p)
	case 5:
		return "Confidential Footer Line"
	case 6:
		return "Repeated Body Notice"
	case 7:
		return "Document Title Line"
	case 8:
		return "Overview"
	case 11:
		return "Annual Report 2024"
	case 12:
		return "Chapter Overview 2024"
	}
	if f.Key >= 200 && f.Key < 210 {
		return fmt.Sprintf("%d", f.Key-200)
	}
	return fmt.Sprintf("Body text unique %d", f.Key)
}

// geometry: 612 x 792 page, 72 pt margin bands, font size 10
func hfPos(f hfFrag) (int, int) {
	switch f.Band {
	case "Top":
		if f.Slot == 1 {
			return 72, 760
		}
		if f.Slot >= 20 { // same x on every page, another height (12 pt apart, inside the band)
			return 420, []int{780, 780, 770, 750, 728}[f.Slot-20]
		}
		if f.Slot >= 10 { // same height on every page, another x (45 pt apart)
			return 330 + 45*(f.Slot-10), 724
		}
		return 200, 740
	case "Bottom":
		if f.Slot == 1 {
			return 72, 40
		}
		return 300, 25
	}
	if f.Slot > 100 { // cells of the one-digit column
		return 72, 705 - 15*(f.Slot-100)
	}
	switch f.Slot {
	case 9:
		return 72, 700
	case 8:
		return 72, 685
	}
	return 72, 640 - 20*(f.Slot-3)
}

func inSet(s []int, v int) bool {
	for _, x := range s {
		if x == v {
			return true
		}
	}
	return false
}

func hfJudge(c *hfCase, p int, removed []int, path string, raw []byte) (string, string) {
	for _, id := range removed {
		if !inSet(c.Allowed[p], id) {
			f := c.Doc[p][id-1]
			why := "body-band"
			if f.Band != "Body" {
				why = "not-repeating"
			}
			return "removed-" + why, fmt.Sprintf("%s: page %d lost fragment %q (band %s) which neither repeats at its margin position nor is a page number", path, p+1, hfText(f, p+1), f.Band)
		}
	}
	for _, id := range c.Mandatory[p] {
		if !inSet(removed, id) {
			f := c.Doc[p][id-1]
			return "kept-running-" + strings.ToLower(f.Band), fmt.Sprintf("%s: page %d keeps %q although it runs at the same %s position on every page", path, p+1, hfText(f, p+1), f.Band)
		}
	}
	return "", ""
}

func c11Case(i int, raw []byte) Result {
	var c hfCase
	if err := json.Unmarshal(raw, &c); err != nil {
		return fail("decode", "decode", err.Error(), nil)
	}
	nontrivial := false
	for p := range c.Doc {
		if len(c.Allowed[p]) > 0 {
			nontrivial = true
		}
	}
	r := Result{OK: true, Nontrivial: nontrivial, Key: string(raw), Evals: 1}
	mk := func(cl, what string, obs interface{}) Result {
		x := fail(cl, "C11:"+cl, what+fmt.Sprintf(" (document %s, option %s)", c.Flags, c.Opt), map[string]interface{}{"case": json.RawMessage(raw), "observed": obs})
		x.Nontrivial, x.Key, x.Evals = nontrivial, r.Key, r.Evals
		return x
	}
	events := []Event{{"event": "Doc", "flags": c.Flags, "opt": c.Opt}}
	// ---- path 1: detector API (no option: both bands)
	if c.Opt == "both" {
		var pages []layout.PageFragments
		for p, pg := range c.Doc {
			var frs []text.TextFragment
			for fi, f := range pg {
				x, y := hfPos(f)
				t := hfText(f, p+1)
				if i%2 == 0 && f.Band != "Body" {
					t += " " // a marginal line as producers often write it: with a trailing blank inside the string
				}
				dx := 0.0
				if fi > 0 && pg[fi-1] == f {
					dx = 0.6 // the same line printed again a fraction of a point to the right (emboldening)
				}
				frs = append(frs, text.TextFragment{Text: t, X: float64(x) + dx, Y: float64(y), Width: float64(5 * len(t)), Height: 10, FontSize: 10, FontName: "/F1"})
			}
			pages = append(pages, layout.PageFragments{PageIndex: p, PageHeight: 792, PageWidth: 612, Fragments: frs})
		}
		// ... and the same pages in top-down coordinates that overflow the page height (as some producers' content ends up
		// after extraction: Y grows downward and the lowest line lies beyond the nominal height): the top of the page is
		// then the small-Y edge. Only documents with a bottom-band line on every page (that line is what overflows).
		allBottom := true
		for _, pg := range c.Doc {
			has := false
			for _, f := range pg {
				if f.Band == "Bottom" {
					has = true
				}
			}
			allBottom = allBottom && has
		}
		// (in that regime the implementation measures the bands from each page's own content extent, so the pass is kept to
		// documents whose pages all have the same extent: a header and a bottom line on every page, nothing else in the bands)
		var plain struct {
			Hdr, Title, Drift                    string
			Grid, Short, Cover, Beqh, Brep, Bnum bool
		}
		json.Unmarshal(c.Flags, &plain)
		if allBottom && plain.Hdr == "all" && plain.Title == "none" && plain.Drift == "none" && !plain.Grid && !plain.Short && !plain.Cover && !plain.Beqh && !plain.Brep && !plain.Bnum {
			var inv []layout.PageFragments
			for _, pg := range pages {
				q := layout.PageFragments{PageIndex: pg.PageIndex, PageHeight: 792, PageWidth: 612}
				for _, f := range pg.Fragments {
					f.Y = 792 - f.Y + 40
					q.Fragments = append(q.Fragments, f)
				}
				inv = append(inv, q)
			}
			resI := layout.NewHeaderFooterDetector().Detect(inv)
			for p, pg := range inv {
				kept := resI.FilterFragments(p, pg.Fragments, 792)
				k := 0
				var removed []int
				for idx, f := range pg.Fragments {
					if k < len(kept) && kept[k].Text == f.Text && kept[k].Y == f.Y && kept[k].X == f.X {
						k++
					} else {
						removed = append(removed, idx+1)
					}
				}
				if k != len(kept) {
					return mk("not-subsequence:topdown", fmt.Sprintf("detector (top-down coordinates): page %d output is not the input minus some fragments", p+1), nil)
				}
				if cl, what := hfJudge(&c, p, removed, "detector (top-down coordinates)", raw); cl != "" {
					return mk(cl+":topdown", what, removed)
				}
			}
		}
		res := layout.NewHeaderFooterDetector().Detect(pages)
		for p, pg := range pages {
			kept := res.FilterFragments(p, pg.Fragments, 792)
			// kept must be a subsequence of the input (identity by position+text)
			k := 0
			var removed []int
			for idx, f := range pg.Fragments {
				if k < len(kept) && kept[k].Text == f.Text && kept[k].Y == f.Y && kept[k].X == f.X {
					k++
				} else {
					removed = append(removed, idx+1)
				}
			}
			if k != len(kept) {
				return mk("not-subsequence", fmt.Sprintf("detector: page %d output is not the input minus some fragments", p+1), nil)
			}
			if cl, what := hfJudge(&c, p, removed, "detector", raw); cl != "" {
				return mk(cl, what, removed)
			}
			if removed == nil {
				removed = []int{}
			}
			events = append(events, Event{"event": "Filter", "p": p + 1, "removed": removed})
		}
	}
	// ---- path 2: public API on a rendered PDF (not for pages with an overprinted line: text extraction merges the
	// two copies, which is C09's business; the detector path above sees both)
	for _, pg := range c.Doc {
		for fi := range pg {
			if fi > 0 && pg[fi-1] == pg[fi] {
				r.Events = events
				return r
			}
		}
	}
	var placed [][]pdfdoc.Placed
	var fl struct {
		Wide bool `json:"wide"`
	}
	json.Unmarshal(c.Flags, &fl)
	var sizes [][2]int
	for p, pg := range c.Doc {
		var pl []pdfdoc.Placed
		size := [2]int{612, 792}
		if fl.Wide && p == 0 {
			size = [2]int{792, 612} // a landscape cover: the same relative heights on a page 612 pt high
		}
		for _, f := range pg {
			x, y := hfPos(f)
			t := hfText(f, p+1)
			if i%2 == 0 && f.Band != "Body" {
				t += " " // (the lines of the rendered text are compared trimmed)
			}
			pl = append(pl, pdfdoc.Placed{X: x, Y: y * size[1] / 792, Size: 10, Text: t})
		}
		placed = append(placed, pl)
		sizes = append(sizes, size)
	}
	data, err := pdfdoc.BuildSimpleSized(placed, sizes)
	if err != nil {
		return Result{OK: false, Sig: "MACHINERY:pdfw", What: err.Error()}
	}
	dir := os.Getenv("VERIF_SCRATCH")
	if dir == "" {
		dir = os.TempDir()
	}
	path := filepath.Join(dir, fmt.Sprintf("c11-%d-%d.pdf", os.Getpid(), i))
	if err := os.WriteFile(path, data, 0o644); err != nil {
		return Result{OK: false, Sig: "MACHINERY:io", What: err.Error()}
	}
	defer os.Remove(path)
	lines := func(s string) []string {
		var out []string
		for _, l := range strings.Split(s, "\n") {
			if t := strings.TrimSpace(l); t != "" {
				out = append(out, t)
			}
		}
		return out
	}
	for p := range c.Doc {
		plain, _, err := tabula.Open(path).Pages(p + 1).Text()
		if err != nil {
			return mk("error", "Text() failed: "+err.Error(), nil)
		}
		// the option is chained before the page selection for half of the pages and after it for the others: what an
		// extractor was asked to exclude is carried through every later configuration call
		var e *tabula.Extractor
		if (i+p)%2 == 0 {
			e = c11Opt(tabula.Open(path), c.Opt).Pages(p + 1)
		} else {
			e = c11Opt(tabula.Open(path).Pages(p+1), c.Opt)
		}
		if (i+p)%3 == 0 {
			// the same one page, spelled again and again (as many entries as the document has pages, and more): which pages
			// the running texts are looked for on does not depend on how the selection is spelled
			for k := 0; k < len(c.Doc); k++ {
				e = e.PageRange(p+1, p+1).Pages(p + 1)
			}
		}
		filt, _, err := e.Text()
		r.Evals += 2
		if err != nil {
			return mk("error", "Text() with exclusion failed: "+err.Error(), nil)
		}
		pl, fl := lines(plain), lines(filt)
		// the unfiltered page must show every fragment once (sanity of the harness geometry)
		if len(pl) != len(c.Doc[p]) {
			return Result{OK: false, Sig: "MACHINERY:geometry", What: fmt.Sprintf("unfiltered page %d has lines %q for %d fragments", p+1, pl, len(c.Doc[p]))}
		}
		// map lines back to fragment ids by text (top to bottom order = document order of the generator)
		ids := make([]int, len(pl))
		used := map[int]bool{}
		for li, l := range pl {
			for idx, f := range c.Doc[p] {
				if !used[idx] && hfText(f, p+1) == l {
					ids[li] = idx + 1
					used[idx] = true
					break
				}
			}
			if ids[li] == 0 {
				return Result{OK: false, Sig: "MACHINERY:geometry", What: fmt.Sprintf("line %q of page %d is not a generated fragment", l, p+1)}
			}
		}
		// filtered must be a subsequence; duplicates: prefer the embedding that removes allowed fragments
		k := 0
		var removed []int
		for li, l := range pl {
			if k < len(fl) && fl[k] == l {
				// identical later line? if this one may be removed and a later identical line exists while the remaining output is shorter, skip it
				later := false
				for lj := li + 1; lj < len(pl); lj++ {
					if pl[lj] == l {
						later = true
					}
				}
				remainingOut := len(fl) - k
				remainingIn := len(pl) - li
				if later && inSet(c.Allowed[p], ids[li]) && remainingOut < remainingIn {
					removed = append(removed, ids[li])
					continue
				}
				k++
			} else {
				removed = append(removed, ids[li])
			}
		}
		if k != len(fl) {
			return mk("not-subsequence", fmt.Sprintf("public API: page %d with exclusion shows %q, which is not the unfiltered %q minus some lines", p+1, fl, pl), fl)
		}
		// with a single option only the requested band is mandatory
		if cl, what := hfJudge(&c, p, removed, "public API", raw); cl != "" {
			return mk(cl, what, map[string]interface{}{"plain": pl, "filtered": fl})
		}
		if removed == nil {
			removed = []int{}
		}
		events = append(events, Event{"event": "Filter", "p": p + 1, "removed": removed})
		// ---- the other page-rendering operations of the fluent API: each has its own header/footer pass. What an
		// operation removes is read off the number of times each fragment text occurs with and without the option.
		vias := c11Vias
		if tier() == "quick" {
			vias = []string{c11Vias[(i+p)%len(c11Vias)]}
		}
		for _, via := range vias {
			po, err1 := runTerminal(tabula.Open(path).Pages(p+1), via)
			fe := c11Opt(tabula.Open(path).Pages(p+1), c.Opt)
			if (i+p)%2 == 1 {
				fe = c11Opt(tabula.Open(path), c.Opt).Pages(p + 1).JoinParagraphs()
			}
			fo, err2 := runTerminal(fe, via)
			r.Evals += 2
			if err1 != nil || err2 != nil {
				return mk("error", fmt.Sprintf("%s failed: %v / %v", via, err1, err2), nil)
			}
			byText := map[string][]int{}
			var order []string
			for idx, f := range c.Doc[p] {
				t := hfText(f, p+1)
				if _, ok := byText[t]; !ok {
					order = append(order, t)
				}
				byText[t] = append(byText[t], idx+1)
			}
			var gone []int
			usable := true
			for _, t := range order {
				np, nf := countWord(po.Text, t), countWord(fo.Text, t)
				if np != len(byText[t]) {
					usable = false // this operation does not show the page's fragments one by one (joined or escaped text)
					break
				}
				if nf > np {
					return mk("not-subsequence", fmt.Sprintf("public API (%s): page %d with exclusion shows %q %d times, without it %d times", via, p+1, t, nf, np), nil)
				}
				// the removed ones among equal texts: those that may be removed first
				ids := append([]int{}, byText[t]...)
				sort.SliceStable(ids, func(a, b int) bool { return inSet(c.Allowed[p], ids[a]) && !inSet(c.Allowed[p], ids[b]) })
				gone = append(gone, ids[:np-nf]...)
			}
			if !usable {
				continue
			}
			if cl, what := hfJudge(&c, p, gone, "public API ("+via+")", raw); cl != "" {
				return mk(cl+":"+via, what, map[string]interface{}{"plain": po.Text, "filtered": fo.Text})
			}
		}
	}
	r.Events = events
	return r
}

// (Fragments() is the raw accessor: it does not apply the exclusion options, and nothing in the statement asks it to)
var c11Vias = []string{"lines", "paragraphs", "readingorder", "analyze", "blocks", "elements", "document", "markdown"}

func c11Opt(e *tabula.Extractor, opt string) *tabula.Extractor {
	switch opt {
	case "headers":
		return e.ExcludeHeaders()
	case "footers":
		return e.ExcludeFooters()
	}
	return e.ExcludeHeadersAndFooters()
}

// countWord counts the occurrences of t in s that are not part of a longer word or number
func countWord(s, t string) int {
	isW := func(b byte) bool { return b >= '0' && b <= '9' || b >= 'a' && b <= 'z' || b >= 'A' && b <= 'Z' }
	n := 0
	for from := 0; ; {
		k := strings.Index(s[from:], t)
		if k < 0 {
			return n
		}
		at := from + k
		end := at + len(t)
		if (at == 0 || !isW(s[at-1])) && (end == len(s) || !isW(s[end])) {
			n++
		}
		from = at + 1
	}
}

func c11(mode, in, out string) error {
	switch mode {
	case "replay":
		return runCases(in, out, c11Case)
	}
	return fmt.Errorf("c11: unknown mode %s", mode)
}
