package main

// C19 histories (HtmlHistory.tla): several extractions on ONE htmldoc.Reader, the
// modes in every order (in particular a stricter mode before a weaker one).  Each
// result is compared with what the same call returns on a freshly opened reader
// (purity); the fresh results are held to the walker contract.  histrecord: random
// documents and random call sequences, one HCall event per call, for
// HtmlHistoryTrace.tla.

import (
	"encoding/json"
	"fmt"
	"strings"

	"github.com/tsawler/tabula/htmldoc"
	"github.com/tsawler/tabula/model"

	"verif/internal/htmlw"
)

type c19HCall struct {
	View string `json:"view"` // text | markdown | document
	Mode string `json:"mode"` // none | explicit | standard | aggressive | default
}

type c19HCase struct {
	c19Case
	Calls []c19HCall `json:"calls"`
}

func c19ModeIx(m string) int {
	for i, x := range c19Modes {
		if x == m {
			return i
		}
	}
	return -1
}

// c19HDo makes one call on the reader; it returns the raw result.
func c19HDo(r *htmldoc.Reader, c c19HCall) (string, error) {
	if c.Mode == "default" { // the documented default options: Standard
		switch c.View {
		case "text":
			return r.Text()
		case "markdown":
			return r.Markdown()
		}
		d, err := r.Document()
		return modelText(d), err
	}
	opts := htmldoc.ExtractOptions{NavigationExclusion: htmldoc.NavigationExclusionMode(c19ModeIx(c.Mode))}
	switch c.View {
	case "text":
		return r.TextWithOptions(opts)
	case "markdown":
		return r.MarkdownWithOptions(opts)
	}
	var d *model.Document
	d, err := r.DocumentWithOptions(opts)
	return modelText(d), err
}

func c19Fresh(src string, c c19HCall) (string, error) {
	r, err := htmldoc.OpenReader(strings.NewReader(src))
	if err != nil {
		return "", err
	}
	defer r.Close()
	return c19HDo(r, c)
}

func c19CallName(c c19HCall) string { return c.View + "/" + c.Mode }

func c19HistoryCase(i int, raw []byte) Result {
	var c c19HCase
	if err := json.Unmarshal(raw, &c); err != nil {
		return fail("decode", "decode", err.Error(), nil)
	}
	src := htmlw.Render(c.Stream, nil)
	if err := htmlw.Audit(src, c.Stream); err != nil {
		panic(fmt.Sprintf("machinery: the HTML5 parser does not rebuild the generated tree: %v\n%s", err, src))
	}
	var names []string
	for _, cl := range c.Calls {
		names = append(names, c19CallName(cl))
	}
	res := Result{OK: true, Nontrivial: len(c.Calls) >= 2, Key: c19Key(c.Stream) + strings.Join(names, ",")}
	bad := func(clause, feature, what string, obs interface{}) Result {
		x := fail(clause, "C19:"+clause+":"+feature, fmt.Sprintf("[one reader, calls %v] %s", names, what),
			map[string]interface{}{"case": json.RawMessage(raw), "html": src, "observed": obs})
		x.Nontrivial, x.Key, x.Evals = res.Nontrivial, res.Key, res.Evals
		return x
	}
	// the walker contract on fresh readers (all four modes of every view)
	for _, g := range c19Observe(src, false, "") {
		res.Evals += len(g.Toks)
		if f := c19CheckGroup(&c.c19Case, g); f != nil {
			return bad(f.clause, strings.TrimSuffix(f.feature, ":"), f.what, g.Toks)
		}
	}
	r, err := htmldoc.OpenReader(strings.NewReader(src))
	if err != nil {
		return bad("error", "open", err.Error(), nil)
	}
	defer r.Close()
	for n, cl := range c.Calls {
		got, err := c19HDo(r, cl)
		res.Evals++
		if err != nil {
			return bad("error", cl.View, err.Error(), nil)
		}
		want, err := c19Fresh(src, cl)
		res.Evals++
		if err != nil {
			panic("machinery: " + err.Error())
		}
		if got != want {
			// which single earlier call does it ?
			culprit := "some"
			for k := 0; k < n; k++ {
				r2, _ := htmldoc.OpenReader(strings.NewReader(src))
				c19HDo(r2, c.Calls[k])
				g2, _ := c19HDo(r2, cl)
				r2.Close()
				if g2 != want {
					culprit = c.Calls[k].Mode
					break
				}
			}
			return bad("history", culprit+"-then-"+cl.Mode,
				fmt.Sprintf("call %d %s returns %v; on a freshly opened reader it returns %v", n+1, c19CallName(cl), scanHTMLTokens(got), scanHTMLTokens(want)),
				map[string]interface{}{"got": got, "fresh": want})
		}
	}
	return res
}

// c19HistRecordCase: {"n": documents, "steps": free steps, "calls": history length, "alphabet": [...]}.
func c19HistRecordCase(i int, raw []byte) Result {
	var q struct {
		N        int       `json:"n"`
		Steps    int       `json:"steps"`
		Depth    int       `json:"depth"`
		Calls    int       `json:"calls"`
		Lax      bool      `json:"lax"`
		Alphabet []c19Desc `json:"alphabet"`
	}
	if err := json.Unmarshal(raw, &q); err != nil {
		return fail("decode", "decode", err.Error(), nil)
	}
	if len(q.Alphabet) == 0 {
		panic("machinery: record request without alphabet")
	}
	rnd := newRand(int64(i)*32452843 + 195)
	res := Result{OK: true}
	views := []string{"text", "markdown", "document"}
	modes := []string{"none", "explicit", "standard", "aggressive", "default"}
	for k := 0; k < q.N; k++ {
		b := c19RandDoc(rnd, q.Alphabet, 4+rnd.Intn(q.Steps), q.Depth, q.Lax)
		src := htmlw.Render(b.stream, nil)
		if err := htmlw.Audit(src, b.stream); err != nil {
			panic(fmt.Sprintf("machinery: the HTML5 parser does not rebuild the generated tree: %v\n%s", err, src))
		}
		ev := b.events
		r, err := htmldoc.OpenReader(strings.NewReader(src))
		if err != nil {
			ev = append(ev, Event{"event": "Error", "err": err.Error()})
			res.Events = append(res.Events, ev...)
			continue
		}
		for n := 0; n < 2+rnd.Intn(q.Calls); n++ {
			cl := c19HCall{View: views[rnd.Intn(3)], Mode: modes[rnd.Intn(5)]}
			got, err := c19HDo(r, cl)
			res.Evals++
			mode := cl.Mode
			if mode == "default" {
				mode = "standard" // Text() / Markdown() / Document() use DefaultExtractOptions
			}
			e := Event{"event": "HCall", "view": cl.View, "mode": mode, "default": cl.Mode == "default", "toks": scanHTMLTokens(got)}
			if err != nil {
				e["event"] = "Error"
				e["err"] = err.Error()
			}
			ev = append(ev, e)
		}
		r.Close()
		res.Events = append(res.Events, ev...)
	}
	return res
}
