package main

// C05 — Filters.tla binding.
//
// replay: TLC emits (payload x, pipeline, spec-computed encoded bytes); the
//   harness deflates where the pipeline says Flate (zlib is trusted), builds a
//   core.Stream and calls Decode(): the result must be x (or an error for the
//   undecodable cases).
// record: large random images (rows of up to 256 bytes, Colors 1..4, independent
//   per-row filter types) are encoded by a Go encoder used only to make inputs,
//   decoded by the real code, and cut into per-row events that FiltersTrace.tla
//   checks against the reference PngDecRow / TiffDecRow; the harness's own
//   ASCII encoders are validated against the reference in the same trace.

import (
	"bytes"
	"encoding/json"
	"fmt"

	"verif/internal/pdfw"

	"github.com/tsawler/tabula/core"
)

func init() { handlers["c05"] = c05 }

type fCase struct {
	Kind   string `json:"kind"`
	Opt    string `json:"opt"`
	X      []int  `json:"x"`
	Cols   int    `json:"cols"`
	Colors int    `json:"colors"`
	Tags   []int  `json:"tags"`
	Pred   int    `json:"pred"`
	Enc    []int  `json:"enc"`
	Expect string `json:"expect"`
}

func goHex(b []byte) []byte { return []byte(fmt.Sprintf("%X>", b)) }

func goA85(b []byte) []byte {
	var o bytes.Buffer
	for i := 0; i < len(b); i += 4 {
		n := len(b) - i
		if n > 4 {
			n = 4
		}
		var v uint32
		for j := 0; j < 4; j++ {
			v <<= 8
			if j < n {
				v |= uint32(b[i+j])
			}
		}
		if n == 4 && v == 0 {
			o.WriteByte('z')
			continue
		}
		var d [5]byte
		for j := 4; j >= 0; j-- {
			d[j] = byte(v%85) + '!'
			v /= 85
		}
		o.Write(d[:n+1])
	}
	o.WriteString("~>")
	return o.Bytes()
}

func names(ns ...string) core.Array {
	a := core.Array{}
	for _, n := range ns {
		a = append(a, core.Name(n))
	}
	return a
}

func c05Stream(c *fCase) (*core.Stream, error) {
	enc := toBytes(c.Enc)
	x := toBytes(c.X)
	d := core.Dict{}
	var data []byte
	switch c.Kind {
	case "png":
		pred := 15
		uniform := true
		for _, t := range c.Tags {
			if t != c.Tags[0] {
				uniform = false
			}
		}
		if uniform && len(c.Tags) > 0 {
			pred = 10 + c.Tags[0]
		}
		if c.Pred >= 10 { // the declared value is a choice of the specification, independent of the row tags
			pred = c.Pred
		}
		parms := core.Dict{"Predictor": core.Int(pred), "Colors": core.Int(c.Colors), "Columns": core.Int(c.Cols)}
		switch c.Opt {
		case "array":
			d["Filter"] = names("FlateDecode")
			d["DecodeParms"] = core.Array{parms}
		case "absent-columns":
			if c.Cols == 1 {
				delete(parms, "Columns") // default 1
			}
			if c.Colors == 1 {
				delete(parms, "Colors") // default 1
			}
			d["Filter"] = core.Name("FlateDecode")
			d["DecodeParms"] = parms
		default:
			d["Filter"] = core.Name("FlateDecode")
			d["DecodeParms"] = parms
		}
		data = pdfw.Deflate(enc)
	case "tiff":
		d["Filter"] = core.Name("FlateDecode")
		d["DecodeParms"] = core.Dict{"Predictor": core.Int(2), "Colors": core.Int(c.Colors), "Columns": core.Int(c.Cols)}
		data = pdfw.Deflate(enc)
	case "hex":
		d["Filter"] = core.Name("ASCIIHexDecode")
		data = enc
	case "a85":
		d["Filter"] = core.Name("ASCII85Decode")
		data = enc
	case "chain":
		switch c.Opt {
		case "AHx+A85":
			d["Filter"] = names("ASCIIHexDecode", "ASCII85Decode")
			data = enc
		case "A85+AHx":
			d["Filter"] = names("ASCII85Decode", "ASCIIHexDecode")
			data = enc
		case "A85+Fl":
			d["Filter"] = names("ASCII85Decode", "FlateDecode")
			data = goA85(pdfw.Deflate(x))
		case "AHx+Fl":
			d["Filter"] = names("ASCIIHexDecode", "FlateDecode")
			data = goHex(pdfw.Deflate(x))
		case "AHx+A85+Fl":
			d["Filter"] = names("ASCIIHexDecode", "ASCII85Decode", "FlateDecode")
			data = goHex(goA85(pdfw.Deflate(x)))
		case "abbrev":
			d["Filter"] = names("A85", "Fl")
			data = goA85(pdfw.Deflate(x))
		case "null-parms":
			d["Filter"] = names("ASCIIHexDecode", "FlateDecode")
			d["DecodeParms"] = core.Array{core.Null{}, core.Null{}}
			data = goHex(pdfw.Deflate(x))
		case "Fl+png":
			d["Filter"] = names("ASCII85Decode", "FlateDecode")
			if len(x) > 0 {
				d["DecodeParms"] = core.Array{core.Null{}, core.Dict{"Predictor": core.Int(11), "Columns": core.Int(len(x))}}
			}
			data = goA85(pdfw.Deflate(enc))
		case "Fl+Fl:dict-null", "Fl+Fl:short":
			inner := pdfw.Deflate(x)
			d["Filter"] = names("FlateDecode", "Fl")
			pd := core.Dict{"Predictor": core.Int(11), "Columns": core.Int(len(inner))}
			if c.Opt == "Fl+Fl:short" {
				d["DecodeParms"] = core.Array{pd}
			} else {
				d["DecodeParms"] = core.Array{pd, core.Null{}}
			}
			data = pdfw.Deflate(goPngEnc(inner, []int{1}, len(inner), 1))
		case "Fl+Fl:null-dict":
			d["Filter"] = names("FlateDecode", "FlateDecode")
			if len(x) > 0 {
				d["DecodeParms"] = core.Array{core.Null{}, core.Dict{"Predictor": core.Int(11), "Columns": core.Int(len(x))}}
			}
			data = pdfw.Deflate(pdfw.Deflate(enc))
		case "AHx+Fl+Fl:null-dict-null":
			// the middle stage has the predictor: inner = deflate(x); middle = deflate(pngenc(inner)); outer = hex
			inner := pdfw.Deflate(x)
			d["Filter"] = names("AHx", "Fl", "FlateDecode")
			d["DecodeParms"] = core.Array{core.Null{}, core.Dict{"Predictor": core.Int(11), "Columns": core.Int(len(inner))}, core.Null{}}
			data = goHex(pdfw.Deflate(goPngEnc(inner, []int{1}, len(inner), 1)))
		default:
			return nil, fmt.Errorf("unknown chain %s", c.Opt)
		}
	case "err":
		switch c.Opt {
		case "tag5":
			d["Filter"] = core.Name("FlateDecode")
			d["DecodeParms"] = core.Dict{"Predictor": core.Int(15), "Columns": core.Int(len(enc) - 1)}
			if len(enc) == 1 {
				d["DecodeParms"] = core.Dict{"Predictor": core.Int(15), "Columns": core.Int(1)}
				enc = append(enc, 0)
			}
			data = pdfw.Deflate(enc)
		case "rowsize":
			d["Filter"] = core.Name("FlateDecode")
			d["DecodeParms"] = core.Dict{"Predictor": core.Int(15), "Columns": core.Int(len(enc))}
			data = pdfw.Deflate(enc)
		case "badhex":
			d["Filter"] = core.Name("ASCIIHexDecode")
			data = enc
		default:
			d["Filter"] = core.Name("ASCII85Decode")
			data = enc
		}
	default:
		return nil, fmt.Errorf("unknown kind %s", c.Kind)
	}
	d["Length"] = core.Int(len(data))
	return &core.Stream{Dict: d, Data: data}, nil
}

func c05Case(i int, raw []byte) Result {
	var c fCase
	if err := json.Unmarshal(raw, &c); err != nil {
		return fail("decode", "decode", err.Error(), nil)
	}
	st, err := c05Stream(&c)
	if err != nil {
		return Result{OK: false, Sig: "MACHINERY:c05", What: err.Error()}
	}
	nontrivial := len(c.X) > 0 && (c.Kind != "hex" || c.Opt != "upper") && (c.Kind != "a85" || c.Opt != "plain")
	if c.Kind == "png" {
		nontrivial = false
		for _, t := range c.Tags {
			if t != 0 {
				nontrivial = true
			}
		}
	}
	r := Result{OK: true, Nontrivial: nontrivial, Key: string(raw), Evals: 1}
	encoded := append([]byte{}, st.Data...)
	got, derr := st.Decode()
	feat := c.Kind + ":" + c.Opt
	if c.Kind == "png" {
		// which row filter types are involved
		seen := map[int]bool{}
		for _, t := range c.Tags {
			seen[t] = true
		}
		feat = fmt.Sprintf("png:colors=%d", c.Colors)
		if c.Pred >= 10 && c.Pred < 15 && !(len(seen) == 1 && seen[c.Pred-10]) {
			feat += ":declared-other" // /Predictor names another PNG filter than the row tags
		}
		for t := 0; t <= 4; t++ {
			if seen[t] {
				feat += fmt.Sprintf(":t%d", t)
			}
		}
	}
	mk := func(cl, what string) Result {
		x := fail(cl, "C05:"+cl+":"+feat, what, map[string]interface{}{"case": json.RawMessage(raw), "observed": toInts(got)})
		x.Nontrivial, x.Key, x.Evals = nontrivial, r.Key, 1
		return x
	}
	if c.Expect == "error" {
		if derr == nil {
			return mk("noerror", fmt.Sprintf("undecodable data (%s) decoded to %v without an error", c.Opt, got))
		}
		return r
	}
	if derr != nil {
		return mk("error", fmt.Sprintf("Decode failed on conforming data: %v (filter %v, parms %v)", derr, st.Dict["Filter"], st.Dict["DecodeParms"]))
	}
	if !bytes.Equal(got, toBytes(c.X)) {
		return mk("bytes", fmt.Sprintf("decoded %v, original %v (filter %v, parms %v)", got, c.X, st.Dict["Filter"], st.Dict["DecodeParms"]))
	}
	// decoding is a function of the encoded bytes: it leaves them alone (the reader keeps stream objects in its
	// cache and decodes them again for every page that uses them) and gives the same bytes when repeated
	first := append([]byte{}, got...)
	if !bytes.Equal(st.Data, encoded) {
		return mk("input-changed", fmt.Sprintf("Decode changed the encoded data of the stream from %v to %v (filter %v)", encoded, st.Data, st.Dict["Filter"]))
	}
	again, aerr := st.Decode()
	if aerr != nil || !bytes.Equal(again, first) {
		return mk("not-repeatable", fmt.Sprintf("a second Decode of the same stream gives %v (err %v), the first gave %v (filter %v)", again, aerr, first, st.Dict["Filter"]))
	}
	return r
}

// ---------------------------------------------------------------- record

func goPaeth(a, b, c int) int {
	p := a + b - c
	pa, pb, pc := p-a, p-b, p-c
	if pa < 0 {
		pa = -pa
	}
	if pb < 0 {
		pb = -pb
	}
	if pc < 0 {
		pc = -pc
	}
	if pa <= pb && pa <= pc {
		return a
	} else if pb <= pc {
		return b
	}
	return c
}

// goPngEnc: input production only (the oracle is FiltersTrace.tla)
func goPngEnc(x []byte, tags []int, rl, bpp int) []byte {
	var out []byte
	prev := make([]byte, rl)
	for r, t := range tags {
		row := x[r*rl : (r+1)*rl]
		out = append(out, byte(t))
		for i := 0; i < rl; i++ {
			l, u, ul := 0, int(prev[i]), 0
			if i >= bpp {
				l, ul = int(row[i-bpp]), int(prev[i-bpp])
			}
			var p int
			switch t {
			case 1:
				p = l
			case 2:
				p = u
			case 3:
				p = (l + u) / 2
			case 4:
				p = goPaeth(l, u, ul)
			}
			out = append(out, byte(int(row[i])-p))
		}
		prev = row
	}
	return out
}

func c05Record(in, out string) error {
	type req struct {
		Rows   int `json:"rows"`
		Cols   int `json:"cols"`
		Colors int `json:"colors"`
		Mode   int `json:"mode"` // 0 random, 1 zeros, 2 0xFF, 3 periodic
	}
	return runCases(in, out, func(ci int, raw []byte) Result {
		var q req
		if err := json.Unmarshal(raw, &q); err != nil {
			return fail("decode", "decode", err.Error(), nil)
		}
		rnd := newRand(int64(ci) + 505)
		rl := q.Cols * q.Colors
		x := make([]byte, q.Rows*rl)
		for i := range x {
			switch q.Mode {
			case 1:
				x[i] = 0
			case 2:
				x[i] = 0xFF
			case 3:
				x[i] = byte((i * 37) % 251)
			default:
				x[i] = byte(rnd.Intn(256))
			}
		}
		tags := make([]int, q.Rows)
		for i := range tags {
			tags[i] = rnd.Intn(5)
		}
		res := Result{OK: true, Nontrivial: true, Key: fmt.Sprintf("rec-%d-%d", ci, seed()), Evals: 2}
		var events []Event
		// PNG
		enc := goPngEnc(x, tags, rl, q.Colors)
		st := &core.Stream{Dict: core.Dict{"Filter": core.Name("FlateDecode"),
			"DecodeParms": core.Dict{"Predictor": core.Int(15), "Colors": core.Int(q.Colors), "Columns": core.Int(q.Cols)}}, Data: pdfw.Deflate(enc)}
		got, err := st.Decode()
		if err != nil || len(got) != len(x) {
			return fail("error", fmt.Sprintf("C05:record-error:png:colors=%d", q.Colors), fmt.Sprintf("Decode of a %dx%dx%d PNG-predicted image failed: %v (len %d)", q.Rows, q.Cols, q.Colors, err, len(got)),
				map[string]interface{}{"request": json.RawMessage(raw)})
		}
		prev := make([]byte, rl)
		for r := 0; r < q.Rows; r++ {
			dec := got[r*rl : (r+1)*rl]
			events = append(events, Event{"event": "Row", "tag": tags[r], "bpp": q.Colors, "enc": toInts(enc[r*(rl+1)+1 : (r+1)*(rl+1)]),
				"prev": toInts(prev), "dec": toInts(dec)})
			prev = dec
		}
		if !bytes.Equal(got, x) {
			res = fail("bytes", fmt.Sprintf("C05:record-bytes:png:colors=%d", q.Colors), fmt.Sprintf("decoded image differs from the original (%d rows x %d cols x %d colors)", q.Rows, q.Cols, q.Colors),
				map[string]interface{}{"request": json.RawMessage(raw)})
		}
		// TIFF
		tenc := make([]byte, len(x))
		for r := 0; r < q.Rows; r++ {
			for i := 0; i < rl; i++ {
				v := int(x[r*rl+i])
				if i >= q.Colors {
					v -= int(x[r*rl+i-q.Colors])
				}
				tenc[r*rl+i] = byte(v)
			}
		}
		st2 := &core.Stream{Dict: core.Dict{"Filter": core.Name("FlateDecode"),
			"DecodeParms": core.Dict{"Predictor": core.Int(2), "Colors": core.Int(q.Colors), "Columns": core.Int(q.Cols)}}, Data: pdfw.Deflate(tenc)}
		got2, err := st2.Decode()
		if err != nil || len(got2) != len(x) {
			return fail("error", "C05:record-error:tiff", fmt.Sprintf("Decode of a TIFF-predicted image failed: %v", err), map[string]interface{}{"request": json.RawMessage(raw)})
		}
		for r := 0; r < q.Rows && r < 8; r++ {
			events = append(events, Event{"event": "TiffRow", "colors": q.Colors, "enc": toInts(tenc[r*rl : (r+1)*rl]), "dec": toInts(got2[r*rl : (r+1)*rl])})
		}
		// 64 KiB of the same kind of data (all zero / all 0xFF / periodic / random compress at very different
		// ratios) through Flate alone and behind ASCIIHex, no predictor: the whole payload comes back
		big := make([]byte, 65536)
		for i := range big {
			switch q.Mode {
			case 1:
				big[i] = 0
			case 2:
				big[i] = 0xFF
			case 3:
				big[i] = byte((i * 37) % 7)
			default:
				big[i] = byte(rnd.Intn(256))
			}
		}
		for _, chain := range []string{"Fl", "AHx+Fl"} {
			st3 := &core.Stream{Dict: core.Dict{"Filter": core.Name("FlateDecode")}, Data: pdfw.Deflate(big)}
			if chain == "AHx+Fl" {
				st3 = &core.Stream{Dict: core.Dict{"Filter": core.Array{core.Name("ASCIIHexDecode"), core.Name("FlateDecode")}, "DecodeParms": core.Array{core.Null{}, core.Null{}}},
					Data: goHex(pdfw.Deflate(big))}
			}
			got3, err := st3.Decode()
			res.Evals++
			if err != nil || !bytes.Equal(got3, big) {
				return fail("bytes", fmt.Sprintf("C05:record-bytes:bulk:%s:mode=%d", chain, q.Mode),
					fmt.Sprintf("64 KiB of mode-%d data through %s: decoded %d bytes (err %v), %d encoded bytes", q.Mode, chain, len(got3), err, len(st3.Data)),
					map[string]interface{}{"request": json.RawMessage(raw)})
			}
		}
		// the harness's ASCII encoders against the reference
		for k := 0; k < 6; k++ {
			b := make([]byte, rnd.Intn(14))
			for i := range b {
				if rnd.Intn(3) == 0 {
					b[i] = 0
				} else {
					b[i] = byte(rnd.Intn(256))
				}
			}
			events = append(events, Event{"event": "Enc", "filter": "a85", "x": toInts(b), "enc": toInts(goA85(b))})
			events = append(events, Event{"event": "Enc", "filter": "hex", "x": toInts(b), "enc": toInts(goHex(b))})
		}
		res.Events = events
		return res
	})
}

func c05(mode, in, out string) error {
	switch mode {
	case "replay":
		return runCases(in, out, c05Case)
	case "record":
		return c05Record(in, out)
	}
	return fmt.Errorf("c05: unknown mode %s", mode)
}
