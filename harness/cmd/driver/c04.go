package main

// C04 — XrefHistory.tla binding.
//
// replay: every TLC-emitted history (revisions x per-object operations x xref
//   kinds x physical options) is rendered by pdfw as a PDF with one incremental
//   section per revision and opened with reader.Open; every lookup sequence up
//   to a bound (incl. repeated lookups, the length holder and cache clears) is
//   performed on a fresh reader and each result compared with the spec's
//   Newest(n). The sequences are also logged as Open/Lookup/Clear events for
//   XrefHistoryTrace.tla.

import (
	"encoding/json"
	"fmt"
	"os"
	"path/filepath"
	"strconv"
	"strings"

	"verif/internal/pdfw"

	"github.com/tsawler/tabula/core"
	"github.com/tsawler/tabula/reader"
	"github.com/tsawler/tabula/resolver"
)

func init() { handlers["c04"] = c04 }

type xRev struct {
	Kind string   `json:"kind"`
	Ops  []string `json:"ops"`
	Lh   string   `json:"lh"`
}

type xOpt struct {
	Big     bool   `json:"big"`
	W       []int  `json:"w"`
	Flate   bool   `json:"flate"`
	Eol     string `json:"eol"`
	Split   bool   `json:"split"`
	Compact bool   `json:"compact"`
	Sparse  bool   `json:"sparse"`
	XLow    bool   `json:"xlow"`
	NoHead  bool   `json:"nohead"`
}

type xCase struct {
	idxNum int      // object number of the index array (set by xBuild)
	cons   [][2]int // object streams written: object number, number of members (set by xBuild)
	Revs   []xRev   `json:"revs"`
	Opt    xOpt     `json:"opt"`
	Newest []int    `json:"newest"`
}

func xBody(v, bl int) []byte {
	b := make([]byte, bl)
	copy(b, []byte(fmt.Sprintf("%06d", v)))
	for i := 6; i < bl; i++ {
		b[i] = byte('a' + (i*7+v)%26)
	}
	return b
}

// xProject maps a looked-up object to the abstract value: v, -1 error, -2 corrupt.
func xProject(o core.Object, err error, bl int) int {
	if err != nil {
		return -1
	}
	switch t := o.(type) {
	case core.Int:
		return int(t)
	case *core.Stream:
		d, derr := t.Decode()
		if derr != nil || len(d) != bl || len(d) < 6 {
			return -2
		}
		v, perr := strconv.Atoi(string(d[:6]))
		if perr != nil {
			return -2
		}
		want := xBody(v, bl)
		for i := range d {
			if d[i] != want[i] {
				return -2
			}
		}
		return v
	}
	return -2
}

// xNum: the object number of specification object k (1..n), of the length holder (n+1), the catalog (n+2) and the
// page tree root (n+3). With sparse numbering the specification objects sit at 1, 4, 7, ... so that the merged
// cross-reference table has fewer entries than its highest object number.
func xNum(c *xCase, k int) int {
	n := len(c.Revs[0].Ops)
	if !c.Opt.Sparse {
		return k
	}
	if k <= n {
		return 3*k - 2
	}
	return 3*n - 2 + (k - n)
}

func xBuild(c *xCase) ([]byte, int, error) {
	n := len(c.Revs[0].Ops)
	lh, cat, pgs := xNum(c, n+1), xNum(c, n+2), xNum(c, n+3)
	next := pgs + 7
	if c.Opt.Compact {
		next = pgs + 1
	}
	bl := 6
	if c.Opt.Big {
		bl = 5000
	}
	// an index object: an array of references to every object of the history, reachable from the catalog. Resolving it
	// deeply walks the whole history; looking it up must keep returning the references themselves
	idx := next
	next++
	c.idxNum = idx
	f := &pdfw.File{EOL: c.Opt.Eol, NoFreeHead: c.Opt.NoHead}
	for ri, rv := range c.Revs {
		r := pdfw.Revision{XRef: rv.Kind, Root: pdfw.Ref{Num: cat}, Split: c.Opt.Split, FlateXRef: c.Opt.Flate}
		if len(c.Opt.W) == 3 {
			r.W = [3]int{c.Opt.W[0], c.Opt.W[1], c.Opt.W[2]}
		}
		var members []pdfw.Member
		var items []pdfw.Item
		lhItem := func() {
			switch rv.Lh {
			case "plain":
				items = append(items, pdfw.Item{Num: lh, Val: pdfw.Int(bl)})
			case "instm":
				members = append(members, pdfw.Member{Num: lh, Val: pdfw.Int(bl)})
			}
		}
		if ri == 0 {
			items = append(items,
				pdfw.Item{Num: cat, Val: pdfw.Dict{{"Type", pdfw.Name("Catalog")}, {"Pages", pdfw.Ref{Num: pgs}}, {"VerifIndex", pdfw.Ref{Num: idx}}}},
				pdfw.Item{Num: idx, Val: func() pdfw.Arr {
					a := pdfw.Arr{}
					for k := 1; k <= n+1; k++ {
						a = append(a, pdfw.Ref{Num: xNum(c, k)})
					}
					return append(a, pdfw.Int(42))
				}()},
				pdfw.Item{Num: pgs, Val: pdfw.Dict{{"Type", pdfw.Name("Pages")}, {"Kids", pdfw.Arr{}}, {"Count", pdfw.Int(0)}}})
		}
		if !c.Opt.Split {
			lhItem()
		}
		for i, op := range rv.Ops {
			num := xNum(c, i+1)
			v := (ri+1)*10 + (i + 1)
			switch op {
			case "plain":
				items = append(items, pdfw.Item{Num: num, Val: pdfw.Int(v)})
			case "instm":
				members = append(members, pdfw.Member{Num: num, Val: pdfw.Int(v)})
			case "stream":
				items = append(items, pdfw.Item{Num: num, Stm: &pdfw.Stream{Dict: pdfw.Dict{{"K", pdfw.Int(v)}}, Data: xBody(v, bl)}})
			case "streamref":
				items = append(items, pdfw.Item{Num: num, Stm: &pdfw.Stream{Dict: pdfw.Dict{{"K", pdfw.Int(v)}}, Data: xBody(v, bl), LengthRef: lh}})
			case "free":
				r.Free = append(r.Free, num)
			}
		}
		if c.Opt.Split {
			lhItem()
		}
		if rv.Kind == "stream" && c.Opt.XLow {
			// the cross-reference stream takes its number BEFORE the container written in this revision, so the
			// last entry of its section belongs to a real object, not to the cross-reference stream itself
			r.XRefNum = next
			next++
		}
		if len(members) > 0 {
			items = append(items, pdfw.Item{Num: next, IsObjStm: true, Members: members, FlateStm: c.Opt.Flate})
			c.cons = append(c.cons, [2]int{next, len(members)})
			next++
		}
		if rv.Kind == "stream" && !c.Opt.XLow {
			r.XRefNum = next
			next++
		}
		r.Items = items
		f.Revs = append(f.Revs, r)
	}
	b, _, err := f.Bytes()
	return b, bl, err
}

func c04Case(i int, raw []byte) Result {
	var c xCase
	if err := json.Unmarshal(raw, &c); err != nil {
		return fail("decode", "decode", err.Error(), nil)
	}
	data, bl, err := xBuild(&c)
	if err != nil {
		return Result{OK: false, Clause: "writer", Sig: "MACHINERY:pdfw", What: err.Error()}
	}
	dir := os.Getenv("VERIF_SCRATCH")
	if dir == "" {
		dir = os.TempDir()
	}
	path := filepath.Join(dir, fmt.Sprintf("c04-%d-%d.pdf", os.Getpid(), i))
	if err := os.WriteFile(path, data, 0o644); err != nil {
		return Result{OK: false, Clause: "writer", Sig: "MACHINERY:io", What: err.Error()}
	}
	defer os.Remove(path)
	n := len(c.Newest)
	lhNum := n + 1
	multi, freed := false, false
	cnt := make([]int, n)
	for _, rv := range c.Revs {
		for k, op := range rv.Ops {
			if op != "keep" {
				cnt[k]++
			}
			if op == "free" {
				freed = true
			}
		}
	}
	for _, x := range cnt {
		if x >= 2 {
			multi = true
		}
	}
	res := Result{OK: true, Nontrivial: multi || freed, Key: string(raw)}
	// lookup alphabet: objects, the length holder, clear (0)
	alpha := []int{0}
	for k := 1; k <= n+1; k++ {
		alpha = append(alpha, k)
	}
	// n+2: resolve the index array deeply (every object of the history is visited through the reader); n+3: look the
	// index array up by number. Both only as the first step of a two-step sequence, and n+3 as a second step.
	deepOp, idxOp := n+2, n+3
	wantIdx := "["
	for k := 1; k <= n+1; k++ {
		wantIdx += fmt.Sprintf("%d 0 R ", xNum(&c, k))
	}
	wantIdx += "42]"
	maxLen := 2
	if tier() == "thorough" {
		maxLen = 3
	}
	var seqs [][]int
	var gen func(cur []int)
	gen = func(cur []int) {
		if len(cur) > 0 {
			seqs = append(seqs, append([]int{}, cur...))
		}
		if len(cur) == maxLen {
			return
		}
		for _, a := range alpha {
			gen(append(cur, a))
		}
	}
	gen(nil)
	// n+4+j: look up the j-th object stream ITSELF by its number: a stream of type ObjStm with /N members and its data,
	// whatever members were taken out of it before
	for j := range c.cons {
		con := n + 4 + j
		for _, a := range alpha[1:] {
			seqs = append(seqs, []int{a, con}, []int{con, a, con})
		}
		seqs = append(seqs, []int{deepOp, con})
	}
	for _, first := range []int{deepOp, idxOp} {
		for _, a := range append(append([]int{}, alpha[1:]...), idxOp) {
			seqs = append(seqs, []int{first, a})
		}
		seqs = append(seqs, []int{first, 0, idxOp})
	}
	revsJSON := json.RawMessage(mustJSON(c.Revs))
	feature := func(k int) string {
		// the operation of the newest revision mentioning object k
		last := "none"
		for _, rv := range c.Revs {
			if k <= n && rv.Ops[k-1] != "keep" {
				last = rv.Ops[k-1]
			}
		}
		if k == lhNum {
			last = "lh"
		}
		if c.Opt.Big {
			last += ":big"
		}
		return last
	}
	for si, seq := range seqs {
		rd, err := reader.Open(path)
		res.Evals++
		if err != nil {
			x := fail("open", "C04:open:eol="+c.Opt.Eol, "reader.Open failed on a well-formed file: "+err.Error(),
				map[string]interface{}{"case": json.RawMessage(raw), "observed": err.Error()})
			x.Nontrivial, x.Key, x.Evals = res.Nontrivial, res.Key, res.Evals
			return x
		}
		// the same lookups also go through ONE resolver.ObjectResolver over this reader (plain Resolve / ResolveDeep, which
		// keep the resolver's state between calls): its answers are the reader's
		rs := resolver.NewResolver(rd)
		var ev []Event
		logIt := si%7 == 0 // a sample of the sequences goes to the trace
		if logIt {
			ev = append(ev, Event{"event": "Open", "revs": revsJSON})
		}
		for _, k := range seq {
			if k == 0 {
				rd.ClearCache()
				if logIt {
					ev = append(ev, Event{"event": "Clear"})
				}
				continue
			}
			if k >= n+4 {
				con := c.cons[k-n-4]
				o, gerr := rd.GetObject(con[0])
				got := "error"
				if gerr == nil {
					got = fmt.Sprintf("%T", o)
					if st, ok := o.(*core.Stream); ok {
						nn, _ := st.Dict.Get("N").(core.Int)
						got = fmt.Sprintf("object stream N=%d data=%v", int64(nn), len(st.Data) > 0)
					}
				}
				if want := fmt.Sprintf("object stream N=%d data=true", con[1]); got != want {
					rd.Close()
					x := fail("lookup", "C04:lookup:container", fmt.Sprintf("lookup of object stream %d itself in sequence %v returned %s; the file defines an %s (history %s, options %s; numbers above %d are the object streams)",
						con[0], seq, got, want, mustJSON(c.Revs), mustJSON(c.Opt), n+3), map[string]interface{}{"case": json.RawMessage(raw), "observed": got, "sequence": seq})
					x.Nontrivial, x.Key, x.Evals = res.Nontrivial, res.Key, res.Evals
					return x
				}
				continue
			}
			if k == deepOp || k == idxOp {
				if k == deepOp {
					func() {
						defer func() { recover() }() // a deep resolution may refuse freed objects; only its after-effects are judged here
						rd.ResolveDeep(core.IndirectRef{Number: c.idxNum, Generation: 0})
					}()
					func() {
						defer func() { recover() }()
						rs.ResolveDeep(core.IndirectRef{Number: c.idxNum, Generation: 0})
					}()
					continue
				}
				o, gerr := rd.GetObject(c.idxNum)
				got := "error"
				if gerr == nil {
					got = xShowArray(o)
				}
				if o2, e2 := rs.Resolve(core.IndirectRef{Number: c.idxNum, Generation: 0}); gerr == nil && (e2 != nil || xShowArray(o2) != got) {
					rd.Close()
					x := fail("lookup", "C04:lookup:resolver", fmt.Sprintf("the index array (object %d) in sequence %v: the reader answers %s, a resolver.ObjectResolver over the same reader, used for the whole sequence, answers %v / %v (history %s, options %s; %d = deep resolution of that array)",
						c.idxNum, seq, got, o2, e2, mustJSON(c.Revs), mustJSON(c.Opt), deepOp), map[string]interface{}{"case": json.RawMessage(raw), "sequence": seq})
					x.Nontrivial, x.Key, x.Evals = res.Nontrivial, res.Key, res.Evals
					return x
				}
				if got != wantIdx {
					rd.Close()
					x := fail("lookup", "C04:lookup:index-array", fmt.Sprintf("lookup of the index array (object %d) in sequence %v returned %s; the file defines %s (history %s, options %s; %d = deep resolution of that array, %d = its lookup)",
						c.idxNum, seq, got, wantIdx, mustJSON(c.Revs), mustJSON(c.Opt), deepOp, idxOp), map[string]interface{}{"case": json.RawMessage(raw), "observed": got, "sequence": seq})
					x.Nontrivial, x.Key, x.Evals = res.Nontrivial, res.Key, res.Evals
					return x
				}
				continue
			}
			o, gerr := rd.GetObject(xNum(&c, k))
			got := xProject(o, gerr, bl)
			if o2, e2 := rs.Resolve(core.IndirectRef{Number: xNum(&c, k), Generation: 0}); xProject(o2, e2, bl) != got {
				rd.Close()
				x := fail("lookup", "C04:lookup:resolver", fmt.Sprintf("object %d in sequence %v: the reader answers %d, a resolver.ObjectResolver over the same reader, used for the whole sequence, answers %d (%v) (history %s, options %s; %d = deep resolution of the index array)",
					k, seq, got, xProject(o2, e2, bl), e2, mustJSON(c.Revs), mustJSON(c.Opt), deepOp), map[string]interface{}{"case": json.RawMessage(raw), "observed": xProject(o2, e2, bl), "sequence": seq})
				x.Nontrivial, x.Key, x.Evals = res.Nontrivial, res.Key, res.Evals
				return x
			}
			want := bl
			if k <= n {
				want = c.Newest[k-1]
				if logIt {
					ev = append(ev, Event{"event": "Lookup", "n": k, "res": got})
				}
			}
			if got != want {
				rd.Close()
				what := fmt.Sprintf("lookup of object %d in sequence %v returned %d", k, seq, got)
				if gerr != nil {
					what += " (" + gerr.Error() + ")"
				}
				what += fmt.Sprintf("; the newest revision defines %d (history %s, options %s)", want, mustJSON(c.Revs), mustJSON(c.Opt))
				x := fail("lookup", "C04:lookup:"+feature(k), what, map[string]interface{}{"case": json.RawMessage(raw), "observed": got, "sequence": seq})
				x.Nontrivial, x.Key, x.Evals = res.Nontrivial, res.Key, res.Evals
				return x
			}
		}
		rd.Close()
		res.Events = append(res.Events, ev...)
	}
	return res
}

// xShowArray prints an array of references and integers as the file spells it
func xShowArray(o core.Object) string {
	a, ok := o.(core.Array)
	if !ok {
		return fmt.Sprintf("%T", o)
	}
	parts := make([]string, len(a))
	for i, e := range a {
		switch v := e.(type) {
		case core.IndirectRef:
			parts[i] = fmt.Sprintf("%d %d R", v.Number, v.Generation)
		case core.Int:
			parts[i] = fmt.Sprint(int64(v))
		default:
			parts[i] = fmt.Sprintf("<%T>", e)
		}
	}
	return "[" + strings.Join(parts, " ") + "]"
}

func c04(mode, in, out string) error {
	switch mode {
	case "replay":
		return runCases(in, out, c04Case)
	}
	return fmt.Errorf("c04: unknown mode %s", mode)
}
