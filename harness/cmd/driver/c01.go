package main

// C01 — PdfLayout.tla binding: every layout TLC chooses is rendered by the
// independent writer and read back through tabula.Open / reader.Open.

import (
	"encoding/json"
	"fmt"
	"os"
	"path/filepath"
	"reflect"
	"strings"

	"verif/internal/pdfdoc"

	tabula "github.com/tsawler/tabula"
	"github.com/tsawler/tabula/reader"
)

func init() { handlers["c01"] = c01 }

type lCase struct {
	Layout   pdfdoc.Layout `json:"layout"`
	Expected struct {
		PageCount int       `json:"pageCount"`
		Pages     [][][]int `json:"pages"`
		MediaBox  []int     `json:"mediaBox"`
		ResLevel  int       `json:"resLevel"`
	} `json:"expected"`
	Base      [][][]int `json:"base"`
	Rev2Page1 [][]int   `json:"rev2page1"`
	Rev3Page  [][]int   `json:"rev3page"`
}

func toItems(p [][]int) []pdfdoc.Item {
	out := make([]pdfdoc.Item, len(p))
	for i, x := range p {
		out[i] = pdfdoc.Item{x[0], x[1]}
	}
	return out
}

// plain twin: the plainest layout of the same logical document
func plainTwin(l pdfdoc.Layout) pdfdoc.Layout {
	return pdfdoc.Layout{Doc: l.Doc, XRef: "table", ObjStm: "none", Filter: "none", Length: "direct", Size: "small", Split: 1,
		Depth: 1, MediaAt: 0, ResAt: 0, Revs: 1, Numbering: "ascending", Order: "sorted", Eol: "lf", Count: "chain"}
}

type c01obs struct {
	Err       string     `json:"err,omitempty"`
	PageCount int        `json:"pageCount"`
	Pages     [][]string `json:"pages"`
	Box       []float64  `json:"box"`
	Shared    string     `json:"shared,omitempty"`
}

func c01Observe(path string, npages int) c01obs {
	var o c01obs
	n, err := tabula.Open(path).PageCount()
	if err != nil {
		o.Err = "PageCount: " + err.Error()
		return o
	}
	o.PageCount = n
	for i := 1; i <= n; i++ {
		frs, _, err := tabula.Open(path).Pages(i).Fragments()
		if err != nil {
			o.Err = fmt.Sprintf("Fragments(page %d): %v", i, err)
			return o
		}
		texts := []string{}
		for _, f := range frs {
			texts = append(texts, f.Text)
		}
		o.Pages = append(o.Pages, texts)
	}
	rd, err := reader.Open(path)
	if err != nil {
		o.Err = "reader.Open: " + err.Error()
		return o
	}
	defer rd.Close()
	// all pages again through this ONE reader (shared fonts, CMaps and streams are then decoded repeatedly from
	// its object cache), and the first page once more at the end
	order := []int{}
	for i := 0; i < n; i++ {
		order = append(order, i)
	}
	if n > 1 {
		order = append(order, 0)
	}
	for _, i := range order {
		pg, err := rd.GetPage(i)
		if err != nil {
			o.Err = fmt.Sprintf("GetPage(%d) on a shared reader: %v", i, err)
			return o
		}
		frs, err := rd.ExtractTextFragments(pg)
		if err != nil {
			o.Err = fmt.Sprintf("ExtractTextFragments(page %d) on a shared reader: %v", i+1, err)
			return o
		}
		texts := []string{}
		for _, f := range frs {
			texts = append(texts, f.Text)
		}
		if i < len(o.Pages) && !reflect.DeepEqual(texts, o.Pages[i]) {
			o.Shared = fmt.Sprintf("page %d read through a reader that has already served other pages gives %q, a fresh reader gives %q", i+1, texts, o.Pages[i])
		}
	}
	if n > 0 {
		pg, err := rd.GetPage(n - 1)
		if err != nil {
			o.Err = "GetPage: " + err.Error()
			return o
		}
		box, err := pg.MediaBox()
		if err != nil {
			o.Err = "MediaBox: " + err.Error()
			return o
		}
		o.Box = box
	}
	return o
}

func c01Diff(c *lCase, o c01obs) (string, string) {
	if o.Err != "" {
		return "error", o.Err
	}
	if o.PageCount != c.Expected.PageCount {
		return "pagecount", fmt.Sprintf("page count %d, document has %d page leaves", o.PageCount, c.Expected.PageCount)
	}
	for i, p := range c.Expected.Pages {
		want := []string{}
		for _, it := range p {
			want = append(want, pdfdoc.TokenText(it[0], it[1]))
		}
		if i >= len(o.Pages) || !reflect.DeepEqual(want, o.Pages[i]) {
			got := []string{}
			if i < len(o.Pages) {
				got = o.Pages[i]
			}
			return "text", fmt.Sprintf("page %d text %q, document says %q", i+1, got, want)
		}
	}
	if o.Shared != "" {
		return "text-shared-reader", o.Shared
	}
	if len(o.Box) == 4 {
		for i := range o.Box {
			if o.Box[i] != float64(c.Expected.MediaBox[i]) {
				return "mediabox", fmt.Sprintf("MediaBox %v, nearest ancestor-or-self defines %v", o.Box, c.Expected.MediaBox)
			}
		}
	}
	return "", ""
}

func c01Run(c *lCase, l pdfdoc.Layout, tag string, i int) (c01obs, error) {
	base := make([][]pdfdoc.Item, len(c.Base))
	for k, p := range c.Base {
		base[k] = toItems(p)
	}
	data, err := pdfdoc.Build(l, base, toItems(c.Rev2Page1), toItems(c.Rev3Page))
	if err != nil {
		return c01obs{}, err
	}
	dir := os.Getenv("VERIF_SCRATCH")
	if dir == "" {
		dir = os.TempDir()
	}
	path := filepath.Join(dir, fmt.Sprintf("c01-%d-%d-%s.pdf", os.Getpid(), i, tag))
	if err := os.WriteFile(path, data, 0o644); err != nil {
		return c01obs{}, err
	}
	defer os.Remove(path)
	return c01Observe(path, c.Expected.PageCount), nil
}

func c01Case(i int, raw []byte) Result {
	var c lCase
	if err := json.Unmarshal(raw, &c); err != nil {
		return fail("decode", "decode", err.Error(), nil)
	}
	l := c.Layout
	twin := plainTwin(l)
	nontrivial := l != twin
	r := Result{OK: true, Nontrivial: nontrivial, Key: string(mustJSON(l)), Evals: 1}
	o, err := c01Run(&c, l, "x", i)
	if err != nil {
		return Result{OK: false, Clause: "writer", Sig: "MACHINERY:pdfw", What: err.Error()}
	}
	cl, what := c01Diff(&c, o)
	if o.Err == "" {
		// trace event: the observation projected back to <font, token> items
		pages := make([][][]int, len(o.Pages))
		for pi, p := range o.Pages {
			pages[pi] = [][]int{}
			for _, t := range p {
				var f, k int
				if n, _ := fmt.Sscanf(t, "w%dx%d", &f, &k); n != 2 || pdfdoc.TokenText(f, k) != t {
					f, k = 0, 0
				}
				pages[pi] = append(pages[pi], []int{f, k})
			}
		}
		box := []int{}
		for _, v := range o.Box {
			box = append(box, int(v))
		}
		r.Events = []Event{{"event": "Extract", "layout": l, "pageCount": o.PageCount, "pages": pages, "box": box}}
	}
	if cl == "" {
		return r
	}
	// localise: greedy minimisation in the layout space — switch options back to
	// the plain twin one at a time while the failure persists
	min := l
	fields := []struct {
		name string
		set  func(*pdfdoc.Layout)
	}{
		{"xref", func(x *pdfdoc.Layout) { x.XRef = twin.XRef; x.ObjStm = "none" }},
		{"objstm", func(x *pdfdoc.Layout) { x.ObjStm = twin.ObjStm }},
		{"filter", func(x *pdfdoc.Layout) { x.Filter = twin.Filter }},
		{"length", func(x *pdfdoc.Layout) { x.Length = twin.Length }},
		{"size", func(x *pdfdoc.Layout) { x.Size = twin.Size }},
		{"cut", func(x *pdfdoc.Layout) { x.Cut = "ops" }},
		{"split", func(x *pdfdoc.Layout) { x.Split = twin.Split; x.Cut = "ops" }},
		{"mediaAt", func(x *pdfdoc.Layout) { x.MediaAt = 0 }},
		{"resAt", func(x *pdfdoc.Layout) { x.ResAt = 0 }},
		{"depth", func(x *pdfdoc.Layout) {
			x.Depth = 1
			if x.MediaAt > 1 {
				x.MediaAt = 1
			}
			if x.ResAt > 1 {
				x.ResAt = 1
			}
		}},
		{"revs", func(x *pdfdoc.Layout) { x.Revs = 1 }},
		{"numbering", func(x *pdfdoc.Layout) { x.Numbering = twin.Numbering }},
		{"order", func(x *pdfdoc.Layout) { x.Order = twin.Order }},
		{"eol", func(x *pdfdoc.Layout) { x.Eol = twin.Eol }},
		{"count", func(x *pdfdoc.Layout) { x.Count = twin.Count }},
	}
	expectFor := func(x pdfdoc.Layout) *lCase {
		// expectation for a reduced layout: revisions and mediaAt change it
		cc := c
		cc.Layout = x
		pages := append([][][]int{}, c.Base...)
		if x.Revs >= 2 {
			pages[0] = c.Rev2Page1
		}
		if x.Revs >= 3 {
			pages = append(pages, c.Rev3Page)
		}
		cc.Expected.Pages = pages
		cc.Expected.PageCount = len(pages)
		cc.Expected.MediaBox = []int{0, 0, 600 + 10*x.MediaAt, 800 + 10*x.MediaAt}
		return &cc
	}
	for _, f := range fields {
		try := min
		f.set(&try)
		if try == min {
			continue
		}
		o2, err := c01Run(&c, try, "m", i)
		r.Evals++
		if err != nil {
			continue
		}
		if cl2, _ := c01Diff(expectFor(try), o2); cl2 == cl {
			min = try
		}
	}
	feat := ""
	mv, tv := reflect.ValueOf(min), reflect.ValueOf(plainTwin(min))
	for k := 0; k < mv.NumField(); k++ {
		if mv.Type().Field(k).Name == "Doc" {
			continue
		}
		if !reflect.DeepEqual(mv.Field(k).Interface(), tv.Field(k).Interface()) {
			feat += fmt.Sprintf(":%s=%v", strings.Split(mv.Type().Field(k).Tag.Get("json"), ",")[0], mv.Field(k).Interface())
		}
	}
	x := fail(cl, "C01:"+cl+feat, what+fmt.Sprintf(" (layout %s; minimal failing layout options%s)", mustJSON(l), feat),
		map[string]interface{}{"case": json.RawMessage(raw), "observed": o, "minimal": min})
	x.Nontrivial, x.Key, x.Evals = nontrivial, r.Key, r.Evals
	return x
}

func c01(mode, in, out string) error {
	switch mode {
	case "replay":
		return runCases(in, out, c01Case)
	}
	return fmt.Errorf("c01: unknown mode %s", mode)
}
