package main

// docs_files: documents of every file format for the history-style drivers
// (C03 determinism): each is written once to the scratch directory and read
// through tabula.Open by name.

import (
	"fmt"
	"os"
	"path/filepath"
	"strings"
	"sync"
	"time"

	"verif/internal/pdfdoc"

	"verif/internal/pdfw"

	tabula "github.com/tsawler/tabula"
	"github.com/tsawler/tabula/rag"
	"github.com/tsawler/tabula/reader"
)

var docFilesOnce sync.Once
var docFilePaths map[string]string
var docFileBytes map[string][]byte
var swapMu sync.Mutex

func writeDocFiles() {
	docFilePaths = map[string]string{}
	docFileBytes = map[string][]byte{}
	dir := os.Getenv("VERIF_SCRATCH")
	if dir == "" {
		dir = os.TempDir()
	}
	put := func(name, ext string, data []byte, err error) {
		if err != nil {
			return
		}
		p := filepath.Join(dir, fmt.Sprintf("hist-%d-%s%s", os.Getpid(), name, ext))
		if os.WriteFile(p, data, 0o644) == nil {
			docFilePaths[name] = p
			docFileBytes[name] = data
		}
	}
	l1 := pdfdoc.Layout{Doc: 1, XRef: "table", ObjStm: "none", Filter: "fl", Length: "refAfter", Size: "big", Split: 2,
		Depth: 2, MediaAt: 1, ResAt: 1, Revs: 2, Numbering: "ascending", Order: "sorted", Eol: "lf", Count: "branches"}
	l2 := pdfdoc.Layout{Doc: 2, XRef: "stream", ObjStm: "dictsflate", Filter: "a85fl", Length: "refBefore", Size: "small", Split: 3,
		Depth: 3, MediaAt: 2, ResAt: 2, Revs: 3, Numbering: "shuffled", Order: "reversed", Eol: "crlf", Count: "chain"}
	base := [][]pdfdoc.Item{{{2, 1}, {3, 2}, {1, 3}}, {{3, 4}, {2, 5}}}
	b, err := pdfdoc.Build(l1, base, []pdfdoc.Item{{2, 11}}, []pdfdoc.Item{{3, 21}})
	put("pdfA", ".pdf", b, err)
	// three revisions behind cross-reference streams, the dictionaries split over object streams, later revisions
	// replacing members of an earlier revision's object stream
	l3 := pdfdoc.Layout{Doc: 3, XRef: "stream", ObjStm: "split", Filter: "a85fl", Length: "refAfter", Size: "small", Split: 1,
		Depth: 3, MediaAt: 1, ResAt: 0, Revs: 3, Numbering: "shuffled", Order: "reversed", Eol: "lf", Count: "chain"}
	b3, err3 := pdfdoc.Build(l3, base, []pdfdoc.Item{{2, 11}}, []pdfdoc.Item{{3, 21}})
	put("pdfSplit", ".pdf", b3, err3)
	b, err = pdfdoc.Build(l2, base, []pdfdoc.Item{{2, 11}, {1, 12}}, []pdfdoc.Item{{3, 21}})
	put("pdfB", ".pdf", b, err)
	// an object stream whose header goes wrong after the first entries (the fifth number is not a number): looking an
	// object up in it fails, and fails the same way the second time
	{
		f := &pdfw.File{EOL: "lf"}
		f.Revs = []pdfw.Revision{{XRef: "stream", Root: pdfw.Ref{Num: 1}, XRefNum: 9, W: [3]int{1, 3, 2},
			Items: []pdfw.Item{
				{Num: 1, Val: pdfw.Dict{{"Type", pdfw.Name("Catalog")}, {"Pages", pdfw.Ref{Num: 2}}}},
				{Num: 2, Val: pdfw.Dict{{"Type", pdfw.Name("Pages")}, {"Kids", pdfw.Arr{pdfw.Ref{Num: 3}, pdfw.Ref{Num: 4}}}, {"Count", pdfw.Int(2)}}},
				{Num: 8, IsObjStm: true, Members: []pdfw.Member{
					{Num: 3, Val: pdfw.Dict{{"Type", pdfw.Name("Page")}, {"Parent", pdfw.Ref{Num: 2}}, {"MediaBox", pdfw.Arr{pdfw.Int(0), pdfw.Int(0), pdfw.Int(200), pdfw.Int(200)}}}},
					{Num: 5, Val: pdfw.Int(5)}, {Num: 6, Val: pdfw.Int(6)},
					{Num: 4, Val: pdfw.Dict{{"Type", pdfw.Name("Page")}, {"Parent", pdfw.Ref{Num: 2}}, {"MediaBox", pdfw.Arr{pdfw.Int(0), pdfw.Int(0), pdfw.Int(200), pdfw.Int(201)}}}}}}}}}
		pdfw.PayloadFault = func(kind string, num int, payload []byte, w [3]int) []byte {
			if kind != "objstm" {
				return payload
			}
			fs := strings.Fields(string(payload))
			if len(fs) > 4 {
				fs[4] = "zz"
			}
			return []byte(strings.Join(fs, " ") + " ")
		}
		ob, _, oerr := f.Bytes()
		pdfw.PayloadFault = nil
		put("pdfBadObjStm", ".pdf", ob, oerr)
	}
	// the same document with every stream (contents, ToUnicode programs) behind ASCIIHex, alone and in front of Flate:
	// filters whose output is shorter than their input invite decoding in place, into the bytes the reader has cached
	lh := l1
	lh.Filter = "ahx"
	b, err = pdfdoc.Build(lh, base, []pdfdoc.Item{{2, 11}}, []pdfdoc.Item{{3, 21}})
	put("pdfHex", ".pdf", b, err)
	lh.Filter, lh.XRef, lh.ObjStm = "ahxfl", "stream", "dicts"
	b, err = pdfdoc.Build(lh, base, []pdfdoc.Item{{2, 11}}, []pdfdoc.Item{{3, 21}})
	put("pdfHexFl", ".pdf", b, err)
	// twins of pdfA / pdfB: same object numbers and resource names, other code permutations in the fonts
	pdfdoc.TwinShift = 5
	b, err = pdfdoc.Build(l1, base, []pdfdoc.Item{{2, 11}}, []pdfdoc.Item{{3, 21}})
	put("pdfA2", ".pdf", b, err)
	b, err = pdfdoc.Build(l2, base, []pdfdoc.Item{{2, 11}, {1, 12}}, []pdfdoc.Item{{3, 21}})
	put("pdfB2", ".pdf", b, err)
	pdfdoc.TwinShift = 0
	// ties: four blocks of two lines each, every block with its own font size and left edge - the most frequent
	// size / margin / alignment is a four-way tie, so a choice made in map-iteration order shows as soon as the
	// extraction is repeated
	var tie []pdfdoc.Placed
	ty := 740
	for blk, size := range []int{9, 11, 14, 18} {
		for l := 0; l < 2; l++ {
			tie = append(tie, pdfdoc.Placed{X: 72 + 24*blk, Y: ty, Size: size, Text: fmt.Sprintf("block %d line %d with some words in it", blk, l)})
			ty -= size + 4
		}
		ty -= 28
	}
	b, err = pdfdoc.BuildSimple([][]pdfdoc.Placed{tie}, 612, 792)
	put("pdfTie", ".pdf", b, err)
	// documents on which an operation fails part-way: a page tree that loops back after its first leaf, one whose
	// second kid is missing, and a page whose content stream does not decode
	tree := func(kids pdfw.Arr, contents []byte) ([]byte, error) {
		pg := func(c int) pdfw.Dict {
			return pdfw.Dict{{"Type", pdfw.Name("Page")}, {"Parent", pdfw.Ref{Num: 2}}, {"MediaBox", pdfw.Arr{pdfw.Int(0), pdfw.Int(0), pdfw.Int(200), pdfw.Int(200 + c)}},
				{"Contents", pdfw.Ref{Num: 5}}}
		}
		f := &pdfw.File{EOL: "lf"}
		f.Revs = []pdfw.Revision{{XRef: "table", Root: pdfw.Ref{Num: 1}, Items: []pdfw.Item{
			{Num: 1, Val: pdfw.Dict{{"Type", pdfw.Name("Catalog")}, {"Pages", pdfw.Ref{Num: 2}}}},
			{Num: 2, Val: pdfw.Dict{{"Type", pdfw.Name("Pages")}, {"Kids", kids}, {"Count", pdfw.Int(len(kids))}}},
			{Num: 3, Val: pg(0)}, {Num: 4, Val: pg(1)},
			{Num: 5, Stm: &pdfw.Stream{Dict: pdfw.Dict{{"Filter", pdfw.Name("FlateDecode")}}, Data: contents}}}}}
		b, _, err := f.Bytes()
		return b, err
	}
	okStream := pdfw.Deflate([]byte("BT /F1 12 Tf 20 100 Td (handle) Tj ET"))
	b, err = tree(pdfw.Arr{pdfw.Ref{Num: 3}, pdfw.Ref{Num: 2}, pdfw.Ref{Num: 4}}, okStream)
	put("pdfKidsLoop", ".pdf", b, err)
	b, err = tree(pdfw.Arr{pdfw.Ref{Num: 3}, pdfw.Ref{Num: 77}, pdfw.Ref{Num: 4}}, okStream)
	put("pdfKidsMissing", ".pdf", b, err)
	b, err = tree(pdfw.Arr{pdfw.Ref{Num: 3}, pdfw.Ref{Num: 4}}, []byte("this is not a zlib stream at all"))
	put("pdfBadStream", ".pdf", b, err)
	// two pages sharing ONE resources object; page 1 also draws a form whose own resources reuse the page's font name
	// F1 for another font (codes A B C read as X Y Z) and nest a second form under the page's XObject name: what a
	// reader merges for the form must not change what the pages themselves see afterwards
	{
		font := func(diff bool) pdfw.Dict {
			d := pdfw.Dict{{"Type", pdfw.Name("Font")}, {"Subtype", pdfw.Name("Type1")}, {"BaseFont", pdfw.Name("Helvetica")}}
			if diff {
				d = append(d, pdfw.KV{K: "Encoding", V: pdfw.Dict{{"Type", pdfw.Name("Encoding")}, {"BaseEncoding", pdfw.Name("WinAnsiEncoding")},
					{"Differences", pdfw.Arr{pdfw.Int(65), pdfw.Name("X"), pdfw.Name("Y"), pdfw.Name("Z")}}}})
			}
			return d
		}
		pg := func(c int) pdfw.Dict {
			return pdfw.Dict{{"Type", pdfw.Name("Page")}, {"Parent", pdfw.Ref{Num: 2}}, {"MediaBox", pdfw.Arr{pdfw.Int(0), pdfw.Int(0), pdfw.Int(300), pdfw.Int(300)}},
				{"Resources", pdfw.Ref{Num: 5}}, {"Contents", pdfw.Ref{Num: c}}}
		}
		form := func(res pdfw.Dict, body string) *pdfw.Stream {
			return &pdfw.Stream{Dict: pdfw.Dict{{"Type", pdfw.Name("XObject")}, {"Subtype", pdfw.Name("Form")}, {"BBox", pdfw.Arr{pdfw.Int(0), pdfw.Int(0), pdfw.Int(300), pdfw.Int(300)}},
				{"Resources", res}}, Data: []byte(body)}
		}
		f := &pdfw.File{EOL: "lf"}
		f.Revs = []pdfw.Revision{{XRef: "table", Root: pdfw.Ref{Num: 1}, Items: []pdfw.Item{
			{Num: 1, Val: pdfw.Dict{{"Type", pdfw.Name("Catalog")}, {"Pages", pdfw.Ref{Num: 2}}}},
			{Num: 2, Val: pdfw.Dict{{"Type", pdfw.Name("Pages")}, {"Kids", pdfw.Arr{pdfw.Ref{Num: 3}, pdfw.Ref{Num: 4}}}, {"Count", pdfw.Int(2)}}},
			{Num: 3, Val: pg(10)}, {Num: 4, Val: pg(11)},
			{Num: 5, Val: pdfw.Dict{{"Font", pdfw.Dict{{"F1", pdfw.Ref{Num: 6}}}}, {"XObject", pdfw.Dict{{"X1", pdfw.Ref{Num: 8}}}}}},
			{Num: 6, Val: font(false)}, {Num: 7, Val: font(true)},
			{Num: 8, Stm: form(pdfw.Dict{{"Font", pdfw.Dict{{"F1", pdfw.Ref{Num: 7}}}}, {"XObject", pdfw.Dict{{"X1", pdfw.Ref{Num: 9}}}}}, "BT /F1 12 Tf 20 150 Td (ABC) Tj ET /X1 Do")},
			{Num: 9, Stm: form(pdfw.Dict{}, "BT /F1 12 Tf 20 120 Td (CAB) Tj ET")},
			{Num: 10, Stm: &pdfw.Stream{Data: []byte("BT /F1 12 Tf 20 200 Td (ABC) Tj ET /X1 Do BT /F1 12 Tf 20 90 Td (BCA) Tj ET")}},
			{Num: 11, Stm: &pdfw.Stream{Data: []byte("BT /F1 12 Tf 20 200 Td (ABC) Tj ET /X1 Do")}}}}}
		fb, _, ferr := f.Bytes()
		put("pdfSharedRes", ".pdf", fb, ferr)
	}
	// one page whose resources hold 140 MacRoman fonts (code 0x8A is a-diaeresis there, S-caron in WinAnsi), each used once: whatever
	// a reader does per font (registration order, limits, caches) must not depend on the order a map happens to yield them
	{
		fonts := pdfw.Dict{}
		var body strings.Builder
		its := []pdfw.Item{
			{Num: 1, Val: pdfw.Dict{{"Type", pdfw.Name("Catalog")}, {"Pages", pdfw.Ref{Num: 2}}}},
			{Num: 2, Val: pdfw.Dict{{"Type", pdfw.Name("Pages")}, {"Kids", pdfw.Arr{pdfw.Ref{Num: 3}}}, {"Count", pdfw.Int(1)}}}}
		body.WriteString("BT\n")
		for k := 0; k < 140; k++ {
			name := fmt.Sprintf("F%d", k+1)
			fonts = append(fonts, pdfw.KV{K: name, V: pdfw.Ref{Num: 10 + k}})
			its = append(its, pdfw.Item{Num: 10 + k, Val: pdfw.Dict{{"Type", pdfw.Name("Font")}, {"Subtype", pdfw.Name("Type1")}, {"BaseFont", pdfw.Name("Helvetica")},
				{"Encoding", pdfw.Name("MacRomanEncoding")}}})
			fmt.Fprintf(&body, "/%s 10 Tf 1 0 0 1 %d %d Tm (\\212%c) Tj\n", name, 40+26*(k%20), 740-30*(k/20), 'a'+k%26)
		}
		body.WriteString("ET\n")
		its = append(its, pdfw.Item{Num: 3, Val: pdfw.Dict{{"Type", pdfw.Name("Page")}, {"Parent", pdfw.Ref{Num: 2}}, {"MediaBox", pdfw.Arr{pdfw.Int(0), pdfw.Int(0), pdfw.Int(612), pdfw.Int(792)}},
			{"Resources", pdfw.Dict{{"Font", fonts}}}, {"Contents", pdfw.Ref{Num: 4}}}},
			pdfw.Item{Num: 4, Stm: &pdfw.Stream{Data: []byte(body.String())}})
		f := &pdfw.File{EOL: "lf"}
		f.Revs = []pdfw.Revision{{XRef: "table", Root: pdfw.Ref{Num: 1}, Items: its}}
		mb, _, merr := f.Bytes()
		put("pdfManyFonts", ".pdf", mb, merr)
	}
	// a plain single-column page with wide leading followed by a two-column page: what an extraction learns on one
	// page (layout mode, options) must not stick to the extractor for the next call
	{
		var p1, p2 []pdfdoc.Placed
		for l := 0; l < 5; l++ {
			p1 = append(p1, pdfdoc.Placed{X: 72, Y: 700 - 20*l, Size: 12, Text: fmt.Sprintf("plain line %d of the first page", l)})
		}
		for l := 0; l < 8; l++ {
			p2 = append(p2, pdfdoc.Placed{X: 72, Y: 700 - 14*l, Size: 10, Text: fmt.Sprintf("left column line %d text", l)},
				pdfdoc.Placed{X: 330, Y: 700 - 14*l, Size: 10, Text: fmt.Sprintf("right column line %d text", l)})
		}
		// a third page set glyph by glyph
		var p3 []pdfdoc.Placed
		for l := 0; l < 3; l++ {
			for k, ch := range "glyph by glyph line" {
				if ch != ' ' {
					p3 = append(p3, pdfdoc.Placed{Xf: 72 + 6.5*float64(k), Yf: float64(700 - 20*l), Sizef: 12, Text: string(ch)})
				}
			}
		}
		mb, merr := pdfdoc.BuildSimple([][]pdfdoc.Placed{p1, p2, p3}, 612, 792)
		put("pdfMixed", ".pdf", mb, merr)
	}
	// six pages, each with its own marker: for selections built step by step on shared base extractors
	{
		var six [][]pdfdoc.Placed
		for p := 1; p <= 6; p++ {
			six = append(six, []pdfdoc.Placed{{X: 72, Y: 700, Size: 12, Text: fmt.Sprintf("marker page %d", p)}, {X: 72, Y: 680, Size: 12, Text: fmt.Sprintf("second line of page %d", p)}})
		}
		sb, serr := pdfdoc.BuildSimple(six, 612, 792)
		put("pdfSix", ".pdf", sb, serr)
	}
	// one page that invokes an (empty) form 51000 times and then a form that shows the text: more than half of what one
	// extraction may spend on form invocations - the allowance belongs to each extraction, not to the open file
	{
		var body strings.Builder
		for k := 0; k < 51000; k++ {
			body.WriteString("/X0 Do\n")
		}
		body.WriteString("/X1 Do\n")
		form := func(content string) *pdfw.Stream {
			return &pdfw.Stream{Dict: pdfw.Dict{{"Type", pdfw.Name("XObject")}, {"Subtype", pdfw.Name("Form")}, {"BBox", pdfw.Arr{pdfw.Int(0), pdfw.Int(0), pdfw.Int(612), pdfw.Int(792)}},
				{"Resources", pdfw.Dict{{"Font", pdfw.Dict{{"F1", pdfw.Ref{Num: 5}}}}}}}, Data: []byte(content)}
		}
		f := &pdfw.File{EOL: "lf", Revs: []pdfw.Revision{{XRef: "table", Root: pdfw.Ref{Num: 1}, Items: []pdfw.Item{
			{Num: 1, Val: pdfw.Dict{{"Type", pdfw.Name("Catalog")}, {"Pages", pdfw.Ref{Num: 2}}}},
			{Num: 2, Val: pdfw.Dict{{"Type", pdfw.Name("Pages")}, {"Kids", pdfw.Arr{pdfw.Ref{Num: 3}}}, {"Count", pdfw.Int(1)}}},
			{Num: 3, Val: pdfw.Dict{{"Type", pdfw.Name("Page")}, {"Parent", pdfw.Ref{Num: 2}}, {"MediaBox", pdfw.Arr{pdfw.Int(0), pdfw.Int(0), pdfw.Int(612), pdfw.Int(792)}},
				{"Resources", pdfw.Dict{{"Font", pdfw.Dict{{"F1", pdfw.Ref{Num: 5}}}}, {"XObject", pdfw.Dict{{"X0", pdfw.Ref{Num: 6}}, {"X1", pdfw.Ref{Num: 7}}}}}}, {"Contents", pdfw.Ref{Num: 4}}}},
			{Num: 4, Stm: &pdfw.Stream{Data: []byte(body.String())}},
			{Num: 5, Val: pdfw.Dict{{"Type", pdfw.Name("Font")}, {"Subtype", pdfw.Name("Type1")}, {"BaseFont", pdfw.Name("Helvetica")}, {"Encoding", pdfw.Name("WinAnsiEncoding")}}},
			{Num: 6, Stm: form("q Q")},
			{Num: 7, Stm: form("BT /F1 12 Tf 72 700 Td (text drawn by the last form) Tj ET")}}}}}
		fb, _, ferr := f.Bytes()
		put("pdfManyForms", ".pdf", fb, ferr)
	}
	// six pages; a marginal line that stands at the same place on two of them only (fewer than half), unique first lines
	// in the band on the others, and a page number on all: which marginal texts count as running depends on counts per
	// text - never on the order in which the texts happen to be visited
	{
		var six [][]pdfdoc.Placed
		for p := 1; p <= 6; p++ {
			pg := []pdfdoc.Placed{{X: 300, Y: 25, Size: 10, Text: fmt.Sprintf("Page %d", p)}}
			if p == 2 || p == 5 {
				pg = append(pg, pdfdoc.Placed{X: 72, Y: 760, Size: 10, Text: "Draft Appendix"})
			} else {
				// (no digits: numbers are levelled out when marginal texts are compared)
				pg = append(pg, pdfdoc.Placed{X: 72, Y: 760, Size: 10, Text: []string{"Amber opening", "Birch prelude", "Cedar overture", "Dune foreword", "Ember preface", "Fjord prologue"}[p-1]})
			}
			for l := 0; l < 4; l++ {
				pg = append(pg, pdfdoc.Placed{X: 72, Y: 650 - 20*l, Size: 10, Text: fmt.Sprintf("body line %d of page %d", l, p)})
			}
			six = append(six, pg)
		}
		pb, perr := pdfdoc.BuildSimple(six, 612, 792)
		put("pdfPartialHeader", ".pdf", pb, perr)
	}
	var placed [][]pdfdoc.Placed
	for p := 0; p < 3; p++ {
		pg := []pdfdoc.Placed{{X: 72, Y: 760, Size: 10, Text: "Running Header"}, {X: 300, Y: 25, Size: 10, Text: fmt.Sprintf("Page %d", p+1)}}
		for l := 0; l < 6; l++ {
			pg = append(pg, pdfdoc.Placed{X: 72, Y: 650 - 20*l, Size: 10, Text: fmt.Sprintf("body line %d of page %d left", l, p)},
				pdfdoc.Placed{X: 330, Y: 650 - 20*l, Size: 10, Text: fmt.Sprintf("right column %d-%d", p, l)})
		}
		placed = append(placed, pg)
	}
	b, err = pdfdoc.BuildSimple(placed, 612, 792)
	put("pdfC", ".pdf", b, err)
	// the same standard font with and without an explicit /Widths array: word spacing in the
	// assembled text depends on the glyph widths, which must stay private to each document
	words := func() [][]pdfdoc.Placed {
		var pg []pdfdoc.Placed
		for l := 0; l < 4; l++ {
			x := 72
			for k, wd := range []string{"Hello", "World", "again", "here"} {
				pg = append(pg, pdfdoc.Placed{X: x, Y: 700 - 20*l, Size: 12, Text: wd + fmt.Sprint(l, k)})
				x += 45
			}
		}
		return [][]pdfdoc.Placed{pg}
	}
	b, err = pdfdoc.BuildSimpleWidths(words(), 612, 792, 1000)
	put("pdfWide", ".pdf", b, err)
	b, err = pdfdoc.BuildSimpleWidths(words(), 612, 792, 0)
	put("pdfStd", ".pdf", b, err)
	b, err = zipOf(docxMembers())
	put("docx", ".docx", b, err)
	b, err = zipOf(xlsxMembers())
	put("xlsx", ".xlsx", b, err)
	b, err = zipOf(pptxMembers())
	put("pptx", ".pptx", b, err)
	b, err = zipOf(odtMembers())
	put("odt", ".odt", b, err)
	b, err = zipOf(epubMembers(epubCfg{}))
	put("epub", ".epub", b, err)
	put("html", ".html", []byte(randomHTML(99, 12)), nil)
	// a file that fails to open (wrong content for its extension) and one that is truncated
	put("bad", ".pdf", []byte("<!DOCTYPE html><html><body>not a pdf</body></html>"), nil)
	if len(b) > 40 {
		put("trunc", ".epub", b[:len(b)/2], nil)
	}
}

func fileDoc(name string) *hdoc {
	path := docFilePaths[name]
	run := map[string]func() string{
		"text": func() string {
			s, _, err := tabula.Open(path).Text()
			if err != nil {
				return errStr(err)
			}
			return s
		},
		"markdown": func() string {
			s, _, err := tabula.Open(path).ToMarkdown()
			if err != nil {
				return errStr(err)
			}
			return s
		},
		"chunks-jsonl": func() string {
			cc, _, err := tabula.Open(path).Chunks()
			if err != nil {
				return errStr(err)
			}
			s, err := cc.ToJSONL()
			if err != nil {
				return errStr(err)
			}
			return s
		},
	}
	if filepath.Ext(path) == ".pdf" {
		run["exclude-hf"] = func() string {
			s, _, err := tabula.Open(path).ExcludeHeadersAndFooters().Text()
			if err != nil {
				return errStr(err)
			}
			return s
		}
		run["bycolumn"] = func() string {
			s, _, err := tabula.Open(path).ByColumn().Text()
			if err != nil {
				return errStr(err)
			}
			return s
		}
	}
	return &hdoc{name: "file-" + name, run: run}
}

// swapDoc: the bytes of document `name` written under ONE path shared by all swap documents just before it is
// opened - a result remembered per file name (rather than per content) shows as a difference. The write and the
// extraction hold a lock, so swap documents never overlap each other (they do overlap every other document).
func swapDoc(name string) *hdoc {
	dir := filepath.Dir(docFilePaths[name])
	shared := filepath.Join(dir, fmt.Sprintf("hist-%d-swap.pdf", os.Getpid()))
	with := func(f func(path string) (string, error)) func() string {
		return func() string {
			swapMu.Lock()
			defer swapMu.Unlock()
			if err := os.WriteFile(shared, docFileBytes[name], 0o644); err != nil {
				return "MACHINERY:" + err.Error()
			}
			s, err := f(shared)
			if err != nil {
				return errStr(err)
			}
			return s
		}
	}
	return &hdoc{name: "swap-" + name, run: map[string]func() string{
		"text":     with(func(p string) (string, error) { s, _, err := tabula.Open(p).Text(); return s, err }),
		"markdown": with(func(p string) (string, error) { s, _, err := tabula.Open(p).ToMarkdown(); return s, err }),
	}}
}

// repeatDoc: one operation sixteen times in a row in ONE process, each on a fresh extractor: all sixteen results are the
// same (Go randomises the iteration order of maps per loop, so an outcome that depends on it differs between runs of
// one process already). A run that disagrees with itself reports a value that no other run can reproduce.
func repeatDoc(name string) *hdoc {
	path := docFilePaths[name]
	x16 := func(f func() (string, error)) func() string {
		return func() string {
			first := ""
			for k := 0; k < 16; k++ {
				s, err := f()
				if err != nil {
					s = errStr(err)
				}
				if k == 0 {
					first = s
				} else if s != first {
					return fmt.Sprintf("run %d of 16 differs from run 1 (nonce %d): %q vs %q", k+1, time.Now().UnixNano(), s, first)
				}
			}
			return first
		}
	}
	return &hdoc{name: "repeat-" + name, run: map[string]func() string{
		"xh-text-x16": x16(func() (string, error) { s, _, err := tabula.Open(path).ExcludeHeaders().Text(); return s, err }),
		"xhf-text-x16": x16(func() (string, error) {
			s, _, err := tabula.Open(path).ExcludeHeadersAndFooters().Text()
			return s, err
		}),
		"xhf-md-x16": x16(func() (string, error) {
			s, _, err := tabula.Open(path).ExcludeHeadersAndFooters().ToMarkdown()
			return s, err
		}),
		"chunks-x16": x16(func() (string, error) {
			cc, _, err := tabula.Open(path).ExcludeHeaders().Chunks()
			if err != nil {
				return "", err
			}
			j, err := cc.ToJSONL()
			return j, err
		}),
	}}
}

// collDoc: operations on ONE chunk collection (the value Chunks() returns): every rendering and export of it gives the
// same result whether it is the first thing done with the collection or follows other renderings of it - a rendering
// reads the collection, it does not edit it.
func errOf(err error) string {
	if err == nil {
		return ""
	}
	return errStr(err)
}

func collDoc(name string) *hdoc {
	html := "<html><body><h1>Alpha</h1><p>first paragraph of alpha with some words</p><ul><li>one</li><li>two</li></ul><p>second paragraph of alpha</p>" +
		"<h2>Beta</h2><p>beta text</p><table><tr><th>k</th><th>v</th></tr><tr><td>a</td><td>1</td></tr></table><p>after the table</p><h1>Gamma</h1><p>gamma text</p></body></html>"
	ops := map[string]func(cc *rag.ChunkCollection) string{
		"md": func(cc *rag.ChunkCollection) string { return cc.ToMarkdown() },
		"mdopts": func(cc *rag.ChunkCollection) string {
			o := rag.DefaultMarkdownOptions()
			o.IncludeTableOfContents = true
			return cc.ToMarkdownWithOptions(o)
		},
		"mdchunks": func(cc *rag.ChunkCollection) string { return strings.Join(cc.ToMarkdownChunks(), "\n----\n") },
		"jsonl":    func(cc *rag.ChunkCollection) string { s, err := cc.ToJSONL(); return s + errOf(err) },
		"json":     func(cc *rag.ChunkCollection) string { s, err := cc.ToJSON(); return s + errOf(err) },
		"csv":      func(cc *rag.ChunkCollection) string { s, err := cc.ToCSV(); return s + errOf(err) },
		"section": func(cc *rag.ChunkCollection) string {
			var b strings.Builder
			for _, t := range []string{"Alpha", "Beta", "Gamma"} {
				fmt.Fprintf(&b, "%s:%d ", t, len(cc.FilterBySection(t).Chunks))
			}
			return b.String()
		},
		"chunk0md": func(cc *rag.ChunkCollection) string {
			var b strings.Builder
			for _, ch := range cc.Chunks {
				b.WriteString(ch.ToMarkdown() + "\n----\n")
			}
			return b.String()
		},
	}
	names := []string{"md", "mdopts", "mdchunks", "jsonl", "json", "csv", "section", "chunk0md"}
	run := map[string]func() string{}
	mk := func(before []string, op string) func() string {
		return func() string {
			var cc *rag.ChunkCollection
			var err error
			if name == "html" {
				cc, _, err = tabula.FromHTMLString(html).Chunks()
			} else {
				cc, _, err = tabula.Open(docFilePaths[name]).Chunks()
			}
			if err != nil {
				return errStr(err)
			}
			for _, b := range before {
				ops[b](cc)
			}
			return ops[op](cc)
		}
	}
	for _, op := range names {
		run["coll-"+op] = mk(nil, op)
		run["coll-"+op+"@2"] = mk([]string{op}, op)
		for _, b := range []string{"md", "mdopts", "mdchunks", "jsonl", "section"} {
			if b != op {
				run["coll-"+op+"@after-"+b] = mk([]string{b}, op)
			}
		}
	}
	return &hdoc{name: "coll-" + name, run: run}
}

// handleDoc: operations on ONE open handle of the low-level reader and of the fluent API; "x@2" is the second
// call of x on that handle and must give what the first call gives (also for documents whose page tree,
// objects or streams are damaged, where the first call fails part-way).
func handleDoc(name string) *hdoc {
	path := docFilePaths[name]
	page := func(rd *reader.Reader, i int) string {
		pg, err := rd.GetPage(i)
		if err != nil {
			return errStr(err)
		}
		mb, _ := pg.MediaBox()
		return fmt.Sprintf("page %v", mb)
	}
	count := func(rd *reader.Reader) string {
		n, err := rd.PageCount()
		if err != nil {
			return errStr(err)
		}
		return fmt.Sprint(n)
	}
	nth := func(k int, f func(rd *reader.Reader) string) func() string {
		return func() string {
			rd, err := reader.Open(path)
			if err != nil {
				return errStr(err)
			}
			defer rd.Close()
			var s string
			for i := 0; i < k; i++ {
				s = f(rd)
			}
			return s
		}
	}
	ext := func(k int, f func(e *tabula.Extractor) string) func() string {
		return func() string {
			e := tabula.Open(path)
			defer e.Close()
			var s string
			for i := 0; i < k; i++ {
				s = f(e)
			}
			return s
		}
	}
	text := func(e *tabula.Extractor) string {
		s, _, err := e.Text()
		if err != nil {
			return errStr(err)
		}
		return s
	}
	pc := func(e *tabula.Extractor) string {
		n, err := e.PageCount()
		if err != nil {
			return errStr(err)
		}
		return fmt.Sprint(n)
	}
	// text of page i, optionally after the text of page `first` was extracted through the same reader
	ptext := func(first, i int) func() string {
		return func() string {
			rd, err := reader.Open(path)
			if err != nil {
				return errStr(err)
			}
			defer rd.Close()
			get := func(k int) string {
				pg, err := rd.GetPage(k)
				if err != nil {
					return errStr(err)
				}
				s, err := rd.ExtractText(pg)
				if err != nil {
					return errStr(err)
				}
				return s
			}
			if first >= 0 {
				get(first)
			}
			return get(i)
		}
	}
	return &hdoc{name: "handle-" + name, run: map[string]func() string{
		// "x@2": x after other work on the same handle
		"reader-text-p0": ptext(-1, 0), "reader-text-p0@2": ptext(0, 0),
		"reader-text-p1": ptext(-1, 1), "reader-text-p1@2": ptext(0, 1),
		// ... and the pages in descending order: page 1 after page 2, page 2 after the last page
		"reader-text-p0@after1": ptext(1, 0), "reader-text-p1@after2": ptext(2, 1),
		// the fluent API over a reader the caller keeps open (FromReader): one page alone, and after another page or the
		// whole text went through the same reader
		"fromreader-page1": fromReader(path, nil, 1), "fromreader-page1@afterpage2": fromReader(path, []int{2}, 1),
		"fromreader-page2": fromReader(path, nil, 2), "fromreader-page2@afterpage1": fromReader(path, []int{1}, 2),
		"fromreader-page1@afterall": fromReader(path, []int{0}, 1),
		"fromreader-all":            fromReader(path, nil, 0), "fromreader-all@2": fromReader(path, []int{0}, 0), "fromreader-all@afterpage2": fromReader(path, []int{2}, 0),
		"reader-getpage0": nth(1, func(rd *reader.Reader) string { return page(rd, 0) }), "reader-getpage0@2": nth(2, func(rd *reader.Reader) string { return page(rd, 0) }),
		"reader-getpage1": nth(1, func(rd *reader.Reader) string { return page(rd, 1) }), "reader-getpage1@2": nth(2, func(rd *reader.Reader) string { return page(rd, 1) }),
		"reader-pagecount": nth(1, count), "reader-pagecount@2": nth(2, count),
		"ext-text": ext(1, text), "ext-text@2": ext(2, text),
		// page 1 alone, and page 1 from an extractor derived after the base has already produced the whole text
		"ext-page1": func() string { return text(tabula.Open(path).Pages(1)) },
		"ext-page1@aftertext": func() string {
			e := tabula.Open(path)
			defer e.Close()
			text(e)
			return text(e.Pages(1))
		},
		"ext-pagecount": ext(1, pc), "ext-pagecount@2": ext(2, pc),
	}}
}

// fromReader: the text of page `page` (0 = all pages) through tabula.FromReader over ONE reader the caller keeps open,
// after the pages of `before` (0 = all) were extracted through the same reader
func fromReader(path string, before []int, page int) func() string {
	return func() string {
		rd, err := reader.Open(path)
		if err != nil {
			return errStr(err)
		}
		defer rd.Close()
		get := func(p int) string {
			e := tabula.FromReader(rd)
			if p > 0 {
				e = e.Pages(p)
			}
			s, _, err := e.Text()
			if err != nil {
				return errStr(err)
			}
			return s
		}
		for _, b := range before {
			get(b)
		}
		return get(page)
	}
}

// forkDoc: a selection built step by step gives the same text whether its extractor is the only one derived from
// the base or has siblings derived from the same base - before it, after it, or at the same time on another goroutine.
func forkDoc(name string) *hdoc {
	path := docFilePaths[name]
	text := func(e *tabula.Extractor) string {
		s, _, err := e.Text()
		if err != nil {
			return errStr(err)
		}
		return s
	}
	chain := func(build func(*tabula.Extractor) *tabula.Extractor) func(sib string) func() string {
		return func(sib string) func() string {
			return func() string {
				base := build(tabula.Open(path))
				switch sib {
				case "":
					return text(base.Pages(4))
				case "after": // a sibling is derived after ours
					a := base.Pages(4)
					b := base.Pages(5)
					_ = b
					return text(a)
				case "before":
					b := base.Pages(5)
					a := base.Pages(4)
					_ = b
					return text(a)
				case "used": // the sibling is also used
					a := base.Pages(4)
					b := base.Pages(6).ByColumn()
					text(b)
					return text(a)
				default: // derived and used at the same time
					var wg sync.WaitGroup
					var ra string
					wg.Add(2)
					go func() { defer wg.Done(); ra = text(base.Pages(4)) }()
					go func() { defer wg.Done(); text(base.Pages(5)) }()
					wg.Wait()
					return ra
				}
			}
		}
	}
	r13 := chain(func(e *tabula.Extractor) *tabula.Extractor { return e.PageRange(1, 3) })
	p123 := chain(func(e *tabula.Extractor) *tabula.Extractor { return e.Pages(1).Pages(2).Pages(3) })
	p12 := chain(func(e *tabula.Extractor) *tabula.Extractor { return e.Pages(1, 2).ExcludeHeaders() })
	return &hdoc{name: "fork-" + name, run: map[string]func() string{
		"range13+4": r13(""), "range13+4@after": r13("after"), "range13+4@before": r13("before"), "range13+4@used": r13("used"), "range13+4@par": r13("par"),
		"p1p2p3+4": p123(""), "p1p2p3+4@after": p123("after"), "p1p2p3+4@before": p123("before"), "p1p2p3+4@used": p123("used"), "p1p2p3+4@par": p123("par"),
		"p12x+4": p12(""), "p12x+4@after": p12("after"), "p12x+4@used": p12("used"), "p12x+4@par": p12("par"),
	}}
}

func init() {
	fileDocGens = append(fileDocGens, func(salt int64) []*hdoc {
		docFilesOnce.Do(writeDocFiles)
		var out []*hdoc
		if docFilePaths["pdfSix"] != "" {
			out = append(out, forkDoc("pdfSix"))
		}
		if docFilePaths["pdfManyForms"] != "" {
			// (a heavy page: only the operations that ask one reader twice)
			h := handleDoc("pdfManyForms")
			keep := map[string]func() string{}
			for _, k := range []string{"fromreader-all", "fromreader-all@2"} {
				keep[k] = h.run[k]
			}
			out = append(out, &hdoc{name: "forms-pdfManyForms", run: keep})
		}
		for _, n := range []string{"pdfA", "pdfB", "pdfSplit", "pdfHex", "pdfHexFl", "pdfBadObjStm", "pdfMixed", "pdfSharedRes", "pdfKidsLoop", "pdfKidsMissing", "pdfBadStream"} {
			if docFilePaths[n] != "" {
				out = append(out, handleDoc(n))
			}
		}
		for _, n := range []string{"pdfA", "pdfA2", "pdfC"} {
			if docFilePaths[n] != "" {
				out = append(out, swapDoc(n))
			}
		}
		for _, n := range []string{"pdfPartialHeader", "pdfC", "pdfMixed"} {
			if docFilePaths[n] != "" {
				out = append(out, repeatDoc(n))
			}
		}
		out = append(out, collDoc("html"))
		for _, n := range []string{"docx", "pdfC"} {
			if docFilePaths[n] != "" {
				out = append(out, collDoc(n))
			}
		}
		for _, n := range []string{"pdfA", "pdfA2", "pdfB", "pdfB2", "pdfTie", "pdfSharedRes", "pdfManyFonts", "pdfHex", "pdfC", "pdfWide", "pdfStd", "docx", "xlsx", "pptx", "odt", "epub", "html", "bad", "trunc"} {
			if docFilePaths[n] != "" {
				out = append(out, fileDoc(n))
			}
		}
		return out
	})
}
