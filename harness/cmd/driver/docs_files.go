package main

// docs_files: documents of every file format for the history-style drivers
// (C03 determinism): each is written once to the scratch directory and read
// through tabula.Open by name.

import (
	"fmt"
	"os"
	"path/filepath"
	"sync"

	"verif/internal/pdfdoc"

	tabula "github.com/tsawler/tabula"
)

var docFilesOnce sync.Once
var docFilePaths map[string]string

func writeDocFiles() {
	docFilePaths = map[string]string{}
	dir := os.Getenv("VERIF_SCRATCH")
	if dir == "" {
		dir = os.TempDir()
	}
	put := func(name, ext string, data []byte, err error) {
		if err != nil {
			return
		}
		p := filepath.Join(dir, fmt.Sprintf("hist-%d-%s%s", os.Getpid(), name, ext))
		if os.WriteFile(p, data, 0o644) == nil {
			docFilePaths[name] = p
		}
	}
	l1 := pdfdoc.Layout{Doc: 1, XRef: "table", ObjStm: "none", Filter: "fl", Length: "refAfter", Size: "big", Split: 2,
		Depth: 2, MediaAt: 1, ResAt: 1, Revs: 2, Numbering: "ascending", Order: "sorted", Eol: "lf", Count: "branches"}
	l2 := pdfdoc.Layout{Doc: 2, XRef: "stream", ObjStm: "dictsflate", Filter: "a85fl", Length: "refBefore", Size: "small", Split: 3,
		Depth: 3, MediaAt: 2, ResAt: 2, Revs: 3, Numbering: "shuffled", Order: "reversed", Eol: "crlf", Count: "chain"}
	base := [][]pdfdoc.Item{{{2, 1}, {3, 2}, {1, 3}}, {{3, 4}, {2, 5}}}
	b, err := pdfdoc.Build(l1, base, []pdfdoc.Item{{2, 11}}, []pdfdoc.Item{{3, 21}})
	put("pdfA", ".pdf", b, err)
	b, err = pdfdoc.Build(l2, base, []pdfdoc.Item{{2, 11}, {1, 12}}, []pdfdoc.Item{{3, 21}})
	put("pdfB", ".pdf", b, err)
	var placed [][]pdfdoc.Placed
	for p := 0; p < 3; p++ {
		pg := []pdfdoc.Placed{{X: 72, Y: 760, Size: 10, Text: "Running Header"}, {X: 300, Y: 25, Size: 10, Text: fmt.Sprintf("Page %d", p+1)}}
		for l := 0; l < 6; l++ {
			pg = append(pg, pdfdoc.Placed{X: 72, Y: 650 - 20*l, Size: 10, Text: fmt.Sprintf("body line %d of page %d left", l, p)},
				pdfdoc.Placed{X: 330, Y: 650 - 20*l, Size: 10, Text: fmt.Sprintf("right column %d-%d", p, l)})
		}
		placed = append(placed, pg)
	}
	b, err = pdfdoc.BuildSimple(placed, 612, 792)
	put("pdfC", ".pdf", b, err)
	// the same standard font with and without an explicit /Widths array: word spacing in the
	// assembled text depends on the glyph widths, which must stay private to each document
	words := func() [][]pdfdoc.Placed {
		var pg []pdfdoc.Placed
		for l := 0; l < 4; l++ {
			x := 72
			for k, wd := range []string{"Hello", "World", "again", "here"} {
				pg = append(pg, pdfdoc.Placed{X: x, Y: 700 - 20*l, Size: 12, Text: wd + fmt.Sprint(l, k)})
				x += 45
			}
		}
		return [][]pdfdoc.Placed{pg}
	}
	b, err = pdfdoc.BuildSimpleWidths(words(), 612, 792, 1000)
	put("pdfWide", ".pdf", b, err)
	b, err = pdfdoc.BuildSimpleWidths(words(), 612, 792, 0)
	put("pdfStd", ".pdf", b, err)
	b, err = zipOf(docxMembers())
	put("docx", ".docx", b, err)
	b, err = zipOf(xlsxMembers())
	put("xlsx", ".xlsx", b, err)
	b, err = zipOf(pptxMembers())
	put("pptx", ".pptx", b, err)
	b, err = zipOf(odtMembers())
	put("odt", ".odt", b, err)
	b, err = zipOf(epubMembers(epubCfg{}))
	put("epub", ".epub", b, err)
	put("html", ".html", []byte(randomHTML(99, 12)), nil)
	// a file that fails to open (wrong content for its extension) and one that is truncated
	put("bad", ".pdf", []byte("<!DOCTYPE html><html><body>not a pdf</body></html>"), nil)
	if len(b) > 40 {
		put("trunc", ".epub", b[:len(b)/2], nil)
	}
}

func fileDoc(name string) *hdoc {
	path := docFilePaths[name]
	run := map[string]func() string{
		"text": func() string {
			s, _, err := tabula.Open(path).Text()
			if err != nil {
				return errStr(err)
			}
			return s
		},
		"markdown": func() string {
			s, _, err := tabula.Open(path).ToMarkdown()
			if err != nil {
				return errStr(err)
			}
			return s
		},
		"chunks-jsonl": func() string {
			cc, _, err := tabula.Open(path).Chunks()
			if err != nil {
				return errStr(err)
			}
			s, err := cc.ToJSONL()
			if err != nil {
				return errStr(err)
			}
			return s
		},
	}
	if filepath.Ext(path) == ".pdf" {
		run["exclude-hf"] = func() string {
			s, _, err := tabula.Open(path).ExcludeHeadersAndFooters().Text()
			if err != nil {
				return errStr(err)
			}
			return s
		}
		run["bycolumn"] = func() string {
			s, _, err := tabula.Open(path).ByColumn().Text()
			if err != nil {
				return errStr(err)
			}
			return s
		}
	}
	return &hdoc{name: "file-" + name, run: run}
}

func init() {
	fileDocGens = append(fileDocGens, func(salt int64) []*hdoc {
		docFilesOnce.Do(writeDocFiles)
		var out []*hdoc
		for _, n := range []string{"pdfA", "pdfB", "pdfC", "pdfWide", "pdfStd", "docx", "xlsx", "pptx", "odt", "epub", "html", "bad", "trunc"} {
			if docFilePaths[n] != "" {
				out = append(out, fileDoc(n))
			}
		}
		return out
	})
}
