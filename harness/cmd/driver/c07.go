package main

// C07 — FontDecode.tla / EncTables.tla binding.

import (
	"encoding/json"
	"fmt"
	"strings"
	"unicode/utf8"

	"golang.org/x/text/encoding/charmap"
	"golang.org/x/text/unicode/norm"

	"github.com/tsawler/tabula/core"
	"github.com/tsawler/tabula/font"
)

func init() { handlers["c07"] = c07 }

type cmCase struct {
	Kind    string          `json:"kind"`
	Enc     string          `json:"enc"`
	Code    int             `json:"code"`
	Expect  json.RawMessage `json:"expect"`
	Width   int             `json:"width"`
	Fmt     json.RawMessage `json:"fmt"`
	Program []int           `json:"program"`
	Codes   []int           `json:"codes"`
	Entries json.RawMessage `json:"entries"`
	Be      bool            `json:"be"`
	Bytes   []int           `json:"bytes"`
}

func cps(s string) []int {
	out := []int{}
	for _, r := range s {
		out = append(out, int(r))
	}
	return out
}

func sameCps(a, b []int) bool {
	if len(a) != len(b) {
		return false
	}
	for i := range a {
		if a[i] != b[i] {
			return false
		}
	}
	return true
}

func outOK(s string) (bool, bool) { return utf8.ValidString(s), norm.NFC.IsNormalString(s) }

func c07Case(i int, raw []byte) Result {
	var c cmCase
	if err := json.Unmarshal(raw, &c); err != nil {
		return fail("decode", "decode", err.Error(), nil)
	}
	r := Result{OK: true, Key: string(raw), Evals: 1}
	mk := func(cl, feat, what string, obs interface{}) Result {
		x := fail(cl, "C07:"+cl+":"+feat, what, map[string]interface{}{"case": json.RawMessage(raw), "observed": obs})
		x.Nontrivial, x.Key, x.Evals = r.Nontrivial, r.Key, 1
		return x
	}
	checkOut := func(s, feat string) *Result {
		v, n := outOK(s)
		if !v {
			x := mk("utf8", feat, fmt.Sprintf("returned text %q is not valid UTF-8", s), cps(s))
			return &x
		}
		if !n {
			x := mk("nfc", feat, fmt.Sprintf("returned text %q is not in NFC", s), cps(s))
			return &x
		}
		return nil
	}
	switch c.Kind {
	case "table":
		var exp int
		json.Unmarshal(c.Expect, &exp)
		got := font.GetEncoding(c.Enc).DecodeString([]byte{byte(c.Code)})
		if bad := checkOut(got, "table:"+c.Enc); bad != nil {
			return *bad
		}
		if exp == 0 {
			return r // not asserted
		}
		r.Nontrivial = true
		// second on-disk source for the two code-page encodings
		if c.Code >= 0x80 {
			var cm *charmap.Charmap
			if c.Enc == "WinAnsiEncoding" {
				cm = charmap.Windows1252
			} else if c.Enc == "MacRomanEncoding" {
				cm = charmap.Macintosh
			}
			if cm != nil && int(cm.DecodeByte(byte(c.Code))) != exp {
				return Result{OK: false, Sig: "MACHINERY:enctables", What: fmt.Sprintf("reference table %s[%#x]=%#x disagrees with x/text charmap %#x", c.Enc, c.Code, exp, cm.DecodeByte(byte(c.Code)))}
			}
		}
		// a font value whose Encoding field is set to another encoding first, used, and then set to this one: what a font
		// decodes follows the encoding it names NOW
		for _, other := range []string{"WinAnsiEncoding", "MacRomanEncoding", "StandardEncoding", "SymbolEncoding"} {
			if other == c.Enc {
				continue
			}
			ft := &font.Font{Name: "F", Encoding: other}
			ft.DecodeString([]byte{byte(c.Code), 0x41})
			ft.Encoding = c.Enc
			if again := ft.DecodeString([]byte{byte(c.Code)}); again != (&font.Font{Name: "F", Encoding: c.Enc}).DecodeString([]byte{byte(c.Code)}) {
				return mk("font-reused", c.Enc, fmt.Sprintf("a font first used with %s and then set to %s decodes code %#02x to %U; a font created with %s decodes it to %U", other, c.Enc, c.Code, []rune(again), c.Enc, []rune((&font.Font{Name: "F", Encoding: c.Enc}).DecodeString([]byte{byte(c.Code)}))), cps(again))
			}
		}
		// an overlay (a /Differences encoding) built over the named encoding changes what the OVERLAY decodes, never
		// the named encoding itself - which every other font of the process shares
		if base := font.GetEncoding(c.Enc); base != nil && exp != 0x2022 {
			ov := font.NewCustomEncoding(base, map[byte]rune{byte(c.Code): 0x2022})
			ov2 := font.NewCustomEncodingFromGlyphs(base, map[byte]string{byte(c.Code): "bullet"})
			if o1, o2 := ov.DecodeString([]byte{byte(c.Code)}), ov2.DecodeString([]byte{byte(c.Code)}); !sameCps(cps(o1), []int{0x2022}) || !sameCps(cps(o2), []int{0x2022}) {
				return mk("overlay", c.Enc, fmt.Sprintf("a /Differences overlay of %s mapping code %#02x to U+2022 decodes it to %U / %U", c.Enc, c.Code, []rune(o1), []rune(o2)), cps(o1))
			}
			if again := font.GetEncoding(c.Enc).DecodeString([]byte{byte(c.Code)}); again != got {
				return mk("overlay-leak", c.Enc, fmt.Sprintf("after a /Differences overlay was built over %s, the named encoding itself decodes code %#02x to %U (before: %U)", c.Enc, c.Code, []rune(again), []rune(got)), cps(again))
			}
		}
		if !sameCps(cps(got), []int{exp}) {
			block := "hi"
			if c.Code < 0x20 {
				block = "ctl"
			} else if c.Code < 0x80 {
				block = "ascii"
			}
			return mk("table", c.Enc+":"+block, fmt.Sprintf("%s code %#02x decodes to %U, the encoding defines U+%04X", c.Enc, c.Code, []rune(got), exp), cps(got))
		}
		return r
	case "cmap", "prio":
		var exp []int
		json.Unmarshal(c.Expect, &exp)
		r.Nontrivial = true
		cm, err := font.ParseToUnicodeCMap(&core.Stream{Dict: core.Dict{}, Data: toBytes(c.Program)})
		var f struct {
			Sep   string `json:"sep"`
			Tight bool   `json:"tight"`
			Split bool   `json:"split"`
		}
		json.Unmarshal(c.Fmt, &f)
		var ents []struct {
			K    string  `json:"k"`
			Dst  []int   `json:"dst"`
			Dsts [][]int `json:"dsts"`
		}
		json.Unmarshal(c.Entries, &ents)
		kinds := ""
		multi := false
		for _, e := range ents {
			kinds += e.K[:1]
			if len(e.Dst) > 1 || (len(e.Dst) == 1 && e.Dst[0] > 0xFFFF) {
				multi = true
			}
			for _, d := range e.Dsts {
				if len(d) > 1 || (len(d) == 1 && d[0] > 0xFFFF) {
					multi = true
				}
			}
		}
		feat := "lines"
		if f.Sep == "cr" || f.Sep == "sp" {
			feat = "oneline"
		}
		if strings.Contains(kinds, "a") {
			feat += ":arr"
		}
		if strings.Contains(kinds, "r") {
			feat += ":range"
		}
		if multi {
			feat += ":multi"
		}
		if c.Width > 2 {
			feat += fmt.Sprintf(":w%d", c.Width)
		}
		if err != nil {
			return mk("cmap-error", feat, "ParseToUnicodeCMap: "+err.Error(), nil)
		}
		ft := &font.Font{Name: "F", ToUnicodeCMap: cm}
		if c.Kind == "prio" {
			ft.Encoding = c.Enc
		}
		got := ft.DecodeString(toBytes(c.Codes))
		if bad := checkOut(got, "cmap"); bad != nil {
			return *bad
		}
		if !sameCps(cps(got), exp) {
			return mk(c.Kind, feat, fmt.Sprintf("codes %v decode to %U, the ToUnicode CMap specifies %U (program %q)", c.Codes, []rune(got), toRunes(exp), toBytes(c.Program)), cps(got))
		}
		// a string that ends inside a code (its length is not a multiple of the code width): whatever the reader makes of the
		// dangling bytes, what it returns is valid UTF-8 in NFC
		for _, tail := range [][]byte{{0x41}, {0x80}, {0xff}, {0xc3}, {0xe2, 0x82}} {
			s := ft.DecodeString(append(toBytes(c.Codes), tail...))
			r.Evals++
			if bad := checkOut(s, "cmap:dangling"); bad != nil {
				return *bad
			}
		}
		return r
	case "utf16":
		var exp []int
		json.Unmarshal(c.Expect, &exp)
		r.Nontrivial = true
		b := toBytes(c.Bytes)
		var got string
		if c.Be {
			got = font.DecodeUTF16BE(b[2:])
		} else {
			got = font.DecodeUTF16LE(b[2:])
		}
		got = font.NormalizeUnicode(got)
		got2 := (&font.Font{Name: "F", Encoding: "WinAnsiEncoding"}).DecodeString(b)
		for _, g := range []string{got, got2} {
			if bad := checkOut(g, "utf16"); bad != nil {
				return *bad
			}
			if !sameCps(cps(g), exp) {
				return mk("utf16", fmt.Sprintf("be=%v", c.Be), fmt.Sprintf("UTF-16 bytes %v decode to %U, expected %U", c.Bytes, []rune(g), toRunes(exp)), cps(g))
			}
		}
		r.Evals = 2
		return r
	}
	return fail("decode", "decode", "unknown kind "+c.Kind, nil)
}

func toRunes(a []int) []rune {
	r := make([]rune, len(a))
	for i, v := range a {
		r[i] = rune(v)
	}
	return r
}

// c07Record: random byte strings through every encoding and the raw fallback.
// Input lines: {"enc": name, "asserted": [codes...], "n": strings}
func c07Record(in, out string) error {
	type req struct {
		Enc      string `json:"enc"`
		Asserted []int  `json:"asserted"`
		N        int    `json:"n"`
	}
	return runCases(in, out, func(ci int, raw []byte) Result {
		var q req
		if err := json.Unmarshal(raw, &q); err != nil {
			return fail("decode", "decode", err.Error(), nil)
		}
		rnd := newRand(int64(ci) + 707)
		res := Result{OK: true, Nontrivial: true, Key: fmt.Sprintf("rec-%s-%d", q.Enc, seed())}
		var events []Event
		for k := 0; k < q.N; k++ {
			// (a) asserted codes only: exact reference decoding
			n := 1 + rnd.Intn(12)
			b := make([]byte, n)
			for i := range b {
				b[i] = byte(q.Asserted[rnd.Intn(len(q.Asserted))])
			}
			s := (&font.Font{Name: "F", Encoding: q.Enc}).DecodeString(b)
			v, nf := outOK(s)
			events = append(events, Event{"event": "Enc", "enc": q.Enc, "bytes": toInts(b), "out": cps(s), "valid": v, "nfc": nf})
			// (b) arbitrary bytes through the encoding, the raw fallback and BOM paths
			b2 := make([]byte, 1+rnd.Intn(16))
			for i := range b2 {
				b2[i] = byte(rnd.Intn(256))
			}
			for _, f := range []*font.Font{{Name: "F", Encoding: q.Enc}, {Name: "F"}} {
				for _, pre := range [][]byte{nil, {0xFE, 0xFF}, {0xFF, 0xFE}} {
					s2 := f.DecodeString(append(append([]byte{}, pre...), b2...))
					v2, n2 := outOK(s2)
					events = append(events, Event{"event": "Out", "valid": v2, "nfc": n2})
					res.Evals++
					if (!v2 || !n2) && res.OK {
						cl := "utf8"
						if v2 {
							cl = "nfc"
						}
						path := "enc"
						if f.Encoding == "" {
							path = "raw"
						}
						if pre != nil {
							path = "bom"
						}
						res = fail(cl, "C07:"+cl+":"+path, fmt.Sprintf("DecodeString(% x) with encoding %q returned %q (valid UTF-8: %v, NFC: %v)", append(pre, b2...), f.Encoding, s2, v2, n2),
							map[string]interface{}{"bytes": toInts(append(pre, b2...)), "encoding": f.Encoding})
						res.Nontrivial = true
					}
				}
			}
			res.Evals++
		}
		res.Events = events
		return res
	})
}

func c07(mode, in, out string) error {
	switch mode {
	case "replay":
		return runCases(in, out, c07Case)
	case "record":
		return c07Record(in, out)
	case "fontdict":
		return runCases(in, out, c07FontDict)
	case "rebind":
		return runCases(in, out, c07Rebind)
	}
	return fmt.Errorf("c07: unknown mode %s", mode)
}
