package main

// C03 — ParseIsolation.tla / Determinism.tla binding.
//
// sched:   TLC-emitted schedules are replayed on real contentstream.Parser values
//          running on real goroutines; the verif build-tag hook
//          contentstream.VerifYield is the scheduler gate (one grant = one spec
//          action). Every finished call must return the sequential meaning the
//          spec computed.
// history: extractions of generated documents alone / after others / after
//          failing inputs / repeated / concurrently; every result is logged as an
//          Observe event for DeterminismTrace.tla (run this mode with -race).

import (
	"encoding/json"
	"fmt"
	"os"
	"os/exec"
	"sort"
	"strconv"
	"strings"
	"sync"

	"github.com/tsawler/tabula/contentstream"
	"github.com/tsawler/tabula/core"
)

func init() {
	handlers["c03"] = c03
	contentstream.VerifYield = yieldHook
}

type procCtl struct {
	grant  chan struct{}
	parked chan string
}

var gated sync.Map // *contentstream.Parser -> *procCtl

func yieldHook(point string, p *contentstream.Parser) {
	v, ok := gated.Load(p)
	if !ok {
		return // parser not under scheduler control
	}
	c := v.(*procCtl)
	c.parked <- point
	<-c.grant
}

type schedCase struct {
	Calls   [][][]int       `json:"calls"`
	Sched   [][]interface{} `json:"sched"`
	Results [][][][]int     `json:"results"`
}

func renderStream(s []int) []byte {
	var b strings.Builder
	for _, t := range s {
		if t == 0 {
			b.WriteString("Tj ")
		} else {
			fmt.Fprintf(&b, "%d ", t)
		}
	}
	return []byte(b.String())
}

func projectOps(ops []contentstream.Operation) [][]int {
	out := make([][]int, 0, len(ops))
	for _, o := range ops {
		args := []int{}
		for _, a := range o.Operands {
			if v, ok := a.(core.Int); ok {
				args = append(args, int(v))
			} else {
				args = append(args, -1)
			}
		}
		out = append(out, args)
	}
	return out
}

func c03SchedCase(i int, raw []byte) Result {
	var c schedCase
	if err := json.Unmarshal(raw, &c); err != nil {
		return fail("decode", "decode", err.Error(), nil)
	}
	np := len(c.Calls)
	ctl := make([]*procCtl, np)
	got := make([][][][]int, np)
	var wg sync.WaitGroup
	for p := 0; p < np; p++ {
		ctl[p] = &procCtl{grant: make(chan struct{}), parked: make(chan string)}
		got[p] = nil
		wg.Add(1)
		go func(p int) {
			defer wg.Done()
			cc := ctl[p]
			for _, s := range c.Calls[p] {
				cc.parked <- "idle"
				<-cc.grant // Start
				ps := contentstream.NewParser(renderStream(s))
				gated.Store(ps, cc)
				ops, err := safeParse(ps)
				gated.Delete(ps)
				cc.parked <- "finish"
				<-cc.grant // Finish
				if err != nil {
					got[p] = append(got[p], [][]int{{-99}})
				} else {
					got[p] = append(got[p], projectOps(ops))
				}
			}
			cc.parked <- "end"
		}(p)
	}
	// scheduler
	at := make([]string, np)
	for p := 0; p < np; p++ {
		at[p] = <-ctl[p].parked
	}
	mism := 0
	switches := 0
	lastP := -1
	for _, st := range c.Sched {
		p := int(st[0].(float64)) - 1
		act := st[1].(string)
		want := act
		if act == "start" {
			want = "idle"
		}
		if at[p] != want {
			mism++
		}
		if at[p] == "end" {
			break
		}
		if lastP >= 0 && lastP != p {
			switches++
		}
		lastP = p
		ctl[p].grant <- struct{}{}
		at[p] = <-ctl[p].parked
	}
	// drain: let every process run to its end (only needed when the code's
	// control flow deviates from the model)
	for p := 0; p < np; p++ {
		for at[p] != "end" {
			ctl[p].grant <- struct{}{}
			at[p] = <-ctl[p].parked
			mism++
		}
	}
	wg.Wait()
	r := Result{OK: true, Nontrivial: switches >= 1 || maxCalls(c.Calls) >= 2, Key: string(raw), Evals: 1}
	for p := 0; p < np; p++ {
		if string(mustJSON(got[p])) != string(mustJSON(c.Results[p])) {
			x := fail("isolation", "C03:isolation",
				fmt.Sprintf("process %d parsed %s and got %s; the sequential meaning is %s (schedule %s)", p+1,
					mustJSON(c.Calls[p]), mustJSON(got[p]), mustJSON(c.Results[p]), mustJSON(c.Sched)),
				map[string]interface{}{"case": json.RawMessage(raw), "observed": got})
			x.Nontrivial, x.Key = r.Nontrivial, r.Key
			return x
		}
	}
	if mism > 0 {
		r.What = fmt.Sprintf("control-flow mismatches: %d", mism)
	}
	return r
}

func safeParse(ps *contentstream.Parser) (ops []contentstream.Operation, err error) {
	defer func() {
		if p := recover(); p != nil {
			err = fmt.Errorf("panic: %v", p)
		}
	}()
	return ps.Parse()
}

func maxCalls(c [][][]int) int {
	m := 0
	for _, x := range c {
		if len(x) > m {
			m = len(x)
		}
	}
	return m
}

// ------------------------------------------------------------- history

// c03History: one input line = one request {"rounds": n, "goroutines": g}.
func c03History(in, out string) error {
	type req struct {
		Rounds     int `json:"rounds"`
		Goroutines int `json:"goroutines"`
	}
	cases, err := readCases(in)
	if err != nil {
		return err
	}
	var res []Result
	for ci, raw := range cases {
		var q req
		if err := json.Unmarshal(raw, &q); err != nil {
			return err
		}
		docs := historyDocs(int64(ci))
		rnd := newRand(int64(ci) + 4242)
		var mu sync.Mutex
		var events []Event
		first := map[string]string{}
		var bad *Result
		// an operation named "x@..." is x after, or alongside, other work on the same handle (a second call, another
		// page first, sibling extractors derived from the same base): it must give what x gives, so it is observed
		// under x's name
		record := func(d *hdoc, op string, g int, phase, h string) {
			if at := strings.Index(op, "@"); at >= 0 {
				op, phase = op[:at], phase+", after or alongside other work on the same handle"
			}
			events = append(events, Event{"event": "Begin", "doc": d.name, "op": op, "g": g})
			events = append(events, Event{"event": "Observe", "doc": d.name, "op": op, "g": g, "hash": h, "phase": phase})
			k := d.name + "|" + op
			if f, ok := first[k]; !ok {
				first[k] = h
			} else if f != h && bad == nil {
				x := fail("determinism", "C03:determinism:"+op,
					fmt.Sprintf("%s of document %s returned a different result in phase %q than when it ran alone", op, d.name, phase),
					map[string]interface{}{"doc": d.name, "op": op, "phase": phase, "request": json.RawMessage(raw)})
				bad = &x
			}
		}
		observe := func(d *hdoc, op string, g int, phase string) {
			run := d.run[op]
			if at := strings.Index(op, "@"); at >= 0 {
				op, phase = op[:at], phase+", after or alongside other work on the same handle"
			}
			mu.Lock()
			events = append(events, Event{"event": "Begin", "doc": d.name, "op": op, "g": g})
			mu.Unlock()
			h := sha(run())
			mu.Lock()
			defer mu.Unlock()
			events = append(events, Event{"event": "Observe", "doc": d.name, "op": op, "g": g, "hash": h, "phase": phase})
			k := d.name + "|" + op
			if f, ok := first[k]; !ok {
				first[k] = h
			} else if f != h && bad == nil {
				x := fail("determinism", "C03:determinism:"+op,
					fmt.Sprintf("%s of document %s returned a different result in phase %q than when it ran alone", op, d.name, phase),
					map[string]interface{}{"doc": d.name, "op": op, "phase": phase, "request": json.RawMessage(raw)})
				bad = &x
			}
		}
		evals := 0
		// phase A: truly alone - every document in a fresh process of its own, so that state
		// left behind in package variables by one document cannot reach another
		self, _ := os.Executable()
		for _, d := range docs {
			cmd := exec.Command(self, "c03", "one", d.name, fmt.Sprint(ci))
			cmd.Env = os.Environ()
			outb, err := cmd.Output()
			if err != nil {
				return fmt.Errorf("fresh-process run of %s failed: %v", d.name, err)
			}
			var hs map[string]string
			if err := json.Unmarshal(outb, &hs); err != nil {
				return fmt.Errorf("fresh-process run of %s: %v", d.name, err)
			}
			ops := make([]string, 0, len(hs))
			for op := range hs {
				ops = append(ops, op)
			}
			sort.Strings(ops)
			for _, op := range ops { // sorted: "x" comes before "x@2"
				record(d, op, 1, "alone-fresh-process", hs[op])
				evals++
			}
		}
		// phase B: sequential, random orders, repeated
		for r := 0; r < q.Rounds; r++ {
			perm := rnd.Perm(len(docs))
			for _, di := range perm {
				d := docs[di]
				for op := range d.run {
					observe(d, op, 1, "after-others")
					evals++
				}
			}
		}
		// phase C: concurrent
		for r := 0; r < q.Rounds; r++ {
			var wg sync.WaitGroup
			for g := 0; g < q.Goroutines; g++ {
				wg.Add(1)
				perm := rnd.Perm(len(docs))
				go func(g int, perm []int) {
					defer wg.Done()
					for _, di := range perm {
						d := docs[di]
						for op := range d.run {
							observe(d, op, g+1, "concurrent")
						}
					}
				}(g, perm)
			}
			wg.Wait()
			evals += q.Goroutines * len(docs)
		}
		r := Result{OK: true, Events: events, Evals: evals, Nontrivial: true, Key: fmt.Sprintf("history-%d-%d", ci, seed())}
		if bad != nil {
			bad.Events = events
			bad.Evals = evals
			r = *bad
		}
		r.Case = ci
		res = append(res, r)
	}
	return writeResults(out, res)
}

// c03One: `driver c03 one <doc> <salt>` - run every operation of one document in this (fresh)
// process and print op -> hash as JSON.
func c03One(name string, salt int64) error {
	for _, d := range historyDocs(salt) {
		if d.name == name {
			hs := map[string]string{}
			for op, f := range d.run {
				hs[op] = sha(f())
			}
			os.Stdout.Write(mustJSON(hs))
			return nil
		}
	}
	return fmt.Errorf("no document %s", name)
}

func c03(mode, in, out string) error {
	switch mode {
	case "one":
		salt, _ := strconv.ParseInt(out, 10, 64)
		return c03One(in, salt)
	case "sched":
		// one case at a time: the only concurrency is the scheduled one, so a
		// shared-state defect shows up deterministically as a wrong result
		return runCasesSerial(in, out, c03SchedCase)
	case "history":
		return c03History(in, out)
	}
	return fmt.Errorf("c03: unknown mode %s", mode)
}
