package main

// C17 record mode: random workbooks beyond TLC's bounds, logged for SheetTrace.tla.

import (
	"encoding/json"
	"fmt"
	"math/rand"
	"os"
	"sort"
	"strconv"
	"strings"

	"github.com/tsawler/tabula/xlsx"

	"verif/internal/ooxmlw"
)

var c17Kinds = []string{"s", "sr", "is", "isr", "str", "b", "e", "n", "fn", "z", "se", "sr", "sr"}

// c17Shown is the content convention of Sheet.tla (Display): what the writer puts
// into cell number v of kind t.
func c17Shown(t string, v int) c17Disp {
	switch t {
	case "s", "sr", "is", "isr", "str":
		return c17Disp{"t", v}
	case "b":
		return c17Disp{"b", v % 2}
	case "e":
		return c17Disp{"e", v % 7}
	case "n", "fn":
		return c17Disp{"n", 1000 + v}
	}
	return c17Disp{"z", 0}
}

type c17Item struct {
	C, R int
	T    string
	V    int
}

func c17RandomSheet(rnd *rand.Rand, maxCells int, wide bool) (merges [][4]int, cells []c17Item) {
	var c0, r0 int
	switch k := rnd.Intn(4); {
	case k < 2 || !wide:
		c0, r0 = rnd.Intn(8), rnd.Intn(8)
	case k == 2:
		c0, r0 = 20+rnd.Intn(8), 5+rnd.Intn(8) // around Z/AA and 9/10
	default:
		c0, r0 = rnd.Intn(690), rnd.Intn(190)
	}
	w, h := 3+rnd.Intn(6), 3+rnd.Intn(6)
	clampC := func(c int) int {
		if c > 702 {
			return 702
		}
		return c
	}
	clampR := func(r int) int {
		if r > 200 {
			return 200
		}
		return r
	}
	overlap := func(a, b [4]int) bool { return !(a[2] < b[0] || b[2] < a[0] || a[3] < b[1] || b[3] < a[1]) }
	taken := map[[2]int]bool{}
	n := 1 + rnd.Intn(maxCells)
	maxC, maxR := 0, 0
	for len(cells) < n {
		c, r := clampC(c0+1+rnd.Intn(w+2)), clampR(r0+1+rnd.Intn(h+2))
		if wide && rnd.Intn(25) == 0 {
			c, r = 1+rnd.Intn(702), 1+rnd.Intn(200)
		}
		if taken[[2]int{c, r}] {
			if len(taken) >= (w+2)*(h+2) {
				break
			}
			continue
		}
		taken[[2]int{c, r}] = true
		if c > maxC {
			maxC = c
		}
		if r > maxR {
			maxR = r
		}
		cells = append(cells, c17Item{C: c, R: r, T: c17Kinds[rnd.Intn(len(c17Kinds))]})
	}
	// merged regions anywhere around the cells, and regions anchored on the last populated
	// row / column, reaching beyond the populated extent or lying entirely on its edge
	for k := rnd.Intn(5); k > 0; k-- {
		c1, r1 := c0+1+rnd.Intn(w), r0+1+rnd.Intn(h)
		switch rnd.Intn(4) {
		case 0:
			c1 = maxC
		case 1:
			r1 = maxR
		}
		m := [4]int{clampC(c1), clampR(r1), clampC(c1 + rnd.Intn(3)), clampR(r1 + rnd.Intn(3))}
		if m[0] == m[2] && m[1] == m[3] {
			continue
		}
		ok := true
		for _, o := range merges {
			if overlap(m, o) {
				ok = false
			}
		}
		if ok {
			merges = append(merges, m)
		}
	}
	// covered cells: half of them keep their (stale) value in the file, half are blank elements
	for i, it := range cells {
		for _, m := range merges {
			if it.C >= m[0] && it.C <= m[2] && it.R >= m[1] && it.R <= m[3] && !(it.C == m[0] && it.R == m[1]) && rnd.Intn(2) == 0 {
				cells[i].T = "z"
			}
		}
	}
	return merges, cells
}

func c17Record(i int, raw []byte) Result {
	var q struct {
		N     int  `json:"n"`
		Cells int  `json:"cells"`
		Wide  bool `json:"wide"`
		Refs  int  `json:"refs"`
		Salt  int  `json:"salt"`
	}
	if err := json.Unmarshal(raw, &q); err != nil {
		return fail("decode", "decode", err.Error(), nil)
	}
	rnd := newRand(int64(q.Salt)*7919 + 17)
	var events []Event
	// codec beyond ZZ
	for k := 0; k < q.Refs; k++ {
		idx := 703 + rnd.Intn(16384-702)
		row := 1 + rnd.Intn(1048576)
		if k%3 == 0 {
			idx, row = 1+rnd.Intn(16384), []int{1, 9, 10, 99, 100, 1048576}[rnd.Intn(6)]
		}
		letters := xlsx.IndexToColumn(idx - 1)
		ref := xlsx.CellRef(idx-1, row-1)
		col := []int{}
		for _, ch := range letters {
			col = append(col, int(ch-'A')+1)
		}
		digits := []int{}
		for _, ch := range strings.TrimPrefix(ref, letters) {
			digits = append(digits, int(ch-'0'))
		}
		pc, pr, err := xlsx.ParseCellRef(ref)
		if err != nil {
			pc, pr = -2, -2
		}
		if xlsx.ColumnToIndex(letters) != pc {
			pc = -3
		}
		events = append(events, Event{"event": "Ref", "idx": idx, "row": row, "col": col, "digits": digits, "back": pc + 1, "prow": pr + 1})
	}
	segs := 0
	for w := 0; w < q.N; w++ {
		reset := Event{"event": "Reset"}
		events = append(events, reset)
		segs++
		nsh := []int{1, 1, 1, 2, 2, 3}[rnd.Intn(6)]
		rowR := rnd.Intn(4) != 0
		sstRev := rnd.Intn(2) == 0
		wb := &ooxmlw.XWorkbook{Extras: rnd.Intn(2) == 0, InfraFirst: rnd.Intn(2) == 0,
			Sp: ooxmlw.Spelling{Rev: rnd.Intn(2) == 0, RelPrefix: []string{"r", "rel"}[rnd.Intn(2)], Single: rnd.Intn(2) == 0, Foreign: rnd.Intn(2) == 0,
				OpenClose: rnd.Intn(2) == 0, Gaps: rnd.Intn(2) == 0, Decl: []string{"std", "none", "bom"}[rnd.Intn(3)]}}
		v := 0
		var shared []ooxmlw.XSI
		type pend struct{ sh, row, cell int }
		var sharedAt, emptyAt []pend
		exps := make([][]c17Exp, nsh)
		covered := make([][]c17Pos, nsh)
		kinds := make([]map[c17Pos]string, nsh)
		mexp := make([][]c17Merge, nsh)
		stale := make([]map[c17Disp]bool, nsh)
		for s := 0; s < nsh; s++ {
			kinds[s] = map[c17Pos]string{}
			stale[s] = map[c17Disp]bool{}
			if s > 0 {
				events = append(events, Event{"event": "NewSheet"})
			}
			merges, cells := c17RandomSheet(rnd, q.Cells, q.Wide)
			rnd.Shuffle(len(cells), func(a, b int) { cells[a], cells[b] = cells[b], cells[a] })
			xs := ooxmlw.XSheet{Name: fmt.Sprintf("Sheet%d", s+1), SheetID: s + 1, RID: fmt.Sprintf("rId%d", s+1),
				PartName: fmt.Sprintf("xl/worksheets/sheet%d.xml", s+1), Target: fmt.Sprintf("worksheets/sheet%d.xml", s+1),
				DeclPos: s + 1, RelPos: s + 1, ZipPos: s + 1}
			for _, m := range merges {
				events = append(events, Event{"event": "Merge", "m": []int{m[0], m[1], m[2], m[3]}})
				xs.Merges = append(xs.Merges, xlsxRef(m[0], m[1])+":"+xlsxRef(m[2], m[3]))
				mexp[s] = append(mexp[s], c17Merge{Rect: []int{m[0], m[1], m[2], m[3]}, Rows: m[3] - m[1] + 1, Cols: m[2] - m[0] + 1})
				for c := m[0]; c <= m[2]; c++ {
					for r := m[1]; r <= m[3]; r++ {
						if c != m[0] || r != m[1] {
							covered[s] = append(covered[s], c17Pos{c, r})
						}
					}
				}
			}
			rowIdx := map[int]int{}
			for _, it := range cells {
				v++
				it.V = v
				events = append(events, Event{"event": "Write", "c": it.C, "r": it.R, "t": it.T, "v": it.V})
				d := c17Shown(it.T, it.V)
				kinds[s][c17Pos{it.C, it.R}] = it.T
				hidden := false
				for _, m := range merges {
					if it.C >= m[0] && it.C <= m[2] && it.R >= m[1] && it.R <= m[3] && !(it.C == m[0] && it.R == m[1]) {
						hidden = true
					}
				}
				if d.K != "z" && !hidden {
					exps[s] = append(exps[s], c17Exp{C: it.C, R: it.R, D: d})
				}
				if d.K != "z" && hidden {
					stale[s][d] = true
				}
				ri, ok := rowIdx[it.R]
				if !ok {
					ri = len(xs.Rows)
					rowIdx[it.R] = ri
					xs.Rows = append(xs.Rows, ooxmlw.XRow{R: it.R, HasR: rowR})
				}
				xc := ooxmlw.XCell{Ref: xlsxRef(it.C, it.R), Kind: it.T, Text: c17Content(d)}
				if it.T == "se" {
					emptyAt = append(emptyAt, pend{s, ri, len(xs.Rows[ri].Cells)})
				}
				if it.T == "s" || it.T == "sr" {
					shared = append(shared, ooxmlw.XSI{Text: c17Tok(it.V), Rich: it.T == "sr"})
					sharedAt = append(sharedAt, pend{s, ri, len(xs.Rows[ri].Cells)})
				}
				xs.Rows[ri].Cells = append(xs.Rows[ri].Cells, xc)
			}
			wb.Sheets = append(wb.Sheets, xs)
		}
		// shared string table: the items in a random order, with unused plain / rich items and
		// empty <si/> items in between; cells of kind se point at an empty item
		order := rnd.Perm(len(shared))
		slot := make([]int, len(shared))
		emptyIdx := -1
		pad := func() {
			switch rnd.Intn(4) {
			case 0:
				wb.SST = append(wb.SST, ooxmlw.XSI{Text: c17Tok(0), Rich: rnd.Intn(2) == 0})
			case 1:
				emptyIdx = len(wb.SST)
				wb.SST = append(wb.SST, ooxmlw.XSI{Empty: true})
			}
		}
		_ = sstRev
		for _, k := range order {
			pad()
			slot[k] = len(wb.SST)
			wb.SST = append(wb.SST, shared[k])
		}
		pad()
		if len(emptyAt) > 0 && emptyIdx < 0 {
			emptyIdx = len(wb.SST)
			wb.SST = append(wb.SST, ooxmlw.XSI{Empty: true})
		}
		for k, p := range sharedAt {
			wb.Sheets[p.sh].Rows[p.row].Cells[p.cell].SI = slot[k]
		}
		for _, p := range emptyAt {
			wb.Sheets[p.sh].Rows[p.row].Cells[p.cell].SI = emptyIdx
		}
		path, err := c17WriteFile(wb.Members(), ".xlsx")
		if err != nil {
			panic(err)
		}
		vw := c17Observe(path, exps)
		os.Remove(path)
		// not a verdict: only names the signature should TLC reject the segment
		if m := c17Check(vw, exps, covered, kinds, rowR, mexp, stale); m != nil {
			reset["hint"] = m.View + ":" + m.Symptom
		}
		for _, view := range []struct {
			name string
			obs  [][]c17Obs
		}{{"grid", vw.Grid}, {"tables", vw.Tables}, {"tsv", vw.Tsv}, {"md", vw.Md}, {"doc", vw.Doc}} {
			if view.name == "tables" && vw.Tables == nil {
				continue
			}
			if e, ok := vw.Err[view.name]; ok {
				events = append(events, Event{"event": "Error", "view": view.name, "msg": e})
				continue
			}
			for s := 0; s < nsh; s++ {
				for _, o := range view.obs[s] {
					events = append(events, Event{"event": "Obs", "view": view.name, "sh": s + 1, "x": o.X, "y": o.Y,
						"d": map[string]interface{}{"k": o.D.K, "v": o.D.V}, "raw": o.Raw})
				}
				events = append(events, Event{"event": "End", "view": view.name, "sh": s + 1, "n": len(view.obs[s])})
			}
			if view.name == "tsv" {
				for _, o := range vw.TsvExtra {
					events = append(events, Event{"event": "Obs", "view": "tsv", "sh": nsh + 1, "x": o.X, "y": o.Y,
						"d": map[string]interface{}{"k": o.D.K, "v": o.D.V}, "raw": o.Raw})
				}
			}
		}
		// merge metadata of the grid
		for s := 0; s < nsh && s < len(vw.Flags); s++ {
			roots := make([]c17Pos, 0, len(vw.Flags[s].Roots))
			for p := range vw.Flags[s].Roots {
				roots = append(roots, p)
			}
			sort.Slice(roots, func(a, b int) bool {
				return roots[a].R < roots[b].R || (roots[a].R == roots[b].R && roots[a].C < roots[b].C)
			})
			for _, p := range roots {
				sp := vw.Flags[s].Roots[p]
				events = append(events, Event{"event": "Span", "sh": s + 1, "c": p.C, "r": p.R, "rows": sp[0], "cols": sp[1]})
			}
			events = append(events, Event{"event": "Spans", "sh": s + 1, "n": len(roots)})
		}
		for _, a := range vw.Accessor {
			events = append(events, Event{"event": "Error", "view": "grid", "msg": a})
		}
	}
	return Result{OK: true, Events: events, Evals: segs * 4, Nontrivial: true, Key: "rec" + strconv.Itoa(i)}
}

// xlsxRef renders a reference for the record-mode generator with a private
// bijective base-26 routine (independent of the code under test).
func xlsxRef(c, r int) string {
	s := ""
	for n := c; n > 0; n = (n - 1) / 26 {
		s = string(rune('A'+(n-1)%26)) + s
	}
	return s + strconv.Itoa(r)
}
