package main

// C14 objects (ExportObj.tla): histories of calls on ONE set of objects - three
// rag.ChunkCollection receivers and one rag.Exporter, one rag.BatchExporter and one
// rag.StreamExporter built once and reused.  After every call the result is
// compared with what the specification says fresh objects return, and every
// receiver is compared with a deep snapshot taken before the history (same chunk
// pointers in the same order, same field values).
//
//	objects:    TLC-enumerated histories (input: one "colls" line, "callspec" lines
//	            with the fresh-object expectation per (configuration, call),
//	            "history" lines of call indices)
//	objrecord:  random longer histories, logged for ExportObjTrace.tla
//	concurrent: goroutines filtering / exporting one collection at the same time
//	            (meant to run under the race detector)

import (
	"bytes"
	"encoding/json"
	"fmt"
	"math/rand"
	"strings"
	"sync"

	"github.com/tsawler/tabula/rag"
)

type c14CallSpec struct {
	Kind    string     `json:"kind"`
	Call    int        `json:"call"`
	Xc      int        `json:"xc"`
	Xfmt    string     `json:"xfmt"`
	Xcfg    c14Cfg     `json:"xcfg"`
	Size    int        `json:"size"`
	Op      string     `json:"op"`
	K       int        `json:"k"`
	Preds   []c14Pred  `json:"preds"`
	App     bool       `json:"app"`
	Fmt     string     `json:"fmt"`
	Cfg     c14Cfg     `json:"cfg"`
	Sel     [][]string `json:"sel"`
	Batches []c14Batch `json:"batches"`
}

type c14ObjInput struct {
	Kind     string       `json:"kind"`
	Colls    [][]c14Chunk `json:"colls"`
	Lower    [][]string   `json:"lower"`
	Alphabet []string     `json:"alphabet"`
	Xc       int          `json:"xc"`
	Calls    []int        `json:"calls"`
}

// c14Objects is the set of objects that lives through one history.
type c14Objects struct {
	ccs    []*rag.ChunkCollection
	snapP  [][]*rag.Chunk // receiver slices as opened (pointer identity and order)
	snapV  [][]string     // deep value snapshot per chunk
	ex     *rag.Exporter
	bx     *rag.BatchExporter
	se     *rag.StreamExporter
	buf    *bytes.Buffer
	nwrite int
	xfmt   string
	xcfg   c14Cfg
}

func c14ChunkValue(c *rag.Chunk) string { return string(mustJSON(c)) }

func c14OpenObjects(colls [][]c14Chunk, xfmt string, xcfg c14Cfg, size int) *c14Objects {
	o := &c14Objects{xfmt: xfmt, xcfg: xcfg, buf: &bytes.Buffer{}}
	for _, cs := range colls {
		chunks := c14MakeChunks(cs)
		o.ccs = append(o.ccs, rag.NewChunkCollection(chunks))
		o.snapP = append(o.snapP, append([]*rag.Chunk{}, chunks...))
		var vs []string
		for _, c := range chunks {
			vs = append(vs, c14ChunkValue(c))
		}
		o.snapV = append(o.snapV, vs)
	}
	fields := c14FieldLists[xcfg.Fields]
	o.ex = rag.NewExporterWithConfig(c14ExportConfig(xfmt, xcfg, fields))
	o.bx = rag.NewBatchExporterWithConfig(size, c14ExportConfig(xfmt, xcfg, fields))
	scfg := xcfg
	scfg.Pretty = false
	o.se = rag.NewStreamExporterWithConfig(o.buf, c14ExportConfig("jsonl", scfg, fields))
	return o
}

// intact reports the first difference between a receiver and its snapshot.
func (o *c14Objects) intact() string {
	for k, cc := range o.ccs {
		if len(cc.Chunks) != len(o.snapP[k]) {
			return fmt.Sprintf("collection %d holds %d chunks, it held %d", k+1, len(cc.Chunks), len(o.snapP[k]))
		}
		for n, c := range cc.Chunks {
			if c != o.snapP[k][n] {
				id := "<nil>"
				if c != nil {
					id = c.ID
				}
				return fmt.Sprintf("collection %d holds chunk %q at position %d, it held %q there", k+1, id, n, o.snapP[k][n].ID)
			}
			if v := c14ChunkValue(c); v != o.snapV[k][n] {
				return fmt.Sprintf("chunk %q of collection %d changed: %s, was %s", c.ID, k+1, v, o.snapV[k][n])
			}
		}
	}
	return ""
}

// c14Observed is what a call returned, for the trace: the ids in order and the header row.
type c14Observed struct {
	IDs     []string
	Cols    []string
	HasCols bool
}

// call runs one call and compares it with the fresh-object expectation (spec may be nil in
// record mode: then only the observation is produced).
func (o *c14Objects) call(s *c14CallSpec) (obs c14Observed, clause, what string) {
	cc := o.ccs[s.K-1]
	check := func(f string, cfg c14Cfg, batches []c14Batch, data string) {
		if rec, hdr, err := c14ObserveDSVorJSON(f, cfg, data); err == nil {
			obs.IDs, obs.Cols, obs.HasCols = rec, hdr, hdr != nil
		}
		if batches != nil && clause == "" {
			if cl, _, w := c14CheckOutput(f, cfg, batches[0], data); cl != "" {
				clause, what = cl, w
			}
		}
	}
	switch s.Op {
	case "filter":
		cur := cc
		for _, p := range s.Preds {
			next, err := c14ApplyPred(cur, p)
			if err != nil {
				return obs, "decode", err.Error()
			}
			cur = next
		}
		obs.IDs = c14IDs(cur.Chunks)
		if s.Sel != nil {
			want := []string{}
			for _, x := range s.Sel {
				want = append(want, c14Render(x))
			}
			if !c14Same(obs.IDs, want) {
				clause, what = "filter", fmt.Sprintf("filter chain %s selects %q, the predicate holds exactly for %q", mustJSON(s.Preds), obs.IDs, want)
			}
		}
		if s.App {
			// the caller owns the result: appending to its slice must not reach the receiver
			cur.Chunks = append(cur.Chunks, &rag.Chunk{ID: "foreign"})
		}
	case "read":
		_ = cc.Statistics()
		_ = cc.GetAllSections()
		_, _ = cc.GetPageRange()
		_ = cc.GetTotalTokens()
		_ = cc.ToMarkdown()
		obs.IDs = c14IDs(cc.Chunks)
	case "conv":
		data, err := c14RunExport(s.Fmt, s.Cfg, nil, cc.Chunks, nil, true)
		if err != nil {
			return obs, "error", err.Error()
		}
		check(s.Fmt, s.Cfg, s.Batches, data)
	case "export":
		data, err := o.ex.ExportToString(cc.Chunks)
		if err != nil {
			return obs, "error", err.Error()
		}
		check(o.xfmt, o.xcfg, s.Batches, data)
	case "batch":
		var gs []rag.ExportBatch
		if err := o.bx.Export(cc.Chunks, func(b rag.ExportBatch) error { gs = append(gs, b); return nil }); err != nil {
			return obs, "error", err.Error()
		}
		obs.IDs = []string{}
		for n, g := range gs {
			ids, hdr, err := c14ObserveDSVorJSON(o.xfmt, o.xcfg, g.Data)
			if err == nil {
				obs.IDs = append(obs.IDs, ids...)
				if n == 0 {
					obs.Cols, obs.HasCols = hdr, hdr != nil
				}
			}
		}
		if s.Batches != nil {
			if len(gs) != len(s.Batches) {
				return obs, "batch-count", fmt.Sprintf("%d batches delivered, %d expected", len(gs), len(s.Batches))
			}
			for n, g := range gs {
				e := s.Batches[n]
				if g.BatchNumber != e.Number || g.StartIndex != e.Start || g.EndIndex != e.End || g.ChunkCount != e.End-e.Start {
					return obs, "batch-bookkeeping", fmt.Sprintf("batch %d: number/start/end/count %d/%d/%d/%d, expected %d/%d/%d/%d", n, g.BatchNumber, g.StartIndex, g.EndIndex, g.ChunkCount, e.Number, e.Start, e.End, e.End-e.Start)
				}
				if cl, _, w := c14CheckOutput(o.xfmt, o.xcfg, e, g.Data); cl != "" {
					return obs, "batch-" + cl, fmt.Sprintf("batch %d: %s", n, w)
				}
			}
		}
	case "stream":
		before := o.buf.Len()
		for _, ch := range cc.Chunks {
			if err := o.se.WriteChunk(ch, o.nwrite); err != nil {
				return obs, "error", err.Error()
			}
			o.nwrite++
		}
		scfg := o.xcfg
		scfg.Pretty = false
		check("jsonl", scfg, s.Batches, o.buf.String()[before:])
		obs.Cols, obs.HasCols = nil, false
	default:
		return obs, "decode", "unknown op " + s.Op
	}
	if obs.IDs == nil {
		obs.IDs = []string{}
	}
	return obs, clause, what
}

// c14ObserveDSVorJSON parses an export far enough to see the ids in order and the header row.
func c14ObserveDSVorJSON(f string, cfg c14Cfg, data string) ([]string, []string, error) {
	ids := []string{}
	if c14IsDSV(f) {
		delim := byte(',')
		if f == "tsv" {
			delim = '\t'
		}
		rows, err := c14ReadDSV([]byte(data), delim)
		if err != nil {
			return nil, nil, err
		}
		var hdr []string
		if cfg.Header {
			if len(rows) == 0 {
				return nil, nil, fmt.Errorf("header row missing")
			}
			hdr, rows = rows[0], rows[1:]
		}
		for _, r := range rows {
			if len(r) > 0 {
				ids = append(ids, r[0])
			}
		}
		return ids, hdr, nil
	}
	obs, err := c14ParseJSONFamily(f, cfg.Pretty, data)
	if err != nil {
		return nil, nil, err
	}
	for _, o := range obs {
		if s, ok := o.Top["id"].(string); ok {
			ids = append(ids, s)
		}
	}
	return ids, nil, nil
}

func c14CallLabel(s *c14CallSpec) string {
	switch s.Op {
	case "filter":
		ks := []string{}
		for _, p := range s.Preds {
			ks = append(ks, p.K)
		}
		l := fmt.Sprintf("filter(%d,%s", s.K, strings.Join(ks, "+"))
		if s.App {
			l += ",append"
		}
		return l + ")"
	case "conv":
		return fmt.Sprintf("To%s(%d)", strings.ToUpper(s.Fmt), s.K)
	}
	return fmt.Sprintf("%s(%d)", s.Op, s.K)
}

func c14ObjectsMode(in, out string) error {
	var colls [][]c14Chunk
	specs := map[[2]int]*c14CallSpec{}
	tableErr := ""
	if err := readLines(in, func(i int, raw []byte) error {
		var h struct {
			Kind string `json:"kind"`
		}
		json.Unmarshal(raw, &h)
		switch h.Kind {
		case "colls":
			var c c14ObjInput
			if err := json.Unmarshal(raw, &c); err != nil {
				return err
			}
			colls = c.Colls
			tableErr = c14CheckCaseTable(c.Lower, c.Alphabet)
		case "callspec":
			var s c14CallSpec
			if err := json.Unmarshal(raw, &s); err != nil {
				return err
			}
			specs[[2]int{s.Xc, s.Call}] = &s
		}
		return nil
	}); err != nil {
		return err
	}
	if colls == nil || len(specs) == 0 {
		return fmt.Errorf("c14 objects: no collections / call specifications in the input")
	}
	return runCases(in, out, func(i int, raw []byte) Result {
		var h c14ObjInput
		if err := json.Unmarshal(raw, &h); err != nil {
			return fail("decode", "decode", err.Error(), nil)
		}
		if h.Kind != "history" {
			if h.Kind == "colls" && tableErr != "" {
				return fail("table", "table", "case table of Export.tla: "+tableErr, nil)
			}
			return Result{OK: true}
		}
		first := specs[[2]int{h.Xc, h.Calls[0]}]
		if first == nil {
			return fail("decode", "decode", "history without call specification", nil)
		}
		o := c14OpenObjects(colls, first.Xfmt, first.Xcfg, first.Size)
		r := Result{OK: true, Nontrivial: len(h.Calls) >= 2, Key: fmt.Sprintf("obj/%d/%v", h.Xc, h.Calls)}
		var done []string
		for _, ci := range h.Calls {
			s := specs[[2]int{h.Xc, ci}]
			if s == nil {
				return fail("decode", "decode", "history without call specification", nil)
			}
			r.Evals++
			_, clause, what := o.call(s)
			label := c14CallLabel(s)
			bad := func(cl, sig, w string) Result {
				x := fail(cl, sig, w, map[string]interface{}{"case": json.RawMessage(raw), "colls": colls, "config": first.Xfmt, "calls": append(append([]string{}, done...), label)})
				x.Nontrivial, x.Key, x.Evals = r.Nontrivial, r.Key, r.Evals
				return x
			}
			if clause == "decode" {
				return fail("decode", "decode", what, nil)
			}
			if clause != "" {
				// the same call on fresh objects tells a plain defect from a purity defect
				fresh := c14OpenObjects(colls, first.Xfmt, first.Xcfg, first.Size)
				if _, fc, _ := fresh.call(s); fc == "" && len(done) > 0 {
					return bad("impure", "C14:impure:"+s.Op+":"+clause, fmt.Sprintf("%s after %v on the same objects (exporter configuration %s): %s; fresh objects return the expected result", label, done, first.Xfmt, what))
				}
				return bad(clause, "C14:object:"+s.Op+":"+clause, fmt.Sprintf("%s: %s", label, what))
			}
			if why := o.intact(); why != "" {
				return bad("receiver", "C14:receiver:"+s.Op, fmt.Sprintf("%s changed its receiver (or another collection): %s", label, why))
			}
			done = append(done, label)
		}
		return r
	})
}

// ---------------------------------------------------------------- objrecord

func c14ObjRecord(in, out string) error {
	type req struct {
		N   int `json:"n"`
		Len int `json:"len"`
	}
	return runCases(in, out, func(i int, raw []byte) Result {
		var q req
		if err := json.Unmarshal(raw, &q); err != nil {
			return fail("decode", "decode", err.Error(), nil)
		}
		rnd := newRand(int64(i)*32452843 + 1414)
		// the collections of this session (one trace file): different sizes and metadata key sets
		colls := [][]c14Chunk{c14RandChunks(rnd, 6), c14RandChunks(rnd, 4), c14RandChunks(rnd, 2)}
		for k := range colls {
			for n := range colls[k] {
				colls[k][n].Text = c14FilterText(rnd, false)
				colls[k][n].Section = [][]string{{}, {"w1"}, {"w2"}, {"w3"}}[rnd.Intn(4)]
				colls[k][n].Path = [][][]string{{}, {{"w1"}}, {{"w1"}, {"w2"}}, {{"w3"}}}[rnd.Intn(4)]
				if k == 2 { // the small collection carries almost no optional metadata
					c := &colls[k][n]
					c.Path, c.Etypes, c.Children, c.Parent = [][]string{}, []string{}, [][]string{}, []string{}
					c.Hlevel, c.Total, c.Chars, c.Words, c.Tokens = 0, 0, 0, 0, 0
				}
			}
		}
		type xf struct {
			f   string
			cfg c14Cfg
		}
		def := func(f string) c14Cfg {
			return c14Cfg{Text: true, Meta: true, Fields: "all", Flatten: c14IsDSV(f), Header: true, Pretty: f == "json", Idcol: "chunk_id", Emb: true}
		}
		noh := def("tsv")
		noh.Header = false
		xfs := []xf{{"csv", def("csv")}, {"jsonl", def("jsonl")}, {"tsv", noh}, {"json", def("json")}}
		size := 1 + rnd.Intn(3)
		var xfmts []interface{}
		for _, x := range xfs {
			xfmts = append(xfmts, []interface{}{x.f, x.cfg})
		}
		events := []Event{{"event": "Open", "colls": colls, "xfmts": xfmts, "size": size}}
		evals := 0
		for s := 0; s < q.N; s++ {
			xc := rnd.Intn(len(xfs))
			events = append(events, Event{"event": "Reset", "xc": xc + 1})
			o := c14OpenObjects(colls, xfs[xc].f, xfs[xc].cfg, size)
			for c := 0; c < q.Len; c++ {
				sp := &c14CallSpec{Op: []string{"filter", "filter", "conv", "read", "export", "export", "batch", "stream"}[rnd.Intn(8)],
					K: 1 + rnd.Intn(3), Preds: []c14Pred{}, Fmt: "jsonl", Cfg: def("jsonl")}
				switch sp.Op {
				case "filter":
					for n := 1 + rnd.Intn(2); n > 0; n-- {
						sp.Preds = append(sp.Preds, c14RandPred(rnd, false))
					}
					sp.App = rnd.Intn(2) == 0
				case "conv":
					sp.Fmt = []string{"jsonl", "json", "csv", "tsv"}[rnd.Intn(4)]
					sp.Cfg = def(sp.Fmt)
				}
				evals++
				obs, clause, what := o.call(sp)
				ev := Event{"event": "Call", "op": sp.Op, "k": sp.K, "preds": sp.Preds, "app": sp.App, "fmt": sp.Fmt, "cfg": sp.Cfg}
				if clause != "" {
					ev["err"] = clause + ": " + what
					events = append(events, ev)
					continue
				}
				tok := func(ss []string) [][]string {
					out := [][]string{}
					for _, x := range ss {
						out = append(out, c14Tokenize(x))
					}
					return out
				}
				ev["ids"] = tok(obs.IDs)
				ev["hascols"] = obs.HasCols
				cols := obs.Cols
				if cols == nil {
					cols = []string{}
				}
				ev["cols"] = cols
				why := o.intact()
				ev["intact"] = why == ""
				if why != "" {
					ev["why"] = why
				}
				var recv [][][]string
				for _, cc := range o.ccs {
					recv = append(recv, tok(c14IDs(cc.Chunks)))
				}
				ev["recv"] = recv
				events = append(events, ev)
			}
		}
		return Result{OK: true, Events: events, Evals: evals}
	})
}

// --------------------------------------------------------------- concurrent

// c14Concurrent: several goroutines filter, search, read and export ONE collection at the
// same time; every result must be the sequential one.  Data races are reported by the race
// detector the driver is built with for this mode.
func c14Concurrent(in, out string) error {
	return runCasesSerial(in, out, func(i int, raw []byte) Result {
		var q struct {
			Goroutines int `json:"goroutines"`
			Rounds     int `json:"rounds"`
		}
		if err := json.Unmarshal(raw, &q); err != nil {
			return fail("decode", "decode", err.Error(), nil)
		}
		rnd := rand.New(rand.NewSource(seed()*7 + int64(i)))
		cs := c14RandChunks(rnd, 8)
		for n := range cs {
			cs[n].Text = c14FilterText(rnd, false)
		}
		cc := rag.NewChunkCollection(c14MakeChunks(cs))
		type op func() string
		ops := []op{
			func() string { return strings.Join(c14IDs(cc.FilterWithTables().Chunks), ",") },
			func() string { return strings.Join(c14IDs(cc.Search("alfa").FilterByMaxTokens(6).Chunks), ",") },
			func() string { return strings.Join(c14IDs(cc.FilterByPageRange(1, 3).Chunks), ",") },
			func() string {
				r := cc.FilterWithLists()
				r.Chunks = append(r.Chunks, &rag.Chunk{ID: "foreign"})
				return strings.Join(c14IDs(r.Chunks), ",")
			},
			func() string { s, _ := cc.ToJSONL(); return s },
			func() string { s, _ := cc.ToCSV(); return s },
			func() string { return fmt.Sprint(cc.Statistics()) + cc.ToMarkdown() },
		}
		want := make([]string, len(ops))
		for n, f := range ops {
			want[n] = f()
		}
		var wg sync.WaitGroup
		var mu sync.Mutex
		bad := ""
		for g := 0; g < q.Goroutines; g++ {
			wg.Add(1)
			go func(g int) {
				defer wg.Done()
				for r := 0; r < q.Rounds; r++ {
					n := (g + r) % len(ops)
					if got := ops[n](); got != want[n] {
						mu.Lock()
						bad = fmt.Sprintf("operation %d run concurrently returned %q, sequentially %q", n, got, want[n])
						mu.Unlock()
					}
				}
			}(g)
		}
		wg.Wait()
		if bad != "" {
			return fail("concurrent", "C14:concurrent:result", bad, map[string]interface{}{"chunks": cs})
		}
		return Result{OK: true, Evals: q.Goroutines * q.Rounds, Nontrivial: true, Key: fmt.Sprintf("conc/%d", i)}
	})
}
