package main

// C15 — Markdown.tla / DocModel.tla binding.
//
// replay: every case of MarkdownMC (tables <= 3x3 over the cell alphabet with
//   merged cells, the heading arithmetic, list shapes, combined documents) is
//   (1) used to validate the harness's GFM reader on the spec's own reference
//       rendering (a mismatch is a machinery failure, not a verdict), and
//   (2) materialised for every Markdown writer of tabula that can express it
//       (model.Table, rag document pipeline, rag chunk, htmldoc, layout.Heading,
//       layout.List, and DOCX/ODT/XLSX/PPTX through generated container files);
//       the Markdown is parsed back and compared with the structure the spec
//       expects.
// record: random larger documents; one Md event per element and writer with the
//   parsed-back block, validated by MarkdownTrace.tla.

import (
	"bytes"
	"crypto/sha1"
	"encoding/hex"
	"encoding/json"
	"fmt"
	"strings"
)

func init() { handlers["c15"] = c15 }

// ------------------------------------------------------------- case shapes

type c15SrcCell struct {
	Raw     string `json:"raw"`
	Kind    string `json:"kind"`
	Covered bool   `json:"covered"`
	Absent  bool   `json:"absent"` // the row is shorter in the source: no cell at this position
	Rs      int    `json:"rs"`
	Cs      int    `json:"cs"`
}

type c15El struct {
	T       string         `json:"t"`
	Nr      int            `json:"nr"`
	Nc      int            `json:"nc"`
	Hdr     bool           `json:"hdr"`
	Hm      string         `json:"hm"`    // header marking of the source: none first lead2 lead3 mid all
	Hrows   []int          `json:"hrows"` // the (1-based) rows the source marks as header rows
	Merged  bool           `json:"merged"`
	Src     [][]c15SrcCell `json:"src"`
	Special bool           `json:"special"`
	Level   int            `json:"level"`
	W       string         `json:"w"`
	Items   []c15Item      `json:"items"`
	Uniform bool           `json:"uniform"`
	Ragged  bool           `json:"ragged"` // rows with differing numbers of cells
	Nav     bool           `json:"nav"`    // the element sits inside a <nav> block (history documents)
}

type c15GridCell struct {
	Free  bool     `json:"free"`
	Words []string `json:"words"`
}

type c15Exp struct {
	T     string          `json:"t"`
	Grid  [][]c15GridCell `json:"grid"`
	Level int             `json:"level"`
	S     string          `json:"s"`
	Items []c15Item       `json:"items"`
}

type c15Case struct {
	Writer string   `json:"writer"` // which writer this run drives ("ref": reader validation only)
	Kind   string   `json:"kind"`
	Off    int      `json:"off"`
	Mx     int      `json:"mx"`
	Meta   bool     `json:"meta"`
	Toc    bool     `json:"toc"`
	Els    []c15El  `json:"els"`
	Exp    []c15Exp `json:"exp"`
	Ref    []string `json:"ref"`
}

// ------------------------------------------------------------- comparison

type c15Mismatch struct {
	Clause  string // table-missing table-rows table-cols table-cell heading-missing heading-level list-missing list-order list-depth list-kind text-lost
	Feature string
	What    string
}

func c15SameWords(a, b []string) bool {
	if len(a) != len(b) {
		return false
	}
	for i := range a {
		if a[i] != b[i] {
			return false
		}
	}
	return true
}

// c15HasWord: text carries the word w (as a field of its own, possibly wrapped in
// Markdown punctuation such as **w**, [w](..), "w:").
func c15HasWord(text, w string) bool {
	for _, f := range strings.FieldsFunc(text, func(r rune) bool {
		return r == ' ' || r == '\t' || r == '[' || r == ']' || r == '(' || r == ')' || r == '*' || r == '_' || r == ':' || r == '#'
	}) {
		if f == w {
			return true
		}
	}
	return false
}

// c15TableFeature names the minimal abstract feature behind a table mismatch:
// an unescaped '|' of a cell text visible in the output, else the kind of the
// mismatching cell, else the merge.
func c15TableFeature(el *c15El, r, c int, md string) string {
	if el == nil {
		return "shape"
	}
	for _, row := range el.Src {
		for _, cell := range row {
			if cell.Kind == "pipe" && !cell.Covered && strings.Contains(md, strings.TrimSpace(cell.Raw)) {
				return "pipe"
			}
		}
	}
	if el.Ragged {
		return "ragged"
	}
	if el.Merged {
		return "merged"
	}
	if r >= 0 && r < len(el.Src) && c >= 0 && c < len(el.Src[r]) && el.Src[r][c].Kind != "plain" {
		return el.Src[r][c].Kind
	}
	return "shape"
}

// c15MatchTable compares a parsed table with the expected grid.
func c15MatchTable(e c15Exp, el *c15El, g c15Block, md string) *c15Mismatch {
	if len(g.Rows) != len(e.Grid) {
		f := c15TableFeature(el, -1, -1, md)
		if el != nil && !el.Hdr && f != "pipe" && len(g.Rows) == len(e.Grid)+1 {
			f = "headerless"
		}
		return &c15Mismatch{"table-rows", f, fmt.Sprintf("table reads back with %d rows, the source has %d", len(g.Rows), len(e.Grid))}
	}
	for r := range e.Grid {
		if len(g.Rows[r]) != len(e.Grid[r]) {
			return &c15Mismatch{"table-cols", c15TableFeature(el, r, -1, md), fmt.Sprintf("row %d reads back with %d cells, the source has %d columns", r+1, len(g.Rows[r]), len(e.Grid[r]))}
		}
	}
	for r := range e.Grid {
		for c := range e.Grid[r] {
			if e.Grid[r][c].Free {
				continue
			}
			if !c15SameWords(g.Rows[r][c], e.Grid[r][c].Words) {
				return &c15Mismatch{"table-cell", c15TableFeature(el, r, c, md), fmt.Sprintf("cell (%d,%d) reads back as %q, the source cell is %q", r+1, c+1, strings.Join(g.Rows[r][c], " "), strings.Join(e.Grid[r][c].Words, " "))}
			}
		}
	}
	return nil
}

// c15FirstWord is the first word of the first bound non-empty cell, by which a
// table is located in the output.
func c15FirstWord(e c15Exp) string {
	for _, row := range e.Grid {
		for _, c := range row {
			if !c.Free && len(c.Words) > 0 {
				return c.Words[0]
			}
		}
	}
	return ""
}

// c15Strict compares the parsed blocks with the expected ones one to one (used
// for the spec's reference rendering).
func c15Strict(exp []c15Exp, got []c15Block) string {
	if len(exp) != len(got) {
		return fmt.Sprintf("%d blocks read, %d expected", len(got), len(exp))
	}
	for i, e := range exp {
		g := got[i]
		if g.T != e.T {
			return fmt.Sprintf("block %d is %s, expected %s", i, g.T, e.T)
		}
		switch e.T {
		case "table":
			if m := c15MatchTable(e, nil, g, ""); m != nil {
				return m.What
			}
		case "heading":
			if g.Level != e.Level || g.S != e.S {
				return fmt.Sprintf("heading %q level %d, expected %q level %d", g.S, g.Level, e.S, e.Level)
			}
		case "list":
			if string(mustJSON(g.Items)) != string(mustJSON(e.Items)) {
				return fmt.Sprintf("list items %s, expected %s", mustJSON(g.Items), mustJSON(e.Items))
			}
		case "para":
			if g.S != e.S {
				return fmt.Sprintf("paragraph %q, expected %q", g.S, e.S)
			}
		}
	}
	return ""
}

// c15Find locates every expected block in the parsed output by its words and
// compares the structure; blocks the writer adds (titles, tables of contents,
// separators, page references) are ignored.  only: restrict to these element
// indices (nil = all).
func c15Find(c *c15Case, md string, only map[int]bool) *c15Mismatch {
	blocks := c15ReadMd(md)
	plain := strings.ReplaceAll(md, "\\|", "|")
	// every occurrence of a word in the source must be in the output: the n-th element that
	// carries a word needs at least n occurrences of it
	needed := map[string]int{}
	lost := func(w string) *c15Mismatch {
		if w == "" {
			return nil
		}
		needed[w]++
		if have := strings.Count(plain, w); have < needed[w] {
			if have == 0 {
				return &c15Mismatch{"text-lost", "", fmt.Sprintf("the word %q of the source is not in the Markdown output", w)}
			}
			return &c15Mismatch{"text-lost", "repeat", fmt.Sprintf("the word %q occurs %d times in the source elements rendered so far but only %d times in the Markdown output", w, needed[w], have)}
		}
		return nil
	}
	// headings are matched in document order: the n-th source heading with a given text is the
	// n-th ATX heading with that text (equal heading texts may repeat in a document)
	hfrom := 0
	hwant := map[string]int{}
	for n, e := range c.Exp {
		if e.T == "heading" && (only == nil || only[n]) {
			hwant[e.S]++
		}
	}
	from := 0
	for n, e := range c.Exp {
		if only != nil && !only[n] {
			continue
		}
		el := &c.Els[n]
		switch e.T {
		case "para":
			if m := lost(e.S); m != nil {
				return m
			}
		case "heading":
			if m := lost(e.S); m != nil {
				return m
			}
			found := -1
			for i := hfrom; i < len(blocks); i++ {
				if blocks[i].T == "heading" && c15HasWord(blocks[i].S, e.S) {
					found = i
					break
				}
			}
			feat := c15HeadingFeature(c, el)
			if hwant[e.S] > 1 {
				feat = "repeat"
			}
			if found >= 0 {
				hfrom = found + 1
			}
			if found < 0 {
				return &c15Mismatch{"heading-missing", feat, fmt.Sprintf("heading %q (source level %d, offset %d, max %d) is not an ATX heading of level 1..6 in the output", e.S, el.Level, c.Off, c.Mx)}
			}
			if blocks[found].Level != e.Level {
				return &c15Mismatch{"heading-level", feat, fmt.Sprintf("heading %q comes out at level %d; source level %d with offset %d and max %d gives %d", e.S, blocks[found].Level, el.Level, c.Off, c.Mx, e.Level)}
			}
		case "list":
			for _, it := range e.Items {
				if m := lost(it.W); m != nil {
					return m
				}
			}
			bi, ii := -1, -1
			for i, b := range blocks {
				if b.T != "list" {
					continue
				}
				for j, it := range b.Items {
					if strings.HasPrefix(strings.TrimSpace(it.W), "[") {
						continue // an entry of a table of contents, not a source item
					}
					if c15HasWord(it.W, e.Items[0].W) {
						bi, ii = i, j
						break
					}
				}
				if bi >= 0 {
					break
				}
			}
			if bi < 0 {
				return &c15Mismatch{"list-missing", "", fmt.Sprintf("list item %q is not a list item in the output", e.Items[0].W)}
			}
			got := blocks[bi].Items[ii:]
			base := got[0].D
			for j, it := range e.Items {
				if j >= len(got) || !c15HasWord(got[j].W, it.W) {
					// is it somewhere else?
					return &c15Mismatch{"list-order", c15ListFeature(e.Items), fmt.Sprintf("list item %d (%q) does not follow its predecessor in the same list: items read back %s", j+1, it.W, mustJSON(got))}
				}
				if got[j].D-base != it.D {
					return &c15Mismatch{"list-depth", c15ListFeature(e.Items), fmt.Sprintf("list item %q reads back at depth %d, the source depth is %d", it.W, got[j].D-base, it.D)}
				}
				if got[j].K != it.K {
					return &c15Mismatch{"list-kind", c15ListFeature(e.Items), fmt.Sprintf("list item %q reads back as %s, the source item is %s", it.W, c15KindName(got[j].K), c15KindName(it.K))}
				}
			}
		case "table":
			for r, row := range e.Grid {
				for cc, cell := range row {
					if cell.Free {
						continue
					}
					for _, w := range cell.Words {
						if m := lost(w); m != nil {
							m.Feature = el.Src[r][cc].Kind
							return m
						}
					}
				}
			}
			w := c15FirstWord(e)
			found := -1
			for i := from; i < len(blocks); i++ {
				if blocks[i].T != "table" {
					continue
				}
				if w == "" {
					found = i
					break
				}
				for _, row := range blocks[i].Rows {
					for _, cell := range row {
						for _, x := range cell {
							if x == w || strings.Contains(x, w) {
								found = i
							}
						}
					}
				}
				if found >= 0 {
					break
				}
			}
			if found < 0 {
				return &c15Mismatch{"table-missing", c15TableFeature(el, -1, -1, md), "the table does not come out as a pipe table a GFM parser recognises (header row and delimiter row with the same number of cells)"}
			}
			from = found + 1
			if m := c15MatchTable(e, el, blocks[found], md); m != nil {
				return m
			}
		}
	}
	// count preserved: no source heading comes out twice
	for w, want := range hwant {
		got := 0
		for _, b := range blocks {
			if b.T == "heading" && c15HasWord(b.S, w) {
				got++
			}
		}
		if got > want {
			return &c15Mismatch{"heading-extra", "repeat", fmt.Sprintf("%d ATX headings carry the text %q, the source has %d", got, w, want)}
		}
	}
	return nil
}

func c15KindName(k string) string {
	if k == "o" {
		return "ordered"
	}
	return "unordered"
}

func c15HeadingFeature(c *c15Case, el *c15El) string {
	switch {
	case el.Level+c.Off > c.Mx || el.Level+c.Off > 6:
		return "max"
	case el.Level+c.Off < 1:
		return "min"
	case c.Off != 0:
		return "offset"
	}
	return "plain"
}

func c15ListFeature(items []c15Item) string {
	mixed, nested, ordered := false, false, false
	for _, it := range items {
		if it.K != items[0].K {
			mixed = true
		}
		if it.D > 0 {
			nested = true
		}
		if it.K == "o" {
			ordered = true
		}
	}
	switch {
	case mixed:
		return "mixed"
	case nested && ordered:
		return "nested-ordered"
	case nested:
		return "nested"
	case ordered:
		return "ordered"
	}
	return "flat"
}

// ------------------------------------------------------------------ replay

func c15Nontrivial(c *c15Case) bool {
	for _, el := range c.Els {
		if el.T == "table" && el.Special {
			return true
		}
		if el.T == "heading" && c.Off != 0 {
			return true
		}
		if el.T == "list" {
			for _, it := range el.Items {
				if it.D > 0 {
					return true
				}
			}
		}
	}
	return false
}

func c15Sig(writer string, m *c15Mismatch) string {
	s := "C15:" + m.Clause + ":" + writer
	if m.Feature != "" {
		s += ":" + m.Feature
	}
	return s
}

func c15ReplayCase(i int, raw []byte) Result {
	var c c15Case
	// ~u is the spec's ASCII marker for U+00E9 (TLC prints ASCII only)
	if err := json.Unmarshal(bytes.ReplaceAll(raw, []byte("~u"), []byte("\u00e9")), &c); err != nil {
		return fail("decode", "decode", err.Error(), nil)
	}
	h := sha1.Sum(raw)
	r := Result{OK: true, Nontrivial: c15Nontrivial(&c), Key: hex.EncodeToString(h[:8])}
	// (1) the reader on the spec's reference rendering
	if c.Writer == "ref" {
		if why := c15Strict(c.Exp, c15ReadMd(strings.Join(c.Ref, "\n"))); why != "" {
			return fail("reader", "reader", "GFM reader disagrees with Markdown.tla on the reference rendering: "+why+"\n"+strings.Join(c.Ref, "\n"), map[string]interface{}{"case": json.RawMessage(raw)})
		}
		r.Nontrivial = false
		return r
	}
	// (2) the writer, through every entry point that can express the case
	for _, out := range c15RunWriter(&c, c.Writer) {
		r.Evals++
		if out.Err != nil {
			x := fail("error", "C15:error:"+out.Writer, out.Writer+" returned an error: "+out.Err.Error(), map[string]interface{}{"case": json.RawMessage(raw), "writer": out.Writer})
			x.Nontrivial, x.Key = r.Nontrivial, r.Key
			return x
		}
		if m := c15Find(&c, out.Md, out.Only); m != nil {
			x := fail(m.Clause, c15Sig(out.Writer, m), out.Writer+": "+m.What, map[string]interface{}{"case": json.RawMessage(raw), "writer": out.Writer, "input": out.Input, "observed": out.Md})
			x.Nontrivial, x.Key = r.Nontrivial, r.Key
			x.Evals = r.Evals
			return x
		}
	}
	return r
}

func c15(mode, in, out string) error {
	switch mode {
	case "replay":
		return runCases(in, out, c15ReplayCase)
	case "history":
		return runCases(in, out, c15HistoryCase)
	case "histrecord":
		return c15HistRecord(in, out)
	case "record":
		return c15Record(in, out)
	}
	return fmt.Errorf("c15: unknown mode %s", mode)
}
