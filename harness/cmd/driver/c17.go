package main

// C17 — Sheet.tla / SheetRef.tla binding.
//
// codec   : every TLC-emitted conversion (index <-> letters, reference, range) is
//           put to xlsx.ColumnToIndex / IndexToColumn / CellRef / ParseCellRef /
//           ParseRangeRef.
// replay  : every TLC-emitted workbook (file layout + expected displayed cells) is
//           rendered by ooxmlw, written to a scratch file and read through
//           xlsx.Open (grid, Cell, CellByRef), tabula.Open(f).Text() (TSV),
//           .ToMarkdown() (table) and .Document() (model table).
// record  : larger random workbooks (A..ZZ x 1..200) are written and read the same
//           way; items and observations are logged for SheetTrace.tla.
// selftest: writes sample packages for the python zipfile / xml.etree cross-check.
//
// Go renders (tokens -> strings, letters -> 'A'..'Z') and projects (strings ->
// abstract values, text/markdown/model -> cell positions). Expected cells come
// from the spec; the only arithmetic here is the translation of a view (content
// box) that the contract leaves free, derived from the observed minimum.

import (
	"crypto/sha1"
	"encoding/hex"
	"encoding/json"
	"fmt"
	"os"
	"path/filepath"
	"regexp"
	"sort"
	"strconv"
	"strings"

	tabula "github.com/tsawler/tabula"
	"github.com/tsawler/tabula/model"
	"github.com/tsawler/tabula/xlsx"

	"verif/internal/ooxmlw"
)

func init() { handlers["c17"] = c17 }

func c17(mode, in, out string) error {
	switch mode {
	case "codec":
		return runCases(in, out, c17Codec)
	case "replay":
		return runCases(in, out, c17Replay)
	case "record":
		return runCases(in, out, c17Record)
	case "selftest":
		return runCasesSerial(in, out, c17SelfTest)
	case "history":
		return runCases(in, out, c17HistoryCase)
	case "histrecord":
		return runCases(in, out, c17HistRecord)
	}
	return fmt.Errorf("c17: unknown mode %q", mode)
}

// ------------------------------------------------------------ abstract case

type c17Ref struct {
	Col []int `json:"col"`
	Row []int `json:"row"`
}

type c17Disp struct {
	K string `json:"k"`
	V int    `json:"v"`
}

type c17CellOut struct {
	C   int     `json:"c"`
	R   int     `json:"r"`
	T   string  `json:"t"`
	V   int     `json:"v"`
	SI  int     `json:"si"`
	Ref c17Ref  `json:"ref"`
	D   c17Disp `json:"d"`
}

type c17Row struct {
	R     int          `json:"r"`
	HasR  bool         `json:"hasR"`
	Cells []c17CellOut `json:"cells"`
}

type c17Merge struct {
	Rect []int `json:"rect"` // c1, r1, c2, r2 (1-based)
	Rows int   `json:"rows"` // span of the region, computed by the spec
	Cols int   `json:"cols"`
	Ref  struct {
		From c17Ref `json:"from"`
		To   c17Ref `json:"to"`
	} `json:"ref"`
}

type c17Exp struct {
	C int     `json:"c"`
	R int     `json:"r"`
	D c17Disp `json:"d"`
}

type c17Pos struct {
	C int `json:"c"`
	R int `json:"r"`
}

type c17Sheet struct {
	Rows    []c17Row   `json:"rows"`
	Merges  []c17Merge `json:"merges"`
	Cells   []c17Exp   `json:"cells"`
	Covered []c17Pos   `json:"covered"`
}

type c17SI struct {
	V     int  `json:"v"`
	Rich  bool `json:"rich"`
	Empty bool `json:"empty"`
}

type c17Case struct {
	Off    []int      `json:"off"`
	Rot    int        `json:"rot"`
	RowR   bool       `json:"rowR"`
	SstRev bool       `json:"sstRev"`
	SST    []c17SI    `json:"sst"`
	Sheets []c17Sheet `json:"sheets"`
	Xml    c17Xml     `json:"xml"` // spelling of workbook.xml, relationships and cell attributes
	// ValSp: the value alphabet of the string cells (a special character after the token)
	ValSp string `json:"valsp"`
}

// the special piece of a string value: token + special + "z"
var c17Specials = map[string]string{"none": "", "": "", "pipe": "|z", "bslash": "\\z", "star": "*z", "under": "_z", "tick": "`z", "lt": "<z", "nl": "\nz"}

// c17ApplyAlphabet rewrites the abstract string values of a decoded case: kind "t" becomes
// "t:<suffix>", which c17Content renders and c17Project recognises.
func (c *c17Case) applyAlphabet() {
	suf := c17Specials[c.ValSp]
	if suf == "" {
		return
	}
	fix := func(d *c17Disp) {
		if d.K == "t" {
			d.K = "t:" + suf
		}
	}
	for s := range c.Sheets {
		for i := range c.Sheets[s].Cells {
			fix(&c.Sheets[s].Cells[i].D)
		}
		for r := range c.Sheets[s].Rows {
			for k := range c.Sheets[s].Rows[r].Cells {
				fix(&c.Sheets[s].Rows[r].Cells[k].D)
			}
		}
	}
}

type c17Xml struct {
	Rev     bool   `json:"rev"`
	Prefix  string `json:"prefix"`
	Single  bool   `json:"single"`
	Foreign bool   `json:"foreign"`
	OC      bool   `json:"oc"`
	Gaps    bool   `json:"gaps"`
	Decl    string `json:"decl"`
}

// ------------------------------------------------------------ rendering

var c17Errors = []string{"#DIV/0!", "#N/A", "#NAME?", "#NULL!", "#NUM!", "#REF!", "#VALUE!"}

func c17Tok(v int) string { return fmt.Sprintf("w%03d", v) }

func c17Letters(l []int) string {
	var b strings.Builder
	for _, d := range l {
		b.WriteByte(byte('A' + d - 1))
	}
	return b.String()
}

func c17Digits(l []int) string {
	var b strings.Builder
	for _, d := range l {
		b.WriteByte(byte('0' + d))
	}
	return b.String()
}

func c17RefStr(r c17Ref) string { return c17Letters(r.Col) + c17Digits(r.Row) }

// c17Content renders the abstract content of a cell.
func c17Content(d c17Disp) string {
	if strings.HasPrefix(d.K, "t:") {
		return c17Tok(d.V) + d.K[2:]
	}
	switch d.K {
	case "t":
		return c17Tok(d.V)
	case "b":
		return strconv.Itoa(d.V)
	case "e":
		return c17Errors[d.V]
	case "n":
		return strconv.Itoa(d.V)
	}
	return ""
}

var c17TokRe = regexp.MustCompile(`(?s)^w(\d{3,})(.*)$`)

// c17Project maps a displayed string back to the abstract value.
func c17Project(s string) (c17Disp, bool) {
	if m := c17TokRe.FindStringSubmatch(s); m != nil {
		n, _ := strconv.Atoi(m[1])
		if m[2] != "" {
			return c17Disp{"t:" + m[2], n}, true
		}
		return c17Disp{"t", n}, true
	}
	switch strings.ToUpper(s) {
	case "TRUE":
		return c17Disp{"b", 1}, true
	case "FALSE":
		return c17Disp{"b", 0}, true
	}
	for i, e := range c17Errors {
		if s == e {
			return c17Disp{"e", i}, true
		}
	}
	if n, err := strconv.Atoi(s); err == nil {
		return c17Disp{"n", n}, true
	}
	return c17Disp{"?", 0}, false
}

func c17Workbook(c *c17Case) *ooxmlw.XWorkbook {
	wb := &ooxmlw.XWorkbook{Extras: true, InfraFirst: true, Sp: ooxmlw.Spelling{Rev: c.Xml.Rev, RelPrefix: c.Xml.Prefix, Single: c.Xml.Single,
		Foreign: c.Xml.Foreign, OpenClose: c.Xml.OC, Gaps: c.Xml.Gaps, Decl: c.Xml.Decl}}
	for _, e := range c.SST {
		wb.SST = append(wb.SST, ooxmlw.XSI{Text: c17Tok(e.V) + c17Specials[c.ValSp], Rich: e.Rich, Empty: e.Empty})
	}
	for i, sh := range c.Sheets {
		xs := ooxmlw.XSheet{Name: fmt.Sprintf("Sheet%d", i+1), SheetID: i + 1, RID: fmt.Sprintf("rId%d", i+1),
			PartName: fmt.Sprintf("xl/worksheets/sheet%d.xml", i+1), Target: fmt.Sprintf("worksheets/sheet%d.xml", i+1),
			DeclPos: i + 1, RelPos: i + 1, ZipPos: i + 1}
		for _, r := range sh.Rows {
			xr := ooxmlw.XRow{R: r.R, HasR: r.HasR}
			for _, cell := range r.Cells {
				xr.Cells = append(xr.Cells, ooxmlw.XCell{Ref: c17RefStr(cell.Ref), Kind: cell.T, Text: c17Content(cell.D), SI: cell.SI})
			}
			xs.Rows = append(xs.Rows, xr)
		}
		for _, m := range sh.Merges {
			xs.Merges = append(xs.Merges, c17RefStr(m.Ref.From)+":"+c17RefStr(m.Ref.To))
		}
		wb.Sheets = append(wb.Sheets, xs)
	}
	return wb
}

func c17WriteFile(members []ooxmlw.Member, ext string) (string, error) {
	data, err := ooxmlw.Zip(members)
	if err != nil {
		return "", err
	}
	dir := os.Getenv("VERIF_SCRATCH")
	if dir == "" {
		dir = os.TempDir()
	}
	f, err := os.CreateTemp(dir, "pkg-*"+ext)
	if err != nil {
		return "", err
	}
	if _, err := f.Write(data); err != nil {
		f.Close()
		return "", err
	}
	return f.Name(), f.Close()
}

// ------------------------------------------------------------ observation

type c17Obs struct {
	X, Y int
	Raw  string
	D    c17Disp
}

// c17Views holds, per view, the non-blank cells per sheet.
type c17Views struct {
	Grid, Tsv, Md, Doc, Tables [][]c17Obs
	Flags                      []c17Flags // merge metadata of the grid, per sheet
	DocSpans                   []c17Flags // RowSpan/ColSpan > 1 of the model table, per sheet (table coordinates)
	TsvExtra                   []c17Obs
	Err                        map[string]string
	Accessor                   []string // accessor disagreements (Cell / CellByRef vs Rows)
}

// c17Flags is the merge metadata a view exposes: its size, the cells flagged as part
// of a region, and the cells flagged as root with their (rows, cols) span.
type c17Flags struct {
	W, H   int
	Merged map[c17Pos]bool
	Roots  map[c17Pos][2]int
}

func c17ParseMarkdownRow(line string) []string {
	line = strings.TrimSpace(line)
	var cells []string
	var cur strings.Builder
	for i := 0; i < len(line); i++ {
		ch := line[i]
		// CommonMark: a backslash before ASCII punctuation is an escape, elsewhere it is a backslash
		if ch == '\\' && i+1 < len(line) && strings.ContainsRune("!\"#$%&'()*+,-./:;<=>?@[\\]^_`{|}~", rune(line[i+1])) {
			cur.WriteByte(line[i+1])
			i++
			continue
		}
		if ch == '|' {
			cells = append(cells, c17Entities(strings.TrimSpace(cur.String())))
			cur.Reset()
			continue
		}
		cur.WriteByte(ch)
	}
	if strings.TrimSpace(cur.String()) != "" {
		cells = append(cells, strings.TrimSpace(cur.String()))
	}
	if len(cells) > 0 { // text before the first pipe
		cells = cells[1:]
	}
	return cells
}

func c17Entities(s string) string {
	return strings.NewReplacer("&lt;", "<", "&gt;", ">", "&amp;", "&", "&#124;", "|").Replace(s)
}

var c17SepRe = regexp.MustCompile(`^\|(\s*:?-+:?\s*\|)+\s*$`)
var c17HeadRe = regexp.MustCompile(`^#+\s.*Sheet(\d+)`)

// c17Markdown reads the pipe tables of the Markdown. A heading that names
// "Sheet<k>" starts the section of sheet k; without such headings the tables are
// taken in order for the sheets that have content. In a table the header row is
// table row 1 and the delimiter row is skipped.
func c17Markdown(md string, exps [][]c17Exp) [][]c17Obs {
	n := len(exps)
	type table struct {
		sec   int
		lines []string
	}
	var tables []table
	sec, heads := -1, 0
	var cur *table
	for _, line := range strings.Split(md, "\n") {
		t := strings.TrimSpace(line)
		if m := c17HeadRe.FindStringSubmatch(t); m != nil {
			k, _ := strconv.Atoi(m[1])
			sec = k - 1
			heads++
			cur = nil
			continue
		}
		if strings.HasPrefix(t, "|") {
			if cur == nil {
				tables = append(tables, table{sec: sec})
				cur = &tables[len(tables)-1]
			}
			cur.lines = append(cur.lines, t)
			continue
		}
		cur = nil
	}
	out := make([][]c17Obs, n)
	var order []int // sheets with content, for the fallback
	for s, e := range exps {
		if len(e) > 0 {
			order = append(order, s)
		}
	}
	used := map[int]bool{}
	for ti, tb := range tables {
		s := tb.sec
		if heads == 0 {
			if ti >= len(order) {
				s = n // surplus table: reported against the last sheet below
			} else {
				s = order[ti]
			}
		}
		if s < 0 || s >= n {
			s = n - 1
		}
		yoff := 0
		if used[s] { // a second table for the same sheet: keep its cells apart
			yoff = 100000
		}
		used[s] = true
		lines := tb.lines
		if len(lines) >= 2 && c17SepRe.MatchString(lines[1]) {
			lines = append([]string{lines[0]}, lines[2:]...)
		}
		for i, line := range lines {
			for j, cell := range c17ParseMarkdownRow(line) {
				if cell != "" {
					d, _ := c17Project(cell)
					out[s] = append(out[s], c17Obs{X: j + 1, Y: i + 1 + yoff, Raw: cell, D: d})
				}
			}
		}
	}
	return out
}

func c17Observe(path string, exps [][]c17Exp) *c17Views {
	n := len(exps)
	v := &c17Views{Err: map[string]string{}}
	// grid
	if r, err := xlsx.Open(path); err != nil {
		v.Err["grid"] = err.Error()
	} else {
		v.Grid = make([][]c17Obs, n)
		if r.SheetCount() != n {
			v.Err["grid"] = fmt.Sprintf("SheetCount %d, workbook has %d sheets", r.SheetCount(), n)
		}
		for s := 0; s < n && s < r.SheetCount(); s++ {
			sh, err := r.Sheet(s)
			if err != nil {
				v.Err["grid"] = err.Error()
				break
			}
			fl := c17Flags{H: len(sh.Rows), Merged: map[c17Pos]bool{}, Roots: map[c17Pos][2]int{}}
			for ri, row := range sh.Rows {
				if len(row) > fl.W {
					fl.W = len(row)
				}
				for ci, cell := range row {
					if cell.IsMerged {
						fl.Merged[c17Pos{ci + 1, ri + 1}] = true
					}
					if cell.IsMergeRoot {
						fl.Roots[c17Pos{ci + 1, ri + 1}] = [2]int{cell.MergeRows, cell.MergeCols}
					}
					// Cell.Value is documented as "the cell's display value": a covered cell shows nothing
					if cell.Value == "" {
						continue
					}
					d, _ := c17Project(cell.Value)
					v.Grid[s] = append(v.Grid[s], c17Obs{X: ci + 1, Y: ri + 1, Raw: cell.Value, D: d})
					// the accessors must agree with the stored rows
					if a := sh.Cell(ri, ci); a == nil || a.Value != cell.Value {
						v.Accessor = append(v.Accessor, fmt.Sprintf("Sheet(%d).Cell(%d,%d) disagrees with Rows", s, ri, ci))
					}
					if cell.Row != ri || cell.Col != ci {
						v.Accessor = append(v.Accessor, fmt.Sprintf("Sheet(%d).Rows[%d][%d] carries Row/Col %d/%d", s, ri, ci, cell.Row, cell.Col))
					}
				}
			}
			v.Flags = append(v.Flags, fl)
			for _, e := range exps[s] {
				ref := xlsx.CellRef(e.C-1, e.R-1)
				a := sh.CellByRef(ref)
				b := sh.Cell(e.R-1, e.C-1)
				if (a == nil) != (b == nil) || (a != nil && a.Value != b.Value) {
					v.Accessor = append(v.Accessor, fmt.Sprintf("Sheet(%d).CellByRef(%s) disagrees with Cell(%d,%d)", s, ref, e.R-1, e.C-1))
				}
			}
		}
		// Tables(): headers = first table row, then the data rows
		v.Tables = make([][]c17Obs, n)
		for s, tb := range r.Tables() {
			if s >= n {
				break
			}
			rows := append([][]string{tb.Headers}, tb.Rows...)
			for i, row := range rows {
				for j, txt := range row {
					if txt != "" {
						d, _ := c17Project(txt)
						v.Tables[s] = append(v.Tables[s], c17Obs{X: j + 1, Y: i + 1, Raw: txt, D: d})
					}
				}
			}
		}
		r.Close()
	}
	// tab-separated text
	if txt, _, err := tabula.Open(path).Text(); err != nil {
		v.Err["tsv"] = err.Error()
	} else {
		v.Tsv, v.TsvExtra = c17SplitTSV(txt, exps)
	}
	// markdown
	if md, _, err := tabula.Open(path).ToMarkdown(); err != nil {
		v.Err["md"] = err.Error()
	} else {
		v.Md = c17Markdown(md, exps)
	}
	// model
	if doc, _, err := tabula.Open(path).Document(); err != nil {
		v.Err["doc"] = err.Error()
	} else {
		v.Doc = make([][]c17Obs, n)
		if len(doc.Pages) != n {
			v.Err["doc"] = fmt.Sprintf("Document has %d pages, workbook has %d sheets", len(doc.Pages), n)
		}
		for s := 0; s < n && s < len(doc.Pages); s++ {
			var tbl *model.Table
			for _, el := range doc.Pages[s].Elements {
				if t, ok := el.(*model.Table); ok {
					tbl = t
					break
				}
			}
			if tbl == nil {
				continue
			}
			if v.DocSpans == nil {
				v.DocSpans = make([]c17Flags, n)
			}
			ds := c17Flags{H: len(tbl.Rows), Roots: map[c17Pos][2]int{}}
			for i, row := range tbl.Rows {
				if len(row) > ds.W {
					ds.W = len(row)
				}
				for j, cell := range row {
					ds.Roots[c17Pos{j + 1, i + 1}] = [2]int{cell.RowSpan, cell.ColSpan}
				}
			}
			v.DocSpans[s] = ds
			for i, row := range tbl.Rows {
				for j, cell := range row {
					if cell.Text != "" {
						d, _ := c17Project(cell.Text)
						v.Doc[s] = append(v.Doc[s], c17Obs{X: j + 1, Y: i + 1, Raw: cell.Text, D: d})
					}
				}
			}
		}
	}
	return v
}

// c17SplitTSV reads (line, field) positions of the non-empty fields and cuts the
// text into one block per sheet: the first sheet owns the lines up to its last
// expected row; each later block starts at the first remaining non-empty line,
// which must be the first expected row of that sheet.
func c17SplitTSV(txt string, exps [][]c17Exp) ([][]c17Obs, []c17Obs) {
	var all []c17Obs
	for li, line := range strings.Split(txt, "\n") {
		for fi, f := range strings.Split(line, "\t") {
			if f != "" {
				d, _ := c17Project(f)
				all = append(all, c17Obs{X: fi + 1, Y: li + 1, Raw: f, D: d})
			}
		}
	}
	out := make([][]c17Obs, len(exps))
	base := 0
	for s, exp := range exps {
		if len(exp) == 0 {
			continue
		}
		minR, maxR := exp[0].R, exp[0].R
		for _, e := range exp {
			if e.R < minR {
				minR = e.R
			}
			if e.R > maxR {
				maxR = e.R
			}
		}
		if s > 0 && len(all) > 0 {
			base = all[0].Y - minR
		}
		k := 0
		for k < len(all) && all[k].Y-base <= maxR {
			out[s] = append(out[s], all[k])
			k++
		}
		all = all[k:]
	}
	return out, all
}

// ------------------------------------------------------------ comparison

type c17Mismatch struct {
	View, Symptom, What string
	Sheet               int
}

// c17Compare checks one view of one sheet: the observed cells translated by the
// view's offset must be exactly the expected cells.
//
//	rule "abs" : no translation;  "rows": whole lines below (later sheets of the text);
//	rule "free": one non-negative offset for the table (content box).
func c17Compare(view, rule string, sh int, exp []c17Exp, covered []c17Pos, kinds map[c17Pos]string, rowR bool, obs []c17Obs, stale map[c17Disp]bool) *c17Mismatch {
	mm := func(sym, what string) *c17Mismatch {
		return &c17Mismatch{View: view, Symptom: sym, What: what, Sheet: sh}
	}
	dc, dr := 0, 0
	if len(exp) > 0 && len(obs) > 0 && rule != "abs" {
		minC, minR, minX, minY := exp[0].C, exp[0].R, obs[0].X, obs[0].Y
		for _, e := range exp {
			if e.C < minC {
				minC = e.C
			}
			if e.R < minR {
				minR = e.R
			}
		}
		for _, o := range obs {
			if o.X < minX {
				minX = o.X
			}
			if o.Y < minY {
				minY = o.Y
			}
		}
		dr = minR - minY
		if rule == "free" {
			dc = minC - minX
		}
	}
	// a line break inside a value breaks the line structure of tab-separated text: such sheets are
	// not asserted in the text views (grid, Markdown, model and Tables() are)
	if strings.Contains(view, "tsv") || strings.Contains(view, "Text") {
		for _, e := range exp {
			if strings.Contains(e.D.K, "\n") {
				return nil
			}
		}
	}
	// the view's own folding: Markdown shows a line break inside a cell as a space
	if strings.Contains(view, "md") || strings.Contains(view, "Markdown") || strings.Contains(view, "chunks") {
		folded := make([]c17Exp, len(exp))
		for i, e := range exp {
			e.D.K = strings.ReplaceAll(e.D.K, "\n", " ")
			folded[i] = e
		}
		exp = folded
	}
	expAt := map[c17Pos]c17Disp{}
	for _, e := range exp {
		expAt[c17Pos{e.C, e.R}] = e.D
	}
	obsAt := map[c17Pos]c17Obs{}
	for _, o := range obs {
		obsAt[c17Pos{o.X + dc, o.Y + dr}] = o
	}
	cov := map[c17Pos]bool{}
	for _, p := range covered {
		cov[p] = true
	}
	// everything at its place, nothing else shown, translation within the rule?
	ok := len(obsAt) == len(obs) && len(obs) == len(exp)
	for _, e := range exp {
		if o, f := obsAt[c17Pos{e.C, e.R}]; !f || o.D != e.D {
			ok = false
		}
	}
	if ok {
		if rule == "free" && (dc < 0 || dr < 0) {
			return mm("misplaced", fmt.Sprintf("table is translated by a negative offset (%d,%d)", dc, dr))
		}
		if rule == "rows" && dr > 0 {
			return mm("misplaced", fmt.Sprintf("text block of sheet %d starts above its first row (offset %d)", sh+1, dr))
		}
		return nil
	}
	// name the symptom by WHAT is shown, wherever it is shown: the same values at
	// other positions = misplaced; values missing = lost; values too many = extra
	// (merge-covered when one of them sits on a covered position)
	show := func(d c17Disp) string {
		if d.K == "b" {
			return []string{"FALSE", "TRUE"}[d.V]
		}
		return c17Content(d)
	}
	need, have := map[c17Disp]int{}, map[c17Disp]int{}
	for _, e := range exp {
		need[e.D]++
	}
	for _, o := range obs {
		have[o.D]++
	}
	var missing *c17Exp
	for i, e := range exp {
		if have[e.D] < need[e.D] {
			missing = &exp[i]
			break
		}
	}
	surplus := false
	for d, n := range have {
		if n > need[d] {
			surplus = true
		}
	}
	switch {
	case missing == nil && !surplus:
		for _, e := range exp {
			if o, f := obsAt[c17Pos{e.C, e.R}]; !f || o.D != e.D {
				ref := xlsx.CellRef(e.C-1, e.R-1)
				for p, o2 := range obsAt {
					if o2.D == e.D && (e.D.K == "t" || e.D.K == "n") {
						return mm("misplaced", fmt.Sprintf("value %s of %s is shown at view position column %d row %d (i.e. %s)", show(e.D), ref, o2.X, o2.Y, xlsx.CellRef(p.C-1, p.R-1)))
					}
				}
				return mm("misplaced", fmt.Sprintf("all values are shown but %s does not show %s", ref, show(e.D)))
			}
		}
		return mm("misplaced", "two shown cells map to one address")
	case surplus:
		for p, o := range obsAt {
			if stale[o.D] && have[o.D] > need[o.D] {
				return mm("merge-covered", fmt.Sprintf("%q is shown (at %s): it is the stale content of a cell covered by a merged region, which must be blank", o.Raw, xlsx.CellRef(p.C-1, p.R-1)))
			}
		}
		for p, o := range obsAt {
			if cov[p] && have[o.D] > need[o.D] {
				return mm("merge-covered", fmt.Sprintf("%q shown at %s, a position covered by a merged region (must be blank)", o.Raw, xlsx.CellRef(p.C-1, p.R-1)))
			}
		}
		if missing == nil {
			for p, o := range obsAt {
				if have[o.D] > need[o.D] {
					return mm("extra", fmt.Sprintf("%q shown at %s; the sheet holds that value %d time(s)", o.Raw, xlsx.CellRef(p.C-1, p.R-1), need[o.D]))
				}
			}
		}
		fallthrough
	default:
		e := *missing
		ref := xlsx.CellRef(e.C-1, e.R-1)
		if !rowR && len(obs) == 0 {
			return mm("lost:row-without-r", fmt.Sprintf("no cell of the sheet is shown (e.g. %s = %s); its <row> elements carry no r attribute (optional in ECMA-376), the cells carry full references", ref, show(e.D)))
		}
		k := kinds[c17Pos{e.C, e.R}]
		if o, f := obsAt[c17Pos{e.C, e.R}]; f {
			return mm("wrong-value:"+k, fmt.Sprintf("%s (kind %s) shows %q, the cell holds %s", ref, k, o.Raw, show(e.D)))
		}
		return mm("lost:"+k, fmt.Sprintf("%s (kind %s) holds %s, which is shown nowhere in this view", ref, k, show(e.D)))
	}
}

func c17HasNL(exps [][]c17Exp) bool {
	for _, es := range exps {
		for _, e := range es {
			if strings.Contains(e.D.K, "\n") {
				return true
			}
		}
	}
	return false
}

// c17SpanOK: a span is the region's size, or that size clipped to the extent of the view.
func c17SpanOK(got, full, start, extent int) bool {
	clipped := extent - start + 1
	if clipped > full {
		clipped = full
	}
	return got == full || got == clipped
}

// c17CheckMerges compares the merge metadata of the grid and the spans of the model
// table with the declared regions (rect, rows, cols come from the spec).
func c17CheckMerges(v *c17Views, exps [][]c17Exp, merges [][]c17Merge) *c17Mismatch {
	for s := range merges {
		if s >= len(v.Flags) {
			break
		}
		fl := v.Flags[s]
		inRegion := map[c17Pos]bool{}
		roots := map[c17Pos]bool{}
		for _, m := range merges[s] {
			c1, r1, c2, r2 := m.Rect[0], m.Rect[1], m.Rect[2], m.Rect[3]
			ref := xlsx.CellRef(c1-1, r1-1) + ":" + xlsx.CellRef(c2-1, r2-1)
			for c := c1; c <= c2; c++ {
				for r := r1; r <= r2; r++ {
					inRegion[c17Pos{c, r}] = true
					if c <= fl.W && r <= fl.H && !fl.Merged[c17Pos{c, r}] {
						return &c17Mismatch{View: "grid", Sheet: s, Symptom: "merge-flags", What: fmt.Sprintf("%s lies in the merged region %s but is not flagged IsMerged (grid is %d columns x %d rows)", xlsx.CellRef(c-1, r-1), ref, fl.W, fl.H)}
					}
				}
			}
			roots[c17Pos{c1, r1}] = true
			if c1 <= fl.W && r1 <= fl.H {
				sp, ok := fl.Roots[c17Pos{c1, r1}]
				if !ok {
					return &c17Mismatch{View: "grid", Sheet: s, Symptom: "merge-flags", What: fmt.Sprintf("top-left cell of the merged region %s is not flagged IsMergeRoot (grid is %d columns x %d rows)", ref, fl.W, fl.H)}
				}
				if !c17SpanOK(sp[0], m.Rows, r1, fl.H) || !c17SpanOK(sp[1], m.Cols, c1, fl.W) {
					return &c17Mismatch{View: "grid", Sheet: s, Symptom: "merge-flags", What: fmt.Sprintf("root of %s reports MergeRows x MergeCols = %d x %d, the region is %d x %d", ref, sp[0], sp[1], m.Rows, m.Cols)}
				}
			}
		}
		for p := range fl.Merged {
			if !inRegion[p] {
				return &c17Mismatch{View: "grid", Sheet: s, Symptom: "merge-flags", What: fmt.Sprintf("%s is flagged IsMerged but lies in no merged region", xlsx.CellRef(p.C-1, p.R-1))}
			}
		}
		for p := range fl.Roots {
			if !roots[p] {
				return &c17Mismatch{View: "grid", Sheet: s, Symptom: "merge-flags", What: fmt.Sprintf("%s is flagged IsMergeRoot but is no region's top-left cell", xlsx.CellRef(p.C-1, p.R-1))}
			}
		}
		// model table: the cell at the root's place spans the region (or what of it fits)
		if s < len(v.DocSpans) && len(exps[s]) > 0 && len(v.Doc[s]) > 0 {
			ds := v.DocSpans[s]
			minC, minR, minX, minY := exps[s][0].C, exps[s][0].R, v.Doc[s][0].X, v.Doc[s][0].Y
			for _, e := range exps[s] {
				if e.C < minC {
					minC = e.C
				}
				if e.R < minR {
					minR = e.R
				}
			}
			for _, o := range v.Doc[s] {
				if o.X < minX {
					minX = o.X
				}
				if o.Y < minY {
					minY = o.Y
				}
			}
			dc, dr := minC-minX, minR-minY
			for _, m := range merges[s] {
				x, y := m.Rect[0]-dc, m.Rect[1]-dr
				if x < 1 || y < 1 || x > ds.W || y > ds.H {
					continue // the root is outside the table (trimmed away)
				}
				sp := ds.Roots[c17Pos{x, y}]
				if !c17SpanOK(sp[0], m.Rows, y, ds.H) || !c17SpanOK(sp[1], m.Cols, x, ds.W) {
					ref := xlsx.CellRef(m.Rect[0]-1, m.Rect[1]-1) + ":" + xlsx.CellRef(m.Rect[2]-1, m.Rect[3]-1)
					return &c17Mismatch{View: "doc", Sheet: s, Symptom: "merge-span", What: fmt.Sprintf("model cell of the top-left of %s has RowSpan x ColSpan = %d x %d, the region is %d x %d (table %d x %d)", ref, sp[0], sp[1], m.Rows, m.Cols, ds.H, ds.W)}
				}
			}
		}
	}
	return nil
}

func c17Check(v *c17Views, exps [][]c17Exp, covered [][]c17Pos, kinds []map[c17Pos]string, rowR bool, merges [][]c17Merge, stale []map[c17Disp]bool) *c17Mismatch {
	type vw struct {
		name string
		obs  [][]c17Obs
	}
	for _, w := range []vw{{"grid", v.Grid}, {"tables", v.Tables}, {"tsv", v.Tsv}, {"md", v.Md}, {"doc", v.Doc}} {
		if w.name == "tables" && v.Tables == nil {
			continue
		}
		if w.name == "tsv" && c17HasNL(exps) {
			continue // a line break inside a value anywhere makes the line structure of the whole text ambiguous
		}
		if e, ok := v.Err[w.name]; ok {
			return &c17Mismatch{View: w.name, Symptom: "error", What: e}
		}
		for s := range exps {
			rule := "free"
			switch w.name {
			case "grid":
				rule = "abs"
			case "tsv":
				rule = "abs"
				if s > 0 {
					rule = "rows"
				}
			}
			if m := c17Compare(w.name, rule, s, exps[s], covered[s], kinds[s], rowR, w.obs[s], stale[s]); m != nil {
				return m
			}
		}
		if w.name == "grid" && len(v.Accessor) > 0 {
			return &c17Mismatch{View: "grid", Symptom: "accessor", What: v.Accessor[0]}
		}
		if w.name == "tsv" && len(v.TsvExtra) > 0 && !c17HasNL(exps) {
			return &c17Mismatch{View: "tsv", Symptom: "extra", What: fmt.Sprintf("text has %d more non-empty fields after the last sheet, e.g. %q", len(v.TsvExtra), v.TsvExtra[0].Raw)}
		}
	}
	return c17CheckMerges(v, exps, merges)
}

// ------------------------------------------------------------ replay

// c17Key identifies the abstract case (distinctness) without carrying its text.
func c17Key(raw []byte) string {
	h := sha1.Sum(raw)
	return hex.EncodeToString(h[:10])
}

func c17Nontrivial(c *c17Case) bool {
	for _, sh := range c.Sheets {
		if len(sh.Merges) > 0 {
			return true
		}
		last := 0
		for _, r := range sh.Rows {
			if r.R < last {
				return true
			}
			last = r.R
			lc := 0
			for _, cell := range r.Cells {
				if cell.C > 26 || cell.C < lc {
					return true
				}
				lc = cell.C
			}
		}
	}
	return false
}

func c17Replay(i int, raw []byte) Result {
	var c c17Case
	if err := json.Unmarshal(raw, &c); err != nil {
		return fail("decode", "decode", err.Error(), nil)
	}
	c.applyAlphabet()
	res := Result{OK: true, Nontrivial: c17Nontrivial(&c), Key: c17Key(raw), Evals: 4}
	path, err := c17WriteFile(c17Workbook(&c).Members(), ".xlsx")
	if err != nil {
		panic(err)
	}
	defer os.Remove(path)
	exps := make([][]c17Exp, len(c.Sheets))
	covered := make([][]c17Pos, len(c.Sheets))
	kinds := make([]map[c17Pos]string, len(c.Sheets))
	merges := make([][]c17Merge, len(c.Sheets))
	stale := make([]map[c17Disp]bool, len(c.Sheets))
	for s, sh := range c.Sheets {
		exps[s] = sh.Cells
		covered[s] = sh.Covered
		merges[s] = sh.Merges
		kinds[s] = map[c17Pos]string{}
		stale[s] = map[c17Disp]bool{}
		cov := map[c17Pos]bool{}
		for _, p := range sh.Covered {
			cov[p] = true
		}
		for _, r := range sh.Rows {
			for _, cell := range r.Cells {
				kinds[s][c17Pos{cell.C, cell.R}] = cell.T
				if cov[c17Pos{cell.C, cell.R}] && cell.D.K != "z" {
					stale[s][cell.D] = true // content of a covered cell (for naming the symptom)
				}
			}
		}
	}
	v := c17Observe(path, exps)
	m := c17Check(v, exps, covered, kinds, c.RowR, merges, stale)
	if m == nil {
		// entry-point audit: the other public views
		// one view per case in quick, two in thorough, rotating: every view sees an even share of all cases
		which := []string{c17ExtraViews[i%len(c17ExtraViews)]}
		if tier() != "quick" {
			which = append(which, c17ExtraViews[(i/len(c17ExtraViews)+i+1)%len(c17ExtraViews)])
		}
		xv, xe, xp := c17Extra(path, exps, merges, which)
		res.Evals += len(xv)
		m = c17CheckExtra(xv, xe, xp, exps, covered, kinds, c.RowR, stale)
	}
	if m != nil {
		r := fail(m.View, "C17:"+m.View+":"+m.Symptom, fmt.Sprintf("sheet %d, %s view: %s", m.Sheet+1, m.View, m.What),
			map[string]interface{}{"case": json.RawMessage(raw), "observed": c17ObsDump(v)})
		r.Nontrivial, r.Key, r.Evals = res.Nontrivial, res.Key, 4
		return r
	}
	return res
}

func c17ObsDump(v *c17Views) map[string]interface{} {
	d := func(o [][]c17Obs) [][]string {
		var out [][]string
		for _, s := range o {
			var l []string
			for k, c := range s {
				if k >= 12 {
					l = append(l, "...")
					break
				}
				l = append(l, fmt.Sprintf("(%d,%d)=%s", c.X, c.Y, c.Raw))
			}
			out = append(out, l)
		}
		return out
	}
	return map[string]interface{}{"grid(col,row)": d(v.Grid), "tsv(field,line)": d(v.Tsv), "md(col,row)": d(v.Md), "doc(col,row)": d(v.Doc), "tables(col,row)": d(v.Tables), "errors": v.Err}
}

// ------------------------------------------------------------ codec

type c17CodecCase struct {
	Dir     string `json:"dir"`
	Row     int    `json:"row"`
	Idx     int    `json:"idx"`
	Letters []int  `json:"letters"`
	Ref     c17Ref `json:"ref"`
	Range   struct {
		From c17Ref `json:"from"`
		To   c17Ref `json:"to"`
	} `json:"range"`
	Rect struct {
		C1 int `json:"c1"`
		R1 int `json:"r1"`
		C2 int `json:"c2"`
		R2 int `json:"r2"`
	} `json:"rect"`
}

func c17Codec(i int, raw []byte) Result {
	var c c17CodecCase
	if err := json.Unmarshal(raw, &c); err != nil {
		return fail("decode", "decode", err.Error(), nil)
	}
	letters := c17Letters(c.Letters)
	ref := c17RefStr(c.Ref)
	res := Result{OK: true, Nontrivial: len(c.Letters) > 1, Key: c.Dir + ":" + ref, Evals: 5}
	bad := func(fn, what string, obs interface{}) Result {
		dirn := "letters-to-index"
		if fn == "IndexToColumn" || fn == "CellRef" {
			dirn = "index-to-letters"
		}
		r := fail("codec", "C17:codec:"+dirn, what, map[string]interface{}{"case": json.RawMessage(raw), "observed": obs})
		r.Nontrivial, r.Key = res.Nontrivial, res.Key
		return r
	}
	if got := xlsx.ColumnToIndex(letters); got != c.Idx-1 {
		return bad("ColumnToIndex", fmt.Sprintf("ColumnToIndex(%q) = %d, column %s is number %d (0-based %d)", letters, got, letters, c.Idx, c.Idx-1), got)
	}
	if got := xlsx.IndexToColumn(c.Idx - 1); got != letters {
		return bad("IndexToColumn", fmt.Sprintf("IndexToColumn(%d) = %q, want %q", c.Idx-1, got, letters), got)
	}
	if got := xlsx.CellRef(c.Idx-1, c.Row-1); got != ref {
		return bad("CellRef", fmt.Sprintf("CellRef(%d,%d) = %q, want %q", c.Idx-1, c.Row-1, got, ref), got)
	}
	col, row, err := xlsx.ParseCellRef(ref)
	if err != nil || col != c.Idx-1 || row != c.Row-1 {
		return bad("ParseCellRef", fmt.Sprintf("ParseCellRef(%q) = (%d,%d,%v), want (%d,%d)", ref, col, row, err, c.Idx-1, c.Row-1), []int{col, row})
	}
	rng := c17RefStr(c.Range.From) + ":" + c17RefStr(c.Range.To)
	c1, r1, c2, r2, err := xlsx.ParseRangeRef(rng)
	if err != nil || c1 != c.Rect.C1-1 || r1 != c.Rect.R1-1 || c2 != c.Rect.C2-1 || r2 != c.Rect.R2-1 {
		return bad("ParseRangeRef", fmt.Sprintf("ParseRangeRef(%q) = (%d,%d,%d,%d,%v), want (%d,%d,%d,%d)", rng, c1, r1, c2, r2, err,
			c.Rect.C1-1, c.Rect.R1-1, c.Rect.C2-1, c.Rect.R2-1), []int{c1, r1, c2, r2})
	}
	return res
}

// ------------------------------------------------------------ self test

// c17SelfTest writes the workbook of the case to <scratch>/selftest and reports the
// path with the member names in order, for the python zipfile/xml.etree audit.
func c17SelfTest(i int, raw []byte) Result {
	var c c17Case
	if err := json.Unmarshal(raw, &c); err != nil {
		return fail("decode", "decode", err.Error(), nil)
	}
	c.applyAlphabet()
	ms := c17Workbook(&c).Members()
	data, err := ooxmlw.Zip(ms)
	if err != nil {
		panic(err)
	}
	dir := filepath.Join(os.Getenv("VERIF_SCRATCH"), "selftest")
	os.MkdirAll(dir, 0o755)
	p := filepath.Join(dir, fmt.Sprintf("c17-%d.xlsx", i))
	if err := os.WriteFile(p, data, 0o644); err != nil {
		panic(err)
	}
	var refs [][]string
	for _, sh := range c.Sheets {
		var l []string
		for _, r := range sh.Rows {
			for _, cell := range r.Cells {
				l = append(l, c17RefStr(cell.Ref)+"="+cell.T+"="+c17Content(cell.D))
			}
		}
		sort.Strings(l)
		refs = append(refs, l)
	}
	return Result{OK: true, Replay: map[string]interface{}{"path": p, "members": ooxmlw.Names(ms), "cells": refs}}
}
