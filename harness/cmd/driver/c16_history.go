package main

// C16 histories (WordHistory.tla): several renderings on ONE docx.Reader / odt.Reader.
// Every call of a TLC-enumerated history is run in order on the same reader; the
// heading level each view presents per body block is compared with the levels the
// specification computed (what a freshly opened reader presents), the tokens with the
// spec's items, and the whole result with the result of the same call on a fresh
// reader (purity).  histrecord: random longer histories on random documents, one Call
// event per call with the levels read back, for WordHistoryTrace.tla.

import (
	"encoding/json"
	"fmt"
	"os"
	"strings"

	"github.com/tsawler/tabula/docx"
	"github.com/tsawler/tabula/model"
	"github.com/tsawler/tabula/odt"
	"github.com/tsawler/tabula/rag"

	"verif/internal/wpw"
)

type c16HCall struct {
	Op     string `json:"op"` // text | md | mdopt | rag | doc | tables
	Off    int    `json:"off"`
	Mx     int    `json:"mx"`
	Xo     string `json:"xo"`     // the call's own extraction options: none | h | f | hf
	Levels []int  `json:"levels"` // per body block: the level a fresh reader presents (0: none)
	Eh     int    `json:"eh"`     // body paragraphs equal to the header line the spec's reader shows
	Ef     int    `json:"ef"`
	NEh    int    `json:"neh"` // ... the body has
	NEf    int    `json:"nef"`
}

func xoFlags(xo string) (h, f bool) { return xo == "h" || xo == "hf", xo == "f" || xo == "hf" }

type c16HCase struct {
	c16Case
	Calls []c16HCall `json:"calls"`
}

// c16Reader is one reader object that lives through a whole history.
type c16Reader struct {
	dx *docx.Reader
	od *odt.Reader
}

func c16OpenReader(path, fmtName string) (*c16Reader, error) {
	if fmtName == "docx" {
		r, err := docx.Open(path)
		return &c16Reader{dx: r}, err
	}
	r, err := odt.Open(path)
	return &c16Reader{od: r}, err
}

func (r *c16Reader) close() {
	if r.dx != nil {
		r.dx.Close()
	}
	if r.od != nil {
		r.od.Close()
	}
}

// c16HResult is what one call returned.
type c16HResult struct {
	Text  string    `json:"text,omitempty"`
	Items []c16Item `json:"items,omitempty"`
	Eh    int       `json:"eh"` // occurrences of the header line / footer line in the result
	Ef    int       `json:"ef"`
	Err   string    `json:"err,omitempty"`
}

func docEcho(doc *model.Document) (eh, ef int) {
	if doc == nil {
		return
	}
	for _, pg := range doc.Pages {
		for _, el := range pg.Elements {
			if g, ok := el.(interface{ GetText() string }); ok {
				_, h, f := splitEcho(idsOf(scanTokens(g.GetText())))
				eh, ef = eh+h, ef+f
			}
		}
	}
	return
}

func ragOpts(c c16HCall) rag.MarkdownOptions {
	o := rag.DefaultMarkdownOptions()
	o.IncludeMetadata, o.IncludeTableOfContents = false, false
	o.HeadingLevelOffset, o.MaxHeadingLevel = c.Off, c.Mx
	return o
}

func tablesText(tabs []*model.Table) string {
	var b strings.Builder
	for _, t := range tabs {
		for _, row := range t.Rows {
			for _, cell := range row {
				b.WriteString(cell.Text)
				b.WriteString("\t")
			}
			b.WriteString("\n")
		}
		b.WriteString("--\n")
	}
	return b.String()
}

func (r *c16Reader) call(c c16HCall) c16HResult {
	var s string
	var err error
	var doc *model.Document
	switch c.Op {
	case "text":
		h, f := xoFlags(c.Xo)
		if r.dx != nil {
			s, err = r.dx.TextWithOptions(docx.ExtractOptions{ExcludeHeaders: h, ExcludeFooters: f})
		} else {
			s, err = r.od.TextWithOptions(odt.ExtractOptions{ExcludeHeaders: h, ExcludeFooters: f})
		}
	case "md":
		if r.dx != nil {
			s, err = r.dx.Markdown()
		} else {
			s, err = r.od.Markdown()
		}
	case "mdopt":
		h, f := xoFlags(c.Xo)
		if r.dx != nil {
			s, err = r.dx.MarkdownWithOptions(docx.ExtractOptions{ExcludeHeaders: h, ExcludeFooters: f})
		} else {
			s, err = r.od.MarkdownWithOptions(odt.ExtractOptions{ExcludeHeaders: h, ExcludeFooters: f})
		}
	case "rag":
		h, f := xoFlags(c.Xo)
		if r.dx != nil {
			s, err = r.dx.MarkdownWithRAGOptions(docx.ExtractOptions{ExcludeHeaders: h, ExcludeFooters: f}, ragOpts(c))
		} else {
			s, err = r.od.MarkdownWithRAGOptions(odt.ExtractOptions{ExcludeHeaders: h, ExcludeFooters: f}, ragOpts(c))
		}
	case "doc":
		if r.dx != nil {
			doc, err = r.dx.Document()
		} else {
			doc, err = r.od.Document()
		}
		if err == nil {
			eh, ef := docEcho(doc)
			return c16HResult{Items: projectModel(doc), Eh: eh, Ef: ef}
		}
	case "tables":
		if r.dx != nil {
			s = tablesText(r.dx.ModelTables())
		} else {
			s = tablesText(r.od.ModelTables())
		}
	}
	if err != nil {
		return c16HResult{Err: err.Error()}
	}
	res := c16HResult{Text: s}
	if c.Op != "tables" {
		_, res.Eh, res.Ef = splitEcho(idsOf(scanTokens(s)))
	}
	return res
}

// levelsOf reads back the heading level presented per body block (0: none; -1: the
// block's first token is not in the result).
func levelsOf(c c16HCall, res c16HResult, d wpw.Doc, bases []int) []int {
	lv := make([]int, len(d.Body))
	if c.Op == "text" || c.Op == "tables" {
		return lv
	}
	if c.Op == "doc" {
		at := map[int]c16Item{}
		for _, it := range res.Items {
			for _, id := range it.Ids {
				at[id] = it
			}
		}
		for i := range d.Body {
			if blockTokens(bases, i, len(d.Body)) == 0 {
				continue // an echo paragraph has no token of its own (and is not a heading)
			}
			it, ok := at[bases[i]+1]
			switch {
			case !ok:
				lv[i] = -1
			case it.K == "H":
				lv[i] = it.Lvl
			}
		}
		return lv
	}
	pos := map[int]tokPos{}
	for _, t := range scanTokens(res.Text) {
		if _, dup := pos[t.id]; !dup {
			pos[t.id] = t
		}
	}
	for i := range d.Body {
		if blockTokens(bases, i, len(d.Body)) == 0 {
			continue
		}
		t, ok := pos[bases[i]+1]
		if !ok {
			lv[i] = -1
			continue
		}
		_, line := lineOf(res.Text, t.start)
		n := 0
		for n < len(line) && line[n] == '#' {
			n++
		}
		if n > 0 && n < len(line) && line[n] == ' ' {
			lv[i] = n
		}
	}
	return lv
}

// blockTokens: -1 if unknown (last block), else the number of tokens block i wrote.
func blockTokens(bases []int, i, n int) int {
	if i+1 < len(bases) { // (the callers append the total number of tokens)
		return bases[i+1] - bases[i]
	}
	return -1
}

func histKey(c *c16HCase) string {
	return c.Fmt + "|" + string(mustJSON(c.Body)) + "|" + string(mustJSON(c.Calls))
}

func callName(c c16HCall) string {
	n := c.Op
	if c.Op == "rag" {
		n = fmt.Sprintf("rag(%d,%d)", c.Off, c.Mx)
	}
	if c.Xo != "" && c.Xo != "none" {
		n += "{exclude " + c.Xo + "}"
	}
	return n
}

// opName is the call's name in signatures: the view and, if any, its exclusion options.
func opName(c c16HCall) string {
	if c.Xo != "" && c.Xo != "none" {
		return c.Op + "-x" + c.Xo
	}
	return c.Op
}

func c16HistoryCase(i int, raw []byte) Result {
	var c c16HCase
	if err := json.Unmarshal(raw, &c); err != nil {
		return fail("decode", "decode", err.Error(), nil)
	}
	d := c.doc()
	path, rend, err := c16Write(d, fmt.Sprintf("hist%d", i))
	if err != nil {
		panic("machinery: " + err.Error())
	}
	defer os.Remove(path)
	if rend.NTok != c.NTok || !intsEq(rend.Bases, c.Bases) {
		panic("machinery: writer numbered tokens differently from the spec")
	}
	res := Result{OK: true, Nontrivial: len(c.Calls) >= 2, Key: histKey(&c)}
	rd, err := c16OpenReader(path, c.Fmt)
	if err != nil {
		return fail("error", "C16:error:"+c.Fmt+":open", "the valid document is rejected: "+err.Error(), map[string]interface{}{"case": json.RawMessage(raw)})
	}
	defer rd.close()
	bad := func(n int, clause, feature, what string, obs interface{}) Result {
		x := fail(clause, "C16:"+clause+":"+c.Fmt+":"+feature, fmt.Sprintf("[%s, one reader, call %d of %v] %s", c.Fmt, n+1, callNames(c.Calls), what),
			map[string]interface{}{"case": json.RawMessage(raw), "observed": obs})
		x.Nontrivial, x.Key, x.Evals = res.Nontrivial, res.Key, res.Evals
		return x
	}
	for n, call := range c.Calls {
		got := rd.call(call)
		res.Evals++
		if got.Err != "" {
			return bad(n, "error", call.Op, "call failed: "+got.Err, got)
		}
		lv := levelsOf(call, got, d, append(append([]int{}, c.Bases...), c.NTok))
		// (1) the spec's levels: what a freshly opened reader presents
		if !intsEq(lv, call.Levels) {
			// is it the history?  the same call on a fresh reader
			fr, ferr := c16OpenReader(path, c.Fmt)
			if ferr != nil {
				panic("machinery: " + ferr.Error())
			}
			flv := levelsOf(call, fr.call(call), d, append(append([]int{}, c.Bases...), c.NTok))
			fr.close()
			res.Evals++
			if intsEq(flv, call.Levels) {
				return bad(n, "history", histFeature(path, &c, n),
					fmt.Sprintf("%s presents heading levels %v per block; a fresh reader (and the spec) %v", callName(call), lv, call.Levels), got)
			}
			return bad(n, "heading-level", "view-"+call.Op,
				fmt.Sprintf("%s presents heading levels %v per block, authored %v (also on a fresh reader)", callName(call), lv, call.Levels), got)
		}
		// (1b) body paragraphs equal to the header / footer line: shown unless the call's own
		// options cover them (the spec's count is then the full count)
		if call.Op != "tables" && ((call.Eh == call.NEh && got.Eh != call.NEh) || (call.Ef == call.NEf && got.Ef != call.NEf)) {
			fr, ferr := c16OpenReader(path, c.Fmt)
			if ferr != nil {
				panic("machinery: " + ferr.Error())
			}
			want := fr.call(call)
			fr.close()
			res.Evals++
			what := fmt.Sprintf("%s shows %d / %d of the body paragraphs equal to the header / footer line; its own options cover %s, so %d / %d are body content", callName(call), got.Eh, got.Ef, call.Xo, call.Eh, call.Ef)
			if want.Eh == call.Eh && want.Ef == call.Ef {
				return bad(n, "history", histFeature(path, &c, n), what+" (a fresh reader shows them)", got)
			}
			return bad(n, "hf-echo", call.Op, what+" (also on a fresh reader)", got)
		}
		// (2) tokens: presence / order in every view but tables
		if call.Op != "tables" {
			ids := flatIds(got.Items)
			if call.Op != "doc" {
				ids = idsOf(scanTokens(got.Text))
			}
			if f := checkFlat(&c.c16Case, rend.Origin, ids); f != nil {
				return bad(n, f.clause, f.feature, f.what, got)
			}
		}
		// (3) purity: the whole result equals the result of the same call on a fresh reader
		fr, ferr := c16OpenReader(path, c.Fmt)
		if ferr != nil {
			panic("machinery: " + ferr.Error())
		}
		want := fr.call(call)
		fr.close()
		res.Evals++
		if string(mustJSON(got)) != string(mustJSON(want)) {
			return bad(n, "history", histFeature(path, &c, n),
				fmt.Sprintf("%s returns a different result than on a freshly opened reader", callName(call)), map[string]interface{}{"got": got, "fresh": want})
		}
	}
	return res
}

func callNames(cs []c16HCall) []string {
	var l []string
	for _, c := range cs {
		l = append(l, callName(c))
	}
	return l
}

// histFeature names a history failure: the earlier call that causes it and the failing call;
// when both carry exclusion options of their own and those differ, that is the feature.
func histFeature(path string, c *c16HCase, n int) string {
	cul := culprit(path, c, n)
	if strings.Contains(cul, "-x") && strings.Contains(opName(c.Calls[n]), "-x") {
		return "exclusion-options-of-an-earlier-call"
	}
	return cul + "-then-" + opName(c.Calls[n])
}

// culprit finds the single earlier call that alone makes call n differ from a fresh
// reader (abstract minimisation of the history); "some" if no single call does.
func culprit(path string, c *c16HCase, n int) string {
	fr, err := c16OpenReader(path, c.Fmt)
	if err != nil {
		return "some"
	}
	want := string(mustJSON(fr.call(c.Calls[n])))
	fr.close()
	for k := 0; k < n; k++ {
		r, err := c16OpenReader(path, c.Fmt)
		if err != nil {
			continue
		}
		r.call(c.Calls[k])
		got := string(mustJSON(r.call(c.Calls[n])))
		r.close()
		if got != want {
			return opName(c.Calls[k])
		}
	}
	return "some"
}

// c16HistRecordCase: {"n": documents, "blocks": size, "calls": history length}.
func c16HistRecordCase(i int, raw []byte) Result {
	var q struct {
		N      int `json:"n"`
		Blocks int `json:"blocks"`
		Calls  int `json:"calls"`
	}
	if err := json.Unmarshal(raw, &q); err != nil {
		return fail("decode", "decode", err.Error(), nil)
	}
	rnd := newRand(int64(i)*15485863 + 164)
	res := Result{OK: true}
	ops := []string{"text", "md", "mdopt", "rag", "rag", "doc", "doc", "tables"}
	for k := 0; k < q.N; k++ {
		fmtName := []string{"docx", "odt"}[k%2]
		d := c16RandDoc(rnd, fmtName, 3+rnd.Intn(q.Blocks))
		if rnd.Intn(2) == 0 {
			d.Hdr, d.Ftr = 1, 1
		}
		d.Sheet = nil // (a sheet may leave a block's kind open; histories use determined documents)
		body := d.Body[:0]
		for _, b := range d.Body {
			if b.K == "H" {
				// one plain run: the level is read from the line of the heading's first token,
				// which a leading line break would move off the heading line
				b.Ch = []wpw.Child{{W: "r", A: []string{"t"}}}
			}
			if b.K != "S" {
				body = append(body, b)
			}
		}
		d.Body = body
		// body paragraphs equal to the header / footer line, where the document has one
		for _, a := range []string{"eh", "ef"} {
			if a == "eh" && d.Hdr == 1 || a == "ef" && d.Ftr == 1 {
				at := rnd.Intn(len(d.Body) + 1)
				if at == 0 && len(d.Body) > 0 && d.Body[0].K == "M" && d.Body[0].How == "tracked" {
					at = 1 // text:tracked-changes stays the first child of office:text
				}
				for at < len(d.Body) && d.Body[at].K == "LI" {
					at++ // never inside a list run (it would cut an item from its continuation paragraph)
				}
				echo := wpw.Block{K: "P", Ch: []wpw.Child{{W: "r", A: []string{a}}}, Tb: wpw.Tbl{Hm: [][]int{}, Vm: [][]int{}, Mp: [][]int{}, Rc: [][]int{}}}
				d.Body = append(d.Body[:at], append([]wpw.Block{echo}, d.Body[at:]...)...)
			}
		}
		path, rend, err := c16Write(d, fmt.Sprintf("hrec%d_%d", i, k))
		if err != nil {
			panic("machinery: " + err.Error())
		}
		rd, err := c16OpenReader(path, fmtName)
		ev := c16Events(d, nil)[0]
		ev["event"] = "Open"
		res.Events = append(res.Events, ev)
		if err != nil {
			res.Events = append(res.Events, Event{"event": "Error", "err": err.Error()})
			os.Remove(path)
			continue
		}
		for n := 0; n < 2+rnd.Intn(q.Calls); n++ {
			call := c16HCall{Op: ops[rnd.Intn(len(ops))], Xo: "none"}
			if call.Op == "text" || call.Op == "mdopt" || call.Op == "rag" {
				call.Xo = []string{"none", "h", "f", "hf"}[rnd.Intn(4)]
			}
			if call.Op == "rag" {
				call.Off, call.Mx = rnd.Intn(5)-2, []int{0, 0, 1, 2, 3, 4, 5, 6, 9}[rnd.Intn(9)]
			}
			got := rd.call(call)
			res.Evals++
			e := Event{"event": "Call", "op": call.Op, "off": call.Off, "mx": call.Mx, "xo": call.Xo, "eh": got.Eh, "ef": got.Ef}
			if got.Err != "" {
				e["err"] = got.Err
				e["levels"] = []int{}
			} else {
				e["levels"] = levelsOf(call, got, d, append(append([]int{}, rend.Bases...), rend.NTok))
			}
			res.Events = append(res.Events, e)
		}
		rd.close()
		os.Remove(path)
	}
	return res
}
