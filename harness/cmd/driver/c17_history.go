package main

// C17 histories (SheetHistory.tla): several calls on ONE xlsx.Reader (or one tabula
// Extractor over the .xlsx file).  Every call of a TLC-enumerated history is run in
// order on the same object; its result is compared
//   (b) byte for byte with the same call on a freshly opened reader (purity), and
//   (a) per selected sheet with the displayed cells the specification computed.
// histrecord: random longer histories on random workbooks, one Call event per call
// with the cells read back, for SheetHistoryTrace.tla.

import (
	"encoding/json"
	"fmt"
	"os"
	"regexp"
	"sort"
	"strings"

	tabula "github.com/tsawler/tabula"
	"github.com/tsawler/tabula/model"
	"github.com/tsawler/tabula/rag"
	"github.com/tsawler/tabula/xlsx"

	"verif/internal/ooxmlw"
)

type c17HCall struct {
	Op     string     `json:"op"`  // text | textopt | md | mdopt | rag | doc | tables | sheet | names
	Sel    []int      `json:"sel"` // selected sheets (1-based), empty = all
	Hdr    bool       `json:"hdr"`
	Delim  string     `json:"delim"` // tab | comma
	Meta   bool       `json:"meta"`
	Toc    bool       `json:"toc"`
	Sheets []int      `json:"sheets"` // the sheets the call presents, in its order (spec)
	View   [][]c17Exp `json:"view"`   // ... and the displayed cells of each (spec)
}

type c17HCase struct {
	Kind  string     `json:"kind"`
	Rd    string     `json:"rd"` // reader | facade
	Book  c17Case    `json:"book"`
	Calls []c17HCall `json:"calls"`
}

// c17Handle is the one object a history runs on.
type c17Handle struct {
	r    *xlsx.Reader
	ext  *tabula.Extractor
	path string
}

func c17OpenHandle(path, rd string) (*c17Handle, error) {
	if rd == "facade" {
		return &c17Handle{ext: tabula.Open(path), path: path}, nil
	}
	r, err := xlsx.Open(path)
	return &c17Handle{r: r, path: path}, err
}

func (h *c17Handle) close() {
	if h.r != nil {
		h.r.Close()
	}
	if h.ext != nil {
		h.ext.Close()
	}
}

// c17HResult is what one call returned: Raw is compared byte for byte, Obs are the
// non-blank cells per presented sheet, Flags the merge metadata (sheet accessor).
type c17HResult struct {
	Raw   string
	Err   string
	Obs   [][]c17Obs
	Extra []c17Obs
	Flags *c17Flags
	Count int
}

func c17Zero(sel []int) []int {
	z := make([]int, len(sel))
	for i, s := range sel {
		z[i] = s - 1
	}
	return z
}

func c17DumpDoc(doc *model.Document) string {
	var b strings.Builder
	for i, pg := range doc.Pages {
		fmt.Fprintf(&b, "page %d number=%d elements=%d\n", i, pg.Number, len(pg.Elements))
		for _, el := range pg.Elements {
			if t, ok := el.(*model.Table); ok {
				for _, row := range t.Rows {
					for _, c := range row {
						fmt.Fprintf(&b, "[%q %dx%d h=%v]", c.Text, c.RowSpan, c.ColSpan, c.IsHeader)
					}
					b.WriteString("\n")
				}
			} else {
				fmt.Fprintf(&b, "%T\n", el)
			}
		}
	}
	return b.String()
}

var c17HdrRe = regexp.MustCompile(`^=== .* ===$`)

// run executes one call. exps: expected cells of ALL sheets (for cutting the text into blocks).
func (h *c17Handle) run(c c17HCall, n int, exps [][]c17Exp) c17HResult {
	res := c17HResult{}
	sheets := c.Sheets
	pick := func(all [][]c17Obs) [][]c17Obs {
		out := make([][]c17Obs, len(sheets))
		for k, s := range sheets {
			if s-1 < len(all) {
				out[k] = all[s-1]
			}
		}
		return out
	}
	selExps := make([][]c17Exp, len(sheets))
	for k, s := range sheets {
		selExps[k] = exps[s-1]
	}
	fail := func(err error) c17HResult { return c17HResult{Err: err.Error()} }
	text := func(s string, delim string) {
		res.Raw = s
		var kept []string
		for _, line := range strings.Split(s, "\n") {
			if c.Hdr && c17HdrRe.MatchString(line) {
				continue
			}
			kept = append(kept, line)
		}
		res.Obs, res.Extra = c17SplitTSV(strings.ReplaceAll(strings.Join(kept, "\n"), delim, "\t"), selExps)
	}
	if h.ext != nil {
		switch c.Op {
		case "text":
			s, _, err := h.ext.Text()
			if err != nil {
				return fail(err)
			}
			text(s, "\t")
		case "md":
			s, _, err := h.ext.ToMarkdown()
			if err != nil {
				return fail(err)
			}
			res.Raw, res.Obs = s, pick(c17Markdown(s, exps))
		case "doc":
			doc, _, err := h.ext.Document()
			if err != nil {
				return fail(err)
			}
			res.Raw, res.Obs = c17DumpDoc(doc), pick(c17DocCells(doc, n))
		case "names":
			k, err := h.ext.PageCount()
			if err != nil {
				return fail(err)
			}
			res.Raw, res.Count = fmt.Sprint(k), k
		}
		return res
	}
	r := h.r
	switch c.Op {
	case "text":
		s, err := r.Text()
		if err != nil {
			return fail(err)
		}
		text(s, "\t")
	case "textopt":
		d := map[string]string{"tab": "\t", "comma": ","}[c.Delim]
		s, err := r.TextWithOptions(xlsx.ExtractOptions{Sheets: c17Zero(c.Sel), IncludeHeaders: c.Hdr, Delimiter: d})
		if err != nil {
			return fail(err)
		}
		text(s, d)
	case "md", "mdopt", "rag":
		var s string
		var err error
		switch c.Op {
		case "md":
			s, err = r.Markdown()
		case "mdopt":
			s, err = r.MarkdownWithOptions(xlsx.ExtractOptions{Sheets: c17Zero(c.Sel)})
		default:
			o := rag.DefaultMarkdownOptions()
			o.IncludeMetadata, o.IncludeTableOfContents = c.Meta, c.Toc
			s, err = r.MarkdownWithRAGOptions(xlsx.ExtractOptions{}, o)
		}
		if err != nil {
			return fail(err)
		}
		res.Raw, res.Obs = s, pick(c17Markdown(s, exps))
	case "doc":
		doc, err := r.Document()
		if err != nil {
			return fail(err)
		}
		res.Raw, res.Obs = c17DumpDoc(doc), pick(c17DocCells(doc, n))
	case "tables":
		var b strings.Builder
		all := make([][]c17Obs, n)
		for s, tb := range r.Tables() {
			fmt.Fprintf(&b, "%q %q %q\n", tb.Name, tb.Headers, tb.Rows)
			if s >= n {
				continue
			}
			for i, row := range append([][]string{tb.Headers}, tb.Rows...) {
				for j, txt := range row {
					if txt != "" {
						d, _ := c17Project(txt)
						all[s] = append(all[s], c17Obs{X: j + 1, Y: i + 1, Raw: txt, D: d})
					}
				}
			}
		}
		res.Raw, res.Obs = b.String(), pick(all)
	case "sheet":
		sh, err := r.Sheet(c.Sel[0] - 1)
		if err != nil {
			return fail(err)
		}
		var b strings.Builder
		fl := c17Flags{H: len(sh.Rows), Merged: map[c17Pos]bool{}, Roots: map[c17Pos][2]int{}}
		var obs []c17Obs
		fmt.Fprintf(&b, "%q idx=%d max=%d,%d regions=%v\n", sh.Name, sh.Index, sh.MaxRow, sh.MaxCol, sh.MergedRegions)
		for ri, row := range sh.Rows {
			if len(row) > fl.W {
				fl.W = len(row)
			}
			for ci, cell := range row {
				fmt.Fprintf(&b, "[%q %q %v %v %v %dx%d]", cell.Value, cell.RawValue, cell.Type, cell.IsMerged, cell.IsMergeRoot, cell.MergeRows, cell.MergeCols)
				if cell.IsMerged {
					fl.Merged[c17Pos{ci + 1, ri + 1}] = true
				}
				if cell.IsMergeRoot {
					fl.Roots[c17Pos{ci + 1, ri + 1}] = [2]int{cell.MergeRows, cell.MergeCols}
				}
				if cell.Value != "" {
					d, _ := c17Project(cell.Value)
					obs = append(obs, c17Obs{X: ci + 1, Y: ri + 1, Raw: cell.Value, D: d})
				}
			}
			b.WriteString("\n")
		}
		res.Raw, res.Obs, res.Flags = b.String(), [][]c17Obs{obs}, &fl
	case "names":
		k, _ := r.PageCount()
		res.Raw = fmt.Sprintf("%q %d %d", r.SheetNames(), r.SheetCount(), k)
		res.Count = r.SheetCount()
	}
	return res
}

// c17DocCells reads the first model table of every page.
func c17DocCells(doc *model.Document, n int) [][]c17Obs {
	out := make([][]c17Obs, n)
	for s := 0; s < n && s < len(doc.Pages); s++ {
		for _, el := range doc.Pages[s].Elements {
			if t, ok := el.(*model.Table); ok {
				for i, row := range t.Rows {
					for j, cell := range row {
						if cell.Text != "" {
							d, _ := c17Project(cell.Text)
							out[s] = append(out[s], c17Obs{X: j + 1, Y: i + 1, Raw: cell.Text, D: d})
						}
					}
				}
				break
			}
		}
	}
	return out
}

func c17HRule(op string, k int) string {
	switch op {
	case "sheet":
		return "abs"
	case "text", "textopt":
		if k == 0 {
			return "abs"
		}
		return "rows"
	}
	return "free"
}

func c17HViewName(op string) string {
	switch op {
	case "text", "textopt":
		return "tsv"
	case "md", "mdopt", "rag":
		return "md"
	case "sheet":
		return "grid"
	}
	return op
}

func c17CallName(c c17HCall) string {
	s := c.Op
	if len(c.Sel) > 0 {
		s += fmt.Sprint(c.Sel)
	}
	if c.Hdr {
		s += "+headers"
	}
	if c.Meta || c.Toc {
		s += "+meta/toc"
	}
	return s
}

func c17HistoryCase(i int, raw []byte) Result {
	var c c17HCase
	if err := json.Unmarshal(raw, &c); err != nil {
		return fail("decode", "decode", err.Error(), nil)
	}
	c.Book.applyAlphabet()
	if suf := c17Specials[c.Book.ValSp]; suf != "" {
		for k := range c.Calls {
			for a := range c.Calls[k].View {
				for b := range c.Calls[k].View[a] {
					if c.Calls[k].View[a][b].D.K == "t" {
						c.Calls[k].View[a][b].D.K = "t:" + suf
					}
				}
			}
		}
	}
	path, err := c17WriteFile(c17Workbook(&c.Book).Members(), ".xlsx")
	if err != nil {
		panic(err)
	}
	defer os.Remove(path)
	n := len(c.Book.Sheets)
	exps := make([][]c17Exp, n)
	covered := make([][]c17Pos, n)
	kinds := make([]map[c17Pos]string, n)
	stale := make([]map[c17Disp]bool, n)
	merges := make([][]c17Merge, n)
	for s, sh := range c.Book.Sheets {
		exps[s], covered[s], merges[s] = sh.Cells, sh.Covered, sh.Merges
		kinds[s], stale[s] = map[c17Pos]string{}, map[c17Disp]bool{}
		cov := map[c17Pos]bool{}
		for _, p := range sh.Covered {
			cov[p] = true
		}
		for _, r := range sh.Rows {
			for _, cell := range r.Cells {
				kinds[s][c17Pos{cell.C, cell.R}] = cell.T
				if cov[c17Pos{cell.C, cell.R}] && cell.D.K != "z" {
					stale[s][cell.D] = true
				}
			}
		}
	}
	names := make([]string, len(c.Calls))
	for k, call := range c.Calls {
		names[k] = c17CallName(call)
	}
	res := Result{OK: true, Nontrivial: len(c.Calls) >= 2, Key: c17Key(raw)}
	h, err := c17OpenHandle(path, c.Rd)
	if err != nil {
		return fail("error", "C17:history:open-error", "the valid workbook is rejected: "+err.Error(), map[string]interface{}{"case": json.RawMessage(raw)})
	}
	defer h.close()
	bad := func(k int, sig, what string, obs interface{}) Result {
		x := fail("history", sig, fmt.Sprintf("[one %s, call %d of %v] %s", c.Rd, k+1, names, what), map[string]interface{}{"case": json.RawMessage(raw), "observed": obs})
		x.Nontrivial, x.Key, x.Evals = res.Nontrivial, res.Key, res.Evals
		return x
	}
	freshRun := func(prefix []c17HCall, call c17HCall) c17HResult {
		f, err := c17OpenHandle(path, c.Rd)
		if err != nil {
			panic("machinery: " + err.Error())
		}
		defer f.close()
		for _, p := range prefix {
			f.run(p, n, exps)
		}
		return f.run(call, n, exps)
	}
	for k, call := range c.Calls {
		got := h.run(call, n, exps)
		fresh := freshRun(nil, call)
		res.Evals += 2
		// (b) purity
		if got.Err != fresh.Err || got.Raw != fresh.Raw {
			culprit := "earlier-calls"
			for j := 0; j < k; j++ {
				if x := freshRun(c.Calls[j:j+1], call); x.Raw != fresh.Raw || x.Err != fresh.Err {
					culprit = c18FamilyOf(c.Calls[j].Op)
					break
				}
			}
			return bad(k, "C17:history:"+c.Rd+":after-"+culprit,
				fmt.Sprintf("%s returns something else than on a freshly opened %s: after the earlier calls %q..., fresh %q...", names[k], c.Rd, c17Clip(got.Raw+got.Err, fresh.Raw+fresh.Err), c17Clip(fresh.Raw+fresh.Err, got.Raw+got.Err)),
				map[string]string{"same_object": got.Raw + got.Err, "fresh": fresh.Raw + fresh.Err})
		}
		if got.Err != "" {
			return bad(k, "C17:"+c17HViewName(call.Op)+":error", names[k]+" fails: "+got.Err, got.Err)
		}
		// (a) the spec's cells for this call
		if call.Op == "names" {
			if got.Count != n {
				return bad(k, "C17:names:count", fmt.Sprintf("%s reports %d sheets, the workbook has %d", names[k], got.Count, n), got.Raw)
			}
			continue
		}
		if (call.Op == "text" || call.Op == "textopt") && c17HasNL(exps) {
			continue // only purity is asserted for the text of a workbook with line breaks inside values
		}
		for kk, s := range call.Sheets {
			var obs []c17Obs
			if kk < len(got.Obs) {
				obs = got.Obs[kk]
			}
			if m := c17Compare(c17HViewName(call.Op), c17HRule(call.Op, kk), s-1, call.View[kk], covered[s-1], kinds[s-1], c.Book.RowR, obs, stale[s-1]); m != nil {
				return bad(k, "C17:"+m.View+":"+m.Symptom, fmt.Sprintf("%s, sheet %d: %s", names[k], s, m.What), got.Raw)
			}
		}
		if len(got.Extra) > 0 && !c17HasNL(exps) {
			return bad(k, "C17:tsv:extra", fmt.Sprintf("%s: %d more non-empty fields after the last selected sheet, e.g. %q", names[k], len(got.Extra), got.Extra[0].Raw), got.Raw)
		}
		if got.Flags != nil {
			v := &c17Views{Flags: make([]c17Flags, n)}
			s := call.Sheets[0] - 1
			for x := range v.Flags {
				v.Flags[x] = c17Flags{Merged: map[c17Pos]bool{}, Roots: map[c17Pos][2]int{}}
			}
			v.Flags[s] = *got.Flags
			only := make([][]c17Merge, n)
			only[s] = merges[s]
			if m := c17CheckMerges(v, exps, only); m != nil {
				return bad(k, "C17:"+m.View+":"+m.Symptom, fmt.Sprintf("%s: %s", names[k], m.What), got.Raw)
			}
		}
	}
	return res
}

func c18FamilyOf(op string) string {
	switch op {
	case "text", "textopt":
		return "text"
	case "md", "mdopt", "rag":
		return "markdown"
	}
	return op
}

// c17Clip shows the neighbourhood of the first difference of a against b.
func c17Clip(a, b string) string {
	i := 0
	for i < len(a) && i < len(b) && a[i] == b[i] {
		i++
	}
	lo, hi := i-30, i+50
	if lo < 0 {
		lo = 0
	}
	if hi > len(a) {
		hi = len(a)
	}
	return a[lo:hi]
}

// ------------------------------------------------------------ histrecord

// c17NormObs normalises observed cells the way SheetHistory.NormFor does: absolute for
// the sheet accessor and the first text block, rows to the origin for later text
// blocks, content box to the origin for tables.
func c17NormObs(rule string, obs []c17Obs) []map[string]interface{} {
	minX, minY := 1, 1
	if len(obs) > 0 && rule != "abs" {
		minX, minY = obs[0].X, obs[0].Y
		for _, o := range obs {
			if o.X < minX {
				minX = o.X
			}
			if o.Y < minY {
				minY = o.Y
			}
		}
		if rule == "rows" {
			minX = 1
		}
	}
	out := []map[string]interface{}{}
	for _, o := range obs {
		out = append(out, map[string]interface{}{"c": o.X - minX + 1, "r": o.Y - minY + 1, "d": map[string]interface{}{"k": o.D.K, "v": o.D.V}})
	}
	sort.Slice(out, func(a, b int) bool {
		if out[a]["r"].(int) != out[b]["r"].(int) {
			return out[a]["r"].(int) < out[b]["r"].(int)
		}
		return out[a]["c"].(int) < out[b]["c"].(int)
	})
	return out
}

func c17HistRecord(i int, raw []byte) Result {
	var q struct {
		N     int `json:"n"`
		Cells int `json:"cells"`
		Calls int `json:"calls"`
		Salt  int `json:"salt"`
	}
	if err := json.Unmarshal(raw, &q); err != nil {
		return fail("decode", "decode", err.Error(), nil)
	}
	rnd := newRand(int64(q.Salt)*15485863 + 171)
	var events []Event
	evals := 0
	for w := 0; w < q.N; w++ {
		nsh := 1 + rnd.Intn(3)
		rowR := rnd.Intn(4) != 0
		wb := &ooxmlw.XWorkbook{Extras: true, InfraFirst: true}
		v := 0
		var items [][]map[string]interface{}
		var mseq [][][]int
		exps := make([][]c17Exp, nsh)
		type pend struct{ sh, row, cell int }
		var sharedAt, emptyAt []pend
		for s := 0; s < nsh; s++ {
			merges, cells := c17RandomSheet(rnd, q.Cells, false)
			rnd.Shuffle(len(cells), func(a, b int) { cells[a], cells[b] = cells[b], cells[a] })
			xs := ooxmlw.XSheet{Name: fmt.Sprintf("Sheet%d", s+1), SheetID: s + 1, RID: fmt.Sprintf("rId%d", s+1),
				PartName: fmt.Sprintf("xl/worksheets/sheet%d.xml", s+1), Target: fmt.Sprintf("worksheets/sheet%d.xml", s+1),
				DeclPos: s + 1, RelPos: s + 1, ZipPos: s + 1}
			ms := [][]int{}
			for _, m := range merges {
				ms = append(ms, []int{m[0], m[1], m[2], m[3]})
				xs.Merges = append(xs.Merges, xlsxRef(m[0], m[1])+":"+xlsxRef(m[2], m[3]))
			}
			its := []map[string]interface{}{}
			rowIdx := map[int]int{}
			for _, it := range cells {
				v++
				its = append(its, map[string]interface{}{"c": it.C, "r": it.R, "t": it.T, "v": v})
				d := c17Shown(it.T, v)
				hidden := false
				for _, m := range merges {
					if it.C >= m[0] && it.C <= m[2] && it.R >= m[1] && it.R <= m[3] && !(it.C == m[0] && it.R == m[1]) {
						hidden = true
					}
				}
				if d.K != "z" && !hidden {
					exps[s] = append(exps[s], c17Exp{C: it.C, R: it.R, D: d})
				}
				ri, ok := rowIdx[it.R]
				if !ok {
					ri = len(xs.Rows)
					rowIdx[it.R] = ri
					xs.Rows = append(xs.Rows, ooxmlw.XRow{R: it.R, HasR: rowR})
				}
				switch it.T {
				case "s", "sr":
					sharedAt = append(sharedAt, pend{s, ri, len(xs.Rows[ri].Cells)})
					wb.SST = append(wb.SST, ooxmlw.XSI{Text: c17Tok(v), Rich: it.T == "sr"})
				case "se":
					emptyAt = append(emptyAt, pend{s, ri, len(xs.Rows[ri].Cells)})
				}
				xs.Rows[ri].Cells = append(xs.Rows[ri].Cells, ooxmlw.XCell{Ref: xlsxRef(it.C, it.R), Kind: it.T, Text: c17Content(d)})
			}
			wb.Sheets = append(wb.Sheets, xs)
			items = append(items, its)
			mseq = append(mseq, ms)
		}
		for k, p := range sharedAt {
			wb.Sheets[p.sh].Rows[p.row].Cells[p.cell].SI = k
		}
		if len(emptyAt) > 0 {
			wb.SST = append(wb.SST, ooxmlw.XSI{Empty: true})
			for _, p := range emptyAt {
				wb.Sheets[p.sh].Rows[p.row].Cells[p.cell].SI = len(wb.SST) - 1
			}
		}
		path, err := c17WriteFile(wb.Members(), ".xlsx")
		if err != nil {
			panic(err)
		}
		rd := []string{"reader", "reader", "facade"}[rnd.Intn(3)]
		events = append(events, Event{"event": "Open", "rd": rd, "items": items, "mseq": mseq})
		h, err := c17OpenHandle(path, rd)
		if err != nil {
			events = append(events, Event{"event": "Error", "msg": err.Error()})
			os.Remove(path)
			continue
		}
		for k := 0; k < q.Calls; k++ {
			var call c17HCall
			if rd == "facade" {
				call = c17HCall{Op: []string{"text", "md", "doc", "names"}[rnd.Intn(4)], Sel: []int{}, Delim: "tab"}
			} else {
				call = c17HCall{Op: []string{"text", "textopt", "md", "mdopt", "rag", "doc", "tables", "sheet", "names"}[rnd.Intn(9)], Sel: []int{}, Delim: "tab"}
				switch call.Op {
				case "textopt":
					call.Hdr, call.Delim = rnd.Intn(2) == 0, []string{"tab", "comma"}[rnd.Intn(2)]
					fallthrough
				case "mdopt":
					for _, s := range rnd.Perm(nsh)[:1+rnd.Intn(nsh)] {
						call.Sel = append(call.Sel, s+1)
					}
				case "rag":
					call.Meta, call.Toc = rnd.Intn(2) == 0, rnd.Intn(2) == 0
				case "sheet":
					call.Sel = []int{1 + rnd.Intn(nsh)}
				}
			}
			call.Sheets = call.Sel
			if len(call.Sel) == 0 {
				call.Sheets = nil
				for s := 1; s <= nsh; s++ {
					call.Sheets = append(call.Sheets, s)
				}
			}
			got := h.run(call, nsh, exps)
			evals++
			ev := Event{"event": "Call", "op": call.Op, "sel": call.Sel, "hdr": call.Hdr, "delim": call.Delim, "meta": call.Meta, "toc": call.Toc}
			if got.Err != "" {
				ev["event"], ev["msg"] = "Error", got.Err
			} else if call.Op == "names" {
				ev["view"], ev["count"] = [][]int{}, got.Count
			} else {
				view := [][]map[string]interface{}{}
				for kk := range call.Sheets {
					var obs []c17Obs
					if kk < len(got.Obs) {
						obs = got.Obs[kk]
					}
					view = append(view, c17NormObs(c17HRule(call.Op, kk), obs))
				}
				if len(got.Extra) > 0 {
					view = append(view, c17NormObs("abs", got.Extra))
				}
				ev["view"], ev["count"] = view, nsh
			}
			events = append(events, ev)
		}
		h.close()
		os.Remove(path)
	}
	return Result{OK: true, Events: events, Evals: evals, Nontrivial: true, Key: fmt.Sprintf("hrec%d", q.Salt)}
}
