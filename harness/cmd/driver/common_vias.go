package main

// The public operations of tabula.Extractor as one table: every terminal operation of the fluent API renders the
// pages its extractor selects, and every non-terminal one may keep the handle until Close. The specifications name
// an operation by its key here (Lifecycle.tla's Terminals / NonTerminals, PageSelect's "via"), the drivers call it
// through this table, so a page loop or a release that exists once per operation in the implementation is exercised
// once per operation.

import (
	"fmt"
	"strings"

	tabula "github.com/tsawler/tabula"
	"github.com/tsawler/tabula/layout"
	"github.com/tsawler/tabula/model"
	"github.com/tsawler/tabula/rag"
)

// viaOut is what an operation shows of the pages it read: the text in output order; Complete says that all of the
// page text must be there (headings and lists show only what they classify).
type viaOut struct {
	Text     string
	Complete bool
}

func elementsText(es []layout.LayoutElement) string {
	var b strings.Builder
	var w func(es []layout.LayoutElement)
	w = func(es []layout.LayoutElement) {
		for _, el := range es {
			b.WriteString(el.Text + "\n")
			w(el.Children)
		}
	}
	w(es)
	return b.String()
}

func documentText(doc *model.Document) string {
	var b strings.Builder
	for _, p := range doc.Pages {
		for _, el := range p.Elements {
			switch v := el.(type) {
			case *model.Paragraph:
				b.WriteString(v.Text + "\n")
			case *model.Heading:
				b.WriteString(v.Text + "\n")
			case *model.List:
				for _, it := range v.Items {
					b.WriteString(it.Bullet + " " + it.Text + "\n")
				}
			case *model.Table:
				for _, row := range v.Rows {
					for _, c := range row {
						b.WriteString(c.Text + "\t")
					}
					b.WriteString("\n")
				}
			case *model.Image:
				b.WriteString(v.AltText + "\n")
			default:
				fmt.Fprintf(&b, "%v\n", el)
			}
		}
	}
	return b.String()
}

func chunksText(cc *rag.ChunkCollection) string {
	var b strings.Builder
	for _, ch := range cc.Chunks {
		b.WriteString(ch.Text + "\n")
	}
	return b.String()
}

var terminalVias = []string{"text", "markdown", "mdopts", "fragments", "lines", "paragraphs", "readingorder", "analyze",
	"headings", "lists", "blocks", "elements", "document", "chunks", "chunkscfg"}
var nonTerminalVias = []string{"pagecount", "ischarlevel", "ismulticol"}

// runTerminal performs the terminal operation named via on e.
func runTerminal(e *tabula.Extractor, via string) (viaOut, error) {
	switch via {
	case "text", "":
		s, _, err := e.Text()
		return viaOut{s, true}, err
	case "markdown":
		s, _, err := e.ToMarkdown()
		return viaOut{s, true}, err
	case "mdopts":
		s, _, err := e.ToMarkdownWithOptions(rag.DefaultMarkdownOptions())
		return viaOut{s, true}, err
	case "fragments":
		fs, _, err := e.Fragments()
		var b strings.Builder
		for _, f := range fs {
			b.WriteString(f.Text + " ")
		}
		return viaOut{b.String(), true}, err
	case "lines":
		ls, err := e.Lines()
		var b strings.Builder
		for _, l := range ls {
			b.WriteString(l.Text + "\n")
		}
		return viaOut{b.String(), true}, err
	case "paragraphs":
		ps, err := e.Paragraphs()
		var b strings.Builder
		for _, p := range ps {
			b.WriteString(p.Text + "\n")
		}
		return viaOut{b.String(), true}, err
	case "readingorder":
		ro, err := e.ReadingOrder()
		var b strings.Builder
		if ro != nil {
			for _, f := range ro.Fragments {
				b.WriteString(f.Text + " ")
			}
		}
		return viaOut{b.String(), true}, err
	case "analyze":
		an, err := e.Analyze()
		s := ""
		if an != nil {
			s = elementsText(an.Elements)
		}
		return viaOut{s, true}, err
	case "headings":
		hs, err := e.Headings()
		var b strings.Builder
		for _, h := range hs {
			b.WriteString(h.Text + "\n")
		}
		return viaOut{b.String(), false}, err
	case "lists":
		ls, err := e.Lists()
		var b strings.Builder
		for _, l := range ls {
			for _, it := range l.Items {
				b.WriteString(it.RawText + "\n")
			}
		}
		return viaOut{b.String(), false}, err
	case "blocks":
		bs, err := e.Blocks()
		var b strings.Builder
		for _, bl := range bs {
			for _, f := range bl.Fragments {
				b.WriteString(f.Text + " ")
			}
		}
		return viaOut{b.String(), true}, err
	case "elements":
		es, err := e.Elements()
		return viaOut{elementsText(es), true}, err
	case "document":
		doc, _, err := e.Document()
		s := ""
		if doc != nil {
			s = documentText(doc)
		}
		return viaOut{s, true}, err
	case "chunks":
		cc, _, err := e.Chunks()
		s := ""
		if cc != nil {
			s = chunksText(cc)
		}
		return viaOut{s, true}, err
	case "chunkscfg":
		cc, _, err := e.ChunksWithConfig(rag.DefaultChunkerConfig(), rag.DefaultSizeConfig())
		s := ""
		if cc != nil {
			s = chunksText(cc)
		}
		return viaOut{s, true}, err
	}
	return viaOut{}, fmt.Errorf("MACHINERY: unknown terminal %q", via)
}

// runNonTerminal performs the non-terminal operation named via on e; n is the page count where the operation gives one.
func runNonTerminal(e *tabula.Extractor, via string) (n int, err error) {
	switch via {
	case "pagecount", "":
		return e.PageCount()
	case "ischarlevel":
		_, err := e.IsCharacterLevel()
		return -1, err
	case "ismulticol":
		_, err := e.IsMultiColumn()
		return -1, err
	}
	return -1, fmt.Errorf("MACHINERY: unknown non-terminal %q", via)
}

// isSubsequence reports whether sub occurs in seq in order.
func isSubsequenceInts(sub, seq []int) bool {
	j := 0
	for _, v := range seq {
		if j < len(sub) && sub[j] == v {
			j++
		}
	}
	return j == len(sub)
}
