package main

// C13 — Splitter.tla / Overlap.tla binding.
//
// The driver never judges: it renders abstract texts (characters of 1..4 bytes
// in the classes letter / space / newline / sentence end) to real UTF-8 strings
// (ASCII, accented Latin, CJK, emoji, combining marks), calls the real code and
// projects what comes back to the abstract shape of the specs:
//   Split   {t, r, valid, found, term, unit, limit, cpt}  for SplitterTrace.tla
//   Overlap {t, start, matched, valid, pbytes, pchars, min, max} for OverlapTrace.tla
// The verdict on every event is the trace specification's.
//
// modes: split    TLC-enumerated small texts x units x limits  -> SplitToSize
//        profile  TLC-enumerated profiles of long texts        -> SplitToSize,
//                 ChunkDocumentWithConfig, NewChunkerWithConfig(..).Chunk
//        record   random long texts                            -> the same
//        overlap  TLC-enumerated overlap configurations        -> ApplyOverlapToChunks,
//                 GenerateOverlap, ChunkWithOverlapEnabled
//        overlaprec  random overlap configurations

import (
	"encoding/json"
	"fmt"
	"math/rand"
	"sort"
	"strings"
	"time"
	"unicode"
	"unicode/utf8"

	"github.com/tsawler/tabula/model"
	"github.com/tsawler/tabula/rag"
)

func init() { handlers["c13"] = c13 }

// ---------------------------------------------------------------- rendering

var c13Letters = map[int][]rune{
	1: []rune("abcdefghijklmnopqrstuvwxyz"),
	2: []rune("éàñöжяλπ́ü"), // 'à' = C3 A0, U+0301 = combining acute
	3: []rune("日本語だ文字漢デあ"), // 'だ' = E3 81 A0, U+3099 = combining voiced mark
	4: []rune("😀🚀𝒳🎉𠀋"),
}

// c13Render renders runs <<w, c, n>> to a string.  A 1-byte letter that starts
// the text or follows a sentence end is upper case, so that sentence detectors
// that want a capital after ". " see one.
func c13Render(runs [][3]int) string {
	var sb strings.Builder
	k := 0
	capNext := true
	for _, r := range runs {
		w, c, n := r[0], r[1], r[2]
		for j := 0; j < n; j++ {
			switch c {
			case 0:
				ls := c13Letters[w]
				ch := ls[k%len(ls)]
				k++
				if w == 1 && capNext {
					ch = unicode.ToUpper(ch)
				}
				capNext = false
				sb.WriteRune(ch)
			case 1:
				switch w {
				case 1:
					sb.WriteByte(' ')
				case 2:
					sb.WriteRune(' ')
				default:
					sb.WriteRune('　')
				}
			case 2:
				sb.WriteByte('\n')
			case 3:
				sb.WriteByte(".!?"[k%3])
				capNext = true
			}
		}
	}
	return sb.String()
}

func c13Class(r rune) int {
	switch {
	case r == '\n':
		return 2
	case unicode.IsSpace(r):
		return 1
	case r == '.' || r == '!' || r == '?':
		return 3
	}
	return 0
}

// c13RunsOf projects a string to run-length encoded abstract characters.  A byte
// that is not part of a valid encoding counts as a 1-byte letter.
func c13RunsOf(s string) [][3]int {
	runs := [][3]int{}
	for i := 0; i < len(s); {
		r, w := utf8.DecodeRuneInString(s[i:])
		c := 0
		if r == utf8.RuneError && w == 1 {
			c = 0
		} else {
			c = c13Class(r)
		}
		if n := len(runs); n > 0 && runs[n-1][0] == w && runs[n-1][1] == c {
			runs[n-1][2]++
		} else {
			runs = append(runs, [3]int{w, c, 1})
		}
		i += w
	}
	return runs
}

// c13NonWhite returns the offsets of the bytes of s that belong to non-white
// characters (bytes that are not valid UTF-8 count as non-white).
func c13NonWhite(s string) []int {
	var offs []int
	for i := 0; i < len(s); {
		r, w := utf8.DecodeRuneInString(s[i:])
		if !unicode.IsSpace(r) {
			for j := 0; j < w; j++ {
				offs = append(offs, i+j)
			}
		}
		i += w
	}
	return offs
}

// c13Locate finds where the pieces lie in text, ignoring white space: the range
// of a piece is the extent of its non-white content.  found = every piece was
// matched, in order, without overlap.
func c13Locate(text string, pieces []string) (ranges [][2]int, found bool) {
	nw := c13NonWhite(text)
	k := 0
	ranges = [][2]int{}
	for _, p := range pieces {
		pn := c13NonWhite(p)
		if len(pn) == 0 {
			pos := len(text)
			if k < len(nw) {
				pos = nw[k]
			}
			if n := len(ranges); n > 0 && ranges[n-1][1] > pos {
				pos = ranges[n-1][1]
			}
			ranges = append(ranges, [2]int{pos, pos})
			continue
		}
		if k+len(pn) > len(nw) {
			return ranges, false
		}
		for j, o := range pn {
			if p[o] != text[nw[k+j]] {
				return ranges, false
			}
		}
		ranges = append(ranges, [2]int{nw[k], nw[k+len(pn)-1] + 1})
		k += len(pn)
	}
	return ranges, true
}

var c13UnitNames = map[string]rag.SizeUnit{"characters": rag.SizeUnitCharacters, "tokens": rag.SizeUnitTokens,
	"words": rag.SizeUnitWords, "sentences": rag.SizeUnitSentences, "paragraphs": rag.SizeUnitParagraphs}

func c13SizeConfig(unit string, limit, cpt int) rag.SizeConfig {
	u := c13UnitNames[unit]
	return rag.SizeConfig{
		Target:                      rag.SizeLimit{Value: limit, Unit: u, Type: rag.LimitTypeSoft},
		Min:                         rag.SizeLimit{Value: 1, Unit: u, Type: rag.LimitTypeSoft},
		Max:                         rag.SizeLimit{Value: limit, Unit: u, Type: rag.LimitTypeHard},
		TokensPerChar:               1 / float64(cpt),
		AllowExceedForAtomicContent: true,
		MergeSmallChunks:            true,
		SplitAtSemanticBoundaries:   true,
	}
}

// c13Timed runs f with a deadline; a call that does not return is reported as
// term = false (the goroutine is abandoned).
func c13Timed(f func() []string) (out []string, term bool, panicked interface{}) {
	type res struct {
		out []string
		p   interface{}
	}
	ch := make(chan res, 1)
	go func() {
		defer func() {
			if p := recover(); p != nil {
				ch <- res{nil, p}
			}
		}()
		ch <- res{f(), nil}
	}()
	select {
	case r := <-ch:
		return r.out, true, r.p
	case <-time.After(20 * time.Second):
		return nil, false, nil
	}
}

func c13SplitEvent(text string, pieces []string, term bool, unit string, limit, cpt int, api, tag string) Event {
	valid := make([]bool, len(pieces))
	pc := make([]int, len(pieces))
	lm := make([]int, len(pieces))
	u := c13UnitNames[unit]
	calc := rag.NewSizeCalculatorWithConfig(c13SizeConfig(unit, limit, cpt))
	for i, p := range pieces {
		valid[i] = utf8.ValidString(p)
		pc[i] = utf8.RuneCountInString(strings.TrimSpace(p))
		lm[i] = calc.Calculate(strings.TrimSpace(p)).GetByUnit(u) // the library's own metric of the piece
	}
	ranges, found := c13Locate(text, pieces)
	if !found {
		pc = pc[:len(ranges)]
	}
	return Event{"event": "Split", "t": c13RunsOf(text), "r": ranges, "pc": pc, "lm": lm, "valid": valid, "found": found, "term": term,
		"unit": unit, "limit": limit, "cpt": cpt, "api": api, "tag": tag, "npieces": len(pieces)}
}

// c13MetricsEvent: what every size accessor of one calculator says about one text.
func c13MetricsEvent(cfg rag.SizeConfig, text, unit string, limit int, what string) Event {
	calc := rag.NewSizeCalculatorWithConfig(cfg)
	units := []rag.SizeUnit{rag.SizeUnitCharacters, rag.SizeUnitTokens, rag.SizeUnitWords, rag.SizeUnitSentences, rag.SizeUnitParagraphs}
	m := calc.Calculate(text)
	chk := calc.Check(text)
	c, g, k := make([]int, 5), make([]int, 5), make([]int, 5)
	for i, u := range units {
		c[i], g[i], k[i] = m.GetByUnit(u), calc.GetSize(text, u), chk.Metrics.GetByUnit(u)
	}
	return Event{"event": "Metrics", "unit": unit, "limit": limit, "min": cfg.Min.Value, "what": what, "bytes": len(text), "chars": utf8.RuneCountInString(text),
		"m": map[string]interface{}{"calc": c, "get": g, "check": k,
			"above": calc.IsAboveMax(text), "exceeds": calc.ExceedsLimit(text, cfg.Max), "below": calc.IsBelowMin(text),
			"checkOver": !chk.IsValid && chk.SuggestedAction == rag.SizeActionTruncate}}
}

func c13Tag(text string) string {
	multi, ascii, space := 0, 0, 0
	for _, r := range text {
		switch {
		case unicode.IsSpace(r):
			space++
		case r < 0x80:
			ascii++
		default:
			multi++
		}
	}
	switch {
	case multi == 0 && ascii == 0:
		return "white"
	case multi == 0:
		return "ascii"
	case ascii == 0:
		return "multibyte"
	}
	return "mixed"
}

// ---------------------------------------------------------------- split (small cases)

type c13SplitCase struct {
	T     [][3]int `json:"t"`
	Unit  string   `json:"unit"`
	Limit int      `json:"limit"`
}

func c13Split(in, out string) error {
	return runCases(in, out, func(i int, raw []byte) Result {
		var c c13SplitCase
		if err := json.Unmarshal(raw, &c); err != nil {
			return fail("decode", "decode", err.Error(), nil)
		}
		text := c13Render(c.T)
		cfg := c13SizeConfig(c.Unit, c.Limit, 4)
		pieces, term, p := c13Timed(func() []string { return rag.NewSizeCalculatorWithConfig(cfg).SplitToSize(text, nil) })
		if p != nil {
			return fail("panic", "C13:panic:SplitToSize", fmt.Sprintf("SplitToSize(%q, %s max %d) panics: %v", text, c.Unit, c.Limit, p),
				map[string]interface{}{"case": json.RawMessage(raw), "text": text})
		}
		ev := c13SplitEvent(text, pieces, term, c.Unit, c.Limit, 4, "SplitToSize", c13Tag(text))
		if len(text) <= 48 {
			ev["text"] = text
		}
		res := Result{OK: true, Events: []Event{ev}, Evals: 1, Nontrivial: len(pieces) >= 2, Key: string(raw)}
		if c.Unit != "characters" {
			return res
		}
		// the same small text as one paragraph through the chunkers: with a maximum this
		// small every text is an oversized element, so the sentence packing of rag.Chunker
		// (splitIntoSentences) sees every arrangement of letters, sentence ends and spaces
		mkdoc := func() *model.Document {
			d := model.NewDocument()
			pg := model.NewPage(612, 792)
			pg.Number = 1
			pg.Elements = append(pg.Elements, &model.Paragraph{Text: text})
			pg.Layout = &model.PageLayout{Paragraphs: []model.ParagraphInfo{{Text: text}}}
			d.Pages = append(d.Pages, pg)
			return d
		}
		cc := rag.DefaultChunkerConfig()
		cc.MaxChunkSize, cc.TargetChunkSize, cc.MinChunkSize = c.Limit, c.Limit, 1
		for _, run := range []struct {
			api string
			f   func() []string
		}{
			{"Chunker.Chunk", func() []string {
				r, err := rag.NewChunkerWithConfig(cc).Chunk(mkdoc())
				if err != nil {
					panic(err)
				}
				var out []string
				for _, ch := range r.Chunks {
					out = append(out, ch.Text)
				}
				return out
			}},
			{"ChunkDocumentWithConfig", func() []string {
				var out []string
				for _, ch := range rag.ChunkDocumentWithConfig(mkdoc(), rag.DefaultChunkerConfig(), cfg).Chunks {
					out = append(out, ch.Text)
				}
				return out
			}},
		} {
			pieces, term, p := c13Timed(run.f)
			res.Evals++
			if p != nil {
				x := fail("panic", "C13:panic:"+run.api, fmt.Sprintf("%s panics on the paragraph %q (characters max %d): %v", run.api, text, c.Limit, p),
					map[string]interface{}{"mode": "split", "case": json.RawMessage(raw), "text": text})
				x.Key, x.Evals = res.Key, res.Evals
				return x
			}
			e2 := c13SplitEvent(text, pieces, term, c.Unit, c.Limit, 4, run.api, c13Tag(text))
			if len(text) <= 48 {
				e2["text"] = text
			}
			res.Events = append(res.Events, e2)
		}
		return res
	})
}

// ---------------------------------------------------------------- profiles (long texts)

type c13Seg struct {
	Wl  int    `json:"wl"`  // letters per word
	Cw  int    `json:"cw"`  // bytes per letter
	Sep string `json:"sep"` // sp | nl | dot | nbsp | none
}

type c13Probe struct {
	D1 int `json:"d1"`
	D2 int `json:"d2"`
}

// c13Sweep: a text whose byte length and character count differ (SplitterProf.tla).
type c13Sweep struct {
	Cuts int    `json:"cuts"`
	Zone string `json:"zone"`
	W    int    `json:"w"`
	E    int    `json:"e"`
	D    int    `json:"d"`
}

type c13Profile struct {
	Sweep *c13Sweep `json:"sweep,omitempty"`
	Probe *c13Probe `json:"probe,omitempty"`
	Prof  []c13Seg  `json:"prof"`
	Unit  string    `json:"unit"`
	Limit int       `json:"limit"`
	Cpt   int       `json:"cpt"`
}

// c13Expand repeats the segments until the text has at least want bytes.
func c13Expand(p []c13Seg, want int) [][3]int {
	var runs [][3]int
	total := 0
	for round := 0; total < want; round++ {
		for si, s := range p {
			reps := 1 + (si+round)%3
			for r := 0; r < reps; r++ {
				runs = append(runs, [3]int{s.Cw, 0, s.Wl})
				total += s.Cw * s.Wl
				switch s.Sep {
				case "sp":
					runs = append(runs, [3]int{1, 1, 1})
					total++
				case "nl":
					runs = append(runs, [3]int{1, 2, 1})
					total++
				case "dot":
					runs = append(runs, [3]int{1, 3, 1}, [3]int{1, 1, 1})
					total += 2
				case "nbsp":
					runs = append(runs, [3]int{2, 1, 1})
					total += 2
				case "dotcap":
					// a sentence end followed at once by a capital and a period: "word.A. "
					runs = append(runs, [3]int{1, 3, 1}, [3]int{1, 0, 1}, [3]int{1, 3, 1}, [3]int{1, 1, 1})
					total += 4
				case "abbr":
					// abbreviation-like tokens after the word: "word U.S.A. "
					runs = append(runs, [3]int{1, 1, 1}, [3]int{1, 0, 1}, [3]int{1, 3, 1}, [3]int{1, 0, 1}, [3]int{1, 3, 1}, [3]int{1, 0, 1}, [3]int{1, 3, 1}, [3]int{1, 1, 1})
					total += 8
				case "dotfar":
					// a sentence of 15 words: sentence ends about 150 bytes apart
					for k := 0; k < 14; k++ {
						runs = append(runs, [3]int{1, 1, 1}, [3]int{s.Cw, 0, s.Wl})
						total += 1 + s.Cw*s.Wl
					}
					runs = append(runs, [3]int{1, 3, 1}, [3]int{1, 1, 1})
					total += 2
				case "para":
					runs = append(runs, [3]int{1, 3, 1}, [3]int{1, 2, 2})
					total += 3
				}
			}
		}
		if len(p) == 0 {
			break
		}
	}
	return runs
}

// c13ProbeRuns: ASCII prose of about 2.6 x l bytes with a space at least every 10
// bytes whose only sentence ends ('.' followed by a space) lie at byte l+d1 and
// l+d2 (999 = none): break positions just before / at / just after the limit
// position l and the edges of the split search windows.
func c13ProbeRuns(l int, pr c13Probe) [][3]int {
	t := l*26/10 + 7
	kind := make([]int, t) // 0 letter, 1 space, 3 sentence end
	for _, d := range []int{pr.D1, pr.D2} {
		if p := l + d; d != 999 && p >= 1 && p < t-2 {
			kind[p], kind[p+1] = 3, 1
		}
	}
	run := 0
	for i := 0; i < t-1; i++ {
		switch {
		case kind[i] == 1:
			run = 0
		case run >= 9 && kind[i] == 0 && kind[i+1] != 3:
			kind[i], run = 1, 0
		default:
			run++
		}
	}
	var runs [][3]int
	for _, k := range kind {
		if n := len(runs); n > 0 && runs[n-1][1] == k {
			runs[n-1][2]++
		} else {
			runs = append(runs, [3]int{1, k, 1})
		}
	}
	return runs
}

// c13AsciiWords: exactly n bytes of 9-letter words (a space at every 10th byte);
// closed = the last byte may be that space (the block is followed by more text).
func c13AsciiWords(n int, closed bool) [][3]int {
	var runs [][3]int
	for p := 0; p < n; p++ {
		k := 0
		if p%10 == 9 && (closed || p != n-1) {
			k = 1
		}
		if m := len(runs); m > 0 && runs[m-1][1] == k {
			runs[m-1][2]++
		} else {
			runs = append(runs, [3]int{1, k, 1})
		}
	}
	return runs
}

// c13SweepRuns: cuts x stride bytes of ASCII words (whole pieces), then a last
// segment of mb + d bytes in which e characters are w bytes wide, standing at its
// head, around byte "stride" of the segment (where a further cut would fall) or at
// its tail.  Words never exceed 10 bytes.
func c13SweepRuns(mb int, sw c13Sweep) [][3]int {
	stride := 10 * ((mb + 1) / 10)
	runs := c13AsciiWords(sw.Cuts*stride, true)
	seg := mb + sw.D
	// the block of wide characters: words of at most 9 bytes
	per := 9 / sw.W
	var block [][3]int
	bb := 0
	for left := sw.E; left > 0; left -= per {
		n := per
		if left < per {
			n = left
		}
		if bb > 0 {
			block = append(block, [3]int{1, 1, 1})
			bb++
		}
		block = append(block, [3]int{sw.W, 0, n})
		bb += n * sw.W
	}
	before := 0 // bytes in front of the block, including the separating space
	switch sw.Zone {
	case "cut":
		before = mb - bb/2 - 1 // the block straddles the limit position
	case "tail":
		before = seg - bb
	}
	if before+bb > seg {
		before = seg - bb
	}
	if before < 2 {
		before = 0
	}
	if before > 0 {
		runs = append(runs, c13AsciiWords(before-1, false)...)
		runs = append(runs, [3]int{1, 1, 1})
	}
	runs = append(runs, block...)
	if after := seg - before - bb; after >= 2 {
		runs = append(runs, [3]int{1, 1, 1})
		runs = append(runs, c13AsciiWords(after-1, false)...)
	} else if after == 1 {
		runs = append(runs, [3]int{1, 0, 1})
	}
	return runs
}

func c13MaxBytes(unit string, limit, cpt int) int {
	switch unit {
	case "tokens":
		return limit * cpt
	case "words":
		return limit * 6
	case "sentences":
		return limit * 80
	case "paragraphs":
		return limit * 400
	}
	return limit
}

// c13RunProfile: the text through SplitToSize, through the DocumentChunker and
// (characters only) through the layout Chunker.
func c13RunProfile(pr c13Profile, raw []byte, withChunkers bool) Result {
	if pr.Cpt == 0 {
		pr.Cpt = 4
	}
	mb := c13MaxBytes(pr.Unit, pr.Limit, pr.Cpt)
	// total length between 2.0 and 4.2 times the maximum, varied by the profile so
	// that the last remainder falls on both sides of the limit
	h := pr.Limit
	for _, sg := range pr.Prof {
		h = h*31 + sg.Wl*7 + sg.Cw*3 + len(sg.Sep)
	}
	runs := c13Expand(pr.Prof, mb*(20+h%23)/10+h%7)
	if pr.Probe != nil {
		runs = c13ProbeRuns(mb, *pr.Probe)
	}
	if pr.Sweep != nil {
		runs = c13SweepRuns(mb, *pr.Sweep)
	}
	text := c13Render(runs)
	tag := c13Tag(text)
	cfg := c13SizeConfig(pr.Unit, pr.Limit, pr.Cpt)
	res := Result{OK: true, Key: string(raw)}
	bad := func(api string, p interface{}) Result {
		return fail("panic", "C13:panic:"+api, fmt.Sprintf("%s panics on a %d-byte %s text (%s max %d): %v", api, len(text), tag, pr.Unit, pr.Limit, p),
			map[string]interface{}{"case": json.RawMessage(raw), "text": text})
	}
	pieces, term, p := c13Timed(func() []string { return rag.NewSizeCalculatorWithConfig(cfg).SplitToSize(text, nil) })
	res.Evals++
	if p != nil {
		return bad("SplitToSize", p)
	}
	res.Nontrivial = len(pieces) >= 2
	res.Events = append(res.Events, c13SplitEvent(text, pieces, term, pr.Unit, pr.Limit, pr.Cpt, "SplitToSize", tag))
	// the size accessors on the whole text and on the last pieces (the remainder is
	// where a measure that disagrees with the others shows)
	res.Events = append(res.Events, c13MetricsEvent(cfg, text, pr.Unit, pr.Limit, "text"))
	for k := len(pieces) - 1; k >= 0 && k >= len(pieces)-2; k-- {
		res.Events = append(res.Events, c13MetricsEvent(cfg, pieces[k], pr.Unit, pr.Limit, fmt.Sprintf("piece %d of %d", k+1, len(pieces))))
	}
	// reuse: ONE calculator splits the text, a shorter one, a longer one and the text
	// again (other methods called in between); every answer must be a fresh calculator's
	if len(runs) >= 2 && h%2 == 0 {
		short, long := c13Render(runs[:len(runs)/2]), text+" "+text
		calc := rag.NewSizeCalculatorWithConfig(cfg)
		for call, t := range []string{text, short, long, c13Rotate(text), text} {
			var got, want []string
			_, term, p := c13Timed(func() []string {
				got = calc.SplitToSize(t, nil)
				calc.Calculate(short)
				calc.Check(long)
				calc.FindSplitPoint(text, nil)
				want = rag.NewSizeCalculatorWithConfig(cfg).SplitToSize(t, nil)
				return nil
			})
			res.Evals += 2
			if p != nil || !term {
				break
			}
			res.Events = append(res.Events, c13ReuseEvent("SizeCalculator", strings.Join(got, "\x00") == strings.Join(want, "\x00") && len(got) == len(want), call))
			if call >= 1 && call <= 3 {
				res.Events = append(res.Events, c13SplitEvent(t, got, true, pr.Unit, pr.Limit, pr.Cpt, "SplitToSize", c13Tag(t)))
			}
		}
	}
	if !withChunkers {
		return res
	}
	// DocumentChunker: one page, the text as one paragraph -> one text block
	mkdoc := func() *model.Document {
		d := model.NewDocument()
		pg := model.NewPage(612, 792)
		pg.Number = 1
		pg.Elements = append(pg.Elements, &model.Paragraph{Text: text})
		pg.Layout = &model.PageLayout{Paragraphs: []model.ParagraphInfo{{Text: text}}}
		d.Pages = append(d.Pages, pg)
		return d
	}
	pieces, term, p = c13Timed(func() []string {
		var out []string
		for _, ch := range rag.ChunkDocumentWithConfig(mkdoc(), rag.DefaultChunkerConfig(), cfg).Chunks {
			out = append(out, ch.Text)
		}
		return out
	})
	res.Evals++
	if p != nil {
		return bad("ChunkDocumentWithConfig", p)
	}
	res.Events = append(res.Events, c13SplitEvent(text, pieces, term, pr.Unit, pr.Limit, pr.Cpt, "ChunkDocumentWithConfig", tag))
	if pr.Unit == "characters" {
		cc := rag.DefaultChunkerConfig()
		cc.MaxChunkSize, cc.TargetChunkSize, cc.MinChunkSize = pr.Limit, pr.Limit/2, 20
		pieces, term, p = c13Timed(func() []string {
			r, err := rag.NewChunkerWithConfig(cc).Chunk(mkdoc())
			if err != nil {
				panic(err)
			}
			var out []string
			for _, ch := range r.Chunks {
				out = append(out, ch.Text)
			}
			return out
		})
		res.Evals++
		if p != nil {
			return bad("Chunker.Chunk", p)
		}
		res.Events = append(res.Events, c13SplitEvent(text, pieces, term, pr.Unit, pr.Limit, pr.Cpt, "Chunker.Chunk", tag))
	}
	return res
}

func c13ProfileMode(in, out string) error {
	return runCases(in, out, func(i int, raw []byte) Result {
		var pr c13Profile
		if err := json.Unmarshal(raw, &pr); err != nil {
			return fail("decode", "decode", err.Error(), nil)
		}
		return c13RunProfile(pr, raw, true)
	})
}

func c13RandProfile(rnd *rand.Rand) c13Profile {
	var pr c13Profile
	n := 1 + rnd.Intn(4)
	seps := []string{"sp", "sp", "sp", "nl", "dot", "dot", "dotfar", "dotfar", "nbsp", "none", "para", "dotcap", "abbr"}
	for j := 0; j < n; j++ {
		s := c13Seg{Cw: 1 + rnd.Intn(4), Sep: seps[rnd.Intn(len(seps))]}
		switch rnd.Intn(5) {
		case 0:
			s.Wl = 1 + rnd.Intn(3)
		case 1, 2:
			s.Wl = 3 + rnd.Intn(9)
		case 3:
			s.Wl = 49 / s.Cw // the longest word that still leaves a break every 50 bytes
		default:
			s.Wl = 60 + rnd.Intn(200)
		}
		pr.Prof = append(pr.Prof, s)
	}
	switch rnd.Intn(10) {
	case 0:
		pr.Unit, pr.Limit = "words", 1+rnd.Intn(60)
	case 1:
		pr.Unit, pr.Limit = "sentences", 1+rnd.Intn(6)
	case 2:
		pr.Unit, pr.Limit = "paragraphs", 1+rnd.Intn(3)
	case 3, 4, 5:
		pr.Unit, pr.Limit = "tokens", []int{1, 7, 50, 64, 101, 200, 200, 257}[rnd.Intn(8)]
	default:
		pr.Unit, pr.Limit = "characters", []int{1, 5, 31, 200, 201, 257, 400, 999}[rnd.Intn(8)]
	}
	pr.Cpt = []int{4, 4, 2, 5, 1, 10}[rnd.Intn(6)] // TokensPerChar 0.25, 0.5, 0.2, 1.0, 0.1
	return pr
}

func c13Record(in, out string) error {
	type req struct {
		N int `json:"n"`
	}
	return runCases(in, out, func(i int, raw []byte) Result {
		var q req
		if err := json.Unmarshal(raw, &q); err != nil {
			return fail("decode", "decode", err.Error(), nil)
		}
		rnd := newRand(int64(i) + 1300)
		res := Result{OK: true}
		for k := 0; k < q.N; k++ {
			pr := c13RandProfile(rnd)
			r := c13RunProfile(pr, mustJSON(pr), true)
			res.Evals += r.Evals
			if !r.OK {
				r.Evals = res.Evals
				return r
			}
			res.Events = append(res.Events, r.Events...)
		}
		return res
	})
}

// ---------------------------------------------------------------- overlap

type c13ChunkKind struct {
	Ns int `json:"ns"` // sentences
	Sl int `json:"sl"` // words per sentence
	Cw int `json:"cw"` // bytes per letter
}

type c13OverlapCase struct {
	Chunks   []c13ChunkKind `json:"chunks"`
	Strategy string         `json:"strategy"`
	Size     int            `json:"size"`
	Min      int            `json:"min"`
	Max      int            `json:"max"`
	Pw       bool           `json:"pw"`
	Ctx      bool           `json:"ctx"`
}

var c13Strategies = map[string]rag.OverlapStrategy{"character": rag.OverlapCharacter, "sentence": rag.OverlapSentence, "paragraph": rag.OverlapParagraph}

func c13ChunkText(k c13ChunkKind, salt int) string {
	var runs [][3]int
	for s := 0; s < k.Ns; s++ {
		for w := 0; w < k.Sl; w++ {
			runs = append(runs, [3]int{k.Cw, 0, 2 + (w+s+salt)%7})
			if w < k.Sl-1 {
				runs = append(runs, [3]int{1, 1, 1})
			}
		}
		runs = append(runs, [3]int{1, 3, 1})
		if s < k.Ns-1 {
			if k.Ns >= 4 && s == k.Ns/2-1 {
				runs = append(runs, [3]int{1, 2, 2})
			} else {
				runs = append(runs, [3]int{1, 1, 1})
			}
		}
	}
	return c13Render(runs)
}

// c13OverlapEvent projects one observed overlap: prevOwn = the previous chunk's
// own content, ptext = the overlap text the chunk was given.
func c13OverlapEvent(prevOwn, ptext string, min, max int, api, strategy string) Event {
	po := c13NonWhite(prevOwn)
	pp := c13NonWhite(ptext)
	matched := len(pp) <= len(po)
	start := len(prevOwn)
	if matched {
		base := len(po) - len(pp)
		for j, o := range pp {
			if ptext[o] != prevOwn[po[base+j]] {
				matched = false
				break
			}
		}
		if matched && len(pp) > 0 {
			start = po[base]
		}
	}
	if !matched {
		start = 0
	}
	return Event{"event": "Overlap", "t": c13RunsOf(prevOwn), "start": start, "matched": matched, "valid": utf8.ValidString(ptext),
		"pbytes": len(ptext), "pchars": utf8.RuneCountInString(ptext), "min": min, "max": max, "api": api, "strategy": strategy}
}

// c13Added returns the overlap text a chunk was given: its text minus its own
// content at the end, minus the optional "[section title]" context line.
func c13Added(text, own, title string, ctx bool) (string, bool) {
	if text == own {
		return "", true
	}
	if !strings.HasSuffix(text, own) {
		return "", false
	}
	added := text[:len(text)-len(own)]
	if ctx && title != "" {
		added = strings.TrimPrefix(added, "["+title+"]\n\n")
	}
	return strings.TrimSpace(added), true
}

func c13RunOverlap(c c13OverlapCase, raw []byte) Result {
	res := Result{OK: true, Key: string(raw)}
	cfg := rag.OverlapConfig{Strategy: c13Strategies[c.Strategy], Size: c.Size, MinOverlap: c.Min, MaxOverlap: c.Max,
		PreserveWords: c.Pw, IncludeHeadingContext: c.Ctx}
	own := make([]string, len(c.Chunks))
	chunks := make([]*rag.Chunk, len(c.Chunks))
	for i, k := range c.Chunks {
		own[i] = c13ChunkText(k, i)
		chunks[i] = rag.NewChunk(fmt.Sprintf("c%d", i), own[i], rag.ChunkMetadata{ChunkIndex: i, SectionTitle: "Section title", SectionPath: []string{"Section title"}})
	}
	bad := func(api string, p interface{}) Result {
		return fail("panic", "C13:panic:"+api, fmt.Sprintf("%s panics: %v", api, p), map[string]interface{}{"case": json.RawMessage(raw)})
	}
	// (a) GenerateOverlap on every own text
	gen := rag.NewOverlapGeneratorWithConfig(cfg)
	for i := range own {
		var o *rag.OverlapResult
		_, _, p := c13Timed(func() []string { o = gen.GenerateOverlap(own[i]); return nil })
		res.Evals++
		if p != nil {
			return bad("GenerateOverlap", p)
		}
		if o != nil && o.Text != "" {
			res.Nontrivial = true
		}
		if o != nil {
			res.Events = append(res.Events, c13OverlapEvent(own[i], o.Text, c.Min, c.Max, "GenerateOverlap", c.Strategy))
			// the generator is reused for every text: each answer must be a fresh generator's
			res.Events = append(res.Events, c13ReuseEvent("OverlapGenerator", c13SameOverlap(o, rag.NewOverlapGeneratorWithConfig(cfg).GenerateOverlap(own[i])), i))
		}
	}
	if len(own) > 0 { // a different text of the same length is a different question
		rot := c13Rotate(own[0])
		res.Events = append(res.Events, c13ReuseEvent("OverlapGenerator", c13SameOverlap(gen.GenerateOverlap(rot), rag.NewOverlapGeneratorWithConfig(cfg).GenerateOverlap(rot)), -1))
		res.Evals++
	}
	if len(own) > 1 { // ... and asking again for the first text gives the first answer
		first := rag.NewOverlapGeneratorWithConfig(cfg).GenerateOverlap(own[0])
		res.Events = append(res.Events, c13ReuseEvent("OverlapGenerator", c13SameOverlap(gen.GenerateOverlap(own[0]), first), len(own)))
		res.Evals++
	}
	// (b) ApplyOverlapToChunks: what it adds, and what it changes in the chunks it was given
	before := c13Snaps(chunks)
	var with []*rag.ChunkWithOverlap
	_, _, p := c13Timed(func() []string { with = rag.ApplyOverlapToChunks(chunks, cfg); return nil })
	res.Evals++
	if p != nil {
		return bad("ApplyOverlapToChunks", p)
	}
	res.Events = append(res.Events, c13FrameEvent(before, chunks, own, 1))
	defer func() {
		if !res.OK {
			return
		}
		// (c) applied a second time to the same chunks, the contract holds relative to
		// the texts the second call was given
		given := make([]string, len(chunks))
		for i, ch := range chunks {
			given[i] = ch.Text
		}
		before2 := c13Snaps(chunks)
		var with2 []*rag.ChunkWithOverlap
		_, _, p := c13Timed(func() []string { with2 = rag.ApplyOverlapToChunks(chunks, cfg); return nil })
		res.Evals++
		if p != nil || len(with2) != len(chunks) {
			return
		}
		res.Events = append(res.Events, c13FrameEvent(before2, chunks, given, 2))
		for i := 1; i < len(with2); i++ {
			if added, ok := c13Added(with2[i].Chunk.Text, given[i], "Section title", c.Ctx); ok {
				res.Events = append(res.Events, c13OverlapEvent(given[i-1], added, c.Min, c.Max, "ApplyOverlapToChunks:second-call", c.Strategy))
			}
		}
	}()
	for i := 1; i < len(with); i++ {
		added, ok := c13Added(with[i].Chunk.Text, own[i], "Section title", c.Ctx)
		if !ok {
			// the chunk's own content is no longer the end of its text: report it as an
			// overlap that matches nothing
			res.Events = append(res.Events, Event{"event": "Overlap", "t": c13RunsOf(own[i-1]), "start": 0, "matched": false, "valid": utf8.ValidString(with[i].Chunk.Text),
				"pbytes": len(with[i].Chunk.Text), "pchars": utf8.RuneCountInString(with[i].Chunk.Text), "min": c.Min, "max": c.Max, "api": "ApplyOverlapToChunks:own-content-changed", "strategy": c.Strategy})
			continue
		}
		res.Events = append(res.Events, c13OverlapEvent(own[i-1], added, c.Min, c.Max, "ApplyOverlapToChunks", c.Strategy))
	}
	return res
}

// c13Rotate moves the first character to the end: another text of the same length.
func c13Rotate(s string) string {
	_, w := utf8.DecodeRuneInString(s)
	if w == 0 || w >= len(s) {
		return s
	}
	return s[w:] + s[:w]
}

func c13ReuseEvent(api string, same bool, call int) Event {
	return Event{"event": "Reuse", "api": api, "same": same, "call": call}
}

func c13SameOverlap(a, b *rag.OverlapResult) bool {
	if a == nil || b == nil {
		return a == b
	}
	return a.Text == b.Text && a.CharCount == b.CharCount && a.SentenceCount == b.SentenceCount && a.Strategy == b.Strategy
}

// c13Snaps: every field of every chunk, flattened ("id", "text", "metadata.page_start", ...)
func c13Snaps(chunks []*rag.Chunk) []map[string]string {
	out := make([]map[string]string, len(chunks))
	for i, ch := range chunks {
		m := map[string]string{}
		var top map[string]json.RawMessage
		json.Unmarshal(mustJSON(ch), &top)
		for k, v := range top {
			if k == "metadata" {
				var md map[string]json.RawMessage
				json.Unmarshal(v, &md)
				for mk, mv := range md {
					m["metadata."+mk] = string(mv)
				}
				continue
			}
			m[k] = string(v)
		}
		out[i] = m
	}
	return out
}

// c13FrameEvent: which fields of the given chunks one ApplyOverlapToChunks call
// changed, and whether every text still ends with the text that was given.
func c13FrameEvent(before []map[string]string, chunks []*rag.Chunk, given []string, call int) Event {
	after := c13Snaps(chunks)
	changed := make([][]string, len(chunks))
	kept := make([]bool, len(chunks))
	for i := range chunks {
		changed[i] = []string{}
		keys := map[string]bool{}
		for k := range before[i] {
			keys[k] = true
		}
		for k := range after[i] {
			keys[k] = true
		}
		for k := range keys {
			if before[i][k] != after[i][k] {
				changed[i] = append(changed[i], k)
			}
		}
		sort.Strings(changed[i])
		kept[i] = strings.HasSuffix(chunks[i].Text, given[i])
	}
	return Event{"event": "Frame", "changed": changed, "kept": kept, "api": "ApplyOverlapToChunks", "call": call}
}

// c13RunChunkerOverlap: a document of headed sections through
// NewChunkerWithConfig(c).ChunkWithOverlapEnabled; the own contents are the
// chunks of Chunk() on an identical document.
func c13RunChunkerOverlap(c c13OverlapCase, raw []byte) Result {
	res := Result{OK: true}
	mkdoc := func() *model.Document {
		d := model.NewDocument()
		pg := model.NewPage(612, 792)
		pg.Number = 1
		pg.Layout = &model.PageLayout{}
		for i, k := range c.Chunks {
			t := c13ChunkText(k, i)
			pg.Layout.Paragraphs = append(pg.Layout.Paragraphs, model.ParagraphInfo{Index: i, Text: t})
			pg.Elements = append(pg.Elements, &model.Paragraph{Text: t})
		}
		d.Pages = append(d.Pages, pg)
		return d
	}
	cc := rag.DefaultChunkerConfig()
	cc.MaxChunkSize, cc.TargetChunkSize, cc.MinChunkSize = 400, 200, 10
	cc.OverlapSize = c.Size
	cc.OverlapSentences = c.Strategy == "sentence"
	if cc.OverlapSentences && c.Size >= 2 {
		cc.OverlapSize = 100 // the default: "2 sentences", MaxOverlap 300
	}
	cc.IncludeSectionContext = c.Ctx
	if c.Strategy == "paragraph" {
		return res // ChunkerConfig cannot select it
	}
	var base *rag.ChunkResult
	var with *rag.ChunkWithOverlapResult
	_, _, p := c13Timed(func() []string {
		var err error
		if base, err = rag.NewChunkerWithConfig(cc).Chunk(mkdoc()); err != nil {
			panic(err)
		}
		if with, err = rag.NewChunkerWithConfig(cc).ChunkWithOverlapEnabled(mkdoc()); err != nil {
			panic(err)
		}
		return nil
	})
	res.Evals += 2
	if p != nil {
		return fail("panic", "C13:panic:ChunkWithOverlapEnabled", fmt.Sprintf("ChunkWithOverlapEnabled panics: %v", p), map[string]interface{}{"case": json.RawMessage(raw)})
	}
	if len(base.Chunks) != len(with.Chunks) {
		return fail("machinery", "C13:machinery", "Chunk and ChunkWithOverlapEnabled disagree on the number of chunks", nil)
	}
	strat := "character"
	if cc.OverlapSentences {
		strat = "sentence"
	}
	for i := 1; i < len(with.Chunks); i++ {
		added, ok := c13Added(with.Chunks[i].Chunk.Text, base.Chunks[i].Text, base.Chunks[i].Metadata.SectionTitle, c.Ctx)
		if !ok {
			res.Events = append(res.Events, Event{"event": "Overlap", "t": c13RunsOf(base.Chunks[i-1].Text), "start": 0, "matched": false, "valid": true,
				"pbytes": len(with.Chunks[i].Chunk.Text), "pchars": 0, "min": 20, "max": cc.OverlapSize * 3, "api": "ChunkWithOverlapEnabled:own-content-changed", "strategy": strat})
			continue
		}
		res.Events = append(res.Events, c13OverlapEvent(base.Chunks[i-1].Text, added, 20, cc.OverlapSize*3, "ChunkWithOverlapEnabled", strat))
	}
	return res
}

func c13OverlapMode(in, out string) error {
	return runCases(in, out, func(i int, raw []byte) Result {
		var c c13OverlapCase
		if err := json.Unmarshal(raw, &c); err != nil {
			return fail("decode", "decode", err.Error(), nil)
		}
		r := c13RunOverlap(c, raw)
		if !r.OK {
			return r
		}
		r2 := c13RunChunkerOverlap(c, raw)
		if !r2.OK {
			return r2
		}
		r.Evals += r2.Evals
		r.Events = append(r.Events, r2.Events...)
		return r
	})
}

func c13OverlapRec(in, out string) error {
	type req struct {
		N int `json:"n"`
	}
	return runCases(in, out, func(i int, raw []byte) Result {
		var q req
		if err := json.Unmarshal(raw, &q); err != nil {
			return fail("decode", "decode", err.Error(), nil)
		}
		rnd := newRand(int64(i) + 1350)
		res := Result{OK: true}
		for k := 0; k < q.N; k++ {
			var c c13OverlapCase
			for j, n := 0, 2+rnd.Intn(5); j < n; j++ {
				c.Chunks = append(c.Chunks, c13ChunkKind{Ns: 1 + rnd.Intn(6), Sl: 1 + rnd.Intn(30), Cw: 1 + rnd.Intn(4)})
			}
			c.Strategy = []string{"character", "sentence", "paragraph"}[rnd.Intn(3)]
			if c.Strategy == "character" {
				c.Size = []int{1, 7, 25, 100, 333}[rnd.Intn(5)]
			} else {
				c.Size = 1 + rnd.Intn(3)
			}
			c.Min = []int{0, 20, 40}[rnd.Intn(3)]
			c.Max = []int{30, 60, 300, 500}[rnd.Intn(4)]
			if c.Max < c.Min {
				c.Max = c.Min + 20
			}
			c.Pw, c.Ctx = rnd.Intn(2) == 0, rnd.Intn(2) == 0
			raw := mustJSON(c)
			for _, r := range []Result{c13RunOverlap(c, raw), c13RunChunkerOverlap(c, raw)} {
				res.Evals += r.Evals
				if !r.OK {
					r.Evals = res.Evals
					return r
				}
				res.Events = append(res.Events, r.Events...)
			}
		}
		return res
	})
}

func c13(mode, in, out string) error {
	switch mode {
	case "split":
		return c13Split(in, out)
	case "profile":
		return c13ProfileMode(in, out)
	case "record":
		return c13Record(in, out)
	case "overlap":
		return c13OverlapMode(in, out)
	case "overlaprec":
		return c13OverlapRec(in, out)
	}
	return fmt.Errorf("c13: unknown mode %s", mode)
}
