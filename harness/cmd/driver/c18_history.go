package main

// C18 histories (PartsHistory.tla): several calls on ONE pptx.Reader / epubdoc.Reader.
// Every call of a TLC-enumerated history is run in order on the same reader; its
// result is compared (b) byte for byte with the same call on a freshly opened reader
// (purity) and (a) with the parts the specification says the call presents (content
// tokens in order, counts).  histrecord: random longer histories on random packages,
// one Call event per call, for PartsHistoryTrace.tla.

import (
	"encoding/json"
	"fmt"
	"os"
	"strings"

	"github.com/tsawler/tabula/epubdoc"
	"github.com/tsawler/tabula/model"
	"github.com/tsawler/tabula/pptx"
	"github.com/tsawler/tabula/rag"
)

type c18HCall struct {
	Op    string `json:"op"`  // text | textopt | md | mdopt | rag | doc | count | part | toc
	Sel   []int  `json:"sel"` // PPTX slide selection (1-based) / the part of the accessor
	Opt   int    `json:"opt"`
	View  []int  `json:"view"`  // ids the call presents, in order (spec)
	Count int    `json:"count"` // parts the reader holds (spec)
}

type c18HCase struct {
	c18Case
	Kind  string     `json:"kind"`
	Calls []c18HCall `json:"calls"`
}

type c18Handle struct {
	pp *pptx.Reader
	ep *epubdoc.Reader
}

func c18OpenHandle(path, fm string) (*c18Handle, error) {
	if fm == "pptx" {
		r, err := pptx.Open(path)
		return &c18Handle{pp: r}, err
	}
	r, err := epubdoc.Open(path)
	return &c18Handle{ep: r}, err
}

func (h *c18Handle) close() {
	if h.pp != nil {
		h.pp.Close()
	}
	if h.ep != nil {
		h.ep.Close()
	}
}

type c18HResult struct {
	Raw   string
	Err   string
	Toks  []int
	Count int
}

func c18DumpDoc(doc *model.Document) string {
	var b strings.Builder
	for i, pg := range doc.Pages {
		fmt.Fprintf(&b, "page %d number=%d: %q\n", i, pg.Number, pg.ExtractText())
	}
	return b.String()
}

func c18DumpTOC(es []epubdoc.TOCEntry, depth int, b *strings.Builder) {
	for _, e := range es {
		fmt.Fprintf(b, "%d %q %q\n", depth, e.Title, e.Href)
		c18DumpTOC(e.Children, depth+1, b)
	}
}

func (h *c18Handle) run(c c18HCall) c18HResult {
	var s string
	var err error
	res := c18HResult{Count: -1}
	zero := c17Zero18(c.Sel)
	if h.pp != nil {
		r := h.pp
		res.Count = r.SlideCount()
		switch c.Op {
		case "text":
			s, err = r.Text()
		case "textopt":
			s, err = r.TextWithOptions(pptx.ExtractOptions{IncludeNotes: c.Opt == 0, IncludeTitles: c.Opt == 0, SlideNumbers: zero, ExcludeFooters: c.Opt == 1})
		case "md":
			s, err = r.Markdown()
		case "mdopt":
			s, err = r.MarkdownWithOptions(pptx.ExtractOptions{IncludeTitles: true, SlideNumbers: zero, ExcludeHeaders: c.Opt == 1})
		case "rag":
			o := rag.DefaultMarkdownOptions()
			o.IncludeMetadata, o.IncludeTableOfContents = c.Opt == 1, c.Opt == 1
			s, err = r.MarkdownWithRAGOptions(pptx.ExtractOptions{IncludeTitles: true, IncludeNotes: true}, o)
		case "doc":
			var doc *model.Document
			if doc, err = r.Document(); err == nil {
				s = c18DumpDoc(doc)
			}
		case "count":
			k, _ := r.PageCount()
			s = fmt.Sprintf("%d %d", r.SlideCount(), k)
		case "part":
			if len(zero) == 1 {
				if sl, e := r.Slide(zero[0]); e == nil {
					s = fmt.Sprintf("idx=%d title=%q notes=%q\n%s\n%s", sl.Index, sl.Title, sl.Notes, sl.GetText(), sl.GetMarkdown())
				} else {
					s = "out of range"
				}
			}
		}
	} else {
		r := h.ep
		res.Count = r.ChapterCount()
		switch c.Op {
		case "text":
			s, err = r.Text()
		case "textopt":
			s, err = r.TextWithOptions(epubdoc.ExtractOptions{NavigationExclusion: c.Opt})
		case "md":
			s, err = r.Markdown()
		case "mdopt":
			s, err = r.MarkdownWithOptions(epubdoc.ExtractOptions{NavigationExclusion: c.Opt})
		case "rag":
			s, err = r.Markdown()
		case "doc":
			var doc *model.Document
			if doc, err = r.Document(); err == nil {
				s = c18DumpDoc(doc)
			}
		case "count":
			s = fmt.Sprintf("%d %d", r.ChapterCount(), len(r.Chapters()))
		case "part":
			if chs := r.Chapters(); len(zero) == 1 && zero[0] < len(chs) {
				ch := chs[zero[0]]
				s = fmt.Sprintf("id=%q idx=%d href=%q title=%q\n%s", ch.ID, ch.Index, ch.Href, ch.Title, ch.Content)
			} else {
				s = "out of range"
			}
		case "toc":
			var b strings.Builder
			if t := r.TableOfContents(); t != nil {
				fmt.Fprintf(&b, "%q\n", t.Title)
				c18DumpTOC(t.Entries, 0, &b)
			}
			s = b.String()
		}
	}
	if err != nil {
		res.Err = err.Error()
		return res
	}
	res.Raw = s
	for _, t := range c18Toks(c18TokRe, s) {
		if !c18IsNote(t) { // attachments are compared through Raw (purity) and in the replay views
			res.Toks = append(res.Toks, t)
		}
	}
	if c.Op == "part" { // GetText and GetMarkdown both carry the token
		seen := map[int]bool{}
		u := []int{}
		for _, t := range res.Toks {
			if !seen[t] {
				seen[t] = true
				u = append(u, t)
			}
		}
		res.Toks = u
	}
	return res
}

func c17Zero18(sel []int) []int {
	z := make([]int, len(sel))
	for i, s := range sel {
		z[i] = s - 1
	}
	return z
}

func c18CallName(c c18HCall) string {
	s := c.Op
	if len(c.Sel) > 0 {
		s += fmt.Sprint(c.Sel)
	}
	if c.Opt != 0 {
		s += "+opt"
	}
	return s
}

func c18Family(op string) string {
	switch op {
	case "text", "textopt":
		return "text"
	case "md", "mdopt", "rag":
		return "markdown"
	}
	return op
}

func c18HistoryCase(i int, raw []byte) Result {
	var c c18HCase
	if err := json.Unmarshal(raw, &c); err != nil {
		return fail("decode", "decode", err.Error(), nil)
	}
	path, err := c18WriteCase(&c.c18Case)
	if err != nil {
		panic(err)
	}
	defer os.Remove(path)
	names := make([]string, len(c.Calls))
	for k, call := range c.Calls {
		names[k] = c18CallName(call)
	}
	res := Result{OK: true, Nontrivial: len(c.Calls) >= 2, Key: c18Key(raw)}
	h, err := c18OpenHandle(path, c.Fmt)
	if err != nil {
		return fail("error", "C18:"+c.Fmt+":history:open-error", "the valid package is rejected: "+err.Error(), map[string]interface{}{"case": json.RawMessage(raw)})
	}
	defer h.close()
	bad := func(k int, sig, what string, obs interface{}) Result {
		x := fail("history", sig, fmt.Sprintf("[one %s reader, call %d of %v] %s", c.Fmt, k+1, names, what), map[string]interface{}{"case": json.RawMessage(raw), "observed": obs})
		x.Nontrivial, x.Key, x.Evals = res.Nontrivial, res.Key, res.Evals
		return x
	}
	freshRun := func(prefix []c18HCall, call c18HCall) c18HResult {
		f, err := c18OpenHandle(path, c.Fmt)
		if err != nil {
			panic("machinery: " + err.Error())
		}
		defer f.close()
		for _, p := range prefix {
			f.run(p)
		}
		return f.run(call)
	}
	for k, call := range c.Calls {
		got := h.run(call)
		fresh := freshRun(nil, call)
		res.Evals += 2
		if got.Err != fresh.Err || got.Raw != fresh.Raw || got.Count != fresh.Count {
			culprit := "earlier-calls"
			for j := 0; j < k; j++ {
				if x := freshRun(c.Calls[j:j+1], call); x.Raw != fresh.Raw || x.Err != fresh.Err || x.Count != fresh.Count {
					culprit = c18Family(c.Calls[j].Op)
					break
				}
			}
			return bad(k, "C18:"+c.Fmt+":history:after-"+culprit,
				fmt.Sprintf("%s returns something else than on a freshly opened reader: after the earlier calls %q (count %d), fresh %q (count %d)",
					names[k], c17ClipS(got.Raw+got.Err, fresh.Raw+fresh.Err), got.Count, c17ClipS(fresh.Raw+fresh.Err, got.Raw+got.Err), fresh.Count),
				map[string]string{"same_reader": got.Raw + got.Err, "fresh": fresh.Raw + fresh.Err})
		}
		if got.Err != "" {
			return bad(k, "C18:"+c.Fmt+":"+call.Op+":error", names[k]+" fails: "+got.Err, got.Err)
		}
		if got.Count != call.Count {
			return bad(k, "C18:"+c.Fmt+":count", fmt.Sprintf("the reader reports %d parts, the package declares %d readable parts", got.Count, call.Count), got.Raw)
		}
		if call.Op == "toc" || call.Op == "count" {
			continue
		}
		if !c18Equal(got.Toks, call.View) {
			hc := c.c18Case
			hc.Pages = call.View
			sym, what := c18Classify(&hc, got.Toks)
			if sym == "" {
				sym, what = "order:other", fmt.Sprintf("presented %v, expected %v", got.Toks, call.View)
			}
			return bad(k, "C18:"+c.Fmt+":"+sym, names[k]+": "+what, got.Raw)
		}
	}
	return res
}

func c17ClipS(a, b string) string {
	i := 0
	for i < len(a) && i < len(b) && a[i] == b[i] {
		i++
	}
	lo, hi := i-30, i+60
	if lo < 0 {
		lo = 0
	}
	if hi > len(a) {
		hi = len(a)
	}
	return a[lo:hi]
}

// ------------------------------------------------------------ histrecord

// c18HistRecord: the packages come from the record-mode generator (c18Record's
// sibling c18RandomCase); each gets a random history of q.Calls calls.
func c18HistRecord(i int, raw []byte) Result {
	var q struct {
		N     int `json:"n"`
		K     int `json:"k"`
		Calls int `json:"calls"`
		Salt  int `json:"salt"`
	}
	if err := json.Unmarshal(raw, &q); err != nil {
		return fail("decode", "decode", err.Error(), nil)
	}
	rnd := newRand(int64(q.Salt)*32452843 + 181)
	var events []Event
	evals := 0
	for w := 0; w < q.N; w++ {
		c := c18RandomCase(rnd, q.K, []string{"pptx", "epub"})
		path, err := c18WriteCase(&c)
		if err != nil {
			panic(err)
		}
		base := c.Base
		if base == nil {
			base = []string{}
		}
		events = append(events, Event{"event": "Pkg", "fmt": c.Fmt, "base": base, "parts": c.Parts, "roots": c.Roots, "prof": c.Prof})
		h, err := c18OpenHandle(path, c.Fmt)
		if err != nil {
			if c.Prof.Missing == 0 {
				events = append(events, Event{"event": "Error", "msg": err.Error()})
			}
			os.Remove(path)
			continue
		}
		n := h.run(c18HCall{Op: "count"}).Count
		for k := 0; k < q.Calls; k++ {
			ops := []string{"text", "textopt", "md", "mdopt", "rag", "doc", "count", "part"}
			if c.Fmt == "epub" {
				ops = append(ops, "toc")
			}
			call := c18HCall{Op: ops[rnd.Intn(len(ops))], Sel: []int{}, Opt: rnd.Intn(2)}
			switch call.Op {
			case "textopt", "mdopt":
				if n > 0 && rnd.Intn(2) == 0 {
					for _, p := range rnd.Perm(n)[:1+rnd.Intn(n)] {
						call.Sel = append(call.Sel, p+1)
					}
				}
			case "part":
				call.Sel = []int{1 + rnd.Intn(n+1)}
			}
			got := h.run(call)
			evals++
			if got.Err != "" {
				events = append(events, Event{"event": "Error", "op": call.Op, "msg": got.Err})
				continue
			}
			toks := got.Toks
			if toks == nil {
				toks = []int{}
			}
			events = append(events, Event{"event": "Call", "op": call.Op, "sel": call.Sel, "opt": call.Opt, "toks": toks, "count": got.Count})
		}
		h.close()
		os.Remove(path)
	}
	return Result{OK: true, Events: events, Evals: evals, Nontrivial: true, Key: fmt.Sprintf("hrec%d", q.Salt)}
}
