package main

// C12 — the PDF entry point.  Documents of the Chunking spec over the alphabet
// that layout heuristics can carry (one-line headings at 18 / 14 pt, paragraphs
// of 3 or 6 body lines at 10 pt, three-line bulleted or numbered lists, page
// breaks) are rendered as positioned text (pdfdoc.BuildSimple), written to a
// file and read back through
//
//	tabula.Open(path).Document()   - every page element is one "chunk"
//	tabula.Open(path).Chunks()
//	tabula.Open(path).ToMarkdown() - the whole text is one "chunk"
//
// and each observation is compared with the contract (coverage, order, indices,
// ids, totals, page ranges; section paths by the weak rule only: classification
// of lines is not asserted).  A sample of the runs also leaves as Doc / Emit /
// Finish events for ChunkingTrace.tla.

import (
	"encoding/json"
	"fmt"
	"os"
	"path/filepath"
	"sort"
	"strconv"
	"strings"

	"github.com/tsawler/tabula"
	"github.com/tsawler/tabula/model"
	"verif/internal/pdfdoc"
)

type c12PdfDoc struct {
	r     *c12Rendered
	pages [][]pdfdoc.Placed
	lines []string // every text line, for messages
}

// c12RenderPdf lays the document out: single column at x = 72, line pitch 14 pt,
// at least 26 pt between blocks.  Every word is a unit token.
func c12RenderPdf(c *c12Case) *c12PdfDoc {
	d := &c12PdfDoc{r: &c12Rendered{titleEl: map[string]int{}, unitEl: []int{0}}}
	d.r.n = make([]int, len(c.Doc))
	d.r.first = make([]int, len(c.Doc))
	pageIdx := map[int]int{}
	for i, pn := range c.Pages {
		pageIdx[pn] = i
	}
	d.pages = make([][]pdfdoc.Placed, len(c.Pages))
	y := make([]int, len(c.Pages))
	for i := range y {
		y[i] = 740
	}
	g := 0
	tok := func(el int) string {
		g++
		d.r.unitEl = append(d.r.unitEl, el)
		return c12Tok(g)
	}
	for i, e := range c.Doc {
		pi := pageIdx[e.Pg]
		d.r.first[i] = g + 1
		put := func(size int, text string) {
			d.pages[pi] = append(d.pages[pi], pdfdoc.Placed{X: 72, Y: y[pi], Size: size, Text: text})
			d.lines = append(d.lines, text)
		}
		switch e.K {
		case "H":
			size := 18
			if e.A >= 2 {
				size = 14
			}
			y[pi] -= size - 10
			put(size, tok(i+1)+" "+tok(i+1))
			y[pi] -= 14
		case "P":
			lines := e.A - 20
			if lines < 1 {
				lines = 3
			}
			for l := 0; l < lines; l++ {
				ws := make([]string, 4)
				for k := range ws {
					ws[k] = tok(i + 1)
				}
				txt := strings.Join(ws, " ")
				if l == lines-1 {
					txt += "."
				}
				put(10, txt)
				y[pi] -= 14
			}
		case "L":
			for l := 0; l < e.A; l++ {
				marker := "\x95" // WinAnsi bullet
				if i%2 == 1 {
					marker = strconv.Itoa(l+1) + "."
				}
				put(10, marker+" "+tok(i+1)+" "+tok(i+1))
				y[pi] -= 14
			}
		}
		d.r.n[i] = g + 1 - d.r.first[i]
		if d.r.n[i] == 0 {
			d.r.first[i] = 0
		}
		y[pi] -= 26
	}
	d.r.total = g
	return d
}

// c12ScanTexts finds the unit tokens of every text (after removing all white
// space, on the concatenation, so that a token cut in two is still attributed).
func c12ScanTexts(texts []string) [][]int {
	var sb strings.Builder
	starts := make([]int, len(texts))
	for i, t := range texts {
		starts[i] = sb.Len()
		sb.WriteString(c12Strip(t))
	}
	all := sb.String()
	out := make([][]int, len(texts))
	for _, m := range c12TokRe.FindAllStringIndex(all, -1) {
		g, _ := strconv.Atoi(all[m[0]+1 : m[1]])
		ci := sort.Search(len(starts), func(k int) bool { return starts[k] > m[0] }) - 1
		if ci >= 0 {
			out[ci] = append(out[ci], g)
		}
	}
	for i := range out {
		if out[i] == nil {
			out[i] = []int{}
		}
	}
	return out
}

func c12ElementText(el model.Element) string {
	switch e := el.(type) {
	case *model.List:
		var sb strings.Builder
		for _, it := range e.Items {
			sb.WriteString(it.Bullet + " " + it.Text + "\n")
		}
		return sb.String()
	case *model.Table:
		return e.GetText()
	case *model.Image:
		return e.AltText
	case model.TextElement:
		return e.GetText()
	}
	return ""
}

// c12TitleEl maps a reported heading text to the element its first token belongs
// to (0 = not text of the document).
func c12TitleEl(r *c12Rendered, title string) int {
	m := c12TokRe.FindString(c12Strip(title))
	if m == "" {
		return 0
	}
	g, _ := strconv.Atoi(m[1:])
	if g < 1 || g > r.total {
		return 0
	}
	return r.unitEl[g]
}

func c12PdfCase(i int, raw []byte) Result {
	var c c12Case
	if err := json.Unmarshal(raw, &c); err != nil {
		return fail("decode", "decode", err.Error(), nil)
	}
	key := string(mustJSON(map[string]interface{}{"pdf": c.Doc, "p": c.Pages}))
	res := Result{OK: true, Nontrivial: len(c.Doc) >= 2, Key: key}
	d := c12RenderPdf(&c)
	data, err := pdfdoc.BuildSimple(d.pages, 612, 792)
	if err != nil {
		return Result{OK: false, Sig: "MACHINERY:pdfdoc", What: err.Error()}
	}
	dir := os.Getenv("VERIF_SCRATCH")
	if dir == "" {
		dir = os.TempDir()
	}
	path := filepath.Join(dir, fmt.Sprintf("c12pdf-%d-%d.pdf", os.Getpid(), i))
	if err := os.WriteFile(path, data, 0o644); err != nil {
		return Result{OK: false, Sig: "MACHINERY:pdfdoc", What: err.Error()}
	}
	defer os.Remove(path)

	replay := func(view string, obs interface{}) interface{} {
		cc := c
		cc.TraceMod = 0
		return map[string]interface{}{"case": cc, "via": "pdf", "view": view, "lines": d.lines, "observed": obs}
	}
	bad := func(view, clause, what string, obs interface{}) Result {
		x := fail(clause, "C12:"+clause+":"+view, what, replay(view, obs))
		x.Nontrivial, x.Key, x.Evals, x.Events = res.Nontrivial, key, res.Evals, res.Events
		return x
	}
	judge := func(view string, obs []c12Obs) *Result {
		if c.TraceMod > 0 && (i*31+len(view))%c.TraceMod == 0 {
			res.Events = append(res.Events, c12Events(&c, d.r, obs, c12Cfg{name: view, api: view}, "direct")...)
		}
		if f := c12Compare(&c, d.r, obs, view, 0); f != nil {
			x := bad(view, f.clause, fmt.Sprintf("tabula.Open(pdf) %s: %s; the PDF lines are %q", view, f.what, d.lines), obs)
			return &x
		}
		return nil
	}

	// (1) Document(): the page elements
	doc, _, err := tabula.Open(path).Document()
	res.Evals++
	if err != nil {
		return bad("pdf-elements", "error", "Document(): "+err.Error(), err.Error())
	}
	if len(doc.Pages) != len(c.Pages) {
		return bad("pdf-elements", "page-range", fmt.Sprintf("Document() has %d pages, the PDF has %d", len(doc.Pages), len(c.Pages)), nil)
	}
	var texts []string
	var obs []c12Obs
	for _, pg := range doc.Pages {
		for j, el := range pg.Elements {
			texts = append(texts, c12ElementText(el))
			obs = append(obs, c12Obs{ID: fmt.Sprintf("p%d-e%d", pg.Number, j), Ps: pg.Number, Pe: pg.Number, Path: []int{}, Title: -1})
		}
	}
	units := c12ScanTexts(texts)
	kept := obs[:0]
	for k := range obs {
		if len(units[k]) == 0 {
			continue // an element without any word of the document (a stray marker) is not judged
		}
		obs[k].Units = units[k]
		kept = append(kept, obs[k])
	}
	obs = kept
	for k := range obs {
		obs[k].Index, obs[k].Total = k, len(obs)
	}
	if x := judge("pdf-elements", obs); x != nil {
		return *x
	}

	// (2) Chunks()
	cc, _, err := tabula.Open(path).Chunks()
	res.Evals++
	if err != nil {
		return bad("pdf-chunks", "error", "Chunks(): "+err.Error(), err.Error())
	}
	texts = texts[:0]
	for _, ch := range cc.Chunks {
		texts = append(texts, ch.Text)
	}
	units = c12ScanTexts(texts)
	obs = make([]c12Obs, len(cc.Chunks))
	for k, ch := range cc.Chunks {
		o := c12Obs{Units: units[k], Index: ch.Metadata.ChunkIndex, ID: ch.ID, Ps: ch.Metadata.PageStart, Pe: ch.Metadata.PageEnd,
			Total: ch.Metadata.TotalChunks, Path: []int{}, Title: -1}
		for _, t := range ch.Metadata.SectionPath {
			el := c12TitleEl(d.r, t)
			o.Path = append(o.Path, el)
			if el == 0 {
				o.Titles = append(o.Titles, t)
			}
		}
		if len(o.Units) == 0 {
			o.Text = ch.Text
		}
		obs[k] = o
	}
	if x := judge("pdf-chunks", obs); x != nil {
		return *x
	}

	// (2b) reuse: two extractors derived from one base must each give what a fresh
	// extractor gives
	if i%3 == 0 {
		fresh := obs
		base := tabula.Open(path)
		n, err := base.PageCount()
		res.Evals++
		if err != nil {
			return bad("pdf-chunks", "error", "PageCount() on the base extractor: "+err.Error(), err.Error())
		}
		for k, der := range []*tabula.Extractor{base.PageRange(1, n), base.PageRange(1, n)} {
			dc, _, err := der.Chunks()
			res.Evals++
			if err != nil {
				return bad("pdf-chunks", "reuse", fmt.Sprintf("Chunks() on extractor %d derived from one base (PageRange(1,%d)) fails: %v", k+1, n, err), err.Error())
			}
			texts = texts[:0]
			for _, ch := range dc.Chunks {
				texts = append(texts, ch.Text)
			}
			du := c12ScanTexts(texts)
			dobs := make([]c12Obs, len(dc.Chunks))
			for q, ch := range dc.Chunks {
				o := c12Obs{Units: du[q], Index: ch.Metadata.ChunkIndex, ID: ch.ID, Ps: ch.Metadata.PageStart, Pe: ch.Metadata.PageEnd,
					Total: ch.Metadata.TotalChunks, Path: []int{}, Title: -1}
				for _, t := range ch.Metadata.SectionPath {
					o.Path = append(o.Path, c12TitleEl(d.r, t))
				}
				dobs[q] = o
			}
			same := len(dobs) == len(fresh)
			for q := 0; same && q < len(dobs); q++ {
				a, b := dobs[q], fresh[q]
				same = fmt.Sprint(a.Units, a.Index, a.ID, a.Ps, a.Pe, a.Total, a.Path) == fmt.Sprint(b.Units, b.Index, b.ID, b.Ps, b.Pe, b.Total, b.Path)
			}
			if !same {
				return bad("pdf-chunks", "reuse", fmt.Sprintf("Chunks() of extractor %d derived from one base differs from a fresh tabula.Open(pdf).Chunks(): %s vs %s; the PDF lines are %q",
					k+1, mustJSON(dobs), mustJSON(fresh), d.lines), dobs)
			}
		}
	}

	// (3) ToMarkdown(): one text
	md, _, err := tabula.Open(path).ToMarkdown()
	res.Evals++
	if err != nil {
		return bad("pdf-markdown", "error", "ToMarkdown(): "+err.Error(), err.Error())
	}
	obs = nil
	if d.r.total > 0 || len(c12TokRe.FindString(c12Strip(md))) > 0 {
		lo, hi := 1<<30, 0
		for _, e := range c.Doc {
			if e.Pg < lo {
				lo = e.Pg
			}
			if e.Pg > hi {
				hi = e.Pg
			}
		}
		obs = []c12Obs{{Units: c12ScanTexts([]string{md})[0], Index: 0, ID: "markdown", Ps: lo, Pe: hi, Total: 1, Path: []int{}, Title: -1}}
	}
	if x := judge("pdf-markdown", obs); x != nil {
		return *x
	}
	return res
}
