package main

// docs_min: minimal valid documents of the ZIP-based formats (DOCX, XLSX, PPTX,
// ODT, EPUB), shared by the admission (C20), robustness (C02) and determinism
// (C03) drivers.

import (
	"archive/zip"
	"bytes"
	"fmt"
	"strings"
)

type zmember struct {
	name   string
	data   string
	stored bool
}

const c20Token = "admtokenqz"

func docxMembers() []zmember {
	return []zmember{
		{"[Content_Types].xml", `<?xml version="1.0" encoding="UTF-8" standalone="yes"?><Types xmlns="http://schemas.openxmlformats.org/package/2006/content-types"><Default Extension="rels" ContentType="application/vnd.openxmlformats-package.relationships+xml"/><Default Extension="xml" ContentType="application/xml"/><Override PartName="/word/document.xml" ContentType="application/vnd.openxmlformats-officedocument.wordprocessingml.document.main+xml"/></Types>`, false},
		{"_rels/.rels", `<?xml version="1.0" encoding="UTF-8" standalone="yes"?><Relationships xmlns="http://schemas.openxmlformats.org/package/2006/relationships"><Relationship Id="rId1" Type="http://schemas.openxmlformats.org/officeDocument/2006/relationships/officeDocument" Target="word/document.xml"/></Relationships>`, false},
		{"word/document.xml", `<?xml version="1.0" encoding="UTF-8" standalone="yes"?><w:document xmlns:w="http://schemas.openxmlformats.org/wordprocessingml/2006/main"><w:body><w:p><w:r><w:t>` + c20Token + `</w:t></w:r></w:p></w:body></w:document>`, false},
	}
}

func xlsxMembers() []zmember {
	return []zmember{
		{"[Content_Types].xml", `<?xml version="1.0" encoding="UTF-8" standalone="yes"?><Types xmlns="http://schemas.openxmlformats.org/package/2006/content-types"><Default Extension="rels" ContentType="application/vnd.openxmlformats-package.relationships+xml"/><Default Extension="xml" ContentType="application/xml"/><Override PartName="/xl/workbook.xml" ContentType="application/vnd.openxmlformats-officedocument.spreadsheetml.sheet.main+xml"/><Override PartName="/xl/worksheets/sheet1.xml" ContentType="application/vnd.openxmlformats-officedocument.spreadsheetml.worksheet+xml"/></Types>`, false},
		{"_rels/.rels", `<?xml version="1.0" encoding="UTF-8" standalone="yes"?><Relationships xmlns="http://schemas.openxmlformats.org/package/2006/relationships"><Relationship Id="rId1" Type="http://schemas.openxmlformats.org/officeDocument/2006/relationships/officeDocument" Target="xl/workbook.xml"/></Relationships>`, false},
		{"xl/workbook.xml", `<?xml version="1.0" encoding="UTF-8" standalone="yes"?><workbook xmlns="http://schemas.openxmlformats.org/spreadsheetml/2006/main" xmlns:r="http://schemas.openxmlformats.org/officeDocument/2006/relationships"><sheets><sheet name="S1" sheetId="1" r:id="rId1"/></sheets></workbook>`, false},
		{"xl/_rels/workbook.xml.rels", `<?xml version="1.0" encoding="UTF-8" standalone="yes"?><Relationships xmlns="http://schemas.openxmlformats.org/package/2006/relationships"><Relationship Id="rId1" Type="http://schemas.openxmlformats.org/officeDocument/2006/relationships/worksheet" Target="worksheets/sheet1.xml"/></Relationships>`, false},
		{"xl/worksheets/sheet1.xml", `<?xml version="1.0" encoding="UTF-8" standalone="yes"?><worksheet xmlns="http://schemas.openxmlformats.org/spreadsheetml/2006/main"><sheetData><row r="1"><c r="A1" t="inlineStr"><is><t>` + c20Token + `</t></is></c></row></sheetData></worksheet>`, false},
	}
}

func pptxMembers() []zmember {
	return []zmember{
		{"[Content_Types].xml", `<?xml version="1.0" encoding="UTF-8" standalone="yes"?><Types xmlns="http://schemas.openxmlformats.org/package/2006/content-types"><Default Extension="rels" ContentType="application/vnd.openxmlformats-package.relationships+xml"/><Default Extension="xml" ContentType="application/xml"/><Override PartName="/ppt/presentation.xml" ContentType="application/vnd.openxmlformats-officedocument.presentationml.presentation.main+xml"/><Override PartName="/ppt/slides/slide1.xml" ContentType="application/vnd.openxmlformats-officedocument.presentationml.slide+xml"/></Types>`, false},
		{"_rels/.rels", `<?xml version="1.0" encoding="UTF-8" standalone="yes"?><Relationships xmlns="http://schemas.openxmlformats.org/package/2006/relationships"><Relationship Id="rId1" Type="http://schemas.openxmlformats.org/officeDocument/2006/relationships/officeDocument" Target="ppt/presentation.xml"/></Relationships>`, false},
		{"ppt/presentation.xml", `<?xml version="1.0" encoding="UTF-8" standalone="yes"?><p:presentation xmlns:p="http://schemas.openxmlformats.org/presentationml/2006/main" xmlns:r="http://schemas.openxmlformats.org/officeDocument/2006/relationships"><p:sldIdLst><p:sldId id="256" r:id="rId1"/></p:sldIdLst></p:presentation>`, false},
		{"ppt/_rels/presentation.xml.rels", `<?xml version="1.0" encoding="UTF-8" standalone="yes"?><Relationships xmlns="http://schemas.openxmlformats.org/package/2006/relationships"><Relationship Id="rId1" Type="http://schemas.openxmlformats.org/officeDocument/2006/relationships/slide" Target="slides/slide1.xml"/></Relationships>`, false},
		{"ppt/slides/slide1.xml", `<?xml version="1.0" encoding="UTF-8" standalone="yes"?><p:sld xmlns:p="http://schemas.openxmlformats.org/presentationml/2006/main" xmlns:a="http://schemas.openxmlformats.org/drawingml/2006/main"><p:cSld><p:spTree><p:nvGrpSpPr><p:cNvPr id="1" name=""/><p:cNvGrpSpPr/><p:nvPr/></p:nvGrpSpPr><p:grpSpPr/><p:sp><p:nvSpPr><p:cNvPr id="2" name="T"/><p:cNvSpPr/><p:nvPr/></p:nvSpPr><p:spPr/><p:txBody><a:bodyPr/><a:p><a:r><a:t>` + c20Token + `</a:t></a:r></a:p></p:txBody></p:sp></p:spTree></p:cSld></p:sld>`, false},
	}
}

func odtMembers() []zmember {
	return []zmember{
		{"mimetype", "application/vnd.oasis.opendocument.text", true},
		{"content.xml", `<?xml version="1.0" encoding="UTF-8"?><office:document-content xmlns:office="urn:oasis:names:tc:opendocument:xmlns:office:1.0" xmlns:text="urn:oasis:names:tc:opendocument:xmlns:text:1.0" office:version="1.2"><office:body><office:text><text:p>` + c20Token + `</text:p></office:text></office:body></office:document-content>`, false},
		{"META-INF/manifest.xml", `<?xml version="1.0" encoding="UTF-8"?><manifest:manifest xmlns:manifest="urn:oasis:names:tc:opendocument:xmlns:manifest:1.0" manifest:version="1.2"><manifest:file-entry manifest:full-path="/" manifest:media-type="application/vnd.oasis.opendocument.text"/><manifest:file-entry manifest:full-path="content.xml" manifest:media-type="text/xml"/></manifest:manifest>`, false},
	}
}

type epubCfg struct {
	Rights bool     `json:"rights"`
	Enc    []string `json:"enc"`
	Algo   string   `json:"algo"`
	URI    string   `json:"uri"`
	RFirst bool     `json:"rfirst"`
	Rev    bool     `json:"rev"`
}

func epubMembers(e epubCfg) []zmember {
	xh := func(t string) string {
		return `<?xml version="1.0" encoding="UTF-8"?><html xmlns="http://www.w3.org/1999/xhtml"><head><title>t</title></head><body><p>` + t + `</p></body></html>`
	}
	ms := []zmember{
		{"mimetype", "application/epub+zip", true},
		{"META-INF/container.xml", `<?xml version="1.0"?><container version="1.0" xmlns="urn:oasis:names:tc:opendocument:xmlns:container"><rootfiles><rootfile full-path="OEBPS/content.opf" media-type="application/oebps-package+xml"/></rootfiles></container>`, false},
		{"OEBPS/content.opf", `<?xml version="1.0" encoding="UTF-8"?><package xmlns="http://www.idpf.org/2007/opf" version="3.0" unique-identifier="id"><metadata xmlns:dc="http://purl.org/dc/elements/1.1/"><dc:identifier id="id">urn:uuid:1</dc:identifier><dc:title>T</dc:title><dc:language>en</dc:language><meta property="dcterms:modified">2020-01-01T00:00:00Z</meta></metadata><manifest><item id="nav" href="nav.xhtml" media-type="application/xhtml+xml" properties="nav"/><item id="ch1" href="ch1.xhtml" media-type="application/xhtml+xml"/><item id="ch2" href="ch2.xht" media-type="application/xhtml+xml"/><item id="font" href="fonts/f.otf" media-type="font/otf"/><item id="font2" href="fonts/g.ttf" media-type="font/ttf"/><item id="font3" href="fonts/h.woff" media-type="font/woff"/><item id="img" href="img/i.png" media-type="image/png"/></manifest><spine><itemref idref="ch1"/><itemref idref="ch2"/></spine></package>`, false},
		{"OEBPS/nav.xhtml", `<?xml version="1.0" encoding="UTF-8"?><html xmlns="http://www.w3.org/1999/xhtml" xmlns:epub="http://www.idpf.org/2007/ops"><head><title>n</title></head><body><nav epub:type="toc"><ol><li><a href="ch1.xhtml">one</a></li></ol></nav></body></html>`, false},
		{"OEBPS/ch1.xhtml", xh(c20Token), false},
		{"OEBPS/ch2.xht", xh("second" + c20Token), false},
		{"OEBPS/fonts/f.otf", "OTTOfontbytes", false},
		{"OEBPS/fonts/g.ttf", "ttfbytes", false},
		{"OEBPS/fonts/h.woff", "wOFFbytes", false},
		{"OEBPS/img/i.png", "\x89PNG\r\n\x1a\nimg", false},
	}
	for _, k := range e.Enc {
		if k == "ch3" {
			// a third spine item that is not declared as XHTML and has none of the usual suffixes: an SVG content document
			for i := range ms {
				if ms[i].name == "OEBPS/content.opf" {
					ms[i].data = strings.Replace(ms[i].data, `<item id="font"`, `<item id="ch3" href="text/plate.svg" media-type="image/svg+xml"/><item id="font"`, 1)
					ms[i].data = strings.Replace(ms[i].data, `<itemref idref="ch2"/>`, `<itemref idref="ch2"/><itemref idref="ch3"/>`, 1)
				}
			}
			ms = append(ms, zmember{"OEBPS/text/plate.svg", `<?xml version="1.0" encoding="UTF-8"?><svg xmlns="http://www.w3.org/2000/svg" viewBox="0 0 100 100"><text x="10" y="20">third` + c20Token + `</text></svg>`, false})
		}
	}
	rights := zmember{"META-INF/rights.xml", `<?xml version="1.0"?><rights xmlns="http://ns.adobe.com/adept"/>`, false}
	if e.Rights && e.RFirst {
		ms = append(ms, rights)
	}
	if len(e.Enc) > 0 {
		algo := map[string]string{
			"idpf-obf":  "http://www.idpf.org/2008/embedding",
			"adobe-obf": "http://ns.adobe.com/pdf/enc#RC",
			"aes128":    "http://www.w3.org/2001/04/xmlenc#aes128-cbc",
			"aes256":    "http://www.w3.org/2001/04/xmlenc#aes256-cbc",
			"unknown":   "http://example.org/secret-cipher",
		}[e.Algo]
		paths := map[string]string{"ch1": "OEBPS/ch1.xhtml", "ch2": "OEBPS/ch2.xht", "nav": "OEBPS/nav.xhtml", "ch3": "OEBPS/text/plate.svg", "font": "OEBPS/fonts/f.otf", "font2": "OEBPS/fonts/g.ttf", "font3": "OEBPS/fonts/h.woff", "img": "OEBPS/img/i.png"}
		var b strings.Builder
		b.WriteString(`<?xml version="1.0" encoding="UTF-8"?><encryption xmlns="urn:oasis:names:tc:opendocument:xmlns:container" xmlns:enc="http://www.w3.org/2001/04/xmlenc#">`)
		order := append([]string{}, e.Enc...)
		if e.Rev {
			for i, j := 0, len(order)-1; i < j; i, j = i+1, j-1 {
				order[i], order[j] = order[j], order[i]
			}
		}
		for _, k := range order {
			uri := paths[k]
			if e.URI == "dotslash" {
				uri = "./" + uri
			}
			fmt.Fprintf(&b, `<enc:EncryptedData><enc:EncryptionMethod Algorithm="%s"/><enc:CipherData><enc:CipherReference URI="%s"/></enc:CipherData></enc:EncryptedData>`, algo, uri)
		}
		b.WriteString(`</encryption>`)
		ms = append(ms, zmember{"META-INF/encryption.xml", b.String(), false})
	}
	if e.Rights && !e.RFirst {
		ms = append(ms, rights)
	}
	if e.URI == "upper" {
		// the content documents carry upper-case suffixes, consistently in the archive,
		// the manifest and encryption.xml
		for i := range ms {
			for _, p := range [][2]string{{"ch1.xhtml", "ch1.XHTML"}, {"ch2.xht", "ch2.XHT"}, {"nav.xhtml", "NAV.XHTML"}} {
				ms[i].name = strings.ReplaceAll(ms[i].name, p[0], p[1])
				ms[i].data = strings.ReplaceAll(ms[i].data, p[0], p[1])
			}
		}
	}
	return ms
}

func zipOf(ms []zmember) ([]byte, error) {
	var buf bytes.Buffer
	zw := zip.NewWriter(&buf)
	for _, m := range ms {
		h := &zip.FileHeader{Name: m.name, Method: zip.Deflate}
		if m.stored {
			h.Method = zip.Store
		}
		w, err := zw.CreateHeader(h)
		if err != nil {
			return nil, err
		}
		if _, err := w.Write([]byte(m.data)); err != nil {
			return nil, err
		}
	}
	if err := zw.Close(); err != nil {
		return nil, err
	}
	return buf.Bytes(), nil
}
