package main

// C18 record mode: random packages beyond TLC's bounds (up to 10 parts, any
// combination of layout options, several decoys, arbitrary part numbers), logged
// for PartsOrderTrace.tla. The generator composes names and references itself;
// the trace specification re-checks that every package is well formed before it
// looks at what the real code presented.

import (
	"encoding/json"
	"math/rand"
	"os"
	"sort"
	"strconv"
)

func c18Norm(segs []string) []string {
	out := []string{}
	for _, s := range segs {
		switch s {
		case "..":
			if len(out) > 0 {
				out = out[:len(out)-1]
			}
		case ".":
		default:
			out = append(out, s)
		}
	}
	return out
}

// c18RandomCase draws one random package (record modes).
func c18RandomCase(rnd *rand.Rand, maxK int, fmts []string) c18Case {
	pick := func(xs ...string) string { return xs[rnd.Intn(len(xs))] }
	c := c18Case{Fmt: fmts[rnd.Intn(len(fmts))]}
	pr := c18Prof{Paths: pick("std", "nested", "renamed", "dot"), Alias: "none", Tgt: pick("rel", "abs"), Extras: rnd.Intn(2) == 0, Infra: rnd.Intn(2) == 0,
		Enc: "none", Opf: "root", Ver: 0}
	var rel []string
	stem, ext := "", "xml"
	switch c.Fmt {
	case "xlsx":
		c.Base = []string{"xl"}
		rel = map[string][]string{"std": {"worksheets"}, "nested": {"worksheets", "sub"}, "renamed": {"data"}, "dot": {".", "worksheets"}}[pr.Paths]
		stem = map[string]string{"std": "sheet", "nested": "sheet", "renamed": "tab", "dot": "sheet"}[pr.Paths]
		pr.Enc = pick("none", "none", "sp20", "plusLit", "pct2520", "eC3A9", "paren", "amp")
		pr.Alias = pick("none", "decoded", "query")
	case "pptx":
		c.Base = []string{"ppt"}
		rel = map[string][]string{"std": {"slides"}, "nested": {"slides", "deck"}, "renamed": {"pages"}, "dot": {".", "slides"}}[pr.Paths]
		stem = map[string]string{"std": "slide", "nested": "slide", "renamed": "page", "dot": "slide"}[pr.Paths]
		pr.Enc = pick("none", "none", "sp20", "plusLit", "pct2520", "eC3A9", "paren", "amp")
		pr.Alias = pick("none", "decoded", "query")
	case "epub":
		pr.Tgt = "rel"
		pr.Enc = pick("none", "sp20", "plusLit", "plus2B", "pct2520", "pct25z", "eC3A9", "eRaw", "paren", "amp")
		pr.Alias = pick("none", "decoded", "undecoded", "query")
		pr.Opf = pick("root", "one", "two")
		if pr.Paths == "renamed" && pr.Opf == "root" {
			pr.Opf = "one"
		}
		pr.Ver = 2 + rnd.Intn(2)
		pr.Extra = rnd.Intn(2) == 0
		c.Base = map[string][]string{"root": {}, "one": {"OEBPS"}, "two": {"OPS", "pkg"}}[pr.Opf]
		rel = map[string][]string{"std": {}, "nested": {"text", "part"}, "renamed": {"..", "text"}, "dot": {".", "text"}}[pr.Paths]
		stem = map[string]string{"std": "ch", "nested": "ch", "renamed": "sec", "dot": "ch"}[pr.Paths]
		ext = "xhtml"
	}
	c.Prof = pr
	k := 1 + rnd.Intn(maxK)
	if k >= 2 && rnd.Intn(3) == 0 {
		pr.Missing = 1 + rnd.Intn(k) // the part declared at this position is absent from the archive
		c.Prof = pr
	}
	ndecoy := rnd.Intn(3)
	nextra := 0
	if pr.Extra {
		nextra = 1
	}
	total := k + ndecoy + nextra
	nums := rnd.Perm(60)[:total] // numbers in the file names
	sort.Ints(nums)
	ids := rnd.Perm(60)[:k] // content tokens 1..60 of the declared parts
	declPerm, relPerm, zipPerm := rnd.Perm(k), rnd.Perm(k), rnd.Perm(total)
	// which of the name numbers go to decoys: random positions
	roles := rnd.Perm(total)
	// the generator's own copy of the naming rules (PartsOrderTrace re-checks every package):
	// EPUB hrefs are percent-decoded once, OPC targets are the member name text
	pathDec := map[string]string{"none": "none", "sp20": "space", "plusLit": "plus", "plus2B": "plus", "pct2520": "pct20",
		"pct25z": "pctz", "eC3A9": "eacute", "eRaw": "eacute", "paren": "paren", "amp": "amp"}
	literal := map[string]string{"none": "none", "sp20": "pct20", "plusLit": "plus", "plus2B": "pct2B", "pct2520": "pct2520",
		"pct25z": "pct25z", "eC3A9": "pctC3A9", "eRaw": "eacute", "paren": "paren", "amp": "amp"}
	reDec := map[string]string{"pct20": "space", "pct2B": "plus", "pctC3A9": "eacute", "pct2520": "pct20", "pct25z": "pctz"}
	sp := literal[pr.Enc]
	if c.Fmt == "epub" {
		sp = pathDec[pr.Enc]
	}
	aliasSp := sp
	switch pr.Alias {
	case "decoded":
		if v, ok := reDec[sp]; ok {
			aliasSp = v
		}
	case "undecoded":
		aliasSp = literal[pr.Enc]
	case "query":
		if sp == "plus" {
			aliasSp = "space"
		}
	}
	mk := func(id, n, decl, rl, zp int) c18Part {
		h := c18Href{Abs: pr.Tgt == "abs", Stem: stem, Enc: pr.Enc, N: n, Ext: ext}
		if h.Abs {
			h.Segs = append(append([]string{}, c.Base...), rel...)
		} else {
			h.Segs = append([]string{}, rel...)
		}
		full := h.Segs
		if !h.Abs {
			full = append(append([]string{}, c.Base...), rel...)
		}
		return c18Part{ID: id, Name: c18Name{Dir: c18Norm(full), Stem: stem, Sp: sp, N: n, Ext: ext}, Href: h, Decl: decl, Rel: rl, Zip: zp,
			Present: decl == 0 || decl != pr.Missing}
	}
	for j := 0; j < total; j++ {
		role := roles[j]
		n := nums[j] + 1
		switch {
		case role < k:
			c.Parts = append(c.Parts, mk(ids[role]+1, n, declPerm[role]+1, relPerm[role]+1, zipPerm[j]+1))
		case role < k+ndecoy:
			// decoys reuse token 90 in the rendered content only once; further decoys get 93, 94
			c.Parts = append(c.Parts, mk([]int{90, 93, 94}[role-k], n, 0, 0, zipPerm[j]+1))
		default:
			c.Parts = append(c.Parts, mk(91, n, 0, k+1, zipPerm[j]+1))
		}
	}
	// decoys named like a wrong reading of each declared reference
	if aliasSp != sp {
		np := len(c.Parts)
		for j := 0; j < np; j++ {
			if p := c.Parts[j]; p.Decl > 0 {
				d := p
				d.ID, d.Decl, d.Rel, d.Zip, d.Present = 100+p.ID, 0, 0, total+2+j, true
				d.Name.Dir = append([]string{}, p.Name.Dir...)
				d.Name.Sp = aliasSp
				c.Parts = append(c.Parts, d)
			}
		}
	}
	// a decoy under the conventional name of the missing position (real parts live elsewhere)
	if pr.Missing > 0 && (pr.Paths == "nested" || pr.Paths == "renamed") && c.Fmt != "epub" && rnd.Intn(2) == 0 {
		cdir := map[string][]string{"xlsx": {"xl", "worksheets"}, "pptx": {"ppt", "slides"}}[c.Fmt]
		cstem := map[string]string{"xlsx": "sheet", "pptx": "slide"}[c.Fmt]
		d := mk(95, pr.Missing, 0, 0, total+1)
		d.Name.Sp, d.Href.Enc = "none", "none"
		d.Name.Dir, d.Name.Stem = cdir, cstem
		d.Href.Abs, d.Href.Segs, d.Href.Stem = false, cdir[1:], cstem
		c.Parts = append(c.Parts, d)
	}
	// for the signature hint only (never for the verdict): ids by declared position
	ps := []c18Part{}
	for _, p := range c.Parts {
		if p.Decl > 0 && p.Present {
			ps = append(ps, p)
		}
	}
	sort.SliceStable(ps, func(a, b int) bool { return ps[a].Decl < ps[b].Decl })
	for _, p := range ps {
		c.Pages = append(c.Pages, p.ID)
	}
	c.Count = len(ps)

	// per-part attachments: notes slides on a random subset of the declared slides
	if c.Fmt == "pptx" {
		for j := range c.Parts {
			if c.Parts[j].Decl > 0 && rnd.Intn(2) == 0 {
				c.Parts[j].Notes = true
			}
		}
	}
	// the spelling of the declarations
	pr.Xml = c18Xml{Rev: rnd.Intn(2) == 0, Prefix: pick("r", "r", "rel", "ns1"), Single: rnd.Intn(2) == 0, Foreign: rnd.Intn(2) == 0,
		OC: rnd.Intn(2) == 0, Gaps: rnd.Intn(2) == 0, Decl: pick("std", "std", "none", "bom")}
	// the declaration chain
	main := c18Root{Media: "opf", Auth: true, Dir: append([]string{}, c.Base...), File: "content", Spine: []int{}, Hrefs: []c18Href{}}
	c.Roots = []c18Root{main}
	if c.Fmt == "epub" {
		if pr.Ver == 2 && rnd.Intn(3) == 0 {
			c.Roots = append([]c18Root{{Media: "other", Dir: []string{"alt"}, File: "book", Spine: []int{}, Hrefs: []c18Href{}}}, c.Roots...)
		}
		for a := rnd.Intn(3); a > 0; a-- { // further package documents after the default one
			alt := c18Root{Media: "opf", File: "alt" + strconv.Itoa(a), Spine: []int{}, Hrefs: []c18Href{}}
			inRoot := rnd.Intn(2) == 0
			if inRoot {
				alt.Dir = []string{}
			} else {
				alt.Dir = append([]string{}, c.Base...)
			}
			for _, j := range rnd.Perm(len(c.Parts)) {
				p := c.Parts[j]
				if rnd.Intn(3) == 0 {
					continue
				}
				h := p.Href
				if inRoot {
					h.Abs, h.Segs = false, append([]string{}, p.Name.Dir...)
				}
				alt.Spine = append(alt.Spine, p.ID)
				alt.Hrefs = append(alt.Hrefs, h)
			}
			c.Roots = append(c.Roots, alt)
			pr.Chain = "random"
		}
	} else {
		pr.Chain = pick("one", "infraFirst", "infraMixed")
		pr.Conf = pick("transitional", "strict")
	}
	c.Prof = pr
	return c
}

func c18Record(i int, raw []byte) Result {
	var q struct {
		N    int `json:"n"`
		K    int `json:"k"`
		Salt int `json:"salt"`
	}
	if err := json.Unmarshal(raw, &q); err != nil {
		return fail("decode", "decode", err.Error(), nil)
	}
	rnd := newRand(int64(q.Salt)*104729 + 18)
	var events []Event
	segs := 0
	for w := 0; w < q.N; w++ {
		c := c18RandomCase(rnd, q.K, []string{"xlsx", "pptx", "epub"})
		path, err := c18WriteCase(&c)
		if err != nil {
			panic(err)
		}
		obs := c18Observe(path, c.Fmt)
		os.Remove(path)
		base := c.Base
		if base == nil {
			base = []string{}
		}
		pkg := Event{"event": "Pkg", "fmt": c.Fmt, "base": base, "parts": c.Parts, "roots": c.Roots, "prof": c.Prof}
		if m := c18Check(&c, obs); m != nil {
			pkg["hint"] = c.Fmt + ":" + m.Symptom
		}
		events = append(events, pkg)
		segs++
		for _, a0 := range obs {
			a, nm := c18Notes(&c, a0) // attachments: checked here, the trace speaks of the parts
			events = append(events, Event{"event": "Begin", "api": a.Name})
			if nm != nil {
				events = append(events, Event{"event": "Error", "api": a.Name, "msg": nm.Symptom + ": " + nm.What})
				continue
			}
			if a.Err != "" {
				if c.Prof.Missing == 0 { // refusing a package with an absent declared part is not asserted
					events = append(events, Event{"event": "Error", "api": a.Name, "msg": a.Err})
				}
				continue
			}
			if a.Pages == nil && a.Flat == nil {
				events = append(events, Event{"event": "Total", "api": a.Name, "n": a.Count})
				continue
			}
			n := 0
			if a.Pages != nil {
				for pi, pg := range a.Pages {
					events = append(events, Event{"event": "Part", "api": a.Name, "i": pi + 1, "toks": pg})
				}
				n = len(a.Pages)
			} else {
				for ti, t := range a.Flat {
					events = append(events, Event{"event": "Part", "api": a.Name, "i": ti + 1, "toks": []int{t}})
				}
				n = len(a.Flat)
			}
			if a.Count >= 0 {
				n = a.Count
			}
			events = append(events, Event{"event": "Count", "api": a.Name, "n": n})
		}
	}
	return Result{OK: true, Events: events, Evals: segs * 5, Nontrivial: true, Key: "rec" + strconv.Itoa(q.Salt)}
}
