package main

// C19 record mode: random documents drawn from the specification's own alphabet
// (HtmlWalkMC!FullAlphabet, emitted by TLC and passed in with the request), built
// by the same kind of pushdown walk but much longer than TLC's exhaustive bound.
// Every generator step is logged so that HtmlWalkTrace.tla re-runs the machine
// (and thereby re-validates the content model); the extraction results follow as
// Walk events whose guard is the contract.

import (
	"encoding/json"
	"fmt"
	"math/rand"

	"verif/internal/htmlw"
)

type c19Desc struct {
	Tag     string    `json:"tag"`
	Attr    string    `json:"attr"`
	Planned bool      `json:"planned"`
	Plan    []c19Desc `json:"plan"`
}

func (d c19Desc) norm() c19Desc {
	if d.Plan == nil {
		d.Plan = []c19Desc{}
	}
	for i := range d.Plan {
		d.Plan[i] = d.Plan[i].norm()
	}
	return d
}

type c19Frame struct {
	tag      string
	id       int
	planned  bool
	plan     []c19Desc
	inA      bool
	nohf     bool
	lastText bool
	nch      int
}

func c19Flow(t string) bool {
	switch t {
	case "body", "div", "section", "nav", "aside", "header", "footer", "blockquote":
		return true
	}
	return false
}

// c19FrameText mirrors HtmlWalk!TextOK for a frame (details takes text after its summary).
func c19FrameText(f *c19Frame) bool {
	return c19TextOK(f.tag) || (f.tag == "details" && f.nch >= 1)
}

func c19Heading(t string) bool { return len(t) == 2 && t[0] == 'h' && t[1] >= '1' && t[1] <= '6' }

func c19CellLike(t string) bool { return t == "li" || t == "td" || t == "th" }

func c19TextOK(t string) bool {
	return c19Flow(t) || c19Heading(t) || c19CellLike(t) || t == "p" || t == "pre" || t == "a" ||
		t == "dt" || t == "dd" || t == "figcaption" || t == "summary" || t == "figure"
}

// c19Allowed mirrors HtmlWalk!Allowed (the trace specification re-checks every step).
func c19Allowed(f *c19Frame, d c19Desc, lax bool) bool {
	if f.planned {
		return false
	}
	switch f.tag {
	case "ul", "ol":
		// Lax: a list or a div directly inside a list (malformed, kept in place by the parser)
		return d.Tag == "li" || (lax && (d.Tag == "ul" || d.Tag == "ol" || d.Tag == "div"))
	case "dl":
		return d.Tag == "dt" || d.Tag == "dd"
	case "pre", "a", "script", "style", "table", "tr", "thead", "tbody", "tfoot":
		return false
	case "details":
		if f.nch == 0 {
			return d.Tag == "summary"
		}
	}
	flowIn := c19Flow(f.tag) || f.tag == "dd" || f.tag == "figcaption" || f.tag == "figure" || f.tag == "details"
	mixable := d.Tag == "div" || d.Tag == "section" || d.Tag == "nav" || d.Tag == "aside"
	switch {
	case d.Tag != "body" && c19Flow(d.Tag):
		if (d.Tag == "header" || d.Tag == "footer") && f.nohf {
			return false
		}
		return flowIn || (mixable && c19CellLike(f.tag) && d.Planned)
	case c19Heading(d.Tag), d.Tag == "pre", d.Tag == "script":
		return flowIn
	case d.Tag == "table":
		return flowIn || (c19CellLike(f.tag) && d.Attr != "")
	case d.Tag == "p", d.Tag == "ul", d.Tag == "ol":
		return flowIn || c19CellLike(f.tag)
	case d.Tag == "a":
		return !f.inA && (flowIn || c19Heading(f.tag) || f.tag == "p" || c19CellLike(f.tag) || f.tag == "dt" || f.tag == "summary")
	case d.Tag == "br":
		return c19Heading(f.tag) || f.tag == "p" || c19CellLike(f.tag) || f.tag == "dt" || f.tag == "summary"
	case d.Tag == "dl", d.Tag == "figure", d.Tag == "details":
		return c19Flow(f.tag)
	case d.Tag == "dt", d.Tag == "dd":
		return f.tag == "dl"
	case d.Tag == "figcaption":
		return f.tag == "figure" && f.nch == 0
	case d.Tag == "summary":
		return f.tag == "details" && f.nch == 0
	}
	return false
}

type c19Builder struct {
	rnd    *rand.Rand
	stack  []*c19Frame
	stream []htmlw.Item
	events []Event
	nel    int
	ntok   int
}

func (b *c19Builder) top() *c19Frame { return b.stack[len(b.stack)-1] }

func (b *c19Builder) open(d c19Desc) {
	f := b.top()
	f.lastText, f.nch = false, f.nch+1
	b.nel++
	b.events = append(b.events, Event{"event": "Open", "d": d.norm()})
	if d.Tag == "br" {
		b.stream = append(b.stream, htmlw.Item{Op: "void", Tag: d.Tag, Attr: d.Attr, ID: b.nel})
		return
	}
	b.stream = append(b.stream, htmlw.Item{Op: "open", Tag: d.Tag, Attr: d.Attr, ID: b.nel})
	b.stack = append(b.stack, &c19Frame{tag: d.Tag, id: b.nel, planned: d.Planned, plan: d.Plan,
		inA: f.inA || d.Tag == "a", nohf: f.nohf || d.Tag == "header" || d.Tag == "footer"})
}

func (b *c19Builder) text(form string) {
	f := b.top()
	f.lastText, f.nch = true, f.nch+1
	b.ntok++
	b.stream = append(b.stream, htmlw.Item{Op: "text", Tag: form, ID: b.ntok})
	b.events = append(b.events, Event{"event": "Text", "form": form})
}

func (b *c19Builder) close() {
	f := b.top()
	b.stream = append(b.stream, htmlw.Item{Op: "close", Tag: f.tag, ID: f.id})
	b.events = append(b.events, Event{"event": "Close"})
	b.stack = b.stack[:len(b.stack)-1]
	b.top().lastText = false
}

// planStep executes the next forced child of a planned frame.
func (b *c19Builder) planStep() {
	f := b.top()
	d := f.plan[0]
	f.plan = f.plan[1:]
	if d.Tag == "#text" {
		b.text(d.Attr)
	} else {
		b.open(d)
	}
}

var c19Forms = []string{"plain", "plain", "plain", "amp", "num"}

func c19RandDoc(rnd *rand.Rand, alphabet []c19Desc, steps, maxDepth int, lax bool) *c19Builder {
	b := &c19Builder{rnd: rnd, stack: []*c19Frame{{tag: "body"}}}
	b.events = append(b.events, Event{"event": "Reset"})
	free := 0
	for {
		f := b.top()
		if f.planned {
			if len(f.plan) > 0 {
				b.planStep()
			} else {
				b.close()
			}
			continue
		}
		finishing := free >= steps || b.ntok > 800
		canClose := len(b.stack) > 1 && f.nch >= 1
		if finishing {
			if len(b.stack) == 1 {
				if f.nch == 0 {
					b.text("plain")
				}
				break
			}
			if canClose {
				b.close()
				continue
			}
			// an empty free element must get a child before it can be closed
			switch {
			case c19FrameText(f):
				b.text("plain")
			case f.tag == "dl":
				b.open(c19Desc{Tag: "dd"})
			case f.tag == "details":
				b.open(c19Desc{Tag: "summary"})
			default:
				b.open(c19Desc{Tag: "li"})
			}
			continue
		}
		switch r := rnd.Intn(10); {
		case r < 2 && canClose:
			b.close()
		case r < 5 && c19FrameText(f) && !f.lastText:
			b.text(c19Forms[rnd.Intn(len(c19Forms))])
			free++
		default:
			var cand []c19Desc
			if len(b.stack) < maxDepth {
				for _, d := range alphabet {
					if c19Allowed(f, d, lax) {
						cand = append(cand, d)
					}
				}
			}
			if len(cand) == 0 {
				if canClose {
					b.close()
				} else if c19FrameText(f) && !f.lastText {
					b.text("plain")
					free++
				} else {
					free++ // nothing possible here this round
				}
				continue
			}
			b.open(cand[rnd.Intn(len(cand))])
			free++
		}
	}
	return b
}

// c19RecordCase: {"n": documents, "steps": free steps, "alphabet": [...]}.
func c19RecordCase(i int, raw []byte) Result {
	var q struct {
		N        int       `json:"n"`
		Steps    int       `json:"steps"`
		Depth    int       `json:"depth"`
		Lax      bool      `json:"lax"`
		Alphabet []c19Desc `json:"alphabet"`
	}
	if err := json.Unmarshal(raw, &q); err != nil {
		return fail("decode", "decode", err.Error(), nil)
	}
	if len(q.Alphabet) == 0 {
		panic("machinery: record request without alphabet")
	}
	rnd := newRand(int64(i)*104729 + 19)
	res := Result{OK: true}
	for k := 0; k < q.N; k++ {
		alphabet := q.Alphabet
		if q.Lax && k%2 == 0 {
			// list-heavy documents, so that malformed list nesting actually occurs
			alphabet = nil
			for _, d := range q.Alphabet {
				if !d.Planned && d.Attr == "" && (d.Tag == "ul" || d.Tag == "ol" || d.Tag == "li" || d.Tag == "div" || d.Tag == "p" || d.Tag == "h2") {
					alphabet = append(alphabet, d)
				}
			}
		}
		b := c19RandDoc(rnd, alphabet, 4+rnd.Intn(q.Steps), q.Depth, q.Lax)
		src := htmlw.Render(b.stream, nil)
		if err := htmlw.Audit(src, b.stream); err != nil {
			panic(fmt.Sprintf("machinery: the HTML5 parser does not rebuild the generated tree: %v\n%s", err, src))
		}
		ev := b.events
		for _, g := range c19Observe(src, k%4 == 0, fmt.Sprintf("rec%d_%d", i, k)) {
			res.Evals += len(g.Toks)
			if g.Err != "" {
				ev = append(ev, Event{"event": "Error", "err": g.Err})
				continue
			}
			for m, toks := range g.Toks {
				mode := g.Modes[m]
				if g.Entry != "reader" {
					mode = "default" // entry without a mode parameter
				}
				if m < len(g.Units) { // with the unit each token came out in
					ev = append(ev, Event{"event": "Walk", "entry": g.Entry, "out": g.Out, "mode": mode, "toks": withUnits(toks, g.Units[m])})
					continue
				}
				ev = append(ev, Event{"event": "Walk", "entry": g.Entry, "out": g.Out, "mode": mode, "toks": toks})
			}
			ev = append(ev, Event{"event": "NextOut"})
		}
		res.Events = append(res.Events, ev...)
	}
	return res
}
