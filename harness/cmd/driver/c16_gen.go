package main

// C16 record mode: random documents larger than anything TLC enumerates.  The
// generator only emits documents of the language WordDoc!IsDoc accepts (the trace
// specification re-checks that: TraceDoc has IsDoc as its guard).

import (
	"encoding/json"
	"fmt"
	"math/rand"
	"os"

	"verif/internal/wpw"
)

func c16RandChildren(rnd *rand.Rand, fmtName string, maxCh, maxAt int) []wpw.Child {
	wr := []string{"r", "r", "span", "link", "span>link", "link>span", "span>link>span", "ruby", "link>ruby"}
	at := []string{"t", "t", "tab", "br", "s"}
	if fmtName == "docx" {
		wr = []string{"r", "r", "span", "link", "ins", "sdt", "smartTag", "fldSimple", "bdo", "link>ins", "sdt>link", "link>sdt>ins",
			"bdo>link>ins", "sdt>sdt", "ins>link", "fldSimple>link", "link>smartTag"}
		at = []string{"t", "t", "sym", "tab", "br"}
	}
	for {
		n := 1 + rnd.Intn(maxCh)
		ch := make([]wpw.Child, n)
		tokens := 0
		for i := range ch {
			m := 1 + rnd.Intn(maxAt)
			a := make([]string, m)
			for j := range a {
				a[j] = at[rnd.Intn(len(at))]
				if a[j] == "t" || a[j] == "sym" {
					tokens++
				}
			}
			ch[i] = wpw.Child{W: wr[rnd.Intn(len(wr))], A: a}
		}
		if tokens >= 1 {
			return ch
		}
	}
}

func c16RandTable(rnd *rand.Rand, maxDim int) wpw.Tbl {
	t := wpw.Tbl{Rows: 1 + rnd.Intn(maxDim), Cols: 1 + rnd.Intn(maxDim), Hm: [][]int{}, Vm: [][]int{}, Mp: [][]int{}, Rc: [][]int{}}
	used := map[[2]int]bool{}
	for k := 0; k < 3; k++ {
		r, c := 1+rnd.Intn(t.Rows), 1+rnd.Intn(t.Cols)
		if rnd.Intn(2) == 0 {
			if c+1 <= t.Cols && !used[[2]int{r, c}] && !used[[2]int{r, c + 1}] {
				used[[2]int{r, c}], used[[2]int{r, c + 1}] = true, true
				t.Hm = append(t.Hm, []int{r, c})
			}
		} else {
			if r+1 <= t.Rows && !used[[2]int{r, c}] && !used[[2]int{r + 1, c}] {
				used[[2]int{r, c}], used[[2]int{r + 1, c}] = true, true
				t.Vm = append(t.Vm, []int{r, c})
			}
		}
	}
	g := wpw.Grid(t)
	for r := 1; r <= t.Rows; r++ {
		for c := 1; c <= t.Cols; c++ {
			if g[r-1][c-1].Kind == "a" && rnd.Intn(4) == 0 {
				t.Mp = append(t.Mp, []int{r, c})
			}
			if g[r-1][c-1].Kind == "a" && rnd.Intn(5) == 0 {
				t.Rc = append(t.Rc, []int{r, c})
			}
		}
	}
	return t
}

func c16RandDoc(rnd *rand.Rand, fmtName string, blocks int) wpw.Doc {
	d := wpw.Doc{Fmt: fmtName, Hdr: rnd.Intn(2), Ftr: rnd.Intn(2)}
	hows := []string{"builtin", "custom1", "outline"}
	if fmtName == "docx" {
		hows = append(hows, "custom2")
	}
	noTbl := wpw.Tbl{Hm: [][]int{}, Vm: [][]int{}, Mp: [][]int{}, Rc: [][]int{}}
	// a random style sheet: an arbitrary basedOn graph (chains, shared parents, cycles,
	// undefined parents) satisfying WordDoc!SheetOK
	if rnd.Intn(2) == 0 {
		n := 1 + rnd.Intn(5)
		decls := []string{"none", "none", "builtin", "nameL", "nameU", "outline"}
		if fmtName == "odt" {
			decls = []string{"none", "none", "builtin", "bare", "outline"}
		}
		usedLvl := map[int]bool{}
		for i := 0; i < n; i++ {
			st := wpw.Style{Decl: decls[rnd.Intn(len(decls))], Lvl: 1 + rnd.Intn(9)}
			if st.Decl == "builtin" || st.Decl == "nameL" || st.Decl == "nameU" || st.Decl == "bare" {
				if usedLvl[st.Lvl] {
					st.Decl = "none"
				}
				usedLvl[st.Lvl] = usedLvl[st.Lvl] || st.Decl != "none"
			}
			st.Based = []int{-2, -1, 0, 1 + rnd.Intn(n), 1 + rnd.Intn(n), 1 + rnd.Intn(n)}[rnd.Intn(6)]
			st.Loc = "doc"
			if fmtName == "odt" && st.Decl != "builtin" && st.Decl != "bare" && rnd.Intn(2) == 0 {
				st.Loc = "auto"
			}
			d.Sheet = append(d.Sheet, st)
		}
	}
	wraps, marks := []string{"section", "toc"}, []string{"softbreak", "sectionempty"}
	if fmtName == "docx" {
		wraps, marks = []string{"sdt", "customXml"}, []string{"bookmark", "proofErr", "sdtempty"}
	}
	wdepth := 0
	if fmtName == "odt" && rnd.Intn(4) == 0 { // deleted text of tracked changes: first child of office:text
		d.Body = append(d.Body, wpw.Block{K: "M", Ch: []wpw.Child{}, How: "tracked", Tb: noTbl})
	}
	for len(d.Body) < blocks || wdepth > 0 {
		// block-level wrappers and markers between the blocks (never inside a list run: a
		// bracket ends the run, and the next list block starts a new one)
		if r := rnd.Intn(12); r == 0 && wdepth < 3 && len(d.Body) < blocks {
			d.Body = append(d.Body, wpw.Block{K: "WO", Ch: []wpw.Child{}, How: wraps[rnd.Intn(len(wraps))], Tb: noTbl})
			wdepth++
			continue
		} else if (r == 1 || len(d.Body) >= blocks) && wdepth > 0 {
			d.Body = append(d.Body, wpw.Block{K: "WC", Ch: []wpw.Child{}, Tb: noTbl})
			wdepth--
			continue
		} else if r == 2 {
			d.Body = append(d.Body, wpw.Block{K: "M", Ch: []wpw.Child{}, How: marks[rnd.Intn(len(marks))], Tb: noTbl})
			continue
		}
		if len(d.Sheet) > 0 && rnd.Intn(4) == 0 {
			how := ""
			if fmtName == "odt" && rnd.Intn(3) == 0 {
				how = "noattr"
			}
			d.Body = append(d.Body, wpw.Block{K: "S", Ch: c16RandChildren(rnd, fmtName, 2, 2), Lvl: 1 + rnd.Intn(9), How: how, Sty: 1 + rnd.Intn(len(d.Sheet)), Tb: noTbl})
			continue
		}
		switch rnd.Intn(6) {
		case 0, 1:
			d.Body = append(d.Body, wpw.Block{K: "P", Ch: c16RandChildren(rnd, fmtName, 4, 4), Tb: noTbl})
		case 2:
			how := hows[rnd.Intn(len(hows))]
			if len(d.Sheet) > 0 {
				how = "outline" // the fixed heading styles are not part of a document with its own sheet
			}
			d.Body = append(d.Body, wpw.Block{K: "H", Ch: c16RandChildren(rnd, fmtName, 2, 2), Lvl: 1 + rnd.Intn(map[string]int{"docx": 9, "odt": 10}[fmtName]), How: how, Tb: noTbl})
		case 3: // a run of list items: a tree written as depths - may start deep, jump levels,
			// contain empty items and (ODT) a paragraph after a nested list
			num := []string{"bullet", "decimal", "decimalR"}[rnd.Intn(3)]
			open := map[int]bool{} // depths whose item (with a paragraph of its own) is still open
			prev := -1
			for k, n := 0, 1+rnd.Intn(6); k < n; k++ {
				lvl := rnd.Intn(4)
				how := ""
				switch r := rnd.Intn(8); {
				case r == 0:
					how = "emp"
				case r == 1 && fmtName == "odt":
					how = "wrapp"
				case r <= 3 && fmtName == "odt":
					// continuation paragraph of a still open, shallower item
					for l := prev - 1; l >= 0; l-- {
						if open[l] {
							lvl, how = l, "cont"
							break
						}
					}
				}
				for l := range open {
					if l > lvl {
						delete(open, l)
					}
				}
				if how != "cont" {
					open[lvl] = true
				}
				prev = lvl
				d.Body = append(d.Body, wpw.Block{K: "LI", Ch: c16RandChildren(rnd, fmtName, 2, 3), Lvl: lvl, Num: num, How: how, Tb: noTbl})
			}
			// a non-list block ends the run
			d.Body = append(d.Body, wpw.Block{K: "P", Ch: c16RandChildren(rnd, fmtName, 1, 1), Tb: noTbl})
		default:
			how := ""
			if rnd.Intn(5) == 0 { // the cells' paragraphs inside a cell-level content control / section
				how = map[string]string{"docx": "cellsdt", "odt": "cellsec"}[fmtName]
			}
			d.Body = append(d.Body, wpw.Block{K: "TBL", Ch: []wpw.Child{}, How: how, Tb: c16RandTable(rnd, 4)})
		}
	}
	return d
}

// c16RecordCase: {"n": documents, "blocks": size}; each document is one trace segment.
func c16RecordCase(i int, raw []byte) Result {
	var q struct {
		N      int `json:"n"`
		Blocks int `json:"blocks"`
	}
	if err := json.Unmarshal(raw, &q); err != nil {
		return fail("decode", "decode", err.Error(), nil)
	}
	rnd := newRand(int64(i)*7919 + 16)
	res := Result{OK: true}
	for k := 0; k < q.N; k++ {
		fmtName := []string{"docx", "odt"}[k%2]
		d := c16RandDoc(rnd, fmtName, 3+rnd.Intn(q.Blocks))
		path, _, err := c16Write(d, fmt.Sprintf("rec%d_%d", i, k))
		if err != nil {
			panic("machinery: " + err.Error())
		}
		for _, o := range c16Observe(path, fmtName) {
			res.Evals++
			if o.Entry != "reader" || o.Out != "document" {
				continue
			}
			if o.Err != "" {
				// an event the trace specification can never accept
				res.Events = append(res.Events, c16Events(d, nil)[0], Event{"event": "Error", "err": o.Err})
				continue
			}
			res.Events = append(res.Events, c16Events(d, o.Items)...)
		}
		os.Remove(path)
	}
	return res
}
