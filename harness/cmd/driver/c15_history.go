package main

// C15 histories (MdHistory.tla): several renderings on ONE reader.  Every call of a
// TLC-enumerated history is run in order on the same htmldoc.Reader, the same
// tabula Extractor over an HTML file, the same docx.Reader and the same odt.Reader;
// each result is parsed back and compared with what the specification says a freshly
// opened reader returns for the call's options (purity of rendering).  histrecord:
// random longer histories, one Call event per call with the heading levels read
// back, for MdHistoryTrace.tla.

import (
	"crypto/sha1"
	"encoding/hex"
	"encoding/json"
	"fmt"
	"os"
	"path/filepath"
	"strings"

	"github.com/tsawler/tabula"
	"github.com/tsawler/tabula/docx"
	"github.com/tsawler/tabula/htmldoc"
	"github.com/tsawler/tabula/model"
	"github.com/tsawler/tabula/odt"
	"github.com/tsawler/tabula/rag"
)

type c15HistCall struct {
	Op   string   `json:"op"` // md | rag | text | doc
	Nav  string   `json:"nav"`
	Off  int      `json:"off"`
	Mx   int      `json:"mx"`
	Meta bool     `json:"meta"`
	Toc  bool     `json:"toc"`
	Vis  []int    `json:"vis"` // 1-based positions of the elements visible under Nav
	Exp  []c15Exp `json:"exp"` // what a fresh reader returns: one block per visible element
}

type c15HistCase struct {
	Writer string        `json:"writer"`
	Els    []c15El       `json:"els"`
	Calls  []c15HistCall `json:"calls"`
}

// c15Rendering is what one call returned: Markdown / text, or a document model.
type c15Rendering struct {
	Text string
	Doc  *model.Document
	Err  error
}

// c15Target is one reader object that lives through a whole history.
type c15Target interface {
	// Can reports whether the call can be expressed on this reader.
	Can(c *c15HistCall) bool
	Call(c *c15HistCall) c15Rendering
	Close()
}

func c15NavMode(s string) htmldoc.NavigationExclusionMode {
	switch s {
	case "explicit":
		return htmldoc.NavigationExclusionExplicit
	case "standard":
		return htmldoc.NavigationExclusionStandard
	case "aggressive":
		return htmldoc.NavigationExclusionAggressive
	}
	return htmldoc.NavigationExclusionNone
}

func c15CallOpts(c *c15HistCall) rag.MarkdownOptions {
	o := rag.DefaultMarkdownOptions()
	o.IncludeMetadata, o.IncludeTableOfContents = c.Meta, c.Toc
	o.HeadingLevelOffset, o.MaxHeadingLevel = c.Off, c.Mx
	return o
}

// --- one htmldoc.Reader
type c15HTMLReader struct{ r *htmldoc.Reader }

func (t *c15HTMLReader) Can(c *c15HistCall) bool { return true }
func (t *c15HTMLReader) Close()                  { t.r.Close() }
func (t *c15HTMLReader) Call(c *c15HistCall) c15Rendering {
	eo := htmldoc.ExtractOptions{NavigationExclusion: c15NavMode(c.Nav)}
	switch c.Op {
	case "md":
		if c.Nav == "standard" {
			s, err := t.r.Markdown() // the default options are the standard mode
			return c15Rendering{Text: s, Err: err}
		}
		s, err := t.r.MarkdownWithOptions(eo)
		return c15Rendering{Text: s, Err: err}
	case "rag":
		s, err := t.r.MarkdownWithRAGOptions(eo, c15CallOpts(c))
		return c15Rendering{Text: s, Err: err}
	case "text":
		s, err := t.r.TextWithOptions(eo)
		return c15Rendering{Text: s, Err: err}
	default:
		if c.Nav == "standard" {
			d, err := t.r.Document()
			return c15Rendering{Doc: d, Err: err}
		}
		d, err := t.r.DocumentWithOptions(eo)
		return c15Rendering{Doc: d, Err: err}
	}
}

// --- one tabula Extractor over a file (HTML, DOCX, ODT): the facade fixes the
// navigation mode per operation (Markdown and Text: none; Document: standard for HTML)
type c15Extractor struct {
	e    *tabula.Extractor
	html bool
}

func (t *c15Extractor) Can(c *c15HistCall) bool {
	if !t.html {
		return c.Nav == "none"
	}
	if c.Op == "doc" {
		return c.Nav == "standard"
	}
	return c.Nav == "none"
}
func (t *c15Extractor) Close() { t.e.Close() }
func (t *c15Extractor) Call(c *c15HistCall) c15Rendering {
	switch c.Op {
	case "md":
		s, _, err := t.e.ToMarkdown()
		return c15Rendering{Text: s, Err: err}
	case "rag":
		s, _, err := t.e.ToMarkdownWithOptions(c15CallOpts(c))
		return c15Rendering{Text: s, Err: err}
	case "text":
		s, _, err := t.e.Text()
		return c15Rendering{Text: s, Err: err}
	default:
		d, _, err := t.e.Document()
		return c15Rendering{Doc: d, Err: err}
	}
}

// --- one docx.Reader / odt.Reader
type c15DocxReader struct{ r *docx.Reader }

func (t *c15DocxReader) Can(c *c15HistCall) bool { return c.Nav == "none" }
func (t *c15DocxReader) Close()                  { t.r.Close() }
func (t *c15DocxReader) Call(c *c15HistCall) c15Rendering {
	switch c.Op {
	case "md":
		s, err := t.r.Markdown()
		return c15Rendering{Text: s, Err: err}
	case "rag":
		s, err := t.r.MarkdownWithRAGOptions(docx.ExtractOptions{}, c15CallOpts(c))
		return c15Rendering{Text: s, Err: err}
	case "text":
		s, err := t.r.Text()
		return c15Rendering{Text: s, Err: err}
	default:
		d, err := t.r.Document()
		return c15Rendering{Doc: d, Err: err}
	}
}

type c15OdtReader struct{ r *odt.Reader }

func (t *c15OdtReader) Can(c *c15HistCall) bool { return c.Nav == "none" }
func (t *c15OdtReader) Close()                  { t.r.Close() }
func (t *c15OdtReader) Call(c *c15HistCall) c15Rendering {
	switch c.Op {
	case "md":
		s, err := t.r.Markdown()
		return c15Rendering{Text: s, Err: err}
	case "rag":
		s, err := t.r.MarkdownWithRAGOptions(odt.ExtractOptions{}, c15CallOpts(c))
		return c15Rendering{Text: s, Err: err}
	case "text":
		s, err := t.r.Text()
		return c15Rendering{Text: s, Err: err}
	default:
		d, err := t.r.Document()
		return c15Rendering{Doc: d, Err: err}
	}
}

// c15OpenTarget materialises the document and opens one reader of the given kind.
// The second result removes any file written.
func c15OpenTarget(writer string, els []c15El) (c15Target, func(), error) {
	c := &c15Case{Meta: true, Els: els}
	none := func() {}
	switch writer {
	case "htmldoc":
		src, _ := c15HTML(c, 0)
		r, err := htmldoc.OpenReader(strings.NewReader(src))
		if err != nil {
			return nil, none, err
		}
		return &c15HTMLReader{r}, none, nil
	case "htmlfile":
		src, _ := c15HTML(c, 0)
		dir := os.Getenv("VERIF_SCRATCH")
		if dir == "" {
			dir = os.TempDir()
		}
		dir = filepath.Join(dir, "c15files")
		if err := os.MkdirAll(dir, 0o755); err != nil {
			return nil, none, err
		}
		f, err := os.CreateTemp(dir, "h*.html")
		if err != nil {
			return nil, none, err
		}
		f.WriteString(src)
		f.Close()
		return &c15Extractor{e: tabula.Open(f.Name()), html: true}, func() { os.Remove(f.Name()) }, nil
	case "docx", "docxfile":
		p, _, err := c15Docx(c)
		if err != nil {
			return nil, none, err
		}
		rm := func() { os.Remove(p) }
		if writer == "docxfile" {
			return &c15Extractor{e: tabula.Open(p)}, rm, nil
		}
		r, err := docx.Open(p)
		if err != nil {
			return nil, rm, err
		}
		return &c15DocxReader{r}, rm, nil
	case "odt", "odtfile":
		p, _, err := c15Odt(c)
		if err != nil {
			return nil, none, err
		}
		rm := func() { os.Remove(p) }
		if writer == "odtfile" {
			return &c15Extractor{e: tabula.Open(p)}, rm, nil
		}
		r, err := odt.Open(p)
		if err != nil {
			return nil, rm, err
		}
		return &c15OdtReader{r}, rm, nil
	}
	return nil, none, fmt.Errorf("unknown history target %q", writer)
}

// c15CheckRendering compares what a call returned with what a fresh reader returns
// according to the specification.
func c15CheckRendering(els []c15El, call *c15HistCall, r c15Rendering) *c15Mismatch {
	vis := make([]c15El, 0, len(call.Vis))
	for _, n := range call.Vis {
		vis = append(vis, els[n-1])
	}
	cc := &c15Case{Off: call.Off, Mx: call.Mx, Meta: call.Meta, Toc: call.Toc, Els: vis, Exp: call.Exp}
	switch call.Op {
	case "md", "rag":
		return c15Find(cc, r.Text, nil)
	case "text":
		// plain text has no structure to read back: every visible word must be there
		plain := r.Text
		for n, e := range call.Exp {
			for _, w := range c15ExpWords(e) {
				if !strings.Contains(plain, w) {
					return &c15Mismatch{"text-lost", vis[n].T, fmt.Sprintf("the word %q of the source is not in the text output", w)}
				}
			}
		}
	case "doc":
		if r.Doc == nil {
			return &c15Mismatch{"doc-missing", "", "no document model returned"}
		}
		levels, all := c15DocModel(r.Doc)
		for n, e := range call.Exp {
			if e.T == "heading" {
				// the document model keeps the source level of a heading
				if lv, ok := levels[e.S]; ok && lv != vis[n].Level {
					return &c15Mismatch{"doc-heading-level", "", fmt.Sprintf("heading %q has level %d in the document model, the source level is %d", e.S, lv, vis[n].Level)}
				}
			}
			for _, w := range c15ExpWords(e) {
				if !strings.Contains(all, w) {
					return &c15Mismatch{"text-lost", vis[n].T, fmt.Sprintf("the word %q of the source is not in the document model", w)}
				}
			}
		}
	}
	return nil
}

// c15DocModel collects the heading levels (by heading text) and all text of a document model.
func c15DocModel(d *model.Document) (map[string]int, string) {
	levels := map[string]int{}
	var all strings.Builder
	for _, p := range d.Pages {
		for _, e := range p.Elements {
			switch x := e.(type) {
			case *model.Heading:
				levels[strings.TrimSpace(x.Text)] = x.Level
				all.WriteString(x.Text + "\n")
			case *model.Paragraph:
				all.WriteString(x.Text + "\n")
			case *model.List:
				for _, it := range x.Items {
					all.WriteString(it.Text + "\n")
				}
			case *model.Table:
				for _, row := range x.Rows {
					for _, c := range row {
						all.WriteString(c.Text + "\n")
					}
				}
			default:
				if te, ok := e.(interface{ GetText() string }); ok {
					all.WriteString(te.GetText() + "\n")
				}
			}
		}
	}
	return levels, all.String()
}

func c15ExpWords(e c15Exp) []string {
	switch e.T {
	case "heading", "para":
		return []string{e.S}
	case "list":
		var ws []string
		for _, it := range e.Items {
			ws = append(ws, it.W)
		}
		return ws
	case "table":
		var ws []string
		for _, row := range e.Grid {
			for _, c := range row {
				if !c.Free {
					for _, w := range c.Words {
						// "a|b" may be stored with the pipe in plain text / model cells
						ws = append(ws, w)
					}
				}
			}
		}
		return ws
	}
	return nil
}

func c15CallName(c *c15HistCall) string {
	switch c.Op {
	case "rag":
		return fmt.Sprintf("MarkdownWithRAGOptions(nav=%s, offset=%d, max=%d)", c.Nav, c.Off, c.Mx)
	case "md":
		return "Markdown(nav=" + c.Nav + ")"
	case "text":
		return "Text(nav=" + c.Nav + ")"
	}
	return "Document(nav=" + c.Nav + ")"
}

func c15HistoryCase(i int, raw []byte) Result {
	var c c15HistCase
	if err := json.Unmarshal(raw, &c); err != nil {
		return fail("decode", "decode", err.Error(), nil)
	}
	h := sha1.Sum(raw)
	r := Result{OK: true, Key: hex.EncodeToString(h[:8])}
	t, rm, err := c15OpenTarget(c.Writer, c.Els)
	defer rm()
	if err != nil {
		return fail("error", "C15:error:"+c.Writer, "cannot open the generated document: "+err.Error(), map[string]interface{}{"case": json.RawMessage(raw)})
	}
	defer t.Close()
	var done []string
	for k := range c.Calls {
		call := &c.Calls[k]
		if !t.Can(call) {
			continue
		}
		r.Evals++
		out := t.Call(call)
		name := c15CallName(call)
		bad := func(clause, sig, what string) Result {
			x := fail(clause, sig, what, map[string]interface{}{"case": json.RawMessage(raw), "call": k, "calls_before": done, "observed": out.Text})
			x.Nontrivial, x.Key, x.Evals = len(done) > 0, r.Key, r.Evals
			return x
		}
		if out.Err != nil {
			return bad("error", "C15:error:"+c.Writer, fmt.Sprintf("%s: %s returned an error after %v: %v", c.Writer, name, done, out.Err))
		}
		if m := c15CheckRendering(c.Els, call, out); m != nil {
			// the same call on a freshly opened reader tells a rendering defect from a purity defect
			impure := false
			if len(done) > 0 {
				if ft, frm, ferr := c15OpenTarget(c.Writer, c.Els); ferr == nil {
					if c15CheckRendering(c.Els, call, ft.Call(call)) == nil {
						impure = true
					}
					ft.Close()
					frm()
				} else {
					frm()
				}
			}
			if impure {
				return bad("impure", "C15:impure:"+c.Writer+":"+m.Clause,
					fmt.Sprintf("%s: %s after %v on the same reader: %s; a freshly opened reader returns the expected structure", c.Writer, name, done, m.What))
			}
			return bad(m.Clause, c15Sig(c.Writer, m), fmt.Sprintf("%s: %s: %s", c.Writer, name, m.What))
		}
		done = append(done, name)
	}
	r.Nontrivial = len(done) >= 2
	return r
}

// ---------------------------------------------------------------- histrecord

func c15HistRecord(in, out string) error {
	type req struct {
		N       int      `json:"n"`
		Targets []string `json:"targets"`
	}
	return runCases(in, out, func(i int, raw []byte) Result {
		var q req
		if err := json.Unmarshal(raw, &q); err != nil {
			return fail("decode", "decode", err.Error(), nil)
		}
		rnd := newRand(int64(i)*15485863 + 1515)
		var events []Event
		evals := 0
		for s := 0; s < q.N; s++ {
			// a document of headings (some inside <nav>) and paragraphs
			var els []c15El
			var abs []map[string]interface{}
			nh := 2 + rnd.Intn(5)
			for h := 0; h < nh; h++ {
				el := c15El{T: "heading", Level: 1 + rnd.Intn(6), W: fmt.Sprintf("h%c", 'A'+h), Nav: rnd.Intn(4) == 0}
				els = append(els, el)
				abs = append(abs, map[string]interface{}{"t": "heading", "level": el.Level, "w": el.W, "nav": el.Nav})
				if rnd.Intn(2) == 0 {
					pw := fmt.Sprintf("p%c", 'A'+h)
					els = append(els, c15El{T: "para", W: pw})
					abs = append(abs, map[string]interface{}{"t": "para", "level": 0, "w": pw, "nav": false})
				}
			}
			target := q.Targets[rnd.Intn(len(q.Targets))]
			t, rm, err := c15OpenTarget(target, els)
			if err != nil {
				rm()
				events = append(events, Event{"event": "Open", "target": target, "els": abs}, Event{"event": "Call", "err": err.Error()})
				continue
			}
			events = append(events, Event{"event": "Open", "target": target, "els": abs})
			ncalls := 2 + rnd.Intn(5)
			for k := 0; k < ncalls; k++ {
				call := c15HistCall{Op: []string{"md", "rag", "rag", "rag", "text", "doc"}[rnd.Intn(6)],
					Nav: []string{"none", "none", "explicit", "standard", "aggressive"}[rnd.Intn(5)], Off: 0, Mx: 6}
				if call.Op == "rag" {
					call.Off, call.Mx = rnd.Intn(6)-2, 1+rnd.Intn(6)
					call.Meta, call.Toc = rnd.Intn(3) == 0, rnd.Intn(3) == 0
				}
				if !t.Can(&call) {
					continue
				}
				evals++
				r := t.Call(&call)
				ev := Event{"event": "Call", "op": call.Op, "nav": call.Nav, "off": call.Off, "mx": call.Mx, "meta": call.Meta, "toc": call.Toc}
				if r.Err != nil {
					ev["err"] = r.Err.Error()
					events = append(events, ev)
					continue
				}
				levels := make([]int, len(els))
				switch call.Op {
				case "md", "rag":
					blocks := c15ReadMd(r.Text)
					for n, el := range els {
						if el.T != "heading" {
							continue
						}
						levels[n] = -1
						for _, b := range blocks {
							if b.T == "heading" && c15HasWord(b.S, el.W) {
								levels[n] = b.Level
								break
							}
						}
					}
					ev["md"] = c15Truncate(r.Text, 600)
				case "doc":
					lv, _ := c15DocModel(r.Doc)
					for n, el := range els {
						if el.T == "heading" {
							levels[n] = -1
							if x, ok := lv[el.W]; ok {
								levels[n] = x
							}
						}
					}
				}
				ev["levels"] = levels
				events = append(events, ev)
			}
			t.Close()
			rm()
		}
		return Result{OK: true, Events: events, Evals: evals}
	})
}
