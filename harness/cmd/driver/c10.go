package main

// C10 — PageSelect.tla / Lifecycle.tla binding.

import (
	"encoding/json"
	"fmt"
	"os"
	"path/filepath"
	"regexp"
	"strconv"
	"strings"
	"sync"
	"sync/atomic"

	"verif/internal/pdfdoc"
	"verif/internal/pdfw"

	tabula "github.com/tsawler/tabula"
)

func init() { handlers["c10"] = c10 }

var c10Pages = 3 // the lifecycle mode uses a 6-page document

var c10Once sync.Once
var c10Path string
var c10Err error

// a 6-page document: page i shows the single token w1x<i> (the selection cases use
// its first three pages only: they pass N = 3 ... see c10Select)
func c10Doc() (string, error) {
	c10Once.Do(func() {
		l := pdfdoc.Layout{Doc: 1, XRef: "table", ObjStm: "none", Filter: "none", Length: "direct", Size: "small", Split: 1,
			Depth: 1, MediaAt: 0, ResAt: 0, Revs: 1, Numbering: "ascending", Order: "sorted", Eol: "lf", Count: "chain"}
		base := [][]pdfdoc.Item{{{1, 1}}, {{1, 2}}, {{1, 3}}}
		if c10Pages == 6 {
			base = append(base, []pdfdoc.Item{{1, 4}}, []pdfdoc.Item{{1, 5}}, []pdfdoc.Item{{1, 6}})
		}
		data, err := pdfdoc.Build(l, base, nil, nil)
		if err != nil {
			c10Err = err
			return
		}
		dir := os.Getenv("VERIF_SCRATCH")
		if dir == "" {
			dir = os.TempDir()
		}
		c10Path = filepath.Join(dir, fmt.Sprintf("c10-%d.pdf", os.Getpid()))
		c10Err = os.WriteFile(c10Path, data, 0o644)
	})
	return c10Path, c10Err
}

type selCall struct {
	K string `json:"k"`
	A []int  `json:"a"`
}
type selCase struct {
	Calls    []selCall `json:"calls"`
	N        int       `json:"n"`
	Expected struct {
		Outcome string `json:"outcome"`
		Pages   []int  `json:"pages"`
	} `json:"expected"`
}

var tokRe = regexp.MustCompile(`w1x(\d+)`)

func tokensOf(s string) []int {
	out := []int{}
	for _, m := range tokRe.FindAllStringSubmatch(s, -1) {
		v, _ := strconv.Atoi(m[1])
		out = append(out, v)
	}
	return out
}

func apply(e *tabula.Extractor, calls []selCall) *tabula.Extractor {
	for _, c := range calls {
		if c.K == "pages" {
			e = e.Pages(c.A...)
		} else {
			e = e.PageRange(c.A[0], c.A[1])
		}
	}
	return e
}

// viaOf names the operation a history step uses (histories without the dimension use Text and PageCount)
func viaOf(kind string) string {
	if kind == "-" {
		return ""
	}
	return kind
}

// onlyOwnDerivations: no extractor other than e's ancestors was derived before this step, so a wrong page list cannot
// come from sharing between siblings - the operation itself selected the wrong pages
func onlyOwnDerivations(log []lifeOp, e int) bool {
	n := 1
	for _, op := range log {
		if op.Op == "derive" {
			n++
		}
	}
	return n <= 2
}

var emptyMu sync.Mutex
var emptyClass string
var emptyFirst string

func c10Select(i int, raw []byte) Result {
	var c selCase
	if err := json.Unmarshal(raw, &c); err != nil {
		return fail("decode", "decode", err.Error(), nil)
	}
	path, err := c10Doc()
	if err != nil {
		return Result{OK: false, Sig: "MACHINERY:pdfw", What: err.Error()}
	}
	all := len(c.Calls) == 0
	r := Result{OK: true, Nontrivial: !all, Key: string(raw), Evals: 3}
	mk := func(cl, what string, obs interface{}) Result {
		x := fail(cl, "C10:"+cl, what+fmt.Sprintf(" (calls %s on a %d-page document)", mustJSON(c.Calls), c.N), map[string]interface{}{"case": json.RawMessage(raw), "observed": obs})
		x.Nontrivial, x.Key, x.Evals = r.Nontrivial, r.Key, 3
		return x
	}
	txt, _, terr := apply(tabula.Open(path), c.Calls).Text()
	doc, _, derr := apply(tabula.Open(path), c.Calls).Document()
	cc, _, cerr := apply(tabula.Open(path), c.Calls).Chunks()
	switch c.Expected.Outcome {
	case "error":
		if terr == nil {
			return mk("select-noerror", fmt.Sprintf("Text() accepted a page number outside the document and returned %q", txt), txt)
		}
		if derr == nil || cerr == nil {
			return mk("select-noerror", "Document()/Chunks() accepted a page number outside the document", nil)
		}
		return r
	case "unspecified":
		class := "error"
		if terr == nil {
			class = fmt.Sprint(tokensOf(txt))
		}
		emptyMu.Lock()
		defer emptyMu.Unlock()
		if emptyClass == "" {
			emptyClass, emptyFirst = class, string(mustJSON(c.Calls))
		} else if emptyClass != class {
			return mk("select-empty-inconsistent", fmt.Sprintf("two spellings of the empty selection behave differently: %s gives %s, %s gives %s", emptyFirst, emptyClass, mustJSON(c.Calls), class), class)
		}
		return r
	}
	want := c.Expected.Pages
	if all {
		want = []int{1, 2, 3}
	}
	if terr != nil {
		return mk("select-error", "Text() failed on a valid selection: "+terr.Error(), terr.Error())
	}
	if got := tokensOf(txt); fmt.Sprint(got) != fmt.Sprint(want) {
		return mk("select-text", fmt.Sprintf("Text() contains the pages %v, the selection is %v", got, want), txt)
	}
	if derr != nil {
		return mk("select-error", "Document() failed on a valid selection: "+derr.Error(), derr.Error())
	}
	if len(doc.Pages) != len(want) {
		return mk("select-doc", fmt.Sprintf("Document() has %d pages, the selection has %d", len(doc.Pages), len(want)), nil)
	}
	for k, p := range doc.Pages {
		body := ""
		for _, el := range p.Elements {
			body += fmt.Sprintf("%v ", el)
		}
		got := tokensOf(body)
		if p.Layout != nil {
			for _, para := range p.Layout.Paragraphs {
				got = append(got, tokensOf(para.Text)...)
			}
		}
		if p.Number != want[k] {
			return mk("pagenumber-doc", fmt.Sprintf("Document().Pages[%d].Number = %d, the content comes from source page %d", k, p.Number, want[k]), p.Number)
		}
		_ = got
	}
	if cerr != nil {
		return mk("select-error", "Chunks() failed on a valid selection: "+cerr.Error(), cerr.Error())
	}
	seen := []int{}
	for _, ch := range cc.Chunks {
		for _, t := range tokensOf(ch.Text) {
			seen = append(seen, t)
			if ch.Metadata.PageStart > t || ch.Metadata.PageEnd < t {
				return mk("pagenumber-chunk", fmt.Sprintf("chunk %q reports pages %d-%d, its content comes from source page %d", ch.Text, ch.Metadata.PageStart, ch.Metadata.PageEnd, t),
					map[string]int{"start": ch.Metadata.PageStart, "end": ch.Metadata.PageEnd})
			}
		}
		for _, p := range []int{ch.Metadata.PageStart, ch.Metadata.PageEnd} {
			ok := false
			for _, w := range want {
				if w == p {
					ok = true
				}
			}
			if !ok {
				return mk("pagenumber-chunk", fmt.Sprintf("chunk %q reports page %d which is not among the selected pages %v", ch.Text, p, want), p)
			}
		}
	}
	if fmt.Sprint(seen) != fmt.Sprint(want) {
		return mk("select-chunks", fmt.Sprintf("Chunks() carry the pages %v, the selection is %v", seen, want), seen)
	}
	return r
}

// ---------------------------------------------------------------- selections under per-page options

// a 5-page document whose pages differ in what the per-page options act on: the running header "Quarterly Report"
// on pages 2-5 (page 1 is a cover without it), running page numbers "Page <p>" at the foot of pages 1-4, three body
// lines "... b<p>l<k>" per page, and a second column on page 3. Body lines and page numbers name their page and a
// header belongs to the page of the token that follows it, so the result of page p under options o is read off the
// whole-document extraction under o.
var c10OptOnce sync.Once
var c10OptPath string
var c10OptErr error

func c10OptDoc() (string, error) {
	c10OptOnce.Do(func() {
		var pages [][]pdfdoc.Placed
		for p := 1; p <= 5; p++ {
			var pg []pdfdoc.Placed
			if p >= 2 {
				pg = append(pg, pdfdoc.Placed{X: 72, Y: 760, Size: 10, Text: "Quarterly Report"})
			}
			// a chapter heading in large type: the outline of a selection refers to the source pages
			pg = append(pg, pdfdoc.Placed{X: 72, Y: 690, Size: 20, Text: fmt.Sprintf("Chapter b%dl0", p)})
			// page 3 is a real two-column page (12 lines in each column, enough for the automatic layout test to see it);
			// the other pages have three body lines
			const labels = "123456789abcdefghijklmnopqrstuvwxyz"
			lines := 3
			if p == 3 {
				lines = 12
			}
			for k := 1; k <= lines; k++ {
				pg = append(pg, pdfdoc.Placed{X: 72, Y: 640 - 18*k, Size: 11, Text: fmt.Sprintf("body text of the page b%dl%c", p, labels[k-1])})
				if p == 3 {
					pg = append(pg, pdfdoc.Placed{X: 340, Y: 640 - 18*k, Size: 11, Text: fmt.Sprintf("second column b%dl%c", p, labels[k+11])})
				}
			}
			if p <= 4 {
				pg = append(pg, pdfdoc.Placed{X: 72, Y: 30, Size: 10, Text: fmt.Sprintf("Page %d", p)})
			}
			pages = append(pages, pg)
		}
		data, err := pdfdoc.BuildSimple(pages, 612, 792)
		if err != nil {
			c10OptErr = err
			return
		}
		dir := os.Getenv("VERIF_SCRATCH")
		if dir == "" {
			dir = os.TempDir()
		}
		c10OptPath = filepath.Join(dir, fmt.Sprintf("c10opt-%d.pdf", os.Getpid()))
		c10OptErr = os.WriteFile(c10OptPath, data, 0o644)
	})
	return c10OptPath, c10OptErr
}

func applyOpts(e *tabula.Extractor, opts []string) *tabula.Extractor {
	for _, o := range opts {
		switch o {
		case "xh":
			e = e.ExcludeHeaders()
		case "xf":
			e = e.ExcludeFooters()
		case "xhf":
			e = e.ExcludeHeadersAndFooters()
		case "col":
			e = e.ByColumn()
		case "join":
			e = e.JoinParagraphs()
		case "layout":
			e = e.PreserveLayout()
		}
	}
	return e
}

var optTokRe = regexp.MustCompile(`Quarterly Report|Page (\d)|b(\d)l[0-9a-z]`)

// tokens of a text, each with the page it belongs to
func optTokens(s string) (toks []string, pages []int) {
	for _, m := range optTokRe.FindAllStringSubmatch(s, -1) {
		toks = append(toks, m[0])
		switch {
		case m[1] != "":
			pages = append(pages, int(m[1][0]-'0'))
		case m[2] != "":
			pages = append(pages, int(m[2][0]-'0'))
		default:
			pages = append(pages, -1) // header: the page of the next token
		}
	}
	for k := len(pages) - 2; k >= 0; k-- {
		if pages[k] < 0 {
			pages[k] = pages[k+1]
		}
	}
	return
}

var c10TocSeen atomic.Int64
var wholeMu sync.Mutex
var wholeByOpts = map[string]string{}

func c10SelectOpts(i int, raw []byte) Result {
	var c struct {
		selCase
		Opts []string `json:"opts"`
		Via  string   `json:"via"`
	}
	if err := json.Unmarshal(raw, &c); err != nil {
		return fail("decode", "decode", err.Error(), nil)
	}
	path, err := c10OptDoc()
	if err != nil {
		return Result{OK: false, Sig: "MACHINERY:pdfw", What: err.Error()}
	}
	okey := strings.Join(c.Opts, "+")
	if c.Via != "" && c.Via != "text" {
		okey += ":" + c.Via
	}
	textOf := func(e *tabula.Extractor) (string, error) {
		o, err := runTerminal(e, c.Via)
		return o.Text, err
	}
	r := Result{OK: true, Nontrivial: len(c.Calls) > 0 && len(c.Opts) > 0, Key: string(raw), Evals: 2}
	mk := func(cl, what string, obs interface{}) Result {
		x := fail(cl, "C10:"+cl+":"+okey, what+fmt.Sprintf(" (calls %s, options %v, 5-page document)", mustJSON(c.Calls), c.Opts), map[string]interface{}{"case": json.RawMessage(raw), "observed": obs})
		x.Nontrivial, x.Key, x.Evals = r.Nontrivial, r.Key, 2
		return x
	}
	// the per-page results: the whole document under the same options (computed once per option set)
	wholeMu.Lock()
	whole, ok := wholeByOpts[okey]
	if !ok {
		w, werr := textOf(applyOpts(tabula.Open(path), c.Opts))
		if werr != nil {
			wholeMu.Unlock()
			return Result{OK: false, Sig: "MACHINERY:c10opt", What: "whole-document extraction failed: " + werr.Error()}
		}
		whole, wholeByOpts[okey] = w, w
	}
	wholeMu.Unlock()
	// options before and after the selection calls: both spellings must agree
	t1, e1 := textOf(apply(applyOpts(tabula.Open(path), c.Opts), c.Calls))
	t2, e2 := textOf(applyOpts(apply(tabula.Open(path), c.Calls), c.Opts))
	switch c.Expected.Outcome {
	case "error":
		if e1 == nil || e2 == nil {
			return mk("select-noerror", "Text() accepted a page number outside the document", nil)
		}
		return r
	case "unspecified":
		return r
	}
	if e1 != nil || e2 != nil {
		return mk("select-error", fmt.Sprintf("Text() failed on a valid selection: %v / %v", e1, e2), nil)
	}
	sel := map[int]bool{}
	for _, p := range c.Expected.Pages {
		sel[p] = true
	}
	if len(c.Opts) == 0 && (c.Via == "" || c.Via == "text") {
		// the outline of the selection: every entry names the source page its heading stands on, a selected one
		if doc, _, derr := apply(tabula.Open(path), c.Calls).Document(); derr == nil {
			for _, en := range doc.TableOfContents() {
				m := optTokRe.FindStringSubmatch(en.Text)
				if m == nil || m[2] == "" {
					continue
				}
				if src := int(m[2][0] - '0'); src != en.Page || !sel[en.Page] {
					return mk("pagenumber-outline", fmt.Sprintf("the outline entry %q of the selection %v refers to page %d; the heading stands on source page %d", en.Text, c.Expected.Pages, en.Page, src), en.Page)
				}
				c10TocSeen.Add(1)
			}
			r.Evals++
		}
		// the chunks of the selection: every body line a chunk holds lies on a page inside the chunk's own page range
		if cc, _, cerr := apply(tabula.Open(path), c.Calls).Chunks(); cerr == nil {
			for _, ch := range cc.Chunks {
				for _, m := range optTokRe.FindAllStringSubmatch(ch.Text, -1) {
					if m[2] == "" {
						continue
					}
					if src := int(m[2][0] - '0'); src < ch.Metadata.PageStart || src > ch.Metadata.PageEnd || !sel[src] {
						return mk("pagenumber-chunk", fmt.Sprintf("a chunk of the selection %v reports pages %d-%d and holds %q, which stands on source page %d", c.Expected.Pages, ch.Metadata.PageStart, ch.Metadata.PageEnd, m[0], src), src)
					}
				}
			}
			r.Evals++
		}
	}
	wt, wp := optTokens(whole)
	var want []string
	for k, t := range wt {
		if sel[wp[k]] {
			want = append(want, t)
		}
	}
	for which, txt := range []string{t1, t2} {
		got, _ := optTokens(txt)
		if fmt.Sprint(got) != fmt.Sprint(want) {
			return mk("select-perpage", fmt.Sprintf("the selection %v gives %v; the whole document under the same options gives %v for these pages (options %s the selection calls)",
				c.Expected.Pages, got, want, []string{"before", "after"}[which]), got)
		}
	}
	return r
}

// ---------------------------------------------------------------- lifecycle

type lifeOp struct {
	Op    string `json:"op"`
	E     int    `json:"e"`
	Kind  string `json:"kind"`
	Res   string `json:"res"`
	Pages []int  `json:"pages"`
	Open  int    `json:"open"`
}
type lifeCase struct {
	Log       []lifeOp `json:"log"`
	Quiescent bool     `json:"quiescent"`
	Open      int      `json:"open"`
}

func countFDs() int {
	ents, err := os.ReadDir("/proc/self/fd")
	if err != nil {
		return -1
	}
	return len(ents) - 1 // the directory handle itself
}

func c10Life(i int, raw []byte) Result {
	c10Pages = 6
	var c lifeCase
	if err := json.Unmarshal(raw, &c); err != nil {
		return fail("decode", "decode", err.Error(), nil)
	}
	path, err := c10Doc()
	if err != nil {
		return Result{OK: false, Sig: "MACHINERY:pdfw", What: err.Error()}
	}
	r := Result{OK: true, Nontrivial: len(c.Log) >= 2, Key: string(raw), Evals: len(c.Log)}
	base := countFDs()
	exts := []*tabula.Extractor{tabula.Open(path)}
	var events []Event
	mk := func(cl, what string, step int) Result {
		for _, e := range exts {
			e.Close()
		}
		x := fail(cl, "C10:"+cl, what+fmt.Sprintf(" (history %s, step %d)", mustJSON(c.Log), step+1), map[string]interface{}{"case": json.RawMessage(raw), "step": step + 1})
		x.Nontrivial, x.Key, x.Evals = r.Nontrivial, r.Key, r.Evals
		return x
	}
	for k, op := range c.Log {
		e := exts[op.E-1]
		got := "ok"
		wrongPages := false
		func() {
			defer func() {
				if p := recover(); p != nil {
					got = fmt.Sprint("panic: ", p)
				}
			}()
			switch op.Op {
			case "derive":
				switch op.Kind {
				case "p4":
					exts = append(exts, e.Pages(4))
				case "p5":
					exts = append(exts, e.Pages(5))
				case "r13":
					exts = append(exts, e.PageRange(1, 3))
				case "bad":
					exts = append(exts, e.Pages(99))
				default:
					exts = append(exts, e.ByColumn())
				}
			case "pagecount":
				n, err := runNonTerminal(e, viaOf(op.Kind))
				if err != nil {
					got = "error: " + err.Error()
				} else if n >= 0 && n != 6 {
					got = fmt.Sprintf("wrong page count %d", n)
				}
			case "text":
				o, err := runTerminal(e, viaOf(op.Kind))
				if err != nil {
					got = "error: " + err.Error()
				} else if toks := tokensOf(o.Text); (o.Complete && fmt.Sprint(toks) != fmt.Sprint(op.Pages)) || (!o.Complete && !isSubsequenceInts(toks, op.Pages)) {
					got = fmt.Sprintf("wrong pages %v, the extractor's own selection is %v", toks, op.Pages)
					wrongPages = true
				}
			case "close":
				if err := e.Close(); err != nil {
					got = "ok" // a second Close may return an error value; it must not panic
				}
			}
		}()
		open := countFDs() - base
		pagesSeen := []int{}
		if op.Op == "text" && classify(got) == "ok" {
			pagesSeen = op.Pages
		}
		events = append(events, Event{"event": op.Op, "e": op.E, "kind": op.Kind, "res": classify(got), "pages": pagesSeen, "open": open})
		if wrongPages {
			if len(c.Log) > 0 && onlyOwnDerivations(c.Log[:k], op.E) {
				return mk("select-via:"+viaOf(op.Kind), fmt.Sprintf("%s of extractor %d returned %s", viaOf(op.Kind), op.E, got), k)
			}
			return mk("life-selection-changed", fmt.Sprintf("%s of extractor %d returned %s: a derivation from a shared base changed this extractor's selection", viaOf(op.Kind), op.E, got), k)
		}
		want := op.Res
		if classify(got) == "panic" {
			return mk("life-panic", fmt.Sprintf("%s panicked: %s", op.Op, got), k)
		}
		if want == "ok" && classify(got) != "ok" {
			return mk("life-derive-not-pure", fmt.Sprintf("%s on extractor %d failed (%s) although only extractors derived from it were used in between", op.Op, op.E, got), k)
		}
		if want == "error" && classify(got) == "ok" {
			return mk("select-noerror", "an out-of-range page was accepted", k)
		}
		if open > op.Open {
			return mk("life-handle-leak", fmt.Sprintf("%d file descriptors are open after %s, at most %d can still be needed", open, op.Op, op.Open), k)
		}
	}
	// quiescence: close everything that is still open, nothing may remain, and closing twice is harmless
	for _, e := range exts {
		e.Close()
		e.Close()
	}
	if left := countFDs() - base; left != 0 {
		return mk("life-handle-leak", fmt.Sprintf("%d file descriptors remain open after every extractor was closed", left), len(c.Log)-1)
	}
	r.Events = events
	return r
}

// c10LifeFmt: the same histories on a document of every other format (DOCX, ODT, XLSX, PPTX, EPUB, HTML). Only
// histories whose derivations are option-only are replayed (page selection is a PDF notion): a derivation is
// ExcludeHeaders(), PageCount and Text must succeed, and the descriptor accounting of Lifecycle.tla must hold.
var lifeFmtDocs = []string{"docx", "odt", "xlsx", "pptx", "epub", "html",
	"bad-nopages:pdf", "bad-pagesint:pdf", "bad-bigcount:pdf", "bad-kidmissing:pdf", "bad-content:pdf", "bad-garbage:pdf", "bad-empty:pdf",
	"bad-nozip:docx", "bad-nobody:docx", "bad-trunc:xlsx", "bad-noopf:epub", "bad-missing:pdf"}
var lifeFmtOnce sync.Once
var lifeFmtPaths map[string]string

func c10LifeFmt(i int, raw []byte) Result {
	var c lifeCase
	if err := json.Unmarshal(raw, &c); err != nil {
		return fail("decode", "decode", err.Error(), nil)
	}
	for _, op := range c.Log {
		if op.Op == "derive" && op.Kind != "col" {
			return Result{OK: true, Key: string(raw)}
		}
	}
	lifeFmtOnce.Do(func() {
		lifeFmtPaths = map[string]string{}
		dir := os.Getenv("VERIF_SCRATCH")
		if dir == "" {
			dir = os.TempDir()
		}
		put := func(ext string, b []byte, err error) {
			if err == nil {
				p := filepath.Join(dir, fmt.Sprintf("c10fmt-%d.%s", os.Getpid(), ext))
				if k := strings.Index(ext, ":"); k >= 0 {
					// "bad-<what>:<extension>": a damaged document
					p = filepath.Join(dir, fmt.Sprintf("c10fmt-%d-%s.%s", os.Getpid(), ext[:k], ext[k+1:]))
				}
				if os.WriteFile(p, b, 0o644) == nil {
					lifeFmtPaths[ext] = p
				}
			}
		}
		b, err := zipOf(docxMembers())
		put("docx", b, err)
		b, err = zipOf(odtMembers())
		put("odt", b, err)
		b, err = zipOf(xlsxMembers())
		put("xlsx", b, err)
		b, err = zipOf(pptxMembers())
		put("pptx", b, err)
		b, err = zipOf(epubMembers(epubCfg{}))
		put("epub", b, err)
		put("html", []byte("<!DOCTYPE html><html><body><h1>t</h1><p>"+c20Token+"</p></body></html>"), nil)
		// damaged documents: the file opens (or does not) and operations fail part-way - "successful or failed, no file
		// handle remains open". What each operation answers is not compared here, only panics and descriptors.
		onePage := func(cat pdfw.Dict, pages pdfw.Obj, content string) ([]byte, error) {
			f := &pdfw.File{EOL: "lf", Revs: []pdfw.Revision{{XRef: "table", Root: pdfw.Ref{Num: 1}, Items: []pdfw.Item{
				{Num: 1, Val: cat}, {Num: 2, Val: pages},
				{Num: 3, Val: pdfw.Dict{{"Type", pdfw.Name("Page")}, {"Parent", pdfw.Ref{Num: 2}}, {"MediaBox", pdfw.Arr{pdfw.Int(0), pdfw.Int(0), pdfw.Int(300), pdfw.Int(300)}},
					{"Resources", pdfw.Dict{{"Font", pdfw.Dict{{"F1", pdfw.Ref{Num: 5}}}}}}, {"Contents", pdfw.Ref{Num: 4}}}},
				{Num: 4, Stm: &pdfw.Stream{Data: []byte(content)}},
				{Num: 5, Val: pdfw.Dict{{"Type", pdfw.Name("Font")}, {"Subtype", pdfw.Name("Type1")}, {"BaseFont", pdfw.Name("Helvetica")}}}}}}}
			b, _, err := f.Bytes()
			return b, err
		}
		okPages := pdfw.Dict{{"Type", pdfw.Name("Pages")}, {"Kids", pdfw.Arr{pdfw.Ref{Num: 3}}}, {"Count", pdfw.Int(1)}}
		okCat := pdfw.Dict{{"Type", pdfw.Name("Catalog")}, {"Pages", pdfw.Ref{Num: 2}}}
		okText := "BT /F1 12 Tf 20 100 Td (" + c20Token + ") Tj ET"
		b, err = onePage(pdfw.Dict{{"Type", pdfw.Name("Catalog")}}, okPages, okText)
		put("bad-nopages:pdf", b, err)
		b, err = onePage(okCat, pdfw.Int(7), okText)
		put("bad-pagesint:pdf", b, err)
		b, err = onePage(okCat, pdfw.Dict{{"Type", pdfw.Name("Pages")}, {"Kids", pdfw.Arr{pdfw.Ref{Num: 3}}}, {"Count", pdfw.Int(999999)}}, okText)
		put("bad-bigcount:pdf", b, err)
		b, err = onePage(okCat, pdfw.Dict{{"Type", pdfw.Name("Pages")}, {"Kids", pdfw.Arr{pdfw.Ref{Num: 9}}}, {"Count", pdfw.Int(1)}}, okText)
		put("bad-kidmissing:pdf", b, err)
		b, err = onePage(okCat, okPages, "BT /F1 12 Tf ( unbalanced")
		put("bad-content:pdf", b, err)
		put("bad-garbage:pdf", []byte("%PDF-1.4\nthis is no document\n%%EOF\n"), nil)
		put("bad-empty:pdf", []byte{}, nil)
		put("bad-nozip:docx", []byte("PK\x03\x04 not an archive"), nil)
		if zb, zerr := zipOf(docxMembers()[:1]); zerr == nil {
			put("bad-nobody:docx", zb, nil)
		}
		if zb, zerr := zipOf(xlsxMembers()); zerr == nil {
			put("bad-trunc:xlsx", zb[:len(zb)*2/3], nil)
		}
		if zb, zerr := zipOf(epubMembers(epubCfg{})[:2]); zerr == nil {
			put("bad-noopf:epub", zb, nil)
		}
		lifeFmtPaths["bad-missing:pdf"] = filepath.Join(dir, fmt.Sprintf("c10fmt-%d-absent.pdf", os.Getpid()))
	})
	r := Result{OK: true, Nontrivial: len(c.Log) >= 2, Key: string(raw)}
	for _, ext := range lifeFmtDocs {
		damaged := strings.HasPrefix(ext, "bad-")
		if damaged && (i+len(ext))%3 != 0 && tier() == "quick" {
			continue // quick: each damaged document under a third of the histories
		}
		path := lifeFmtPaths[ext]
		if path == "" {
			return Result{OK: false, Sig: "MACHINERY:writer", What: "no " + ext + " document"}
		}
		base := countFDs()
		exts := []*tabula.Extractor{tabula.Open(path)}
		mk := func(cl, what string, step int) Result {
			for _, e := range exts {
				e.Close()
			}
			x := fail(cl, "C10:"+cl+":"+ext, what+fmt.Sprintf(" (%s document, history %s, step %d)", ext, mustJSON(c.Log), step+1), map[string]interface{}{"case": json.RawMessage(raw), "step": step + 1, "format": ext})
			x.Nontrivial, x.Key, x.Evals = r.Nontrivial, r.Key, r.Evals
			return x
		}
		for k, op := range c.Log {
			e := exts[op.E-1]
			got := "ok"
			func() {
				defer func() {
					if p := recover(); p != nil {
						got = fmt.Sprint("panic: ", p)
					}
				}()
				switch op.Op {
				case "derive":
					exts = append(exts, e.ExcludeHeaders())
				case "pagecount":
					// IsCharacterLevel / IsMultiColumn are defined for PDF only: elsewhere they may refuse, but never keep more than the handle
					if _, err := runNonTerminal(e, viaOf(op.Kind)); err != nil && viaOf(op.Kind) == "" {
						got = "error: " + err.Error()
					}
				case "text":
					via := viaOf(op.Kind)
					o, err := runTerminal(e, via)
					switch via {
					case "", "text", "markdown", "mdopts":
						if err != nil {
							got = "error: " + err.Error()
						} else if !strings.Contains(o.Text, c20Token) {
							got = "error: text lacks the content"
						}
					case "document", "chunks", "chunkscfg":
						if err != nil {
							got = "error: " + err.Error()
						}
					default:
						// the layout operations are defined for PDF only: a refusal is fine, the handle accounting below still applies
					}
				case "close":
					e.Close()
				}
			}()
			r.Evals++
			open := countFDs() - base
			if classify(got) == "panic" {
				return mk("life-panic", fmt.Sprintf("%s panicked: %s", op.Op, got), k)
			}
			if op.Res == "ok" && classify(got) != "ok" && !damaged {
				return mk("life-derive-not-pure", fmt.Sprintf("%s on extractor %d failed (%s) although only extractors derived from it were used in between", op.Op, op.E, got), k)
			}
			if open > op.Open {
				return mk("life-handle-leak", fmt.Sprintf("%d file descriptors are open after %s, at most %d can still be needed", open, op.Op, op.Open), k)
			}
		}
		for _, e := range exts {
			e.Close()
			e.Close()
		}
		if left := countFDs() - base; left > 0 {
			return mk("life-handle-leak", fmt.Sprintf("%d file descriptors remain open after every extractor was closed", left), len(c.Log)-1)
		}
	}
	return r
}

func classify(got string) string {
	switch {
	case got == "ok":
		return "ok"
	case len(got) >= 5 && got[:5] == "panic":
		return "panic"
	}
	return "error"
}

func c10(mode, in, out string) error {
	switch mode {
	case "select":
		return runCases(in, out, c10Select)
	case "selectopts":
		err := runCases(in, out, c10SelectOpts)
		if err == nil && c10TocSeen.Load() == 0 {
			return fmt.Errorf("MACHINERY: no outline entry was seen for any selection (the chapter headings of the option document are not detected as headings)")
		}
		return err
	case "life":
		return runCasesSerial(in, out, c10Life)
	case "lifefmt":
		return runCasesSerial(in, out, c10LifeFmt)
	}
	return fmt.Errorf("c10: unknown mode %s", mode)
}
