package main

// C17 entry-point audit: further VIEWS of the same expectation (the displayed cells of
// every sheet).  Each view is one more public way to observe a sheet's cells; in the
// quick tier the views rotate over the cases, in the thorough tier every case gets all.
//
//	byname   xlsx.Reader.SheetByName + Sheet.RowCount/ColCount/MaxRow/MaxCol/MergedRegions, Cell.IsEmpty
//	reader   xlsx.Reader.Text / Markdown / Document called directly (not through tabula.Open)
//	ptable   xlsx.ParsedTable.ToText / ToMarkdown of Reader.Tables()
//	mdopts   tabula Extractor.ToMarkdownWithOptions (metadata, table of contents, heading offset)
//	chunks   tabula Extractor.Chunks            chunkscfg  Extractor.ChunksWithConfig
//	pages    tabula Extractor.Pages(k).Text / PageRange(1,n).Document: the selected sheet(s), or -
//	         where the format does not take a selection - all of them, never anything else
//	excl     tabula Extractor.ExcludeHeadersAndFooters().Text and TextWithOptions{ExcludeHeaders,ExcludeFooters}

import (
	"fmt"
	"strings"

	tabula "github.com/tsawler/tabula"
	"github.com/tsawler/tabula/rag"
	"github.com/tsawler/tabula/xlsx"
)

var c17ExtraViews = []string{"byname", "reader", "ptable", "mdopts", "chunks", "chunkscfg", "pages", "excl"}

// c17View is one observed view: cells per sheet and the comparison rule per sheet index.
type c17View struct {
	Name string
	Obs  [][]c17Obs
	Tsv  bool // text rules (first sheet absolute, later ones rows-relative); else Rule
	Rule string
	Only int // >= 0: the view shows this sheet alone (as the first block)
}

func c17TablesFromText(txt string, exps [][]c17Exp) [][]c17Obs { return c17Markdown(txt, exps) }

// c17Extra observes the named extra views. problems are consistency failures that
// need no expectation (accessors disagreeing with each other).
func c17Extra(path string, exps [][]c17Exp, merges [][]c17Merge, which []string) (views []c17View, errs map[string]string, problems []string) {
	n := len(exps)
	errs = map[string]string{}
	want := map[string]bool{}
	for _, w := range which {
		want[w] = true
	}
	tsv := func(name, txt string) {
		obs, extra := c17SplitTSV(txt, exps)
		views = append(views, c17View{Name: name, Obs: obs, Tsv: true, Only: -1})
		if len(extra) > 0 && !c17HasNL(exps) {
			problems = append(problems, fmt.Sprintf("%s: %d more non-empty fields after the last sheet, e.g. %q", name, len(extra), extra[0].Raw))
		}
	}
	if want["byname"] || want["reader"] || want["ptable"] || want["excl"] {
		r, err := xlsx.Open(path)
		if err != nil {
			errs["xlsx.Open"] = err.Error()
			return
		}
		defer r.Close()
		if want["byname"] {
			obs := make([][]c17Obs, n)
			for s := 0; s < n; s++ {
				sh, err := r.SheetByName(fmt.Sprintf("Sheet%d", s+1))
				if err != nil {
					errs["byname"] = err.Error()
					break
				}
				if sh.RowCount() != len(sh.Rows) || sh.ColCount() != sh.MaxCol+1 || sh.MaxRow != len(sh.Rows)-1 {
					problems = append(problems, fmt.Sprintf("byname: sheet %d RowCount/ColCount/MaxRow/MaxCol = %d/%d/%d/%d, Rows has %d rows", s+1, sh.RowCount(), sh.ColCount(), sh.MaxRow, sh.MaxCol, len(sh.Rows)))
				}
				for ri, row := range sh.Rows {
					if len(row) != sh.ColCount() {
						problems = append(problems, fmt.Sprintf("byname: sheet %d row %d has %d cells, ColCount %d", s+1, ri+1, len(row), sh.ColCount()))
					}
					for ci := range row {
						cell := &row[ci]
						if cell.IsEmpty() != (cell.Value == "") {
							problems = append(problems, fmt.Sprintf("byname: sheet %d %s IsEmpty=%v but Value=%q", s+1, xlsx.CellRef(ci, ri), cell.IsEmpty(), cell.Value))
						}
						if cell.Value != "" {
							d, _ := c17Project(cell.Value)
							obs[s] = append(obs[s], c17Obs{X: ci + 1, Y: ri + 1, Raw: cell.Value, D: d})
						}
					}
				}
				// the region list is the declared one (0-based corners)
				got := map[[4]int]bool{}
				for _, m := range sh.MergedRegions {
					got[[4]int{m.StartCol + 1, m.StartRow + 1, m.EndCol + 1, m.EndRow + 1}] = true
				}
				for _, m := range merges[s] {
					k := [4]int{m.Rect[0], m.Rect[1], m.Rect[2], m.Rect[3]}
					if !got[k] {
						problems = append(problems, fmt.Sprintf("byname: sheet %d MergedRegions lacks the declared region %v", s+1, k))
					}
					delete(got, k)
				}
				for k := range got {
					problems = append(problems, fmt.Sprintf("byname: sheet %d MergedRegions lists %v, which the sheet does not declare", s+1, k))
				}
			}
			views = append(views, c17View{Name: "byname", Obs: obs, Rule: "abs", Only: -1})
		}
		if want["reader"] {
			if s, err := r.Text(); err != nil {
				errs["reader.Text"] = err.Error()
			} else {
				tsv("reader.Text", s)
			}
			if s, err := r.Markdown(); err != nil {
				errs["reader.Markdown"] = err.Error()
			} else {
				views = append(views, c17View{Name: "reader.Markdown", Obs: c17Markdown(s, exps), Rule: "free", Only: -1})
			}
			if doc, err := r.Document(); err != nil {
				errs["reader.Document"] = err.Error()
			} else {
				views = append(views, c17View{Name: "reader.Document", Obs: c17DocCells(doc, n), Rule: "free", Only: -1})
			}
		}
		if want["ptable"] {
			var txt, md strings.Builder
			var blocks [][]c17Obs
			for s, tb := range r.Tables() {
				md.WriteString(fmt.Sprintf("## Sheet%d\n\n", s+1) + tb.ToMarkdown() + "\n")
				var obs []c17Obs
				for li, line := range strings.Split(strings.TrimRight(tb.ToText(), "\n"), "\n") {
					for fi, f := range strings.Split(line, "\t") {
						if f != "" {
							d, _ := c17Project(f)
							obs = append(obs, c17Obs{X: fi + 1, Y: li + 1, Raw: f, D: d})
						}
					}
				}
				blocks = append(blocks, obs)
				txt.WriteString(tb.ToText())
			}
			for len(blocks) < n {
				blocks = append(blocks, nil)
			}
			views = append(views, c17View{Name: "ParsedTable.ToText", Obs: blocks[:n], Rule: "free", Only: -1},
				c17View{Name: "ParsedTable.ToMarkdown", Obs: c17Markdown(md.String(), exps), Rule: "free", Only: -1})
		}
		if want["excl"] {
			if s, err := r.TextWithOptions(xlsx.ExtractOptions{ExcludeHeaders: true, ExcludeFooters: true}); err != nil {
				errs["TextWithOptions{Exclude*}"] = err.Error()
			} else {
				tsv("TextWithOptions{ExcludeHeaders,ExcludeFooters}", s)
			}
			if s, _, err := tabula.Open(path).ExcludeHeadersAndFooters().Text(); err != nil {
				errs["ExcludeHeadersAndFooters().Text"] = err.Error()
			} else {
				tsv("ExcludeHeadersAndFooters().Text", s)
			}
		}
	}
	if want["mdopts"] {
		o := rag.DefaultMarkdownOptions()
		o.IncludeMetadata, o.IncludeTableOfContents, o.HeadingLevelOffset = true, true, 1
		if s, _, err := tabula.Open(path).ToMarkdownWithOptions(o); err != nil {
			errs["ToMarkdownWithOptions"] = err.Error()
		} else {
			views = append(views, c17View{Name: "ToMarkdownWithOptions", Obs: c17Markdown(s, exps), Rule: "free", Only: -1})
		}
	}
	for _, via := range []string{"chunks", "chunkscfg"} {
		if want[via] {
			if out, err := runTerminal(tabula.Open(path), via); err != nil {
				errs[via] = err.Error()
			} else {
				views = append(views, c17View{Name: "Extractor." + via, Obs: c17Markdown(out.Text, exps), Rule: "free", Only: -1})
			}
		}
	}
	if want["pages"] {
		for s := 0; s < n; s++ {
			txt, _, err := tabula.Open(path).Pages(s + 1).Text()
			if err != nil {
				errs[fmt.Sprintf("Pages(%d).Text", s+1)] = err.Error()
				continue
			}
			one, extra := c17SplitTSV(txt, [][]c17Exp{exps[s]})
			if len(extra) == 0 || c17HasNL(exps) {
				v := c17View{Name: "Pages(k).Text", Obs: make([][]c17Obs, n), Tsv: true, Only: s}
				v.Obs[s] = one[0]
				views = append(views, v)
			} else { // not a selection of that sheet alone: then it has to be the whole workbook
				tsv("Pages(k).Text", txt)
			}
		}
		if doc, _, err := tabula.Open(path).PageRange(1, n).Document(); err != nil {
			errs["PageRange(1,n).Document"] = err.Error()
		} else {
			views = append(views, c17View{Name: "PageRange(1,n).Document", Obs: c17DocCells(doc, n), Rule: "free", Only: -1})
		}
	}
	return
}

// c17CheckExtra compares the extra views with the expected cells.
func c17CheckExtra(views []c17View, errs map[string]string, problems []string, exps [][]c17Exp, covered [][]c17Pos, kinds []map[c17Pos]string, rowR bool, stale []map[c17Disp]bool) *c17Mismatch {
	for name, e := range errs {
		return &c17Mismatch{View: "view:" + name, Symptom: "error", What: e}
	}
	if len(problems) > 0 {
		return &c17Mismatch{View: "view:" + strings.SplitN(problems[0], ":", 2)[0], Symptom: "inconsistent", What: problems[0]}
	}
	for _, v := range views {
		if (v.Tsv || strings.Contains(v.Name, "Text")) && c17HasNL(exps) {
			continue // line structure of the text is ambiguous with a line break inside a value
		}
		for s := range exps {
			if v.Only >= 0 && s != v.Only {
				continue
			}
			rule := v.Rule
			if v.Tsv {
				rule = "abs"
				if s > 0 && v.Only < 0 {
					rule = "rows"
				}
			}
			var obs []c17Obs
			if s < len(v.Obs) {
				obs = v.Obs[s]
			}
			if m := c17Compare("view:"+v.Name, rule, s, exps[s], covered[s], kinds[s], rowR, obs, stale[s]); m != nil {
				if strings.HasPrefix(v.Name, "Pages(") {
					m.Symptom = "selection"
					m.What = "neither the selected sheet alone nor the whole workbook in order: " + m.What
				}
				return m
			}
		}
	}
	return nil
}
