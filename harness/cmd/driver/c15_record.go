package main

// C15 record mode: random larger documents rendered by every writer; one Md
// event per element and writer with the block read back, for MarkdownTrace.tla.

import (
	"encoding/json"
	"fmt"
	"math/rand"
	"strings"
)

// c15Raw is the source text of a cell of a kind at (r, c) — DocModel.tla's Raw.
func c15Raw(kind string, r, c int) string {
	tag := fmt.Sprintf("%d%d", r, c)
	switch kind {
	case "plain":
		return "p" + tag
	case "pipe":
		return "a" + tag + "|b" + tag
	case "nl":
		return "x" + tag + "\ny" + tag
	case "padded":
		return " q" + tag + " "
	case "uni":
		return "\u00e9" + tag
	}
	return ""
}

type c15AbsTable struct {
	Off  int        `json:"off"` // shift of the row number in the cell texts (tables of one document differ)
	Nr   int        `json:"nr"`
	Nc   int        `json:"nc"`
	Hdr  bool       `json:"hdr"`
	Hm   string     `json:"hm"`
	Kind [][]string `json:"kind"`
	Rw   []int      `json:"rw,omitempty"` // cells per row of a ragged table
	M    struct {
		R  int `json:"r"`
		C  int `json:"c"`
		Rs int `json:"rs"`
		Cs int `json:"cs"`
	} `json:"m"`
}

func c15RandTable(rnd *rand.Rand, off, maxRows int) (c15AbsTable, c15El) {
	kinds := []string{"plain", "plain", "plain", "pipe", "nl", "empty", "padded", "uni"}
	var t c15AbsTable
	t.Off = off
	t.Nr, t.Nc = 1+rnd.Intn(maxRows), 1+rnd.Intn(5)
	marks := []string{"none", "first", "all"}
	if t.Nr >= 2 {
		marks = append(marks, "lead2", "mid")
	}
	if t.Nr >= 3 {
		marks = append(marks, "lead3")
	}
	t.Hm = marks[rnd.Intn(len(marks))]
	var hrows []int
	switch t.Hm {
	case "first":
		hrows = []int{1}
	case "lead2":
		hrows = []int{1, 2}
	case "lead3":
		hrows = []int{1, 2, 3}
	case "mid":
		hrows = []int{2}
	case "all":
		for r := 1; r <= t.Nr; r++ {
			hrows = append(hrows, r)
		}
	}
	t.Hdr = len(hrows) > 0 && hrows[0] == 1
	t.M.Rs, t.M.Cs = 1, 1
	if rnd.Intn(2) == 0 && t.Nr >= 2 && t.Nc >= 2 {
		// a merge that leaves no row and no column fully covered
		rs, cs := 1+rnd.Intn(2), 1+rnd.Intn(2)
		if rs*cs > 1 && rs < t.Nr+1 && cs < t.Nc {
			if rs == t.Nr {
				rs = t.Nr - 1
			}
			if rs*cs > 1 && rs >= 1 {
				t.M.R, t.M.C = 1+rnd.Intn(t.Nr-rs+1), 1+rnd.Intn(t.Nc-cs+1)
				t.M.Rs, t.M.Cs = rs, cs
			}
		}
	}
	el := c15El{T: "table", Nr: t.Nr, Nc: t.Nc, Hdr: t.Hdr, Hm: t.Hm, Hrows: hrows, Merged: t.M.R > 0}
	if t.M.R == 0 && t.Nr >= 2 && t.Nc >= 2 && rnd.Intn(3) == 0 {
		// a ragged table: one row keeps all its cells, the others may be shorter
		full := rnd.Intn(t.Nr)
		for r := 0; r < t.Nr; r++ {
			w := t.Nc
			if r != full {
				w = 1 + rnd.Intn(t.Nc)
			}
			t.Rw = append(t.Rw, w)
			if w < t.Nc {
				el.Ragged = true
			}
		}
		if !el.Ragged {
			t.Rw = nil
		}
	}
	for r := 1; r <= t.Nr; r++ {
		var krow []string
		var srow []c15SrcCell
		for c := 1; c <= t.Nc; c++ {
			k := kinds[rnd.Intn(len(kinds))]
			krow = append(krow, k)
			in := t.M.R > 0 && r >= t.M.R && r < t.M.R+t.M.Rs && c >= t.M.C && c < t.M.C+t.M.Cs
			anchor := t.M.R == r && t.M.C == c
			cell := c15SrcCell{Raw: c15Raw(k, r+off, c), Kind: k, Covered: in && !anchor, Rs: 1, Cs: 1, Absent: t.Rw != nil && c > t.Rw[r-1]}
			if anchor {
				cell.Rs, cell.Cs = t.M.Rs, t.M.Cs
			}
			if k != "plain" {
				el.Special = true
			}
			srow = append(srow, cell)
		}
		t.Kind = append(t.Kind, krow)
		el.Src = append(el.Src, srow)
	}
	return t, el
}

func c15RandList(rnd *rand.Rand, uniform bool) []c15Item {
	n := 1 + rnd.Intn(10)
	items := make([]c15Item, n)
	kindAt := map[string]string{} // kind of the open (sub)list per depth path
	open := []string{}            // kinds of the open lists by depth
	top := []string{"u", "o"}[rnd.Intn(2)]
	d := 0
	for i := 0; i < n; i++ {
		if i == 0 {
			d = 0
		} else {
			d = rnd.Intn(min(d+1, 4) + 1)
		}
		if d < len(open) {
			open = open[:d+1]
		} else {
			k := []string{"u", "o"}[rnd.Intn(2)]
			if uniform || d == 0 {
				k = top
			}
			open = append(open, k)
		}
		items[i] = c15Item{D: d, K: open[d], W: fmt.Sprintf("i%d", i+1)}
	}
	_ = kindAt
	return items
}

// c15Locate finds the block that carries the element and normalises it to the
// element's own words (extra text the writer adds around a word is dropped).
// ordinal: for a table, its position among the tables the writer rendered (0-based)
func c15Locate(blocks []c15Block, el *c15El, ordinal int) interface{} {
	none := map[string]interface{}{"t": "none"}
	switch el.T {
	case "heading":
		k := 0 // ordinal: the position of this heading among the source headings with the same text
		for _, b := range blocks {
			if b.T == "heading" && c15HasWord(b.S, el.W) {
				if k == ordinal {
					return map[string]interface{}{"t": "heading", "level": b.Level, "s": el.W}
				}
				k++
			}
		}
	case "list":
		for _, b := range blocks {
			if b.T != "list" {
				continue
			}
			for j, it := range b.Items {
				if !c15HasWord(it.W, el.Items[0].W) {
					continue
				}
				got := []c15Item{}
				base := it.D
				for k := 0; k < len(el.Items) && j+k < len(b.Items); k++ {
					g := b.Items[j+k]
					w := g.W
					if c15HasWord(w, el.Items[k].W) {
						w = el.Items[k].W
					}
					got = append(got, c15Item{D: g.D - base, K: g.K, W: w})
				}
				return map[string]interface{}{"t": "list", "items": got}
			}
		}
	case "table":
		k := 0
		for _, b := range blocks {
			if b.T == "table" {
				if k == ordinal {
					return map[string]interface{}{"t": "table", "rows": b.Rows}
				}
				k++
			}
		}
	case "para":
		return map[string]interface{}{"t": "para", "s": el.W}
	}
	return none
}

func c15Record(in, out string) error {
	type req struct {
		N       int      `json:"n"`
		Writers []string `json:"writers"`
	}
	return runCases(in, out, func(i int, raw []byte) Result {
		var q req
		if err := json.Unmarshal(raw, &q); err != nil {
			return fail("decode", "decode", err.Error(), nil)
		}
		rnd := newRand(int64(i)*104729 + 15)
		var events []Event
		evals := 0
		for s := 0; s < q.N; s++ {
			abs1, tel := c15RandTable(rnd, 0, 5)
			c := c15Case{Kind: "R", Off: rnd.Intn(10) - 2, Mx: 1 + rnd.Intn(6), Meta: rnd.Intn(3) == 0, Toc: rnd.Intn(3) == 0}
			if rnd.Intn(3) == 0 {
				c.Off, c.Mx = 0, 6
			}
			uniform := rnd.Intn(2) == 0
			items := c15RandList(rnd, uniform)
			isUniform := true
			for _, it := range items {
				if it.K != items[0].K {
					isUniform = false
				}
			}
			// a random sequence of blocks: one to three tables, next to each other or apart, first or last
			absOf := map[int]c15AbsTable{}
			h1 := c15El{T: "heading", Level: 1 + rnd.Intn(9), W: "hA"}
			h2 := c15El{T: "heading", Level: 1 + rnd.Intn(9), W: "hB"}
			if rnd.Intn(3) == 0 {
				h2.W = "hA" // the same heading text again, further down
			}
			lst := c15El{T: "list", Items: items, Uniform: isUniform}
			add := func(el c15El, abs *c15AbsTable) {
				if abs != nil {
					absOf[len(c.Els)] = *abs
				}
				c.Els = append(c.Els, el)
			}
			if rnd.Intn(4) == 0 {
				add(tel, &abs1) // a table as the first block
				add(h1, nil)
				add(c15El{T: "para", W: "pA"}, nil)
				add(lst, nil)
				add(h2, nil)
			} else {
				add(h1, nil)
				add(c15El{T: "para", W: "pA"}, nil)
				add(lst, nil)
				add(h2, nil)
				add(tel, &abs1)
			}
			if rnd.Intn(2) == 0 {
				a2, t2 := c15RandTable(rnd, 5, 3)
				add(t2, &a2) // directly after the previous block (often the first table)
			}
			add(c15El{T: "para", W: "pB"}, nil)
			if rnd.Intn(3) == 0 {
				a3, t3 := c15RandTable(rnd, 8, 3)
				if rnd.Intn(2) == 0 {
					a4, t4 := c15RandTable(rnd, 11, 3)
					add(t4, &a4)
				}
				add(t3, &a3) // a table as the last block
			}
			absEl := func(n int, el *c15El) interface{} {
				switch el.T {
				case "table":
					return map[string]interface{}{"t": "table", "tb": absOf[n]}
				case "heading":
					return map[string]interface{}{"t": "heading", "level": el.Level, "w": el.W}
				case "list":
					return map[string]interface{}{"t": "list", "items": el.Items}
				}
				return map[string]interface{}{"t": "para", "w": el.W}
			}
			for _, w := range q.Writers {
				for _, o := range c15RunWriter(&c, w) {
					evals++
					if o.Err != nil {
						events = append(events, Event{"event": "Md", "writer": w, "err": o.Err.Error()})
						continue
					}
					blocks := c15ReadMd(o.Md)
					ordinal := 0
					hseen := map[string]int{}
					for n := range c.Els {
						el := &c.Els[n]
						if el.T == "para" || (o.Only != nil && !o.Only[n]) {
							continue
						}
						ord := ordinal
						if el.T == "heading" {
							ord = hseen[el.W]
							hseen[el.W]++
						}
						events = append(events, Event{"event": "Md", "writer": w, "el": absEl(n, el), "off": c.Off, "mx": c.Mx,
							"got": c15Tilde(c15Locate(blocks, el, ord)), "md": c15Truncate(o.Md, 1500)})
						if el.T == "table" {
							ordinal++
						}
					}
				}
			}
		}
		return Result{OK: true, Events: events, Evals: evals}
	})
}

// c15Tilde maps U+00E9 back to the spec's ASCII marker ~u in a logged value.
func c15Tilde(v interface{}) interface{} {
	return json.RawMessage(strings.ReplaceAll(string(mustJSON(v)), "\u00e9", "~u"))
}

func c15Truncate(s string, n int) string {
	if len(s) > n {
		return s[:n] + "..."
	}
	return strings.ToValidUTF8(s, "?")
}
