package main

// C14 files (ExportFile.tla): the file-writing entry points - Exporter.ExportToFile,
// ChunkCollection.ExportToFile, BatchExporter.ExportToFiles and a StreamExporter over an
// *os.File - with the destination in a given state (absent, empty, holding a longer or a
// shorter earlier export) and histories of exports to the same path.  After every call
// each file the call wrote must hold exactly the bytes of the in-memory export of the same
// call and parse back to that call's chunks.
//
//	files:      TLC-enumerated histories ("fcoll", "fcallspec", "fhistory" lines)
//	filerecord: random longer histories for ExportFileTrace.tla

import (
	"bytes"
	"encoding/json"
	"fmt"
	"os"
	"path/filepath"
	"sync/atomic"

	"github.com/tsawler/tabula/rag"
)

type c14FOut struct {
	File   string     `json:"file"`
	Number int        `json:"number"`
	Start  int        `json:"start"`
	End    int        `json:"end"`
	Ids    [][]string `json:"ids"`
	Cols   []string   `json:"cols"`
	Recs   []c14Rec   `json:"recs"`
}

type c14FCallSpec struct {
	Kind  string    `json:"kind"`
	Call  int       `json:"call"`
	Op    string    `json:"op"`
	Preds []c14Pred `json:"preds"`
	Fmt   string    `json:"fmt"`
	Cfg   c14Cfg    `json:"cfg"`
	Size  int       `json:"size"`
	Outs  []c14FOut `json:"outs"`
}

var c14FileSeq int64

func c14FileDir() (string, error) {
	dir := os.Getenv("VERIF_SCRATCH")
	if dir == "" {
		dir = os.TempDir()
	}
	dir = filepath.Join(dir, "c14files", fmt.Sprintf("h%d-%d", os.Getpid(), atomic.AddInt64(&c14FileSeq, 1)))
	return dir, os.MkdirAll(dir, 0o755)
}

// c14FilePath: the one destination of a history ("main") and the numbered batch files.
func c14FilePath(dir, file string) string {
	if file == "main" {
		return filepath.Join(dir, "export.dat")
	}
	return filepath.Join(dir, "export.dat."+file[1:])
}

// c14InitDest puts every destination into its initial state: an earlier export that is
// longer ("long": the whole collection as indented JSON, three times over) or shorter
// ("short": the JSON export of an empty collection) than anything a call writes.
func c14InitDest(dir, kind string, chunks []*rag.Chunk) error {
	var content []byte
	switch kind {
	case "absent":
		return nil
	case "empty":
	case "long":
		s, err := rag.NewChunkCollection(chunks).ToJSON()
		if err != nil {
			return err
		}
		content = bytes.Repeat([]byte(s), 3)
	case "short":
		s, err := rag.NewChunkCollection(nil).ToJSON()
		if err != nil {
			return err
		}
		content = []byte(s)
	}
	for _, f := range []string{"main", "b0", "b1", "b2", "b3", "b4", "b5", "b6", "b7"} {
		if err := os.WriteFile(c14FilePath(dir, f), content, 0o644); err != nil {
			return err
		}
	}
	return nil
}

type c14FileObs struct {
	File string
	Same bool
	Data string
	Mem  string
}

// c14FileCall runs one file export and the same export in memory; it returns, per file the
// call wrote, the file's content and the in-memory output.
func c14FileCall(dir string, s *c14FCallSpec, chunks []*rag.Chunk) ([]c14FileObs, error) {
	cur := rag.NewChunkCollection(chunks)
	for _, p := range s.Preds {
		next, err := c14ApplyPred(cur, p)
		if err != nil {
			return nil, err
		}
		cur = next
	}
	fields := c14FieldLists[s.Cfg.Fields]
	cfg := c14ExportConfig(s.Fmt, s.Cfg, fields)
	path := c14FilePath(dir, "main")
	read := func(file, mem string) (c14FileObs, error) {
		b, err := os.ReadFile(c14FilePath(dir, file))
		if err != nil {
			return c14FileObs{}, err
		}
		return c14FileObs{File: file, Same: string(b) == mem, Data: string(b), Mem: mem}, nil
	}
	switch s.Op {
	case "file", "cfile":
		var err error
		if s.Op == "file" {
			err = rag.NewExporterWithConfig(cfg).ExportToFile(cur.Chunks, path)
		} else {
			err = cur.ExportToFile(path, cfg)
		}
		if err != nil {
			return nil, err
		}
		mem, err := rag.NewExporterWithConfig(cfg).ExportToString(cur.Chunks)
		if err != nil {
			return nil, err
		}
		o, err := read("main", mem)
		return []c14FileObs{o}, err
	case "bfiles":
		if err := rag.NewBatchExporterWithConfig(s.Size, cfg).ExportToFiles(cur.Chunks, filepath.Join(dir, "export.dat.%d")); err != nil {
			return nil, err
		}
		var out []c14FileObs
		err := rag.NewBatchExporterWithConfig(s.Size, cfg).Export(cur.Chunks, func(b rag.ExportBatch) error {
			o, err := read(fmt.Sprintf("b%d", b.BatchNumber), b.Data)
			out = append(out, o)
			return err
		})
		return out, err
	case "sfile":
		scfg := s.Cfg
		scfg.Pretty = false
		jc := c14ExportConfig("jsonl", scfg, fields)
		f, err := os.Create(path) // the caller's file
		if err != nil {
			return nil, err
		}
		se := rag.NewStreamExporterWithConfig(f, jc)
		var mem bytes.Buffer
		sm := rag.NewStreamExporterWithConfig(&mem, jc)
		for n, ch := range cur.Chunks {
			if err := se.WriteChunk(ch, n); err != nil {
				f.Close()
				return nil, err
			}
			if err := sm.WriteChunk(ch, n); err != nil {
				f.Close()
				return nil, err
			}
		}
		se.Close()
		if err := f.Close(); err != nil {
			return nil, err
		}
		o, err := read("main", mem.String())
		return []c14FileObs{o}, err
	}
	return nil, fmt.Errorf("unknown file op %q", s.Op)
}

func c14FilesMode(in, out string) error {
	var coll []c14Chunk
	specs := map[int]*c14FCallSpec{}
	tableErr := ""
	if err := readLines(in, func(i int, raw []byte) error {
		var h struct {
			Kind string `json:"kind"`
		}
		json.Unmarshal(raw, &h)
		switch h.Kind {
		case "fcoll":
			var c struct {
				Chunks   []c14Chunk `json:"chunks"`
				Lower    [][]string `json:"lower"`
				Alphabet []string   `json:"alphabet"`
			}
			if err := json.Unmarshal(raw, &c); err != nil {
				return err
			}
			coll = c.Chunks
			tableErr = c14CheckCaseTable(c.Lower, c.Alphabet)
		case "fcallspec":
			var s c14FCallSpec
			if err := json.Unmarshal(raw, &s); err != nil {
				return err
			}
			specs[s.Call] = &s
		}
		return nil
	}); err != nil {
		return err
	}
	if coll == nil || len(specs) == 0 {
		return fmt.Errorf("c14 files: no collection / call specifications in the input")
	}
	return runCases(in, out, func(i int, raw []byte) Result {
		var h struct {
			Kind  string `json:"kind"`
			Init  string `json:"init"`
			Calls []int  `json:"calls"`
		}
		if err := json.Unmarshal(raw, &h); err != nil {
			return fail("decode", "decode", err.Error(), nil)
		}
		if h.Kind != "fhistory" {
			if h.Kind == "fcoll" && tableErr != "" {
				return fail("table", "table", "case table of Export.tla: "+tableErr, nil)
			}
			return Result{OK: true}
		}
		dir, err := c14FileDir()
		if err != nil {
			panic(err)
		}
		defer os.RemoveAll(dir)
		chunks := c14MakeChunks(coll)
		if err := c14InitDest(dir, h.Init, chunks); err != nil {
			panic(err)
		}
		r := Result{OK: true, Nontrivial: h.Init != "absent" || len(h.Calls) >= 2, Key: fmt.Sprintf("file/%s/%v", h.Init, h.Calls)}
		var done []string
		for _, ci := range h.Calls {
			s := specs[ci]
			if s == nil {
				return fail("decode", "decode", "history without call specification", nil)
			}
			r.Evals++
			label := fmt.Sprintf("%s(%s,%d preds)", s.Op, s.Fmt, len(s.Preds))
			bad := func(cl, sig, w string, obs interface{}) Result {
				x := fail(cl, sig, w, map[string]interface{}{"case": json.RawMessage(raw), "chunks": coll, "destination": h.Init,
					"calls": append(append([]string{}, done...), label), "observed": obs})
				x.Nontrivial, x.Key, x.Evals = r.Nontrivial, r.Key, r.Evals
				return x
			}
			obs, err := c14FileCall(dir, s, chunks)
			if err != nil {
				return bad("error", "C14:file:"+s.Op+":error", label+" returned an error: "+err.Error(), nil)
			}
			if len(obs) != len(s.Outs) {
				return bad("file-count", "C14:file:"+s.Op+":count", fmt.Sprintf("%s wrote %d files, %d expected", label, len(obs), len(s.Outs)), nil)
			}
			for n, o := range obs {
				e := s.Outs[n]
				f, cfg := s.Fmt, s.Cfg
				if s.Op == "sfile" {
					f, cfg.Pretty = "jsonl", false
				}
				if !o.Same {
					return bad("file-bytes", "C14:file:"+s.Op+":bytes", fmt.Sprintf("%s with the destination initially %s, after %v: the file holds %d bytes, the in-memory export of the same call has %d - the file is not that export",
						label, h.Init, done, len(o.Data), len(o.Mem)), c14Trunc(o.Data))
				}
				if cl, _, w := c14CheckOutput(f, cfg, c14Batch{Number: e.Number, Start: e.Start, End: e.End, Ids: e.Ids, Cols: e.Cols, Recs: e.Recs}, o.Data); cl != "" {
					return bad("file-"+cl, "C14:file:"+s.Op+":"+cl, fmt.Sprintf("%s (destination initially %s, after %v), file %s: %s", label, h.Init, done, e.File, w), c14Trunc(o.Data))
				}
			}
			done = append(done, label)
		}
		return r
	})
}

func c14Trunc(s string) string {
	if len(s) > 1500 {
		return s[:1500] + "..."
	}
	return s
}

// ---------------------------------------------------------------- filerecord

func c14FileRecord(in, out string) error {
	type req struct {
		N   int `json:"n"`
		Len int `json:"len"`
	}
	return runCases(in, out, func(i int, raw []byte) Result {
		var q req
		if err := json.Unmarshal(raw, &q); err != nil {
			return fail("decode", "decode", err.Error(), nil)
		}
		rnd := newRand(int64(i)*49979687 + 141414)
		coll := c14RandChunks(rnd, 7)
		for n := range coll {
			coll[n].Text = c14FilterText(rnd, false)
			coll[n].Section = [][]string{{}, {"w1"}, {"w2"}, {"w3"}}[rnd.Intn(4)]
			coll[n].Path = [][][]string{{}, {{"w1"}}, {{"w1"}, {"w2"}}, {{"w3"}}}[rnd.Intn(4)]
		}
		size := 1 + rnd.Intn(3)
		events := []Event{{"event": "Open", "chunks": coll, "size": size}}
		def := func(f string) c14Cfg {
			return c14Cfg{Text: true, Meta: true, Fields: "all", Flatten: c14IsDSV(f), Header: true, Pretty: f == "json", Idcol: "chunk_id", Emb: true}
		}
		evals := 0
		for s := 0; s < q.N; s++ {
			init := []string{"absent", "empty", "long", "short"}[rnd.Intn(4)]
			events = append(events, Event{"event": "Reset", "init": init})
			dir, err := c14FileDir()
			if err != nil {
				panic(err)
			}
			chunks := c14MakeChunks(coll)
			if err := c14InitDest(dir, init, chunks); err != nil {
				panic(err)
			}
			for c := 0; c < q.Len; c++ {
				sp := &c14FCallSpec{Op: []string{"file", "file", "cfile", "bfiles", "sfile"}[rnd.Intn(5)], Preds: []c14Pred{},
					Fmt: []string{"jsonl", "json", "csv", "tsv"}[rnd.Intn(4)], Size: size}
				if sp.Op == "sfile" {
					sp.Fmt = "jsonl"
				}
				sp.Cfg = def(sp.Fmt)
				for n := rnd.Intn(3); n > 0; n-- {
					sp.Preds = append(sp.Preds, c14RandPred(rnd, false))
				}
				evals++
				ev := Event{"event": "Call", "op": sp.Op, "preds": sp.Preds, "fmt": sp.Fmt, "cfg": sp.Cfg}
				obs, err := c14FileCall(dir, sp, chunks)
				if err != nil {
					ev["err"] = err.Error()
					events = append(events, ev)
					continue
				}
				outs := []map[string]interface{}{}
				for _, o := range obs {
					f, cfg := sp.Fmt, sp.Cfg
					if sp.Op == "sfile" {
						f, cfg.Pretty = "jsonl", false
					}
					ids := [][]string{}
					if got, _, err := c14ObserveDSVorJSON(f, cfg, o.Data); err == nil {
						for _, id := range got {
							ids = append(ids, c14Tokenize(id))
						}
					} else {
						ids = append(ids, []string{"?unparsable"})
					}
					outs = append(outs, map[string]interface{}{"file": o.File, "same": o.Same, "ids": ids})
				}
				ev["outs"] = outs
				events = append(events, ev)
			}
			os.RemoveAll(dir)
		}
		return Result{OK: true, Events: events, Evals: evals}
	})
}
