package main

// C14 — Export.tla / Csv.tla binding.
//
// csvreader: every TLC-enumerated character sequence of Csv.tla (well-formed or
//   not) is rendered to bytes and read by the harness's own RFC 4180 reader
//   (c14ReadDSV); rows / error must equal the automaton's.  A mismatch here is a
//   machinery failure (the reader is trusted base), never a verdict.
// replay: every case of ExportMC (collection x format x configuration, batch
//   and stream loops, filter chains) is materialised as rag.Chunk values, the
//   real exporter / collection method is run, the output is parsed back with
//   encoding/json or c14ReadDSV and projected to the spec's record shape; the
//   expected records come from the spec.
// record: random larger collections and operations; one event per spec action
//   with the parsed-back records, validated by ExportTrace.tla.

import (
	"bytes"
	"crypto/sha1"
	"encoding/hex"
	"encoding/json"
	"fmt"
	"io"
	"sort"
	"strconv"
	"strings"
	"unicode"

	"github.com/tsawler/tabula/rag"
)

func init() { handlers["c14"] = c14 }

// ------------------------------------------------------------------ tokens

var c14Tok = map[string]string{
	"COMMA": ",", "TAB": "\t", "QUOTE": "\"", "CR": "\r", "LF": "\n", "NUL": "\x00",
	"EMOJI": "\U0001F600", "JSONISH": `{"a":1}`, "SP": " ",
	"w1": "alfa", "w2": "bravo", "w3": "charlie", "W1": "ALFA", "W2": "Bravo", "W3": "CHARLIE",
	"i1": "id1", "i2": "id2", "i3": "id3", "i4": "id4", "i5": "id5", "i6": "id6", "i7": "id7", "i8": "id8",
	"i9": "id9", "i10": "idA", "i11": "idB", "i12": "idC",
	// the case alphabet of the Search / FilterBySection family: one character per token
	"a": "a", "A": "A", "k": "k", "K": "K", "s": "s", "S": "S", "e1": "\u00e9", "E1": "\u00c9",
	"sg": "\u03c3", "SG": "\u03a3", "sf": "\u03c2", "I1": "\u0130", "i": "i", "KS": "\u212a",
	"AS": "\u023a", "as": "\u2c65", "SS": "\u1e9e", "ss": "\u00df", "ls": "\u017f", "d7": "7",
	// element types are literal strings wrapped as one-token texts
	"paragraph": "paragraph", "list": "list", "table": "table", "heading": "heading",
}

// longest renderings first, for tokenising parsed-back strings
var c14TokOrder = func() []string {
	var ks []string
	for k := range c14Tok {
		ks = append(ks, k)
	}
	sort.Slice(ks, func(a, b int) bool {
		la, lb := len(c14Tok[ks[a]]), len(c14Tok[ks[b]])
		if la != lb {
			return la > lb
		}
		return ks[a] < ks[b]
	})
	return ks
}()

func c14Render(toks []string) string {
	var b strings.Builder
	for _, t := range toks {
		s, ok := c14Tok[t]
		if !ok {
			if c14IsNumbered(t) { // ids n1, n2, ... of large generated collections render as themselves
				s = t
			} else {
				panic("c14: unknown token " + t)
			}
		}
		b.WriteString(s)
	}
	return b.String()
}

func c14IsNumbered(t string) bool {
	if len(t) < 2 || t[0] != 'n' {
		return false
	}
	for _, c := range t[1:] {
		if c < '0' || c > '9' {
			return false
		}
	}
	return true
}

// c14CheckCaseTable cross-checks the specification's case table with the Unicode simple
// lower-case mapping of the characters the harness renders the tokens to (the table is
// hand-transcribed reference data; a disagreement is a machinery failure, never a verdict).
func c14CheckCaseTable(lower [][]string, alphabet []string) string {
	m := map[string]string{}
	for _, p := range lower {
		if len(p) != 2 {
			return "malformed pair"
		}
		m[p[0]] = p[1]
	}
	for _, t := range alphabet {
		s, ok := c14Tok[t]
		if !ok {
			return "token " + t + " of the case alphabet has no rendering"
		}
		rs := []rune(s)
		if len(rs) != 1 {
			return "token " + t + " of the case alphabet is not one character"
		}
		want := t
		if l, ok := m[t]; ok {
			want = l
		}
		if got := string(unicode.ToLower(rs[0])); got != c14Tok[want] {
			return fmt.Sprintf("case table maps %s (%U) to %s (%q), UnicodeData maps it to %q", t, rs[0], want, c14Tok[want], got)
		}
	}
	return ""
}

func c14RenderList(l [][]string) []string {
	if len(l) == 0 {
		return nil
	}
	out := make([]string, len(l))
	for i, t := range l {
		out[i] = c14Render(t)
	}
	return out
}

// c14Tokenize maps a string back to tokens; text that is no concatenation of
// token renderings yields a "?..." token the specification never produces.
func c14Tokenize(s string) []string {
	out := []string{}
	for len(s) > 0 {
		found := false
		for _, k := range c14TokOrder {
			if strings.HasPrefix(s, c14Tok[k]) {
				out = append(out, k)
				s = s[len(c14Tok[k]):]
				found = true
				break
			}
		}
		if !found {
			out = append(out, "?"+hex.EncodeToString([]byte(s)))
			break
		}
	}
	return out
}

// ------------------------------------------------------- RFC 4180 reader

// c14ReadDSV is the reader automaton of Csv.tla over bytes: states FS (field
// start), UQ (unquoted), QD (quoted), QQ (quote seen inside quoted), CRP (CR
// pending outside quotes).  Blank lines are skipped; inside quotes every byte is
// data.  It shares no code with encoding/csv.
func c14ReadDSV(data []byte, delim byte) ([][]string, error) {
	const (
		FS = iota
		UQ
		QD
		QQ
		CRP
	)
	st := FS
	var fld []byte
	row := []string{}
	rows := [][]string{}
	open := false
	endField := func() {
		row = append(row, string(fld))
		fld = fld[:0]
		open = true
	}
	endRecord := func() {
		rows = append(rows, row)
		row = []string{}
		fld = fld[:0]
		open = false
		st = FS
	}
	for pos, c := range data {
		switch st {
		case FS:
			switch c {
			case '"':
				st = QD
				open = true
			case delim:
				endField()
			case '\n':
				if open {
					endField()
					endRecord()
				}
			case '\r':
				if open {
					endField()
				}
				st = CRP
			default:
				st = UQ
				fld = append(fld, c)
				open = true
			}
		case UQ:
			switch c {
			case '"':
				return nil, fmt.Errorf("byte %d: quote inside an unquoted field", pos)
			case delim:
				endField()
				st = FS
			case '\n':
				endField()
				endRecord()
			case '\r':
				endField()
				st = CRP
			default:
				fld = append(fld, c)
			}
		case QD:
			if c == '"' {
				st = QQ
			} else {
				fld = append(fld, c)
			}
		case QQ:
			switch c {
			case '"':
				fld = append(fld, '"')
				st = QD
			case delim:
				endField()
				st = FS
			case '\n':
				endField()
				endRecord()
			case '\r':
				endField()
				st = CRP
			default:
				return nil, fmt.Errorf("byte %d: text after the closing quote", pos)
			}
		case CRP:
			if c != '\n' {
				return nil, fmt.Errorf("byte %d: bare CR outside a quoted field", pos)
			}
			if open {
				endRecord()
			} else {
				st = FS
			}
		}
	}
	switch st {
	case FS:
		if open {
			endField()
			endRecord()
		}
	case UQ, QQ:
		endField()
		endRecord()
	case QD:
		return nil, fmt.Errorf("unterminated quoted field")
	case CRP:
		return nil, fmt.Errorf("bare CR at end of input")
	}
	return rows, nil
}

type c14CsvCase struct {
	Input []string     `json:"input"`
	OK    bool         `json:"ok"`
	Rows  [][][]string `json:"rows"`
}

// c14CsvReader validates c14ReadDSV against one enumerated run of Csv.tla, for
// both delimiters and with multi-byte ordinary characters.
func c14CsvReader(i int, raw []byte) Result {
	var c c14CsvCase
	if err := json.Unmarshal(raw, &c); err != nil {
		return fail("decode", "decode", err.Error(), nil)
	}
	for _, delim := range []byte{',', '\t'} {
		other := ","
		if delim == ',' {
			other = "\t" // the other format's delimiter is ordinary text here
		}
		chr := map[string]string{"D": string(delim), "Q": "\"", "CR": "\r", "LF": "\n", "x": "x", "y": "é" + other + "\U0001F600"}
		var in strings.Builder
		for _, t := range c.Input {
			in.WriteString(chr[t])
		}
		rows, err := c14ReadDSV([]byte(in.String()), delim)
		if (err == nil) != c.OK {
			return fail("csvreader", "csvreader", fmt.Sprintf("input %v delim %q: reader ok=%v (%v), automaton ok=%v", c.Input, delim, err == nil, err, c.OK), map[string]interface{}{"case": json.RawMessage(raw)})
		}
		if !c.OK {
			continue
		}
		want := make([][]string, len(c.Rows))
		for r, row := range c.Rows {
			want[r] = make([]string, len(row))
			for f, fld := range row {
				var b strings.Builder
				for _, t := range fld {
					b.WriteString(chr[t])
				}
				want[r][f] = b.String()
			}
		}
		if string(mustJSON(rows)) != string(mustJSON(want)) {
			return fail("csvreader", "csvreader", fmt.Sprintf("input %v delim %q: reader rows %q, automaton rows %q", c.Input, delim, rows, want), map[string]interface{}{"case": json.RawMessage(raw)})
		}
	}
	return Result{OK: true, Evals: 2}
}

// ------------------------------------------------------------ case shapes

type c14Chunk struct {
	ID       []string   `json:"id"`
	Text     []string   `json:"text"`
	Title    []string   `json:"title"`
	Section  []string   `json:"section"`
	Path     [][]string `json:"path"`
	Etypes   []string   `json:"etypes"`
	Hlevel   int        `json:"hlevel"`
	Pstart   int        `json:"pstart"`
	Pend     int        `json:"pend"`
	Index    int        `json:"index"`
	Total    int        `json:"total"`
	Level    int        `json:"level"`
	Parent   []string   `json:"parent"`
	Children [][]string `json:"children"`
	Table    bool       `json:"table"`
	List     bool       `json:"list"`
	Image    bool       `json:"image"`
	Chars    int        `json:"chars"`
	Words    int        `json:"words"`
	Tokens   int        `json:"tokens"`
	Emb      []int      `json:"emb"`
}

type c14Cfg struct {
	Text    bool   `json:"text"`
	Meta    bool   `json:"meta"`
	Fields  string `json:"fields"`
	Flatten bool   `json:"flatten"`
	Header  bool   `json:"header"`
	Pretty  bool   `json:"pretty"`
	Idcol   string `json:"idcol"`
	Emb     bool   `json:"emb"`
}

// c14Val is a tagged value of the specification.
type c14Val struct {
	T      string          `json:"t"`
	V      json.RawMessage `json:"v"`
	Simple bool            `json:"simple"`
}

// c14Map is a field map; TLC prints an empty function as [].
type c14Map map[string]c14Val

func (m *c14Map) UnmarshalJSON(b []byte) error {
	if bytes.HasPrefix(bytes.TrimSpace(b), []byte("[")) {
		*m = c14Map{}
		return nil
	}
	var x map[string]c14Val
	if err := json.Unmarshal(b, &x); err != nil {
		return err
	}
	*m = x
	return nil
}

type c14Rec struct {
	Top  c14Map `json:"top"`
	Meta c14Map `json:"meta"`
}

type c14Batch struct {
	Number int        `json:"number"`
	Start  int        `json:"start"`
	End    int        `json:"end"`
	Ids    [][]string `json:"ids"`
	Cols   []string   `json:"cols"`
	Recs   []c14Rec   `json:"recs"`
}

type c14Pred struct {
	K   string   `json:"k"`
	S   []string `json:"s"`
	A   int      `json:"a"`
	B   int      `json:"b"`
	E   string   `json:"e"`
	Set []int    `json:"set"`
}

type c14Case struct {
	Mode     string     `json:"mode"`
	Fmt      string     `json:"fmt"`
	Cfg      c14Cfg     `json:"cfg"`
	Fields   []string   `json:"fields"`
	Size     int        `json:"size"`
	Chunks   []c14Chunk `json:"chunks"`
	Preds    []c14Pred  `json:"preds"`
	Batches  []c14Batch `json:"batches"`
	Sel      [][]string `json:"sel"`
	Lower    [][]string `json:"lower"`    // the spec's case table (filter cases)
	Alphabet []string   `json:"alphabet"` // the characters it covers
}

func c14MakeChunks(cs []c14Chunk) []*rag.Chunk {
	out := make([]*rag.Chunk, len(cs))
	for i, c := range cs {
		var et []string
		if len(c.Etypes) > 0 {
			et = append(et, c.Etypes...)
		}
		out[i] = &rag.Chunk{
			ID:   c14Render(c.ID),
			Text: c14Render(c.Text),
			Metadata: rag.ChunkMetadata{
				DocumentTitle: c14Render(c.Title), SectionPath: c14RenderList(c.Path), SectionTitle: c14Render(c.Section),
				HeadingLevel: c.Hlevel, PageStart: c.Pstart, PageEnd: c.Pend, ChunkIndex: c.Index, TotalChunks: c.Total,
				Level: rag.ChunkLevel(c.Level), ParentID: c14Render(c.Parent), ChildIDs: c14RenderList(c.Children),
				ElementTypes: et, HasTable: c.Table, HasList: c.List, HasImage: c.Image,
				CharCount: c.Chars, WordCount: c.Words, EstimatedTokens: c.Tokens,
			},
		}
	}
	return out
}

func c14Embeddings(cs []c14Chunk) [][]float64 {
	out := make([][]float64, len(cs))
	for i, c := range cs {
		for _, v := range c.Emb {
			out[i] = append(out[i], float64(v))
		}
	}
	return out
}

func c14ExportConfig(f string, c c14Cfg, fields []string) rag.ExportConfig {
	cfg := rag.ExportConfig{
		IncludeMetadata: c.Meta, IncludeText: c.Text, FlattenMetadata: c.Flatten, IncludeHeader: c.Header,
		PrettyPrint: c.Pretty, TextColumnName: "text", ChunkIDColumnName: c.Idcol, CSVDelimiter: ',',
	}
	if c.Fields != "all" {
		cfg.MetadataFields = append([]string{}, fields...)
	}
	switch f {
	case "jsonl":
		cfg.Format = rag.ExportFormatJSONL
	case "json":
		cfg.Format = rag.ExportFormatJSON
	case "csv":
		cfg.Format = rag.ExportFormatCSV
	case "tsv":
		cfg.Format = rag.ExportFormatTSV
		cfg.CSVDelimiter = '\t'
	}
	return cfg
}

// ------------------------------------------------- parse back and project

// c14Obs is one parsed-back record in the spec's shape with native values:
// string, int, bool, []string, []float64; c14Raw for a value of the wrong type.
type c14Raw struct{ S string }
type c14Obs struct {
	Top  map[string]interface{}
	Meta map[string]interface{}
}

// schema: the type tag of every field name of every format
var c14MetaTypes = map[string]string{
	"document_title": "s", "section_path": "l", "section_title": "s", "heading_level": "i", "page_start": "i",
	"page_end": "i", "chunk_index": "i", "total_chunks": "i", "level": "e", "parent_id": "s", "child_ids": "l",
	"element_types": "l", "has_table": "b", "has_list": "b", "has_image": "b", "char_count": "i", "word_count": "i",
	"estimated_tokens": "i",
	// pinecone / weaviate / chroma metadata
	"text": "s", "content": "s", "documentTitle": "s", "pageStart": "i", "sectionTitle": "s", "chunkIndex": "i",
}
var c14TopTypes = map[string]string{
	"id": "s", "chunk_id": "s", "text": "s", "document": "s", "class": "e", "values": "n", "embedding": "n", "vector": "n",
	"document_title": "s", "page_start": "i", "page_end": "i", "chunk_index": "i", "section_title": "s", "section_path": "l",
	"has_table": "b", "has_list": "b", "has_image": "b",
}

func c14Zero(t string) interface{} {
	switch t {
	case "s", "e":
		return ""
	case "i":
		return 0
	case "b":
		return false
	case "l":
		return []string{}
	case "n":
		return []float64{}
	}
	return nil
}

// c14FromJSON converts a decoded JSON value to the native value of type tag t.
func c14FromJSON(t string, v interface{}) interface{} {
	if v == nil {
		return c14Zero(t)
	}
	switch t {
	case "s", "e":
		if s, ok := v.(string); ok {
			return s
		}
	case "i":
		if n, ok := v.(json.Number); ok {
			if x, err := strconv.Atoi(n.String()); err == nil {
				return x
			}
		}
	case "b":
		if b, ok := v.(bool); ok {
			return b
		}
	case "l":
		if a, ok := v.([]interface{}); ok {
			out := []string{}
			for _, e := range a {
				s, ok := e.(string)
				if !ok {
					return c14Raw{fmt.Sprint(v)}
				}
				out = append(out, s)
			}
			return out
		}
	case "n":
		if a, ok := v.([]interface{}); ok {
			out := []float64{}
			for _, e := range a {
				n, ok := e.(json.Number)
				if !ok {
					return c14Raw{fmt.Sprint(v)}
				}
				f, err := n.Float64()
				if err != nil {
					return c14Raw{fmt.Sprint(v)}
				}
				out = append(out, f)
			}
			return out
		}
	}
	return c14Raw{fmt.Sprint(v)}
}

func c14ProjectMap(m map[string]interface{}, types map[string]string, skip map[string]bool) map[string]interface{} {
	out := map[string]interface{}{}
	for k, t := range types {
		if skip[k] {
			continue
		}
		out[k] = c14FromJSON(t, m[k])
	}
	return out
}

func c14AsMap(v interface{}) map[string]interface{} {
	if m, ok := v.(map[string]interface{}); ok {
		return m
	}
	return map[string]interface{}{}
}

func c14DecodeStream(data string) ([]interface{}, error) {
	dec := json.NewDecoder(strings.NewReader(data))
	dec.UseNumber()
	var out []interface{}
	for {
		var v interface{}
		err := dec.Decode(&v)
		if err == io.EOF {
			return out, nil
		}
		if err != nil {
			return nil, err
		}
		out = append(out, v)
	}
}

// c14ParseJSONFamily parses JSON / JSON Lines exports of ExportedChunk records.
func c14ParseJSONFamily(f string, pretty bool, data string) ([]c14Obs, error) {
	var vals []interface{}
	if f == "json" {
		dec := json.NewDecoder(strings.NewReader(data))
		dec.UseNumber()
		var arr []interface{}
		if err := dec.Decode(&arr); err != nil {
			return nil, fmt.Errorf("not a JSON array: %v", err)
		}
		var extra interface{}
		if err := dec.Decode(&extra); err != io.EOF {
			return nil, fmt.Errorf("data after the JSON array")
		}
		vals = arr
	} else {
		if !pretty {
			// JSON Lines proper: every non-empty line is one JSON value
			for n, line := range strings.Split(data, "\n") {
				if strings.TrimSpace(line) == "" {
					continue
				}
				dec := json.NewDecoder(strings.NewReader(line))
				dec.UseNumber()
				var v interface{}
				if err := dec.Decode(&v); err != nil {
					return nil, fmt.Errorf("line %d is not a JSON value: %v", n+1, err)
				}
				vals = append(vals, v)
			}
		} else {
			var err error
			if vals, err = c14DecodeStream(data); err != nil {
				return nil, err
			}
		}
	}
	out := make([]c14Obs, len(vals))
	for i, v := range vals {
		m, ok := v.(map[string]interface{})
		if !ok {
			return nil, fmt.Errorf("record %d is not a JSON object", i)
		}
		top := map[string]interface{}{}
		for _, k := range []string{"id", "text", "document_title", "page_start", "page_end", "chunk_index", "section_title",
			"section_path", "has_table", "has_list", "has_image"} {
			top[k] = c14FromJSON(c14TopTypes[k], m[k])
		}
		out[i] = c14Obs{Top: top, Meta: c14ProjectMap(c14AsMap(m["metadata"]), c14MetaTypes, map[string]bool{
			"text": true, "content": true, "documentTitle": true, "pageStart": true, "sectionTitle": true, "chunkIndex": true})}
	}
	return out, nil
}

// c14ParseCell converts a delimiter-separated cell to the native value of tag t.
func c14ParseCell(t, cell string) interface{} {
	switch t {
	case "s", "e":
		return cell
	case "i":
		if cell == "" {
			return 0
		}
		if x, err := strconv.Atoi(cell); err == nil {
			return x
		}
	case "b":
		switch cell {
		case "", "false":
			return false
		case "true":
			return true
		}
	case "l":
		if cell == "" || cell == "[]" {
			return []string{}
		}
		if strings.HasPrefix(cell, "[") && strings.HasSuffix(cell, "]") {
			return strings.Split(cell[1:len(cell)-1], ",")
		}
	}
	return c14Raw{cell}
}

// c14ParseDSV parses a CSV/TSV export. With a header row the columns are found
// by name; without one the positions come from cols (the spec's column list).
func c14ParseDSV(f string, cfg c14Cfg, cols []string, data string) ([]c14Obs, []string, error) {
	delim := byte(',')
	if f == "tsv" {
		delim = '\t'
	}
	rows, err := c14ReadDSV([]byte(data), delim)
	if err != nil {
		return nil, nil, err
	}
	header := cols
	if cfg.Header {
		if len(rows) == 0 {
			return nil, nil, fmt.Errorf("header row missing")
		}
		header = rows[0]
		rows = rows[1:]
		seen := map[string]bool{}
		for _, h := range header {
			if seen[h] {
				return nil, nil, fmt.Errorf("duplicate column %q", h)
			}
			seen[h] = true
		}
	}
	out := make([]c14Obs, len(rows))
	for i, row := range rows {
		if len(row) != len(header) {
			return nil, header, fmt.Errorf("record %d has %d fields, the column list has %d", i, len(row), len(header))
		}
		cell := map[string]string{}
		for j, h := range header {
			cell[h] = row[j]
		}
		top := map[string]interface{}{}
		for _, k := range []string{cfg.Idcol, "text", "chunk_index", "document_title", "page_start", "page_end", "section_title",
			"has_table", "has_list", "has_image"} {
			t := c14TopTypes[k]
			if k == cfg.Idcol {
				t = "s"
			}
			top[k] = c14ParseCell(t, cell[k])
		}
		meta := map[string]interface{}{}
		for k, t := range c14MetaTypes {
			if c, ok := cell["meta_"+k]; ok {
				meta[k] = c14ParseCell(t, c)
			} else {
				meta[k] = c14Zero(t)
			}
		}
		out[i] = c14Obs{Top: top, Meta: meta}
	}
	return out, header, nil
}

func c14ParseVDB(f string, data string) ([]c14Obs, error) {
	dec := json.NewDecoder(strings.NewReader(data))
	dec.UseNumber()
	mk := func(top map[string]interface{}, topKeys []string, meta interface{}, metaKeys []string) c14Obs {
		o := c14Obs{Top: map[string]interface{}{}, Meta: map[string]interface{}{}}
		for _, k := range topKeys {
			o.Top[k] = c14FromJSON(c14TopTypes[k], top[k])
		}
		mm := c14AsMap(meta)
		for _, k := range metaKeys {
			o.Meta[k] = c14FromJSON(c14MetaTypes[k], mm[k])
		}
		return o
	}
	var out []c14Obs
	switch f {
	case "vdb":
		var arr []interface{}
		if err := dec.Decode(&arr); err != nil {
			return nil, err
		}
		for _, v := range arr {
			m := c14AsMap(v)
			out = append(out, mk(m, []string{"id", "text"}, m["metadata"],
				[]string{"document_title", "page_start", "chunk_index", "section_title", "section_path", "element_types"}))
		}
	case "pinecone":
		var doc map[string]interface{}
		if err := dec.Decode(&doc); err != nil {
			return nil, err
		}
		arr, ok := doc["vectors"].([]interface{})
		if !ok {
			return nil, fmt.Errorf("no vectors array")
		}
		for _, v := range arr {
			m := c14AsMap(v)
			out = append(out, mk(m, []string{"id", "values"}, m["metadata"], []string{"text", "document_title", "page_start", "section_title"}))
		}
	case "chroma":
		var doc map[string]interface{}
		if err := dec.Decode(&doc); err != nil {
			return nil, err
		}
		ids, _ := doc["ids"].([]interface{})
		docs, _ := doc["documents"].([]interface{})
		metas, _ := doc["metadatas"].([]interface{})
		embs, hasEmb := doc["embeddings"].([]interface{})
		if len(docs) != len(ids) || len(metas) != len(ids) || (hasEmb && len(embs) != len(ids)) {
			return nil, fmt.Errorf("column lengths differ: ids %d documents %d metadatas %d embeddings %d", len(ids), len(docs), len(metas), len(embs))
		}
		for i := range ids {
			top := map[string]interface{}{"id": ids[i], "document": docs[i]}
			if hasEmb {
				top["embedding"] = embs[i]
			}
			out = append(out, mk(top, []string{"id", "document", "embedding"}, metas[i], []string{"document_title", "page_start", "section_title", "chunk_index"}))
		}
	case "weaviate":
		for {
			var v interface{}
			err := dec.Decode(&v)
			if err == io.EOF {
				break
			}
			if err != nil {
				return nil, err
			}
			m := c14AsMap(v)
			out = append(out, mk(m, []string{"id", "class", "vector"}, m["properties"], []string{"content", "documentTitle", "pageStart", "sectionTitle", "chunkIndex"}))
		}
	}
	return out, nil
}

// ------------------------------------------------------------- comparison

func c14IsDSV(f string) bool { return f == "csv" || f == "tsv" }

// c14Expect renders the spec's tagged value to the native value it denotes.
func c14Expect(v c14Val) interface{} {
	switch v.T {
	case "s":
		var t []string
		json.Unmarshal(v.V, &t)
		return c14Render(t)
	case "e":
		var s string
		json.Unmarshal(v.V, &s)
		return s
	case "i":
		var n int
		json.Unmarshal(v.V, &n)
		return n
	case "b":
		var b bool
		json.Unmarshal(v.V, &b)
		return b
	case "l":
		var l [][]string
		json.Unmarshal(v.V, &l)
		out := []string{}
		for _, t := range l {
			out = append(out, c14Render(t))
		}
		return out
	case "n":
		var l []int
		json.Unmarshal(v.V, &l)
		out := []float64{}
		for _, x := range l {
			out = append(out, float64(x))
		}
		return out
	}
	return nil
}

func c14Same(a, b interface{}) bool {
	return fmt.Sprintf("%T", a) == fmt.Sprintf("%T", b) && string(mustJSON(a)) == string(mustJSON(b))
}

// c14CompareRec returns "" or the first mismatch (where, expected, observed).
func c14CompareRec(f string, exp c14Rec, obs c14Obs) (string, string) {
	cmp := func(part string, em c14Map, om map[string]interface{}) (string, string) {
		keys := make([]string, 0, len(em))
		for k := range em {
			keys = append(keys, k)
		}
		sort.Strings(keys)
		for _, k := range keys {
			ev := em[k]
			o, present := om[k]
			if !present {
				o = c14Zero(ev.T)
			}
			if ev.T == "l" && c14IsDSV(f) && !ev.Simple {
				continue // a list cell whose elements contain the separator: only its existence is required
			}
			want := c14Expect(ev)
			if !c14Same(want, o) {
				return part + k, fmt.Sprintf("%s%s: expected %s, parsed back %s", part, k, string(mustJSON(want)), c14Show(o))
			}
		}
		return "", ""
	}
	if k, w := cmp("", exp.Top, obs.Top); k != "" {
		return k, w
	}
	return cmp("metadata.", exp.Meta, obs.Meta)
}

func c14Show(o interface{}) string {
	if r, ok := o.(c14Raw); ok {
		return "unparsable " + strconv.Quote(r.S)
	}
	return string(mustJSON(o))
}

func c14FmtClass(f string) string {
	switch f {
	case "csv", "tsv", "jsonl", "json":
		return f
	}
	return f
}

// c14Parse dispatches on the format.
func c14Parse(f string, cfg c14Cfg, cols []string, data string) ([]c14Obs, error) {
	switch f {
	case "jsonl", "json":
		return c14ParseJSONFamily(f, cfg.Pretty, data)
	case "csv", "tsv":
		o, _, err := c14ParseDSV(f, cfg, cols, data)
		return o, err
	default:
		return c14ParseVDB(f, data)
	}
}

// c14CheckOutput parses one export and compares it with the expected records.
func c14CheckOutput(f string, cfg c14Cfg, b c14Batch, data string) (clause, sig, what string) {
	obs, err := c14Parse(f, cfg, b.Cols, data)
	if err != nil {
		return "wellformed", "C14:wellformed:" + f, fmt.Sprintf("%s export is not well-formed for a standard parser: %v", f, err)
	}
	if len(obs) != len(b.Recs) {
		return "count", "C14:count:" + f, fmt.Sprintf("%s export parses back to %d records for %d chunks", f, len(obs), len(b.Recs))
	}
	for i := range obs {
		if k, w := c14CompareRec(f, b.Recs[i], obs[i]); k != "" {
			return "value", "C14:value:" + f + ":" + k, fmt.Sprintf("%s export, record %d: %s", f, i, w)
		}
	}
	return "", "", ""
}

// c14IsDefault reports whether cfg is what the ChunkCollection.ToXxx convenience
// method of the format uses.
func c14IsDefault(f string, c c14Cfg) bool {
	return c.Text && c.Meta && c.Fields == "all" && c.Header && c.Idcol == "chunk_id" &&
		c.Flatten == c14IsDSV(f) && c.Pretty == (f == "json")
}

func c14RunExport(f string, cfg c14Cfg, fields []string, chunks []*rag.Chunk, embs [][]float64, viaCollection bool) (string, error) {
	switch f {
	case "jsonl", "json", "csv", "tsv":
		if viaCollection {
			cc := rag.NewChunkCollection(chunks)
			switch f {
			case "jsonl":
				return cc.ToJSONL()
			case "json":
				return cc.ToJSON()
			case "csv":
				return cc.ToCSV()
			default:
				return cc.ToTSV()
			}
		}
		return rag.NewExporterWithConfig(c14ExportConfig(f, cfg, fields)).ExportToString(chunks)
	}
	ee := rag.NewEmbeddingExporter()
	if !cfg.Emb {
		embs = nil
	}
	var buf bytes.Buffer
	var err error
	switch f {
	case "vdb":
		var b []byte
		b, err = json.Marshal(ee.PrepareForVectorDB(chunks))
		buf.Write(b)
	case "pinecone":
		err = ee.ExportForPinecone(chunks, embs, &buf)
	case "chroma":
		err = ee.ExportForChroma(chunks, embs, &buf)
	case "weaviate":
		err = ee.ExportForWeaviate(chunks, embs, "Chunk", &buf)
	default:
		err = fmt.Errorf("unknown format %s", f)
	}
	return buf.String(), err
}

func c14Adversarial(cs []c14Chunk) bool {
	adv := func(t []string) bool {
		for _, x := range t {
			if !(strings.HasPrefix(x, "w") || strings.HasPrefix(x, "W") || strings.HasPrefix(x, "i")) {
				return true
			}
		}
		return false
	}
	for _, c := range cs {
		if adv(c.Text) || adv(c.Title) || adv(c.Section) || adv(c.ID) {
			return true
		}
		for _, p := range c.Path {
			if adv(p) {
				return true
			}
		}
	}
	return false
}

func c14ApplyPred(cc *rag.ChunkCollection, p c14Pred) (*rag.ChunkCollection, error) {
	switch p.K {
	case "section":
		return cc.FilterBySection(c14Render(p.S)), nil
	case "page":
		return cc.FilterByPage(p.A), nil
	case "pagerange":
		return cc.FilterByPageRange(p.A, p.B), nil
	case "etype":
		return cc.FilterByElementType(p.E), nil
	case "tables":
		return cc.FilterWithTables(), nil
	case "lists":
		return cc.FilterWithLists(), nil
	case "images":
		return cc.FilterWithImages(), nil
	case "mintok":
		return cc.FilterByMinTokens(p.A), nil
	case "maxtok":
		return cc.FilterByMaxTokens(p.A), nil
	case "search":
		return cc.Search(c14Render(p.S)), nil
	case "index":
		set := map[int]bool{}
		for _, x := range p.Set {
			set[x] = true
		}
		return cc.Filter(func(c *rag.Chunk) bool { return set[c.Metadata.ChunkIndex] }), nil
	}
	return nil, fmt.Errorf("unknown predicate %q", p.K)
}

func c14IDs(cs []*rag.Chunk) []string {
	out := []string{}
	for _, c := range cs {
		out = append(out, c.ID)
	}
	return out
}

func c14ReplayCase(i int, raw []byte) Result {
	var c c14Case
	if err := json.Unmarshal(raw, &c); err != nil {
		return fail("decode", "decode", err.Error(), nil)
	}
	h := sha1.Sum(raw)
	r := Result{OK: true, Nontrivial: c14Adversarial(c.Chunks), Key: hex.EncodeToString(h[:8]), Evals: 1}
	bad := func(clause, sig, what string, observed interface{}) Result {
		x := fail(clause, sig, what, map[string]interface{}{"case": json.RawMessage(raw), "observed": observed})
		x.Nontrivial, x.Key = r.Nontrivial, r.Key
		return x
	}
	chunks := c14MakeChunks(c.Chunks)
	embs := c14Embeddings(c.Chunks)
	if c.Mode != "filter" && len(c.Preds) > 0 {
		// the collection handed to the exporter is what the real filters select
		cur := rag.NewChunkCollection(chunks)
		for _, p := range c.Preds {
			next, err := c14ApplyPred(cur, p)
			if err != nil {
				return fail("decode", "decode", err.Error(), nil)
			}
			cur = next
		}
		pos := map[*rag.Chunk]int{}
		for n, ch := range chunks {
			pos[ch] = n
		}
		var fe [][]float64
		for _, ch := range cur.Chunks {
			fe = append(fe, embs[pos[ch]])
		}
		chunks, embs = cur.Chunks, fe
	}
	switch c.Mode {
	case "export":
		if len(c.Batches) != 1 {
			return fail("decode", "decode", "export case without its single pass", nil)
		}
		variants := []bool{false}
		if c14IsDefault(c.Fmt, c.Cfg) && (c.Fmt == "jsonl" || c.Fmt == "json" || c14IsDSV(c.Fmt)) {
			variants = append(variants, true)
		}
		for _, via := range variants {
			r.Evals++
			data, err := c14RunExport(c.Fmt, c.Cfg, c.Fields, chunks, embs, via)
			if err != nil {
				return bad("error", "C14:error:"+c.Fmt, "export returned an error: "+err.Error(), err.Error())
			}
			if cl, sig, what := c14CheckOutput(c.Fmt, c.Cfg, c.Batches[0], data); cl != "" {
				return bad(cl, sig, what, data)
			}
		}
	case "batch":
		var gs []rag.ExportBatch
		err := rag.NewBatchExporterWithConfig(c.Size, c14ExportConfig(c.Fmt, c.Cfg, c.Fields)).Export(chunks, func(b rag.ExportBatch) error {
			gs = append(gs, b)
			return nil
		})
		if err != nil {
			return bad("error", "C14:error:batch", "BatchExporter.Export returned an error: "+err.Error(), err.Error())
		}
		if len(gs) != len(c.Batches) {
			return bad("batch", "C14:batch:count", fmt.Sprintf("batch size %d over %d chunks: %d batches delivered, %d expected", c.Size, len(chunks), len(gs), len(c.Batches)), gs)
		}
		for n, g := range gs {
			e := c.Batches[n]
			if g.BatchNumber != e.Number || g.StartIndex != e.Start || g.EndIndex != e.End || g.ChunkCount != e.End-e.Start {
				return bad("batch", "C14:batch:bookkeeping", fmt.Sprintf("batch %d: number/start/end/count %d/%d/%d/%d, expected %d/%d/%d/%d", n, g.BatchNumber, g.StartIndex, g.EndIndex, g.ChunkCount, e.Number, e.Start, e.End, e.End-e.Start), gs)
			}
			if cl, sig, what := c14CheckOutput(c.Fmt, c.Cfg, e, g.Data); cl != "" {
				return bad("batch-"+cl, strings.Replace(sig, "C14:", "C14:batch:", 1), fmt.Sprintf("batch %d (chunks %d..%d): %s", n, e.Start, e.End, what), g.Data)
			}
		}
	case "stream":
		var buf bytes.Buffer
		se := rag.NewStreamExporterWithConfig(&buf, c14ExportConfig(c.Fmt, c.Cfg, c.Fields))
		for n, ch := range chunks {
			if err := se.WriteChunk(ch, n); err != nil {
				return bad("error", "C14:error:stream", "StreamExporter.WriteChunk returned an error: "+err.Error(), err.Error())
			}
		}
		if err := se.Close(); err != nil {
			return bad("error", "C14:error:stream", "StreamExporter.Close returned an error: "+err.Error(), err.Error())
		}
		all := c14Batch{}
		for _, b := range c.Batches {
			all.Recs = append(all.Recs, b.Recs...)
		}
		// a stream is a sequence of JSON values, one per line, whatever the configured format
		if cl, sig, what := c14CheckOutput("jsonl", c.Cfg, all, buf.String()); cl != "" {
			return bad("stream-"+cl, strings.Replace(sig, "C14:", "C14:stream:", 1), "stream export: "+what, buf.String())
		}
	case "filter":
		if why := c14CheckCaseTable(c.Lower, c.Alphabet); why != "" {
			return fail("table", "table", "case table of Export.tla: "+why, nil)
		}
		cc := rag.NewChunkCollection(chunks)
		before := c14IDs(cc.Chunks)
		cur := cc
		for _, p := range c.Preds {
			next, err := c14ApplyPred(cur, p)
			if err != nil {
				return fail("decode", "decode", err.Error(), nil)
			}
			cur = next
		}
		kinds := []string{}
		for _, p := range c.Preds {
			kinds = append(kinds, p.K)
		}
		gotIDs := c14IDs(cur.Chunks)
		want := []string{}
		for _, s := range c.Sel {
			want = append(want, c14Render(s))
		}
		if !c14Same(gotIDs, want) {
			return bad("filter", "C14:filter:"+strings.Join(kinds, "+"), fmt.Sprintf("filter chain %s selects %q, the predicate holds exactly for %q", string(mustJSON(c.Preds)), gotIDs, want), gotIDs)
		}
		if !c14Same(before, c14IDs(cc.Chunks)) {
			return bad("filter-pure", "C14:filter:mutates", "filtering changed the source collection", c14IDs(cc.Chunks))
		}
		byID := map[string]*rag.Chunk{}
		for _, ch := range chunks {
			byID[ch.ID] = ch
		}
		for _, ch := range cur.Chunks {
			if byID[ch.ID] != ch {
				return bad("filter-pure", "C14:filter:copies", "a filtered collection holds a chunk that is not an element of the source", ch.ID)
			}
		}
	default:
		return fail("decode", "decode", "unknown mode "+c.Mode, nil)
	}
	return r
}

func c14(mode, in, out string) error {
	switch mode {
	case "csvreader":
		return runCases(in, out, c14CsvReader)
	case "replay":
		return runCases(in, out, c14ReplayCase)
	case "record":
		return c14Record(in, out)
	case "objects":
		return c14ObjectsMode(in, out)
	case "objrecord":
		return c14ObjRecord(in, out)
	case "concurrent":
		return c14Concurrent(in, out)
	case "files":
		return c14FilesMode(in, out)
	case "filerecord":
		return c14FileRecord(in, out)
	}
	return fmt.Errorf("c14: unknown mode %s", mode)
}
