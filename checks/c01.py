"""C01 — PDF text survives every physical file layout (PdfLayout.tla, ReaderIO.tla, PageTreeInherit.tla)."""
from lib import vlib
from checks.common import absorb, replay_generic

NOTES = """Every layout option is legal by ISO 32000-1: cross-reference tables or streams (7.5.4/7.5.8), object streams holding
only non-stream objects (7.5.7), filter chains (7.4) with DecodeParms as dict/array/null, /Length direct or indirect (7.3.8),
content split at token boundaries with trailing white space (7.8.2), inheritable MediaBox/Resources on any ancestor (7.7.3.4,
nearest definition wins, decoys above it), incremental updates (7.5.6), any object numbering and file order, CR/LF/CRLF line
ends (stream keyword always followed by LF or CRLF). Padding is a comment line inside the content stream."""

EVIDENCE = dict(
    level="model_checking",
    rule="cases = layouts chosen option by option by PdfLayout.tla (15 options, validity constraints in the option domains): "
         "quick = -simulate random walks (about 1500 distinct layouts), thorough = many more; each is rendered by pdfw/pdfdoc and read "
         "through tabula.Open (PageCount, Pages(i).Fragments) and reader.Open (MediaBox); expectation (page count, per-page items, "
         "box of the nearest level) computed by the spec. ReaderIO.tla and PageTreeInherit.tla are checked exhaustively, their "
         "pinned-algorithm variants refuted. Non-trivial = layout differing from its plain twin; distinct by layout record.",
    assumptions=["pdfw/pdfdoc render the chosen layout faithfully (structural self-audit on every file)", "zlib trusted",
                 "font decoding itself is C07's subject; here every font's ToUnicode differs from the fallback decoding so that lost resources are visible"],
)


def run(ctx):
    q = ctx.tier == "quick"
    ctx.tlc("PageTreeInherit", "PageTreeInherit_mc.cfg")
    ctx.tlc("PageTreeInherit", "PageTreeInherit_mc_impl.cfg", expect_violation=True)
    ctx.tlc("ReaderIO", "ReaderIO_mc.cfg")
    ctx.tlc("ReaderIO", "ReaderIO_mc_impl.cfg", expect_violation=True)
    sim = ctx.tlc("PdfLayoutMC", "PdfLayout_gen.cfg", workers=1, simulate=1500 if q else 40000, depth=20, collect=True, timeout=3000)
    seen, cases = set(), []
    for c in sim["cases"]:
        k = vlib.json.dumps(c["layout"], sort_keys=True)
        if k not in seen:
            seen.add(k)
            cases.append(c)
    if len(cases) < 100:
        raise vlib.MachineryError("too few layouts emitted: %d" % len(cases))
    ctx.extra["layouts"] = len(cases)
    ctx.sample(cases[0])
    ctx.sample({"layout": cases[-1]["layout"]})
    res = absorb(ctx, ctx.run_driver(["c01", "replay"], cases, timeout=7200))
    mach = [r for r in res if (r.get("sig") or "").startswith("MACHINERY")]
    if mach:
        raise vlib.MachineryError("writer failure: " + mach[0].get("what", ""))
    # R3: the recorded observations against Expected(L), judged by TLC
    events = [e for r in res if r["ok"] for e in r.get("events", [])]
    if not events:
        raise vlib.MachineryError("no Extract events recorded")
    for part in vlib.chunks(events, 4000):
        tv = ctx.validate_trace("PdfLayoutTrace", "PdfLayoutTrace.cfg", part)
        if tv["accepted"]:
            ctx.traces_validated += len(part)
        else:
            ev = part[tv["depth"] - 1] if 0 < tv["depth"] <= len(part) else None
            ctx.violation("C01:trace", "PdfLayoutTrace rejects the recorded extraction: %s" % vlib.json.dumps(ev)[:800], {"event": ev})


def replay(ctx, rp):
    return replay_generic(ctx, rp, ["c01", "replay"])
