"""C10 — page selection and option chaining are algebraic; handles are released (PageSelect.tla, Lifecycle.tla)."""
from lib import vlib
from checks.common import absorb, replay_generic

NOTES = """Empty selections (Pages(), PageRange(3,1)) are not fixed by the statement: any of {all pages, none, error} is accepted but
all spellings must agree. Descriptor counts: the check requires 'no more descriptors open than the specification accounts for'
after every step (so a reference-counted implementation holding fewer is fine) and exactly the baseline once every extractor is
closed; a second Close may return an error value but must not panic."""

EVIDENCE = dict(
    level="model_checking",
    rule="select: every sequence of <= 2 builder calls (Pages with <= 2 arguments from 0..4, PageRange over 0..4 incl. reversed) on a "
         "3-page document, expectation = set semantics computed by PageSelect.tla, checked through Text(), Document() page numbers "
         "and Chunks() page metadata; selectopts: every sequence of <= 2 builder calls over {1,2,3,5,6} on a 5-page document (page 3 a real two-column page of 24 lines) (cover page without the running header, last page without the footer, one two-column page) x 10 option combinations (ExcludeHeaders / ExcludeFooters / ExcludeHeadersAndFooters / ByColumn / JoinParagraphs / PreserveLayout and pairs), options chained before and after the selection, expectation = the tokens the whole document gives for the selected pages under the same options. lifecycle: every history of 4 operations (derive with Pages(4) / Pages(5) / PageRange(1,3) / Pages(99) / ByColumn, PageCount, "
         "Text, Close) over <= 4 extractors from Lifecycle.tla replayed on real extractors with /proc/self/fd counted after each step; recorded histories "
         "validated by LifecycleTrace.tla. The option-only histories also run on twelve damaged or absent documents (catalog without /Pages, /Pages not a dictionary, huge /Count, missing kid, broken content stream, garbage, empty file, broken DOCX / XLSX / EPUB archives, absent file): only panics and descriptors are judged there. Non-trivial = selection other than 'all pages' / history with >= 2 operations.",
    assumptions=["pdfdoc renders the 3-page document faithfully", "/proc/self/fd counts the process's descriptors"],
)


def run(ctx):
    q = ctx.tier == "quick"
    ctx.extra_prefixes = ["docs_min", "c20"]   # minimal documents of the other formats
    ctx.tlc("LifecycleMC", "Lifecycle_mc.cfg")
    ctx.tlc("LifecycleMC", "Lifecycle_mc_impl.cfg", expect_violation=True)     # clone() shares the reader pointer
    ctx.tlc("LifecycleMC", "Lifecycle_mc_alias.cfg", expect_violation=True)    # clone() reuses the page slice (Go append aliasing)
    sel = ctx.tlc("PageSelectMC", "PageSelect_gen.cfg" if q else "PageSelect_gen_thorough.cfg", workers=1, collect=True, timeout=1800)
    selo = ctx.tlc("PageSelectMC", "PageSelect_gen_opts.cfg", workers=1, collect=True, timeout=1800)
    selr = ctx.tlc("PageSelectMC", "PageSelect_gen_rep.cfg", workers=1, collect=True, timeout=1800)
    life = ctx.tlc("LifecycleMC", "Lifecycle_gen.cfg" if q else "Lifecycle_gen_thorough.cfg", workers=1, collect=True, count=False, timeout=1800)
    # every history of three operations with every public operation by name (15 terminal, 3 non-terminal ones)
    via = ctx.tlc("LifecycleMC", "Lifecycle_gen_via.cfg", workers=1, collect=True, count=False, timeout=1800)
    ctx.extra["lifecycle_histories_by_operation"] = len(via["cases"])
    if not sel["cases"] or not life["cases"] or not via["cases"]:
        raise vlib.MachineryError("no cases")
    ctx.exhaustive = True
    ctx.extra["selection_cases"] = len(sel["cases"])
    ctx.extra["lifecycle_histories"] = len(life["cases"])
    ctx.sample(sel["cases"][len(sel["cases"]) // 2])
    ctx.sample(life["cases"][len(life["cases"]) // 2])
    r1 = absorb(ctx, ctx.run_driver(["c10", "select"], sel["cases"]))
    r2 = absorb(ctx, ctx.run_driver(["c10", "life"], life["cases"] + via["cases"]))
    # the option-only histories again on a document of every other format (descriptor accounting, no panic)
    r1 += absorb(ctx, ctx.run_driver(["c10", "lifefmt"], life["cases"] + (via["cases"][::7] if q else via["cases"])))
    ctx.extra["selection_cases_under_options"] = len(selo["cases"])
    ctx.extra["selection_cases_repeated_by_operation"] = len(selr["cases"])
    r1 += absorb(ctx, ctx.run_driver(["c10", "selectopts"], selo["cases"] + selr["cases"]))
    mach = [r for r in r1 + r2 if (r.get("sig") or "").startswith("MACHINERY")]
    if mach:
        raise vlib.MachineryError(mach[0]["what"])
    events = []
    segs = 0
    for r in r2:
        if r["ok"] and r.get("events"):
            events.append({"event": "reset"})
            events += r["events"]
            segs += 1
    if events:
        tv = ctx.validate_trace("LifecycleTrace", "LifecycleTrace.cfg", events)
        if tv["accepted"]:
            ctx.traces_validated += segs
        else:
            ev = events[tv["depth"] - 1] if 0 < tv["depth"] <= len(events) else None
            ctx.violation("C10:life-trace", "LifecycleTrace rejects the recorded history at %s" % vlib.json.dumps(ev), {"event": ev})


def replay(ctx, rp):
    ctx.extra_prefixes = ["docs_min", "c20"]
    c = (rp.get("replay") or {}).get("case") or {}
    mode = "life" if "log" in c else ("selectopts" if "opts" in c else "select")
    if mode == "life" and (rp.get("replay") or {}).get("format"):
        mode = "lifefmt"
    return replay_generic(ctx, rp, ["c10", mode])
