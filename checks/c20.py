"""C20 — files are admitted by content; mismatches and DRM are refused (Admission.tla)."""
from lib import vlib
from checks.common import absorb, replay_generic

NOTES = """A decoy is a member no relationship refers to (e.g. word/decoy-unreferenced.xml inside an XLSX); a valid document stays
valid with it, in any ZIP member order (the ODF/EPUB 'mimetype' member stays first as both standards require). No/unknown extension:
only content detection is asserted. DRM: a rights file, or a spine content document encrypted with a non-obfuscation algorithm,
must be refused with ErrDRMProtected; an EPUB whose only encrypted resources are obfuscated fonts must open; every other combination
(encrypted images, content documents listed with an obfuscation algorithm) is left unspecified."""

EVIDENCE = dict(
    level="model_checking",
    rule="cases = the full decision tables of Admission.tla: 7 contents x 10 extensions x 3 letter cases x ZIP member orders x decoy "
         "members (1860 admit cases) and 1920 EPUB encryption configurations (rights file, subsets of {two spine documents, three fonts, "
         "image} x 5 algorithm URIs x 3 URI spellings); each is materialised as a minimal valid document and offered to "
         "format.DetectFromReader and tabula.Open(..).Text(); every observation is validated by AdmissionTrace.tla. "
         "Decoys also include the main part of an OOXML format with a package relationship naming it inside an ODF / EPUB package, and the signature bytes of another format behind the start of the file (HTML title / comment, stored first member of a package). Every decision is asked three times of ONE extractor (PageCount, Text, Text of a derived extractor) and must be the same each time. Non-trivial = anything other than the plain own-extension case.",
    assumptions=["the minimal documents (harness/cmd/driver/c20.go) are valid by ECMA-376 / ODF 1.2 / EPUB 3"],
)


def run(ctx):
    ctx.extra_prefixes = ["docs_"]
    gen = ctx.tlc("AdmissionMC", "Admission_gen.cfg", workers=1, collect=True)
    seen, cases = set(), []
    for c in gen["cases"]:
        c = dict(c)
        c["epub"] = dict(c["epub"])
        c["epub"]["enc"] = sorted(c["epub"].get("enc", []))
        k = vlib.json.dumps(c, sort_keys=True)
        if k not in seen:
            seen.add(k)
            cases.append(c)
    if not cases:
        raise vlib.MachineryError("no cases")
    ctx.exhaustive = True
    ctx.extra["decision_table_rows"] = len(cases)
    ctx.sample(cases[100])
    ctx.sample([c for c in cases if c["mode"] == "drm"][77])
    res = absorb(ctx, ctx.run_driver(["c20", "replay"], cases))
    mach = [r for r in res if (r.get("sig") or "").startswith("MACHINERY")]
    if mach:
        raise vlib.MachineryError(mach[0]["what"])
    events = [e for r in res if r["ok"] for e in r.get("events", [])]
    if events:
        tv = ctx.validate_trace("AdmissionTrace", "AdmissionTrace.cfg", events)
        if tv["accepted"]:
            ctx.traces_validated += len(events)
        else:
            ev = events[tv["depth"] - 1] if 0 < tv["depth"] <= len(events) else None
            ctx.violation("C20:trace", "AdmissionTrace rejects %s" % vlib.json.dumps(ev), {"event": ev})


def replay(ctx, rp):
    ctx.extra_prefixes = ["docs_"]
    return replay_generic(ctx, rp, ["c20", "replay"])
