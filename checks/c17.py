"""C17 — spreadsheet cells land at their addressed grid position; the A1 codec is a
bijection (SheetRef.tla, Sheet.tla, SheetTrace.tla)."""
import os
from lib import vlib
from checks.common import absorb, replay_generic
from checks import c17_pkgaudit as audit

NOTES = """Interpretation choices (read generously, see BUILDING.md rule 1):
* 'displayed value' = the cached/stored value of the cell as a spreadsheet shows it with the General
  format: string tokens verbatim, booleans TRUE/FALSE (case-insensitive), error literals verbatim,
  integers verbatim. No number formats, dates or styles are generated.
* sheet grid (xlsx.Sheet.Rows/Cell/CellByRef) and tab-separated text are absolute: row r is line r,
  column c is field c (first sheet). In the text of a multi-sheet workbook later sheets follow below;
  how many lines separate them is left open: field c must be exact, rows are relative to the block.
* Markdown table and model table may trim empty leading/trailing rows and columns: one non-negative
  translation per sheet is allowed, the relative positions of all cells must be kept, nothing else may
  be shown. The delimiter row of the Markdown table is not a data row.
* merged regions: covered positions must be blank in every view (grid, Tables(), text, Markdown, model) wherever the
  region lies relative to the populated grid and WHETHER OR NOT the covered cells carry (stale) values in the file:
  CT_Worksheet does not forbid a value in a covered cell and writers that merge without clearing produce such files;
  a spreadsheet shows only the top-left value. In the grid 'blank' means Cell.Value == "" (the field is documented as
  "the cell's display value"); RawValue and the IsMerged flag are free to keep what the file said.
* merge metadata is asserted as far as the API documents it: every cell of a declared region that lies inside the
  grid is flagged IsMerged, the top-left cell IsMergeRoot, nothing else is flagged; MergeRows x MergeCols of the root and
  RowSpan x ColSpan of the model cell at the root's place equal the region's size or that size clipped to the extent of
  the grid / table (both accepted); regions whose top-left cell lies outside the grid / the trimmed table are not
  asserted. Tables() is read as header row + data rows with the same free translation as the Markdown table.
* shared strings: the table may hold items nobody references, empty items <si/> (CT_Rst has no required child; a cell
  pointing at one shows nothing) and several rich-text items in any order relative to the cells.
* histories (SheetHistory.tla): every history of <= 3 calls out of {Text, TextWithOptions(sheet selection incl. reordered,
  headers, delimiter), Markdown, MarkdownWithOptions(selection), MarkdownWithRAGOptions(metadata, TOC), Document, Tables,
  Sheet(i), SheetNames/SheetCount/PageCount} on ONE xlsx.Reader, and {Text, ToMarkdown, Document, PageCount} on ONE tabula
  Extractor, over workbooks with stale covered values, several rich-text shared strings, an empty shared item, three
  sheets and content away from A1. Each call must (b) return byte for byte what the same call returns on a freshly
  opened object and (a) present the spec's cells for the selected sheets in the selected order. "=== name ===" header
  lines of IncludeHeaders are not data lines.
* the XML spelling of workbook.xml, its relationships and of the <c> attributes (r / s / t in any order, single
  quotes, <c ...></c>, another prefix for the relationships namespace, an ignorable foreign id attribute on <sheet>,
  comments between entries, no XML declaration / a byte order mark) never matters; some layouts use it.
* ENTRY POINTS (audit). Views of a sheet's cells, all driven:
    xlsx.Reader: Sheet(i), SheetByName, SheetNames, SheetCount, PageCount, Text, TextWithOptions (Sheets, IncludeHeaders,
      Delimiter, ExcludeHeaders, ExcludeFooters), Markdown, MarkdownWithOptions (Sheets), MarkdownWithRAGOptions (metadata,
      TOC), Document, Tables + ParsedTable.ToText / ToMarkdown; Sheet.Rows / Cell / CellByRef / RowCount / ColCount /
      MaxRow / MaxCol / MergedRegions; Cell.Value / IsEmpty / IsMerged / IsMergeRoot / MergeRows / MergeCols.
    tabula.Extractor over an .xlsx file: Text, ToMarkdown, ToMarkdownWithOptions, Document, Chunks, ChunksWithConfig,
      PageCount, ExcludeHeaders/Footers().Text, Pages(k) / PageRange(a,b) selections.
  Pages / PageRange: the statement says nothing about selections (that is C10): a selection must show the selected sheet
  alone or - where the format does not take selections, as on the current tree - the whole workbook in order; anything
  else is a violation. Extra views rotate over the cases: one per case in the quick tier, two per case in the thorough tier.
  NOT observable for a workbook: Fragments, Lines, Paragraphs, ReadingOrder, Analyze, Headings, Lists, Blocks, Elements,
  IsCharacterLevel, IsMultiColumn (PDF only: they return an error), Reader.Metadata / Cell.RawValue / Formula /
  StyleIndex / Type (no displayed value), tabula.FromReader (PDF readers only).
* value alphabet: string values may end in a character the Markdown view has to escape or fold: | \ * _ ` < or a line
  break (token + character + "z"). The displayed value is that exact string in the grid, Tables(), the text and the
  model; the Markdown views show it up to Markdown's own escaping (backslash before ASCII punctuation, entities, a line
  break folded to a space) and no view may change what the reader holds. Sheets with a line break inside a value are
  not asserted in the tab-separated text views (the line structure is ambiguous there). Tabs and leading / trailing
  spaces are not generated.
* ODT/DOCX/PPTX table spans are not part of C17's statement (spreadsheets only) and are not checked here.
* generated files are valid ECMA-376: <row> without r (optional attribute) but cells with full
  references; rows and cells in any order (the schema does not order them); inline strings with
  rich-text runs (CT_Rst allows r in <is>); cells without r are NOT generated (no reference to honour).
"""

EVIDENCE = dict(
    level="model_checking",
    rule="(1) codec: every column A..ZZ x rows {1,9,10,200} in both directions (TLC proves the bijection on SheetRef.tla, "
         "refutes the positional variant) replayed on ColumnToIndex/IndexToColumn/CellRef/ParseCellRef/ParseRangeRef; "
         "(2) every reachable state of Sheet.tla (one state = one workbook file: cells in file order, merges, <= 2 sheets, "
         "10 cell kinds, offsets A1 / Y8, row-r and shared-string layouts), every SET of populated cells of a 3x3 window x every rectangle "
         "as merged region (roots in first/interior/last populated row and column, regions beyond the extent, stale values in covered cells; "
         "thorough: ordered pairs of regions and a 3x4 window), every order of up to 4 shared-string items (several rich-text items, "
         "plain items, empty <si/> items, unused items) plus -simulate workbooks in a 4x4 window up to ZZ200 "
         "is rendered by an independent writer and read through xlsx.Open (cells, merge flags, Tables()), Text(), ToMarkdown(), Document() "
         "(cells and spans); TLC also refutes the reader that ignores regions anchored on the last populated row/column; "
         "(3) random larger workbooks recorded from the real code are validated by SheetTrace.tla. Non-trivial = workbook with "
         "a multi-letter column, a merged region or out-of-order rows/cells (codec: multi-letter columns); distinct by case text.",
    assumptions=["number formats / styles / dates are not generated (General format, integers only)",
                 "cells without an r attribute are not generated; overlapping merged regions are not generated",
                 "TLC 1.8.0 + CommunityModules (Json) and the harness writer ooxmlw (audited per run with python zipfile/xml.etree) are trusted"],
)

INPUT_EVENTS = ("Reset", "Merge", "Write", "NewSheet")


def _selftest(ctx, cases):
    """Writer audit: python re-reads a few generated workbooks."""
    res = ctx.run_driver(["c17", "selftest"], cases)
    for r in res:
        info = r.get("replay") or {}
        try:
            decl = [("Sheet%d" % (i + 1), "xl/worksheets/sheet%d.xml" % (i + 1)) for i in range(len(info["cells"]))]
            audit.audit_xlsx(info["path"], info["members"], declared=decl, cells=info["cells"])
        except audit.AuditError as e:
            raise vlib.MachineryError("writer self-test failed (xlsx): %s" % e)
        except Exception as e:  # unreadable by python at all
            raise vlib.MachineryError("writer self-test failed (xlsx): %r" % e)
    ctx.extra["writer_selftest_files"] = len(res)


def _validate_segments(ctx, events, max_report=3):
    """TLC trace validation; a rejected segment is reported, dropped and the rest re-validated."""
    segs = []
    for e in events:
        if e["event"] == "Reset" or not segs or (e["event"] == "Ref" and segs[-1][0]["event"] != "Ref"):
            segs.append([])
        segs[-1].append(e)
    reported = 0
    while segs:
        flat = [e for s in segs for e in s]
        tv = ctx.validate_trace("SheetTrace", "SheetTrace.cfg", flat)
        if tv["accepted"]:
            ctx.traces_validated += sum(1 for s in segs if s and s[0]["event"] == "Reset")
            return
        line = tv["depth"]
        # locate the segment of the first unexplainable line
        k, n = 0, 0
        while k < len(segs) and n + len(segs[k]) < line:
            n += len(segs[k])
            k += 1
        if k >= len(segs) or tv.get("inv_violated"):
            raise vlib.MachineryError("SheetTrace: cannot locate rejected line %d\n%s" % (line, tv["out"][-1500:]))
        ev = segs[k][line - n - 1]
        if ev["event"] in INPUT_EVENTS:
            raise vlib.MachineryError("SheetTrace rejects an INPUT event (the harness generated an invalid workbook): %s" % vlib.json.dumps(ev))
        hint = segs[k][0].get("hint") or ""
        if ev["event"] == "Ref":
            # naming only: which direction of the logged conversion is off
            n, letters = ev.get("idx", 0), []
            while n > 0:
                letters.insert(0, (n - 1) % 26 + 1)
                n = (n - 1) // 26
            sig = "C17:codec:" + ("index-to-letters" if letters != ev.get("col") else "letters-to-index")
        elif hint:
            sig = "C17:" + hint
        else:
            sig = "C17:%s:trace-%s" % (ev.get("view", "?"), ev["event"].lower())
        ctx.violation(sig, "SheetTrace rejects the recorded execution at event %s: the real code shows something the "
                           "workbook does not hold at that position (or misses a cell)" % vlib.json.dumps(ev),
                      {"request": segs[k][0].get("request"), "seed": ctx.seed, "rejected_event": ev,
                       "trace_segment": segs[k][:line - n][-60:]})
        reported += 1
        del segs[k]
        if reported >= max_report:
            ctx.extra["trace_segments_not_validated"] = sum(1 for s in segs if s and s[0]["event"] == "Reset")
            return


def run(ctx):
    q = ctx.tier == "quick"
    # ---- R1: model checking -------------------------------------------------
    codec = ctx.tlc("SheetRefMC", "SheetRef_mc.cfg", collect=True, workers=1 if q else 4)
    ctx.tlc("SheetRefMC", "SheetRef_mc_impl.cfg", expect_violation=True)
    ctx.tlc("SheetMC", "Sheet_mc_quick.cfg" if q else "Sheet_mc_thorough.cfg", timeout=3000)
    ctx.tlc("SheetMC", "Sheet_mc_impl.cfg", expect_violation=True)
    # merged regions against the populated grid: every set of populated cells of a 3x3 window x every
    # rectangle (thorough: and every ordered pair of disjoint rectangles) as merged region
    # (checked in the same run that emits those workbooks, see Sheet_gen_merge_*.cfg below)
    ctx.tlc("SheetMC", "Sheet_mc_impl_merge.cfg", expect_violation=True)
    ctx.exhaustive = True
    # ---- R2: cases ------------------------------------------------------------
    gen = ctx.tlc("SheetMC", "Sheet_gen_quick.cfg" if q else "Sheet_gen_thorough.cfg", workers=1 if q else 8,
                  collect=True, count=False, timeout=3000)
    sim = ctx.tlc("SheetMC", "Sheet_sim.cfg", workers=1, simulate=150 if q else 8000, depth=12,
                  collect=True, count=False, timeout=3000)
    mg = ctx.tlc("SheetMC", "Sheet_gen_merge_quick.cfg" if q else "Sheet_gen_merge_thorough.cfg", workers=8,
                 collect=True, timeout=3000)
    if not q:
        tall = ctx.tlc("SheetMC", "Sheet_gen_merge_tall.cfg", workers=8, collect=True, count=False, timeout=3000)
        mg["cases"] += tall["cases"]
    # shared string table: 1..4 cells over rich / plain / empty-item references x every order of the items x paddings
    sst = ctx.tlc("SheetMC", "Sheet_gen_sst.cfg", workers=8, collect=True, count=False, timeout=3000)
    ctx.extra["workbooks_shared_strings"] = len(sst["cases"])
    mg["cases"] += sst["cases"]
    if not mg["cases"] or not sst["cases"]:
        raise vlib.MachineryError("TLC emitted no merge-position / shared-string cases")
    ctx.extra["workbooks_merge_positions"] = len(mg["cases"])
    seen, cases = set(), []
    for c in gen["cases"] + mg["cases"] + sim["cases"]:
        k = vlib.json.dumps(c, sort_keys=True)
        if k not in seen:
            seen.add(k)
            cases.append(c)
    if not codec["cases"] or not gen["cases"] or not sim["cases"]:
        raise vlib.MachineryError("TLC emitted no cases")
    ctx.extra["codec_cases"] = len(codec["cases"])
    ctx.extra["workbooks_exhaustive"] = len(gen["cases"])
    ctx.extra["workbooks_simulated"] = len(cases) - len(gen["cases"]) - len(mg["cases"])
    # writer audit on a few of them (first, middle, a simulated one)
    _selftest(ctx, [cases[0], cases[len(gen["cases"]) // 2], cases[len(gen["cases"]) - 1], cases[-1], cases[-2],
                    mg["cases"][len(mg["cases"]) // 2], mg["cases"][-1]])
    ctx.sample({"codec": codec["cases"][len(codec["cases"]) // 3]})
    big = max(cases[len(gen["cases"]) + len(mg["cases"]):], key=lambda c: c["ncells"])
    ctx.sample({"workbook": {"off": big["off"], "rowR": big["rowR"], "sheets": [
        {"rows": [[(cl["ref"], cl["t"]) for cl in r["cells"]] for r in s["rows"]], "merges": [m["rect"] for m in s["merges"]],
         "expected_cells": s["cells"]} for s in big["sheets"]]}})
    absorb(ctx, ctx.run_driver(["c17", "codec"], codec["cases"]), label="codec")
    absorb(ctx, ctx.run_driver(["c17", "replay"], cases), label="wb")
    # ---- R3: recorded executions ----------------------------------------------
    nreq, per, cells = (8, 5, 20) if q else (40, 10, 40)
    reqs = [{"n": per, "cells": cells, "wide": (i % 2 == 1), "refs": 30, "salt": i} for i in range(nreq)]
    rec = ctx.run_driver(["c17", "record"], reqs)
    events = []
    for i, r in enumerate(rec):
        ev = r.get("events") or []
        if not ev:
            raise vlib.MachineryError("record driver logged no events")
        for e in ev:
            if e["event"] == "Reset":
                e["request"] = reqs[i]
        events += ev
        ctx.evaluations += r.get("evals", 0)
    ctx.extra["trace_events"] = len(events)
    _validate_segments(ctx, events)
    _histories(ctx, q)
    ctx.notes.append(NOTES)


def _histories(ctx, q):
    """Purity of rendering (SheetHistory.tla): histories of calls on ONE xlsx.Reader / one tabula Extractor."""
    gen = ctx.tlc("SheetHistoryMC", "SheetHistory_mc_quick.cfg" if q else "SheetHistory_mc_thorough.cfg", workers=8,
                  collect=True, timeout=1800)
    ctx.tlc("SheetHistoryMC", "SheetHistory_mc_impl.cfg", workers=1, expect_violation=True)
    books = {c["id"]: c["book"] for c in gen["cases"] if c.get("kind") == "book"}
    cases = []
    for c in gen["cases"]:
        if c.get("kind") == "history":
            c["book"] = books[c.pop("bookid")]
            cases.append(c)
    if not cases:
        raise vlib.MachineryError("SheetHistoryMC emitted no histories")
    ctx.extra["histories"] = len(cases)
    c0 = cases[len(cases) // 2]
    ctx.sample({"history_on_one_" + c0["rd"]: [[c["op"], c["sel"], c["view"]] for c in c0["calls"]]})
    absorb(ctx, ctx.run_driver(["c17", "history"], cases), label="hist")
    reqs = [{"n": 4, "cells": 10, "calls": 6 if q else 10, "salt": i} for i in range(8 if q else 60)]
    rec = ctx.run_driver(["c17", "histrecord"], reqs)
    events = []
    for r in rec:
        ctx.evaluations += r.get("evals", 0)
        events += r.get("events") or []
    if not events:
        raise vlib.MachineryError("history record driver logged no events")
    ctx.extra["history_trace_events"] = len(events)
    tv = ctx.validate_trace("SheetHistoryTrace", "SheetHistoryTrace.cfg", events)
    if tv["accepted"]:
        ctx.traces_validated += sum(1 for e in events if e["event"] == "Open")
        return
    line = tv["depth"]
    ev = events[line - 1] if 0 < line <= len(events) else None
    if not ev or ev["event"] == "Open":
        raise vlib.MachineryError("SheetHistoryTrace rejects event %d (%s): the history generator wrote an invalid workbook"
                                  % (line, vlib.json.dumps(ev)[:400]))
    start = max(i for i in range(line) if events[i]["event"] == "Open")
    before = [e.get("op") for e in events[start + 1:line - 1]]
    ctx.violation("C17:history-trace:%s:%s" % (events[start].get("rd"), ev.get("op")),
                  "SheetHistoryTrace rejects call %s on one %s after %s: the cells read back are not what a freshly opened reader presents: %s"
                  % (ev.get("op"), events[start].get("rd"), before, vlib.json.dumps(ev)[:600]),
                  {"trace_segment": events[start:line], "rejected_line": line})


def replay(ctx, rp):
    r0 = rp.get("replay") or {}
    if isinstance(r0, dict) and "request" in r0 and "case" not in r0:
        # a trace violation: record the same request again and validate it
        ctx.seed = int(r0.get("seed", ctx.seed))
        rec = ctx.run_driver(["c17", "record"], [r0["request"]])
        events = [e for r in rec for e in (r.get("events") or [])]
        before = len(ctx.violations)
        _validate_segments(ctx, events)
        if len(ctx.violations) > before:
            for v in ctx.violations[before:]:
                print("REPRODUCED sig=%s: %s" % (v["sig"], v["what"]))
            print("VIOLATION property=%s replay=(replayed)" % ctx.prop)
            return 1
        print("not reproduced: the recorded request passes on the current tree")
        return 0
    cases = [r["case"] for r in [r0] + list(rp.get("more") or []) if isinstance(r, dict) and "case" in r]
    if cases and cases[0].get("kind") == "history":
        return replay_generic(ctx, rp, ["c17", "history"])
    if cases and "dir" in cases[0]:
        return replay_generic(ctx, rp, ["c17", "codec"])
    return replay_generic(ctx, rp, ["c17", "replay"])
