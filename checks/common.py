"""Shared steps of the per-property checks."""
import json
from lib import vlib


def absorb(ctx, results, cases=None, label=""):
    """Fold driver results into the context: counters, samples, violations."""
    keys = set()
    for r in results:
        ctx.evaluations += r.get("evals", 1) or 1
        if r.get("nontrivial") and r.get("key") is not None:
            keys.add(r["key"])
        elif r.get("nontrivial"):
            keys.add("%s#%d" % (label, r["case"]))
        if not r["ok"]:
            ctx.violation(r.get("sig") or r.get("clause") or "unknown", r.get("what", ""), r.get("replay"))
    ctx._keys = getattr(ctx, "_keys", set()) | keys
    ctx.nontrivial = len(ctx._keys)
    return results


def replay_generic(ctx, rp, driver_args):
    """Re-run the abstract case stored in a replay file."""
    cases = []
    for r in [rp.get("replay")] + list(rp.get("more") or []):
        if isinstance(r, dict) and "case" in r:
            cases.append(r["case"])
    if not cases:
        print("replay file has no case")
        return 2
    res = ctx.run_driver(driver_args, cases)
    bad = [r for r in res if not r["ok"]]
    for r in bad:
        print("REPRODUCED sig=%s: %s" % (r.get("sig"), r.get("what")))
    if bad:
        print("VIOLATION property=%s replay=%s" % (ctx.prop, "(replayed)"))
        return 1
    print("not reproduced: %d case(s) pass on the current tree" % len(cases))
    return 0
