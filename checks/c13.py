"""C13 — splitting respects the size limit and never corrupts text
(Splitter.tla, SplitterMC.tla, SplitterProf.tla, SplitterTrace.tla, Overlap.tla, OverlapMC.tla, OverlapTrace.tla, OverlapReuse.tla)."""
import copy, json, os, random, shutil
from concurrent.futures import ThreadPoolExecutor
from lib import vlib
from checks.common import absorb

EVIDENCE = dict(
    level="model_checking",
    rule="(1) every text of <= MaxChars characters over {1-byte letter, 3-byte letter, space, sentence end, newline} x limits x "
         "the five size units (exhaustive) is split by the real SizeCalculator.SplitToSize; (2) TLC-enumerated profiles of long "
         "texts (word length x bytes per character x separator, <= 2 segments) and probe texts (ASCII prose with a break every "
         "10 bytes whose only sentence ends lie at the limit position + d1 and + d2, d1 in {-150,-100,-99,-50,-1,0,none}, d2 in "
         "{1,2,49,50,51,99,100,150,none}: just outside, at the edges of and inside the search windows) x the size configurations "
         "{characters 200/257} + {tokens 200/231} x TokensPerChar {0.1, 0.25, 0.5, 1.0} (all 630 probes run, profiles sampled), sweep texts whose byte length and character count differ by 1..15 around "
         "the maximum (4752 cases, 1600 sampled in quick), and random "
         "profiles (all units, limits down to 1) go through SplitToSize, ChunkDocumentWithConfig and NewChunkerWithConfig().Chunk; "
         "(3) TLC-enumerated and random overlap configurations (3 chunks x strategy x size x bounds x PreserveWords x heading "
         "context) go through GenerateOverlap, ApplyOverlapToChunks and ChunkWithOverlapEnabled. Every call is one trace event "
         "judged by SplitterTrace.tla / OverlapTrace.tla; reuse: one SizeCalculator / OverlapGenerator per case answers several texts "
         "(Reuse events: equal to a fresh object's answer) and every ApplyOverlapToChunks call, also a second one on the same chunks, "
         "leaves a Frame event (fields changed per chunk). Non-trivial = text that needed >= 1 split, or a non-empty overlap; "
         "distinct by abstract case.",
    assumptions=["pieces are located in the original text by their non-white bytes (white space is not conserved by design)",
                 "a call that does not return within 20 s counts as non-terminating",
                 "TLC 1.8.0 and the CommunityModules Json/SequencesExt modules are trusted"],
)

NOTES = """Interpretation choices (soundness first):
* Characters: a piece's size is the number of Unicode characters of the piece itself without surrounding white space (the
  code counts bytes, which is never smaller; the extent of the piece in the original text is NOT used, because a chunker may
  legitimately replace "\n\n" between sentences by one space), tokens = characters div (1/TokensPerChar).  The bound is only asserted for units characters/tokens, a hard maximum
  >= 200 and texts in which every stretch without a 1-byte space/newline is < 50 bytes.
* The size measure is ONE function: what "size in unit u" means is the library's own SizeCalculator.Calculate(text).  A piece is
  judged twice for a hard character / token maximum (same promise: maximum >= 200, a break at least every 50 bytes): by its
  Unicode characters (the weakest absolute reading) AND by Calculate(piece) in the configured unit (lm), so a library that
  counts characters as bytes must keep pieces within the maximum in bytes, one that counts runes within it in runes - but not
  one measure for the loop and another for Calculate / Check.  Word / sentence / paragraph maxima stay unbounded as the
  property says; their metric is still reported and compared across accessors.
* Accessor agreement (Metrics events, on every probe / sweep / profile text and on its last two pieces): GetSize(text, u) for
  all five units and Check(text).Metrics equal Calculate(text); IsAboveMax, ExceedsLimit(text, Max) and Check's hard-maximum
  verdict equal (metric > max); IsBelowMin equals (metric < min).  A disagreement is reported as C13:metric-*:size-accessors.
* Sweeps: cuts x whole pieces of 10-byte ASCII words, then a last segment of max + d bytes (d in -2..15) of which e in {1,2,3,5}
  characters are 2, 3 or 4 bytes wide at its head, across the limit position, or at its tail - byte length and character count
  fall on different sides of the maximum for the whole text and for the remainder after one and two cuts; through SplitToSize,
  ChunkDocumentWithConfig and (characters) NewChunkerWithConfig().Chunk.  tabula's ChunksWithConfig is not driven here: it needs
  a PDF and the layout stage re-flows the text, so exact byte windows cannot be placed (not cheap, not covered).
* Sentence shapes: every text of <= MaxChars characters over {letter, 3-byte letter, space, sentence end ('.', '!', '?' in
  turn), newline} is, for the unit characters, also given as one paragraph to NewChunkerWithConfig(MaxChunkSize = limit) and
  ChunkDocumentWithConfig - with limits 1..6 every text is an oversized element, so the sentence packing (splitIntoSentences)
  sees every arrangement, e.g. a sentence end followed at once by a capital and a period at the start, in the middle and at
  the end ("A.B.", ".A!").  Profiles add the separators "word.A. " and "word U.S.A. ".  A panic in any of the calls is a
  violation of its own: C13:panic:<api>.
* Token maxima: the budget is the configured one - a piece holds at most max tokens where tokens = characters div
  (1 / TokensPerChar); the trace carries cpt = 1 / TokensPerChar (10, 4, 2, 1) and the limit position of the probes is
  max x cpt bytes.  The overlap dimension is independent of the size configuration in the code (the overlap generator never
  reads SizeConfig) and stays enumerated by OverlapMC.tla.
* Reuse: rag exposes no setters on SizeCalculator / OverlapGenerator (the configuration is fixed by the constructor), so
  reuse means one object asked about several texts (the text, a shorter, a longer, another of the same length, the first
  again; other methods called in between): every answer must equal a fresh object's.  ApplyOverlapToChunks is documented (by
  its code comments) to write the overlap into the Text of the chunks it is given and to update CharCount / WordCount /
  EstimatedTokens; the frame asserted is exactly that: no other field changes, the first chunk is untouched, every text
  still ends with the text that was given.  Applying it a second time to the same chunks is judged by the same contract
  relative to the texts the second call was given (the statement does not forbid a second overlap; it must not be anything
  but a bounded suffix of the given neighbour).
* White space: anything unicode.IsSpace; no-break and ideographic spaces are white but are not counted as break opportunities.
* Conservation is checked on bytes of non-white characters, in order; white space may be dropped or replaced.
* UTF-8: every input is valid UTF-8, so every piece and every overlap must be.
* Overlap: the text a chunk was given in front of its own content (after the optional "[section title]" context line) must be,
  white space aside, the end of the previous chunk's content as it was before any overlap was added; when non-empty its byte
  length must be >= MinOverlap and its character count <= MaxOverlap (the weakest reading of both bounds).
* rag.Chunker: MaxChunkSize is documented as the hard limit in characters, so the size bound is asserted for its sentence
  packing of a single oversized paragraph as well."""

SPLIT_FAMILY = {"SplitToSize": "split", "ChunkDocumentWithConfig": "split", "Chunker.Chunk": "sentence-packing"}


def _runs_desc(t, limit=8):
    names = {0: "letters", 1: "spaces", 2: "newlines", 3: "sentence ends"}
    parts = ["%d x %d-byte %s" % (r[2], r[0], names.get(r[1], "?")) for r in t[:limit]]
    return ", ".join(parts) + (" ..." if len(t) > limit else "")


def _sub_ctx(ctx, name):
    sub = os.path.join(ctx.scratch, "specs_" + name)
    shutil.copytree(ctx.specdir, sub)
    view = copy.copy(ctx)
    view.specdir = sub
    view.tlc_runs = []
    return view


def _validate(ctx, name, module, events, origin, describe):
    """Strict validation, then (if rejected) the diagnosis config; returns (accepted_events, violations)."""
    if not events:
        raise vlib.MachineryError("C13: no %s events" % name)
    view = _sub_ctx(ctx, name)
    tv = view.validate_trace(module, module + ".cfg", events)
    out = {"ok": len(events), "viol": [], "runs": view.tlc_runs}
    if tv["accepted"]:
        return out
    dv = view.validate_trace(module, module + "_diag.cfg", events)
    reports = [json.loads(json.loads(l)) for l in dv["out"].splitlines() if l.startswith('"{')]
    if not dv["accepted"] or not reports:
        raise vlib.MachineryError("%s rejected the trace at line %d but the diagnosis run gave no clause:\n%s"
                                  % (module, tv["depth"], dv["out"][-2000:]))
    out["ok"] = len(events) - len(reports)
    for rp in reports:
        ev = events[rp["line"] - 1]
        sig, what = describe(ev, rp["clause"])
        out["viol"].append((sig, what, {"mode": origin[rp["line"] - 1][0], "case": origin[rp["line"] - 1][1],
                                        "clause": rp["clause"], "observed": {k: v for k, v in ev.items() if k != "t"},
                                        "text_runs": ev.get("t", [])[:60]}))
    return out


def _reuse_desc(ev, clause):
    if ev["event"] == "Frame":
        return ("C13:frame:ApplyOverlapToChunks",
                "OverlapTrace rejects what ApplyOverlapToChunks (call %s on the same chunks) did to the chunks it was given (clause %s): "
                "changed fields per chunk %s, text still ends with the given text %s"
                % (ev.get("call"), clause, json.dumps(ev["changed"]), ev["kept"]))
    return ("C13:reuse:%s" % ev.get("api"),
            "call %s on a reused %s does not return what a fresh object returns for the same input" % (ev.get("call"), ev.get("api")))


def _split_desc(ev, clause):
    if ev["event"] == "Metrics":
        m = ev["m"]
        return ("C13:%s:size-accessors" % clause,
                "SplitterTrace rejects what the size accessors of one SizeCalculator (%s maximum %d) say about one text (%s, %d bytes, "
                "%d characters), clause %s: Calculate %s, GetSize %s, Check.Metrics %s [characters, tokens, words, sentences, paragraphs]; "
                "IsAboveMax %s, ExceedsLimit(Max) %s, Check says over the hard maximum %s, IsBelowMin %s"
                % (ev["unit"], ev["limit"], ev.get("what"), ev.get("bytes"), ev.get("chars"), clause, m["calc"], m["get"], m["check"],
                   m["above"], m["exceeds"], m["checkOver"], m["below"]))
    if ev["event"] != "Split":
        return _reuse_desc(ev, clause)
    fam = SPLIT_FAMILY.get(ev.get("api"), ev.get("api"))
    sig = "C13:%s:%s" % (clause, fam)
    sizes = [r[1] - r[0] for r in ev["r"]]
    what = ("SplitterTrace rejects %s with %s maximum %d (clause %s): text = %s%s; pieces at %s (byte lengths %s, characters %s, the library's own metric %s), valid UTF-8 %s"
            % (ev.get("api"), ev["unit"], ev["limit"], clause, _runs_desc(ev["t"]),
               (" = %r" % ev["text"]) if "text" in ev else "", ev["r"][:8], sizes[:8], ev.get("pc", [])[:8], ev.get("lm", [])[:8], ev["valid"][:8]))
    return sig, what


OVERLAP_FAMILY = {"GenerateOverlap": "generate"}


def _overlap_desc(ev, clause):
    if ev["event"] != "Overlap":
        return _reuse_desc(ev, clause)
    api = ev.get("api", "?")
    sig = "C13:%s:overlap-%s" % (clause, OVERLAP_FAMILY.get(api.split(":")[0], "apply"))
    what = ("OverlapTrace rejects an overlap produced by %s (%s strategy, bounds %d..%d), clause %s: overlap of %d bytes / %d "
            "characters, valid UTF-8 %s, suffix of the previous chunk's own content %s; previous own content = %s"
            % (ev.get("api"), ev.get("strategy"), ev["min"], ev["max"], clause, ev["pbytes"], ev["pchars"], ev["valid"],
               ev["matched"], _runs_desc(ev["t"])))
    return sig, what


def _collect(results, mode, cases, kind):
    """events of the given kind with their origin (mode, case)."""
    evs, org = [], []
    for r in results:
        if not r["ok"]:
            continue
        case = cases[r["case"]] if cases is not None else {"seed_request": r["case"]}
        for e in r.get("events") or []:
            if (e["event"] == kind or (kind == "Overlap" and e["event"] == "Frame") or (kind == "Split" and e["event"] == "Metrics")
                    or (e["event"] == "Reuse" and (e.get("api") == "SizeCalculator") == (kind == "Split"))):
                evs.append(e)
                org.append((mode, case))
    return evs, org



def _tlc_retry(ctx, module, cfg, timeout, **kw):
    """ctx.tlc with a bounded wait and one retry: a TLC JVM that hangs (seen once, right after the initial states of a
    negative control with several workers) must not stall the check."""
    try:
        return ctx.tlc(module, cfg, timeout=timeout, **kw)
    except vlib.MachineryError as e:
        if "timeout" not in str(e):
            raise
        vlib.log("TLC %s/%s did not finish within %d s, retrying once" % (module, cfg, timeout))
        return ctx.tlc(module, cfg, timeout=timeout * 3, **kw)

def run(ctx):
    q = ctx.tier == "quick"
    rnd = random.Random(ctx.seed)
    r1 = [("SplitterMC", "Splitter_mc_quick.cfg" if q else "Splitter_mc_thorough.cfg", {}),
          ("SplitterMC", "Splitter_mc_pinned_live.cfg" if q else "Splitter_mc_pinned_live_thorough.cfg", {}),
          ("SplitterMC", "Splitter_mc_pinned.cfg", {"expect_violation": True}),
          ("SplitterMC", "Splitter_mc_nocap.cfg", {"expect_violation": True}),
          ("Overlap", "Overlap_mc.cfg", {}),
          ("Overlap", "Overlap_mc_text.cfg", {"expect_violation": True}),
          ("Overlap", "Overlap_mc_head.cfg", {"expect_violation": True}),
          ("Overlap", "Overlap_mc_keep.cfg", {"expect_violation": True}),
          # reuse of one generator (nothing retained between calls) and the frame of ApplyOverlapToChunks over two calls
          ("OverlapReuse", "OverlapReuse_mc.cfg", {}),
          ("OverlapReuse", "OverlapReuse_mc_memo.cfg", {"expect_violation": True}),
          ("OverlapReuse", "OverlapReuse_mc_first.cfg", {"expect_violation": True}),
          ("OverlapReuse", "OverlapReuse_mc_meta.cfg", {"expect_violation": True})]
    gens = [("SplitterMC", "Splitter_gen_quick.cfg" if q else "Splitter_gen_thorough.cfg"),
            ("SplitterProf", "SplitterProf_gen_quick.cfg" if q else "SplitterProf_gen.cfg"), ("OverlapMC", "OverlapMC_gen.cfg"),
            ("SplitterProf", "SplitterProf_probe.cfg"), ("SplitterProf", "SplitterProf_sweep.cfg")]
    with ThreadPoolExecutor(max_workers=5) as ex:
        f1 = [ex.submit(_tlc_retry, ctx, m, c, 300 if q else 3000, workers=1 if kw else 3, count=False, **kw) for m, c, kw in r1]
        fg = [ex.submit(_tlc_retry, ctx, m, c, 300 if q else 3000, workers=1, count=False, collect=True) for m, c in gens]
        for f, (_, _, kw) in zip(f1, r1):
            r = f.result()
            if not kw:
                ctx.states += r["distinct"]
                ctx.transitions += r["generated"]
        small, prof, ovl, probes, sweeps = [f.result()["cases"] for f in fg]
    ctx.exhaustive = True
    if not small or not prof or not ovl:
        raise vlib.MachineryError("TLC emitted no cases")
    nprof, novl = (900, 2000) if q else (6000, len(ovl))
    if not probes:
        raise vlib.MachineryError("TLC emitted no probe cases")
    # every probe (sentence ends placed around the limit position, for every unit x TokensPerChar x maximum) is run;
    # the profiles are sampled
    if not sweeps:
        raise vlib.MachineryError("TLC emitted no sweep cases")
    nsweep = 1600 if q else len(sweeps)
    prof = probes + rnd.sample(sweeps, min(nsweep, len(sweeps))) + rnd.sample(prof, min(nprof, len(prof)))
    ctx.extra["cases_probes"] = len(probes)
    ctx.extra["cases_sweeps"] = min(nsweep, len(sweeps))
    ovl = rnd.sample(ovl, min(novl, len(ovl)))
    ctx.extra.update(cases_small_texts=len(small), cases_profiles=len(prof), cases_overlap=len(ovl))
    ctx.sample({"small_text_case": small[len(small) // 2]})
    ctx.sample({"profile_case": prof[0]})
    ctx.sample({"overlap_case": ovl[0]})
    res_small = absorb(ctx, ctx.run_driver(["c13", "split"], small), label="split")
    res_prof = absorb(ctx, ctx.run_driver(["c13", "profile"], prof), label="profile")
    res_ovl = absorb(ctx, ctx.run_driver(["c13", "overlap"], ovl), label="overlap")
    nrec, per = (16, 12) if q else (64, 40)
    res_rec = absorb(ctx, ctx.run_driver(["c13", "record"], [{"n": per} for _ in range(nrec)]), label="record")
    res_orec = absorb(ctx, ctx.run_driver(["c13", "overlaprec"], [{"n": per * 2} for _ in range(nrec)]), label="overlaprec")
    jobs = []
    for name, res, mode, cases in (("split_small", res_small, "split", small), ("split_prof", res_prof, "profile", prof),
                                   ("split_rec", res_rec, "record", None)):
        evs, org = _collect(res, mode, cases, "Split")
        jobs.append((name, "SplitterTrace", evs, org, _split_desc))
    evs, org = _collect(res_ovl, "overlap", ovl, "Overlap")
    jobs.append(("ovl_cases", "OverlapTrace", evs, org, _overlap_desc))
    evs, org = _collect(res_orec, "overlaprec", None, "Overlap")
    jobs.append(("ovl_rec", "OverlapTrace", evs, org, _overlap_desc))
    with ThreadPoolExecutor(max_workers=5) as ex:
        futs = [ex.submit(_validate, ctx, n, m, e, o, d) for n, m, e, o, d in jobs]
        outs = [f.result() for f in futs]
    for (name, _, evs, _, _), o in zip(jobs, outs):
        ctx.traces_validated += o["ok"]
        ctx.tlc_runs.extend(o["runs"])
        ctx.extra["events_" + name] = len(evs)
        for sig, what, rp in o["viol"]:
            ctx.violation(sig, what, rp)
    long_ev = next((e for e in jobs[1][2] if e.get("npieces", 0) >= 3), None)
    if long_ev:
        ctx.sample({"split_event": {k: v for k, v in long_ev.items() if k != "t"}, "text": _runs_desc(long_ev["t"])})


def replay(ctx, rp):
    """Re-run the abstract case of a replay file through the driver mode that produced it and judge the events again."""
    todo = [r for r in [rp.get("replay")] + list(rp.get("more") or []) if isinstance(r, dict) and "case" in r and "mode" in r]
    if not todo:
        print("replay file has no case")
        return 2
    bad = 0
    for r in todo:
        if r["mode"] in ("record", "overlaprec"):
            print("case came from the seeded random recorder: re-run `VERIF_SEED=%s bin/vcheck C13 %s`" % (rp.get("seed"), rp.get("tier")))
            continue
        res = ctx.run_driver(["c13", r["mode"]], [r["case"]])
        for kind, module, desc in (("Split", "SplitterTrace", _split_desc), ("Overlap", "OverlapTrace", _overlap_desc)):
            evs, org = _collect(res, r["mode"], [r["case"]], kind)
            if not evs:
                continue
            o = _validate(ctx, "replay_" + kind, module, evs, org, desc)
            shutil.rmtree(os.path.join(ctx.scratch, "specs_replay_" + kind), ignore_errors=True)
            for sig, what, _ in o["viol"]:
                print("REPRODUCED sig=%s: %s" % (sig, what))
                bad += 1
    if bad:
        print("VIOLATION property=%s replay=%s" % (ctx.prop, "(replayed)"))
        return 1
    print("not reproduced: %d case(s) pass on the current tree" % len(todo))
    return 0
