"""C12 — RAG chunks cover the document once, in order, with true metadata
(Chunking.tla, ChunkingMC.tla, ChunkingTrace.tla, ChunkPack.tla, SectionTree.tla, ChunkReuse.tla)."""
import json, random
from concurrent.futures import ThreadPoolExecutor
from lib import vlib
from checks.common import absorb, replay_generic

EVIDENCE = dict(
    level="model_checking",
    rule="cases = every document TLC builds from the 9-letter alphabet {H1,H2,H3,P normal,P > max,L,T,I,new page} up to "
         "MaxLen letters in two page-numbering schemes (exhaustive; quick: gapped numbering for <= 3 letters), every document of <= 4 letters over {H1, one-word P, "
         "normal P, L(3), L(70), new page} (list introductions, oversized lists), plus -simulate documents over the wide alphabet "
         "(levels 1-6, twelve paragraph size classes, images without description, L(70), near-full list, up to 12 letters); "
         "every document of <= 3 (thorough 4) letters over the boundary alphabet {H1, P > max, P short (< min), P near-full, "
         "P = max, P = max+1, P = min-1, P = min, P = (max-2)/2, L(3), near-full list, new page}, whose byte lengths the harness "
         "derives exactly from the Max/Min of each configuration under test; each is materialised as a "
         "model.Document and chunked by rag.ChunkDocument, ChunkDocumentWithConfig (all presets + a 300/40 custom one), "
         "NewChunker().Chunk and NewChunkerWithConfig (600/50 and 240/40); non-trivial = document with >= 2 heading levels or a "
         "paragraph at/above the maximum or nearly filling a chunk; distinct by "
         "element sequence + page numbers. Random larger documents are validated only through ChunkingTrace.tla. "
         "Heading trees: every sequence of <= 7 (thorough 8) headings in which a heading goes at most one level deeper than "
         "its predecessor (levels 1-6, each on its own page with a one-word paragraph: >= 2 sibling sections at every depth "
         "1..6, 3 at depth 6 in thorough), plus <= 4 elements with skipped levels / bare headings; these, the simulated and the "
         "random documents are also chunked with ChunkerConfig.MinHeadingLevel 1, 2, 4, 5, 6 (the spec emits the expected chain "
         "for every MinHeadingLevel). "
         "Hollow elements: every document of <= 3 (thorough 4) letters over {H1, H2, P, L(3), hollow H, hollow P, hollow L, "
         "hollow T, image without description, new page} for both chunkers and every configuration; also in the simulated and "
         "random documents. "
         "Repeated texts: every document of <= 4 (thorough 5) letters over {G level 1/2 of a shared text, plain paragraph with "
         "that text, G level 1/2 with a text of its own, P, new page} for the element chunker and every size configuration. "
         "Reuse: every history of 2-3 calls over two documents, and two goroutines, on ONE chunker object per configuration "
         "(documents sampled from the cases above: deep heading trees, oversize paragraphs, lists at section ends), each result "
         "compared with a fresh object's and judged by the contract. "
         "PDF entry point: every document of <= 4 (thorough 5) letters over {H 18 pt, H 14 pt, P 3 lines, P 6 lines, L(3) "
         "bulleted/numbered, new page} plus -simulate documents (<= 3 pages, <= 5 elements per page) is rendered as positioned "
         "text (pdfdoc.BuildSimple) and read back through tabula.Open(pdf).Document() (page elements), .Chunks() and "
         ".ToMarkdown(); each of the three observations is judged by the same contract.",
    assumptions=["content identity is observed through unique word tokens scanned in chunk texts after removing whitespace",
                 "rag.Chunker (layout based) is only given documents its input can represent without loss: headings, "
                 "paragraphs, lists, per page in that order",
                 "TLC 1.8.0 and the CommunityModules Json/SequencesExt modules are trusted"],
)

NOTES = """Interpretation choices (soundness first):
* Unit of content = heading text, paragraph word, list item, table cell, image description.  Chunk texts are scanned for the
  unit tokens after deleting all whitespace, so splitting inside a word is not an alarm ("whitespace aside").
* Page range: PageStart <= PageEnd and both within [min page, max page] of the units of the chunk.
* Section path: must equal the chain of enclosing headings of at least one element that contributes a unit to the chunk
  (a chunk that spans sections may show any of them).  A heading encloses itself.
* rag.DocumentChunker puts headings into Text: coverage of headings is asserted on Text.
* rag.Chunker carries section headings (level <= MinHeadingLevel) as metadata (SectionPath/SectionTitle/TextWithContext), not
  in Text.  A heading therefore counts as contained in the first chunk whose SectionPath (or Text) shows it; headings deeper
  than MinHeadingLevel are documented to be content and may be missing from the path (both chains are accepted).
* rag.Chunker reads model.PageLayout, which keeps one list per kind: it is only run on documents where every page has its
  headings first, then paragraphs, then lists, and no tables/images (nothing else is observable from its input).
* Chunks without any content unit are not accepted (k >= 1 in the contract); documents never contain elements that would
  legitimately produce one.
* Paragraph sizes are symbolic classes in the spec (1 word, normal, > max, > 3 max, and the boundary classes short/near-full/
  = max/= max+1/= min-1/= min/half); the harness turns a class into words (classes 1-4) or into an exact byte length computed
  from the maximum and minimum chunk size of the configuration under test, padding the last token (never a word of its own).
  ChunkPack.tla is the byte-size model of the layout chunker's accumulate/flush/orphan-merge loop; its "drop" variant (a short
  pending piece that does not fit into the previous chunk is discarded) is the negative control for that class of change.
* Section path, strict rule: for rag.DocumentChunker the path of every chunk must be the full chain; for rag.Chunker with
  MinHeadingLevel = m it must be the chain over headings of level <= m (emitted by the spec for m = 1..6) or the full chain.
  SectionTitle, and the "[title]" line of TextWithContext when present, must name the innermost entry of the chunk's
  SectionPath (judged first; a chunk without path - preamble, heading-less document - is not judged on its title).
* Hollow elements (no content unit: heading / paragraph of white space, list without or with empty items, table without rows
  or with empty cells, image without description; empty pages): a chunker may or may not emit a chunk for one - neither is
  asserted.  A chunk without any unit is accepted exactly where a hollow element stands (all units before it consumed, none
  after it) and must then still satisfy the index / id / total clauses; its pages and path are not judged.  A hollow heading
  is a heading (it opens a section) but has no text: paths name it as -1 on both sides (NormPath).  The pages of hollow
  elements standing directly before, between or after a chunk's units are admissible for its page range (their white space
  may be part of the chunk text).  For rag.DocumentChunker, Layout.Headings omits hollow headings (it is only read to
  recognise paragraphs that repeat a heading text; a blank entry would turn every blank paragraph into a heading).
* Repeated texts (element path only): G = a heading given as a Paragraph element whose text Layout.Headings of ITS page lists
  (the "heading-like paragraph" of rag.DocumentChunker), R = a plain paragraph; elements of one text class show the same
  text on different pages (a contents page naming a section before / after the page with the real heading, the same title at
  two levels).  The contract is unchanged: G opens a section at its level, R does not, every element is its own unit - the
  k-th occurrence of a shared text in the chunk texts is the k-th element of the class.  A title that several elements share
  cannot name one of them, so both the expected and the observed path show such an entry as -(100 + class) (NormPath).  Two
  elements of one class on the same page are not generated: there the page's heading list cannot tell them apart.
* Reuse (ChunkReuse.tla): one DocumentChunker / Chunker object per configuration chunks A, B, A ... (every history of 2-3
  calls over two documents) and A, B from two goroutines sharing it (6 rounds); every result must be identical to a fresh
  object's result for the same document (units, indices, ids, pages, paths, totals, title) and is judged by the chunking
  contract as well.  Two extractors derived from one base (PageRange(1, n) twice) must each give the chunks of a fresh
  tabula.Open(pdf).Chunks().  Goroutine interleavings are sampled, not enumerated (the race detector is not used here).
* PDF entry point: only conservation, order and metadata are asserted - every word token exactly once and in document order
  in Document().Pages[*].Elements (each element = one "chunk" on its page; elements without any word, e.g. a stray marker, are
  not judged), in the chunk texts and in the Markdown (one "chunk"); chunk indices/ids/totals; page ranges.  Whether the layout
  heuristics call a line a heading or a list item is NOT asserted.  Section paths follow the weak rule of the contract (minor =
  0): every reported entry must be (the text of) a heading line of the document that does not come after the chunk's content;
  a path may omit headings.  Documents stay within what the heuristics can carry: single column, 14 pt line pitch, >= 26 pt
  between blocks, headings of one line at 18/14 pt, body at 10 pt, <= 5 blocks per page, <= 3 pages.
* Page numbers: model.Page.Number is the page the content came from; documents are built both by assigning Document.Pages
  and through Document.AddPage with the numbers preset (as extractor.go does)."""

# many short TLC runs: keep each JVM small (the default sizes GC and JIT threads for all cores)
JVM_SMALL = "-XX:ParallelGCThreads=2 -XX:CICompilerCount=2 -Xms256m"

SPEC2SIG = {"gap": "coverage", "coverage": "coverage", "contiguous": "order", "title": "path"}


def _segments(events):
    """[(start, end)) indices of Doc..Finish segments."""
    segs, start = [], None
    for i, e in enumerate(events):
        if e["event"] == "Doc":
            if start is not None:
                segs.append((start, i))
            start = i
    if start is not None:
        segs.append((start, len(events)))
    return segs


def _validate(ctx, events, label):
    """Strict trace validation; on rejection the diagnosis config names the clause of every bad segment."""
    if not events:
        raise vlib.MachineryError("C12: no trace events (%s)" % label)
    segs = _segments(events)
    tv = ctx.validate_trace("ChunkingTrace", "ChunkingTrace.cfg", events)
    if tv["accepted"]:
        ctx.traces_validated += len(segs)
        return
    if tv.get("inv_violated"):
        raise vlib.MachineryError("ChunkingTrace: an invariant of the contract failed on an accepted prefix:\n" + tv["out"][-2000:])
    dv = ctx.validate_trace("ChunkingTrace", "ChunkingTrace_diag.cfg", events)
    reports = []
    for line in dv["out"].splitlines():
        if line.startswith('"{'):
            reports.append(json.loads(json.loads(line)))
    if not dv["accepted"] or not reports:
        raise vlib.MachineryError("ChunkingTrace rejected the trace at line %d but the diagnosis run gave no clause:\n%s"
                                  % (tv["depth"], dv["out"][-2000:]))
    badsegs = set()
    for rp in reports:
        ln = rp["line"] - 1
        seg = next((s for s in segs if s[0] <= ln < s[1]), None)
        if seg is None:
            raise vlib.MachineryError("diagnosis line %d outside any segment" % rp["line"])
        badsegs.add(seg)
        doc = events[seg[0]]
        clause = SPEC2SIG.get(rp["clause"], rp["clause"])
        api, mode = doc.get("tag", "?:?").split(":")
        sig = "C12:%s:%s" % (clause, api)
        if clause == "page-range" and api == "elem":
            sig += ":" + mode
        ev = events[ln]
        ctx.violation(sig, "ChunkingTrace (%s) rejects %s of a %s run (%s pages) at trace line %d [clause %s, %d units consumed, "
                           "%d chunks so far]: %s" % (label, ev["event"], doc.get("cfg"), mode, rp["line"], rp["clause"],
                                                     rp["consumed"], rp["nchunks"], json.dumps(ev)[:300]),
                      {"via": "tracecase", "case": doc.get("case"), "clause": rp["clause"],
                       "rejected_line_in_segment": ln - seg[0] + 1,
                       "trace_segment": [{k: v for k, v in e.items() if k != "case"} for e in events[seg[0]:seg[1]]][:40]})
    ctx.traces_validated += len(segs) - len(badsegs)



def _tlc_retry(ctx, module, cfg, timeout, **kw):
    """ctx.tlc with a bounded wait and one retry: a TLC JVM that hangs (seen once, right after the initial states of a
    negative control with several workers) must not stall the check."""
    try:
        return ctx.tlc(module, cfg, timeout=timeout, **kw)
    except vlib.MachineryError as e:
        if "timeout" not in str(e):
            raise
        vlib.log("TLC %s/%s did not finish within %d s, retrying once" % (module, cfg, timeout))
        return ctx.tlc(module, cfg, timeout=timeout * 3, **kw)

def run(ctx):
    q = ctx.tier == "quick"
    # R1: the contract machine (any legal chunker), the implementation-shaped element walk with the contract's heading
    # stack, and the two pinned-tree variants TLC must refute (pop-by-length, shared path slices)
    jobs = [("ChunkingMC", "Chunking_mc_contract.cfg", {}),
            ("ChunkingMC", "Chunking_mc_quick.cfg" if q else "Chunking_mc_thorough.cfg", {}),
            ("ChunkingMC", "Chunking_mc_impl_len.cfg", {"expect_violation": True}),
            ("ChunkingMC", "Chunking_mc_impl_share.cfg", {"expect_violation": True}),
            # the packing loop of the layout chunker with byte sizes around Min/Max; the variant that discards a short
            # pending piece which does not fit into the previous chunk must be refuted
            ("ChunkPack", "ChunkPack_mc_quick.cfg" if q else "ChunkPack_mc_thorough.cfg", {}),
            ("ChunkPack", "ChunkPack_mc_drop.cfg", {"expect_violation": True}),
            # how the layout chunker gives sections their path: append(parent.Path, heading) shares backing arrays between
            # siblings (first at depth 4: H1 H2 H3 H4 H4) and must be refuted
            ("SectionTree", "SectionTree_mc.cfg", {}),
            ("SectionTree", "SectionTree_mc_append.cfg", {"expect_violation": True}),
            # one chunker object, several calls / two goroutines: walk state kept in the call is pure; kept in the object
            # and reset per call it is pure for one caller only; never reset it is not pure
            # hollow elements: the walk numbers their chunks like any other; dropping them after the index was taken
            # leaves holes and must be refuted
            ("ChunkingMC", "Chunking_mc_hollow.cfg", {}),
            ("ChunkingMC", "Chunking_mc_hollow_contract.cfg", {}),
            ("ChunkingMC", "Chunking_mc_hollow_drop.cfg", {"expect_violation": True}),
            ("ChunkReuseMC", "ChunkReuse_mc.cfg", {}),
            ("ChunkReuseMC", "ChunkReuse_mc_reset_seq.cfg", {}),
            ("ChunkReuseMC", "ChunkReuse_mc_reset_par.cfg", {"expect_violation": True}),
            ("ChunkReuseMC", "ChunkReuse_mc_carry.cfg", {"expect_violation": True})]
    with ThreadPoolExecutor(max_workers=12) as ex:
        futs = [ex.submit(_tlc_retry, ctx, m, c, 300 if q else 3000, workers=1 if kw else 3, count=False, jvm=JVM_SMALL, **kw)
                for m, c, kw in jobs]   # negative controls: one worker
        # R2 emission runs meanwhile, in a second pool (one JVM each, single worker for a stable order)
        def emit(cfg, **kw):
            return _tlc_retry(ctx, "ChunkingMC", cfg, 300 if q else 3000, workers=1, collect=True, count=False, jvm=JVM_SMALL, **kw)
        with ThreadPoolExecutor(max_workers=4) as ex2:
            e = {
                "gen": ex2.submit(emit, "Chunking_gen_quick.cfg" if q else "Chunking_gen_thorough.cfg"),
                # quick: page numbers with gaps (3, 5, 7) only for documents of <= 3 letters
                "gap": ex2.submit(emit, "Chunking_gen_quick_gap.cfg") if q else None,
                "lists": ex2.submit(emit, "Chunking_gen_lists.cfg"),
                "bound": ex2.submit(emit, "Chunking_gen_bound_quick.cfg" if q else "Chunking_gen_bound_thorough.cfg"),
                # heading trees: sibling sections at every depth 1..6 (one-word paragraphs), plus skipped levels / bare headings
                "tree": ex2.submit(emit, "Chunking_gen_tree_quick.cfg" if q else "Chunking_gen_tree_thorough.cfg"),
                "skip": ex2.submit(emit, "Chunking_gen_tree_skip.cfg"),
                # hollow elements of every kind at the start / in the middle / at the end of documents and sections
                "hollow": ex2.submit(emit, "Chunking_gen_hollow_quick.cfg" if q else "Chunking_gen_hollow_thorough.cfg"),
                "pdfgen": ex2.submit(emit, "Chunking_gen_pdf_quick.cfg" if q else "Chunking_gen_pdf_thorough.cfg"),
                "pdfsim": ex2.submit(emit, "Chunking_sim_pdf.cfg", simulate=60 if q else 1500, depth=13),
                "hflush": ex2.submit(emit, "Chunking_gen_hollow_flush.cfg"),
                # repeated texts across pages: heading-like paragraphs and plain paragraphs with the same text
                "repeat": ex2.submit(emit, "Chunking_gen_repeat_quick.cfg" if q else "Chunking_gen_repeat_thorough.cfg"),
                "hist": ex2.submit(ctx.tlc, "ChunkReuseHist", "ChunkReuse_gen.cfg", workers=1, collect=True, count=False,
                                   timeout=3000, jvm=JVM_SMALL),
                "sim": ex2.submit(emit, "Chunking_sim.cfg", simulate=150 if q else 4000, depth=13),
            }
            gen, lists, bound, tree, skip, pdfgen, pdfsim, sim = [e[k].result() for k in
                                                                  ("gen", "lists", "bound", "tree", "skip", "pdfgen", "pdfsim", "sim")]
            hists = e["hist"].result()["cases"]
            hollow = e["hollow"].result()
            hollow["cases"] += e["hflush"].result()["cases"]
            # two elements of one text class on the same page cannot be told apart by the layout's heading list
            def _distinct_pages(c):
                pgs = [x["pg"] for x in c["doc"] if x.get("t")]
                return len(pgs) == len(set(pgs))
            repeat = [c for c in e["repeat"].result()["cases"] if _distinct_pages(c)]
            if e["gap"] is not None:
                gen["cases"] += e["gap"].result()["cases"]
        for f, (_, _, kw) in zip(futs, jobs):
            r = f.result()
            if not kw:   # measured state counts of the exhaustive runs (negative controls are not counted)
                ctx.states += r["distinct"]
                ctx.transitions += r["generated"]
    ctx.exhaustive = True
    seen, cases = set(), []
    for c in tree["cases"] + skip["cases"] + sim["cases"]:
        c["tree"] = True   # also chunked with MinHeadingLevel 1, 2, 4, 5, 6
    for c in tree["cases"] + skip["cases"]:
        c["lean"] = True   # one-word paragraphs: the size presets add nothing
    ctx.extra["cases_repeated_texts"] = len(repeat)
    for c in gen["cases"] + lists["cases"] + bound["cases"] + tree["cases"] + skip["cases"] + hollow["cases"] + repeat + sim["cases"]:
        k = json.dumps([c["doc"], c["pages"]])
        if k not in seen:
            seen.add(k)
            cases.append(c)
    if not gen["cases"] or not sim["cases"]:
        raise vlib.MachineryError("TLC emitted no documents")
    ctx.extra["cases_exhaustive"] = len(gen["cases"])
    ctx.extra["cases_exhaustive_lists"] = len(lists["cases"])
    ctx.extra["cases_exhaustive_boundary_sizes"] = len(bound["cases"])
    ctx.extra["cases_hollow_elements"] = len(hollow["cases"])
    ctx.extra["cases_heading_trees"] = len(tree["cases"]) + len(skip["cases"])
    ctx.extra["cases_simulated"] = len(sim["cases"])
    tm = 150 if q else 40
    for i, c in enumerate(cases):
        c["tm"] = tm
        c["heavy"] = (i % (32 if q else 4) == 0)   # the 32 000-character presets on a fraction of the documents
    for c in (cases[len(gen["cases"]) // 3], cases[-1]):
        ctx.sample({"doc": c["doc"], "pages": c["pages"], "expected_paths": [e["path"] for e in c["els"]], "layout_chunker": c["lnorm"]})
    res = absorb(ctx, ctx.run_driver(["c12", "replay"], cases))
    r2events = [e for r in res if r["ok"] for e in (r.get("events") or [])]
    # the PDF entry point: documents over the alphabet layout heuristics can carry, 1-3 pages, <= 5 elements per page,
    # through tabula.Open(pdf).Document() / Chunks() / ToMarkdown()
    seen, pdfcases = set(), []
    for c in pdfgen["cases"] + pdfsim["cases"]:
        k = json.dumps(c["doc"])
        per = {}
        for e in c["doc"]:
            per[e["pg"]] = per.get(e["pg"], 0) + 1
        if k in seen or len(c["pages"]) > 3 or any(v > 5 for v in per.values()):
            continue
        seen.add(k)
        c["tm"] = 12 if q else 25
        pdfcases.append(c)
    if not pdfcases:
        raise vlib.MachineryError("TLC emitted no PDF documents")
    ctx.extra["cases_pdf"] = len(pdfcases)
    ctx.sample({"pdf_doc": pdfcases[len(pdfcases) // 2]["doc"], "pages": pdfcases[len(pdfcases) // 2]["pages"]})
    pres = absorb(ctx, ctx.run_driver(["c12", "pdf"], pdfcases), label="pdf")
    r2events += [e for r in pres if r["ok"] for e in (r.get("events") or [])]
    # reuse histories (ChunkReuse.tla): one object per configuration chunks A, B, A ... / A and B from two goroutines
    if not hists:
        raise vlib.MachineryError("TLC emitted no call histories")
    rnd = random.Random(ctx.seed)
    ln = [c for c in cases if c["lnorm"] and c["doc"]]
    deep = [c for c in ln if max([e["a"] for e in c["doc"] if e["k"] == "H"] or [0]) >= 4]
    big = [c for c in ln if any(e["k"] == "P" and e["a"] in (3, 6, 7, 8) for e in c["doc"])]
    lst = [c for c in ln if c["doc"][-1]["k"] == "L" and any(e["k"] == "H" for e in c["doc"])]
    anyc = [c for c in cases if not c["lnorm"] and len(c["doc"]) >= 3]
    if not (deep and big and lst and anyc):
        raise vlib.MachineryError("no documents to build reuse histories from")
    npairs = 6 if q else 40
    pairs = []
    for _ in range(npairs):
        pairs += [(rnd.choice(deep), rnd.choice(big)), (rnd.choice(big), rnd.choice(lst)), (rnd.choice(lst), rnd.choice(deep)),
                  (rnd.choice(anyc), rnd.choice(anyc))]
    strip = lambda c: {k: c[k] for k in ("doc", "pages", "lnorm", "els")}
    reuse = [{"docs": [strip(a), strip(b)], "hist": h["hist"], "par": h["par"], "tm": 9} for a, b in pairs for h in hists]
    ctx.extra["cases_reuse_histories"] = len(reuse)
    ctx.sample({"reuse_history": reuse[0]["hist"], "docs": [reuse[0]["docs"][0]["doc"], reuse[0]["docs"][1]["doc"]]})
    rres = absorb(ctx, ctx.run_driver(["c12", "reuse"], reuse), label="reuse")
    r2events += [e for r in rres if r["ok"] for e in (r.get("events") or [])]
    # R3: documents TLC did not generate
    nreq, ndoc, ln = (16, 3, 30) if q else (64, 12, 40)
    rec = ctx.run_driver(["c12", "record"], [{"n": ndoc, "len": ln} for _ in range(nreq)])
    absorb(ctx, [r for r in rec if not r["ok"]])
    recevents = [e for r in rec for e in (r.get("events") or [])]
    ctx.evaluations += sum(r.get("evals", 0) or 0 for r in rec if r["ok"])
    ctx.extra["trace_events_random"] = len(recevents)
    ctx.extra["trace_events_replay_sample"] = len(r2events)
    with ThreadPoolExecutor(max_workers=2) as ex:
        a = ex.submit(_validate_in, ctx, recevents, "random documents", "trace_rec.ndjson")
        b = ex.submit(_validate_in, ctx, r2events, "sample of replayed cases", "trace_r2.ndjson")
        a.result()
        b.result()
    if recevents:
        ctx.sample({"trace_segment_head": recevents[:3]})


def _validate_in(ctx, events, label, fname):
    """validate_trace writes trace.ndjson into the shared spec dir; give each concurrent validation its own copy of the
    spec dir so that two TLC runs never read each other's trace."""
    import os, shutil, copy
    sub = os.path.join(ctx.scratch, "specs_" + fname.split(".")[0])
    shutil.copytree(ctx.specdir, sub)
    view = copy.copy(ctx)
    view.specdir = sub
    view.traces_validated = 0
    view.violations = []
    view.tlc_runs = []
    try:
        _validate(view, events, label)
    finally:
        ctx.traces_validated += view.traces_validated
        ctx.violations.extend(view.violations)
        ctx.tlc_runs.extend(view.tlc_runs)


def replay(ctx, rp):
    """R2 payloads are re-run and compared by the driver; payloads of violations that trace validation found are re-run
    (driver mode tracecase) and judged by ChunkingTrace again."""
    items = [r for r in [rp.get("replay")] + list(rp.get("more") or []) if isinstance(r, dict) and r.get("case")]
    traced = [r["case"] for r in items if r.get("via") == "tracecase"]
    if items and items[0].get("via") == "pdf":
        return replay_generic(ctx, rp, ["c12", "pdf"])
    if items and items[0].get("via") == "reuse":
        return replay_generic(ctx, rp, ["c12", "reuse"])
    if not traced:
        return replay_generic(ctx, rp, ["c12", "replay"])
    res = ctx.run_driver(["c12", "tracecase"], traced)
    events = [e for r in res for e in (r.get("events") or [])]
    _validate(ctx, events, "replay")
    for v in ctx.violations:
        print("REPRODUCED sig=%s: %s" % (v["sig"], v["what"][:400]))
    if ctx.violations:
        print("VIOLATION property=%s replay=%s" % (ctx.prop, "(replayed)"))
        return 1
    print("not reproduced: %d case(s) pass on the current tree" % len(traced))
    return 0
