"""C09 — layout analysis never loses, invents or duplicates text (LayoutConserve.tla)."""
from lib import vlib
from checks.common import absorb, replay_generic

NOTES = """Whitespace is free. The bag comparison is made per fragment text (unique 5-letter tokens), except for pages made of
single characters or right-to-left runs, where the whole multiset of non-whitespace characters is compared. An exact duplicate
(same text, same origin) may or may not be removed. Whitespace-only fragments are not required anywhere. The public API paths
(Text, ByColumn, JoinParagraphs, PreserveLayout, Lines, Paragraphs, Blocks, Elements) are exercised for pages with integer
geometry and WinAnsi text; scaled / inverted / RTL / character-level pages go through the detector API only."""

EVIDENCE = dict(
    level="model_checking",
    rule="cases = all 405 abstract pages of LayoutConserveMC.tla (1-3 columns x 2-4 rows x full/ragged/sparse fill x 28 features: "
         "stick-out word, tiny line, spanning title, in-column heading, bullets, duplicate layer, character-level, scale x10 / x0.1, "
         "inverted Y, RTL, space-only fragment, short last lines, justified, lists, fine print, wide title, margin numbers, raised marker, offset page box, line-end hyphen / soft hyphen / dash), laid out on exact coordinates; every stage "
         "(lines, columns, paragraphs, blocks, reading order, sections) and rendering (detector texts, analyzer elements, 11 public API "
         "modes) is judged by the contract's guards and the recorded Stage/Render events are validated by LayoutConserveTrace.tla; "
         "the composition lemma of the contract is checked by TLC over a 4-element universe. Non-trivial = >= 2 columns or a feature.",
    assumptions=["fragment identity in stage results is (text, x, y)", "pdfdoc.BuildSimple places fragments exactly"],
)


def run(ctx):
    gen = ctx.tlc("LayoutConserveMC", "LayoutConserve_gen.cfg", workers=1, collect=True)
    cases = gen["cases"]
    if not cases:
        raise vlib.MachineryError("no pages")
    ctx.exhaustive = True
    ctx.sample(cases[len(cases) // 3])
    res = absorb(ctx, ctx.run_driver(["c09", "replay"], cases))
    mach = [r for r in res if (r.get("sig") or "").startswith("MACHINERY")]
    if mach:
        raise vlib.MachineryError(mach[0]["what"])
    events = [e for r in res if r["ok"] for e in r.get("events", [])]
    if events:
        for part in split_on(events, "Page", 20000):
            tv = ctx.validate_trace("LayoutConserveTrace", "LayoutConserveTrace.cfg", part)
            if tv["accepted"]:
                ctx.traces_validated += sum(1 for e in part if e["event"] == "Page")
            else:
                ev = part[tv["depth"] - 1] if 0 < tv["depth"] <= len(part) else None
                ctx.violation("C09:trace", "LayoutConserveTrace rejects %s" % vlib.json.dumps(ev)[:600], {"event": ev})


def split_on(events, name, size):
    part = []
    for e in events:
        if e["event"] == name and len(part) >= size:
            yield part
            part = []
        part.append(e)
    if part:
        yield part


def replay(ctx, rp):
    return replay_generic(ctx, rp, ["c09", "replay"])
