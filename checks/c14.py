"""C14 — chunk exports parse back to the same chunks (Export.tla, Csv.tla)."""
from concurrent.futures import ThreadPoolExecutor
from lib import vlib
from checks.common import absorb, replay_generic

NOTES = """
Interpretation choices (soundness first):
* "A standard parser": JSON and the vector-DB formats are parsed with encoding/json (UseNumber); JSON Lines
  without pretty printing must be one JSON value per non-empty line; with PrettyPrint the output is read as a
  stream of concatenated JSON values (a line-oriented JSONL reader would reject it, but the user asked for
  indentation explicitly - not asserted).  CSV/TSV are parsed with the harness's RFC 4180 reader (Csv.tla's
  automaton, validated against the TLC-enumerated runs before it is trusted): LF and CRLF both end a record,
  blank lines are skipped (as encoding/csv and Python's csv do), bare CR outside quotes / a quote inside an
  unquoted field / text after a closing quote / an unterminated quote are errors; TSV = the same grammar with
  TAB as delimiter.  encoding/csv is not the oracle: it rewrites CRLF inside quoted fields.
* "The same values" is read up to omission of zero values: a field missing from the parsed output stands for
  "", 0, false, [] (omitempty, sparse meta_ columns and the never-written zero counters are value-preserving).
* Field names are the export schema of the pinned code (struct tags / column names).  With a header row the
  columns are found by name (their order is not asserted); without one the positions are the spec's column
  list: standard columns in their fixed order, then the sorted meta_ columns of the keys some chunk of the
  batch carries.
* A list-valued field (section_path, child_ids, element_types) in a CSV/TSV cell has no prescribed encoding:
  it is compared (against the writer's own [a,b] convention) only when no element contains a comma;
  otherwise only the presence of the cell in the right column is required.  JSON carries lists natively and
  is compared exactly.
* Configuration is respected, not questioned: with IncludeText/IncludeMetadata off or a MetadataFields list,
  only the fields the configuration lets through are compared; extra keys in the output are not an error.
* Pinecone export skips chunks without an embedding by design: cases always supply one embedding per chunk.
* A collection is an arbitrary sequence of chunks: what a chunk says about itself (chunk_index, total_chunks,
  document title, id) is independent of where it stands.  Generated collections therefore include merged
  documents (index 0 repeated / not in first place), reversed and filtered ones, and every exported scalar
  must equal the chunk's own field through every exporter (Exporter, BatchExporter at every batch size,
  StreamExporter with its running index, the vector-DB records).  Export.tla states this as the invariants
  PositionIndependent / OwnIndex / OrderEquivariant; the variant IndexFrom = "position" is refuted by TLC.
* Objects keep no state between calls (ExportObj.tla).  Histories of calls run on ONE set of objects: three
  ChunkCollection receivers, one Exporter, one BatchExporter and one StreamExporter built once (CSV with header,
  JSONL, header-less TSV) and reused.  Every Filter*/Search chain, the collection's own ToJSONL/ToJSON/ToCSV/ToTSV,
  the read-only accessors (Statistics, GetAllSections, GetPageRange, ToMarkdown) and every export must (1) return
  what fresh objects return and (2) leave EVERY receiver as a deep snapshot taken before the history (same chunk
  pointers, same order, same field values) - also after the caller appends to a filter RESULT's slice.  The
  documentation does not promise that a result holds copies of the chunks (it holds the same *Chunk values), so
  no chunk field is modified through a result and no independence of the chunks themselves is asserted.
  rag.ChunkCollection has no sort or merge operation.  An Exporter's format is fixed at construction, so
  "several formats in sequence" is exercised through the collection's own To* methods and through collections
  with different metadata key sets going through one CSV exporter.  Goroutines filtering / exporting one
  collection run under the Go race detector (driver built with -race); their results must be the sequential ones.
* Files (ExportFile.tla): Exporter.ExportToFile, ChunkCollection.ExportToFile, BatchExporter.ExportToFiles and a
  StreamExporter over an *os.File the caller created, with the destination initially absent, empty, or holding an
  earlier export that is longer (the collection as indented JSON, three times) or shorter (the JSON export of an
  empty collection), and histories of up to three exports to the same path (whole collection / filtered selection,
  any order, any formats).  After every call each file the call wrote must hold exactly the bytes of the in-memory
  export of the same call and parse back to that call's chunks.  A batch file of an earlier, larger export that
  the current call does not write is not the call's business (stale extra batch files are not asserted).
* Batch size <= 0 (no progress) belongs to C02, not here.  Invalid UTF-8 is not generated (JSON cannot carry it).
* Every ChunkCollection filter is asserted by its documented meaning (listed in Export.tla above Sat).
  Search(k) "containing a keyword (case-insensitive)" is read as: the lower-cased text contains the lower-cased
  keyword as a contiguous run of characters (the empty keyword matches everything).  "Lower-cased" is the Unicode
  simple lower-case mapping, given to the spec as an explicit finite table (LowerPairs) over a case alphabet with
  pairs of different kinds: same length (A/a, U+00C9/U+00E9, U+03A3/U+03C3), length-changing (U+0130 -> i,
  KELVIN SIGN -> k, U+023A -> U+2C65, U+1E9E -> U+00DF), and letters that case folding but not lower-casing
  identifies (final sigma, long s), plus digit, emoji, NUL.  The expectation comes from that table; the harness
  only cross-checks the table against unicode.ToLower of the characters it renders (a disagreement is a
  machinery error).  An implementation that used full case folding (sigma = final sigma) would differ from
  this reading - it is the reading the task fixed.  FilterBySection is exact (no case mapping);
  FilterByElementType compares ASCII identifiers without case.  In search cases a text is either made of
  one-character tokens or of non-overlapping words, with keywords of the same sort, so substring search on the
  rendered text equals containment of token sequences.
"""

EVIDENCE = dict(
    level="model_checking",
    rule="cases = (A) every single-chunk collection with text x title x section over the adversarial text set x 8 "
         "formats, (B) collections of <= MaxN chunk archetypes x every export configuration (text/metadata on-off, "
         "field lists, flatten, header, pretty, id column) x JSON/JSONL/CSV/TSV + 4 vector-DB record formats, "
         "(C) batch sizes 1..n+1 and the stream exporter, (D) filter chains of <= 2 of 21 predicates, (E) filtered "
         "collections exported, (Q) per group of case-related characters a collection with a chunk for every text of <= 3 "
         "characters x every keyword of <= 2 characters in either case x chains (Search, Search+MaxTokens, Lists+Search, "
         "FilterBySection, Search+Search) - all enumerated; chunk metadata (index, total, title) belongs to the chunk "
         "archetype, not to its position, so collections with the index-0 chunk anywhere / repeated occur in B, C, E - "
         "by TLC from ExportMC with the expected records computed by Export.tla; each case is run on the real "
         "exporters and parsed back with encoding/json / the validated RFC 4180 reader.  Non-trivial = a collection "
         "with >= 1 adversarial (non-word) token in id/text/title/section/path; distinct by case hash.  Random larger "
         "collections are validated by ExportTrace.tla.  Objects: every history of <= MaxLen calls over a call alphabet "
         "(filter chains with/without append-to-result, To* of the collection, read accessors, shared Exporter / "
         "BatchExporter / StreamExporter on three collections with different key sets) x 3 exporter configurations from "
         "ExportObjMC, each run on one set of objects and checked call by call against the fresh-object expectation and a "
         "deep receiver snapshot; random longer histories validated by ExportObjTrace.tla; goroutines on one collection "
         "under the race detector.  Files: every history of <= 3 file exports (4 entry points x whole / filtered x formats) x 4 "
         "initial states of the destination from ExportFileMC (quick: every 2-export history continued by a seeded third of the calls), file bytes "
         "compared with the in-memory export of the same call and parsed back; random longer histories by ExportFileTrace.tla.",
    assumptions=["field names and column layout of the pinned export schema are the contract (see NOTES)",
                 "list cells in CSV/TSV are only bound when no element contains a comma",
                 "the harness's RFC 4180 reader is trusted after agreeing with Csv.tla on every enumerated input",
                 "TLC 1.8.0, the CommunityModules Json module and Go's encoding/json are trusted"],
)


def dedupe(cases):
    seen, out = set(), []
    for c in cases:
        k = vlib.json.dumps(c, sort_keys=True)
        if k not in seen:
            seen.add(k)
            out.append(c)
    return out


def run(ctx):
    q = ctx.tier == "quick"
    # R1: the RFC 4180 lemma Read(Write(rows)) = rows, negative control: a writer that
    # does not double embedded quotes must be refuted
    # the small independent TLC runs go side by side with the large one (quick tier: wall time is JVM starts)
    pool = ThreadPoolExecutor(max_workers=11)
    side = [pool.submit(ctx.tlc, "CsvMC", "Csv_mc_lemma_quick.cfg" if q else "Csv_mc_lemma.cfg", workers=4, timeout=1800, count=False),
            pool.submit(ctx.tlc, "CsvMC", "Csv_mc_bad.cfg", workers=2, expect_violation=True, extra=["-noGenerateSpecTE"]),
            pool.submit(ctx.tlc, "ExportMC", "Export_mc_impl.cfg", workers=2, expect_violation=True, extra=["-noGenerateSpecTE"]),
            # ... and so must the variant that writes a chunk's position in the exported slice for an index of 0
            pool.submit(ctx.tlc, "ExportMC", "Export_mc_impl_index.cfg", workers=2, expect_violation=True, extra=["-noGenerateSpecTE"])]
    obj = [pool.submit(ctx.tlc, "ExportObjMC", cfg, workers=4, collect=True, timeout=1800, count=False)
           for cfg in (["ExportObj_mc_quick.cfg"] if q else ["ExportObj_mc_quick.cfg", "ExportObj_mc_full.cfg"])]
    side += [pool.submit(ctx.tlc, "ExportObjMC", "ExportObj_mc_impl_inplace.cfg", workers=2, expect_violation=True, extra=["-noGenerateSpecTE"]),
             pool.submit(ctx.tlc, "ExportObjMC", "ExportObj_mc_impl_cache.cfg", workers=2, expect_violation=True, extra=["-noGenerateSpecTE"])]
    fobj = pool.submit(ctx.tlc, "ExportFileMC", "ExportFile_mc_quick.cfg", workers=4, collect=True, timeout=1800, count=False)
    side.append(pool.submit(ctx.tlc, "ExportFileMC", "ExportFile_mc_impl.cfg", workers=2, expect_violation=True, extra=["-noGenerateSpecTE"]))
    big = pool.submit(ctx.tlc, "ExportMC", "Export_mc_quick.cfg" if q else "Export_mc_thorough.cfg", workers=8,
                      collect=True, timeout=3000, jvm="-Xmx12g" if not q else None, count=False)
    # the harness's CSV reader must agree with the automaton on every enumerated input
    gen = ctx.tlc("CsvMC", "Csv_gen_quick.cfg" if q else "Csv_gen_thorough.cfg", workers=1 if q else 4,
                  collect=True, timeout=1800)
    csvcases = gen["cases"]
    if not q:
        csvcases = csvcases + ctx.tlc("CsvMC", "Csv_gen_lemma.cfg", workers=4, collect=True, count=False, timeout=1800)["cases"]
    if not csvcases:
        raise vlib.MachineryError("Csv.tla emitted no reader cases")
    bad = [r for r in ctx.run_driver(["c14", "csvreader"], csvcases) if not r["ok"]]
    if bad:
        raise vlib.MachineryError("the harness's RFC 4180 reader disagrees with Csv.tla: %s" % bad[0].get("what"))
    ctx.extra["csv_reader_cases"] = len(csvcases)

    # R1 + R2: the export machine: invariants checked and cases emitted by the same exhaustive run
    exp = big.result()
    done = [f.result() for f in side]          # re-raises a MachineryError of a side run
    pool.shutdown()
    objruns = [f.result() for f in obj]
    filerun = fobj.result()
    for r in [exp, done[0], filerun] + objruns:         # counted here, in one thread (the controls are not counted)
        ctx.states += r["distinct"]
        ctx.transitions += r["generated"]
    cases = dedupe(exp["cases"])
    if not cases:
        raise vlib.MachineryError("ExportMC emitted no cases")
    ctx.exhaustive = True
    modes = {}
    for c in cases:
        kk = c["mode"] + ("/" + c["fmt"] if c["mode"] != "filter" else "")
        modes[kk] = modes.get(kk, 0) + 1
    ctx.extra["cases_by_mode"] = modes
    for want in ("csv", "jsonl"):
        for c in cases:
            if c["mode"] == "export" and c["fmt"] == want and len(c["chunks"]) == 1 and len(c["chunks"][0]["text"]) > 2:
                ctx.sample({"fmt": c["fmt"], "chunk_text": c["chunks"][0]["text"], "chunk_title": c["chunks"][0]["title"],
                            "expected_record_top": c["batches"][0]["recs"][0]["top"]})
                break
    for c in cases:
        if c["mode"] == "batch" and len(c["batches"]) > 1:
            ctx.sample({"mode": "batch", "fmt": c["fmt"], "size": c["size"], "chunks": len(c["chunks"]),
                        "expected_batches": [[b["start"], b["end"]] for b in c["batches"]]})
            break
    for c in cases:
        if c["mode"] == "filter" and len(c["preds"]) == 2 and c["sel"]:
            ctx.sample({"mode": "filter", "preds": c["preds"], "expected_ids": c["sel"]})
            break
    res = ctx.run_driver(["c14", "replay"], cases)
    tab = [r for r in res if r.get("clause") == "table"]
    if tab:
        raise vlib.MachineryError("the case table of Export.tla disagrees with the Unicode data of the harness: %s" % tab[0].get("what"))
    absorb(ctx, res)

    # R3: random larger collections, every operation validated by ExportTrace.tla
    nreq, nseg, mx = (8, 40, 10) if q else (32, 120, 12)
    rec = ctx.run_driver(["c14", "record"], [{"n": nseg, "max": mx} for _ in range(nreq)])
    ev = [e for r in rec for e in r.get("events", [])]
    if not ev:
        raise vlib.MachineryError("record driver logged no events")
    ctx.evaluations += sum(1 for e in ev if e["event"] == "Begin")
    runs = 0
    while ev and runs < (6 if q else 20):
        runs += 1
        tv = ctx.validate_trace("ExportTrace", "ExportTrace.cfg", ev)
        if tv["accepted"]:
            ctx.traces_validated += sum(1 for e in ev if e["event"] == "Begin")
            break
        line = tv["depth"]
        if line < 1 or line > len(ev):
            raise vlib.MachineryError("trace validation stopped at an impossible depth %d" % line)
        e = ev[line - 1]
        start = max(i for i in range(line) if ev[i]["event"] == "Begin")
        beg = ev[start]
        ctx.traces_validated += sum(1 for x in ev[:start] if x["event"] == "Begin")
        what = ("ExportTrace rejects the recorded %s/%s operation at event %d (%s): the records parsed back from the "
                "real output are not the ones Export.tla allows%s"
                % (beg.get("mode"), beg.get("fmt"), line, e.get("event"), (": " + e["err"]) if "err" in e else ""))
        ctx.violation("C14:trace:%s:%s" % (beg.get("mode"), beg.get("fmt")), what,
                      {"trace_segment": ev[start:line], "rejected_line": line})
        nxt = [i for i in range(line, len(ev)) if ev[i]["event"] == "Begin"]
        ev = ev[nxt[0]:] if nxt else []
    ctx.sample({"trace_events": sum(len(r.get("events", [])) for r in rec)})
    objects(ctx, q, objruns)
    files(ctx, q, filerun)
    ctx.notes.append(NOTES)


def objects(ctx, q, objruns):
    """Objects with a state across calls (ExportObj.tla): receivers stay unchanged, reused exporters are pure."""
    import glob, os
    for n, run in enumerate(objruns):
        lines = run["cases"]
        hist = [x for x in lines if x.get("kind") == "history"]
        if not hist or not any(x.get("kind") == "callspec" for x in lines) or not any(x.get("kind") == "colls" for x in lines):
            raise vlib.MachineryError("ExportObjMC emitted no histories / call specifications")
        res = ctx.run_driver(["c14", "objects"], lines)
        tab = [r for r in res if r.get("clause") == "table"]
        if tab:
            raise vlib.MachineryError("the case table of Export.tla disagrees with the Unicode data of the harness: %s" % tab[0].get("what"))
        absorb(ctx, [r for r in res if r.get("evals")])
        ctx.extra["object_histories_%d" % n] = len(hist)
        if n == 0:
            spec = dict(((x["xc"], x["call"]), x) for x in lines if x.get("kind") == "callspec")
            h = hist[len(hist) // 2]
            ctx.sample({"history_on_one_set_of_objects": ["%s(k=%s)" % (spec[(h["xc"], c)]["op"], spec[(h["xc"], c)]["k"]) for c in h["calls"]],
                        "shared_exporter_format": spec[(h["xc"], h["calls"][0])]["xfmt"]})
    # random longer histories (one session of collections per request), validated by ExportObjTrace.tla
    nreq, nseg, ln = (2, 20, 6) if q else (12, 60, 8)
    rec = ctx.run_driver(["c14", "objrecord"], [{"n": nseg, "len": ln} for _ in range(nreq)])
    for r in rec:
        ev = r.get("events", [])
        if len(ev) < 3:
            raise vlib.MachineryError("object record driver logged no events")
        ctx.evaluations += sum(1 for e in ev if e["event"] == "Call")
        tv = ctx.validate_trace("ExportObjTrace", "ExportObjTrace.cfg", ev)
        if tv["accepted"]:
            ctx.traces_validated += sum(1 for e in ev if e["event"] == "Reset")
            continue
        line = tv["depth"] + 1          # line 1 (Open) is consumed by the initial state
        if line < 2 or line > len(ev):
            raise vlib.MachineryError("object trace validation stopped at an impossible depth %d" % tv["depth"])
        e = ev[line - 1]
        start = max(i for i in range(line) if ev[i]["event"] == "Reset")
        ctx.traces_validated += sum(1 for x in ev[:start] if x["event"] == "Reset")
        before = ["%s(%s)" % (x.get("op"), x.get("k")) for x in ev[start + 1:line - 1]]
        ctx.violation("C14:trace-object:%s" % e.get("op"),
                      "ExportObjTrace rejects call %s(k=%s) after %s on the same objects: %s" % (
                          e.get("op"), e.get("k"), before,
                          e.get("err") or e.get("why") or "ids %s header %s" % (vlib.json.dumps(e.get("ids")), vlib.json.dumps(e.get("cols")))),
                      {"open": ev[0], "trace_segment": ev[start:line], "rejected_line": line})
    # goroutines on one collection, under the race detector
    racelog = os.path.join(ctx.scratch, "race14")
    cres = ctx.run_driver(["c14", "concurrent"], [{"goroutines": 8, "rounds": 150 if q else 1500} for _ in range(2 if q else 8)],
                          race=True, env={"GORACE": "log_path=%s exitcode=0 halt_on_error=0" % racelog})
    absorb(ctx, cres)
    races = glob.glob(racelog + "*")
    if races:
        txt = open(races[0]).read()
        where = [l.strip() for l in txt.splitlines() if "/rag/" in l or "tabula/" in l][:6]
        ctx.violation("C14:race", "the Go race detector reported a data race between goroutines filtering / exporting one "
                      "ChunkCollection: %s" % " | ".join(where), {"race_report": txt[:6000]})
    ctx.extra["concurrent_runs_under_race_detector"] = len(cres)


def files(ctx, q, run):
    """File-writing entry points with the state of the destination as a variable (ExportFile.tla)."""
    lines = run["cases"]
    hist = [x for x in lines if x.get("kind") == "fhistory"]
    if not hist or not any(x.get("kind") == "fcallspec" for x in lines) or not any(x.get("kind") == "fcoll" for x in lines):
        raise vlib.MachineryError("ExportFileMC emitted no histories / call specifications")
    if q:
        # every history of one and two exports (as prefixes), each continued by a seeded third of the calls
        import random
        ncalls = max(max(h["calls"]) for h in hist)
        third = set(random.Random(ctx.seed).sample(range(1, ncalls + 1), max(1, ncalls // 3)))
        hist = [h for h in hist if h["calls"][-1] in third]
        lines = [x for x in lines if x.get("kind") != "fhistory"] + hist
    res = ctx.run_driver(["c14", "files"], lines)
    tab = [r for r in res if r.get("clause") == "table"]
    if tab:
        raise vlib.MachineryError("the case table of Export.tla disagrees with the Unicode data of the harness: %s" % tab[0].get("what"))
    absorb(ctx, [r for r in res if r.get("evals")])
    ctx.extra["file_histories"] = len(hist)
    spec = dict((x["call"], x) for x in lines if x.get("kind") == "fcallspec")
    h = hist[len(hist) // 2]
    ctx.sample({"exports_to_one_path": ["%s(%s, %d predicates)" % (spec[c]["op"], spec[c]["fmt"], len(spec[c]["preds"])) for c in h["calls"]],
                "destination_initially": h["init"]})
    nreq, nseg, ln = (2, 15, 5) if q else (10, 60, 6)
    rec = ctx.run_driver(["c14", "filerecord"], [{"n": nseg, "len": ln} for _ in range(nreq)])
    for r in rec:
        ev = r.get("events", [])
        if len(ev) < 3:
            raise vlib.MachineryError("file record driver logged no events")
        ctx.evaluations += sum(1 for e in ev if e["event"] == "Call")
        tv = ctx.validate_trace("ExportFileTrace", "ExportFileTrace.cfg", ev)
        if tv["accepted"]:
            ctx.traces_validated += sum(1 for e in ev if e["event"] == "Reset")
            continue
        line = tv["depth"] + 1          # line 1 (Open) is consumed by the initial state
        if line < 2 or line > len(ev):
            raise vlib.MachineryError("file trace validation stopped at an impossible depth %d" % tv["depth"])
        e = ev[line - 1]
        start = max(i for i in range(line) if ev[i]["event"] == "Reset")
        ctx.traces_validated += sum(1 for x in ev[:start] if x["event"] == "Reset")
        before = ["%s(%s)" % (x.get("op"), x.get("fmt")) for x in ev[start + 1:line - 1]]
        ctx.violation("C14:trace-file:%s" % e.get("op"),
                      "ExportFileTrace rejects %s(%s) with the destination initially %s after %s: %s" % (
                          e.get("op"), e.get("fmt"), ev[start].get("init"), before,
                          e.get("err") or vlib.json.dumps(e.get("outs"))),
                      {"open": ev[0], "trace_segment": ev[start:line], "rejected_line": line})


def replay(ctx, rp):
    return replay_generic(ctx, rp, ["c14", "replay"])
